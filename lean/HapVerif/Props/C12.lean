import HapVerif.Lemmas.C12
import HapVerif.Generated.Facts
/-!
# C12 — a change is never lost to a transient failure: the next reconcile applies it

Model: `HapVerif.C12.FW` = the C05 stores (backends + shard files, hosts + frontend maps) plus one
tcp service, the backend map files, what haproxy.cfg says about the host maps, what the running
HAProxy holds, and the two flags of `instance` (`rewriteOwed`, `reloadOwed`); `upd o sh f` = one
whole `instance.HAProxyUpdate` with fault `f` injected (`Fault`: tcp maps, frontend maps, backend
maps, crt-lists, Sends of the dynamic update, haproxy.cfg, shard file k, reload request, reload
result); `qrun` = one run of the reload queue worker (`Services.reloadHAProxy`).  The two retry
paths: `IngressReconciler.Reconcile` requeues the same item after an error (`upd .none` on whatever
batch accumulated, possibly none), the worker puts its item back after a failed `Reload` (`qrun`).

Spec: `DiskGood` (every file = rendering of the in-memory model) ∧ `RunGood` (HAProxy = the files).

`retry_converges` / `retry_converges_queue` hold at FULL strength for the code as it is
(`Opt.repaired = true`, the two `fix:` commits 5b084c3 and 17543b6): whatever fault hit whatever
update, any number of times, the next fault-free reconcile with an empty batch (plus, with a reload
queue, one fault-free run of the worker) ends with files = model and HAProxy = files.  The code
before the repair (`Opt.repaired = false`: the flags are never looked at) is kept for the
historical witnesses, one per fault point and finding signature.

The custom HTTP response files (`errorfiles/<code>.http`, `lua/responses.lua`; layer `RW` / `updR` of the
model): `retry_converges_resp` / `retry_converges_queue_resp` extend the two theorems to them and to the
faults at them, `resp_files_loadable` says that haproxy.cfg never names a response file that does not
exist.  `ROpt.gated = true` (response files written only when `globalOld == nil || global != globalOld`)
is not the code that exists; two witnesses show what such a gate loses.
-/
namespace HapVerif.C12
open HapVerif.C05
variable {p : Nat}

theorem run_append (o : Opt) (sh : Sh p) (w : FW p) (a b : List (Ev p)) :
    run o sh w (a ++ b) = run o sh (run o sh w a) b := by
  simp [run, List.foldl_append]

theorem allOk_append (o : Opt) (sh : Sh p) (a b : List (Ev p)) : ∀ (w : FW p),
    allOk o sh w (a ++ b) = (allOk o sh w a && allOk o sh (run o sh w a) b) := by
  induction a with
  | nil => intro w; simp [allOk, run]
  | cons e a ih => intro w; simp [allOk, run, ih, Bool.and_assoc]

/-- the invariant holds along every disciplined history, whatever fails in it -/
theorem run_jinv {o : Opt} {sh : Sh p} (wf : sh.WF) (hrep : o.repaired = true) (evs : List (Ev p)) :
    ∀ {w : FW p}, JInv o sh w → allOk o sh w evs = true → JInv o sh (run o sh w evs) := by
  induction evs with
  | nil => intro w h _; exact h
  | cons e evs ih =>
    intro w h hok
    simp only [allOk, Bool.and_eq_true] at hok
    have hstep : JInv o sh (step o sh w e) := by
      cases e with
      | upd f => exact upd_jinv wf hrep h f
      | qrun f => exact qrun_jinv h f
      | acq x c => exact jinv_step_batch wf h _ hok.1 (fun _ h => by cases h) (fun _ h => by cases h)
      | rem xs => exact jinv_step_batch wf h _ hok.1 (fun _ h => by cases h) (fun _ h => by cases h)
      | hacq x c => exact jinv_step_batch wf h _ hok.1 (fun _ h => by cases h) (fun _ h => by cases h)
      | hrem xs => exact jinv_step_batch wf h _ hok.1 (fun _ h => by cases h) (fun _ h => by cases h)
      | tcp v => exact jinv_step_batch wf h _ hok.1 (fun _ h => by cases h) (fun _ h => by cases h)
      | full => exact jinv_step_batch wf h _ hok.1 (fun _ h => by cases h) (fun _ h => by cases h)
    exact ih hstep hok.2

/-- one fault-free update from the invariant: past writeConfig, no error -/
theorem upd_none_outcome {o : Opt} {sh : Sh p} (wf : sh.WF) (hrep : o.repaired = true) {w : FW p} (hj : JInv o sh w) :
    (upd o sh .none w).err = false ∧ (upd o sh .none w).w.rewriteOwed = false ∧
    FInv o sh (upd o sh .none w).w ∧ DiskGood o sh (upd o sh .none w).w ∧
    (o.queue = false → RunGood sh (upd o sh .none w).w ∧ (upd o sh .none w).w.reloadOwed = false) ∧
    ((upd o sh .none w).w.pending = true ∨ (upd o sh .none w).w.reloadOwed = false) := by
  rcases upd_outcome wf hrep hj .none with ⟨hw, _⟩ | ⟨hro, hf, hd, _, he, hp⟩
  · cases hw
  · exact ⟨(he rfl).1, hro, hf, hd, (he rfl).2 hrep, hp hrep (Or.inl rfl)⟩

/-- **C12, direct reload (`--reload-interval=0`).**  For every shard count, shard function and name
universe, every disciplined history of batches, updates and queue runs with ANY fault in ANY of them
(a file that cannot be written — tcp map, frontend map, backend map, crt-list, haproxy.cfg, shard
file k —, failed runtime commands, a failed reload request, a failed reload), any number of times:
the next reconcile with an empty batch and no fault returns no error, every file holds the
rendering of the in-memory model, HAProxy holds the files, nothing stays owed. -/
theorem retry_converges (o : Opt) (sh : Sh p) (wf : sh.WF) (hrep : o.repaired = true) (hq : o.queue = false)
    (hist : List (Ev p)) (hok : allOk o sh {} hist = true) :
    (upd o sh .none (run o sh {} hist)).err = false ∧
    DiskGood o sh (upd o sh .none (run o sh {} hist)).w ∧ RunGood sh (upd o sh .none (run o sh {} hist)).w ∧
    (upd o sh .none (run o sh {} hist)).w.rewriteOwed = false ∧
    (upd o sh .none (run o sh {} hist)).w.reloadOwed = false := by
  have hj := run_jinv wf hrep hist (jinv_init o sh) hok
  obtain ⟨he, hro, _, hd, hr, _⟩ := upd_none_outcome wf hrep hj
  exact ⟨he, hd, (hr hq).1, hro, (hr hq).2⟩

/-- **C12, reload queue (`--reload-interval>0`).**  The same: after any history with any faults, the
next reconcile with an empty batch followed by one fault-free run of the queue worker ends with
files = model, HAProxy = files, an empty queue and nothing owed. -/
theorem retry_converges_queue (o : Opt) (sh : Sh p) (wf : sh.WF) (hrep : o.repaired = true)
    (hist : List (Ev p)) (hok : allOk o sh {} hist = true) :
    let u := upd o sh .none (run o sh {} hist)
    let r := qrun sh .none u.w
    u.err = false ∧ r.err = false ∧ DiskGood o sh r.w ∧ RunGood sh r.w ∧ r.w.pending = false ∧
    r.w.reloadOwed = false := by
  have hj := run_jinv wf hrep hist (jinv_init o sh) hok
  obtain ⟨he, _, hf, hd, _, hp⟩ := upd_none_outcome wf hrep hj
  obtain ⟨hqe, hqp, hqo, hqr⟩ := qrun_settles hf hp (f := .none) rfl
  exact ⟨he, hqe, qrun_diskGood hd _, hqr, hqp, hqo⟩

/-- a failed runtime command is repaired by the same update: it falls back to a reload -/
theorem admin_fault_converges_at_once (o : Opt) (sh : Sh p) (wf : sh.WF) (hrep : o.repaired = true)
    (hq : o.queue = false) (hist : List (Ev p)) (hok : allOk o sh {} hist = true) (bad : List Nat) :
    (upd o sh (.admin bad) (run o sh {} hist)).err = false ∧
    DiskGood o sh (upd o sh (.admin bad) (run o sh {} hist)).w ∧
    RunGood sh (upd o sh (.admin bad) (run o sh {} hist)).w := by
  have hj := run_jinv wf hrep hist (jinv_init o sh) hok
  rcases upd_outcome wf hrep hj (.admin bad) with ⟨hw, _⟩ | ⟨_, _, hd, _, he, _⟩
  · cases hw
  · exact ⟨(he rfl).1, hd, ((he rfl).2 hrep hq).1⟩

/-! ### non-vacuity, and the historical witnesses: one per fault point and finding signature

`oldD / oldQ / oldA` = the code before the repair (`fixed:` entries of known-findings.txt); every
history below is also a corpus case of the harness (`c12instCorpus`, `c12worldCorpus`), run on the
real code.  Each witness states what the old code did AND what the current code does. -/

def s0 : Sh 2 := { n := 0, shardOf := fun _ => 0 }
def s3 : Sh 2 := { n := 3, shardOf := fun x => if x.val = 0 then 2 else 0 }
theorem s0_wf : s0.WF := by intro x; simp [s0]
theorem s3_wf : s3.WF := by intro x; simp only [s3]; by_cases h : x.val = 0 <;> simp [h]

def oD : Opt := {}
def oQ : Opt := { queue := true }
def oA : Opt := { needACL := fun _ => true }
def oldD : Opt := { repaired := false }
def oldQ : Opt := { queue := true, repaired := false }
def oldA : Opt := { needACL := fun _ => true, repaired := false }

def c4 : Content := ⟨4, 0⟩
def c5 : Content := ⟨5, 0⟩     -- same conf as c4, other address
def c8 : Content := ⟨8, 0⟩     -- other conf

/-- non-vacuity of `retry_converges`: several kinds of fault in one history (runtime command, frontend
maps twice, reload result, haproxy.cfg); right before the retry a rewrite AND a reload are owed, the
files are stale, HAProxy holds yet another state (the runtime command of the last update reached it
before haproxy.cfg failed); right after it nothing is owed -/
example :
    let hist : List (Ev 2) := [.acq 0 c4, .hacq 0 1, .tcp 1, .upd .none,
      .rem [0], .acq 0 c5, .upd (.admin [0]), .hrem [0], .hacq 0 2, .upd .frontMaps, .upd .frontMaps,
      .tcp 2, .upd .reloadResult, .rem [0], .acq 0 c8, .upd .mainCfg]
    let w := run oD s0 {} hist
    let r := upd oD s0 .none w
    allOk oD s0 {} hist = true ∧ w.rewriteOwed = true ∧ w.reloadOwed = true ∧
    w.g.w.store.items 0 = some c8 ∧ w.g.w.disk 0 0 = some c5 ∧ w.run.back 0 = some c4 ∧
    w.h.maps 0 = some (2, false) ∧ w.run.maps 0 = some (1, false) ∧ w.run.tcpMain = 1 ∧
    r.err = false ∧ r.w.g.w.disk 0 0 = some c8 ∧ r.w.run.back 0 = some c8 ∧ r.w.h.maps 0 = some (2, false) ∧
    r.w.run.maps 0 = some (2, false) ∧ r.w.tcp.map = 2 ∧ r.w.run.tcpMain = 2 ∧
    r.w.rewriteOwed = false ∧ r.w.reloadOwed = false := by decide

/-- non-vacuity of `retry_converges_queue`: the worker fails twice, a write fails in between -/
example :
    let hist : List (Ev 2) := [.acq 0 c4, .upd .none, .qrun .reloadSend, .rem [0], .acq 0 c8, .upd .mainCfg,
      .qrun .reloadResult]
    let w := run oQ s0 {} hist
    let r := qrun s0 .none (upd oQ s0 .none w).w
    allOk oQ s0 {} hist = true ∧ w.pending = true ∧ w.rewriteOwed = true ∧ w.run.back 0 = none ∧
    w.g.w.disk 0 0 = some c4 ∧ r.err = false ∧ r.w.g.w.disk 0 0 = some c8 ∧ r.w.run.back 0 = some c8 ∧
    r.w.pending = false := by decide

/-- fault point 1, `change-lost-after-failed-map-write` / `half-written-files-after-fault`: the tcp
sni map cannot be written; the old retry rewrote the crt-list only (it has no guard), the map and
the `listen` section kept the old service, nothing was reloaded -/
theorem lost_after_failed_tcp_map_write :
    let hist : List (Ev 2) := [.tcp 1, .upd .none, .tcp 2, .upd .tcpMaps]
    let old := upd oldD s0 .none (run oldD s0 {} hist)
    let cur := upd oD s0 .none (run oD s0 {} hist)
    allOk oD s0 {} hist = true ∧ (upd oldD s0 .tcpMaps (run oldD s0 {} (hist.take 3))).err = true ∧ old.err = false ∧
    old.w.tcp.want = 2 ∧ old.w.tcp.map = 1 ∧ old.w.tcp.crt = 2 ∧ old.w.tcp.main = 1 ∧ old.w.run.tcpMap = 1 ∧
    cur.err = false ∧ cur.w.tcp.map = 2 ∧ cur.w.tcp.crt = 2 ∧ cur.w.tcp.main = 2 ∧ cur.w.run.tcpMap = 2 := by decide

/-- fault point 2, `change-lost-after-failed-map-write`: the frontend maps cannot be written; the
deferred `Commit()` empties the hosts' changed-sets, the old retry skipped `WriteFrontendMaps`; only a
later change of the hosts brought the maps back -/
theorem lost_after_failed_frontend_map_write :
    let hist : List (Ev 2) := [.hacq 0 1, .upd .none, .hrem [0], .hacq 0 2, .upd .frontMaps]
    let old := upd oldD s0 .none (run oldD s0 {} hist)
    let cur := upd oD s0 .none (run oD s0 {} hist)
    allOk oD s0 {} hist = true ∧ old.err = false ∧
    old.w.h.items 0 = some 2 ∧ old.w.h.maps 0 = some (1, false) ∧ old.w.run.maps 0 = some (1, false) ∧
    (run oldD s0 {} (hist ++ [.upd .none, .hrem [0], .hacq 0 3, .upd .none])).h.maps 0 = some (3, false) ∧
    cur.err = false ∧ cur.w.h.maps 0 = some (2, false) ∧ cur.w.run.maps 0 = some (2, false) := by decide

/-- the first update fails at the frontend maps: the old retry wrote the maps (`frontend.Maps == nil`)
but haproxy.cfg was never written and nothing was ever loaded -/
theorem first_update_failure_leaves_no_cfg :
    let hist : List (Ev 2) := [.acq 0 c4, .hacq 0 1, .upd .frontMaps]
    let old := upd oldD s0 .none (run oldD s0 {} hist)
    let cur := upd oD s0 .none (run oD s0 {} hist)
    allOk oD s0 {} hist = true ∧ old.err = false ∧ old.w.h.maps 0 = some (1, false) ∧
    old.w.g.w.store.items 0 = some c4 ∧ old.w.g.w.disk 0 0 = none ∧ old.w.mainHosts = false ∧ old.w.run.back 0 = none ∧
    cur.err = false ∧ cur.w.g.w.disk 0 0 = some c4 ∧ cur.w.mainHosts = true ∧ cur.w.run.back 0 = some c4 := by decide

/-- fault point 3, `change-lost-after-failed-map-write`: a backend map cannot be written -/
theorem lost_after_failed_backend_map_write :
    let hist : List (Ev 2) := [.acq 0 c4, .upd .none, .rem [0], .acq 0 c8, .upd .backMaps]
    let old := upd oldA s0 .none (run oldA s0 {} hist)
    let cur := upd oA s0 .none (run oA s0 {} hist)
    allOk oA s0 {} hist = true ∧ (upd oldA s0 .backMaps (run oldA s0 {} (hist.take 4))).err = true ∧ old.err = false ∧
    old.w.g.w.store.items 0 = some c8 ∧ old.w.bm 0 = some 1 ∧ old.w.g.w.disk 0 0 = some c4 ∧
    cur.err = false ∧ cur.w.bm 0 = some 2 ∧ cur.w.g.w.disk 0 0 = some c8 ∧ cur.w.run.bm 0 = some 2 := by decide

/-- `update-keeps-failing-after-failed-map-write`: a backend that needs ACLs is added in a batch whose
update fails BEFORE WriteBackendMaps (here: at the tcp maps); its `PathsMap` stayed nil, and from then
on every update that rendered it failed inside the template — also the ones for unrelated changes.
Now the rewrite visits `Items()`, which sets it. -/
theorem update_keeps_failing_after_failed_map_write :
    let hist : List (Ev 2) := [.tcp 1, .upd .none, .acq 0 c4, .tcp 2, .upd .tcpMaps, .upd .none]
    allOk oA s0 {} hist = true ∧
    (upd oldA s0 .none (run oldA s0 {} (hist.take 5))).err = false ∧        -- the retry: "configurations match"
    (upd oldA s0 .none (run oldA s0 {} (hist ++ [.acq 1 c4]))).err = true ∧    -- an unrelated backend is added
    (upd oldA s0 .none (run oldA s0 {} (hist ++ [.acq 1 c4, .upd .none]))).err = false ∧
    (upd oldA s0 .none (run oldA s0 {} (hist ++ [.acq 1 c4, .upd .none, .tcp 3]))).err = true ∧
    (upd oA s0 .none (run oA s0 {} (hist ++ [.acq 1 c4]))).err = false ∧
    (upd oA s0 .none (run oA s0 {} (hist ++ [.acq 1 c4, .upd .none, .tcp 3]))).err = false := by decide

/-- fault point 4, `half-written-files-after-fault`: the tcp crt-list cannot be written; the old retry
wrote it (no guard) but haproxy.cfg kept the old service and nothing was reloaded -/
theorem lost_after_failed_crtlist_write :
    let hist : List (Ev 2) := [.tcp 1, .upd .none, .tcp 2, .upd .crtLists]
    let old := upd oldD s0 .none (run oldD s0 {} hist)
    let cur := upd oD s0 .none (run oD s0 {} hist)
    allOk oD s0 {} hist = true ∧ old.err = false ∧
    old.w.tcp.map = 2 ∧ old.w.tcp.crt = 2 ∧ old.w.tcp.main = 1 ∧ old.w.run.tcpMap = 1 ∧ old.w.run.tcpCrt = 1 ∧
    cur.err = false ∧ cur.w.tcp.main = 2 ∧ cur.w.run.tcpMap = 2 ∧ cur.w.run.tcpCrt = 2 := by decide

/-- fault point 6a, `change-lost-after-failed-cfg-write`: haproxy.cfg cannot be written -/
theorem lost_after_failed_cfg_write :
    let hist : List (Ev 2) := [.acq 0 c4, .upd .none, .rem [0], .acq 0 c8, .upd .mainCfg]
    let old := upd oldD s0 .none (run oldD s0 {} hist)
    let cur := upd oD s0 .none (run oD s0 {} hist)
    allOk oD s0 {} hist = true ∧ old.err = false ∧
    old.w.g.w.store.items 0 = some c8 ∧ old.w.g.w.disk 0 0 = some c4 ∧ old.w.run.back 0 = some c4 ∧
    cur.err = false ∧ cur.w.g.w.disk 0 0 = some c8 ∧ cur.w.run.back 0 = some c8 := by decide

/-- fault point 6b, `change-lost-after-failed-cfg-write`: the second changed shard file cannot be
written: the first one held the new backend, the second one the old; not even a full resync
(`config.Clear()`, everything parsed again) rewrote it, because `Shrink` finds nothing changed -/
theorem lost_after_failed_shard_write :
    let hist : List (Ev 2) := [.acq 0 c4, .acq 1 c4, .upd .none, .rem [0], .acq 0 c8, .rem [1], .acq 1 c8, .upd (.shard 2)]
    let old := upd oldD s3 .none (run oldD s3 {} hist)
    let old2 := upd oldD s3 .none (run oldD s3 {} (hist ++ [.upd .none, .full, .acq 0 c8, .acq 1 c8]))
    let cur := upd oD s3 .none (run oD s3 {} hist)
    allOk oD s3 {} (hist ++ [.upd .none, .full, .acq 0 c8, .acq 1 c8]) = true ∧ old.err = false ∧
    old.w.g.w.disk 0 1 = some c8 ∧ old.w.g.w.disk 2 0 = some c4 ∧ old.w.g.w.store.items 0 = some c8 ∧
    old2.err = false ∧ old2.w.g.w.disk 2 0 = some c4 ∧ old2.w.run.back 0 = some c4 ∧
    cur.err = false ∧ cur.w.g.w.disk 2 0 = some c8 ∧ cur.w.run.back 0 = some c8 := by decide

/-- fault points 8a / 8b, `reload-not-retried-after-failed-reload`: without a reload queue the failed
reload is returned as an error and the reconcile is retried, but the old retry found "old and new
configurations match" and did not reload: the files were right, HAProxy never read them -/
theorem reload_not_retried_after_failed_reload :
    let hist : List (Ev 2) := [.acq 0 c4, .upd .none, .rem [0], .acq 0 c8]
    let old1 := upd oldD s0 .none (upd oldD s0 .reloadSend (run oldD s0 {} hist)).w
    let old2 := upd oldD s0 .none (upd oldD s0 .reloadResult (run oldD s0 {} hist)).w
    let cur1 := upd oD s0 .none (upd oD s0 .reloadSend (run oD s0 {} hist)).w
    let cur2 := upd oD s0 .none (upd oD s0 .reloadResult (run oD s0 {} hist)).w
    allOk oD s0 {} hist = true ∧ (upd oldD s0 .reloadSend (run oldD s0 {} hist)).err = true ∧
    old1.err = false ∧ old1.w.g.w.disk 0 0 = some c8 ∧ old1.w.run.back 0 = some c4 ∧
    old2.err = false ∧ old2.w.g.w.disk 0 0 = some c8 ∧ old2.w.run.back 0 = some c4 ∧
    cur1.err = false ∧ cur1.w.run.back 0 = some c8 ∧ cur2.err = false ∧ cur2.w.run.back 0 = some c8 := by decide

/-- `reload-skipped-after-failed-write` and the reload queue: a write fault in queue mode was lost the
same way (the queue only retried the reload) -/
theorem queue_does_not_help_a_failed_write :
    let hist : List (Ev 2) := [.acq 0 c4, .upd .none, .qrun .none, .rem [0], .acq 0 c8, .upd .mainCfg]
    let old := qrun s0 .none (upd oldQ s0 .none (run oldQ s0 {} hist)).w
    let cur := qrun s0 .none (upd oQ s0 .none (run oQ s0 {} hist)).w
    allOk oQ s0 {} hist = true ∧ old.err = false ∧ old.w.pending = false ∧
    old.w.g.w.store.items 0 = some c8 ∧ old.w.g.w.disk 0 0 = some c4 ∧
    cur.err = false ∧ cur.w.pending = false ∧ cur.w.g.w.disk 0 0 = some c8 ∧ cur.w.run.back 0 = some c8 := by decide

/-! ### the custom HTTP response files -/

theorem runR_append (ro : ROpt) (sh : Sh p) (w : RW p) (a b : List (REv p)) :
    runR ro sh w (a ++ b) = runR ro sh (runR ro sh w a) b := by
  simp [runR, List.foldl_append]

/-- **C12 with the response files, direct reload.**  For every shard count, shard function and name
universe, every disciplined history of batches (the global config with its custom responses is filled
inside full resyncs), updates and queue runs with ANY fault in ANY of them — the faults of
`retry_converges`, plus an errorfile or responses.lua that cannot be written —, any number of times: the
next reconcile without a fault returns no error; every file holds the rendering of the in-memory model,
`errorfiles/<code>.http` and `lua/responses.lua` included; haproxy.cfg names the errorfile iff one is
configured; HAProxy holds all of them; nothing stays owed. -/
theorem retry_converges_resp (ro : ROpt) (sh : Sh p) (wf : sh.WF) (hrep : ro.o.repaired = true)
    (hg : ro.gated = false) (hq : ro.o.queue = false) (hist : List (REv p)) (hok : allOkR ro sh {} hist = true) :
    (updR ro sh (.base .none) (runR ro sh {} hist)).err = false ∧
    DiskGood ro.o sh (updR ro sh (.base .none) (runR ro sh {} hist)).w.fw ∧
    RunGood sh (updR ro sh (.base .none) (runR ro sh {} hist)).w.fw ∧
    RespGood (updR ro sh (.base .none) (runR ro sh {} hist)).w ∧
    RespRunGood (updR ro sh (.base .none) (runR ro sh {} hist)).w ∧
    (updR ro sh (.base .none) (runR ro sh {} hist)).w.fw.rewriteOwed = false ∧
    (updR ro sh (.base .none) (runR ro sh {} hist)).w.fw.reloadOwed = false := by
  have hj := runR_rjinv wf hg hrep hist (rjinv_init ro sh) hok
  have hr := updR_rinv hg hrep sh (.base .none) hj.r
  generalize runR ro sh {} hist = w at hj hr ⊢
  have hj0 := jinv_fwOf (w := w) hj.j
  obtain ⟨he, hro, _, hd, hrun, _⟩ := upd_none_outcome wf hrep hj0
  have hc := (upd_flow ro.o sh .none (fwOf w) hrep).1
  have hpe := (upd_jinv wf hrep hj0 .none).q hq
  rw [updR_real hg] at hr ⊢
  exact ⟨he, hd, (hrun hq).1, hr.a hro hc, hr.b hro hc (hrun hq).2 hpe, hro, (hrun hq).2⟩

/-- **C12 with the response files, reload queue.**  The same: the next reconcile without a fault followed by
one fault-free run of the queue worker. -/
theorem retry_converges_queue_resp (ro : ROpt) (sh : Sh p) (wf : sh.WF) (hrep : ro.o.repaired = true)
    (hg : ro.gated = false) (hist : List (REv p)) (hok : allOkR ro sh {} hist = true) :
    (updR ro sh (.base .none) (runR ro sh {} hist)).err = false ∧
    (qrunR ro sh .none (updR ro sh (.base .none) (runR ro sh {} hist)).w).err = false ∧
    DiskGood ro.o sh (qrunR ro sh .none (updR ro sh (.base .none) (runR ro sh {} hist)).w).w.fw ∧
    RunGood sh (qrunR ro sh .none (updR ro sh (.base .none) (runR ro sh {} hist)).w).w.fw ∧
    RespGood (qrunR ro sh .none (updR ro sh (.base .none) (runR ro sh {} hist)).w).w ∧
    RespRunGood (qrunR ro sh .none (updR ro sh (.base .none) (runR ro sh {} hist)).w).w ∧
    (qrunR ro sh .none (updR ro sh (.base .none) (runR ro sh {} hist)).w).w.fw.pending = false ∧
    (qrunR ro sh .none (updR ro sh (.base .none) (runR ro sh {} hist)).w).w.fw.reloadOwed = false := by
  have hj := runR_rjinv wf hg hrep hist (rjinv_init ro sh) hok
  have hr := qrunR_rinv hg sh .none (updR_rinv hg hrep sh (.base .none) hj.r)
  generalize runR ro sh {} hist = w at hj hr ⊢
  have hj0 := jinv_fwOf (w := w) hj.j
  obtain ⟨he, hro, hf, hd, _, hp⟩ := upd_none_outcome wf hrep hj0
  have hc := (upd_flow ro.o sh .none (fwOf w) hrep).1
  obtain ⟨hqe, hqp, hqo, hqr⟩ := qrun_settles hf hp (f := .none) rfl
  obtain ⟨q1, q2, _⟩ := qrun_flow sh .none (upd ro.o sh .none (fwOf w)).w
  rw [updR_real hg] at hr ⊢
  rw [qrunR_real hg] at hr ⊢
  have hro' : (qrun sh .none (upd ro.o sh .none (fwOf w)).w).w.rewriteOwed = false := by rw [q2]; exact hro
  have hc' : (qrun sh .none (upd ro.o sh .none (fwOf w)).w).w.g.committed = true := by rw [q1]; exact hc
  exact ⟨he, hqe, qrun_diskGood hd _, hqr, hr.a hro' hc', hr.b hro' hc' hqo hqp, hqp, hqo⟩

/-- haproxy.cfg never names a response file that does not exist (HAProxy would refuse to start): whatever
failed, an `errorfile` line is only ever written after its file, the first haproxy.cfg after responses.lua -/
theorem resp_files_loadable (ro : ROpt) (sh : Sh p) (wf : sh.WF) (hrep : ro.o.repaired = true)
    (hg : ro.gated = false) (hist : List (REv p)) (hok : allOkR ro sh {} hist = true) :
    loadable (runR ro sh {} hist).disk = true :=
  (runR_rjinv wf hg hrep hist (rjinv_init ro sh) hok).r.c

/-- a response file that cannot be written is an error of the update and leaves the rewrite owed: whenever
the update gets as far as `writeConfig`, from any state of any history -/
theorem resp_write_failure_is_owed (ro : ROpt) (sh : Sh p) (wf : sh.WF) (hrep : ro.o.repaired = true)
    (hg : ro.gated = false) (hist : List (REv p)) (hok : allOkR ro sh {} hist = true) (f : RFault)
    (hf : respFires f (runR ro sh {} hist).glob = true)
    (hreach : (upd ro.o sh .mainCfg (fwOf (runR ro sh {} hist))).reached = true) :
    (updR ro sh f (runR ro sh {} hist)).err = true ∧ (updR ro sh f (runR ro sh {} hist)).w.fw.rewriteOwed = true := by
  have hj := runR_rjinv wf hg hrep hist (rjinv_init ro sh) hok
  generalize runR ro sh {} hist = w at hj hf hreach ⊢
  rw [updR_real hg, baseFault_fires hf]
  obtain ⟨_, _, u3, _, u5, _⟩ := upd_flow ro.o sh .mainCfg (fwOf w) hrep
  have hnm := u5 rfl hreach
  rcases upd_outcome wf hrep (jinv_fwOf (w := w) hj.j) .mainCfg with ⟨_, he, hro, _, _⟩ | ⟨hro, _⟩
  · exact ⟨he, hro⟩
  · have := u3 hro hreach; rw [hnm] at this; cases this

def rD : ROpt := {}
def rQ : ROpt := { o := oQ }
/-- NOT the code that exists: response files behind `if GlobalChanged()` -/
def rG : ROpt := { gated := true }

/-- non-vacuity of `retry_converges_resp`: a full resync brings a new Lua response and a new errorfile; the
update fails at the frontend maps, the retry at the errorfile, the next one at responses.lua (the errorfile
is written by then, haproxy.cfg does not name it yet); the fault-free retry writes and loads everything -/
example :
    let hist : List (REv 2) := [.ev (.hacq 0 1), .glob ⟨1, 0⟩, .ev (.upd .none),
      .ev .full, .ev (.hacq 0 1), .glob ⟨2, 7⟩, .ev (.upd .frontMaps), .updHa, .updLua]
    let w := runR rD s0 {} hist
    let r := updR rD s0 (.base .none) w
    allOkR rD s0 {} hist = true ∧
    (updR rD s0 .haResp (runR rD s0 {} (hist.take 7))).err = true ∧
    (updR rD s0 .luaResp (runR rD s0 {} (hist.take 8))).err = true ∧
    w.fw.rewriteOwed = true ∧ w.glob = ⟨2, 7⟩ ∧ w.disk = ⟨some 7, some 1, some false⟩ ∧ w.run = ⟨none, some 1, some false⟩ ∧
    r.err = false ∧ r.w.disk = ⟨some 7, some 2, some true⟩ ∧ r.w.run = ⟨some 7, some 2, some true⟩ ∧
    r.w.fw.rewriteOwed = false ∧ r.w.fw.reloadOwed = false := by decide

/-- non-vacuity of `retry_converges_queue_resp` -/
example :
    let hist : List (REv 2) := [.ev (.acq 0 c4), .glob ⟨1, 0⟩, .ev (.upd .none), .ev (.qrun .none),
      .ev .full, .ev (.acq 0 c4), .glob ⟨1, 3⟩, .updLua, .ev (.qrun .reloadSend)]
    let w := runR rQ s0 {} hist
    let r := qrunR rQ s0 .none (updR rQ s0 (.base .none) w).w
    allOkR rQ s0 {} hist = true ∧ w.fw.rewriteOwed = true ∧ w.disk = ⟨some 3, some 1, some false⟩ ∧
    r.err = false ∧ r.w.disk = ⟨some 3, some 1, some true⟩ ∧ r.w.run = ⟨some 3, some 1, some true⟩ ∧
    r.w.fw.pending = false := by decide

/-- `change-lost-after-failed-response-write`, witness of the gated variant: a full resync changes the Lua
based response (`http-response-404`); the update fails before `writeConfig` (frontend maps) and the
deferred `Commit()` copies global into globalOld; the retry rewrites maps and haproxy.cfg, reloads, returns
success — and skips responses.lua, `global == globalOld` by now: the file and HAProxy keep the old
response, in every later update too.  The code that exists writes it. -/
theorem gated_response_files_lose_the_change :
    let hist : List (REv 2) := [.ev (.hacq 0 1), .glob ⟨1, 0⟩, .ev (.upd .none),
      .ev .full, .ev (.hacq 0 1), .glob ⟨2, 0⟩, .ev (.upd .frontMaps)]
    let bad := updR rG s0 (.base .none) (runR rG s0 {} hist)
    let bad3 := updR rG s0 (.base .none) (runR rG s0 {} (hist ++ [.ev (.upd .none), .ev (.hrem [0]), .ev (.hacq 0 2), .ev (.upd .none)]))
    let cur := updR rD s0 (.base .none) (runR rD s0 {} hist)
    allOkR rD s0 {} (hist ++ [.ev (.upd .none), .ev (.hrem [0]), .ev (.hacq 0 2), .ev (.upd .none)]) = true ∧
    (updR rG s0 (.base .frontMaps) (runR rG s0 {} (hist.take 6))).err = true ∧
    bad.err = false ∧ bad.w.fw.rewriteOwed = false ∧ bad.w.glob.lua = 2 ∧ bad.w.disk.lua = some 1 ∧ bad.w.run.lua = some 1 ∧
    bad3.err = false ∧ bad3.w.disk.lua = some 1 ∧ bad3.w.run.lua = some 1 ∧
    cur.err = false ∧ cur.w.disk.lua = some 2 ∧ cur.w.run.lua = some 2 := by decide

/-- `reload-fails-forever-cfg-names-missing-file`, witness of the gated variant: a full resync adds a HAProxy
based response (`http-response-503`); the update fails before `writeConfig`; every retry writes a
haproxy.cfg that names `errorfiles/503.http`, never writes that file, and fails to reload: the transient
fault became permanent.  The very first update failing leaves no responses.lua the same way.  The code
that exists writes the files and reloads. -/
theorem gated_response_files_break_every_reload :
    let hist : List (REv 2) := [.ev (.hacq 0 1), .ev (.upd .none),
      .ev .full, .ev (.hacq 0 1), .glob ⟨0, 1⟩, .ev (.upd .frontMaps)]
    let bad := updR rG s0 (.base .none) (runR rG s0 {} hist)
    let bad3 := updR rG s0 (.base .none) (runR rG s0 {} (hist ++ [.ev (.upd .none), .ev (.upd .none)]))
    let first := updR rG s0 (.base .none) (runR rG s0 {} [.ev (.hacq 0 1), .ev (.upd .frontMaps)])
    let cur := updR rD s0 (.base .none) (runR rD s0 {} hist)
    let curFirst := updR rD s0 (.base .none) (runR rD s0 {} [.ev (.hacq 0 1), .ev (.upd .frontMaps)])
    allOkR rD s0 {} hist = true ∧
    bad.err = true ∧ bad.w.disk = ⟨none, some 0, some true⟩ ∧ loadable bad.w.disk = false ∧ bad.w.run.main = some false ∧
    bad3.err = true ∧ loadable bad3.w.disk = false ∧
    first.err = true ∧ first.w.disk = ⟨none, none, some false⟩ ∧
    cur.err = false ∧ cur.w.disk = ⟨some 1, some 0, some true⟩ ∧ cur.w.run = ⟨some 1, some 0, some true⟩ ∧
    curFirst.err = false ∧ curFirst.w.disk = ⟨none, some 0, some false⟩ := by decide

/-! ### regenerated facts: the Go source still has the shape the model assumes -/

set_option maxRecDepth 4096 in
/-- `HAProxyUpdate` defers `Commit()` before anything else, shrinks, takes `rewrite := i.rewriteOwed`, sets
the flag, forces the rewrite when it was set; then the four writers in the modelled order, each returning
at once on error; the dynamic updater, `updated = false` when rewriting; the gate in front of
`writeConfig`; `rewriteOwed = false` once past it; a reload that is owed overrides `updated`; `updated`
returns nil; the reload queue gets `Add`, otherwise `Reload` is returned.  `Reload` sets / clears
`reloadOwed`.  `ForceRewrite` = rewriteAll + `frontend.Maps = nil` + `AllShardsChanged`; the tcp-maps and
backend-maps guards listen to rewriteAll, WriteBackendMaps then visits `Items()`; `Commit` resets it.
`Reconcile` swallows the error and asks for the same item again after `ReloadRetry`; the queue worker
puts its item back.  Runtime commands need committed data.  Files are written in place with
`os.WriteFile` after every template of the set was executed.  `writeConfig` writes modsec, one errorfile
per HAProxy based response, responses.lua, haproxy.cfg and the shard files in this order, nothing guards
the response files, every failed write returns at once.  `Shrink` forces the rewrite when the global differs
from `globalPrev`, which `Clear` fills from `globalOld` (or keeps) and `Commit` drops. -/
theorem facts_c12 :
    Facts.c12UpdateStmts = ["if:i.config==nil=>return:nil", "defer:i.config.Commit", "call:i.config.SyncConfig",
      "call:i.config.Shrink", "assign:rewrite:=i.rewriteOwed", "assign:i.rewriteOwed=true",
      "if:rewrite{i.config.ForceRewrite}",
      "if-init:i.config.WriteTCPServicesMaps();err!=nil=>return:fmt.Errorf",
      "if-init:i.config.WriteFrontendMaps();err!=nil=>return:fmt.Errorf",
      "if-init:i.config.WriteBackendMaps();err!=nil=>return:fmt.Errorf",
      "if-init:i.writeCrtLists();err!=nil=>return:fmt.Errorf",
      "call:timer.Tick", "if:!i.options.fake", "assign:updater:=i.newDynUpdater()", "assign:updated:=updater.update()",
      "if:rewrite{updated=false}",
      -- repo commit b7287f0: the owed rewrite sorts and fills the source address of EVERY backend (the changed set
      -- of the update that failed is gone); Props/C12Tie.lean owed_rewrite_fills_all is about this statement
      "if:rewrite{i.config.Backends().SortAllEndpoints;i.config.Backends().FillAllSourceIPs}",
      "if:i.options.SortEndpointsBy!=\"random\"{i.config.Backends().SortChangedEndpoints}",
      "call:i.config.Backends().FillSourceIPs",
      "if:!updated||updater.cmdCnt>0||i.config.Backends().Changed()", "assign:i.rewriteOwed=false",
      "call:i.updateCertExpiring", "defer:?", "if:updated&&i.reloadOwed{updated=false}",
      "if:updated=>return:nil", "if:i.options.ReloadQueue!=nil=>return:nil", "return:i.Reload(timer)"] ∧
    Facts.c12WriteConfigStmts = ["assign:err=i.modsecTmpl.Write(i.config)", "if:err!=nil=>return:err",
      "range:i.config.Global().CustomHTTPHAResponses{assign:err=i.haResponseTmpl.WriteOutput(response,fmt.Sprintf(\"%s/errorfiles/%s.http\",i.options.HAProxyCfgDir,response.Name));if:err!=nil=>return:err}",
      "assign:err=i.luaResponseTmpl.Write(i.config.Global().CustomHTTPLuaResponses)", "if:err!=nil=>return:err",
      "assign:err=i.haproxyTmpl.Write(?)", "if:err!=nil=>return:err", "if:i.options.BackendShards>0", "return:err"] ∧
    Facts.c12ReloadStmts = ["if:i.options.TrackInstances", "assign:err:=i.reloadHAProxy()",
      "if:err!=nil{i.reloadOwed=true}=>return:fmt.Errorf", "assign:i.reloadOwed=false", "assign:i.up=true",
      "assign:message:=\"haproxy successfully reloaded\"", "if:i.options.IsExternal",
      "if:i.options.TrackInstances", "return:nil"] ∧
    Facts.c12ForceRewrite = ["c.rewriteAll=true", "c.frontend.Maps=nil", "c.backends.AllShardsChanged"] ∧
    Facts.c12ShrinkStmts = ["call:c.hosts.Shrink", "call:c.backends.Shrink",
      "if:c.globalPrev!=nil&&!reflect.DeepEqual(c.globalPrev,c.global)=>c.ForceRewrite"] ∧
    Facts.c12GlobalPrev = ["Clear:config.globalPrev=c.globalOld", "Clear:config.globalPrev=c.globalPrev",
      "Commit:c.globalPrev=nil"] ∧
    Facts.c12TcpMapsGuard = ["!c.tcpservices.Changed()&&!c.rewriteAll"] ∧
    Facts.c12BackendMapsGuard = ["!c.backends.Changed()&&!c.rewriteAll"] ∧
    Facts.c12BackendMapsVisited = [":=c.backends.ItemsAdd()", "=c.backends.Items()"] ∧
    Facts.c12CommitResets = ["c.rewriteAll=false"] ∧
    Facts.c12ReconcileRequeue = ["RequeueAfter=r.Config.ReloadRetry"] ∧
    Facts.c12ReconcileCalls = ["r.watchers.getChangedObjects", "r.Services.ReconcileIngress", "r.log.Error",
      "r.Config.ReloadRetry.String"] ∧
    Facts.c12QueueWorkerCalls = ["s.instance.Reload", "s.reloadQueue.AddAfter"] ∧
    Facts.c12DynGate = ["d.config.hasCommittedData()&&d.checkConfigChange()"] ∧
    Facts.c12WriteToDiskOS = ["os.Stat", "os.Rename", "os.IsNotExist", "os.Remove", "os.IsNotExist", "os.WriteFile"] ∧
    Facts.c12WriteOutputCalls = ["t.tmpl.Execute", "t.writeToDisk"] := by
  decide

end HapVerif.C12
