import HapVerif.Model.C10Views
import HapVerif.Generated.CodeC10
/-!
# C10 — tie of `converter.syncRoute` (pkg/converters/gateway/gateway.go): which Gateways a route is offered to

REGENERATED on every run (Generated/CodeC10.lean).  `newGatewaySource` (cache read + class check) is the model's
`getGateway`; the callback (`syncHTTPRouteGateway`, `syncTCPRouteGateway`, ...) is a step of a trace.  For EVERY world,
every list of parentRefs and every behaviour of the callback: the callback runs exactly once per parentRef that the
model's `resolveParent` resolves — group / kind absent, empty or the Gateway ones; namespace of the parentRef, else the
route's; a Gateway of that name whose class is ours — in the order written, with the parentRef's section name, and an
error of one callback never stops the others.
-/
namespace HapVerif.C10RouteTie
open HapVerif HapVerif.GoLib HapVerif.C10

theorem forRange_fold' {α σ ρ : Type} (f : α → σ → Step σ ρ) (g : σ → α → σ) (h : ∀ x s, f x s = .next (g s x)) :
    ∀ (xs : List α) (s : σ), GoLib.forRange xs s f = .done (xs.foldl g s) := by
  intro xs
  induction xs with
  | nil => intro s; rfl
  | cons x xs ih => intro s; simp only [GoLib.forRange, h, List.foldl_cons]; exact ih _

theorem orDefault_eq (o : Option String) (d : String) :
    (if C10Views.nonEmpty o then o.getD "" else d) = orDefault o d := by
  cases o with
  | none => simp [C10Views.nonEmpty, orDefault]
  | some s => by_cases h : s = "" <;> simp [C10Views.nonEmpty, orDefault, h]

/-- what one parentRef adds to the trace -/
def stepOf (w : World) (r : Route) (fx : List (Gateway × Option String)) (pr : ParentRef) : List (Gateway × Option String) :=
  match resolveParent w r pr with
  | some g => fx ++ [(g, pr.sect)]
  | none => fx

/-- the body of the loop, as generated -/
def body (w : World) (errOf : Gateway → Option String → Option String) (routeNs : String) :
    ParentRef → List (Gateway × Option String) → Step (List (Gateway × Option String)) (List (Gateway × Option String)) :=
  fun parentRef fx =>
      let parentGroup := C10.gwGroup
      let parentKind := "Gateway"
      let parentGroup := (if (C10Views.nonEmpty (parentRef).group) then
        let parentGroup := ((parentRef).group.getD "")
        parentGroup
      else
        parentGroup)
      let parentKind := (if (C10Views.nonEmpty (parentRef).kind) then
        let parentKind := ((parentRef).kind.getD "")
        parentKind
      else
        parentKind)
      if ((parentGroup != C10.gwGroup) || (parentKind != "Gateway")) then
        GoLib.Step.next fx
      else
        let namespace' := routeNs
        let namespace' := (if (C10Views.nonEmpty (parentRef).ns) then
          let namespace' := ((parentRef).ns.getD "")
          namespace'
        else
          namespace')
        let gatewaySource := (C10.getGateway w namespace' (parentRef).name)
        if (gatewaySource == none) then
          GoLib.Step.next fx
        else
          let (err, fx) := (C10Views.callSync errOf fx gatewaySource (parentRef).sect)
          if (err != GoLib.nil) then
            GoLib.Step.next fx
          else
            GoLib.Step.next fx

theorem code_eq (w : World) (errOf : Gateway → Option String → Option String) (routeNs : String)
    (prs : List ParentRef) (fx : List (Gateway × Option String)) :
    CodeC10.syncRoute w errOf routeNs prs fx =
      (match GoLib.forRange prs fx (body w errOf routeNs) with
       | .ret r' => r'
       | .done fx => fx) := rfl

theorem body_step (w : World) (errOf : Gateway → Option String → Option String) (r : Route) (pr : ParentRef)
    (fx : List (Gateway × Option String)) :
    body w errOf r.ns pr fx = .next (stepOf w r fx pr) := by
  unfold body stepOf resolveParent refersGateway parentNs
  simp only [orDefault_eq]
  by_cases hg : (orDefault pr.group gwGroup == gwGroup) = true
  · by_cases hk : (orDefault pr.kind "Gateway" == "Gateway") = true
    · have hg' : (orDefault pr.group gwGroup != gwGroup) = false := by simp [bne, hg]
      have hk' : (orDefault pr.kind "Gateway" != "Gateway") = false := by simp [bne, hk]
      simp only [hg, hk, hg', hk', Bool.or_self, Bool.false_eq_true, ↓reduceIte, Bool.and_self]
      cases hgw : getGateway w (orDefault pr.ns r.ns) pr.name with
      | none => simp
      | some g =>
        simp only [C10Views.callSync]
        rcases Bool.eq_false_or_eq_true (errOf g pr.sect != GoLib.nil) with he | he <;> simp [he]
    · have hk' : (orDefault pr.kind "Gateway" != "Gateway") = true := by simp [bne, hk]
      simp [hk, hk']
  · have hg' : (orDefault pr.group gwGroup != gwGroup) = true := by simp [bne, hg]
    simp [hg, hg']

/-- **the route is offered to exactly the Gateways its parentRefs resolve to** -/
theorem syncRoute_tie (w : World) (errOf : Gateway → Option String → Option String) (r : Route)
    (prs : List ParentRef) (fx : List (Gateway × Option String)) :
    CodeC10.syncRoute w errOf r.ns prs fx =
      fx ++ prs.filterMap (fun pr => (resolveParent w r pr).map (fun g => (g, pr.sect))) := by
  rw [code_eq, forRange_fold' (body w errOf r.ns) (stepOf w r) (fun pr fx => body_step w errOf r pr fx)]
  simp only []
  induction prs generalizing fx with
  | nil => simp
  | cons pr prs ih =>
    simp only [List.foldl_cons, List.filterMap_cons]
    rw [ih]
    unfold stepOf
    cases resolveParent w r pr <;> simp

/-- the behaviour of the callback (its errors) never changes WHICH gateways the route is offered to -/
theorem callback_errors_irrelevant (w : World) (e₁ e₂ : Gateway → Option String → Option String) (r : Route)
    (prs : List ParentRef) (fx : List (Gateway × Option String)) :
    CodeC10.syncRoute w e₁ r.ns prs fx = CodeC10.syncRoute w e₂ r.ns prs fx := by
  rw [syncRoute_tie, syncRoute_tie]

/-- a gateway is offered the route only through a parentRef that resolves to it -/
theorem offered_only_if_resolved (w : World) (errOf : Gateway → Option String → Option String) (r : Route)
    (prs : List ParentRef) (g : Gateway) (s : Option String)
    (h : (g, s) ∈ CodeC10.syncRoute w errOf r.ns prs []) :
    ∃ pr ∈ prs, resolveParent w r pr = some g ∧ pr.sect = s := by
  rw [syncRoute_tie] at h
  simp only [List.nil_append, List.mem_filterMap] at h
  obtain ⟨pr, hpr, hm⟩ := h
  cases hr : resolveParent w r pr with
  | none => simp [hr] at hm
  | some g' =>
    simp only [hr, Option.map_some, Option.some.injEq, Prod.mk.injEq] at hm
    exact ⟨pr, hpr, by rw [← hm.1]; exact hr, hm.2⟩

end HapVerif.C10RouteTie
