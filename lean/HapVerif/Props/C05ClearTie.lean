import HapVerif.Model.C05ClearViews
import HapVerif.Generated.CodeC05
/-!
# C05 — tie of `Backends.Clear`, `Backends.Commit`, `Backends.Changed` (pkg/haproxy/types/backends.go)

REGENERATED on every run (Generated/CodeC05.lean).  `Clear` is what a full resync starts from: for EVERY state the
translated code hands the committed items over as `itemsDel`, starts with empty items and as many empty shards, and
flags in the NEW state exactly the shards of the OLD state that hold at least one backend — so that a shard the new
state leaves empty is rewritten (empty) instead of keeping its stale backends on disk: the second anchor of C05, and
the statement `changed := fun k => decide (k < sh.n) && nonEmpty (s.shards k)` of the model's `C05.clear`.
The historical defect (the loop tested the shards of the NEW object: nothing was ever flagged) does not satisfy
`clear_flags_iff`.
-/
namespace HapVerif.C05ClearTie
open HapVerif HapVerif.GoLib HapVerif.C05Clear

theorem forRange_fold' {α σ ρ : Type} (f : α → σ → Step σ ρ) (g : σ → α → σ) (h : ∀ x s, f x s = .next (g s x)) :
    ∀ (xs : List α) (s : σ), GoLib.forRange xs s f = .done (xs.foldl g s) := by
  intro xs
  induction xs with
  | nil => intro s; rfl
  | cons x xs ih => intro s; simp only [GoLib.forRange, h, List.foldl_cons]; exact ih _

/-- the shard numbers `indexedFrom k` hands out start at `k` -/
theorem key_ge (k : Int) (ss : List (List String)) : ∀ p ∈ indexedFrom k ss, k ≤ p.1 := by
  induction ss generalizing k with
  | nil => simp [indexedFrom]
  | cons s ss ih =>
    intro p hp
    simp only [indexedFrom, List.mem_cons] at hp
    rcases hp with rfl | hp
    · exact Int.le_refl _
    · have := ih (k + 1) p hp; omega

/-- every (index, shard) pair is found again under its index -/
theorem lookup_indexedFrom (k : Int) (ss : List (List String)) :
    ∀ p ∈ indexedFrom k ss, (indexedFrom k ss).lookup p.1 = some p.2 := by
  induction ss generalizing k with
  | nil => simp [indexedFrom]
  | cons s ss ih =>
    intro p hp
    simp only [indexedFrom, List.mem_cons] at hp
    rcases hp with rfl | hp
    · simp [indexedFrom]
    · have hge := key_ge (k + 1) ss p hp
      have hne : (p.1 == k) = false := by
        simp only [beq_eq_false_iff_ne, ne_eq]; omega
      simp only [indexedFrom, List.lookup, hne]
      exact ih (k + 1) p hp

theorem shardAt_mem (ss : List (List String)) (p : Int × List String) (hp : p ∈ indexed ss) : shardAt ss p.1 = p.2 := by
  simp [shardAt, indexed, lookup_indexedFrom 0 ss p hp]

/-- the shard numbers flagged by `Clear` -/
def flagged (l : List (Int × List String)) : List Int := l.filterMap fun p => if p.2 ≠ [] then some p.1 else none

theorem len_pos_iff (s : List String) : decide (GoLib.len s > (0 : Int)) = decide (s ≠ []) := by
  cases s <;> simp [GoLib.len]

/-- the loop over a part `l` of the indexed shards -/
theorem loop (ss : List (List String)) (l : List (Int × List String)) (hl : ∀ p ∈ l, p ∈ indexed ss) (nb : BView) :
    (GoLib.keys l).foldl (fun nb i => if decide (GoLib.len (shardAt ss i) > (0 : Int)) then flagShard nb i else nb) nb
      = { nb with changedShards := nb.changedShards ++ flagged l } := by
  induction l generalizing nb with
  | nil => simp [GoLib.keys, flagged]
  | cons p l ih =>
    have hp := shardAt_mem ss p (hl p (List.mem_cons_self))
    simp only [GoLib.keys, List.map_cons, List.foldl_cons] at ih ⊢
    rw [hp, len_pos_iff]
    by_cases hne : p.2 = []
    · simp only [hne, ne_eq, not_true_eq_false, decide_false, Bool.false_eq_true, ↓reduceIte]
      rw [ih (fun q hq => hl q (List.mem_cons_of_mem _ hq))]
      simp [flagged, hne]
    · simp only [ne_eq, hne, not_false_eq_true, decide_true, ↓reduceIte]
      rw [ih (fun q hq => hl q (List.mem_cons_of_mem _ hq))]
      simp [flagged, hne, flagShard, List.append_assoc]

/-- **closed form of the translated `Clear`** -/
theorem clear_tie (b : BView) :
    CodeC05.clear b =
      { items := [], itemsAdd := [], itemsDel := b.items,
        shards := List.replicate b.shards.length [],
        changedShards := flagged (indexed b.shards) } := by
  unfold CodeC05.clear
  simp only []
  rw [forRange_fold' _ (fun nb i => if decide (GoLib.len (shardAt b.shards i) > (0 : Int)) then flagShard nb i else nb)
    (by intro i nb; by_cases h : decide (GoLib.len (shardAt b.shards i) > (0 : Int)) = true <;> simp [h])]
  simp only []
  rw [loop b.shards (indexed b.shards) (fun p hp => hp)]
  simp [create, GoLib.len]

/-- **a shard is flagged in the new state iff the old state held a backend in it** -/
theorem clear_flags_iff (b : BView) (k : Int) :
    k ∈ (CodeC05.clear b).changedShards ↔ ∃ s, (k, s) ∈ indexed b.shards ∧ s ≠ [] := by
  rw [clear_tie]
  simp only [flagged, List.mem_filterMap]
  constructor
  · rintro ⟨p, hp, h⟩
    by_cases hne : p.2 = []
    · simp [hne] at h
    · simp only [ne_eq, hne, not_false_eq_true, ↓reduceIte, Option.some.injEq] at h
      exact ⟨p.2, by rw [← h]; exact hp, hne⟩
  · rintro ⟨s, hs, hne⟩
    exact ⟨(k, s), hs, by simp [hne]⟩

/-- the committed items become the deletions of the new state; nothing else survives -/
theorem clear_hands_over (b : BView) :
    (CodeC05.clear b).itemsDel = b.items ∧ (CodeC05.clear b).items = [] ∧ (CodeC05.clear b).itemsAdd = [] ∧
      (CodeC05.clear b).shards.length = b.shards.length ∧ ∀ s ∈ (CodeC05.clear b).shards, s = [] := by
  rw [clear_tie]
  refine ⟨rfl, rfl, rfl, by simp, ?_⟩
  intro s hs
  exact (List.mem_replicate.1 hs).2

/-- `Commit` forgets the changes and the flags, keeps the items and the shards -/
theorem commit_tie (b : BView) :
    CodeC05.commit b = { b with itemsAdd := [], itemsDel := [], changedShards := [] } := rfl

/-- `Changed` — something was added or removed since the last commit -/
theorem changed_tie (b : BView) : CodeC05.changed b = (!b.itemsAdd.isEmpty || !b.itemsDel.isEmpty) := by
  unfold CodeC05.changed
  cases b.itemsAdd <;> cases b.itemsDel <;> simp [GoLib.len] <;> omega

theorem commit_not_changed (b : BView) : CodeC05.changed (CodeC05.commit b) = false := by
  rw [commit_tie, changed_tie]; rfl

example : (CodeC05.clear { items := ["a", "b"], shards := [["a"], [], ["b"]] }).changedShards = [0, 2] := by decide
example : (CodeC05.clear { items := ["a"], shards := [] }).changedShards = [] := by decide

end HapVerif.C05ClearTie
