import HapVerif.Props.C07Ids
import HapVerif.Generated.CodeC07
/-!
# C07 — tie between the model and the source (`converter.syncBackendEndpointHashes`)

`HapVerif.CodeC07.syncBackendEndpointHashes` is REGENERATED on every run from `pkg/converters/ingress/ingress.go`
(the copy + stable sort of the endpoints, the range loop that writes `ep.PUID` through the pointers, the pod read,
the 31-bit mask, the probing loop over the Go map used as a set — fuel |used| + 2).  The theorem states that for
every backend below 2^31 endpoints the translated code never runs out of fuel and writes exactly the ids of the
model `C07.Ids.assignSorted []` on the endpoints in TargetRef order — the function `ids_distinct`, `ids_range`,
`ids_zero_iff`, `assign_stable` (Props/C07Ids.lean) are about.
-/
namespace HapVerif.C07Tie
open HapVerif HapVerif.GoLib HapVerif.C07 HapVerif.C07.Ids HapVerif.C07.IdsV

/-- the model endpoint an endpoint of the backend stands for: TargetRef (0 = none), and what the pod read gives -/
def toEp (cv : PodCacheView) (e : EpView) : Ep :=
  { ref := if e.TargetRef = 0 then none else some (e.TargetRef - 1)
    src := match (cv.getPod e.TargetRef).2 with
      | none => .hash (cv.getPod e.TargetRef).1.uidHash.toNat
      | some _ => .err }

/-- the probing loop exactly as generated -/
def probeBody (usedPUIDS : List Int) (hash : Int) : Step Int (Option (List EpView)) :=
  let (_, exists') := ((), GoLib.setHas usedPUIDS hash)
  if ((hash != (0 : Int)) && (!exists')) then
    GoLib.Step.brk hash
  else
    let hash := (GoLib.band ((GoLib.add hash (1 : Int))) (0x7fffffff : Int))
    GoLib.Step.next hash

theorem band_mask (n : Nat) : GoLib.band (n : Int) (0x7fffffff : Int) = ((n % M : Nat) : Int) := by
  simp only [GoLib.band, Int.toNat_natCast]
  have : (0x7fffffff : Int).toNat = 2 ^ 31 - 1 := by decide
  rw [this, Nat.and_two_pow_sub_one_eq_mod]
  rfl

theorem setHas_cast (used : List Nat) (h : Nat) :
    GoLib.setHas (used.map (fun (n : Nat) => (n : Int))) (h : Int) = used.contains h := by
  induction used with
  | nil => rfl
  | cons a t ih =>
    simp only [GoLib.setHas, List.map_cons, List.contains_cons] at ih ⊢
    rw [ih]
    congr 1
    by_cases hh : h = a
    · subst hh; simp
    · have : ((h : Int) == (a : Int)) = false := by
        simp only [beq_eq_false_iff_ne, ne_eq, Int.natCast_inj]; exact hh
      simp [this, hh]

/-- the generated probing loop is the model's `probe` whenever a free value lies within the fuel; it is never stuck -/
theorem loop_eq_probe (used : List Nat) : ∀ (fuel h : Nat), h < M →
    (∃ i, i < fuel ∧ free used (nth h i) = true) →
    GoLib.whileFuel fuel (h : Int) (fun _ => true) (probeBody (used.map (fun (n : Nat) => (n : Int))))
      = .done (((probe used fuel h : Nat)) : Int) := by
  intro fuel
  induction fuel with
  | zero => intro h _ ⟨i, hi, _⟩; omega
  | succ fuel ih =>
    intro h hh ⟨i, hi, hf⟩
    unfold GoLib.whileFuel
    simp only [if_true]
    have hbody : probeBody (used.map (fun (n : Nat) => (n : Int))) (h : Int) =
        if free used h then GoLib.Step.brk (h : Int) else GoLib.Step.next (((next h : Nat)) : Int) := by
      simp only [probeBody, setHas_cast]
      have h1 : ((h : Int) != (0 : Int)) = (h != 0) := by
        by_cases h0 : h = 0
        · subst h0; rfl
        · have : ((h : Int) != 0) = true := by simpa using h0
          simp [this, h0]
      have h2 : GoLib.band (GoLib.add (h : Int) (1 : Int)) (0x7fffffff : Int) = ((next h : Nat) : Int) := by
        have : GoLib.add (h : Int) (1 : Int) = ((h + 1 : Nat) : Int) := by simp [GoLib.add]
        rw [this, band_mask]; rfl
      rw [h1, h2]; rfl
    rw [hbody]
    by_cases h0 : free used h = true
    · simp [h0, probe]
    · simp only [h0, Bool.false_eq_true, if_false, probe]
      cases i with
      | zero => rw [nth_zero hh] at hf; exact absurd hf h0
      | succ i =>
        rw [nth_succ] at hf
        exact ih (next h) (next_lt h) ⟨i, by omega, hf⟩

/-- what the loop does to one endpoint: an endpoint without TargetRef is left alone, the others get the id -/
def stamp (e : EpView) (id : Nat) : EpView := if e.TargetRef = 0 then e else { e with PUID := (id : Int) }

def cast (l : List Nat) : List Int := l.map (fun (n : Nat) => (n : Int))

/-- body of the range loop, exactly as generated (the probing loop named) -/
def outerBody (cv : PodCacheView) (ep : EpView) : List Int × List EpView → Step (List Int × List EpView) (Option (List EpView)) :=
  fun (usedPUIDS, acc') =>
  if ((ep).TargetRef == 0) then
    GoLib.Step.next (usedPUIDS, (GoLib.append1 acc' ep))
  else
    let hash := (0 : Int)
    let (pod, err) := ((cv).getPod (ep).TargetRef)
    let hash := (if (err == GoLib.nil) then
      let hasher := ()
      let hash := (GoLib.band (pod).uidHash (0x7fffffff : Int))
      hash
    else
      let hash := (1 : Int)
      hash)
    match GoLib.whileFuel ((GoLib.len usedPUIDS).toNat + 2) hash (fun hash => true) (probeBody usedPUIDS) with
    | .ret r' => GoLib.Step.ret r'
    | .stuck => GoLib.Step.ret none
    | .done hash =>
      let usedPUIDS := (GoLib.setAdd usedPUIDS hash)
      let ep := { ep with PUID := (GoLib.idInt hash) }
      GoLib.Step.next (usedPUIDS, (GoLib.append1 acc' ep))

theorem start_eq (cv : PodCacheView) (hpos : ∀ r, 0 ≤ (cv.getPod r).1.uidHash) (e : EpView) :
    (if ((cv.getPod e.TargetRef).2 == GoLib.nil) then
        GoLib.band (cv.getPod e.TargetRef).1.uidHash (0x7fffffff : Int) else (1 : Int))
      = ((start (toEp cv e).src : Nat) : Int) := by
  unfold toEp
  cases herr : (cv.getPod e.TargetRef).2 with
  | none =>
    have hb : ((none : Option String) == GoLib.nil) = true := rfl
    simp only [hb, if_true, start]
    obtain ⟨n, hn⟩ := Int.eq_ofNat_of_zero_le (hpos e.TargetRef)
    rw [hn, band_mask]; simp
  | some x =>
    have hb : ((some x : Option String) == GoLib.nil) = false := rfl
    simp [hb, start]

/-- one endpoint of the loop -/
theorem outer_step (cv : PodCacheView) (hpos : ∀ r, 0 ≤ (cv.getPod r).1.uidHash) (e : EpView) (used : List Nat)
    (acc : List EpView) (hn : used.length + 2 ≤ M) :
    outerBody cv e (cast used, acc) =
      match (toEp cv e).ref with
      | none => .next (cast used, acc ++ [stamp e 0])
      | some _ =>
        .next (cast (probe used (fuelFor used) (start (toEp cv e).src) :: used),
          acc ++ [stamp e (probe used (fuelFor used) (start (toEp cv e).src))]) := by
  by_cases h0 : e.TargetRef = 0
  · have hr : (toEp cv e).ref = none := by simp [toEp, h0]
    simp [outerBody, h0, hr, stamp, GoLib.append1]
  · have hr : (toEp cv e).ref = some (e.TargetRef - 1) := by simp [toEp, h0]
    have hb : (e.TargetRef == 0) = false := by simpa using h0
    simp only [outerBody, hb, Bool.false_eq_true, if_false, hr]
    have hs := start_eq cv hpos e
    have hfuel : (GoLib.len (cast used)).toNat + 2 = fuelFor used := by
      simp [GoLib.len, cast, fuelFor]
    have hloop := loop_eq_probe used (fuelFor used) (start (toEp cv e).src) (start_lt _)
      (exists_free used _ hn)
    rw [hs, hfuel]
    unfold cast at hloop ⊢
    rw [hloop]
    simp [GoLib.setAdd, GoLib.idInt, GoLib.append1, stamp, h0]

/-- the whole range loop: the ids of `assignSorted`, in order; never out of fuel -/
theorem outer_loop (cv : PodCacheView) (hpos : ∀ r, 0 ≤ (cv.getPod r).1.uidHash) :
    ∀ (eps : List EpView) (used : List Nat) (acc : List EpView), used.length + eps.length + 1 ≤ M →
      ∃ used', GoLib.forRange eps (cast used, acc) (outerBody cv) =
        .done (cast used', acc ++ List.zipWith stamp eps (assignSorted used (eps.map (toEp cv)))) := by
  intro eps
  induction eps with
  | nil => intro used acc _; exact ⟨used, by simp [GoLib.forRange]⟩
  | cons e es ih =>
    intro used acc hb
    simp only [List.length_cons] at hb
    have hstep := outer_step cv hpos e used acc (by omega)
    simp only [GoLib.forRange, List.map_cons, assignSorted]
    rw [hstep]
    cases hr : (toEp cv e).ref with
    | none =>
      obtain ⟨u', hu⟩ := ih used (acc ++ [stamp e 0]) (by omega)
      exact ⟨u', by simp [hu]⟩
    | some k =>
      obtain ⟨u', hu⟩ := ih (probe used (fuelFor used) (start (toEp cv e).src) :: used)
        (acc ++ [stamp e (probe used (fuelFor used) (start (toEp cv e).src))]) (by simp; omega)
      exact ⟨u', by simp [hu]⟩

theorem copy_make (src : List EpView) :
    GoLib.copyInto (GoLib.makeList (GoLib.len src) : List EpView) (GoLib.makeList (GoLib.len src)) src = src := by
  simp [GoLib.copyInto, GoLib.makeList, GoLib.len]

/-- **the translated `syncBackendEndpointHashes` is the model**: with the annotation on, for every backend below 2^31
endpoints, every pod cache and whatever ids the endpoints carried before, the function never runs out of fuel and
stamps the endpoints, taken in TargetRef order (stable), with exactly `assignSorted []` of the model; an endpoint
without TargetRef is left untouched. -/
theorem syncHashes_tie (cv : PodCacheView) (hpos : ∀ r, 0 ≤ (cv.getPod r).1.uidHash) (backend : BackendEpsView)
    (hlen : backend.Endpoints.length + 1 ≤ M) :
    CodeC07.syncBackendEndpointHashes cv true backend =
      some (List.zipWith stamp (sortByTargetRef [] backend.Endpoints)
        (assignSorted [] ((sortByTargetRef [] backend.Endpoints).map (toEp cv)))) := by
  have hsortlen : (sortByTargetRef [] backend.Endpoints).length = backend.Endpoints.length := by
    unfold sortByTargetRef
    exact (isort_perm _ _).length_eq
  obtain ⟨u', hu⟩ := outer_loop cv hpos (sortByTargetRef [] backend.Endpoints) [] [] (by simp [hsortlen]; omega)
  have hcode : CodeC07.syncBackendEndpointHashes cv true backend =
      (match GoLib.forRange (sortByTargetRef [] backend.Endpoints) (cast [], []) (outerBody cv) with
        | .ret r' => r'
        | .done (_, acc') => some acc') := by
    unfold CodeC07.syncBackendEndpointHashes
    simp only [Bool.not_true, Bool.false_eq_true, if_false, copy_make]
    rfl
  rw [hcode, hu]
  simp

/-- annotation off: nothing is written -/
theorem syncHashes_off (cv : PodCacheView) (backend : BackendEpsView) :
    CodeC07.syncBackendEndpointHashes cv false backend = some backend.Endpoints := by
  simp [CodeC07.syncBackendEndpointHashes]

/-- a concrete run of the translated code: two pods whose UID hashes differ only in bit 31 (the pair of seed C07f) and
an endpoint without TargetRef that keeps its old id 7: the second pod is probed to the next free id -/
example : (CodeC07.syncBackendEndpointHashes
      ⟨fun r => (⟨if r = 1 then 0x6bc0aa30 else 0xebc0aa30⟩, none)⟩ true ⟨[⟨2, 0⟩, ⟨0, 7⟩, ⟨1, 0⟩]⟩).map (·.map (·.PUID))
    = some [7, 1807788592, 1807788593] := by decide +kernel

end HapVerif.C07Tie
