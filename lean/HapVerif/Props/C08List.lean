import HapVerif.Props.C08
import HapVerif.Props.C08Tie
/-!
C08 — listings and full syncs (added after seed C08f: a per-call memo inside `GetIngressList`
keyed by the annotation VALUE).

  * `raw_eq_abs`: `IsValidIngress` on the raw map lookup `(value, present)` is the modelled
    function of the abstraction `absOf`; `empty_is_classified`, `presence_matters`: the states
    "annotation absent" and "annotation present and empty" have the same value and different
    verdicts, so no decision procedure may look at the value alone.
  * `getIngressList_cons` / `getIngressList_append`: the answer for a listing is the
    concatenation of the answers for its parts — no state flows from one listed item to the next.
  * `getIngressList_perm`, `listed_perm`: listing the same ingresses in another order returns the
    same ingresses.
  * `mem_listed`, `listed_own_verdict`, `listed_independent`, `listed_selected`: an ingress is in
    the answer of `GetIngressList` iff it is listed and ITS OWN `IsValidIngress` verdict is true,
    independent of the other members of the listing and of the order.
  * `configured_eq_valid_full` / `configured_eq_selected_full`: over ALL histories of create /
    update / delete events interleaved with full syncs in ANY listing order, configured =
    `{i | exists and selected}`; `full_sync_idempotent_on_inv`: a full sync does not change what
    the partial syncs had configured.
  * `facts_c08_list`: `GetIngressList` calls `c.IsValidIngress` for every listed item and has no
    other condition (regenerated statement skeleton).
-/
namespace HapVerif.C08

/-! ### the raw annotation lookup -/

theorem annBeq' (a b : Ann) : (a == b) = decide (a = b) := rfl
theorem annBne (a b : Ann) : (a != b) = !decide (a = b) := rfl

theorem beqEmptyFalse (ic : String) (h : ic ≠ "") : ("" == ic) = false := by
  rw [beq_eq_false_iff_ne]; exact fun h' => h h'.symm

theorem raw_eq_abs (cfg : Cfg) (ic : String) (p : String × Bool) (c : Cls) :
    isValidRaw cfg ic p c = isValidIngress cfg (absOf ic p) c := by
  rcases p with ⟨v, h⟩
  rcases cfg with ⟨w, pr, e⟩
  cases h <;> cases hv : (v == ic) <;> cases w <;> cases pr <;> cases e <;> cases c <;>
    simp [isValidRaw, isValidIngress, absOf, hv, fromClassOf, annBne, annBeq']

/-- an annotation that is present classifies the ingress, even with an empty value -/
theorem empty_is_classified (ic other : String) (h : ic ≠ "") :
    absOf ic (AnnS.empty.raw ic other) = .foreign ∧ absOf ic (AnnS.absent.raw ic other) = .absent := by
  simp [absOf, AnnS.raw, beqEmptyFalse ic h]

theorem four_states (ic other : String) (h : other ≠ ic) (h0 : ic ≠ "") :
    [AnnS.absent, .empty, .ours, .foreign].map (fun s => absOf ic (s.raw ic other)) =
      [.absent, .foreign, .ours, .foreign] := by
  simp [absOf, AnnS.raw, h0, h]

/-- every raw lookup result is, for the decision, one of the four states -/
theorem four_states_cover (ic : String) (p : String × Bool) :
    ∃ s : AnnS, absOf ic p = absOf ic (s.raw ic p.1) ∧ (s.raw ic p.1).2 = p.2 := by
  rcases p with ⟨v, h⟩
  cases h
  · exact ⟨.absent, by simp [absOf, AnnS.raw], rfl⟩
  · by_cases hv : v = ic
    · exact ⟨.ours, by simp [absOf, AnnS.raw, hv], rfl⟩
    · exact ⟨.foreign, by simp [absOf, AnnS.raw], rfl⟩

/-- same value `""`, different presence, different verdict — for every flag setting but
`--ingress-class-precedence` without `--watch-ingress-without-class` there is a class state on
which "absent" and "present and empty" are decided differently -/
theorem presence_matters (cfg : Cfg) (ic : String) (h0 : ic ≠ "") (he : cfg.ctrlEmpty = false)
    (hf : cfg.watch = true ∨ cfg.prec = false) :
    ∃ c : Cls, isValidRaw cfg ic ("", false) c ≠ isValidRaw cfg ic ("", true) c := by
  have h1 := beqEmptyFalse ic h0
  rcases cfg with ⟨w, p, e⟩
  simp only at he hf
  subst he
  cases w <;> cases p <;> simp at hf
  · exact ⟨.ours, by simp [isValidRaw, fromClassOf, h1]⟩
  · exact ⟨.absent, by simp [isValidRaw, h1]⟩
  · exact ⟨.absent, by simp [isValidRaw, h1]⟩

/-- the two cases of the documentation: a class of ours and no annotation selects, the same with
an empty annotation does not (the annotation wins); unclassified is watched, classified-empty is not -/
example :
    isValidRaw ⟨false, false, false⟩ "haproxy" ("", false) .ours = true ∧
    isValidRaw ⟨false, false, false⟩ "haproxy" ("", true) .ours = false ∧
    isValidRaw ⟨true, false, false⟩ "haproxy" ("", false) .absent = true ∧
    isValidRaw ⟨true, false, false⟩ "haproxy" ("", true) .absent = false := by decide

/-- the raw lookup pair always stands in the tie's relation to its abstraction -/
theorem annRel_absOf (c : GoLib.CacheView) (p : String × Bool) :
    C08Tie.AnnRel c (absOf c.config.IngressClass p) p := by
  rcases p with ⟨v, h⟩
  cases h
  · simp [absOf, C08Tie.AnnRel]
  · by_cases hv : v = c.config.IngressClass
    · simp [absOf, C08Tie.AnnRel, hv]
    · simp [absOf, C08Tie.AnnRel, hv]

/-- the REGENERATED source of `IsValidIngress` computes `isValidRaw` (the function the driver runs
on the `list` cases) on the raw annotation lookup of the ingress, whatever its value and presence -/
theorem isValidRaw_tie (c : GoLib.CacheView) (ing : GoLib.IngressView) (cl : Cls)
    (hc : C08Tie.ClsRel c cl ing.className) :
    CodeC08.isValidIngress c ing = isValidRaw (C08Tie.cfgOf c) c.config.IngressClass ing.annClass cl := by
  rw [raw_eq_abs]
  exact C08Tie.isValidIngress_tie c ing _ cl (annRel_absOf c ing.annClass) hc

/-! ### one listing -/

theorem getIngressList_nil {α} (cfg : Cfg) : getIngressList cfg ([] : List (α × Ann × Cls)) = [] := rfl

/-- the first listed item is decided by itself, the rest of the listing by itself: nothing is
carried from one item to the next -/
theorem getIngressList_cons {α} (cfg : Cfg) (x : α × Ann × Cls) (l : List (α × Ann × Cls)) :
    getIngressList cfg (x :: l) =
      (if isValidIngress cfg x.2.1 x.2.2 then [x.1] else []) ++ getIngressList cfg l := by
  cases h : isValidIngress cfg x.2.1 x.2.2 <;> simp [getIngressList, h]

theorem getIngressList_append {α} (cfg : Cfg) (l₁ l₂ : List (α × Ann × Cls)) :
    getIngressList cfg (l₁ ++ l₂) = getIngressList cfg l₁ ++ getIngressList cfg l₂ := by
  simp [getIngressList]

/-- alone or together: the answer for a listing is made of the answers for the single items -/
theorem getIngressList_flatMap {α} (cfg : Cfg) (l : List (α × Ann × Cls)) :
    getIngressList cfg l = l.flatMap fun x => getIngressList cfg [x] := by
  induction l with
  | nil => rfl
  | cons x rest ih =>
    rw [getIngressList_cons, ih, List.flatMap_cons, getIngressList_cons, getIngressList_nil, List.append_nil]

theorem getIngressList_perm {α} (cfg : Cfg) (l₁ l₂ : List (α × Ann × Cls)) (h : l₁.Perm l₂) :
    (getIngressList cfg l₁).Perm (getIngressList cfg l₂) :=
  (h.filter _).map _

theorem getIngressList_sublist {α} (cfg : Cfg) (l : List (α × Ann × Cls)) :
    (getIngressList cfg l).Sublist (l.map (·.1)) :=
  (List.filter_sublist (l := l)).map _

theorem mem_listing (w : Nat → Option Obj) (order : List Nat) (i : Nat) (a : Ann) (c : Cls) :
    (i, a, c) ∈ listing w order ↔ i ∈ order ∧ ∃ o, w i = some o ∧ o.ann = a ∧ o.cls = c := by
  simp only [listing, List.mem_filterMap, Option.map_eq_some_iff, Prod.mk.injEq]
  constructor
  · rintro ⟨j, hj, o, ho, rfl, rfl, rfl⟩; exact ⟨hj, o, ho, rfl, rfl⟩
  · rintro ⟨hi, o, ho, rfl, rfl⟩; exact ⟨i, hi, o, ho, rfl, rfl, rfl⟩

/-- **membership = own verdict**: ingress `i` is in the answer of `GetIngressList` iff the client
listed it and `IsValidIngress` accepts it — no other listed ingress, and not the order, matters -/
theorem mem_listed (cfg : Cfg) (w : Nat → Option Obj) (order : List Nat) (i : Nat) :
    i ∈ listed cfg w order ↔ i ∈ order ∧ validAt cfg w i = true := by
  simp only [listed, getIngressList, List.mem_map, List.mem_filter]
  constructor
  · rintro ⟨⟨j, a, c⟩, ⟨hm, hv⟩, rfl⟩
    obtain ⟨hj, o, ho, rfl, rfl⟩ := (mem_listing w order j a c).1 hm
    exact ⟨hj, by simpa [validAt, ho, Obj.valid] using hv⟩
  · rintro ⟨hi, hv⟩
    cases ho : w i with
    | none => simp [validAt, ho] at hv
    | some o =>
      refine ⟨(i, o.ann, o.cls), ⟨(mem_listing w order i o.ann o.cls).2 ⟨hi, o, ho, rfl, rfl⟩, ?_⟩, rfl⟩
      simpa [validAt, ho, Obj.valid] using hv

theorem listed_own_verdict (cfg : Cfg) (w : Nat → Option Obj) (order : List Nat) (i : Nat) (o : Obj)
    (hi : i ∈ order) (ho : w i = some o) :
    i ∈ listed cfg w order ↔ isValidIngress cfg o.ann o.cls = true := by
  simp [mem_listed, hi, validAt, ho, Obj.valid]

/-- two clusters, two listing orders: if both list ingress `i` with the same object, both answers
agree on `i` -/
theorem listed_independent (cfg : Cfg) (w₁ w₂ : Nat → Option Obj) (o₁ o₂ : List Nat) (i : Nat)
    (h₁ : i ∈ o₁) (h₂ : i ∈ o₂) (hw : w₁ i = w₂ i) :
    i ∈ listed cfg w₁ o₁ ↔ i ∈ listed cfg w₂ o₂ := by
  simp [mem_listed, h₁, h₂, validAt, hw]

theorem listed_perm (cfg : Cfg) (w : Nat → Option Obj) (o₁ o₂ : List Nat) (h : o₁.Perm o₂) :
    (listed cfg w o₁).Perm (listed cfg w o₂) :=
  getIngressList_perm cfg _ _ (h.filterMap _)

theorem listed_mem_perm (cfg : Cfg) (w : Nat → Option Obj) (o₁ o₂ : List Nat) (h : o₁.Perm o₂) (i : Nat) :
    i ∈ listed cfg w o₁ ↔ i ∈ listed cfg w o₂ :=
  (listed_perm cfg w o₁ o₂ h).mem_iff

/-- … hence membership = the documented rule applied to that ingress -/
theorem listed_selected (cfg : Cfg) (h : cfg.ctrlEmpty = false) (w : Nat → Option Obj) (order : List Nat) (i : Nat) :
    i ∈ listed cfg w order ↔ i ∈ order ∧ selectedAt cfg w i = true := by
  rw [mem_listed]
  simp only [validAt, selectedAt]
  cases w i with
  | none => simp
  | some o => simp [valid_eq_selected cfg h]

/-- non-vacuity: the cluster of seed C08f (ingressClassName of ours; no annotation / empty
annotation) in both listing orders, and a mixed cluster of four -/
example :
    let shop : Obj := { ann := .absent, cls := .ours }
    let billing : Obj := { ann := absOf "haproxy" ("", true), cls := .ours }
    listed ⟨false, false, false⟩ (worldOf [shop, billing]) [0, 1] = [0] ∧
    listed ⟨false, false, false⟩ (worldOf [shop, billing]) [1, 0] = [0] ∧
    listed ⟨true, false, false⟩ (worldOf [⟨.absent, .absent, 0, 0, 0⟩, ⟨.foreign, .absent, 0, 0, 0⟩,
      ⟨.ours, .foreign, 0, 0, 0⟩, ⟨.foreign, .ours, 0, 0, 0⟩]) [3, 1, 2, 0] = [2, 0] := by decide

/-! ### sharing a verdict between listed items

A listing may only reuse the verdict of an earlier item for a later one if the key under which
it is remembered determines the verdict.  `(value, ingressClassName)` does not (presence is
missing): `memo_value_key_order_dependent`. -/

/-- a listing that remembers one verdict per key: the first listed item with a key decides for
all later ones -/
def listMemo {ι κ} [DecidableEq κ] (valid : ι → Bool) (key : ι → κ) : List (κ × Bool) → List ι → List ι
  | _, [] => []
  | m, x :: xs =>
    match m.lookup (key x) with
    | some v => (if v then [x] else []) ++ listMemo valid key m xs
    | none => (if valid x then [x] else []) ++ listMemo valid key ((key x, valid x) :: m) xs

/-- a key that determines the verdict makes the memo invisible -/
theorem listMemo_sound {ι κ} [DecidableEq κ] (valid : ι → Bool) (key : ι → κ)
    (hk : ∀ x y, key x = key y → valid x = valid y) (l : List ι) :
    ∀ m : List (κ × Bool), (∀ k v, m.lookup k = some v → ∀ x, key x = k → valid x = v) →
      listMemo valid key m l = l.filter valid := by
  induction l with
  | nil => intro m _; rfl
  | cons x xs ih =>
    intro m hm
    cases hl : m.lookup (key x) with
    | some v =>
      have hv : valid x = v := hm _ _ hl x rfl
      simp only [listMemo, hl, List.filter_cons, ih m hm, hv]
      cases v <;> simp
    | none =>
      have hm' : ∀ k v, ((key x, valid x) :: m).lookup k = some v → ∀ y, key y = k → valid y = v := by
        intro k v hlk y hy
        rw [List.lookup_cons] at hlk
        by_cases hkx : k = key x
        · simp [hkx] at hlk
          rw [← hlk]; exact hk y x (hy.trans hkx)
        · have : (k == key x) = false := by simpa using hkx
          simp only [this] at hlk
          exact hm k v hlk y hy
      simp only [listMemo, hl, List.filter_cons, ih _ hm']
      cases valid x <;> simp

/-- … and any other key makes some listing wrong: two items with the same key and different
verdicts, listed one after the other -/
theorem listMemo_unsound {ι κ} [DecidableEq κ] (valid : ι → Bool) (key : ι → κ) (x y : ι)
    (hkey : key x = key y) (hv : valid x ≠ valid y) :
    listMemo valid key [] [x, y] ≠ [x, y].filter valid := by
  have hl : List.lookup (key y) [(key x, valid x)] = some (valid x) := by
    simp [hkey]
  simp only [listMemo, List.lookup_nil, hl, List.filter_cons, List.filter_nil]
  cases hx : valid x <;> cases hy : valid y <;> simp [hx, hy] at hv ⊢

/-- the key "annotation value + ingressClassName" on the cluster of seed C08f: whichever is listed
first decides for both, in both directions -/
theorem memo_value_key_order_dependent :
    let valid (x : String × Bool) := isValidRaw ⟨false, false, false⟩ "haproxy" x .ours
    let key (x : String × Bool) := x.1
    listMemo valid key [] [("", false), ("", true)] = [("", false), ("", true)] ∧
    listMemo valid key [] [("", true), ("", false)] = [] ∧
    [("", false), ("", true)].filter valid = [("", false)] := by
  decide

/-! ### the oracle of the `list` cases is quiet on a correct answer -/

theorem selList_eq (cfg : Cfg) (l : List Obj) (i : Nat) : selList cfg l i = selectedAt cfg (worldOf l) i := rfl

/-- any duplicate-free answer that holds exactly the selected ingresses passes the oracle -/
theorem oracleList_quiet (cfg : Cfg) (l : List Obj) (ids : List Nat) (hn : ids.Nodup)
    (h : ∀ i, i ∈ ids ↔ i < l.length ∧ selList cfg l i = true) :
    oracleList cfg l ids = none := by
  have h1 : ids.any (fun i => decide (i ≥ l.length)) = false := by
    rw [List.any_eq_false]
    intro i hi
    have := ((h i).1 hi).1
    simp; omega
  have h2 : (ids.eraseDups.length != ids.length) = false := by
    have : ids.eraseDups = ids := by
      clear h h1
      induction ids with
      | nil => simp
      | cons x rest ih =>
        have hx := (List.nodup_cons.1 hn)
        rw [List.eraseDups_cons]
        have : rest.filter (fun b => !b == x) = rest := by
          rw [List.filter_eq_self]
          intro b hb
          have : b ≠ x := fun e => hx.1 (e ▸ hb)
          simpa using this
        rw [this, ih hx.2]
    simp [this]
  have h3 : (List.range l.length).any (fun i => ids.contains i && !(selList cfg l i)) = false := by
    rw [List.any_eq_false]
    intro i _
    by_cases hi : i ∈ ids
    · simp [((h i).1 hi).2]
    · simp [hi]
  have h4 : (List.range l.length).any (fun i => !(ids.contains i) && selList cfg l i) = false := by
    rw [List.any_eq_false]
    intro i hr
    have hlt : i < l.length := List.mem_range.1 hr
    by_cases hi : i ∈ ids
    · simp [hi]
    · have : selList cfg l i = false := by
        cases hs : selList cfg l i with
        | false => rfl
        | true => exact absurd ((h i).2 ⟨hlt, hs⟩) hi
      simp [this]
  simp only [oracleList, h1, h2, h3, h4]
  simp

theorem listing_ids (w : Nat → Option Obj) (order : List Nat) :
    (listing w order).map (·.1) = order.filter fun i => (w i).isSome := by
  induction order with
  | nil => rfl
  | cons i rest ih =>
    cases h : w i with
    | none => simpa [listing, h] using ih
    | some o => simpa [listing, h] using ih

theorem listed_nodup (cfg : Cfg) (w : Nat → Option Obj) (order : List Nat) (h : order.Nodup) :
    (listed cfg w order).Nodup := by
  have h1 := getIngressList_sublist cfg (listing w order)
  rw [listing_ids] at h1
  exact (h1.trans List.filter_sublist).nodup h

/-- the oracle is quiet on the model's own answer, for every complete listing order -/
theorem oracleList_model (cfg : Cfg) (he : cfg.ctrlEmpty = false) (l : List Obj) (order : List Nat)
    (hn : order.Nodup) (hc : ∀ i, i ∈ order ↔ i < l.length) :
    oracleList cfg l (listed cfg (worldOf l) order) = none := by
  apply oracleList_quiet cfg l _ (listed_nodup cfg _ order hn)
  intro i
  rw [listed_selected cfg he, hc i, selList_eq]

/-- the oracle does fire: an unselected ingress in the answer, a selected one missing -/
example :
    let shop : Obj := { ann := .absent, cls := .ours }
    let billing : Obj := { ann := .foreign, cls := .ours }
    oracleList ⟨false, false, false⟩ [shop, billing] [0, 1] = some "unselected-ingress-listed" ∧
    oracleList ⟨false, false, false⟩ [shop, billing] [] = some "selected-ingress-not-listed" ∧
    oracleList ⟨false, false, false⟩ [shop, billing] [0] = none := by decide

/-! ### all histories with full syncs -/

theorem contains_listed (cfg : Cfg) (w : Nat → Option Obj) (order : List Nat) (i : Nat)
    (hc : validAt cfg w i = true → i ∈ order) :
    (listed cfg w order).contains i = validAt cfg w i := by
  cases hv : validAt cfg w i with
  | true =>
    have : i ∈ listed cfg w order := (mem_listed cfg w order i).2 ⟨hc hv, hv⟩
    simpa using this
  | false =>
    have : ¬ i ∈ listed cfg w order := fun hm => by
      have := ((mem_listed cfg w order i).1 hm).2
      simp [hv] at this
    simpa using this

/-- a full sync never configures an ingress that is not valid, whatever is listed, in whatever
order, complete or not (the security half, no side condition) -/
theorem fullSync_safe (cfg : Cfg) (s : St) (order : List Nat) (i : Nat) :
    (fullSync cfg s order).contrib i = true → validAt cfg s.world i = true := by
  intro h
  have : i ∈ listed cfg s.world order := by simpa [fullSync] using h
  exact ((mem_listed cfg s.world order i).1 this).2

/-- the world only changes at the index the operation names -/
theorem step_world_other (cfg : Cfg) (s : St) (op : Op) (j : Nat) (h : j ≠ op.idx) :
    (step cfg s op).world j = s.world j := by
  cases op with
  | create i n =>
    cases hw : s.world i <;> simp [step, eventOf, worldAfter, hw, set, Op.idx] at h ⊢
    intro e; exact absurd e h
  | update i n =>
    cases hw : s.world i <;> simp [step, eventOf, worldAfter, hw, set, Op.idx] at h ⊢
    intro e; exact absurd e h
  | delete i =>
    cases hw : s.world i <;> simp [step, eventOf, worldAfter, hw, set, Op.idx] at h ⊢
    intro e; exact absurd e h

def InvF (cfg : Cfg) (s : StF) : Prop :=
  Inv cfg s.st ∧ ∀ i, s.st.world i ≠ none → i ∈ s.dom

theorem invF_init (cfg : Cfg) : InvF cfg {} :=
  ⟨inv_init cfg, fun _ h => absurd rfl h⟩

theorem invF_step (cfg : Cfg) (s : StF) (op : OpF) (h : InvF cfg s) : InvF cfg (stepF cfg s op) := by
  cases op with
  | op o =>
    refine ⟨inv_step cfg s.st o h.1, ?_⟩
    intro i hi
    by_cases hio : i = o.idx
    · simp [stepF, hio]
    · have : s.st.world i ≠ none := by
        rw [← step_world_other cfg s.st o i hio]; exact hi
      simp [stepF, h.2 i this]
  | full order =>
    by_cases hall : s.dom.all (fun i => order.contains i) = true
    · simp only [stepF, hall, if_true]
      refine ⟨?_, h.2⟩
      intro i
      show (listed cfg s.st.world order).contains i = validAt cfg s.st.world i
      apply contains_listed
      intro hv
      have hw : s.st.world i ≠ none := by
        intro e; simp [validAt, e] at hv
      have hd := h.2 i hw
      rw [List.all_eq_true] at hall
      simpa using hall i hd
    · simp only [stepF, hall]
      exact h

theorem invF_foldl (cfg : Cfg) (ops : List OpF) (s : StF) (h : InvF cfg s) :
    InvF cfg (ops.foldl (stepF cfg) s) := by
  induction ops generalizing s with
  | nil => exact h
  | cons op rest ih => exact ih _ (invF_step cfg s op h)

/-- **configured = valid** over every history of ingress events interleaved with full syncs, the
client listing in ANY order at each of them -/
theorem configured_eq_valid_full (cfg : Cfg) (ops : List OpF) (i : Nat) :
    (runF cfg ops).st.contrib i = validAt cfg (runF cfg ops).st.world i :=
  (invF_foldl cfg ops {} (invF_init cfg)).1 i

theorem configured_eq_selected_full (cfg : Cfg) (h : cfg.ctrlEmpty = false) (ops : List OpF) (i : Nat) :
    (runF cfg ops).st.contrib i = selectedAt cfg (runF cfg ops).st.world i := by
  rw [configured_eq_valid_full]
  simp only [validAt, selectedAt]
  cases (runF cfg ops).st.world i with
  | none => rfl
  | some o => exact valid_eq_selected cfg h o

/-- the configuration does not depend on the kind of the last reconciliation: a full sync after
any history (any complete listing order) leaves the configured set as the partial syncs built it -/
theorem full_sync_idempotent_on_inv (cfg : Cfg) (ops : List OpF) (order : List Nat) (i : Nat) :
    (runF cfg (ops ++ [.full order])).st.contrib i = (runF cfg ops).st.contrib i := by
  have h1 := configured_eq_valid_full cfg (ops ++ [.full order]) i
  have h2 := configured_eq_valid_full cfg ops i
  have hw : (runF cfg (ops ++ [.full order])).st.world = (runF cfg ops).st.world := by
    simp only [runF, List.foldl_append, List.foldl_cons, List.foldl_nil, stepF]
    split <;> rfl
  rw [h1, h2, hw]

/-- the listing order of a full sync is irrelevant -/
theorem full_sync_order_irrelevant (cfg : Cfg) (ops : List OpF) (o₁ o₂ : List Nat) (i : Nat) :
    (runF cfg (ops ++ [.full o₁])).st.contrib i = (runF cfg (ops ++ [.full o₂])).st.contrib i := by
  rw [full_sync_idempotent_on_inv, full_sync_idempotent_on_inv]

/-- non-vacuity: the cluster of seed C08f built by events, then full syncs in both orders; and a
full sync that really changes nothing after an update took an ingress out -/
example :
    let cfg : Cfg := ⟨false, false, false⟩
    let ops := [OpF.op (.create 0 { ann := .absent, cls := .ours }), .op (.create 1 { ann := .foreign, cls := .ours })]
    let bits (s : StF) := [s.st.contrib 0, s.st.contrib 1]
    bits (runF cfg ops) = [true, false] ∧ bits (runF cfg (ops ++ [.full [0, 1]])) = [true, false] ∧
    bits (runF cfg (ops ++ [.full [1, 0]])) = [true, false] ∧
    bits (runF cfg (ops ++ [.op (.update 0 { ann := .foreign, cls := .ours }), .full [1, 0]])) = [false, false] := by
  decide

/-- the `lsync` oracle is quiet exactly when configured = selected on the ingresses of the case -/
theorem oracleSync_none_iff (n : Nat) (full : Bool) (bits sel : Nat → Bool) :
    oracleSync n full bits sel = none ↔ ∀ i, i < n → bits i = sel i := by
  constructor
  · intro h i hi
    have hr : i ∈ List.range n := List.mem_range.2 hi
    cases h1 : (List.range n).any (fun i => bits i && !(sel i)) with
    | true => cases full <;> simp [oracleSync, h1] at h
    | false =>
      cases h2 : (List.range n).any (fun i => !(bits i) && sel i) with
      | true => cases full <;> simp [oracleSync, h1, h2] at h
      | false =>
        rw [List.any_eq_false] at h1 h2
        have a := h1 i hr
        have b := h2 i hr
        cases hb : bits i <;> cases hs : sel i <;> simp [hb, hs] at a b ⊢
  · intro h
    have h1 : (List.range n).any (fun i => bits i && !(sel i)) = false := by
      rw [List.any_eq_false]; intro i hr
      rw [h i (List.mem_range.1 hr)]; simp
    have h2 : (List.range n).any (fun i => !(bits i) && sel i) = false := by
      rw [List.any_eq_false]; intro i hr
      rw [h i (List.mem_range.1 hr)]; simp
    simp [oracleSync, h1, h2]

/-- … hence quiet on the model after every history with full syncs -/
theorem oracleSync_model (cfg : Cfg) (h : cfg.ctrlEmpty = false) (ops : List OpF) (n : Nat) (full : Bool) :
    oracleSync n full (runF cfg ops).st.contrib (selectedAt cfg (runF cfg ops).st.world) = none :=
  (oracleSync_none_iff _ _ _ _).2 fun i _ => configured_eq_selected_full cfg h ops i

/-! ### facts regenerated from the Go source -/

/-- the statements of `GetIngressList` in source order: one `List`, one loop over the items whose
only condition is `c.IsValidIngress(ing)` on the listed item itself; nothing is remembered
between two items -/
theorem facts_c08_list :
    Facts.c08GetIngressListSkeleton =
      ["list := networking.IngressList{}",
       "if err := c.client.List(c.ctx, &list); err != nil",
       "return nil, err",
       "items := make([]*networking.Ingress, len(list.Items))",
       "var i int",
       "for j := range list.Items",
       "ing := &list.Items[j]",
       "if c.IsValidIngress(ing)",
       "items[i] = ing",
       "i++",
       "return items[:i], nil"] ∧
    Facts.c08GetIngressSkeleton =
      ["ing := networking.Ingress{}",
       "err := c.get(ingressName, &ing)",
       "if err == nil && !c.IsValidIngress(&ing)",
       "return nil, fmt.Errorf(\"ingress class does not match\")",
       "return &ing, err"] := by
  decide

end HapVerif.C08
