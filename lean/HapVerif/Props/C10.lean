import HapVerif.Lemmas.C10
import HapVerif.Generated.Facts
/-!
# C10 — Gateway API routes attach only where class, listener and namespace rules allow

Model: `HapVerif.C10.sync` (Model/C10.lean), tied to the Go code by the correspondence run
(`harness/cmd/hv/c10.go`: real gateway converter + real cache facade + real haproxy model).
Spec: `Admitted` = parentRef designates the Gateway ∧ `ClassOurs` ∧ `SectionOK` ∧ kind
(`KindListed` ∧ `ProtoCompat`) ∧ `NsOK`, written from docs/content/en/docs/configuration/gateway-api.md
and the Gateway API semantics of `parentRefs`/`allowedRoutes`.

All theorems quantify over every `World` (any number of classes, namespaces, gateways, listeners,
routes, parentRefs, rules, matches, hostnames, backendRefs, services) that satisfies object
identity `WF` (unique gateway ns/name, class names, namespace names, label keys).

## Variants and the repaired finding
Two variants of the code are modelled (`fx`): `true` = the current code (/repo fbb19ce:
`syncTCPRouteGateway` skips a listener whose protocol is not empty and neither TCP nor TLS), `false` =
the code as first found (it never read `listener.Protocol`).  `cur` is the variant of the current
source tree, read from the regenerated fact `c10TcpProtocolChecked` (the exact three comparisons of the
repaired code); `cur_is_repaired` pins it, and the driver models the same variant.

Full strength, for the current code and every world: `attach_iff`, `nothing_else_paths`,
`nothing_else_tcp`, `nothing_else_backends_cur`, `produced_rules`, `produced_tcp`.
Historical witnesses (`decide`-checked on the old variant): `attach_iff_old_fails`,
`nothing_else_tcp_old_fails` — a TCPRoute was attached through an `HTTP` listener whose allowedRoutes
has no `kinds`, and a TCP service was opened on that listener's port (oracle signature
`tcproute-attached-through-non-tcp-listener`; replay kept in the harness corpus);
`old_witness_repaired`: the current variant refuses it.  `attach_iff_old` characterises what the old
code decided (class ∧ section ∧ listed kind ∧ namespace rule, no protocol bound).
-/
namespace HapVerif.C10

/-! ## attach_iff -/

/-- the code's decision for one (route, parentRef, gateway, listener), both variants: parentRef
designates the Gateway ∧ class ours ∧ section ∧ listed kind ∧ namespace rule, and — repaired variant
only — the protocol bound -/
theorem attach_iff_code (fx : Bool) (w : World) (hwf : WF w) (r : Route) (pr : ParentRef) (gw : Gateway) (l : Listener) :
    attaches fx w r pr gw l = true ↔ AdmittedNoProto w r pr gw l ∧ (fx = true → ProtoCompat r l) := by
  rw [attaches_iff, resolveParent_iff w hwf, sectionOK_iff, listenerAllowed_iff w hwf, protoGuard_iff]
  constructor
  · rintro ⟨⟨h1, h2, h3, h4, h5⟩, hl, hs, hp, ha⟩
    exact ⟨⟨h1, h2, h3, h4, hl, h5, hs, ha⟩, hp⟩
  · rintro ⟨⟨h1, h2, h3, h4, hl, h5, hs, ha⟩, hp⟩
    exact ⟨⟨h1, h2, h3, h4, h5⟩, hl, hs, hp, ha⟩

/-- the code as first found decided exactly class ∧ section ∧ listed kind ∧ namespace rule -/
theorem attach_iff_old (w : World) (hwf : WF w) (r : Route) (pr : ParentRef) (gw : Gateway) (l : Listener) :
    attaches false w r pr gw l = true ↔ AdmittedNoProto w r pr gw l := by
  rw [attach_iff_code false w hwf]; simp

/-- **attach_iff**, full strength, for the repaired variant -/
theorem attach_iff_fixed (w : World) (hwf : WF w) (r : Route) (pr : ParentRef) (gw : Gateway) (l : Listener) :
    attaches true w r pr gw l = true ↔ Admitted w r pr gw l := by
  rw [attach_iff_code true w hwf]; simp [Admitted]

/-- the variant of the current source tree (regenerated fact) -/
abbrev cur : Bool := Facts.c10TcpProtocolChecked

/-- the current source tree has the repaired `syncTCPRouteGateway` -/
theorem cur_is_repaired : cur = true := by decide

/-- **attach_iff** (current code, every world): a (route, parentRef, gateway, listener) is attached
iff the parentRef designates the Gateway ∧ classOurs ∧ sectionOK ∧ kindOK (listed ∧ protocol) ∧ nsOK -/
theorem attach_iff (w : World) (hwf : WF w) (r : Route) (pr : ParentRef) (gw : Gateway) (l : Listener) :
    attaches cur w r pr gw l = true ↔ Admitted w r pr gw l := by
  rw [cur_is_repaired]; exact attach_iff_fixed w hwf r pr gw l

/-- both variants agree with the Spec wherever the protocol bound holds -/
theorem attach_iff_of_proto (fx : Bool) (w : World) (hwf : WF w) (r : Route) (pr : ParentRef) (gw : Gateway) (l : Listener)
    (hp : ProtoCompat r l) : attaches fx w r pr gw l = true ↔ Admitted w r pr gw l := by
  rw [attach_iff_code fx w hwf]
  exact ⟨fun h => ⟨h.1, hp⟩, fun h => ⟨h.1, fun _ => hp⟩⟩

/-- **attach_iff** holds at full strength for every HTTPRoute -/
theorem attach_iff_http (fx : Bool) (w : World) (hwf : WF w) (r : Route) (pr : ParentRef) (gw : Gateway) (l : Listener)
    (hr : r.tcp = false) : attaches fx w r pr gw l = true ↔ Admitted w r pr gw l :=
  attach_iff_of_proto fx w hwf r pr gw l (fun h => by rw [hr] at h; cases h)

/-- the code never attaches what the Spec refuses for a reason other than the protocol -/
theorem attach_sound (fx : Bool) (w : World) (hwf : WF w) (r : Route) (pr : ParentRef) (gw : Gateway) (l : Listener)
    (h : attaches fx w r pr gw l = true) :
    RefersGateway pr ∧ ClassOurs w gw ∧ SectionOK pr l ∧
      ∃ a, l.allowed = some a ∧ KindListed r a ∧ NsOK w gw r a := by
  have := ((attach_iff_code fx w hwf r pr gw l).1 h).1
  exact ⟨this.refers, this.classOurs, this.sectOK, this.allowed⟩

/-- an absent allowedRoutes / namespaces / from refuses every route (the conservative side) -/
theorem undefaulted_refused (fx : Bool) (w : World) (r : Route) (pr : ParentRef) (gw : Gateway) (l : Listener)
    (h : l.allowed = none ∨ ∃ a, l.allowed = some a ∧ (a.nss = none ∨ ∃ nr, a.nss = some nr ∧ nr.frm = none)) :
    attaches fx w r pr gw l = false := by
  unfold attaches listenerAllowed nsAllowed
  rcases h with h | ⟨a, h, h' | ⟨nr, h', h''⟩⟩
  · simp [h]
  · simp [h, h']
  · simp [h, h', h'']

/-! ### historical witness: a TCPRoute through an HTTP listener (code as first found) -/

def lBad : Listener :=
  { name := "l1", host := none, proto := "HTTP", port := 80,
    allowed := some { kinds := [], nss := some { frm := some "Same", sel := none } } }
def gwBad : Gateway := { ns := "g", name := "gw1", cls := "hap", listeners := [lBad] }
def prBad : ParentRef := { group := none, kind := none, ns := none, name := "gw1", sect := none }
def rBad : Route :=
  { tcp := true, ns := "g", name := "r1", ts := 1, parents := [prBad], hostnames := [],
    rules := [{ mts := [], refs := [{ svc := "s1", port := some 8080, weight := none }] }] }
def wBad : World :=
  { classes := [("hap", true)], nss := [("g", [])], gws := [gwBad], routes := [rBad],
    svcs := [{ ns := "g", name := "s1", ports := [(8080, ["10.0.0.1:8080"])] }] }

theorem wBad_wf : WF wBad := by
  constructor <;> simp [wBad]

theorem not_admitted_bad (pr : ParentRef) (gw : Gateway) : ¬ Admitted wBad rBad pr gw lBad := by
  rintro ⟨_, hp⟩
  have := hp rfl
  simp [lBad] at this

/-- full-strength `attach_iff` failed for the code as first found: TCPRoute `g/r1` → Gateway `g/gw1` (our class), listener `l1`
`protocol: HTTP, port: 80, allowedRoutes: {namespaces: {from: Same}}` was attached -/
theorem attach_iff_old_fails :
    WF wBad ∧ attaches false wBad rBad prBad gwBad lBad = true ∧ ¬ Admitted wBad rBad prBad gwBad lBad :=
  ⟨wBad_wf, by decide, not_admitted_bad _ _⟩

/-- the repaired variant refuses it -/
theorem old_witness_repaired : attaches true wBad rBad prBad gwBad lBad = false ∧
    (sync true wBad).tcps = [] ∧ (sync true wBad).backends = [] := by decide +kernel

/-! ## where configuration comes from -/

/-- rule `i` of route `r` with the backend `createBackend` builds for it, reached through parentRef `pr` -/
structure Site (w : World) (r : Route) (pr : ParentRef) (rule : Rule) (i : Nat) (b : Backend) : Prop where
  rIn : r ∈ w.routes
  prIn : pr ∈ r.parents
  ruleAt : r.rules[i]? = some rule
  backend : mkBackend w r i rule = some b

/-- no TCPRoute is admitted (but for the protocol) by a listener of another protocol -/
def TcpListenersCompat (w : World) : Prop :=
  ∀ r ∈ w.routes, r.tcp = true → ∀ pr ∈ r.parents, ∀ gw l, AdmittedNoProto w r pr gw l → ProtoCompat r l

/-- `x` is the first element of `l` with its key -/
def FirstDeclared {α κ} (key : α → κ) (l : List α) (x : α) : Prop :=
  ∃ pre post, l = pre ++ x :: post ∧ ∀ z ∈ pre, key z ≠ key x

theorem ruleAt_iff {r : Route} {rule : Rule} {i : Nat} : (rule, i) ∈ r.rules.zipIdx ↔ r.rules[i]? = some rule := by
  rw [List.mem_zipIdx_iff_getElem?]

theorem path_event_of_mem {fx : Bool} {w : World} {p : PathDecl} (h : p ∈ pathDecls fx w) : Ev.path p ∈ events fx w := by
  unfold pathDecls at h
  obtain ⟨e, he, hp⟩ := List.mem_filterMap.1 h
  cases e with
  | path d => simp only [Ev.path?, Option.some.injEq] at hp; subst hp; exact he
  | tcp d => simp [Ev.path?] at hp

theorem tcp_event_of_mem {fx : Bool} {w : World} {t : TcpDecl} (h : t ∈ tcpDecls fx w) : Ev.tcp t ∈ events fx w := by
  unfold tcpDecls at h
  obtain ⟨e, he, hp⟩ := List.mem_filterMap.1 h
  cases e with
  | path d => simp [Ev.tcp?] at hp
  | tcp d => simp only [Ev.tcp?, Option.some.injEq] at hp; subst hp; exact he

/-- **nothing_else** (hosts/paths, full strength): every path of the resulting configuration is the
declaration of an HTTPRoute rule through a listener that the Spec admits, for one of the rule's
matches and one of the hostnames `filterHostnames` keeps, and points to that rule's backend. -/
theorem nothing_else_paths (fx : Bool) (w : World) (hwf : WF w) (p : PathDecl) (hp : p ∈ (sync fx w).paths) :
    ∃ r pr gw l rule i, Site w r pr rule i p.backend ∧ r.tcp = false ∧ Admitted w r pr gw l ∧
      ∃ m ∈ effMatches rule, ∃ h ∈ filterHostnames l.host r.hostnames,
        p.host = normHost h ∧ p.link = linkOf m := by
  have he := path_event_of_mem (firsts_sub hp)
  obtain ⟨r, hr, pr, hpr, gw, l, ha, rule, i, b, hri, hb, he⟩ := (mem_events_iff fx w _).1 he
  obtain ⟨ht, m, hm, h, hh, rfl⟩ := (mem_ruleEvents_path r l rule b p).1 he
  exact ⟨r, pr, gw, l, rule, i, ⟨hr, hpr, ruleAt_iff.1 hri, hb⟩, ht,
    (attach_iff_http fx w hwf r pr gw l ht).1 ha, m, hm, h, hh, rfl, rfl⟩

/-- **nothing_else** (TCP services), both variants: the Spec's rule, with the protocol bound for the
repaired variant only -/
theorem nothing_else_tcp_code (fx : Bool) (w : World) (hwf : WF w) (t : TcpDecl) (ht : t ∈ (sync fx w).tcps) :
    ∃ r pr gw l rule i, Site w r pr rule i t.backend ∧ r.tcp = true ∧ AdmittedNoProto w r pr gw l ∧
      (fx = true → ProtoCompat r l) ∧ t.port = l.port := by
  have he := tcp_event_of_mem (firsts_sub ht)
  obtain ⟨r, hr, pr, hpr, gw, l, ha, rule, i, b, hri, hb, he⟩ := (mem_events_iff fx w _).1 he
  obtain ⟨htcp, rfl⟩ := (mem_ruleEvents_tcp r l rule b t).1 he
  have := (attach_iff_code fx w hwf r pr gw l).1 ha
  exact ⟨r, pr, gw, l, rule, i, ⟨hr, hpr, ruleAt_iff.1 hri, hb⟩, htcp, this.1, this.2, rfl⟩

/-- **nothing_else** (TCP services), full strength, for the repaired variant -/
theorem nothing_else_tcp_fixed (w : World) (hwf : WF w) (t : TcpDecl) (ht : t ∈ (sync true w).tcps) :
    ∃ r pr gw l rule i, Site w r pr rule i t.backend ∧ r.tcp = true ∧ Admitted w r pr gw l ∧
      t.port = l.port := by
  obtain ⟨r, pr, gw, l, rule, i, site, htcp, ha, hp, hport⟩ := nothing_else_tcp_code true w hwf t ht
  exact ⟨r, pr, gw, l, rule, i, site, htcp, ⟨ha, hp rfl⟩, hport⟩

/-- **nothing_else** (TCP services), current code, full strength -/
theorem nothing_else_tcp (w : World) (hwf : WF w) (t : TcpDecl) (ht : t ∈ (sync cur w).tcps) :
    ∃ r pr gw l rule i, Site w r pr rule i t.backend ∧ r.tcp = true ∧ Admitted w r pr gw l ∧
      t.port = l.port := by
  have h := cur_is_repaired
  rw [h] at ht; exact nothing_else_tcp_fixed w hwf t ht

/-- what the old variant guaranteed: the Spec's rule in worlds where no TCPRoute meets a listener of
another protocol -/
theorem nothing_else_tcp_old_compat (fx : Bool) (w : World) (hwf : WF w) (hc : TcpListenersCompat w) (t : TcpDecl)
    (ht : t ∈ (sync fx w).tcps) :
    ∃ r pr gw l rule i, Site w r pr rule i t.backend ∧ r.tcp = true ∧ Admitted w r pr gw l ∧
      t.port = l.port := by
  obtain ⟨r, pr, gw, l, rule, i, site, htcp, ha, _, hport⟩ := nothing_else_tcp_code fx w hwf t ht
  exact ⟨r, pr, gw, l, rule, i, site, htcp, ⟨ha, hc r site.rIn htcp pr site.prIn gw l ha⟩, hport⟩

/-- **nothing_else** (backends): every backend is the one `createBackend` builds for a rule of a route
that reaches a listener admitting it (Spec's rule; for a TCPRoute but for the protocol) -/
theorem nothing_else_backends (fx : Bool) (w : World) (hwf : WF w) (b : Backend) (hb : b ∈ (sync fx w).backends) :
    ∃ r pr gw l rule i, Site w r pr rule i b ∧ AdmittedNoProto w r pr gw l ∧
      ((r.tcp = false ∨ fx = true) → Admitted w r pr gw l) := by
  have hm := firsts_sub hb
  obtain ⟨e, he, rfl⟩ := List.mem_map.1 hm
  obtain ⟨r, hr, pr, hpr, gw, l, ha, rule, i, b', hri, hb', he'⟩ := (mem_events_iff fx w _).1 he
  have hbe : e.backend = b' := by
    cases e with
    | path d => obtain ⟨_, m, _, h, _, rfl⟩ := (mem_ruleEvents_path r l rule b' d).1 he'; rfl
    | tcp d => obtain ⟨_, rfl⟩ := (mem_ruleEvents_tcp r l rule b' d).1 he'; rfl
  rw [hbe]
  have hc := (attach_iff_code fx w hwf r pr gw l).1 ha
  refine ⟨r, pr, gw, l, rule, i, ⟨hr, hpr, ruleAt_iff.1 hri, hb'⟩, hc.1, ?_⟩
  rintro (ht | hfx)
  · exact (attach_iff_http fx w hwf r pr gw l ht).1 ha
  · exact ⟨hc.1, hc.2 hfx⟩

/-- **nothing_else** (backends), current code, full strength -/
theorem nothing_else_backends_cur (w : World) (hwf : WF w) (b : Backend) (hb : b ∈ (sync cur w).backends) :
    ∃ r pr gw l rule i, Site w r pr rule i b ∧ Admitted w r pr gw l := by
  obtain ⟨r, pr, gw, l, rule, i, site, _, h⟩ := nothing_else_backends cur w hwf b hb
  exact ⟨r, pr, gw, l, rule, i, site, h (Or.inr cur_is_repaired)⟩

/-- the code as first found opened TCP port 80 for a TCPRoute that no listener admits -/
theorem nothing_else_tcp_old_fails :
    WF wBad ∧ (sync false wBad).tcps.map (·.port) = [80] ∧
      ¬ ∃ r ∈ wBad.routes, ∃ pr gw, ∃ l ∈ gw.listeners, gw ∈ wBad.gws ∧ Admitted wBad r pr gw l := by
  refine ⟨wBad_wf, by decide +kernel, ?_⟩
  rintro ⟨r, hr, pr, gw, l, hl, hgw, hadm⟩
  simp only [wBad, List.mem_singleton] at hr hgw
  subst hr hgw
  simp only [gwBad, List.mem_singleton] at hl
  subst hl
  exact not_admitted_bad pr _ hadm

/-! ## produced_rules -/

theorem event_of_site {fx : Bool} {w : World} {r : Route} {pr : ParentRef} {gw : Gateway} {l : Listener} {rule : Rule}
    {i : Nat} {b : Backend} (site : Site w r pr rule i b) (ha : attaches fx w r pr gw l = true)
    {e : Ev} (he : e ∈ ruleEvents r l rule b) : e ∈ events fx w :=
  (mem_events_iff fx w e).2 ⟨r, site.rIn, pr, site.prIn, gw, l, ha, rule, i, b, ruleAt_iff.2 site.ruleAt, site.backend, he⟩

/-- **produced_rules** (HTTPRoute): for every admitted (listener, rule with a resolvable backendRef,
match, hostname) the host has a path with that link; the path is the FIRST declared one with that
(host, link) in declaration order (`pathDecls`: routes by creation time then namespace/name, then
parentRefs, listeners, rules, matches, hostnames), and the rule's backend exists. -/
theorem produced_rules (fx : Bool) (w : World) (hwf : WF w) {r : Route} {pr : ParentRef} {gw : Gateway} {l : Listener}
    {rule : Rule} {i : Nat} {b : Backend} (site : Site w r pr rule i b) (ht : r.tcp = false)
    (hadm : Admitted w r pr gw l) {m : HMatch} (hm : m ∈ effMatches rule)
    {h : String} (hh : h ∈ filterHostnames l.host r.hostnames) :
    (∃ p ∈ (sync fx w).paths, p.host = normHost h ∧ p.link = linkOf m ∧ FirstDeclared pathKey (pathDecls fx w) p) ∧
    (∃ b' ∈ (sync fx w).backends, b'.id = backendID r i ∧
      FirstDeclared (fun x : Backend => x.id) ((events fx w).map Ev.backend) b') := by
  have ha := (attach_iff_http fx w hwf r pr gw l ht).2 hadm
  let d : PathDecl := { host := normHost h, link := linkOf m, backend := b }
  have he : Ev.path d ∈ events fx w :=
    event_of_site site ha ((mem_ruleEvents_path r l rule b d).2 ⟨ht, m, hm, h, hh, rfl⟩)
  have hd : d ∈ pathDecls fx w := List.mem_filterMap.2 ⟨_, he, rfl⟩
  obtain ⟨p, hp, hk, pre, post, hsplit, hfirst⟩ := firsts_complete pathKey (pathDecls fx w) d hd
  have hk' : p.host = normHost h ∧ p.link = linkOf m := by
    simp only [pathKey, Prod.mk.injEq] at hk; exact hk
  have hbm : b ∈ (events fx w).map Ev.backend := List.mem_map.2 ⟨_, he, rfl⟩
  obtain ⟨b', hb', hkb, pre', post', hsplit', hfirst'⟩ :=
    firsts_complete (fun x : Backend => x.id) ((events fx w).map Ev.backend) b hbm
  exact ⟨⟨p, hp, hk'.1, hk'.2, pre, post, hsplit, hfirst⟩,
    ⟨b', hb', hkb.trans (mkBackend_id site.backend).1, pre', post', hsplit', hfirst'⟩⟩

/-- **produced_rules** (TCPRoute): an admitted (listener, rule with a resolvable backendRef) has its
port configured by the first declared TCP rule for that port, and its backend exists. -/
theorem produced_tcp (fx : Bool) (w : World) (hwf : WF w) {r : Route} {pr : ParentRef} {gw : Gateway} {l : Listener}
    {rule : Rule} {i : Nat} {b : Backend} (site : Site w r pr rule i b) (ht : r.tcp = true)
    (hadm : Admitted w r pr gw l) :
    (∃ t ∈ (sync fx w).tcps, t.port = l.port ∧ FirstDeclared (fun x : TcpDecl => x.port) (tcpDecls fx w) t) ∧
    (∃ b' ∈ (sync fx w).backends, b'.id = backendID r i) := by
  have ha := (attach_iff_of_proto fx w hwf r pr gw l hadm.2).2 hadm
  let d : TcpDecl := { port := l.port, backend := b }
  have he : Ev.tcp d ∈ events fx w :=
    event_of_site site ha ((mem_ruleEvents_tcp r l rule b d).2 ⟨ht, rfl⟩)
  have hd : d ∈ tcpDecls fx w := List.mem_filterMap.2 ⟨_, he, rfl⟩
  obtain ⟨t, htm, hk, pre, post, hsplit, hfirst⟩ := firsts_complete (fun x : TcpDecl => x.port) (tcpDecls fx w) d hd
  have hbm : b ∈ (events fx w).map Ev.backend := List.mem_map.2 ⟨_, he, rfl⟩
  obtain ⟨b', hb', hkb, _⟩ := firsts_complete (fun x : Backend => x.id) ((events fx w).map Ev.backend) b hbm
  exact ⟨⟨t, htm, hk, pre, post, hsplit, hfirst⟩, ⟨b', hb', hkb.trans (mkBackend_id site.backend).1⟩⟩

/-- one path per (host, path, match type, headers); one backend per id; one TCP service per port -/
theorem one_per_key (fx : Bool) (w : World) :
    (∀ p q, p ∈ (sync fx w).paths → q ∈ (sync fx w).paths → p.host = q.host → p.link = q.link → p = q) ∧
    (∀ a b, a ∈ (sync fx w).backends → b ∈ (sync fx w).backends → a.id = b.id → a = b) ∧
    (∀ s t, s ∈ (sync fx w).tcps → t ∈ (sync fx w).tcps → s.port = t.port → s = t) :=
  ⟨fun p q hp hq h1 h2 => firsts_key_inj pathKey _ p q hp hq (by simp [pathKey, h1, h2]),
   fun a b ha hb h => firsts_key_inj _ _ a b ha hb h,
   fun s t hs ht h => firsts_key_inj _ _ s t hs ht h⟩

/-! ## declaration order: older route first, then namespace/name -/

theorem routeLe_total (a b : Route) : (routeLe a b || routeLe b a) = true := by
  unfold routeLe
  by_cases h : a.ts = b.ts
  · simp only [h, ↓reduceIte, Bool.or_eq_true, decide_eq_true_eq]
    exact String.le_total _ _
  · have h' : ¬ b.ts = a.ts := fun e => h e.symm
    simp only [h, h', ↓reduceIte, Bool.or_eq_true, decide_eq_true_eq]
    omega

theorem routeLe_trans (a b c : Route) (h1 : routeLe a b = true) (h2 : routeLe b c = true) : routeLe a c = true := by
  unfold routeLe at *
  by_cases hab : a.ts = b.ts <;> by_cases hbc : b.ts = c.ts
  · rw [if_pos hab] at h1; rw [if_pos hbc] at h2; rw [if_pos (hab.trans hbc)]
    simp only [decide_eq_true_eq] at *
    exact String.le_trans h1 h2
  · rw [if_pos hab] at h1; rw [if_neg hbc] at h2
    have : ¬ a.ts = c.ts := by omega
    rw [if_neg this]
    simp only [decide_eq_true_eq] at *; omega
  · rw [if_neg hab] at h1; rw [if_pos hbc] at h2
    simp only [decide_eq_true_eq] at h1
    have : ¬ a.ts = c.ts := by omega
    rw [if_neg this]
    simp only [decide_eq_true_eq]; omega
  · rw [if_neg hab] at h1; rw [if_neg hbc] at h2
    simp only [decide_eq_true_eq] at h1 h2
    have : ¬ a.ts = c.ts := by omega
    rw [if_neg this]
    simp only [decide_eq_true_eq]; omega

/-- the routes are visited oldest first, ties by `namespace/name` -/
theorem sortRoutes_sorted (rs : List Route) :
    (sortRoutes rs).Pairwise fun a b => a.ts < b.ts ∨ (a.ts = b.ts ∧ rkey a ≤ rkey b) := by
  have := pairwise_isort routeLe routeLe_trans routeLe_total rs
  unfold sortRoutes
  refine this.imp ?_
  intro a b h
  unfold routeLe at h
  by_cases hab : a.ts = b.ts
  · simp only [hab, ↓reduceIte, decide_eq_true_eq] at h; exact Or.inr ⟨hab, h⟩
  · simp only [hab, ↓reduceIte, decide_eq_true_eq] at h; exact Or.inl h

/-! ## weighted servers -/

theorem rebalance_length (cls : List C16.Cluster) (i : Int) : (C16.rebalance cls i).length = cls.length := by
  unfold C16.rebalance C16.rebalanceWith
  simp only
  split
  · simp
  · split <;> simp

theorem weighted_targets_aux (groups : List (Int × List String)) (ws : List (Option Int))
    (h : ws.length = groups.length) :
    ((groups.zip ws).flatMap fun gw => gw.1.2.map fun e => (e, gw.2.getD 0)).map (·.1) = groups.flatMap (·.2) := by
  induction groups generalizing ws with
  | nil => simp
  | cons g gs ih =>
    cases ws with
    | nil => simp at h
    | cons o os =>
      simp only [List.length_cons, Nat.add_right_cancel_iff] at h
      simp only [List.zip_cons_cons, List.flatMap_cons, List.map_append, List.map_map]
      rw [ih os h]
      congr 1
      have : ((fun x : String × Int => x.1) ∘ fun e : String => (e, o.getD 0)) = id := rfl
      rw [this, List.map_id]

theorem nameServers_targets (ts : List (String × Int)) : (nameServers ts).map (·.target) = ts.map (·.1) := by
  unfold nameServers
  simp only [List.map_map]
  have : ((fun s : Server => s.target) ∘ fun x : (String × Int) × Nat =>
      ({ name := "srv" ++ pad3 (x.2 + 1), target := x.1.1, weight := x.1.2 } : Server)) = fun x => x.1.1 := rfl
  rw [this]
  have h2 : (fun x : (String × Int) × Nat => x.1.1) = (fun y : String × Int => y.1) ∘ Prod.fst := rfl
  rw [h2, ← List.map_map, List.zipIdx_map_fst]

/-- the servers of a rule's backend are the ready endpoints of its resolvable backendRefs (service
of the route's namespace, port found), in backendRef order, each list sorted by `ip:port` -/
theorem backend_servers {w : World} {r : Route} {i : Nat} {rule : Rule} {b : Backend}
    (h : mkBackend w r i rule = some b) :
    b.id = backendID r i ∧ b.tcp = r.tcp ∧
      b.servers.map (·.target) = (refGroups w r rule).flatMap (·.2) := by
  refine ⟨(mkBackend_id h).1, (mkBackend_id h).2, ?_⟩
  unfold mkBackend at h
  simp only at h
  split at h
  · cases h
  · cases h
    simp only
    rw [nameServers_targets]
    unfold weighted
    simp only
    apply weighted_targets_aux
    rw [rebalance_length, List.length_map]


def toCl (g : Int × List String) : C16.Cluster := { weight := g.1, length := g.2.length }

theorem rebalance_some (cls : List C16.Cluster) (i : Int) (c : C16.Cluster) (o : Option Int)
    (h : (c, o) ∈ cls.zip (C16.rebalance cls i)) (hl : c.length ≠ 0) : ∃ w, o = some w := by
  unfold C16.rebalance C16.rebalanceWith at h
  simp only at h
  split at h
  · exact ⟨_, (W16.mem_zip_map h).2⟩
  · split at h
    · exact ⟨_, (W16.mem_zip_map h).2⟩
    · have := (W16.mem_zip_map h).2
      unfold C16.newWeight at this
      rw [if_neg hl] at this
      simp only at this
      split at this <;> exact ⟨_, this⟩

/-- a server gets weight 0 exactly when its backendRef is configured with weight 0 (C16 `zero_iff`) -/
theorem weighted_zero_iff (groups : List (Int × List String)) (hw : ∀ g ∈ groups, 0 ≤ g.1)
    (e : String) (wt : Int) (h : (e, wt) ∈ weighted groups) :
    ∃ g ∈ groups, e ∈ g.2 ∧ (wt = 0 ↔ g.1 = 0) := by
  unfold weighted at h
  simp only [List.mem_flatMap, List.mem_map, Prod.mk.injEq] at h
  obtain ⟨⟨g, o⟩, hz, e', he', rfl, rfl⟩ := h
  have hg : g ∈ groups := (List.of_mem_zip hz).1
  refine ⟨g, hg, he', ?_⟩
  have hz' : (toCl g, o) ∈ (groups.map toCl).zip (C16.rebalance (groups.map toCl) 128) := by
    rw [List.zip_map_left]
    exact List.mem_map.2 ⟨(g, o), hz, rfl⟩
  have hl : (toCl g).length ≠ 0 := by
    simp only [toCl]
    cases hg2 : g.2 with
    | nil => rw [hg2] at he'; cases he'
    | cons x xs => simp; omega
  obtain ⟨w, rfl⟩ := rebalance_some _ _ _ _ hz' hl
  have hw' : ∀ c ∈ groups.map toCl, 0 ≤ c.weight := by
    intro c hc
    obtain ⟨g', hg', rfl⟩ := List.mem_map.1 hc
    exact hw g' hg'
  exact W16.zero_iff (groups.map toCl) 128 hw' (toCl g) w hz'


theorem mem_nameServers {ts : List (String × Int)} {s : Server} (h : s ∈ nameServers ts) :
    (s.target, s.weight) ∈ ts := by
  unfold nameServers at h
  obtain ⟨⟨tw, i⟩, hmem, rfl⟩ := List.mem_map.1 h
  have := (List.mem_zipIdx_iff_getElem?.1 hmem)
  exact List.mem_of_getElem? this

/-- **weighted servers**: every server of a rule's backend is a ready endpoint of one of the rule's
resolvable backendRefs and is drained (weight 0) exactly when that backendRef has weight 0 -/
theorem backend_weight_zero_iff {w : World} {r : Route} {i : Nat} {rule : Rule} {b : Backend}
    (h : mkBackend w r i rule = some b) (hw : ∀ g ∈ refGroups w r rule, 0 ≤ g.1) (s : Server) (hs : s ∈ b.servers) :
    ∃ g ∈ refGroups w r rule, s.target ∈ g.2 ∧ (s.weight = 0 ↔ g.1 = 0) := by
  unfold mkBackend at h
  simp only at h
  split at h
  · cases h
  · cases h
    exact weighted_zero_iff _ hw _ _ (mem_nameServers hs)

/-- facts regenerated from the Go source on every run: the gateway converter refuses a nil
allowedRoutes / namespaces / From, compares the section name in both route loops, rebalances with
base 128, and `syncTCPRouteGateway` tests the listener protocol with exactly the three comparisons of
the repaired code (one more read in the warning) -/
theorem facts_c10 : Facts.c10NilAllowedRoutesRefused = true ∧
    Facts.c10NilNamespacesRefused = true ∧ Facts.c10SectionNameCompared = 2 ∧
    Facts.c16GatewayBase = 128 ∧ Facts.c10TcpProtocolChecked = true ∧ Facts.c10ProtocolReads = 4 ∧
    Facts.c10TcpProtocolCmps = ["listener.Protocol != \"\"", "listener.Protocol != gatewayv1.TCPProtocolType",
      "listener.Protocol != gatewayv1.TLSProtocolType"] := by decide

/-! ## non-vacuity -/

def lOk : Listener :=
  { name := "l1", host := none, proto := "HTTP", port := 80,
    allowed := some { kinds := [⟨none, "HTTPRoute"⟩], nss := some { frm := some "Selector", sel := some [⟨"env", "In", ["dev", "prod"]⟩] } } }
def gwOk : Gateway := { ns := "g", name := "gw1", cls := "hap", listeners := [lOk] }
def prOk : ParentRef := { group := none, kind := none, ns := some "g", name := "gw1", sect := some "l1" }
def ruleOk : Rule :=
  { mts := [⟨some "PathPrefix", some "/app", "-"⟩],
    refs := [{ svc := "s1", port := some 8080, weight := some 3 }, { svc := "s2", port := some 8080, weight := some 1 }] }
def rOk : Route :=
  { tcp := false, ns := "o", name := "r1", ts := 1, parents := [prOk], hostnames := ["a.local"], rules := [ruleOk] }
def wOk : World :=
  { classes := [("hap", true), ("oth", false)], nss := [("g", [("env", "prod")]), ("o", [("env", "dev")])],
    gws := [gwOk, { gwOk with name := "gw2", cls := "oth" }], routes := [rOk],
    svcs := [{ ns := "o", name := "s1", ports := [(8080, ["10.0.1.1:8080"])] },
             { ns := "o", name := "s2", ports := [(8080, ["10.0.1.3:8080", "10.0.1.1:8080"])] }] }

theorem wOk_wf : WF wOk := by
  constructor <;> simp [wOk, gwOk]

/-- the hypotheses of `attach_iff`/`produced_rules` are satisfiable: a cross-namespace HTTPRoute
admitted by a label selector, section name and kind list -/
example : attaches false wOk rOk prOk gwOk lOk = true ∧ attaches true wOk rOk prOk gwOk lOk = true := by decide
example : Admitted wOk rOk prOk gwOk lOk := (attach_iff_http false wOk wOk_wf rOk prOk gwOk lOk rfl).1 (by decide)
/-- … and refused through the same listeners of the foreign-class gateway -/
example : attaches false wOk rOk { prOk with name := "gw2" } { gwOk with name := "gw2", cls := "oth" } lOk = false := by decide
/-- the model output of that world: one host, one path, the 3:1 weights over 1 and 2 replicas, and
two servers with the same address (two backendRefs resolving to 10.0.1.1:8080) under unique names -/
example : render (sync false wOk) =
    "a.local{/app~prefix~->o_r1__rule0}#o_r1__rule0~0{srv001=10.0.1.1:8080*256,srv002=10.0.1.1:8080*42,srv003=10.0.1.3:8080*42}#-" := by
  decide +kernel
example : Site wOk rOk prOk ruleOk 0
    { id := "o_r1__rule0", tcp := false,
      servers := [⟨"srv001", "10.0.1.1:8080", 256⟩, ⟨"srv002", "10.0.1.1:8080", 42⟩, ⟨"srv003", "10.0.1.3:8080", 42⟩] } :=
  ⟨by simp [wOk], by simp [rOk], by decide, by decide +kernel⟩
/-- `TcpListenersCompat` is satisfiable and not trivial: a TCPRoute through a TCP listener -/
example : attaches cur { wBad with gws := [{ gwBad with listeners := [{ lBad with proto := "TCP" }] }] } rBad prBad
    { gwBad with listeners := [{ lBad with proto := "TCP" }] } { lBad with proto := "TCP" } = true := by decide

/-- an empty protocol (never produced by the API server) puts no bound: attached and admitted -/
example : attaches cur { wBad with gws := [{ gwBad with listeners := [{ lBad with proto := "" }] }] } rBad prBad
    { gwBad with listeners := [{ lBad with proto := "" }] } { lBad with proto := "" } = true ∧
    ProtoCompat rBad { lBad with proto := "" } := ⟨by decide, fun _ => Or.inl rfl⟩
/-- the replay of the repaired finding now yields nothing -/
example : render (sync cur wBad) = "-#-#-" := by decide +kernel

end HapVerif.C10
