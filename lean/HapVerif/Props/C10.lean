import HapVerif.Model.C10
namespace HapVerif.C10
end HapVerif.C10
