import HapVerif.Model.C16Callers
import HapVerif.Props.C16
/-!
# C16 — the callers of `RebalanceWeight`

`gwRun` (gateway.go `createBackend`) and `bgRun` (backend.go `buildBackendBlueGreenBalance`) are tied
to the Go code by the differential run of the real converters (`C16 gw …`, `C16 bg …`).  Here: every
server weight they write IS a `live` entry of `rebalance` on the vector the caller builds, so the
theorems of `Props/C16.lean` transfer.
-/
namespace HapVerif.C16

/-! ## `rebalance`: which positions are specified -/

/-- a cluster with replicas always gets a weight; `none` (unspecified) only for a zero-length one -/
theorem rebalance_some_of_pos {cls : List Cluster} {initial : Int} {c : Cluster} {o : Option Int}
    (h : (c, o) ∈ cls.zip (rebalance cls initial)) (hl : c.length ≠ 0) : ∃ w, o = some w := by
  unfold rebalance at h
  rw [rebalanceWith_map] at h
  have ho := (mem_zip_map h).2
  subst ho
  unfold outFn
  split
  · exact ⟨_, rfl⟩
  · split
    · exact ⟨_, rfl⟩
    · rw [newWeight_eq, if_neg hl]; exact ⟨_, rfl⟩

theorem mem_live_of_zip {cls : List Cluster} {out : List (Option Int)} {c : Cluster} {w : Int}
    (h : (c, some w) ∈ cls.zip out) (hl : 0 < c.length) : (c, w) ∈ live cls out := by
  unfold live
  rw [List.mem_filterMap]
  exact ⟨(c, some w), h, by simp [hl]⟩

/-! ## gateway -/

/-- one result per kept backendRef, in order -/
theorem gw_kept_out_fst (refs : List GwRef) : (gwKeptOut refs).map (·.1) = gwClusters refs := by
  unfold gwKeptOut
  simp only [List.map_map]
  have hl : (gwClusters refs).length ≤ (rebalance (gwClusters refs) gwBase).length := by
    unfold rebalance; rw [rebalanceWith_length]
  have : ((fun p : Cluster × List Int => p.1) ∘ fun p : Cluster × Option Int => (p.1, gwServersOf p.1 p.2))
      = Prod.fst := rfl
  rw [this]
  exact List.map_fst_zip hl

/-- **gateway transfer**: every server of a kept backendRef carries the weight `rebalance` computed
for the cluster `(weight or 1, ready addresses)` of that ref with base 128 — a `live` entry. -/
theorem gw_server_live (refs : List GwRef) (p : Cluster × List Int) (hp : p ∈ gwKeptOut refs)
    (w : Int) (hw : w ∈ p.2) :
    (p.1, some w) ∈ (gwClusters refs).zip (rebalance (gwClusters refs) gwBase) ∧ 0 < p.1.length ∧
    (p.1, w) ∈ live (gwClusters refs) (rebalance (gwClusters refs) gwBase) := by
  unfold gwKeptOut at hp
  simp only [List.mem_map] at hp
  obtain ⟨⟨c, o⟩, hz, rfl⟩ := hp
  simp only at hw ⊢
  cases o with
  | none => simp [gwServersOf] at hw
  | some w' =>
    simp only [gwServersOf, List.mem_replicate] at hw
    obtain ⟨hn, rfl⟩ := hw
    have hl : 0 < c.length := by
      by_contra h
      exact hn (by omega)
    exact ⟨hz, hl, mem_live_of_zip hz hl⟩

/-- the servers of a kept ref are `replicas` copies of one weight; the unspecified result of a
zero-length cluster is never read -/
theorem gw_servers_shape (refs : List GwRef) (p : Cluster × List Int) (hp : p ∈ gwKeptOut refs) :
    p.1 ∈ gwClusters refs ∧ p.2.length = p.1.length.toNat ∧ ∃ w, p.2 = List.replicate p.1.length.toNat w := by
  unfold gwKeptOut at hp
  simp only [List.mem_map] at hp
  obtain ⟨⟨c, o⟩, hz, rfl⟩ := hp
  have hc : c ∈ gwClusters refs := (List.of_mem_zip hz).1
  simp only
  cases o with
  | some w => exact ⟨hc, by simp [gwServersOf], w, rfl⟩
  | none =>
    have h0 : c.length = 0 := by
      by_contra h
      obtain ⟨w, hw⟩ := rebalance_some_of_pos hz h
      cases hw
    exact ⟨hc, by simp [gwServersOf, h0], 0, by simp [gwServersOf, h0]⟩

theorem gwSpread_length (refs : List GwRef) (outs : List (List Int)) :
    (gwSpread refs outs).length = refs.length := by
  induction refs generalizing outs with
  | nil => simp [gwSpread]
  | cons r rs ih =>
    unfold gwSpread
    split
    · simp [ih]
    · cases outs <;> simp [ih]

/-- a skipped backendRef (nil port, Service or port not found, endpoints unreadable) has no server -/
theorem gwSpread_skipped (refs : List GwRef) (outs : List (List Int)) :
    ∀ p ∈ refs.zip (gwSpread refs outs), p.1.skipped = true → p.2 = [] := by
  induction refs generalizing outs with
  | nil => intro p hp; simp [gwSpread] at hp
  | cons r rs ih =>
    intro p hp hs
    unfold gwSpread at hp
    split at hp
    · simp only [List.zip_cons_cons, List.mem_cons] at hp
      rcases hp with rfl | hp
      · rfl
      · exact ih _ p hp hs
    · rename_i hr
      cases outs with
      | nil =>
        simp only [List.zip_cons_cons, List.mem_cons] at hp
        rcases hp with rfl | hp
        · rfl
        · exact ih _ p hp hs
      | cons o os =>
        simp only [List.zip_cons_cons, List.mem_cons] at hp
        rcases hp with rfl | hp
        · simp at hs; exact absurd hs hr
        · exact ih _ p hp hs

/-- the kept refs receive the results in order -/
theorem gwSpread_kept (refs : List GwRef) (outs : List (List Int))
    (h : outs.length = (gwKept refs).length) :
    ((refs.zip (gwSpread refs outs)).filter fun p => !p.1.skipped).map (·.2) = outs := by
  induction refs generalizing outs with
  | nil =>
    simp [gwKept] at h
    simp [gwSpread, h]
  | cons r rs ih =>
    unfold gwSpread
    by_cases hr : r.skipped = true
    · rw [if_pos hr]
      have hk : gwKept (r :: rs) = gwKept rs := by simp [gwKept, hr]
      rw [hk] at h
      simp only [List.zip_cons_cons]
      rw [List.filter_cons_of_neg (by simp [hr])]
      exact ih outs h
    · rw [if_neg hr]
      have hk : gwKept (r :: rs) = r :: gwKept rs := by simp [gwKept, hr]
      rw [hk] at h
      cases outs with
      | nil => simp at h
      | cons o os =>
        simp only [List.zip_cons_cons]
        rw [List.filter_cons_of_pos (by simp [hr])]
        simp only [List.map_cons]
        rw [ih os (by simpa using h)]

/-- **`createBackend` as a whole**: no backend iff every ref is skipped; otherwise one item per
backendRef, skipped refs without server, kept refs (in order) with the servers of `gwKeptOut` -/
theorem gw_run_spec (refs : List GwRef) :
    (gwRun refs = none ↔ gwKept refs = []) ∧
    ∀ per, gwRun refs = some per →
      per.length = refs.length ∧
      (∀ p ∈ refs.zip per, p.1.skipped = true → p.2 = []) ∧
      ((refs.zip per).filter fun p => !p.1.skipped).map (·.2) = (gwKeptOut refs).map (·.2) := by
  constructor
  · unfold gwRun
    cases h : gwKept refs <;> simp
  · intro per hper
    unfold gwRun at hper
    split at hper
    · cases hper
    · cases hper
      refine ⟨gwSpread_length _ _, gwSpread_skipped _ _, gwSpread_kept _ _ ?_⟩
      have := congrArg List.length (gw_kept_out_fst refs)
      simp only [List.length_map] at this ⊢
      rw [this, gwClusters, List.length_map]

/-- well-formed backendRefs: the weight (nil = 1) of every kept ref is a legal HAProxy weight.
(The Gateway API admits up to 1000000; beyond 256 only the correspondence run and the oracle cover.) -/
def GwWF (refs : List GwRef) : Prop := ∀ r ∈ refs, r.skipped = false → 0 ≤ r.weight.getD 1 ∧ r.weight.getD 1 ≤ 256

/-- facts regenerated from the Go source on every run: the base handed to `RebalanceWeight`, the
default of a nil backendRef weight AND that it is re-declared for every backendRef (inside the
loop body), the draining test and the literal of mode `pod` in the blue/green function -/
theorem facts_c16_callers : gwBase = Facts.c16GatewayBase ∧
    (gwCluster ⟨none, 0, false⟩).weight = Facts.c16GatewayDefaultWeight ∧
    Facts.c16GatewayDefaultInLoop = true ∧ Facts.c16BlueGreenDrainSkip = true ∧
    Facts.c16BlueGreenPodMode = "pod" := by decide

theorem gw_wf {refs : List GwRef} (h : GwWF refs) : WFIn (gwClusters refs) gwBase := by
  have key : ∀ c ∈ gwClusters refs, 0 ≤ c.weight ∧ c.weight ≤ 256 ∧ 0 ≤ c.length := by
    intro c hc
    simp only [gwClusters, gwKept, List.mem_map, List.mem_filter] at hc
    obtain ⟨r, ⟨hr, hs⟩, rfl⟩ := hc
    have := h r hr (by simpa using hs)
    exact ⟨this.1, this.2, by simp [gwCluster]⟩
  exact ⟨fun c hc => (key c hc).1, fun c hc => (key c hc).2.1, fun c hc => (key c hc).2.2,
    by decide, by decide⟩

/-- transferred **range**: every server weight written by `createBackend` is in `0..256` -/
theorem gw_range {refs : List GwRef} (h : GwWF refs) (p : Cluster × List Int) (hp : p ∈ gwKeptOut refs)
    (w : Int) (hw : w ∈ p.2) : 0 ≤ w ∧ w ≤ 256 :=
  let hl := (gw_server_live refs p hp w hw).2.2
  ⟨f32_range_lower (gw_wf h) _ hl, f32_range_upper (gw_wf h) _ hl⟩

/-- transferred **zero-iff**: a server gets weight 0 exactly when its backendRef's weight is 0
(a nil weight is 1, hence never 0); needs only non-negative weights -/
theorem gw_zero_iff {refs : List GwRef} (h : ∀ r ∈ refs, r.skipped = false → 0 ≤ r.weight.getD 1)
    (p : Cluster × List Int) (hp : p ∈ gwKeptOut refs) (w : Int) (hw : w ∈ p.2) :
    w = 0 ↔ p.1.weight = 0 := by
  refine zero_iff (gwClusters refs) gwBase ?_ p.1 w (gw_server_live refs p hp w hw).1
  intro c hc
  simp only [gwClusters, gwKept, List.mem_map, List.mem_filter] at hc
  obtain ⟨r, ⟨hr, hs⟩, rfl⟩ := hc
  exact h r hr (by simpa using hs)

/-- transferred **order** (under `256·lcm(replicas) < 2^24`) -/
theorem gw_order {refs : List GwRef} (h : GwWF refs) (hs : SmallLcm (gwClusters refs))
    (p q : Cluster × List Int) (hp : p ∈ gwKeptOut refs) (hq : q ∈ gwKeptOut refs)
    (w v : Int) (hw : w ∈ p.2) (hv : v ∈ q.2) : ratio p.1 < ratio q.1 → w ≤ v :=
  f32_order (gw_wf h) hs _ (gw_server_live refs p hp w hw).2.2 _ (gw_server_live refs q hq v hv).2.2

/-- transferred **share**: the per-server weights of two backendRefs follow the configured
weight-per-replica ratios up to one unit of integer rounding (+ 1/1024 float error) -/
theorem gw_share {refs : List GwRef} (h : GwWF refs)
    (p q : Cluster × List Int) (hp : p ∈ gwKeptOut refs) (hq : q ∈ gwKeptOut refs)
    (w v : Int) (hw : w ∈ p.2) (hv : v ∈ q.2) : 0 < ratio p.1 → ratio p.1 ≤ ratio q.1 →
      |(w : Rat) * ratio q.1 - (v : Rat) * ratio p.1| ≤ ratio q.1 * (1 + 1 / 1024) :=
  f32_share_partial (gw_wf h) _ (gw_server_live refs p hp w hw).2.2 _ (gw_server_live refs q hq v hv).2.2

/-- non-vacuity, and the input of the seeded caller defect (`weight := 1` hoisted out of the loop):
a ref WITHOUT weight after one with weight 3 counts 1, whatever the order -/
example : gwRun [⟨some 3, 1, false⟩, ⟨none, 1, false⟩] = some [[256], [85]] ∧
    gwRun [⟨none, 1, false⟩, ⟨some 3, 1, false⟩] = some [[85], [256]] ∧
    gwRun [⟨some 7, 2, true⟩, ⟨none, 1, false⟩, ⟨some 2, 1, false⟩] = some [[], [128], [256]] ∧
    gwRun [⟨some 7, 2, true⟩] = none ∧
    gwOracle [⟨some 3, 1, false⟩, ⟨none, 1, false⟩] (some [[256], [85]]) = none ∧
    gwOracle [⟨some 3, 1, false⟩, ⟨none, 1, false⟩] (some [[128], [128]]) = some "gw-share" := by
  decide +kernel
example : GwWF [⟨some 3, 1, false⟩, ⟨none, 1, false⟩, ⟨some 1000, 1, true⟩] := by
  intro r hr hs
  simp at hr
  rcases hr with rfl | rfl | rfl <;> simp_all

/-! ## blue/green: parser and clamp -/

theorem parseEntry_range {s : String} {e : BgEntry} (h : parseEntry s = some e) :
    0 ≤ e.weight ∧ e.weight ≤ 256 := by
  unfold parseEntry at h
  split at h
  · simp only [Option.map_eq_some_iff] at h
    obtain ⟨w, _, rfl⟩ := h
    exact clamp_range w
  · cases h

theorem parseEntries_range : ∀ (ss : List String) (es : List BgEntry), parseEntries ss = some es →
    ∀ e ∈ es, 0 ≤ e.weight ∧ e.weight ≤ 256
  | [], es, h => by simp [parseEntries] at h; subst h; simp
  | s :: ss, es, h => by
    unfold parseEntries at h
    split at h
    · rename_i e es' he hes
      cases h
      intro x hx
      simp only [List.mem_cons] at hx
      rcases hx with rfl | hx
      · exact parseEntry_range he
      · exact parseEntries_range ss es' hes x hx
    · cases h

/-- **clamp**: whatever the annotation says, once it parses every configured group weight is in
`0..256` -/
theorem bg_entries_range {ann : Option String} {es : List BgEntry} (h : bgEntries ann = some es) :
    ∀ e ∈ es, 0 ≤ e.weight ∧ e.weight ≤ 256 := by
  unfold bgEntries at h
  split at h
  · cases h
  · split at h
    · cases h
    · exact parseEntries_range _ _ h

/-- a malformed item anywhere aborts: no entry list -/
theorem parseEntries_malformed (ss : List String) (s : String) (hs : s ∈ ss) (hb : parseEntry s = none) :
    parseEntries ss = none := by
  induction ss with
  | nil => cases hs
  | cons x xs ih =>
    unfold parseEntries
    simp only [List.mem_cons] at hs
    rcases hs with rfl | hs
    · rw [hb]
    · rw [ih hs]; split <;> simp_all

/-- no annotation / empty / malformed: every weight is left untouched -/
theorem bg_untouched (i : BgIn) (h : bgEntries i.ann = none) : bgRun i = i.eps.map (bgCur i.initial) := by
  unfold bgRun; rw [h]

/-! ## blue/green: servers of no group -/

theorem bgMember_of_draining {initial : Int} {ep : BgEp} (h : bgCur initial ep = 0) (e : BgEntry) :
    bgMember initial e ep = false := by simp [bgMember, h]

theorem bgMember_of_nopod {initial : Int} {ep : BgEp} (h : ep.labels = none) (e : BgEntry) :
    bgMember initial e ep = false := by simp [bgMember, bgLabelMatch, h]

theorem bgPodWeight_no_group {initial : Int} {entries : List BgEntry} {ep : BgEp}
    (h : ∀ e ∈ entries, bgMember initial e ep = false) : bgPodWeight initial entries ep = 0 := by
  unfold bgPodWeight
  have : entries.filter (fun e => bgMember initial e ep) = [] := by
    rw [List.filter_eq_nil_iff]; intro e he; simp [h e he]
  rw [this]; rfl

theorem bgDeployWeight_no_group {initial : Int} {entries : List BgEntry} {out : List (Option Int)} {ep : BgEp}
    (h : ∀ e ∈ entries, bgMember initial e ep = false) : bgDeployWeight initial entries out ep = 0 := by
  unfold bgDeployWeight
  have : (entries.zip out).filter (fun p => bgMember initial p.1 ep) = [] := by
    rw [List.filter_eq_nil_iff]; intro p hp; simp [h p.1 (List.of_mem_zip hp).1]
  rw [this]; rfl

theorem bgCore_eq_map (mode : String) (initial : Int) (entries : List BgEntry) (eps : List BgEp) :
    ∃ f, bgCore mode initial entries eps = eps.map f ∧
      (mode = "pod" → f = bgPodWeight initial entries) ∧
      (mode ≠ "pod" → f = bgDeployWeight initial entries (rebalance (bgClusters initial entries eps) initial)) := by
  unfold bgCore
  split
  · rename_i h; exact ⟨_, rfl, fun _ => rfl, fun h' => absurd h h'⟩
  · rename_i h; exact ⟨_, rfl, fun h' => absurd h' h, fun _ => rfl⟩

/-- a server that belongs to no group — draining, without pod, or no entry matches its labels —
is written 0, in both modes -/
theorem bg_no_group_zero (mode : String) (initial : Int) (entries : List BgEntry) (eps : List BgEp)
    (p : BgEp × Int) (hp : p ∈ eps.zip (bgCore mode initial entries eps))
    (h : ∀ e ∈ entries, bgMember initial e p.1 = false) : p.2 = 0 := by
  obtain ⟨f, hf, hpod, hdep⟩ := bgCore_eq_map mode initial entries eps
  rw [hf] at hp
  have h2 := (mem_zip_map hp).2
  by_cases hm : mode = "pod"
  · rw [h2, hpod hm]; exact bgPodWeight_no_group h
  · rw [h2, hdep hm]; exact bgDeployWeight_no_group h

/-- **draining servers stay at 0**, whatever the annotation (parsed, malformed, absent) and mode -/
theorem bg_draining_zero (i : BgIn) (p : BgEp × Int) (hp : p ∈ i.eps.zip (bgRun i))
    (h : bgCur i.initial p.1 = 0) : p.2 = 0 := by
  unfold bgRun at hp
  split at hp
  · rw [(mem_zip_map hp).2]; exact h
  · exact bg_no_group_zero _ _ _ _ p hp fun e _ => bgMember_of_draining h e

/-- **servers without pod / matching no entry get 0** once the annotation parses -/
theorem bg_unmatched_zero (i : BgIn) (entries : List BgEntry) (he : bgEntries i.ann = some entries)
    (p : BgEp × Int) (hp : p ∈ i.eps.zip (bgRun i))
    (h : ∀ e ∈ entries, bgLabelMatch e p.1 = false) : p.2 = 0 := by
  unfold bgRun at hp
  rw [he] at hp
  exact bg_no_group_zero _ _ _ _ p hp fun e hin => by simp [bgMember, h e hin]

/-! ## blue/green, mode `pod` -/

/-- mode `pod`: a server gets the configured (clamped) weight of the LAST entry it matches -/
theorem bg_pod_weight (initial : Int) (entries : List BgEntry) (eps : List BgEp)
    (p : BgEp × Int) (hp : p ∈ eps.zip (bgCore "pod" initial entries eps)) (e : BgEntry)
    (hl : (bgMatching initial entries p.1).getLast? = some e) : p.2 = e.weight := by
  obtain ⟨f, hf, hpod, _⟩ := bgCore_eq_map "pod" initial entries eps
  rw [hf] at hp
  rw [(mem_zip_map hp).2, hpod rfl]
  unfold bgPodWeight
  unfold bgMatching at hl
  rw [hl]

/-! ## blue/green, mode deploy: transfer to `rebalance` -/

theorem bgClusters_length (initial : Int) (entries : List BgEntry) (eps : List BgEp) :
    entries.length = (rebalance (bgClusters initial entries eps) initial).length := by
  unfold rebalance; rw [rebalanceWith_length]; simp [bgClusters]

theorem zip_filter_fst {α β} (l : List α) (r : List β) (hl : l.length ≤ r.length) (P : α → Bool) :
    ((l.zip r).filter fun p => P p.1).map (·.1) = l.filter P := by
  have h1 : (l.zip r).map (·.1) = l := List.map_fst_zip hl
  conv => rhs; rw [← h1]
  rw [List.filter_map]
  rfl

/-- **blue/green transfer** (any number of matching entries): a non-draining server that matches
some entry carries the weight `rebalance` computed for the group of the LAST entry it matches, on
the vector (clamped weight, members of the group) with `initial-weight` — a `live` entry.  Group
lengths count a server once per entry it matches. -/
theorem bg_deploy_weight (initial : Int) (entries : List BgEntry) (eps : List BgEp) (ep : BgEp)
    (hep : ep ∈ eps) (hm : bgMatching initial entries ep ≠ []) :
    ∃ e w, (bgMatching initial entries ep).getLast? = some e ∧ e ∈ entries ∧ bgMember initial e ep = true ∧
      bgDeployWeight initial entries (rebalance (bgClusters initial entries eps) initial) ep = w ∧
      (bgCluster initial eps e, w) ∈
        live (bgClusters initial entries eps) (rebalance (bgClusters initial entries eps) initial) := by
  have hlen := bgClusters_length initial entries eps
  generalize hout : rebalance (bgClusters initial entries eps) initial = out at hlen ⊢
  have hmap := zip_filter_fst entries out (by omega) (fun e => bgMember initial e ep)
  have hL : ((entries.zip out).filter fun p => bgMember initial p.1 ep) ≠ [] := by
    intro h0
    rw [h0] at hmap
    exact hm (by unfold bgMatching; rw [← hmap]; rfl)
  obtain ⟨⟨e, o⟩, hlast⟩ : ∃ x, ((entries.zip out).filter fun p => bgMember initial p.1 ep).getLast? = some x := by
    cases h : ((entries.zip out).filter fun p => bgMember initial p.1 ep).getLast? with
    | none => exact absurd (List.getLast?_eq_none_iff.1 h) hL
    | some x => exact ⟨x, rfl⟩
  have hmem := List.mem_of_getLast? hlast
  rw [List.mem_filter] at hmem
  obtain ⟨hz, hme⟩ := hmem
  simp only at hme
  have hin : e ∈ entries := (List.of_mem_zip hz).1
  -- the cluster of `e` has at least this member
  have hpos : 0 < (bgCluster initial eps e).length := by
    have : ep ∈ eps.filter (bgMember initial e) := List.mem_filter.2 ⟨hep, hme⟩
    have := List.length_pos_of_mem this
    simp only [bgCluster, bgCount]; omega
  have hz' : (bgCluster initial eps e, o) ∈ (bgClusters initial entries eps).zip out := by
    unfold bgClusters
    rw [List.zip_map_left]
    exact List.mem_map.2 ⟨(e, o), hz, rfl⟩
  obtain ⟨w, rfl⟩ := rebalance_some_of_pos (hout ▸ hz') (by omega)
  refine ⟨e, w, ?_, hin, hme, ?_, mem_live_of_zip hz' hpos⟩
  · unfold bgMatching
    rw [← hmap, List.getLast?_map, hlast]; rfl
  · unfold bgDeployWeight; rw [hlast]

/-- the configured weights are legal after the clamp and `initial-weight` is in the property's
range 1..256 -/
structure BgWF (initial : Int) (entries : List BgEntry) : Prop where
  w : ∀ e ∈ entries, 0 ≤ e.weight ∧ e.weight ≤ 256
  ilo : 1 ≤ initial
  ihi : initial ≤ 256

/-- the parser always delivers the weight half of `BgWF` -/
theorem bg_wf_of_parse {ann : Option String} {es : List BgEntry} {initial : Int}
    (h : bgEntries ann = some es) (h1 : 1 ≤ initial) (h2 : initial ≤ 256) : BgWF initial es :=
  ⟨bg_entries_range h, h1, h2⟩

theorem bg_wf {initial : Int} {entries : List BgEntry} (h : BgWF initial entries) (eps : List BgEp) :
    WFIn (bgClusters initial entries eps) initial := by
  have key : ∀ c ∈ bgClusters initial entries eps, 0 ≤ c.weight ∧ c.weight ≤ 256 ∧ 0 ≤ c.length := by
    intro c hc
    simp only [bgClusters, List.mem_map] at hc
    obtain ⟨e, he, rfl⟩ := hc
    exact ⟨(h.w e he).1, (h.w e he).2, by simp [bgCluster]⟩
  exact ⟨fun c hc => (key c hc).1, fun c hc => (key c hc).2.1, fun c hc => (key c hc).2.2, h.ilo, h.ihi⟩

/-- **range, every server, both modes** (servers of several groups included) -/
theorem bg_range {mode : String} {initial : Int} {entries : List BgEntry} (h : BgWF initial entries)
    (eps : List BgEp) (p : BgEp × Int) (hp : p ∈ eps.zip (bgCore mode initial entries eps)) :
    0 ≤ p.2 ∧ p.2 ≤ 256 := by
  by_cases hm : bgMatching initial entries p.1 = []
  · have : p.2 = 0 := bg_no_group_zero mode initial entries eps p hp (by
      intro e he
      have := List.filter_eq_nil_iff.1 hm e he
      simpa using this)
    omega
  · obtain ⟨f, hf, hpod, hdep⟩ := bgCore_eq_map mode initial entries eps
    have hp' := hp
    rw [hf] at hp'
    have hep := (mem_zip_map hp').1
    have h2 := (mem_zip_map hp').2
    by_cases hmode : mode = "pod"
    · subst hmode
      obtain ⟨e, he⟩ : ∃ e, (bgMatching initial entries p.1).getLast? = some e := by
        cases hh : (bgMatching initial entries p.1).getLast? with
        | none => exact absurd (List.getLast?_eq_none_iff.1 hh) hm
        | some e => exact ⟨e, rfl⟩
      rw [bg_pod_weight initial entries eps p hp e he]
      exact h.w e (List.mem_filter.1 (List.mem_of_getLast? he)).1
    · obtain ⟨e, w, _, _, _, hw, hl⟩ := bg_deploy_weight initial entries eps p.1 hep hm
      rw [h2, hdep hmode, hw]
      exact ⟨f32_range_lower (bg_wf h eps) _ hl, f32_range_upper (bg_wf h eps) _ hl⟩

/-- the deploy-mode weight of a server with at least one group, with the facts the transferred
theorems need -/
theorem bg_deploy_live {mode : String} (hmode : mode ≠ "pod") (initial : Int) (entries : List BgEntry)
    (eps : List BgEp) (p : BgEp × Int) (hp : p ∈ eps.zip (bgCore mode initial entries eps))
    (hm : bgMatching initial entries p.1 ≠ []) :
    ∃ e, (bgMatching initial entries p.1).getLast? = some e ∧ e ∈ entries ∧ bgMember initial e p.1 = true ∧
      (bgCluster initial eps e, p.2) ∈
        live (bgClusters initial entries eps) (rebalance (bgClusters initial entries eps) initial) := by
  obtain ⟨f, hf, _, hdep⟩ := bgCore_eq_map mode initial entries eps
  rw [hf] at hp
  obtain ⟨e, w, h1, h2, h3, hw, hl⟩ := bg_deploy_weight initial entries eps p.1 (mem_zip_map hp).1 hm
  refine ⟨e, h1, h2, h3, ?_⟩
  rw [(mem_zip_map hp).2, hdep hmode, hw]; exact hl

/-- **zero-iff, any number of groups**: a server with a group is written 0 exactly when the LAST
entry it matches has configured weight 0 -/
theorem bg_deploy_zero_iff_last {mode : String} (hmode : mode ≠ "pod") {initial : Int} {entries : List BgEntry}
    (h : BgWF initial entries) (eps : List BgEp) (p : BgEp × Int)
    (hp : p ∈ eps.zip (bgCore mode initial entries eps)) (e : BgEntry)
    (hl : (bgMatching initial entries p.1).getLast? = some e) : p.2 = 0 ↔ e.weight = 0 := by
  have hm : bgMatching initial entries p.1 ≠ [] := by
    intro h0; rw [h0] at hl; cases hl
  obtain ⟨e', h1, _, _, hlive⟩ := bg_deploy_live hmode initial entries eps p hp hm
  rw [hl] at h1; cases h1
  exact f32_zero_iff (bg_wf h eps) _ hlive

/-- the server matches one entry only (several equal items count as one) -/
def BgSingle (initial : Int) (entries : List BgEntry) (ep : BgEp) (e : BgEntry) : Prop :=
  e ∈ entries ∧ bgMember initial e ep = true ∧ ∀ e' ∈ entries, bgMember initial e' ep = true → e' = e

theorem bg_single_last {initial : Int} {entries : List BgEntry} {ep : BgEp} {e : BgEntry}
    (hs : BgSingle initial entries ep e) : (bgMatching initial entries ep).getLast? = some e := by
  have hne : bgMatching initial entries ep ≠ [] := by
    intro h0
    have := List.filter_eq_nil_iff.1 h0 e hs.1
    simp [hs.2.1] at this
  cases hh : (bgMatching initial entries ep).getLast? with
  | none => exact absurd (List.getLast?_eq_none_iff.1 hh) hne
  | some e' =>
    have := List.mem_filter.1 (List.mem_of_getLast? hh)
    rw [hs.2.2 e' this.1 this.2]

/-- **the property's zero clause for blue/green, mode deploy, servers of at most one group**: the
weight written is 0 exactly when the server is draining, or matches no entry, or its group's
configured weight is 0 -/
theorem bg_zero_iff_single {mode : String} (hmode : mode ≠ "pod") {initial : Int} {entries : List BgEntry}
    (h : BgWF initial entries) (eps : List BgEp) (p : BgEp × Int)
    (hp : p ∈ eps.zip (bgCore mode initial entries eps))
    (hone : ∀ e₁ ∈ entries, ∀ e₂ ∈ entries, bgMember initial e₁ p.1 = true → bgMember initial e₂ p.1 = true → e₁ = e₂) :
    p.2 = 0 ↔ (bgCur initial p.1 = 0 ∨ (∀ e ∈ entries, bgLabelMatch e p.1 = false) ∨
      ∃ e ∈ entries, bgLabelMatch e p.1 = true ∧ e.weight = 0) := by
  by_cases hd : bgCur initial p.1 = 0
  · simp only [hd, true_or, iff_true]
    exact bg_no_group_zero mode initial entries eps p hp fun e _ => bgMember_of_draining hd e
  by_cases hn : ∀ e ∈ entries, bgLabelMatch e p.1 = false
  · refine ⟨fun _ => Or.inr (Or.inl hn), fun _ => ?_⟩
    exact bg_no_group_zero mode initial entries eps p hp fun e he => by simp [bgMember, hn e he]
  · have hn' := hn
    simp only [not_forall] at hn
    obtain ⟨e, he, hne⟩ := hn
    have hlm : bgLabelMatch e p.1 = true := by simpa using hne
    have hme : bgMember initial e p.1 = true := by simp [bgMember, hd, hlm]
    have hs : BgSingle initial entries p.1 e := ⟨he, hme, fun e' he' hm' => hone e' he' e he hm' hme⟩
    rw [bg_deploy_zero_iff_last hmode h eps p hp e (bg_single_last hs)]
    constructor
    · intro hz; exact Or.inr (Or.inr ⟨e, he, hlm, hz⟩)
    · rintro (h1 | h1 | ⟨e', he', hlm', hz'⟩)
      · exact absurd h1 hd
      · exact absurd h1 hn'
      · have : bgMember initial e' p.1 = true := by simp [bgMember, hd, hlm']
        rw [← hone e' he' e he this hme]; exact hz'

/-- transferred **share** between the servers of two groups (each server taken with the group of
the last entry it matches; for servers of one group: its group): per-server weights follow the
configured weight-per-member ratios up to one unit of integer rounding (+ 1/1024) -/
theorem bg_deploy_share {mode : String} (hmode : mode ≠ "pod") {initial : Int} {entries : List BgEntry}
    (h : BgWF initial entries) (eps : List BgEp) (p q : BgEp × Int)
    (hp : p ∈ eps.zip (bgCore mode initial entries eps)) (hq : q ∈ eps.zip (bgCore mode initial entries eps))
    (e₁ e₂ : BgEntry) (h1 : (bgMatching initial entries p.1).getLast? = some e₁)
    (h2 : (bgMatching initial entries q.1).getLast? = some e₂) :
    0 < ratio (bgCluster initial eps e₁) → ratio (bgCluster initial eps e₁) ≤ ratio (bgCluster initial eps e₂) →
      |(p.2 : Rat) * ratio (bgCluster initial eps e₂) - (q.2 : Rat) * ratio (bgCluster initial eps e₁)|
        ≤ ratio (bgCluster initial eps e₂) * (1 + 1 / 1024) := by
  have hm1 : bgMatching initial entries p.1 ≠ [] := by intro h0; rw [h0] at h1; cases h1
  have hm2 : bgMatching initial entries q.1 ≠ [] := by intro h0; rw [h0] at h2; cases h2
  obtain ⟨a, ha, _, _, la⟩ := bg_deploy_live hmode initial entries eps p hp hm1
  obtain ⟨b, hb, _, _, lb⟩ := bg_deploy_live hmode initial entries eps q hq hm2
  rw [h1] at ha; cases ha
  rw [h2] at hb; cases hb
  exact f32_share_partial (bg_wf h eps) _ la _ lb

/-- transferred **order** (under `256·lcm(members) < 2^24`) -/
theorem bg_deploy_order {mode : String} (hmode : mode ≠ "pod") {initial : Int} {entries : List BgEntry}
    (h : BgWF initial entries) (eps : List BgEp) (hs : SmallLcm (bgClusters initial entries eps))
    (p q : BgEp × Int)
    (hp : p ∈ eps.zip (bgCore mode initial entries eps)) (hq : q ∈ eps.zip (bgCore mode initial entries eps))
    (e₁ e₂ : BgEntry) (h1 : (bgMatching initial entries p.1).getLast? = some e₁)
    (h2 : (bgMatching initial entries q.1).getLast? = some e₂) :
    ratio (bgCluster initial eps e₁) < ratio (bgCluster initial eps e₂) → p.2 ≤ q.2 := by
  have hm1 : bgMatching initial entries p.1 ≠ [] := by intro h0; rw [h0] at h1; cases h1
  have hm2 : bgMatching initial entries q.1 ≠ [] := by intro h0; rw [h0] at h2; cases h2
  obtain ⟨a, ha, _, _, la⟩ := bg_deploy_live hmode initial entries eps p hp hm1
  obtain ⟨b, hb, _, _, lb⟩ := bg_deploy_live hmode initial entries eps q hq hm2
  rw [h1] at ha; cases ha
  rw [h2] at hb; cases hb
  exact f32_order (bg_wf h eps) hs _ la _ lb

/-! ## blue/green: non-vacuity, and what the code does OUTSIDE the property's domain

Decision (lead): a pod matching more than one entry (duplicated entries included) and the groups
that contain it are outside the property's domain — "its group" presumes one group per server, the
quantifier ranges over disjoint groups.  The statement one would write for them, for every server
`p` and EVERY entry `e` it matches (mode deploy):  `p.2 = 0 ↔ e.weight = 0`, and all members of
the group of `e` carry the weight `rebalance` gave the group, holds for servers of one group
(`bg_zero_iff_single`, `bg_deploy_share`) and is false on the code for a server of two groups: the
weight of the LAST entry wins (`bg_deploy_zero_iff_last`, `bg_pod_weight`) and the server is counted
in both groups (`bg_deploy_weight`).  The three `bg_outside_domain_*` theorems document this
behaviour on concrete inputs; the oracle does NOT judge it (only `bg-range`, which `bg_range`
proves for every server, and the clauses of the servers/groups not touched by the overlap). -/

def blue : BgEntry := ⟨"g", "blue", 50⟩
def green : BgEntry := ⟨"g", "green", 50⟩
def canary0 : BgEntry := ⟨"c", "1", 0⟩
def canary10 : BgEntry := ⟨"c", "1", 10⟩
def podB : BgEp := ⟨false, some [("g", "blue")]⟩
def podG : BgEp := ⟨false, some [("g", "green")]⟩
def podBC : BgEp := ⟨false, some [("g", "blue"), ("c", "1")]⟩

/-- non-vacuity: the documented example (1:4, one blue and three green pods), both modes,
draining / pod-less / unmatched servers, and the Spec accepts the outputs -/
example :
    bgCore "" 100 [⟨"g", "blue", 1⟩, ⟨"g", "green", 4⟩] [podB, podG, podG, podG] = [100, 133, 133, 133] ∧
    bgCore "pod" 100 [⟨"g", "blue", 1⟩, ⟨"g", "green", 4⟩] [podB, podG, podG, podG] = [1, 4, 4, 4] ∧
    bgCore "" 50 [⟨"g", "blue", 10⟩, ⟨"g", "green", 30⟩]
      [podB, ⟨true, some [("g", "blue")]⟩, ⟨false, none⟩, ⟨false, some []⟩, ⟨false, some [("g", "red")]⟩, podG]
      = [50, 0, 0, 0, 0, 150] ∧
    bgOracleCore "" 100 [⟨"g", "blue", 1⟩, ⟨"g", "green", 4⟩] [podB, podG, podG, podG] [100, 133, 133, 133] = none ∧
    bgOracleCore "" 100 [⟨"g", "blue", 1⟩, ⟨"g", "green", 4⟩] [podB, podG, podG, podG] [100, 100, 100, 100]
      = some "bg-share" ∧
    BgSingle 100 [⟨"g", "blue", 1⟩, ⟨"g", "green", 4⟩] podB ⟨"g", "blue", 1⟩ := by
  refine ⟨by decide +kernel, by decide +kernel, by decide +kernel, by decide +kernel, by decide +kernel,
    by decide +kernel, by decide +kernel, ?_⟩
  intro e he hm
  simp only [List.mem_cons, List.mem_nil_iff, or_false] at he
  rcases he with rfl | rfl
  · rfl
  · revert hm; decide +kernel

/-- **outside the domain, documented, not judged — zero clause**: entries `g=blue=50,c=1=0`; the
pod labelled `g=blue,c=1` belongs to the group `g=blue` (configured 50) and is written 0; with the
entries swapped it is written 1 although it also belongs to the group `c=1` configured 0. -/
theorem bg_outside_domain_zero :
    bgCore "" 1 [blue, canary0] [podBC, podB] = [0, 1] ∧
    bgMember 1 blue podBC = true ∧ blue.weight ≠ 0 ∧
    bgCore "" 1 [canary0, blue] [podBC, podB] = [1, 1] ∧
    bgMember 1 canary0 podBC = true ∧ canary0.weight = 0 ∧
    bgHasOverlap 1 [blue, canary0] [podBC, podB] = true ∧
    bgOracleCore "" 1 [blue, canary0] [podBC, podB] [0, 1] = none ∧
    bgOracleCore "" 1 [canary0, blue] [podBC, podB] [1, 1] = none := by
  decide +kernel

/-- **outside the domain, documented, not judged — share clause**: entries
`g=blue=50,c=1=10,g=green=50`, pods `{g=blue,c=1}`, `{g=blue}`, `{g=green}`.  The vector handed to
`rebalance` is (50,2),(10,1),(50,1): the overlapping pod is counted in `g=blue` AND `c=1`; it is
written the weight of `c=1` (1), the other blue pod 2, the green pod 5.  The groups `g=blue` and
`g=green` are configured 50:50 and get 1+2 = 3 against 5.  The servers not touched by the overlap
(the second blue pod, the green pod) keep their zero clause, every server keeps the range clause. -/
theorem bg_outside_domain_share :
    bgClusters 1 [blue, canary10, green] [podBC, podB, podG] = [⟨50, 2⟩, ⟨10, 1⟩, ⟨50, 1⟩] ∧
    bgCore "" 1 [blue, canary10, green] [podBC, podB, podG] = [1, 2, 5] ∧
    bgHasOverlap 1 [blue, canary10, green] [podBC, podB, podG] = true ∧
    bgOracleCore "" 1 [blue, canary10, green] [podBC, podB, podG] [1, 2, 5] = none ∧
    -- servers not touched by the overlap are still judged
    bgOracleCore "" 1 [blue, canary10, green] [podBC, podB, podG] [1, 2, 0] = some "bg-zero-iff" ∧
    bgOracleCore "" 1 [blue, canary10, green] [podBC, podB, podG] [1, 2, 300] = some "bg-range" ∧
    -- without the overlap the same configuration is judged in full and accepted
    bgCore "" 1 [blue, canary10, green] [podB, podB, podG] = [1, 1, 2] ∧
    bgHasOverlap 1 [blue, canary10, green] [podB, podB, podG] = false ∧
    bgOracleCore "" 1 [blue, canary10, green] [podB, podB, podG] [1, 1, 2] = none ∧
    bgOracleCore "" 1 [blue, canary10, green] [podB, podB, podG] [1, 2, 2] = some "bg-group-not-uniform" := by
  decide +kernel

/-- **outside the domain, documented, not judged — mode `pod`**: the pod of two groups gets the
weight of the last entry (10), not the 50 of its other group -/
theorem bg_outside_domain_pod :
    bgCore "pod" 1 [blue, canary10] [podBC, podB] = [10, 50] ∧
    bgOracleCore "pod" 1 [blue, canary10] [podBC, podB] [10, 50] = none ∧
    bgOracleCore "pod" 1 [blue, canary10] [podBC, podB] [10, 49] = some "bg-pod-weight" := by
  decide +kernel

end HapVerif.C16
