import HapVerif.Model.C16Callers
import HapVerif.Props.C16
/-!
# C16 — the callers of `RebalanceWeight`

`gwRun` (gateway.go `createBackend`) and `bgRun` (backend.go `buildBackendBlueGreenBalance`) are tied
to the Go code by the differential run of the real converters (`C16 gw …`, `C16 bg …`).  Here: every
server weight they write IS a `live` entry of `rebalance` on the vector the caller builds, so the
theorems of `Props/C16.lean` transfer.

The gateway caller takes `Length = len(epready)` in one loop and writes the servers in another; the
writing step is a parameter of the model (`GwWrite`).  For the code (`gwWriteAll`) the number of
servers written for a backendRef IS the `Length` (`gw_servers_match_length`, for every endpoint
listing, repeated ip:port included), so the transferred clauses speak about the servers actually
written (`gw_written_*`, `gw_group_share`).  The seeded variant C16e (`gwWriteDedup`: dedup after
`Length` was taken) breaks exactly that (`gw_dedup_after_length_breaks_share`).
-/
namespace HapVerif.C16

/-! ## `rebalance`: which positions are specified -/

/-- a cluster with replicas always gets a weight; `none` (unspecified) only for a zero-length one -/
theorem rebalance_some_of_pos {cls : List Cluster} {initial : Int} {c : Cluster} {o : Option Int}
    (h : (c, o) ∈ cls.zip (rebalance cls initial)) (hl : c.length ≠ 0) : ∃ w, o = some w := by
  unfold rebalance at h
  rw [rebalanceWith_map] at h
  have ho := (mem_zip_map h).2
  subst ho
  unfold outFn
  split
  · exact ⟨_, rfl⟩
  · split
    · exact ⟨_, rfl⟩
    · rw [newWeight_eq, if_neg hl]; exact ⟨_, rfl⟩

theorem mem_live_of_zip {cls : List Cluster} {out : List (Option Int)} {c : Cluster} {w : Int}
    (h : (c, some w) ∈ cls.zip out) (hl : 0 < c.length) : (c, w) ∈ live cls out := by
  unfold live
  rw [List.mem_filterMap]
  exact ⟨(c, some w), h, by simp [hl]⟩

/-! ## gateway -/

/-- one result per kept backendRef, in order -/
theorem gw_kept_out_fst (refs : List GwRef) : (gwKeptOut refs).map (·.1) = gwClusters refs := by
  unfold gwKeptOut
  simp only [List.map_map]
  have hl : (gwClusters refs).length ≤ (rebalance (gwClusters refs) gwBase).length := by
    unfold rebalance; rw [rebalanceWith_length]
  have : ((fun p : Cluster × List Int => p.1) ∘ fun p : Cluster × Option Int => (p.1, gwServersOf p.1 p.2))
      = Prod.fst := rfl
  rw [this]
  exact List.map_fst_zip hl

/-- **gateway transfer**: every server of a kept backendRef carries the weight `rebalance` computed
for the cluster `(weight or 1, ready addresses)` of that ref with base 128 — a `live` entry. -/
theorem gw_server_live (refs : List GwRef) (p : Cluster × List Int) (hp : p ∈ gwKeptOut refs)
    (w : Int) (hw : w ∈ p.2) :
    (p.1, some w) ∈ (gwClusters refs).zip (rebalance (gwClusters refs) gwBase) ∧ 0 < p.1.length ∧
    (p.1, w) ∈ live (gwClusters refs) (rebalance (gwClusters refs) gwBase) := by
  unfold gwKeptOut at hp
  simp only [List.mem_map] at hp
  obtain ⟨⟨c, o⟩, hz, rfl⟩ := hp
  simp only at hw ⊢
  cases o with
  | none => simp [gwServersOf] at hw
  | some w' =>
    simp only [gwServersOf, List.mem_replicate] at hw
    obtain ⟨hn, rfl⟩ := hw
    have hl : 0 < c.length := by
      by_contra h
      exact hn (by omega)
    exact ⟨hz, hl, mem_live_of_zip hz hl⟩

/-- the servers of a kept ref are `replicas` copies of one weight; the unspecified result of a
zero-length cluster is never read -/
theorem gw_servers_shape (refs : List GwRef) (p : Cluster × List Int) (hp : p ∈ gwKeptOut refs) :
    p.1 ∈ gwClusters refs ∧ p.2.length = p.1.length.toNat ∧ ∃ w, p.2 = List.replicate p.1.length.toNat w := by
  unfold gwKeptOut at hp
  simp only [List.mem_map] at hp
  obtain ⟨⟨c, o⟩, hz, rfl⟩ := hp
  have hc : c ∈ gwClusters refs := (List.of_mem_zip hz).1
  simp only
  cases o with
  | some w => exact ⟨hc, by simp [gwServersOf], w, rfl⟩
  | none =>
    have h0 : c.length = 0 := by
      by_contra h
      obtain ⟨w, hw⟩ := rebalance_some_of_pos hz h
      cases hw
    exact ⟨hc, by simp [gwServersOf, h0], 0, by simp [gwServersOf, h0]⟩

theorem gwSpread_length {α : Type} (refs : List GwRef) (outs : List (List α)) :
    (gwSpread refs outs).length = refs.length := by
  induction refs generalizing outs with
  | nil => simp [gwSpread]
  | cons r rs ih =>
    unfold gwSpread
    split
    · simp [ih]
    · cases outs <;> simp [ih]

/-- a skipped backendRef (nil port, Service or port not found, endpoints unreadable) has no server -/
theorem gwSpread_skipped {α : Type} (refs : List GwRef) (outs : List (List α)) :
    ∀ p ∈ refs.zip (gwSpread refs outs), p.1.skipped = true → p.2 = [] := by
  induction refs generalizing outs with
  | nil => intro p hp; simp [gwSpread] at hp
  | cons r rs ih =>
    intro p hp hs
    unfold gwSpread at hp
    split at hp
    · simp only [List.zip_cons_cons, List.mem_cons] at hp
      rcases hp with rfl | hp
      · rfl
      · exact ih _ p hp hs
    · rename_i hr
      cases outs with
      | nil =>
        simp only [List.zip_cons_cons, List.mem_cons] at hp
        rcases hp with rfl | hp
        · rfl
        · exact ih _ p hp hs
      | cons o os =>
        simp only [List.zip_cons_cons, List.mem_cons] at hp
        rcases hp with rfl | hp
        · simp at hs; exact absurd hs hr
        · exact ih _ p hp hs

/-- the kept refs receive the results in order -/
theorem gwSpread_kept {α : Type} (refs : List GwRef) (outs : List (List α))
    (h : outs.length = (gwKept refs).length) :
    ((refs.zip (gwSpread refs outs)).filter fun p => !p.1.skipped).map (·.2) = outs := by
  induction refs generalizing outs with
  | nil =>
    simp [gwKept] at h
    simp [gwSpread, h]
  | cons r rs ih =>
    unfold gwSpread
    by_cases hr : r.skipped = true
    · rw [if_pos hr]
      have hk : gwKept (r :: rs) = gwKept rs := by simp [gwKept, hr]
      rw [hk] at h
      simp only [List.zip_cons_cons]
      rw [List.filter_cons_of_neg (by simp [hr])]
      exact ih outs h
    · rw [if_neg hr]
      have hk : gwKept (r :: rs) = r :: gwKept rs := by simp [gwKept, hr]
      rw [hk] at h
      cases outs with
      | nil => simp at h
      | cons o os =>
        simp only [List.zip_cons_cons]
        rw [List.filter_cons_of_pos (by simp [hr])]
        simp only [List.map_cons]
        rw [ih os (by simpa using h)]

theorem gwKeptOutW_length (write : GwWrite) (refs : List GwRef) :
    (gwKeptOutW write refs).length = (gwKept refs).length := by
  unfold gwKeptOutW
  have hl : (rebalance (gwClusters refs) gwBase).length = (gwKept refs).length := by
    unfold rebalance; rw [rebalanceWith_length]; simp [gwClusters]
  simp [List.length_zip, hl]

/-- **`createBackend` as a whole**, for every writing step: no backend iff every ref is skipped;
otherwise one item per backendRef, skipped refs without server, kept refs (in order) with the servers
of `gwKeptOutW` -/
theorem gw_run_spec (write : GwWrite) (refs : List GwRef) :
    (gwRunW write refs = none ↔ gwKept refs = []) ∧
    ∀ per, gwRunW write refs = some per →
      per.length = refs.length ∧
      (∀ p ∈ refs.zip per, p.1.skipped = true → p.2 = []) ∧
      ((refs.zip per).filter fun p => !p.1.skipped).map (·.2) = (gwKeptOutW write refs).map (·.2) := by
  constructor
  · unfold gwRunW
    cases h : gwKept refs <;> simp
  · intro per hper
    unfold gwRunW at hper
    split at hper
    · cases hper
    · cases hper
      refine ⟨gwSpread_length _ _, gwSpread_skipped _ _, gwSpread_kept _ _ ?_⟩
      simp only [List.length_map]
      exact gwKeptOutW_length write refs

/-! ### servers written vs the `Length` given to `RebalanceWeight` -/

theorem gw_zip_cluster {refs : List GwRef} {r : GwRef} {o : Option Int}
    (h : (r, o) ∈ (gwKept refs).zip (rebalance (gwClusters refs) gwBase)) :
    (gwCluster r, o) ∈ (gwClusters refs).zip (rebalance (gwClusters refs) gwBase) := by
  unfold gwClusters at h ⊢
  rw [List.zip_map_left]
  exact List.mem_map.2 ⟨(r, o), h, rfl⟩

/-- **`gw_servers_match_length`**: for the code (`gwWriteAll`), whatever the endpoint listing of every
backendRef — repeated ip:port included — the number of servers written for a kept backendRef equals
the number of listed endpoints, which is the `Length` `RebalanceWeight` was given; hence the cluster
the Spec judges the ref by (configured weight, servers WRITTEN) is the cluster of the rebalance. -/
theorem gw_servers_match_length (refs : List GwRef) (p : GwRef × List (Nat × Int))
    (hp : p ∈ gwKeptOutW gwWriteAll refs) :
    p.2.length = p.1.addrs.length ∧ (gwCluster p.1).length = (p.2.length : Int) ∧
    gwWrittenCluster p.1 p.2 = gwCluster p.1 := by
  unfold gwKeptOutW at hp
  simp only [List.mem_map] at hp
  obtain ⟨⟨r, o⟩, hz, rfl⟩ := hp
  have key : (gwServersW gwWriteAll r o).length = r.addrs.length := by
    cases o with
    | some w => simp [gwServersW, gwWriteAll]
    | none =>
      have h0 : (gwCluster r).length = 0 := by
        by_contra h
        obtain ⟨w, hw⟩ := rebalance_some_of_pos (gw_zip_cluster hz) h
        cases hw
      have : r.addrs.length = 0 := by
        simp only [gwCluster, GwRef.replicas] at h0; omega
      simp [gwServersW, this]
  simp only
  refine ⟨key, ?_, ?_⟩
  · simp [gwCluster, GwRef.replicas, key]
  · simp [gwWrittenCluster, gwCluster, GwRef.replicas, key]

/-- the servers of a ref carry ONE weight, on the addresses the writing step kept -/
theorem gw_written_uniform (write : GwWrite) (refs : List GwRef) (p : GwRef × List (Nat × Int))
    (hp : p ∈ gwKeptOutW write refs) :
    p.2 = [] ∨ ∃ w, p.2 = (write p.1.addrs).map fun a => (a, w) := by
  unfold gwKeptOutW at hp
  simp only [List.mem_map] at hp
  obtain ⟨⟨r, o⟩, _, rfl⟩ := hp
  cases o with
  | none => left; rfl
  | some w => right; exact ⟨w, rfl⟩

/-- for the code, the weights of the servers written are exactly the `Length` copies that
`RebalanceWeight`'s vector promises (`gwKeptOut`): every theorem about `gwKeptOut` is a theorem about
the servers actually written -/
theorem gw_written_all (refs : List GwRef) :
    (gwKeptOutW gwWriteAll refs).map (fun p => (gwCluster p.1, p.2.map (·.2))) = gwKeptOut refs := by
  unfold gwKeptOutW gwKeptOut
  simp only [List.map_map]
  conv => rhs; unfold gwClusters; rw [List.zip_map_left]
  rw [List.map_map]
  apply List.map_congr_left
  rintro ⟨r, o⟩ _
  cases o with
  | none => simp [gwServersW, gwServersOf]
  | some w =>
    simp [gwServersW, gwServersOf, gwWriteAll, gwCluster, GwRef.replicas, Function.comp_def]

/-- **transfer to the servers written**: a server written for a kept backendRef carries the weight
`rebalance` computed for (configured weight, servers WRITTEN for the ref) — a `live` entry -/
theorem gw_written_live (refs : List GwRef) (p : GwRef × List (Nat × Int))
    (hp : p ∈ gwKeptOutW gwWriteAll refs) (s : Nat × Int) (hs : s ∈ p.2) :
    (gwWrittenCluster p.1 p.2, s.2) ∈ live (gwClusters refs) (rebalance (gwClusters refs) gwBase) := by
  have hm : (gwCluster p.1, p.2.map (·.2)) ∈ gwKeptOut refs := by
    rw [← gw_written_all]
    exact List.mem_map.2 ⟨p, hp, rfl⟩
  have := (gw_server_live refs _ hm s.2 (List.mem_map.2 ⟨s, hs, rfl⟩)).2.2
  rw [(gw_servers_match_length refs p hp).2.2]
  exact this

/-- well-formed backendRefs: the weight (nil = 1) of every kept ref is a legal HAProxy weight.
(The Gateway API admits up to 1000000; beyond 256 only the correspondence run and the oracle cover.) -/
def GwWF (refs : List GwRef) : Prop := ∀ r ∈ refs, r.skipped = false → 0 ≤ r.weight.getD 1 ∧ r.weight.getD 1 ≤ 256

/-- facts regenerated from the Go source on every run: the base handed to `RebalanceWeight`, the
default of a nil backendRef weight AND that it is re-declared for every backendRef (inside the
loop body), the draining test and the literal of mode `pod` in the blue/green function; and the two
sites of `createBackend` that must agree on the replica count: `Length: len(epready)`
(`GwRef.replicas` = listed endpoints) and a server-writing loop over `epready` with one
`AddEndpoint` and no statement that could skip an endpoint (`gwWriteAll`, not `gwWriteDedup`) -/
theorem facts_c16_callers : gwBase = Facts.c16GatewayBase ∧
    (gwCluster ⟨none, [], false⟩).weight = Facts.c16GatewayDefaultWeight ∧
    Facts.c16GatewayDefaultInLoop = true ∧ Facts.c16BlueGreenDrainSkip = true ∧
    Facts.c16BlueGreenPodMode = "pod" ∧
    Facts.c16GatewayLengthIsListed = true ∧ Facts.c16GatewayWritesEveryListed = true := by decide

theorem gw_wf {refs : List GwRef} (h : GwWF refs) : WFIn (gwClusters refs) gwBase := by
  have key : ∀ c ∈ gwClusters refs, 0 ≤ c.weight ∧ c.weight ≤ 256 ∧ 0 ≤ c.length := by
    intro c hc
    simp only [gwClusters, gwKept, List.mem_map, List.mem_filter] at hc
    obtain ⟨r, ⟨hr, hs⟩, rfl⟩ := hc
    have := h r hr (by simpa using hs)
    exact ⟨this.1, this.2, by simp [gwCluster]⟩
  exact ⟨fun c hc => (key c hc).1, fun c hc => (key c hc).2.1, fun c hc => (key c hc).2.2,
    by decide, by decide⟩

/-- transferred **range**: every server weight written by `createBackend` is in `0..256` -/
theorem gw_range {refs : List GwRef} (h : GwWF refs) (p : Cluster × List Int) (hp : p ∈ gwKeptOut refs)
    (w : Int) (hw : w ∈ p.2) : 0 ≤ w ∧ w ≤ 256 :=
  let hl := (gw_server_live refs p hp w hw).2.2
  ⟨f32_range_lower (gw_wf h) _ hl, f32_range_upper (gw_wf h) _ hl⟩

/-- transferred **zero-iff**: a server gets weight 0 exactly when its backendRef's weight is 0
(a nil weight is 1, hence never 0); needs only non-negative weights -/
theorem gw_zero_iff {refs : List GwRef} (h : ∀ r ∈ refs, r.skipped = false → 0 ≤ r.weight.getD 1)
    (p : Cluster × List Int) (hp : p ∈ gwKeptOut refs) (w : Int) (hw : w ∈ p.2) :
    w = 0 ↔ p.1.weight = 0 := by
  refine zero_iff (gwClusters refs) gwBase ?_ p.1 w (gw_server_live refs p hp w hw).1
  intro c hc
  simp only [gwClusters, gwKept, List.mem_map, List.mem_filter] at hc
  obtain ⟨r, ⟨hr, hs⟩, rfl⟩ := hc
  exact h r hr (by simpa using hs)

/-- transferred **order** (under `256·lcm(replicas) < 2^24`) -/
theorem gw_order {refs : List GwRef} (h : GwWF refs) (hs : SmallLcm (gwClusters refs))
    (p q : Cluster × List Int) (hp : p ∈ gwKeptOut refs) (hq : q ∈ gwKeptOut refs)
    (w v : Int) (hw : w ∈ p.2) (hv : v ∈ q.2) : ratio p.1 < ratio q.1 → w ≤ v :=
  f32_order (gw_wf h) hs _ (gw_server_live refs p hp w hw).2.2 _ (gw_server_live refs q hq v hv).2.2

/-- transferred **share**: the per-server weights of two backendRefs follow the configured
weight-per-replica ratios up to one unit of integer rounding (+ 1/1024 float error) -/
theorem gw_share {refs : List GwRef} (h : GwWF refs)
    (p q : Cluster × List Int) (hp : p ∈ gwKeptOut refs) (hq : q ∈ gwKeptOut refs)
    (w v : Int) (hw : w ∈ p.2) (hv : v ∈ q.2) : 0 < ratio p.1 → ratio p.1 ≤ ratio q.1 →
      |(w : Rat) * ratio q.1 - (v : Rat) * ratio p.1| ≤ ratio q.1 * (1 + 1 / 1024) :=
  f32_share_partial (gw_wf h) _ (gw_server_live refs p hp w hw).2.2 _ (gw_server_live refs q hq v hv).2.2

/-! ### the property's clauses on the servers ACTUALLY WRITTEN (code: `gwWriteAll`)

`gwWrittenCluster p.1 p.2` = (configured weight with nil = 1, number of servers written for the ref):
the cluster the Spec (`gwOracle`) judges the ref by.  These are `gw_range`, `gw_zero_iff`, `gw_order`,
`gw_share` (= `f32_range_*`, `zero_iff`, `f32_order`, `f32_share_partial` of Props/C16) moved onto the
servers written, through `gw_servers_match_length`. -/

theorem gw_written_range {refs : List GwRef} (h : GwWF refs) (p : GwRef × List (Nat × Int))
    (hp : p ∈ gwKeptOutW gwWriteAll refs) (s : Nat × Int) (hs : s ∈ p.2) : 0 ≤ s.2 ∧ s.2 ≤ 256 :=
  let hl := gw_written_live refs p hp s hs
  ⟨f32_range_lower (gw_wf h) _ hl, f32_range_upper (gw_wf h) _ hl⟩

theorem gw_written_zero_iff {refs : List GwRef} (h : GwWF refs) (p : GwRef × List (Nat × Int))
    (hp : p ∈ gwKeptOutW gwWriteAll refs) (s : Nat × Int) (hs : s ∈ p.2) :
    s.2 = 0 ↔ p.1.weight.getD 1 = 0 :=
  f32_zero_iff (gw_wf h) _ (gw_written_live refs p hp s hs)

theorem gw_written_order {refs : List GwRef} (h : GwWF refs) (hsm : SmallLcm (gwClusters refs))
    (p q : GwRef × List (Nat × Int)) (hp : p ∈ gwKeptOutW gwWriteAll refs) (hq : q ∈ gwKeptOutW gwWriteAll refs)
    (s t : Nat × Int) (hs : s ∈ p.2) (ht : t ∈ q.2) :
    ratio (gwWrittenCluster p.1 p.2) < ratio (gwWrittenCluster q.1 q.2) → s.2 ≤ t.2 :=
  f32_order (gw_wf h) hsm _ (gw_written_live refs p hp s hs) _ (gw_written_live refs q hq t ht)

/-- **share, per server, on the servers written**: weight-per-WRITTEN-server ratios follow the
configured ones up to one unit of integer rounding (+ 1/1024 float error) -/
theorem gw_written_share {refs : List GwRef} (h : GwWF refs)
    (p q : GwRef × List (Nat × Int)) (hp : p ∈ gwKeptOutW gwWriteAll refs) (hq : q ∈ gwKeptOutW gwWriteAll refs)
    (s t : Nat × Int) (hs : s ∈ p.2) (ht : t ∈ q.2) :
    0 < ratio (gwWrittenCluster p.1 p.2) → ratio (gwWrittenCluster p.1 p.2) ≤ ratio (gwWrittenCluster q.1 q.2) →
      |(s.2 : Rat) * ratio (gwWrittenCluster q.1 q.2) - (t.2 : Rat) * ratio (gwWrittenCluster p.1 p.2)|
        ≤ ratio (gwWrittenCluster q.1 q.2) * (1 + 1 / 1024) := by
  intro h1 h2
  exact f32_share_partial (gw_wf h) (gwWrittenCluster p.1 p.2, s.2) (gw_written_live refs p hp s hs)
    (gwWrittenCluster q.1 q.2, t.2) (gw_written_live refs q hq t ht) h1 h2

/-- total weight of the servers written for a ref: the group's share of the traffic -/
def gwGroupSum (servers : List (Nat × Int)) : Int := (servers.map (·.2)).sum

theorem gwGroupSum_uniform (l : List Nat) (w : Int) :
    gwGroupSum (l.map fun a => (a, w)) = (l.length : Int) * w := by
  unfold gwGroupSum
  induction l with
  | nil => simp
  | cons a as ih =>
    simp only [List.map_cons, List.sum_cons, List.length_cons] at ih ⊢
    rw [ih]; push_cast; ring

/-- **the property's share clause, group sums, on the servers written**: for two backendRefs with
servers, weights `W_p`, `W_q` (nil = 1), `n_p` servers written for `p` and group sums `S_p`, `S_q`
(total weight of the servers written), when `p` has the smaller weight per server:
`|S_p · W_q − S_q · W_p| ≤ W_q · n_p · (1 + 1/1024)` — the shares are `W_p : W_q` up to one unit of
integer rounding per server of `p` (+ float error), however many replicas each group has and
however often an address is listed. -/
theorem gw_group_share {refs : List GwRef} (h : GwWF refs)
    (p q : GwRef × List (Nat × Int)) (hp : p ∈ gwKeptOutW gwWriteAll refs) (hq : q ∈ gwKeptOutW gwWriteAll refs)
    (hpn : p.2 ≠ []) (hqn : q.2 ≠ [])
    (hpos : 0 < p.1.weight.getD 1)
    (hle : (p.1.weight.getD 1 : Rat) * q.2.length ≤ (q.1.weight.getD 1 : Rat) * p.2.length) :
    |(gwGroupSum p.2 : Rat) * (q.1.weight.getD 1 : Rat) - (gwGroupSum q.2 : Rat) * (p.1.weight.getD 1 : Rat)|
      ≤ (q.1.weight.getD 1 : Rat) * p.2.length * (1 + 1 / 1024) := by
  obtain ⟨w, hw⟩ := (gw_written_uniform gwWriteAll refs p hp).resolve_left hpn
  obtain ⟨v, hv⟩ := (gw_written_uniform gwWriteAll refs q hq).resolve_left hqn
  have hnp : (0 : Rat) < p.2.length := by
    have : 0 < p.2.length := List.length_pos_of_ne_nil hpn
    exact_mod_cast this
  have hnq : (0 : Rat) < q.2.length := by
    have : 0 < q.2.length := List.length_pos_of_ne_nil hqn
    exact_mod_cast this
  obtain ⟨s, hs⟩ := List.exists_mem_of_ne_nil _ hpn
  obtain ⟨t, ht⟩ := List.exists_mem_of_ne_nil _ hqn
  have hsw : s.2 = w := by
    rw [hw] at hs; simp only [List.mem_map] at hs; obtain ⟨_, _, rfl⟩ := hs; rfl
  have htv : t.2 = v := by
    rw [hv] at ht; simp only [List.mem_map] at ht; obtain ⟨_, _, rfl⟩ := ht; rfl
  have hWp : (0 : Rat) < (p.1.weight.getD 1 : Rat) := by exact_mod_cast hpos
  have hrp : ratio (gwWrittenCluster p.1 p.2) = (p.1.weight.getD 1 : Rat) / (p.2.length : Rat) := by
    simp [ratio, gwWrittenCluster]
  have hrq : ratio (gwWrittenCluster q.1 q.2) = (q.1.weight.getD 1 : Rat) / (q.2.length : Rat) := by
    simp [ratio, gwWrittenCluster]
  have h1 : 0 < ratio (gwWrittenCluster p.1 p.2) := by rw [hrp]; exact div_pos hWp hnp
  have h2 : ratio (gwWrittenCluster p.1 p.2) ≤ ratio (gwWrittenCluster q.1 q.2) := by
    rw [hrp, hrq, div_le_div_iff₀ hnp hnq]; exact hle
  have sh := gw_written_share h p q hp hq s t hs ht h1 h2
  rw [hrp, hrq, hsw, htv] at sh
  have hSp : (gwGroupSum p.2 : Rat) = (p.2.length : Rat) * w := by
    have := gwGroupSum_uniform (gwWriteAll p.1.addrs) w
    rw [← hw] at this
    rw [this, hw]; push_cast; simp
  have hSq : (gwGroupSum q.2 : Rat) = (q.2.length : Rat) * v := by
    have := gwGroupSum_uniform (gwWriteAll q.1.addrs) v
    rw [← hv] at this
    rw [this, hv]; push_cast; simp
  rw [hSp, hSq]
  -- multiply the per-server inequality by n_p · n_q > 0
  have hm : (0 : Rat) < (p.2.length : Rat) * (q.2.length : Rat) := mul_pos hnp hnq
  have e1 : (p.2.length : Rat) * w * (q.1.weight.getD 1 : Rat) - (q.2.length : Rat) * v * (p.1.weight.getD 1 : Rat)
      = ((w : Rat) * ((q.1.weight.getD 1 : Rat) / (q.2.length : Rat)) - (v : Rat) * ((p.1.weight.getD 1 : Rat) / (p.2.length : Rat)))
        * ((p.2.length : Rat) * (q.2.length : Rat)) := by
    field_simp
  have e2 : (q.1.weight.getD 1 : Rat) * (p.2.length : Rat) * (1 + 1 / 1024)
      = ((q.1.weight.getD 1 : Rat) / (q.2.length : Rat)) * (1 + 1 / 1024) * ((p.2.length : Rat) * (q.2.length : Rat)) := by
    field_simp
  rw [e1, e2, abs_mul, abs_of_pos hm]
  exact mul_le_mul_of_nonneg_right sh (le_of_lt hm)

/-! ### the seeded variant: dedup AFTER `Length` was taken -/

theorem gwDedup_of_nodup : ∀ l : List Nat, l.Nodup → gwDedup l = l
  | [], _ => rfl
  | a :: as, h => by
    have ha : a ∉ as := (List.nodup_cons.1 h).1
    have ih := gwDedup_of_nodup as (List.nodup_cons.1 h).2
    unfold gwDedup
    rw [ih]
    congr 1
    rw [List.filter_eq_self]
    intro b hb
    have : b ≠ a := fun e => ha (e ▸ hb)
    simpa using this

/-- the seeded variant differs from the code ONLY when some backendRef lists an address twice: on
distinct addresses (all that the generator fed before) both write the same servers -/
theorem gw_dedup_same_on_distinct (refs : List GwRef) (h : ∀ r ∈ refs, r.addrs.Nodup) :
    gwRunW gwWriteDedup refs = gwRunW gwWriteAll refs := by
  have key : (gwKeptOutW gwWriteDedup refs).map (·.2) = (gwKeptOutW gwWriteAll refs).map (·.2) := by
    unfold gwKeptOutW
    simp only [List.map_map]
    apply List.map_congr_left
    rintro ⟨r, o⟩ hm
    have hr : r ∈ refs := (List.mem_filter.1 (List.of_mem_zip hm).1).1
    cases o with
    | none => rfl
    | some w => simp [gwServersW, gwWriteDedup, gwWriteAll, gwDedup_of_nodup _ (h r hr)]
  unfold gwRunW
  rw [key]

/-- **the seeded variant C16e breaks the share** on backendRefs 3:1 whose first service lists its one
address twice.  `RebalanceWeight` gets `(3,2),(1,1)` and answers 192, 128.  The code writes 2 x 192 :
128 = 3:1 and the Spec accepts; the variant writes 1 x 192 : 128 = 3:2 — weights computed for 2
replicas on 1 server — the servers written no longer match the `Length` and the Spec says `gw-share`. -/
theorem gw_dedup_after_length_breaks_share :
    let refs : List GwRef := [⟨some 3, [1, 1], false⟩, ⟨some 1, [1], false⟩]
    gwClusters refs = [⟨3, 2⟩, ⟨1, 1⟩] ∧
    gwRunW gwWriteAll refs = some [[(1, 192), (1, 192)], [(1, 128)]] ∧
    gwOracle refs (gwRunW gwWriteAll refs) = none ∧
    gwRunW gwWriteDedup refs = some [[(1, 192)], [(1, 128)]] ∧
    gwOracle refs (gwRunW gwWriteDedup refs) = some "gw-share" ∧
    (gwKeptOutW gwWriteDedup refs).any (fun p => decide (p.2.length ≠ p.1.addrs.length)) = true ∧
    gwGroupSum [(1, 192), (1, 192)] = 3 * gwGroupSum [(1, 128)] ∧
    2 * gwGroupSum [(1, 192)] = 3 * gwGroupSum [(1, 128)] := by
  decide +kernel

/-- the demonstrations of the seed: 3:1 with four pods one of which is listed by two overlapping
EndpointSlices (640:213 accepted, 512:213 rejected) and 1:1 with three replicas behind one ip-override
address against two pods (384:384 accepted; 128:384 rejected, there already by the order clause: the
group with MORE weight per server written, 1/1 against 1/2, carries the smaller weight) -/
theorem gw_dedup_after_length_demo :
    gwRunW gwWriteAll [⟨some 3, [1, 2, 3, 3, 4], false⟩, ⟨some 1, [1], false⟩]
      = some [[(1, 128), (2, 128), (3, 128), (3, 128), (4, 128)], [(1, 213)]] ∧
    gwOracle [⟨some 3, [1, 2, 3, 3, 4], false⟩, ⟨some 1, [1], false⟩]
      (some [[(1, 128), (2, 128), (3, 128), (3, 128), (4, 128)], [(1, 213)]]) = none ∧
    gwRunW gwWriteDedup [⟨some 3, [1, 2, 3, 3, 4], false⟩, ⟨some 1, [1], false⟩]
      = some [[(1, 128), (2, 128), (3, 128), (4, 128)], [(1, 213)]] ∧
    gwOracle [⟨some 3, [1, 2, 3, 3, 4], false⟩, ⟨some 1, [1], false⟩]
      (some [[(1, 128), (2, 128), (3, 128), (4, 128)], [(1, 213)]]) = some "gw-share" ∧
    gwRunW gwWriteAll [⟨some 1, [250, 250, 250], false⟩, ⟨some 1, [1, 2], false⟩]
      = some [[(250, 128), (250, 128), (250, 128)], [(1, 192), (2, 192)]] ∧
    gwOracle [⟨some 1, [250, 250, 250], false⟩, ⟨some 1, [1, 2], false⟩]
      (some [[(250, 128), (250, 128), (250, 128)], [(1, 192), (2, 192)]]) = none ∧
    gwOracle [⟨some 1, [250, 250, 250], false⟩, ⟨some 1, [1, 2], false⟩]
      (gwRunW gwWriteDedup [⟨some 1, [250, 250, 250], false⟩, ⟨some 1, [1, 2], false⟩]) = some "gw-order" := by
  decide +kernel

/-- non-vacuity of `gw_servers_match_length` / `gw_group_share` on a listing with a repeated address -/
example : (⟨some 3, [1, 1], false⟩, [(1, 192), (1, 192)]) ∈
    gwKeptOutW gwWriteAll [⟨some 3, [1, 1], false⟩, ⟨some 1, [1], false⟩] := by decide +kernel
example : GwWF [⟨some 3, [1, 1], false⟩, ⟨some 1, [1], false⟩] := by
  intro r hr hs
  simp at hr
  rcases hr with rfl | rfl <;> simp

/-- non-vacuity, and the input of the seeded caller defect (`weight := 1` hoisted out of the loop):
a ref WITHOUT weight after one with weight 3 counts 1, whatever the order; the Spec's shape clauses -/
example : gwRun [⟨some 3, [1], false⟩, ⟨none, [1], false⟩] = some [[(1, 256)], [(1, 85)]] ∧
    gwRun [⟨none, [1], false⟩, ⟨some 3, [1], false⟩] = some [[(1, 85)], [(1, 256)]] ∧
    gwRun [⟨some 7, [1, 2], true⟩, ⟨none, [1], false⟩, ⟨some 2, [1], false⟩] = some [[], [(1, 128)], [(1, 256)]] ∧
    gwRun [⟨some 7, [1, 2], true⟩] = none ∧
    gwOracle [⟨some 3, [1], false⟩, ⟨none, [1], false⟩] (some [[(1, 256)], [(1, 85)]]) = none ∧
    gwOracle [⟨some 3, [1], false⟩, ⟨none, [1], false⟩] (some [[(1, 128)], [(1, 128)]]) = some "gw-share" ∧
    gwOracle [⟨some 3, [1], false⟩, ⟨none, [1], false⟩] (some [[(2, 256)], [(1, 85)]]) = some "gw-shape" ∧
    gwOracle [⟨some 3, [1, 2], false⟩, ⟨none, [1], false⟩] (some [[(1, 256)], [(1, 85)]])
      = some "gw-address-without-server" ∧
    gwOracle [⟨some 3, [1, 1], false⟩, ⟨some 1, [1], false⟩] (some [[(1, 192), (1, 191)], [(1, 128)]])
      = some "gw-group-not-uniform" := by
  decide +kernel
example : GwWF [⟨some 3, [1], false⟩, ⟨none, [1], false⟩, ⟨some 1000, [1], true⟩] := by
  intro r hr hs
  simp at hr
  rcases hr with rfl | rfl | rfl <;> simp_all

/-! ## blue/green: parser and clamp -/

theorem parseEntry_range {s : String} {e : BgEntry} (h : parseEntry s = some e) :
    0 ≤ e.weight ∧ e.weight ≤ 256 := by
  unfold parseEntry at h
  split at h
  · simp only [Option.map_eq_some_iff] at h
    obtain ⟨w, _, rfl⟩ := h
    exact clamp_range w
  · cases h

theorem parseEntries_range : ∀ (ss : List String) (es : List BgEntry), parseEntries ss = some es →
    ∀ e ∈ es, 0 ≤ e.weight ∧ e.weight ≤ 256
  | [], es, h => by simp [parseEntries] at h; subst h; simp
  | s :: ss, es, h => by
    unfold parseEntries at h
    split at h
    · rename_i e es' he hes
      cases h
      intro x hx
      simp only [List.mem_cons] at hx
      rcases hx with rfl | hx
      · exact parseEntry_range he
      · exact parseEntries_range ss es' hes x hx
    · cases h

/-- **clamp**: whatever the annotation says, once it parses every configured group weight is in
`0..256` -/
theorem bg_entries_range {ann : Option String} {es : List BgEntry} (h : bgEntries ann = some es) :
    ∀ e ∈ es, 0 ≤ e.weight ∧ e.weight ≤ 256 := by
  unfold bgEntries at h
  split at h
  · cases h
  · split at h
    · cases h
    · exact parseEntries_range _ _ h

/-- a malformed item anywhere aborts: no entry list -/
theorem parseEntries_malformed (ss : List String) (s : String) (hs : s ∈ ss) (hb : parseEntry s = none) :
    parseEntries ss = none := by
  induction ss with
  | nil => cases hs
  | cons x xs ih =>
    unfold parseEntries
    simp only [List.mem_cons] at hs
    rcases hs with rfl | hs
    · rw [hb]
    · rw [ih hs]; split <;> simp_all

/-- no annotation / empty / malformed: every weight is left untouched -/
theorem bg_untouched (i : BgIn) (h : bgEntries i.ann = none) : bgRun i = i.eps.map (bgCur i.initial) := by
  unfold bgRun; rw [h]

/-! ## blue/green: servers of no group -/

theorem bgMember_of_draining {initial : Int} {ep : BgEp} (h : bgCur initial ep = 0) (e : BgEntry) :
    bgMember initial e ep = false := by simp [bgMember, h]

theorem bgMember_of_nopod {initial : Int} {ep : BgEp} (h : ep.labels = none) (e : BgEntry) :
    bgMember initial e ep = false := by simp [bgMember, bgLabelMatch, h]

theorem bgPodWeight_no_group {initial : Int} {entries : List BgEntry} {ep : BgEp}
    (h : ∀ e ∈ entries, bgMember initial e ep = false) : bgPodWeight initial entries ep = 0 := by
  unfold bgPodWeight
  have : entries.filter (fun e => bgMember initial e ep) = [] := by
    rw [List.filter_eq_nil_iff]; intro e he; simp [h e he]
  rw [this]; rfl

theorem bgDeployWeight_no_group {initial : Int} {entries : List BgEntry} {out : List (Option Int)} {ep : BgEp}
    (h : ∀ e ∈ entries, bgMember initial e ep = false) : bgDeployWeight initial entries out ep = 0 := by
  unfold bgDeployWeight
  have : (entries.zip out).filter (fun p => bgMember initial p.1 ep) = [] := by
    rw [List.filter_eq_nil_iff]; intro p hp; simp [h p.1 (List.of_mem_zip hp).1]
  rw [this]; rfl

theorem bgCore_eq_map (mode : String) (initial : Int) (entries : List BgEntry) (eps : List BgEp) :
    ∃ f, bgCore mode initial entries eps = eps.map f ∧
      (mode = "pod" → f = bgPodWeight initial entries) ∧
      (mode ≠ "pod" → f = bgDeployWeight initial entries (rebalance (bgClusters initial entries eps) initial)) := by
  unfold bgCore
  split
  · rename_i h; exact ⟨_, rfl, fun _ => rfl, fun h' => absurd h h'⟩
  · rename_i h; exact ⟨_, rfl, fun h' => absurd h' h, fun _ => rfl⟩

/-- a server that belongs to no group — draining, without pod, or no entry matches its labels —
is written 0, in both modes -/
theorem bg_no_group_zero (mode : String) (initial : Int) (entries : List BgEntry) (eps : List BgEp)
    (p : BgEp × Int) (hp : p ∈ eps.zip (bgCore mode initial entries eps))
    (h : ∀ e ∈ entries, bgMember initial e p.1 = false) : p.2 = 0 := by
  obtain ⟨f, hf, hpod, hdep⟩ := bgCore_eq_map mode initial entries eps
  rw [hf] at hp
  have h2 := (mem_zip_map hp).2
  by_cases hm : mode = "pod"
  · rw [h2, hpod hm]; exact bgPodWeight_no_group h
  · rw [h2, hdep hm]; exact bgDeployWeight_no_group h

/-- **draining servers stay at 0**, whatever the annotation (parsed, malformed, absent) and mode -/
theorem bg_draining_zero (i : BgIn) (p : BgEp × Int) (hp : p ∈ i.eps.zip (bgRun i))
    (h : bgCur i.initial p.1 = 0) : p.2 = 0 := by
  unfold bgRun at hp
  split at hp
  · rw [(mem_zip_map hp).2]; exact h
  · exact bg_no_group_zero _ _ _ _ p hp fun e _ => bgMember_of_draining h e

/-- **servers without pod / matching no entry get 0** once the annotation parses -/
theorem bg_unmatched_zero (i : BgIn) (entries : List BgEntry) (he : bgEntries i.ann = some entries)
    (p : BgEp × Int) (hp : p ∈ i.eps.zip (bgRun i))
    (h : ∀ e ∈ entries, bgLabelMatch e p.1 = false) : p.2 = 0 := by
  unfold bgRun at hp
  rw [he] at hp
  exact bg_no_group_zero _ _ _ _ p hp fun e hin => by simp [bgMember, h e hin]

/-! ## blue/green, mode `pod` -/

/-- mode `pod`: a server gets the configured (clamped) weight of the LAST entry it matches -/
theorem bg_pod_weight (initial : Int) (entries : List BgEntry) (eps : List BgEp)
    (p : BgEp × Int) (hp : p ∈ eps.zip (bgCore "pod" initial entries eps)) (e : BgEntry)
    (hl : (bgMatching initial entries p.1).getLast? = some e) : p.2 = e.weight := by
  obtain ⟨f, hf, hpod, _⟩ := bgCore_eq_map "pod" initial entries eps
  rw [hf] at hp
  rw [(mem_zip_map hp).2, hpod rfl]
  unfold bgPodWeight
  unfold bgMatching at hl
  rw [hl]

/-! ## blue/green, mode deploy: transfer to `rebalance` -/

theorem bgClusters_length (initial : Int) (entries : List BgEntry) (eps : List BgEp) :
    entries.length = (rebalance (bgClusters initial entries eps) initial).length := by
  unfold rebalance; rw [rebalanceWith_length]; simp [bgClusters]

theorem zip_filter_fst {α β} (l : List α) (r : List β) (hl : l.length ≤ r.length) (P : α → Bool) :
    ((l.zip r).filter fun p => P p.1).map (·.1) = l.filter P := by
  have h1 : (l.zip r).map (·.1) = l := List.map_fst_zip hl
  conv => rhs; rw [← h1]
  rw [List.filter_map]
  rfl

/-- **blue/green transfer** (any number of matching entries): a non-draining server that matches
some entry carries the weight `rebalance` computed for the group of the LAST entry it matches, on
the vector (clamped weight, members of the group) with `initial-weight` — a `live` entry.  Group
lengths count a server once per entry it matches. -/
theorem bg_deploy_weight (initial : Int) (entries : List BgEntry) (eps : List BgEp) (ep : BgEp)
    (hep : ep ∈ eps) (hm : bgMatching initial entries ep ≠ []) :
    ∃ e w, (bgMatching initial entries ep).getLast? = some e ∧ e ∈ entries ∧ bgMember initial e ep = true ∧
      bgDeployWeight initial entries (rebalance (bgClusters initial entries eps) initial) ep = w ∧
      (bgCluster initial eps e, w) ∈
        live (bgClusters initial entries eps) (rebalance (bgClusters initial entries eps) initial) := by
  have hlen := bgClusters_length initial entries eps
  generalize hout : rebalance (bgClusters initial entries eps) initial = out at hlen ⊢
  have hmap := zip_filter_fst entries out (by omega) (fun e => bgMember initial e ep)
  have hL : ((entries.zip out).filter fun p => bgMember initial p.1 ep) ≠ [] := by
    intro h0
    rw [h0] at hmap
    exact hm (by unfold bgMatching; rw [← hmap]; rfl)
  obtain ⟨⟨e, o⟩, hlast⟩ : ∃ x, ((entries.zip out).filter fun p => bgMember initial p.1 ep).getLast? = some x := by
    cases h : ((entries.zip out).filter fun p => bgMember initial p.1 ep).getLast? with
    | none => exact absurd (List.getLast?_eq_none_iff.1 h) hL
    | some x => exact ⟨x, rfl⟩
  have hmem := List.mem_of_getLast? hlast
  rw [List.mem_filter] at hmem
  obtain ⟨hz, hme⟩ := hmem
  simp only at hme
  have hin : e ∈ entries := (List.of_mem_zip hz).1
  -- the cluster of `e` has at least this member
  have hpos : 0 < (bgCluster initial eps e).length := by
    have : ep ∈ eps.filter (bgMember initial e) := List.mem_filter.2 ⟨hep, hme⟩
    have := List.length_pos_of_mem this
    simp only [bgCluster, bgCount]; omega
  have hz' : (bgCluster initial eps e, o) ∈ (bgClusters initial entries eps).zip out := by
    unfold bgClusters
    rw [List.zip_map_left]
    exact List.mem_map.2 ⟨(e, o), hz, rfl⟩
  obtain ⟨w, rfl⟩ := rebalance_some_of_pos (hout ▸ hz') (by omega)
  refine ⟨e, w, ?_, hin, hme, ?_, mem_live_of_zip hz' hpos⟩
  · unfold bgMatching
    rw [← hmap, List.getLast?_map, hlast]; rfl
  · unfold bgDeployWeight; rw [hlast]

/-- the configured weights are legal after the clamp and `initial-weight` is in the property's
range 1..256 -/
structure BgWF (initial : Int) (entries : List BgEntry) : Prop where
  w : ∀ e ∈ entries, 0 ≤ e.weight ∧ e.weight ≤ 256
  ilo : 1 ≤ initial
  ihi : initial ≤ 256

/-- the parser always delivers the weight half of `BgWF` -/
theorem bg_wf_of_parse {ann : Option String} {es : List BgEntry} {initial : Int}
    (h : bgEntries ann = some es) (h1 : 1 ≤ initial) (h2 : initial ≤ 256) : BgWF initial es :=
  ⟨bg_entries_range h, h1, h2⟩

theorem bg_wf {initial : Int} {entries : List BgEntry} (h : BgWF initial entries) (eps : List BgEp) :
    WFIn (bgClusters initial entries eps) initial := by
  have key : ∀ c ∈ bgClusters initial entries eps, 0 ≤ c.weight ∧ c.weight ≤ 256 ∧ 0 ≤ c.length := by
    intro c hc
    simp only [bgClusters, List.mem_map] at hc
    obtain ⟨e, he, rfl⟩ := hc
    exact ⟨(h.w e he).1, (h.w e he).2, by simp [bgCluster]⟩
  exact ⟨fun c hc => (key c hc).1, fun c hc => (key c hc).2.1, fun c hc => (key c hc).2.2, h.ilo, h.ihi⟩

/-- **range, every server, both modes** (servers of several groups included) -/
theorem bg_range {mode : String} {initial : Int} {entries : List BgEntry} (h : BgWF initial entries)
    (eps : List BgEp) (p : BgEp × Int) (hp : p ∈ eps.zip (bgCore mode initial entries eps)) :
    0 ≤ p.2 ∧ p.2 ≤ 256 := by
  by_cases hm : bgMatching initial entries p.1 = []
  · have : p.2 = 0 := bg_no_group_zero mode initial entries eps p hp (by
      intro e he
      have := List.filter_eq_nil_iff.1 hm e he
      simpa using this)
    omega
  · obtain ⟨f, hf, hpod, hdep⟩ := bgCore_eq_map mode initial entries eps
    have hp' := hp
    rw [hf] at hp'
    have hep := (mem_zip_map hp').1
    have h2 := (mem_zip_map hp').2
    by_cases hmode : mode = "pod"
    · subst hmode
      obtain ⟨e, he⟩ : ∃ e, (bgMatching initial entries p.1).getLast? = some e := by
        cases hh : (bgMatching initial entries p.1).getLast? with
        | none => exact absurd (List.getLast?_eq_none_iff.1 hh) hm
        | some e => exact ⟨e, rfl⟩
      rw [bg_pod_weight initial entries eps p hp e he]
      exact h.w e (List.mem_filter.1 (List.mem_of_getLast? he)).1
    · obtain ⟨e, w, _, _, _, hw, hl⟩ := bg_deploy_weight initial entries eps p.1 hep hm
      rw [h2, hdep hmode, hw]
      exact ⟨f32_range_lower (bg_wf h eps) _ hl, f32_range_upper (bg_wf h eps) _ hl⟩

/-- the deploy-mode weight of a server with at least one group, with the facts the transferred
theorems need -/
theorem bg_deploy_live {mode : String} (hmode : mode ≠ "pod") (initial : Int) (entries : List BgEntry)
    (eps : List BgEp) (p : BgEp × Int) (hp : p ∈ eps.zip (bgCore mode initial entries eps))
    (hm : bgMatching initial entries p.1 ≠ []) :
    ∃ e, (bgMatching initial entries p.1).getLast? = some e ∧ e ∈ entries ∧ bgMember initial e p.1 = true ∧
      (bgCluster initial eps e, p.2) ∈
        live (bgClusters initial entries eps) (rebalance (bgClusters initial entries eps) initial) := by
  obtain ⟨f, hf, _, hdep⟩ := bgCore_eq_map mode initial entries eps
  rw [hf] at hp
  obtain ⟨e, w, h1, h2, h3, hw, hl⟩ := bg_deploy_weight initial entries eps p.1 (mem_zip_map hp).1 hm
  refine ⟨e, h1, h2, h3, ?_⟩
  rw [(mem_zip_map hp).2, hdep hmode, hw]; exact hl

/-- **zero-iff, any number of groups**: a server with a group is written 0 exactly when the LAST
entry it matches has configured weight 0 -/
theorem bg_deploy_zero_iff_last {mode : String} (hmode : mode ≠ "pod") {initial : Int} {entries : List BgEntry}
    (h : BgWF initial entries) (eps : List BgEp) (p : BgEp × Int)
    (hp : p ∈ eps.zip (bgCore mode initial entries eps)) (e : BgEntry)
    (hl : (bgMatching initial entries p.1).getLast? = some e) : p.2 = 0 ↔ e.weight = 0 := by
  have hm : bgMatching initial entries p.1 ≠ [] := by
    intro h0; rw [h0] at hl; cases hl
  obtain ⟨e', h1, _, _, hlive⟩ := bg_deploy_live hmode initial entries eps p hp hm
  rw [hl] at h1; cases h1
  exact f32_zero_iff (bg_wf h eps) _ hlive

/-- the server matches one entry only (several equal items count as one) -/
def BgSingle (initial : Int) (entries : List BgEntry) (ep : BgEp) (e : BgEntry) : Prop :=
  e ∈ entries ∧ bgMember initial e ep = true ∧ ∀ e' ∈ entries, bgMember initial e' ep = true → e' = e

theorem bg_single_last {initial : Int} {entries : List BgEntry} {ep : BgEp} {e : BgEntry}
    (hs : BgSingle initial entries ep e) : (bgMatching initial entries ep).getLast? = some e := by
  have hne : bgMatching initial entries ep ≠ [] := by
    intro h0
    have := List.filter_eq_nil_iff.1 h0 e hs.1
    simp [hs.2.1] at this
  cases hh : (bgMatching initial entries ep).getLast? with
  | none => exact absurd (List.getLast?_eq_none_iff.1 hh) hne
  | some e' =>
    have := List.mem_filter.1 (List.mem_of_getLast? hh)
    rw [hs.2.2 e' this.1 this.2]

/-- **the property's zero clause for blue/green, mode deploy, servers of at most one group**: the
weight written is 0 exactly when the server is draining, or matches no entry, or its group's
configured weight is 0 -/
theorem bg_zero_iff_single {mode : String} (hmode : mode ≠ "pod") {initial : Int} {entries : List BgEntry}
    (h : BgWF initial entries) (eps : List BgEp) (p : BgEp × Int)
    (hp : p ∈ eps.zip (bgCore mode initial entries eps))
    (hone : ∀ e₁ ∈ entries, ∀ e₂ ∈ entries, bgMember initial e₁ p.1 = true → bgMember initial e₂ p.1 = true → e₁ = e₂) :
    p.2 = 0 ↔ (bgCur initial p.1 = 0 ∨ (∀ e ∈ entries, bgLabelMatch e p.1 = false) ∨
      ∃ e ∈ entries, bgLabelMatch e p.1 = true ∧ e.weight = 0) := by
  by_cases hd : bgCur initial p.1 = 0
  · simp only [hd, true_or, iff_true]
    exact bg_no_group_zero mode initial entries eps p hp fun e _ => bgMember_of_draining hd e
  by_cases hn : ∀ e ∈ entries, bgLabelMatch e p.1 = false
  · refine ⟨fun _ => Or.inr (Or.inl hn), fun _ => ?_⟩
    exact bg_no_group_zero mode initial entries eps p hp fun e he => by simp [bgMember, hn e he]
  · have hn' := hn
    simp only [not_forall] at hn
    obtain ⟨e, he, hne⟩ := hn
    have hlm : bgLabelMatch e p.1 = true := by simpa using hne
    have hme : bgMember initial e p.1 = true := by simp [bgMember, hd, hlm]
    have hs : BgSingle initial entries p.1 e := ⟨he, hme, fun e' he' hm' => hone e' he' e he hm' hme⟩
    rw [bg_deploy_zero_iff_last hmode h eps p hp e (bg_single_last hs)]
    constructor
    · intro hz; exact Or.inr (Or.inr ⟨e, he, hlm, hz⟩)
    · rintro (h1 | h1 | ⟨e', he', hlm', hz'⟩)
      · exact absurd h1 hd
      · exact absurd h1 hn'
      · have : bgMember initial e' p.1 = true := by simp [bgMember, hd, hlm']
        rw [← hone e' he' e he this hme]; exact hz'

/-- transferred **share** between the servers of two groups (each server taken with the group of
the last entry it matches; for servers of one group: its group): per-server weights follow the
configured weight-per-member ratios up to one unit of integer rounding (+ 1/1024) -/
theorem bg_deploy_share {mode : String} (hmode : mode ≠ "pod") {initial : Int} {entries : List BgEntry}
    (h : BgWF initial entries) (eps : List BgEp) (p q : BgEp × Int)
    (hp : p ∈ eps.zip (bgCore mode initial entries eps)) (hq : q ∈ eps.zip (bgCore mode initial entries eps))
    (e₁ e₂ : BgEntry) (h1 : (bgMatching initial entries p.1).getLast? = some e₁)
    (h2 : (bgMatching initial entries q.1).getLast? = some e₂) :
    0 < ratio (bgCluster initial eps e₁) → ratio (bgCluster initial eps e₁) ≤ ratio (bgCluster initial eps e₂) →
      |(p.2 : Rat) * ratio (bgCluster initial eps e₂) - (q.2 : Rat) * ratio (bgCluster initial eps e₁)|
        ≤ ratio (bgCluster initial eps e₂) * (1 + 1 / 1024) := by
  have hm1 : bgMatching initial entries p.1 ≠ [] := by intro h0; rw [h0] at h1; cases h1
  have hm2 : bgMatching initial entries q.1 ≠ [] := by intro h0; rw [h0] at h2; cases h2
  obtain ⟨a, ha, _, _, la⟩ := bg_deploy_live hmode initial entries eps p hp hm1
  obtain ⟨b, hb, _, _, lb⟩ := bg_deploy_live hmode initial entries eps q hq hm2
  rw [h1] at ha; cases ha
  rw [h2] at hb; cases hb
  exact f32_share_partial (bg_wf h eps) _ la _ lb

/-- transferred **order** (under `256·lcm(members) < 2^24`) -/
theorem bg_deploy_order {mode : String} (hmode : mode ≠ "pod") {initial : Int} {entries : List BgEntry}
    (h : BgWF initial entries) (eps : List BgEp) (hs : SmallLcm (bgClusters initial entries eps))
    (p q : BgEp × Int)
    (hp : p ∈ eps.zip (bgCore mode initial entries eps)) (hq : q ∈ eps.zip (bgCore mode initial entries eps))
    (e₁ e₂ : BgEntry) (h1 : (bgMatching initial entries p.1).getLast? = some e₁)
    (h2 : (bgMatching initial entries q.1).getLast? = some e₂) :
    ratio (bgCluster initial eps e₁) < ratio (bgCluster initial eps e₂) → p.2 ≤ q.2 := by
  have hm1 : bgMatching initial entries p.1 ≠ [] := by intro h0; rw [h0] at h1; cases h1
  have hm2 : bgMatching initial entries q.1 ≠ [] := by intro h0; rw [h0] at h2; cases h2
  obtain ⟨a, ha, _, _, la⟩ := bg_deploy_live hmode initial entries eps p hp hm1
  obtain ⟨b, hb, _, _, lb⟩ := bg_deploy_live hmode initial entries eps q hq hm2
  rw [h1] at ha; cases ha
  rw [h2] at hb; cases hb
  exact f32_order (bg_wf h eps) hs _ la _ lb

/-! ## blue/green: non-vacuity, and what the code does OUTSIDE the property's domain

Decision (lead): a pod matching more than one entry (duplicated entries included) and the groups
that contain it are outside the property's domain — "its group" presumes one group per server, the
quantifier ranges over disjoint groups.  The statement one would write for them, for every server
`p` and EVERY entry `e` it matches (mode deploy):  `p.2 = 0 ↔ e.weight = 0`, and all members of
the group of `e` carry the weight `rebalance` gave the group, holds for servers of one group
(`bg_zero_iff_single`, `bg_deploy_share`) and is false on the code for a server of two groups: the
weight of the LAST entry wins (`bg_deploy_zero_iff_last`, `bg_pod_weight`) and the server is counted
in both groups (`bg_deploy_weight`).  The three `bg_outside_domain_*` theorems document this
behaviour on concrete inputs; the oracle does NOT judge it (only `bg-range`, which `bg_range`
proves for every server, and the clauses of the servers/groups not touched by the overlap). -/

def blue : BgEntry := ⟨"g", "blue", 50⟩
def green : BgEntry := ⟨"g", "green", 50⟩
def canary0 : BgEntry := ⟨"c", "1", 0⟩
def canary10 : BgEntry := ⟨"c", "1", 10⟩
def podB : BgEp := ⟨false, some [("g", "blue")]⟩
def podG : BgEp := ⟨false, some [("g", "green")]⟩
def podBC : BgEp := ⟨false, some [("g", "blue"), ("c", "1")]⟩

/-- non-vacuity: the documented example (1:4, one blue and three green pods), both modes,
draining / pod-less / unmatched servers, and the Spec accepts the outputs -/
example :
    bgCore "" 100 [⟨"g", "blue", 1⟩, ⟨"g", "green", 4⟩] [podB, podG, podG, podG] = [100, 133, 133, 133] ∧
    bgCore "pod" 100 [⟨"g", "blue", 1⟩, ⟨"g", "green", 4⟩] [podB, podG, podG, podG] = [1, 4, 4, 4] ∧
    bgCore "" 50 [⟨"g", "blue", 10⟩, ⟨"g", "green", 30⟩]
      [podB, ⟨true, some [("g", "blue")]⟩, ⟨false, none⟩, ⟨false, some []⟩, ⟨false, some [("g", "red")]⟩, podG]
      = [50, 0, 0, 0, 0, 150] ∧
    bgOracleCore "" 100 [⟨"g", "blue", 1⟩, ⟨"g", "green", 4⟩] [podB, podG, podG, podG] [100, 133, 133, 133] = none ∧
    bgOracleCore "" 100 [⟨"g", "blue", 1⟩, ⟨"g", "green", 4⟩] [podB, podG, podG, podG] [100, 100, 100, 100]
      = some "bg-share" ∧
    BgSingle 100 [⟨"g", "blue", 1⟩, ⟨"g", "green", 4⟩] podB ⟨"g", "blue", 1⟩ := by
  refine ⟨by decide +kernel, by decide +kernel, by decide +kernel, by decide +kernel, by decide +kernel,
    by decide +kernel, by decide +kernel, ?_⟩
  intro e he hm
  simp only [List.mem_cons, List.mem_nil_iff, or_false] at he
  rcases he with rfl | rfl
  · rfl
  · revert hm; decide +kernel

/-- **outside the domain, documented, not judged — zero clause**: entries `g=blue=50,c=1=0`; the
pod labelled `g=blue,c=1` belongs to the group `g=blue` (configured 50) and is written 0; with the
entries swapped it is written 1 although it also belongs to the group `c=1` configured 0. -/
theorem bg_outside_domain_zero :
    bgCore "" 1 [blue, canary0] [podBC, podB] = [0, 1] ∧
    bgMember 1 blue podBC = true ∧ blue.weight ≠ 0 ∧
    bgCore "" 1 [canary0, blue] [podBC, podB] = [1, 1] ∧
    bgMember 1 canary0 podBC = true ∧ canary0.weight = 0 ∧
    bgHasOverlap 1 [blue, canary0] [podBC, podB] = true ∧
    bgOracleCore "" 1 [blue, canary0] [podBC, podB] [0, 1] = none ∧
    bgOracleCore "" 1 [canary0, blue] [podBC, podB] [1, 1] = none := by
  decide +kernel

/-- **outside the domain, documented, not judged — share clause**: entries
`g=blue=50,c=1=10,g=green=50`, pods `{g=blue,c=1}`, `{g=blue}`, `{g=green}`.  The vector handed to
`rebalance` is (50,2),(10,1),(50,1): the overlapping pod is counted in `g=blue` AND `c=1`; it is
written the weight of `c=1` (1), the other blue pod 2, the green pod 5.  The groups `g=blue` and
`g=green` are configured 50:50 and get 1+2 = 3 against 5.  The servers not touched by the overlap
(the second blue pod, the green pod) keep their zero clause, every server keeps the range clause. -/
theorem bg_outside_domain_share :
    bgClusters 1 [blue, canary10, green] [podBC, podB, podG] = [⟨50, 2⟩, ⟨10, 1⟩, ⟨50, 1⟩] ∧
    bgCore "" 1 [blue, canary10, green] [podBC, podB, podG] = [1, 2, 5] ∧
    bgHasOverlap 1 [blue, canary10, green] [podBC, podB, podG] = true ∧
    bgOracleCore "" 1 [blue, canary10, green] [podBC, podB, podG] [1, 2, 5] = none ∧
    -- servers not touched by the overlap are still judged
    bgOracleCore "" 1 [blue, canary10, green] [podBC, podB, podG] [1, 2, 0] = some "bg-zero-iff" ∧
    bgOracleCore "" 1 [blue, canary10, green] [podBC, podB, podG] [1, 2, 300] = some "bg-range" ∧
    -- without the overlap the same configuration is judged in full and accepted
    bgCore "" 1 [blue, canary10, green] [podB, podB, podG] = [1, 1, 2] ∧
    bgHasOverlap 1 [blue, canary10, green] [podB, podB, podG] = false ∧
    bgOracleCore "" 1 [blue, canary10, green] [podB, podB, podG] [1, 1, 2] = none ∧
    bgOracleCore "" 1 [blue, canary10, green] [podB, podB, podG] [1, 2, 2] = some "bg-group-not-uniform" := by
  decide +kernel

/-- **outside the domain, documented, not judged — mode `pod`**: the pod of two groups gets the
weight of the last entry (10), not the 50 of its other group -/
theorem bg_outside_domain_pod :
    bgCore "pod" 1 [blue, canary10] [podBC, podB] = [10, 50] ∧
    bgOracleCore "pod" 1 [blue, canary10] [podBC, podB] [10, 50] = none ∧
    bgOracleCore "pod" 1 [blue, canary10] [podBC, podB] [10, 49] = some "bg-pod-weight" := by
  decide +kernel

/-! ## blue/green: a repeated ip:port — one server per address, BEFORE the lengths are counted

The ingress converter's `addEndpoints` uses `AcquireEndpoint` (find by target, else add): whatever the
endpoint listing, the backend has ONE server per address (`bgAcquire_nodup`, `bgAcquire_addrs`), and
`buildBackendBlueGreenBalance` runs on those servers: `dw.endpoints` — the list whose length is the
group's `Length` — IS the list of servers the group's weight is written to
(`bg_servers_match_length`).  So, unlike a dedup placed after `Length` was taken, the collapse of
several pods behind one address changes the replica count and the servers written together, and every
theorem above (stated on `eps` = the servers) applies with `eps := (bgAcquire listing).map (·.2)`. -/

theorem bgAcquireStep_addrs (srv : List (Nat × BgEp)) (l : BgListed) :
    (bgAcquireStep srv l).map (·.1) =
      if l.addr ∈ srv.map (·.1) then srv.map (·.1) else srv.map (·.1) ++ [l.addr] := by
  have hany : srv.any (fun s => s.1 == l.addr) = true ↔ l.addr ∈ srv.map (·.1) := by
    simp only [List.any_eq_true, beq_iff_eq, List.mem_map]
  unfold bgAcquireStep
  by_cases h : l.addr ∈ srv.map (·.1)
  · rw [if_pos (hany.2 h), if_pos h]
    split
    · rw [List.map_map]
      apply List.map_congr_left
      intro s _
      simp only [Function.comp]
      split <;> rfl
    · rfl
  · rw [if_neg (fun hh => h (hany.1 hh)), if_neg h]
    simp

theorem bgAcquire_fold_nodup (ls : List BgListed) (srv : List (Nat × BgEp))
    (h : (srv.map (·.1)).Nodup) : ((ls.foldl bgAcquireStep srv).map (·.1)).Nodup := by
  induction ls generalizing srv with
  | nil => exact h
  | cons l ls ih =>
    apply ih
    rw [bgAcquireStep_addrs]
    split
    · exact h
    · rename_i hn
      rw [List.nodup_append]
      refine ⟨h, by simp, ?_⟩
      intro a ha b hb
      simp only [List.mem_singleton] at hb
      subst hb
      exact fun e => hn (e ▸ ha)

theorem bgAcquire_fold_addrs (ls : List BgListed) (srv : List (Nat × BgEp)) (a : Nat) :
    a ∈ (ls.foldl bgAcquireStep srv).map (·.1) ↔ a ∈ srv.map (·.1) ∨ a ∈ ls.map (·.addr) := by
  induction ls generalizing srv with
  | nil => simp
  | cons l ls ih =>
    rw [List.foldl_cons, ih, bgAcquireStep_addrs]
    simp only [List.map_cons, List.mem_cons]
    split
    · rename_i hin
      constructor
      · rintro (h | h)
        · exact Or.inl h
        · exact Or.inr (Or.inr h)
      · rintro (h | h | h)
        · exact Or.inl h
        · exact Or.inl (h ▸ hin)
        · exact Or.inr h
    · simp only [List.mem_append, List.mem_singleton]
      constructor
      · rintro ((h | h) | h)
        · exact Or.inl h
        · exact Or.inr (Or.inl h)
        · exact Or.inr (Or.inr h)
      · rintro (h | h | h)
        · exact Or.inl (Or.inl h)
        · exact Or.inl (Or.inr h)
        · exact Or.inr h

/-- **one server per ip:port**, whatever the listing -/
theorem bgAcquire_nodup (ls : List BgListed) : ((bgAcquire ls).map (·.1)).Nodup :=
  bgAcquire_fold_nodup _ [] (by simp)

/-- every listed address has a server and every server carries a listed address -/
theorem bgAcquire_addrs (ls : List BgListed) (a : Nat) :
    a ∈ (bgAcquire ls).map (·.1) ↔ a ∈ ls.map (·.addr) := by
  unfold bgAcquire
  rw [bgAcquire_fold_addrs]
  simp only [List.map_nil, List.not_mem_nil, false_or, List.map_append, List.mem_append, List.mem_map,
    List.mem_filter]
  constructor
  · rintro (⟨l, ⟨hl, _⟩, rfl⟩ | ⟨l, ⟨hl, _⟩, rfl⟩) <;> exact ⟨l, hl, rfl⟩
  · rintro ⟨l, hl, rfl⟩
    by_cases hd : l.ep.drain = true
    · exact Or.inr ⟨l, ⟨hl, hd⟩, rfl⟩
    · exact Or.inl ⟨l, ⟨hl, by simpa using hd⟩, rfl⟩

/-- **`bg_servers_match_length`**: for every endpoint listing (repeated ip:port included) the `Length`
handed to `RebalanceWeight` for the group of entry `e` is the number of SERVERS of the backend that are
members of the group — the servers `bg_deploy_weight` shows the group's weight is written to — and
these servers have pairwise distinct addresses covering exactly the listed ones. -/
theorem bg_servers_match_length (initial : Int) (ls : List BgListed) (e : BgEntry) :
    (bgCluster initial ((bgAcquire ls).map (·.2)) e).length
      = ((((bgAcquire ls).map (·.2)).filter (bgMember initial e)).length : Int) ∧
    ((bgAcquire ls).map (·.1)).Nodup ∧ ∀ a, a ∈ (bgAcquire ls).map (·.1) ↔ a ∈ ls.map (·.addr) :=
  ⟨rfl, bgAcquire_nodup ls, bgAcquire_addrs ls⟩

/-- non-vacuity: three blue pods behind ONE address (ip-override) and two green pods, 1:1 — the blue
group has one server and `Length` 1, the vector is (1,1),(1,2), the servers get 2 : 1+1 and the Spec
accepts; the first READY listing names the pod of a shared server and a not-ready listing of the
address drains it -/
example :
    bgAcquire [⟨1, podB⟩, ⟨1, podB⟩, ⟨1, podB⟩, ⟨2, podG⟩, ⟨3, podG⟩] = [(1, podB), (2, podG), (3, podG)] ∧
    bgClusters 1 [⟨"g", "blue", 1⟩, ⟨"g", "green", 1⟩] [podB, podG, podG] = [⟨1, 1⟩, ⟨1, 2⟩] ∧
    bgCore "" 1 [⟨"g", "blue", 1⟩, ⟨"g", "green", 1⟩] [podB, podG, podG] = [2, 1, 1] ∧
    bgOracleCore "" 1 [⟨"g", "blue", 1⟩, ⟨"g", "green", 1⟩] [podB, podG, podG] [2, 1, 1] = none ∧
    bgOracleCore "" 1 [⟨"g", "blue", 1⟩, ⟨"g", "green", 1⟩] [podB, podG, podG] [6, 1, 1] = some "bg-share" ∧
    bgAcquire [⟨2, podB⟩, ⟨2, ⟨true, some [("g", "green")]⟩⟩, ⟨1, podG⟩, ⟨1, podB⟩]
      = [(2, ⟨true, some [("g", "blue")]⟩), (1, podG)] := by
  decide +kernel

end HapVerif.C16
