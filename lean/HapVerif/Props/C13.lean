import HapVerif.Lemmas.C13
import HapVerif.Lemmas.C13Dur
import HapVerif.Generated.Facts
/-!
# C13 — rate limits: spacing, coalescing, liveness

Model: `HapVerif.C13.simulate lim evs` — the real limiter functions (`reloadWhen`,
`ingressWhen`) driving client-go's delaying queue ("earliest deadline per item").
Arrival patterns `evs : List (time × item)` are arbitrary (any length, any gaps), sorted
by time.  `item = false/true` is partial/full reconciliation; the reload queue uses one item.

Second part (section "Run durations, one worker, `Forget`"): `HapVerif.C13.simulateD lim forget durs evs` —
the same limiter and delaying queue feeding client-go's base queue (dirty / processing sets, FIFO) and the
ONE worker of `WorkQueue.process`, which is occupied for `durs[k]` by its `k`-th run and then calls the
limiter's `Forget` (parameter `forget`; `forgetId` = the code that exists) and `Done`.  The observable is
the list of run STARTS.  `simulate` is the special case of instantaneous runs (`simulateD_zero`).
-/
namespace HapVerif.C13

/-- arrival times are non-decreasing, starting at or after `c` -/
def Sorted : Int → List (Int × Bool) → Prop
  | _, [] => True
  | c, e :: es => c ≤ e.1 ∧ Sorted e.1 es

theorem runAll_inv {δ w : Int} (hδ : 0 < δ) (hw : 0 ≤ w) :
    ∀ (evs : List (Int × Bool)) (s : St) (c : Int) (done : List (Int × Bool)),
      Inv δ w s c c done → Sorted c evs →
      ∃ c', Inv δ w (evs.foldl (fun s e => arrive (ingressWhen δ w) s e.1 e.2) s) c' c' (evs.reverse ++ done) := by
  intro evs
  induction evs with
  | nil => intro s c done h _; exact ⟨c, by simpa using h⟩
  | cons e es ih =>
    intro s c done h hs
    obtain ⟨h1, h2⟩ := hs
    have := arrive_inv e.2 h h1 hδ hw
    obtain ⟨c', hc'⟩ := ih _ _ _ this h2
    refine ⟨c', ?_⟩
    simpa [List.foldl_cons, List.reverse_cons, List.append_assoc] using hc'

theorem fire_nopend (s : St) (t : Int) (h : ∀ b, s.pend b = none) : fire s t = s := by
  unfold fire fire1
  simp [h]

theorem fire1_clears (s : St) (t : Int) (b : Bool) (d : Int) (h : s.pend b = some d) (hd : d ≤ t) :
    (fire1 s t b).pend b = none := by
  unfold fire1; simp [h, hd, setPend]

theorem fire1_pend_self (s : St) (t : Int) (b : Bool) (d : Int)
    (h : (fire1 s t b).pend b = some d) : s.pend b = some d ∧ t < d := by
  unfold fire1 at h
  cases hs : s.pend b with
  | none => rw [hs] at h; simp only at h; rw [hs] at h; cases h
  | some e =>
    rw [hs] at h; simp only at h
    by_cases he : e ≤ t
    · simp only [he, if_true, setPend_same] at h; cases h
    · simp only [he, if_false] at h; rw [hs] at h; cases h; exact ⟨rfl, by omega⟩

theorem fire1_pend_other (s : St) (t : Int) (b x : Bool) (hx : x ≠ b) :
    (fire1 s t b).pend x = s.pend x := by
  unfold fire1
  cases hs : s.pend b with
  | none => rfl
  | some e =>
    simp only
    by_cases he : e ≤ t
    · simp only [he, if_true]; exact setPend_other _ _ _ _ hx
    · simp only [he, if_false]

theorem fire_pend (s : St) (t : Int) (b : Bool) (d : Int) (h : (fire s t).pend b = some d) :
    s.pend b = some d ∧ t < d := by
  unfold fire at h
  cases b
  · rw [fire1_pend_other _ _ _ _ (by decide)] at h; exact fire1_pend_self s t false d h
  · have := fire1_pend_self _ t true d h
    rw [fire1_pend_other _ _ _ _ (by decide)] at this; exact this

theorem flush_inv {δ w : Int} {s : St} {c : Int} {done : List (Int × Bool)} (hw : 0 ≤ w)
    (h : Inv δ w s c c done) :
    ∃ c', Inv δ w (flush s) c' c' done ∧ ∀ b, (flush s).pend b = none := by
  unfold flush
  simp only
  generalize hm : max ((s.pend false).getD 0) ((s.pend true).getD 0) = m
  have hle : ∀ x e, s.pend x = some e → e ≤ m := by
    intro x e hx; cases x <;> simp [hx] at hm <;> omega
  have hnone : ∀ b, (fire s m).pend b = none := by
    intro b
    cases hb : (fire s m).pend b with
    | none => rfl
    | some d =>
      obtain ⟨h1, h2⟩ := fire_pend s m b d hb
      have := hle b d h1; omega
  by_cases hn : ∀ b, s.pend b = none
  · rw [fire_nopend s m hn]; exact ⟨c, h, hn⟩
  · have hcm : c ≤ m := by
      have : ∃ b d, s.pend b = some d := by
        false_or_by_contra
        rename_i hc
        apply hn; intro b
        cases hb : s.pend b with
        | none => rfl
        | some d => exact absurd ⟨b, d, hb⟩ hc
      obtain ⟨b, d, hb⟩ := this
      have h1 := (h.pendLast b d hb).2
      have := hle b d hb; omega
    exact ⟨m, fire_inv h hcm hw, hnone⟩

theorem runsOf_reverse (b : Bool) (l : List (Int × Bool)) :
    runsOf b l.reverse = (runsOf b l).reverse := by
  simp [runsOf, List.filter_reverse, List.map_reverse]

/-- final state reached from the empty queue -/
theorem final_inv {δ w : Int} (hδ : 0 < δ) (hw : 0 ≤ w) (c : Int) (evs : List (Int × Bool))
    (hs : Sorted c evs) :
    ∃ c', Inv δ w (flush (runAll (ingressWhen δ w) evs)) c' c' evs.reverse ∧
      ∀ b, (flush (runAll (ingressWhen δ w) evs)).pend b = none := by
  obtain ⟨c1, h1⟩ := runAll_inv hδ hw evs {} c [] (inv_init δ w c) hs
  simp only [List.append_nil] at h1
  exact flush_inv hw h1

/-- **spacing** — reconciliations of one kind are never closer than `δ = 1/rate-limit-update`,
for every arrival pattern and every `wait-before-update ≥ 0`. -/
theorem reconcile_spacing {δ w : Int} (hδ : 0 < δ) (hw : 0 ≤ w) (c : Int)
    (evs : List (Int × Bool)) (hs : Sorted c evs) (b : Bool) :
    (runsOf b (simulate (ingressWhen δ w) evs)).Pairwise (fun a r => a + δ ≤ r) := by
  obtain ⟨c', h, _⟩ := final_inv hδ hw c evs hs
  unfold simulate
  rw [runsOf_reverse, List.pairwise_reverse]
  exact h.spaced b

/-- **spacing** — two reloads issued through the reload queue are never closer than
`--reload-interval`, for every arrival pattern. -/
theorem reload_spacing {i : Int} (hi : 0 < i) (c : Int) (evs : List (Int × Bool))
    (hs : Sorted c evs) (b : Bool) :
    (runsOf b (simulate (reloadWhen i) evs)).Pairwise (fun a r => a + i ≤ r) := by
  rw [reloadWhen_eq]; exact reconcile_spacing hi (Int.le_refl 0) c evs hs b

/-- **liveness** — every notification `(t, b)` is followed by a run of `b` at some `r ≥ t` that
is either within `wait-before-update` of the notification or exactly `δ` after an actual
earlier run (i.e. as early as the rate limit allows). -/
theorem reconcile_liveness {δ w : Int} (hδ : 0 < δ) (hw : 0 ≤ w) (c : Int)
    (evs : List (Int × Bool)) (hs : Sorted c evs) (t : Int) (b : Bool) (hm : (t, b) ∈ evs) :
    ∃ r, (r, b) ∈ simulate (ingressWhen δ w) evs ∧ t ≤ r ∧
      (r ≤ t + w ∨ ∃ p b', (p, b') ∈ simulate (ingressWhen δ w) evs ∧ r = p + δ) := by
  obtain ⟨c', h, hn⟩ := final_inv hδ hw c evs hs
  rcases h.served t b (by simpa using hm) with ⟨r, hr, h1, h2⟩ | ⟨d, hd, _⟩
  · refine ⟨r, by unfold simulate; simpa using hr, h1, ?_⟩
    rcases h2 with h2 | ⟨p, b', hp, e⟩
    · exact Or.inl h2
    · exact Or.inr ⟨p, b', by unfold simulate; simpa using hp, e⟩
  · rw [hn b] at hd; cases hd

theorem reload_liveness {i : Int} (hi : 0 < i) (c : Int)
    (evs : List (Int × Bool)) (hs : Sorted c evs) (t : Int) (b : Bool) (hm : (t, b) ∈ evs) :
    ∃ r, (r, b) ∈ simulate (reloadWhen i) evs ∧ t ≤ r ∧
      (r ≤ t ∨ ∃ p b', (p, b') ∈ simulate (reloadWhen i) evs ∧ r = p + i) := by
  rw [reloadWhen_eq]
  simpa using reconcile_liveness hi (Int.le_refl 0) c evs hs t b hm

/-- **coalescing** — a notification arriving while a run of its kind is pending creates no extra
run: there are never more runs than notifications. -/
theorem reconcile_coalesce {δ w : Int} (hδ : 0 < δ) (hw : 0 ≤ w) (c : Int)
    (evs : List (Int × Bool)) (hs : Sorted c evs) (b : Bool) :
    (runsOf b (simulate (ingressWhen δ w) evs)).length ≤ (runsOf b evs).length := by
  obtain ⟨c', h, hn⟩ := final_inv hδ hw c evs hs
  have := h.count b
  rw [hn b, runsOf_reverse] at this
  unfold simulate
  rw [runsOf_reverse]
  simpa using this

/-- an arrival at `t` while item `b` is pending for `d > t` leaves the deadline unchanged and
adds no run (the step-level form of coalescing) -/
theorem arrive_pending_noop {δ w : Int} {s : St} {c t : Int} {done : List (Int × Bool)} (b : Bool)
    (h : Inv δ w s c c done) (hle : c ≤ t) (d : Int) (hp : s.pend b = some d)
    (hd : t < d) (hother : ∀ x e, s.pend x = some e → t < e) :
    (arrive (ingressWhen δ w) s t b).pend b = some d ∧ (arrive (ingressWhen δ w) s t b).runs = s.runs := by
  have hl := (h.pendLast b d hp).1
  have hfire : fire s t = s := by
    unfold fire fire1
    cases hf : s.pend false with
    | none =>
      cases ht : s.pend true with
      | none => simp [ht]
      | some e => have := hother true e ht; simp [ht]; omega
    | some e =>
      have h1 := hother false e hf
      have : ¬ e ≤ t := by omega
      simp only [this, if_false]
      cases ht : s.pend true with
      | none => simp
      | some e' => have := hother true e' ht; simp; omega
  unfold arrive
  simp only [hfire, hl, ingressWhen]
  have : d > t := hd
  simp only [this, if_true]
  have h0 : ¬ d - t ≤ 0 := by omega
  simp only [h0, if_false, setPend_same, hp, minOpt]
  constructor
  · congr 1; split <;> omega
  · trivial

/-- link to the executable oracle used on the implementation's timestamps -/
theorem spaced_of_pairwise (δ : Int) : ∀ l : List Int, l.Pairwise (fun a r => a + δ ≤ r) → spaced δ l = true
  | [], _ => rfl
  | [_], _ => rfl
  | a :: b :: rest, h => by
    simp only [spaced, Bool.and_eq_true, decide_eq_true_eq]
    cases h with
    | cons h1 h2 => exact ⟨h1 b List.mem_cons_self, spaced_of_pairwise δ (b :: rest) h2⟩

/-- the limiter before the repair violates spacing: arrivals at 0, 5, 11 with interval 10
reload at 0, 10 and 11 (the replay that was confirmed on the unrepaired Go code) -/
theorem old_limiter_violates :
    simulate (reloadWhenOld 10) [(0, false), (5, false), (11, false)] = [(0, false), (10, false), (11, false)]
    ∧ spaced 10 (runsOf false (simulate (reloadWhenOld 10) [(0, false), (5, false), (11, false)])) = false := by
  decide

/-- advancing `last` without the "already scheduled" test breaks liveness instead: a burst pushes the
next slot away (0,5,7,11 → the request at 11 waits until 30 although 20 was allowed) -/
def reloadWhenNaive (interval : Int) : Limiter := fun last now =>
  match last with
  | none => (some now, 0)
  | some l => if l + interval < now then (some now, 0) else (some (l + interval), l + interval - now)

theorem naive_limiter_starves :
    simulate (reloadWhenNaive 10) [(0, false), (5, false), (7, false), (11, false)]
      = [(0, false), (10, false), (30, false)] := by decide

/-- regenerated from the Go source: both `When` methods run under the limiter's mutex (the model
treats a call as one atomic step) -/
theorem facts_c13 :
    "r.mu.Lock" ∈ Facts.c13ReloadWhenCalls ∧ "r.mu.Unlock" ∈ Facts.c13ReloadWhenCalls ∧
    "r.mu.Lock" ∈ Facts.c13IngressWhenCalls ∧ "r.mu.Unlock" ∈ Facts.c13IngressWhenCalls := by decide

/-- non-vacuity: the repaired limiter on the same patterns -/
example : simulate (reloadWhen 10) [(0, false), (5, false), (11, false)] = [(0, false), (10, false), (20, false)] := by decide
example : simulate (reloadWhen 10) [(0, false), (5, false), (7, false), (11, false)] = [(0, false), (10, false), (20, false)] := by decide
example : Sorted 0 [(0, false), (5, true), (11, false)] := by simp [Sorted]

/-! ## Run durations, one worker, `Forget` -/

theorem runAllD_sinv {δ w : Int} (hδ : 0 < δ) (hw : 0 ≤ w) (b0 : Bool) :
    ∀ (evs : List (Int × Bool)) (s : StD) (c : Int) (done : List (Int × Bool)),
      SInv δ w b0 s c done → Sorted c evs → (∀ e, e ∈ evs → e.2 = b0) →
      ∃ c', SInv δ w b0 (evs.foldl (fun s e => arriveD (ingressWhen δ w) forgetId s e.1 e.2) s) c' (evs.reverse ++ done) := by
  intro evs
  induction evs with
  | nil => intro s c done h _ _; exact ⟨c, by simpa using h⟩
  | cons e es ih =>
    intro s c done h hs hk
    obtain ⟨h1, h2⟩ := hs
    obtain ⟨t, b⟩ := e
    have hb : b = b0 := hk (t, b) List.mem_cons_self
    subst hb
    have := arriveD_sinv h h1 hδ hw
    obtain ⟨c', hc'⟩ := ih _ _ _ this h2 (fun x hx => hk x (List.mem_cons_of_mem _ hx))
    refine ⟨c', ?_⟩
    simpa [List.foldl_cons, List.reverse_cons, List.append_assoc] using hc'

/-- **runs with a duration = the instantaneous model** (one kind of item, every run shorter than the
interval): for EVERY arrival pattern of one kind `b0` (the reload queue has a single item) and EVERY
assignment of run durations `d < δ` (`d ≤ 0` is an instantaneous run), the run STARTS of the single worker
are exactly the runs of `simulate`: the previous run has always ended when the next one is due, nothing is
ever re-queued at `Done`, `Forget` (a no-op in the code that exists) changes nothing. -/
theorem simulateD_single {δ w : Int} (hδ : 0 < δ) (hw : 0 ≤ w) (c : Int) (evs : List (Int × Bool))
    (hs : Sorted c evs) (b0 : Bool) (hk : ∀ e, e ∈ evs → e.2 = b0)
    (durs : List Int) (hd : ∀ d, d ∈ durs → d < δ) :
    simulateD (ingressWhen δ w) forgetId durs evs = simulate (ingressWhen δ w) evs := by
  have h0 : SInv δ w b0 ({ durs := durs } : StD) c [] :=
    ⟨inv_init δ w c, rfl, ⟨rfl, rfl, rfl, Or.inl rfl, hd⟩⟩
  obtain ⟨c', h1⟩ := runAllD_sinv hδ hw b0 evs _ c [] h0 hs hk
  unfold simulateD simulate runAllD
  rw [flushD_starts h1, foldl_arriveD_q]
  rfl

/-- **spacing of reload STARTS** — for every arrival pattern and every assignment of reload durations
`d < --reload-interval`, two reload starts are never closer than `--reload-interval`.
Assumption on `d` (stated in the registry): each reload is shorter than the interval. For `d ≥ interval` the
statement is FALSE for the code that exists, see `long_run_breaks_spacing`. -/
theorem reload_spacing_dur {i : Int} (hi : 0 < i) (c : Int) (evs : List (Int × Bool)) (hs : Sorted c evs)
    (b0 : Bool) (hk : ∀ e, e ∈ evs → e.2 = b0) (durs : List Int) (hd : ∀ d, d ∈ durs → d < i) (b : Bool) :
    (runsOf b (simulateD (reloadWhen i) forgetId durs evs)).Pairwise (fun a r => a + i ≤ r) := by
  rw [reloadWhen_eq, simulateD_single hi (Int.le_refl 0) c evs hs b0 hk durs hd, ← reloadWhen_eq]
  exact reload_spacing hi c evs hs b

/-- **liveness with durations** — every notification `(t, b)` is followed by a reload START at some `r ≥ t`
that is either immediate or exactly one interval after an earlier start: a reload shorter than the interval is
over when the next one is due, so the start is never delayed by the run in progress (`r ≤ max (t, p + i)`,
and the end `p + d` of the run in progress is `< p + i`). -/
theorem reload_liveness_dur {i : Int} (hi : 0 < i) (c : Int) (evs : List (Int × Bool)) (hs : Sorted c evs)
    (b0 : Bool) (hk : ∀ e, e ∈ evs → e.2 = b0) (durs : List Int) (hd : ∀ d, d ∈ durs → d < i)
    (t : Int) (b : Bool) (hm : (t, b) ∈ evs) :
    ∃ r, (r, b) ∈ simulateD (reloadWhen i) forgetId durs evs ∧ t ≤ r ∧
      (r ≤ t ∨ ∃ p b', (p, b') ∈ simulateD (reloadWhen i) forgetId durs evs ∧ r = p + i) := by
  rw [reloadWhen_eq, simulateD_single hi (Int.le_refl 0) c evs hs b0 hk durs hd, ← reloadWhen_eq]
  exact reload_liveness hi c evs hs t b hm

/-- the same three for reconciliations of ONE kind (partial only or full only) with run durations
`d < 1/rate-limit-update` -/
theorem reconcile_spacing_dur {δ w : Int} (hδ : 0 < δ) (hw : 0 ≤ w) (c : Int) (evs : List (Int × Bool))
    (hs : Sorted c evs) (b0 : Bool) (hk : ∀ e, e ∈ evs → e.2 = b0) (durs : List Int)
    (hd : ∀ d, d ∈ durs → d < δ) (b : Bool) :
    (runsOf b (simulateD (ingressWhen δ w) forgetId durs evs)).Pairwise (fun a r => a + δ ≤ r) := by
  rw [simulateD_single hδ hw c evs hs b0 hk durs hd]
  exact reconcile_spacing hδ hw c evs hs b

theorem reconcile_liveness_dur {δ w : Int} (hδ : 0 < δ) (hw : 0 ≤ w) (c : Int) (evs : List (Int × Bool))
    (hs : Sorted c evs) (b0 : Bool) (hk : ∀ e, e ∈ evs → e.2 = b0) (durs : List Int)
    (hd : ∀ d, d ∈ durs → d < δ) (t : Int) (b : Bool) (hm : (t, b) ∈ evs) :
    ∃ r, (r, b) ∈ simulateD (ingressWhen δ w) forgetId durs evs ∧ t ≤ r ∧
      (r ≤ t + w ∨ ∃ p b', (p, b') ∈ simulateD (ingressWhen δ w) forgetId durs evs ∧ r = p + δ) := by
  rw [simulateD_single hδ hw c evs hs b0 hk durs hd]
  exact reconcile_liveness hδ hw c evs hs t b hm

/-- **d = 0 is the instantaneous model** — with instantaneous runs (every duration `≤ 0`, in particular
no durations given) the run starts of each item are exactly the runs of `simulate`, for EVERY limiter and
arrival pattern and both kinds of item (runs of different items at one instant may be listed in the other
order: the delaying queue hands over its heap root first, `simulate` lists `false` first).  So the theorems
above the line (`reconcile_spacing`, `reconcile_liveness`, `reconcile_coalesce`, …) are statements about
`simulateD … (durations 0)`. -/
theorem simulateD_zero (lim : Limiter) (durs : List Int) (hd : ∀ d, d ∈ durs → d ≤ 0)
    (evs : List (Int × Bool)) (b : Bool) :
    runsOf b (simulateD lim forgetId durs evs) = runsOf b (simulate lim evs) := by
  have h0 : ZInv ({ durs := durs } : StD) := ⟨⟨rfl, rfl, hd⟩, fun _ => rfl⟩
  have h1 := flushD_zinv _ (foldl_arriveD_zinv lim evs _ h0)
  unfold simulateD simulate runAllD
  rw [runsOf_rev, runsOf_rev, h1.2 b, flushD_q, foldl_arriveD_q]
  rfl

/-- both kinds of item, instantaneous runs: spacing transfers -/
theorem reconcile_spacing_zero {δ w : Int} (hδ : 0 < δ) (hw : 0 ≤ w) (c : Int) (evs : List (Int × Bool))
    (hs : Sorted c evs) (durs : List Int) (hd : ∀ d, d ∈ durs → d ≤ 0) (b : Bool) :
    (runsOf b (simulateD (ingressWhen δ w) forgetId durs evs)).Pairwise (fun a r => a + δ ≤ r) := by
  rw [simulateD_zero _ durs hd]
  exact reconcile_spacing hδ hw c evs hs b

/-- **no extra runs, whatever the durations** — for EVERY limiter, arrival pattern (both kinds of item) and
assignment of run durations (also `d ≥ interval`): the worker never starts more runs of a kind than there
were notifications of that kind (coalescing in the delaying queue, the dirty set and the FIFO never
duplicates). This is the clause judged outside the `judged` domain. -/
theorem no_extra_runs (lim : Limiter) (durs : List Int) (evs : List (Int × Bool)) (b : Bool) :
    (runsOf b (simulateD lim forgetId durs evs)).length ≤ (runsOf b evs).length := by
  have h0 : EInv ({ durs := durs } : StD) [] :=
    ⟨⟨fun _ => rfl, fun b => by simp [cntW, runsOf]⟩, fun b => by simp [runsOf]⟩
  have h1 := flushD_einv (foldl_arriveD_einv lim evs _ _ h0) b
  unfold simulateD runAllD
  rw [runsOf_rev, List.length_reverse]
  simpa [runsOf_rev] using h1

/-- link to the executable clause -/
theorem noExtra_simulateD (lim : Limiter) (durs : List Int) (evs : List (Int × Bool)) (b : Bool) :
    noExtra evs (simulateD lim forgetId durs evs) b = true := by
  simpa [noExtra] using no_extra_runs lim durs evs b

/-- **seeded variant C13e** (`Forget` re-bases `last` on the end of the run): a notification DURING a reload
on two consecutive reloads (interval 10, reloads take 5): the scheduled slot 20 is forgotten, reloads start
at 0, 10 and **15**. The code that exists (`forgetId`) starts them at 0, 10, 20. No tie is involved. -/
theorem forget_now_breaks_spacing :
    simulateD (reloadWhen 10) forgetNow [5, 5] [(0, false), (1, false), (11, false)]
        = [(0, false), (10, false), (15, false)]
    ∧ spaced 10 (runsOf false (simulateD (reloadWhen 10) forgetNow [5, 5] [(0, false), (1, false), (11, false)])) = false
    ∧ simulateD (reloadWhen 10) forgetId [5, 5] [(0, false), (1, false), (11, false)]
        = [(0, false), (10, false), (20, false)]
    ∧ judged 10 [5, 5] [(0, false), (1, false), (11, false)] = true
    ∧ (flushD forgetNow (runAllD (reloadWhen 10) forgetNow [5, 5] [(0, false), (1, false), (11, false)])).tie = false := by
  decide

/-- **observation on the code that exists, outside the property's quantifier (run durations)**: the FULL
statement `reload_spacing_dur` without `d < i` is false. A reload longer than the interval (15 > 10): the
item becomes ready at 10 while it is processed, is re-queued at `Done` and starts at 15, but the limiter's
`last` is still 10, so the next notification (16) is scheduled for 20: starts 0, 15, **20**.
Replayed on the real code: `C13 reloadd 10000000000 15000000000 0,1000000000,16000000000`. -/
theorem long_run_breaks_spacing :
    simulateD (reloadWhen 10) forgetId [15] [(0, false), (1, false), (16, false)]
        = [(0, false), (15, false), (20, false)]
    ∧ spaced 10 (runsOf false (simulateD (reloadWhen 10) forgetId [15] [(0, false), (1, false), (16, false)])) = false
    ∧ judged 10 [15] [(0, false), (1, false), (16, false)] = false := by
  decide

/-- **observation on the code that exists, outside the property's quantifier (run durations)**: the two
kinds of reconciliation share ONE worker and ONE limiter. Both are due at 10; the partial one runs first and
takes 3, the full one starts at 13, and its next slot is still 20: full syncs start 7 apart (interval 10).
`reconcile_spacing_dur` therefore needs "one kind" (or instantaneous runs, `reconcile_spacing_zero`).
Replayed on the real code: `C13 ingressd 10000000000 0 0,3000000000 0:p,1000000000:p,2000000000:f,14000000000:f`. -/
theorem other_kind_run_breaks_spacing :
    simulateD (ingressWhen 10 0) forgetId [0, 3] [(0, false), (1, false), (2, true), (14, true)]
        = [(0, false), (10, false), (13, true), (20, true)]
    ∧ spaced 10 (runsOf true (simulateD (ingressWhen 10 0) forgetId [0, 3] [(0, false), (1, false), (2, true), (14, true)])) = false
    ∧ judged 10 [0, 3] [(0, false), (1, false), (2, true), (14, true)] = false := by
  decide

/-- non-vacuity: the hypotheses of `simulateD_single` are satisfiable by a pattern in which a notification
arrives while a reload is running, and the conclusion is not trivial (three starts) -/
example : Sorted 0 [(0, false), (1, false), (11, false)] ∧ (∀ e, e ∈ [(0, false), (1, false), (11, false)] → e.2 = false)
    ∧ (∀ d, d ∈ [5, 5] → d < (10 : Int)) := by
  refine ⟨by simp [Sorted], by simp, by decide⟩
example : simulateD (ingressWhen 10 0) forgetId [5, 5] [(0, false), (1, false), (11, false)]
    = [(0, false), (10, false), (20, false)] := by decide
/-- an item added while it is processed is re-queued at `Done` (dirty), another item waits in the FIFO -/
example : simulateD (reloadWhen 10) forgetId [25] [(0, false), (1, false), (12, false)]
    = [(0, false), (25, false)] := by decide
example : simulateD (ingressWhen 10 0) forgetId [0, 7, 2] [(0, false), (1, true), (2, false)]
    = [(0, false), (10, true), (17, false)] := by decide

end HapVerif.C13
