import HapVerif.Lemmas.C13
import HapVerif.Generated.Facts
/-!
# C13 — rate limits: spacing, coalescing, liveness

Model: `HapVerif.C13.simulate lim evs` — the real limiter functions (`reloadWhen`,
`ingressWhen`) driving client-go's delaying queue ("earliest deadline per item").
Arrival patterns `evs : List (time × item)` are arbitrary (any length, any gaps), sorted
by time.  `item = false/true` is partial/full reconciliation; the reload queue uses one item.
-/
namespace HapVerif.C13

/-- arrival times are non-decreasing, starting at or after `c` -/
def Sorted : Int → List (Int × Bool) → Prop
  | _, [] => True
  | c, e :: es => c ≤ e.1 ∧ Sorted e.1 es

theorem runAll_inv {δ w : Int} (hδ : 0 < δ) (hw : 0 ≤ w) :
    ∀ (evs : List (Int × Bool)) (s : St) (c : Int) (done : List (Int × Bool)),
      Inv δ w s c c done → Sorted c evs →
      ∃ c', Inv δ w (evs.foldl (fun s e => arrive (ingressWhen δ w) s e.1 e.2) s) c' c' (evs.reverse ++ done) := by
  intro evs
  induction evs with
  | nil => intro s c done h _; exact ⟨c, by simpa using h⟩
  | cons e es ih =>
    intro s c done h hs
    obtain ⟨h1, h2⟩ := hs
    have := arrive_inv e.2 h h1 hδ hw
    obtain ⟨c', hc'⟩ := ih _ _ _ this h2
    refine ⟨c', ?_⟩
    simpa [List.foldl_cons, List.reverse_cons, List.append_assoc] using hc'

theorem fire_nopend (s : St) (t : Int) (h : ∀ b, s.pend b = none) : fire s t = s := by
  unfold fire fire1
  simp [h]

theorem fire1_clears (s : St) (t : Int) (b : Bool) (d : Int) (h : s.pend b = some d) (hd : d ≤ t) :
    (fire1 s t b).pend b = none := by
  unfold fire1; simp [h, hd, setPend]

theorem fire1_pend_self (s : St) (t : Int) (b : Bool) (d : Int)
    (h : (fire1 s t b).pend b = some d) : s.pend b = some d ∧ t < d := by
  unfold fire1 at h
  cases hs : s.pend b with
  | none => rw [hs] at h; simp only at h; rw [hs] at h; cases h
  | some e =>
    rw [hs] at h; simp only at h
    by_cases he : e ≤ t
    · simp only [he, if_true, setPend_same] at h; cases h
    · simp only [he, if_false] at h; rw [hs] at h; cases h; exact ⟨rfl, by omega⟩

theorem fire1_pend_other (s : St) (t : Int) (b x : Bool) (hx : x ≠ b) :
    (fire1 s t b).pend x = s.pend x := by
  unfold fire1
  cases hs : s.pend b with
  | none => rfl
  | some e =>
    simp only
    by_cases he : e ≤ t
    · simp only [he, if_true]; exact setPend_other _ _ _ _ hx
    · simp only [he, if_false]

theorem fire_pend (s : St) (t : Int) (b : Bool) (d : Int) (h : (fire s t).pend b = some d) :
    s.pend b = some d ∧ t < d := by
  unfold fire at h
  cases b
  · rw [fire1_pend_other _ _ _ _ (by decide)] at h; exact fire1_pend_self s t false d h
  · have := fire1_pend_self _ t true d h
    rw [fire1_pend_other _ _ _ _ (by decide)] at this; exact this

theorem flush_inv {δ w : Int} {s : St} {c : Int} {done : List (Int × Bool)} (hw : 0 ≤ w)
    (h : Inv δ w s c c done) :
    ∃ c', Inv δ w (flush s) c' c' done ∧ ∀ b, (flush s).pend b = none := by
  unfold flush
  simp only
  generalize hm : max ((s.pend false).getD 0) ((s.pend true).getD 0) = m
  have hle : ∀ x e, s.pend x = some e → e ≤ m := by
    intro x e hx; cases x <;> simp [hx] at hm <;> omega
  have hnone : ∀ b, (fire s m).pend b = none := by
    intro b
    cases hb : (fire s m).pend b with
    | none => rfl
    | some d =>
      obtain ⟨h1, h2⟩ := fire_pend s m b d hb
      have := hle b d h1; omega
  by_cases hn : ∀ b, s.pend b = none
  · rw [fire_nopend s m hn]; exact ⟨c, h, hn⟩
  · have hcm : c ≤ m := by
      have : ∃ b d, s.pend b = some d := by
        false_or_by_contra
        rename_i hc
        apply hn; intro b
        cases hb : s.pend b with
        | none => rfl
        | some d => exact absurd ⟨b, d, hb⟩ hc
      obtain ⟨b, d, hb⟩ := this
      have h1 := (h.pendLast b d hb).2
      have := hle b d hb; omega
    exact ⟨m, fire_inv h hcm hw, hnone⟩

theorem runsOf_reverse (b : Bool) (l : List (Int × Bool)) :
    runsOf b l.reverse = (runsOf b l).reverse := by
  simp [runsOf, List.filter_reverse, List.map_reverse]

/-- final state reached from the empty queue -/
theorem final_inv {δ w : Int} (hδ : 0 < δ) (hw : 0 ≤ w) (c : Int) (evs : List (Int × Bool))
    (hs : Sorted c evs) :
    ∃ c', Inv δ w (flush (runAll (ingressWhen δ w) evs)) c' c' evs.reverse ∧
      ∀ b, (flush (runAll (ingressWhen δ w) evs)).pend b = none := by
  obtain ⟨c1, h1⟩ := runAll_inv hδ hw evs {} c [] (inv_init δ w c) hs
  simp only [List.append_nil] at h1
  exact flush_inv hw h1

/-- **spacing** — reconciliations of one kind are never closer than `δ = 1/rate-limit-update`,
for every arrival pattern and every `wait-before-update ≥ 0`. -/
theorem reconcile_spacing {δ w : Int} (hδ : 0 < δ) (hw : 0 ≤ w) (c : Int)
    (evs : List (Int × Bool)) (hs : Sorted c evs) (b : Bool) :
    (runsOf b (simulate (ingressWhen δ w) evs)).Pairwise (fun a r => a + δ ≤ r) := by
  obtain ⟨c', h, _⟩ := final_inv hδ hw c evs hs
  unfold simulate
  rw [runsOf_reverse, List.pairwise_reverse]
  exact h.spaced b

/-- **spacing** — two reloads issued through the reload queue are never closer than
`--reload-interval`, for every arrival pattern. -/
theorem reload_spacing {i : Int} (hi : 0 < i) (c : Int) (evs : List (Int × Bool))
    (hs : Sorted c evs) (b : Bool) :
    (runsOf b (simulate (reloadWhen i) evs)).Pairwise (fun a r => a + i ≤ r) := by
  rw [reloadWhen_eq]; exact reconcile_spacing hi (Int.le_refl 0) c evs hs b

/-- **liveness** — every notification `(t, b)` is followed by a run of `b` at some `r ≥ t` that
is either within `wait-before-update` of the notification or exactly `δ` after an actual
earlier run (i.e. as early as the rate limit allows). -/
theorem reconcile_liveness {δ w : Int} (hδ : 0 < δ) (hw : 0 ≤ w) (c : Int)
    (evs : List (Int × Bool)) (hs : Sorted c evs) (t : Int) (b : Bool) (hm : (t, b) ∈ evs) :
    ∃ r, (r, b) ∈ simulate (ingressWhen δ w) evs ∧ t ≤ r ∧
      (r ≤ t + w ∨ ∃ p b', (p, b') ∈ simulate (ingressWhen δ w) evs ∧ r = p + δ) := by
  obtain ⟨c', h, hn⟩ := final_inv hδ hw c evs hs
  rcases h.served t b (by simpa using hm) with ⟨r, hr, h1, h2⟩ | ⟨d, hd, _⟩
  · refine ⟨r, by unfold simulate; simpa using hr, h1, ?_⟩
    rcases h2 with h2 | ⟨p, b', hp, e⟩
    · exact Or.inl h2
    · exact Or.inr ⟨p, b', by unfold simulate; simpa using hp, e⟩
  · rw [hn b] at hd; cases hd

theorem reload_liveness {i : Int} (hi : 0 < i) (c : Int)
    (evs : List (Int × Bool)) (hs : Sorted c evs) (t : Int) (b : Bool) (hm : (t, b) ∈ evs) :
    ∃ r, (r, b) ∈ simulate (reloadWhen i) evs ∧ t ≤ r ∧
      (r ≤ t ∨ ∃ p b', (p, b') ∈ simulate (reloadWhen i) evs ∧ r = p + i) := by
  rw [reloadWhen_eq]
  simpa using reconcile_liveness hi (Int.le_refl 0) c evs hs t b hm

/-- **coalescing** — a notification arriving while a run of its kind is pending creates no extra
run: there are never more runs than notifications. -/
theorem reconcile_coalesce {δ w : Int} (hδ : 0 < δ) (hw : 0 ≤ w) (c : Int)
    (evs : List (Int × Bool)) (hs : Sorted c evs) (b : Bool) :
    (runsOf b (simulate (ingressWhen δ w) evs)).length ≤ (runsOf b evs).length := by
  obtain ⟨c', h, hn⟩ := final_inv hδ hw c evs hs
  have := h.count b
  rw [hn b, runsOf_reverse] at this
  unfold simulate
  rw [runsOf_reverse]
  simpa using this

/-- an arrival at `t` while item `b` is pending for `d > t` leaves the deadline unchanged and
adds no run (the step-level form of coalescing) -/
theorem arrive_pending_noop {δ w : Int} {s : St} {c t : Int} {done : List (Int × Bool)} (b : Bool)
    (h : Inv δ w s c c done) (hle : c ≤ t) (d : Int) (hp : s.pend b = some d)
    (hd : t < d) (hother : ∀ x e, s.pend x = some e → t < e) :
    (arrive (ingressWhen δ w) s t b).pend b = some d ∧ (arrive (ingressWhen δ w) s t b).runs = s.runs := by
  have hl := (h.pendLast b d hp).1
  have hfire : fire s t = s := by
    unfold fire fire1
    cases hf : s.pend false with
    | none =>
      cases ht : s.pend true with
      | none => simp [ht]
      | some e => have := hother true e ht; simp [ht]; omega
    | some e =>
      have h1 := hother false e hf
      have : ¬ e ≤ t := by omega
      simp only [this, if_false]
      cases ht : s.pend true with
      | none => simp
      | some e' => have := hother true e' ht; simp; omega
  unfold arrive
  simp only [hfire, hl, ingressWhen]
  have : d > t := hd
  simp only [this, if_true]
  have h0 : ¬ d - t ≤ 0 := by omega
  simp only [h0, if_false, setPend_same, hp, minOpt]
  constructor
  · congr 1; split <;> omega
  · trivial

/-- link to the executable oracle used on the implementation's timestamps -/
theorem spaced_of_pairwise (δ : Int) : ∀ l : List Int, l.Pairwise (fun a r => a + δ ≤ r) → spaced δ l = true
  | [], _ => rfl
  | [_], _ => rfl
  | a :: b :: rest, h => by
    simp only [spaced, Bool.and_eq_true, decide_eq_true_eq]
    cases h with
    | cons h1 h2 => exact ⟨h1 b List.mem_cons_self, spaced_of_pairwise δ (b :: rest) h2⟩

/-- the limiter before the repair violates spacing: arrivals at 0, 5, 11 with interval 10
reload at 0, 10 and 11 (the replay that was confirmed on the unrepaired Go code) -/
theorem old_limiter_violates :
    simulate (reloadWhenOld 10) [(0, false), (5, false), (11, false)] = [(0, false), (10, false), (11, false)]
    ∧ spaced 10 (runsOf false (simulate (reloadWhenOld 10) [(0, false), (5, false), (11, false)])) = false := by
  decide

/-- advancing `last` without the "already scheduled" test breaks liveness instead: a burst pushes the
next slot away (0,5,7,11 → the request at 11 waits until 30 although 20 was allowed) -/
def reloadWhenNaive (interval : Int) : Limiter := fun last now =>
  match last with
  | none => (some now, 0)
  | some l => if l + interval < now then (some now, 0) else (some (l + interval), l + interval - now)

theorem naive_limiter_starves :
    simulate (reloadWhenNaive 10) [(0, false), (5, false), (7, false), (11, false)]
      = [(0, false), (10, false), (30, false)] := by decide

/-- regenerated from the Go source: both `When` methods run under the limiter's mutex (the model
treats a call as one atomic step) -/
theorem facts_c13 :
    "r.mu.Lock" ∈ Facts.c13ReloadWhenCalls ∧ "r.mu.Unlock" ∈ Facts.c13ReloadWhenCalls ∧
    "r.mu.Lock" ∈ Facts.c13IngressWhenCalls ∧ "r.mu.Unlock" ∈ Facts.c13IngressWhenCalls := by decide

/-- non-vacuity: the repaired limiter on the same patterns -/
example : simulate (reloadWhen 10) [(0, false), (5, false), (11, false)] = [(0, false), (10, false), (20, false)] := by decide
example : simulate (reloadWhen 10) [(0, false), (5, false), (7, false), (11, false)] = [(0, false), (10, false), (20, false)] := by decide
example : Sorted 0 [(0, false), (5, true), (11, false)] := by simp [Sorted]

end HapVerif.C13
