import HapVerif.Model.C15Run
import HapVerif.Lemmas.C15Run
import HapVerif.Props.C15
import HapVerif.Generated.Facts
/-!
# C15 — the certificate the RUNNING HAProxy presents, for all histories

`Props/C15.lean` proves that the FILES of a reconciliation select, for every SNI name, the certificate the cluster
state declares (`sni_spec`).  This file adds the running side (`Model/C15Run.lean`): a long-lived controller reloads
HAProxy or replaces certificates in memory (`set ssl cert <file>`), and HAProxy presents what it holds in memory for
the file its LOADED crt-list selects.

Theorems, for ALL histories (a first reconciliation of any cluster state, then any number of reconciliations ending in
any cluster states, each one with or without another reason for a reload) and every memo of the update whose key
determines the certificate file (`PathDet`; the code has no memo: `perHost`; one command per file: `byPath`):

* `running_eq_disk`: after every reconciliation the running HAProxy looks names up in the crt-list that is on disk
  (path level) and holds for the file of every line the content that file has on disk (`Inv`);
* `served_running_files`: it presents, for every name, the content of the certificate the files select;
* `served_running_spec`: … which is the content of the certificate the cluster state declares for the name
  (`C15.specCrt`), else default — the property, at the socket;
* `running_rotation_exact`: a reconciliation that replaces the content of one Secret moves exactly the names served
  with that Secret (`C15.rot`), whatever the history before and whether or not HAProxy reloads;
* `push_complete`: within one update every changed FILE ends with its new content.

Witness (kernel-checked): `content_keyed_memo_leaves_file_stale` — a memo keyed by the certificate HASH (`byContent`)
is not `PathDet`: two Secrets holding the same certificate, both replaced with the same new content in one batch: one
file is pushed, the other is answered by the memo, no reload: the hosts of the second Secret are presented the old
certificate although files and crt-list are right.
-/
namespace HapVerif.C15.Run
open HapVerif.Sync List
open HapVerif.C04 (Str)

/-- the code (no memo) and the per-file memo push every changed file -/
theorem code_memo_pathDet : PathDet perHost ∧ PathDet byPath := ⟨perHost_pathDet, byPath_pathDet⟩

/-- **push_complete**: one update, any list of host changes with one content per file, any memo whose key determines
the file: every changed file that HAProxy has loaded ends with the content of its change, every other file is
untouched. -/
theorem push_complete {memo : Memo} (hm : PathDet memo) (mem : Files) (cs : List Chg) (hc : Coherent cs) :
    (∀ e ∈ cs, Files.has mem e.path = true → (pushAll memo mem cs).mem.get e.path = some e.content) ∧
    (∀ p, (∀ c ∈ cs, c.path ≠ p) → (pushAll memo mem cs).mem.get p = Files.get mem p) :=
  ⟨fun _ he hh => pushAll_sets hm hc he hh, fun p h => pushAll_untouched memo mem cs p h⟩

theorem foldl_next_inv {memo : Memo} (hm : PathDet memo) : ∀ (ys : List Sync) (s : RState × Cfg) (w : World),
    Inv s.1 s.2 → s.2 = fullSync w →
    Inv (ys.foldl (next memo) s).1 (ys.foldl (next memo) s).2 ∧
      (ys.foldl (next memo) s).2 = fullSync (ys.foldl (fun _ y => y.w) w)
  | [], _, _, hi, hw => ⟨hi, hw⟩
  | y :: t, s, _, hi, _ => by
    rw [foldl_cons, foldl_cons]
    exact foldl_next_inv hm t (next memo s y) y.w (inv_step hm hi (coh_fullSync y.w) y.forced) rfl

/-- **running_eq_disk**: after every reconciliation of every history the running HAProxy is in step with the files
of the full sync of the current cluster state -/
theorem running_eq_disk {memo : Memo} (hm : PathDet memo) (w0 : World) (ys : List Sync) :
    Inv (runHist memo w0 ys).1 (fullSync (lastWorld w0 ys)) := by
  have := foldl_next_inv hm ys (start w0) w0 (inv_reload (coh_fullSync w0)) rfl
  unfold runHist lastWorld
  rw [← this.2]
  exact this.1

/-- **served_running_files**: the running HAProxy presents, for every name, the content of the certificate that the
files on disk select (no hypothesis on the cluster states) -/
theorem served_running_files {memo : Memo} (hm : PathDet memo) (w0 : World) (ys : List Sync) (sni : Str) :
    servedRun (runHist memo w0 ys).1 sni = some (contentOf (served (lastWorld w0 ys) sni)) :=
  served_of_inv (running_eq_disk hm w0 ys) sni

/-- **served_running_spec** (full strength): after every reconciliation of every history, every SNI name is presented
the content of the certificate its Ingress declares, else default (`C15.specCrt` of the current cluster state) -/
theorem served_running_spec {memo : Memo} (hm : PathDet memo) (w0 : World) (ys : List Sync)
    (wt : WFTls (lastWorld w0 ys) = true) (wh : WFHosts (lastWorld w0 ys) = true) {sni : Str}
    (hs : WFSni sni = true) :
    servedRun (runHist memo w0 ys).1 sni = some (contentOf (specCrt (lastWorld w0 ys) sni)) := by
  rw [served_running_files hm, sni_spec wt wh hs]

theorem lastWorld_append (w0 : World) (ys : List Sync) (y : Sync) : lastWorld w0 (ys ++ [y]) = y.w := by
  unfold lastWorld
  rw [foldl_append]
  rfl

/-- **running_rotation_exact**: a reconciliation that ends with the content of Secret `ns/name` replaced (version `v`)
changes what the running HAProxy presents exactly as `C15.rot` says — the names served with that Secret get the new
content, every other name keeps its certificate — after any history, with or without reload -/
theorem running_rotation_exact {memo : Memo} (hm : PathDet memo) (w0 : World) (ys : List Sync) (ns name : Str)
    (v : Nat) (forced : Bool) (wt : WFTls (lastWorld w0 ys) = true) (wh : WFHosts (lastWorld w0 ys) = true)
    {sni : Str} (hs : WFSni sni = true) :
    servedRun (runHist memo w0 (ys ++ [⟨setSecretVersion (lastWorld w0 ys) ns name v, forced⟩])).1 sni =
      some (contentOf (rot ns name v (served (lastWorld w0 ys) sni))) := by
  rw [served_running_files hm, lastWorld_append, rotation_exact wt wh ns name v hs]

/-! ## witnesses -/

def s (x : String) : Str := x.toList

/-- one certificate replicated into `d/tls1` and `e/tls1` (content version `v`), each used by its own host -/
def wRepl (v : Nat) : World :=
  { ings := [
      { ns := s "d", name := s "r1", created := 1, valid := true,
        rules := [⟨s "a.local", []⟩], tls := [⟨[s "a.local"], s "tls1"⟩] },
      { ns := s "e", name := s "r2", created := 2, valid := true,
        rules := [⟨s "c.local", []⟩], tls := [⟨[s "c.local"], s "tls1"⟩] } ],
    secs := [⟨s "d", s "tls1", true, v⟩, ⟨s "e", s "tls1", true, v⟩] }

example : WFTls (wRepl 1001) = true ∧ WFHosts (wRepl 1001) = true ∧ WFSni (s "c.local") = true := by decide +kernel

/-- the two files have equal content, before and after -/
example : contentOf (served (wRepl 1000) (s "a.local")) = contentOf (served (wRepl 1000) (s "c.local")) ∧
    pathOf (served (wRepl 1000) (s "a.local")) ≠ pathOf (served (wRepl 1000) (s "c.local")) := by decide +kernel

/-- the code (no memo): both copies replaced in one batch, nothing else: both FILES are pushed, no reload, both hosts
are presented the new certificate (non-vacuity of `served_running_spec`: a dynamic step that pushes) -/
theorem both_files_pushed :
    (step perHost (start (wRepl 1000)).1 (fullSync (wRepl 1000)) (fullSync (wRepl 1001)) false).reloaded = false ∧
    (step perHost (start (wRepl 1000)).1 (fullSync (wRepl 1000)) (fullSync (wRepl 1001)) false).pushed =
      [.sec (s "d") (s "tls1"), .sec (s "e") (s "tls1")] ∧
    servedRun (runHist perHost (wRepl 1000) [⟨wRepl 1001, false⟩]).1 (s "a.local") = some (.shared 1001) ∧
    servedRun (runHist perHost (wRepl 1000) [⟨wRepl 1001, false⟩]).1 (s "c.local") = some (.shared 1001) := by
  decide +kernel

example : servedRun (runHist perHost (wRepl 1000) [⟨wRepl 1001, false⟩]).1 (s "c.local") =
    some (contentOf (specCrt (lastWorld (wRepl 1000) [⟨wRepl 1001, false⟩]) (s "c.local"))) :=
  served_running_spec perHost_pathDet _ _ (by decide +kernel) (by decide +kernel) (by decide +kernel)

/-- **content_keyed_memo_leaves_file_stale**: the memo keyed by the certificate hash sends ONE command (the file of
`d/tls1`), accepts the update without reload, and `c.local` — whose Secret `e/tls1` holds the new content, whose file
and crt-list line are right — is still presented the old certificate; the property is violated at the socket only -/
theorem content_keyed_memo_leaves_file_stale :
    (step byContent (start (wRepl 1000)).1 (fullSync (wRepl 1000)) (fullSync (wRepl 1001)) false).reloaded = false ∧
    (step byContent (start (wRepl 1000)).1 (fullSync (wRepl 1000)) (fullSync (wRepl 1001)) false).pushed =
      [.sec (s "d") (s "tls1")] ∧
    servedRun (runHist byContent (wRepl 1000) [⟨wRepl 1001, false⟩]).1 (s "a.local") = some (.shared 1001) ∧
    servedRun (runHist byContent (wRepl 1000) [⟨wRepl 1001, false⟩]).1 (s "c.local") = some (.shared 1000) ∧
    contentOf (specCrt (wRepl 1001) (s "c.local")) = .shared 1001 ∧
    contentOf (served (wRepl 1001) (s "c.local")) = .shared 1001 := by
  decide +kernel

/-- … and that memo is indeed outside the hypothesis of the theorems -/
theorem byContent_not_pathDet : ¬ PathDet byContent := by
  intro h
  have := h ⟨[], .sec (s "d") (s "tls1"), .shared 1001⟩ ⟨[], .sec (s "e") (s "tls1"), .shared 1001⟩ (by decide +kernel)
  exact absurd this (by decide +kernel)

/-- the same batch with a reload forced by something else: the memo does not matter -/
example : servedRun (runHist byContent (wRepl 1000) [⟨wRepl 1001, true⟩]).1 (s "c.local") = some (.shared 1001) := by
  decide +kernel

/-- rotated one by one (two reconciliations) the content-keyed memo is harmless: the defect needs one batch -/
example :
    servedRun (runHist byContent (wRepl 1000)
      [⟨setSecretVersion (wRepl 1000) (s "d") (s "tls1") 1001, false⟩, ⟨wRepl 1001, false⟩]).1 (s "c.local") =
      some (.shared 1001) := by
  decide +kernel

/-- regenerated from the Go source: `checkHostPair` pushes the file of every host pair with the same file and another
hash — nothing else guards the push, the updater has no field that remembers what was sent — and `set ssl cert` /
`commit ssl cert` name the file -/
theorem facts_c15_run :
    Facts.c15CertPushGuard = ["curHost.TLS.HasTLS()&&oldHost.TLS.TLSHash!=curHost.TLS.TLSHash&&oldHost.TLS.TLSFilename==curHost.TLS.TLSFilename&&!d.execUpdateCert(curHost.Hostname,curHost.TLS.TLSFilename)"] ∧
    Facts.c15CertPushCalls = ["d.execUpdateCert(curHost.Hostname,curHost.TLS.TLSFilename)"] ∧
    Facts.c15UpdaterFields = ["logger", "config", "socket", "cmdCnt", "metrics"] ∧
    Facts.c15SetSSLCertFormats = ["\"set ssl cert %s <<\\n%s\\n\"", "\"commit ssl cert %s\""] := ⟨rfl, rfl, rfl, rfl⟩

end HapVerif.C15.Run
