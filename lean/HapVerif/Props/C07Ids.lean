import HapVerif.Model.C07Ids
import HapVerif.Generated.Facts
import Mathlib.Data.List.Perm.Subperm
import Mathlib.Data.List.Nodup
import Mathlib.Data.List.Pairwise
/-!
# C07 (part) — `server ... id <n>` of `assign-backend-server-id: "true"` never repeats inside a backend

Model: `HapVerif.C07.Ids` (Model/C07Ids.lean) = `syncBackendEndpointHashes` of pkg/converters/ingress/ingress.go:
FNV-1a 32 of the pod UID cut to 31 bits, linear probing modulo 2^31 over the ids already used in the backend,
0 skipped, endpoints taken in TargetRef order.  For EVERY backend (any number of endpoints below 2^31, any
hashes, unreadable pods, endpoints without TargetRef, any order of the listing):

* `probe_spec`      the probing loop ends within |used| + 2 iterations (pigeonhole `exists_free`) on the FIRST
                    value in probing order that is neither 0 nor used; `probe_free` : result ≠ 0, ∉ used, < 2^31
* `assignSorted_inv` invariant of the loop over the endpoints
* `ids_distinct` / `ids_pairwise`  two different endpoints never carry the same written id
* `ids_range`       every id is < 2^31 (and `ids_zero_iff`: it is 0 exactly for the endpoints without TargetRef,
                    for which the template writes no `id`)
* `oracle_ids`      the Spec the driver evaluates on the implementation's output holds on the model's output
* `assign_stable`   the ids are a function of the multiset of (TargetRef, pod) only: listing order and
                    therefore the run do not matter (`sorted_unique`, `assign_eq_byRef`)
* `seeded_*`        kernel-checked witnesses that resolving collisions on the UNTRUNCATED 32 bit value and masking
                    only the value written (seed C07f) writes one id twice
* `facts_c07ids`    the statement shape of the Go function, regenerated from the source on every run

The translated Go function (Generated/CodeC07.lean, to come) is to be tied to `assignSorted []` on the endpoints
in TargetRef order (loop body = `probe used (fuelFor used) (start src)` without fuel).
-/
namespace HapVerif.C07.Ids

theorem free_iff {used : List Nat} {h : Nat} : free used h = true ↔ h ≠ 0 ∧ h ∉ used := by
  simp [free]

/-- the i-th value the loop looks at when it starts at `h` -/
def nth (h i : Nat) : Nat := (h + i) % M

theorem nth_zero {h : Nat} (hh : h < M) : nth h 0 = h := by simp [nth, Nat.mod_eq_of_lt hh]

theorem nth_succ (h i : Nat) : nth h (i + 1) = nth (next h) i := by
  simp only [nth, next]; rw [Nat.mod_add_mod]; congr 1; omega

theorem next_lt (h : Nat) : next h < M := Nat.mod_lt _ (by decide)

/-- the loop returns the FIRST free value in probing order, if there is one within the fuel -/
theorem probe_first (used : List Nat) : ∀ (fuel h : Nat), h < M →
    (∃ i, i < fuel ∧ free used (nth h i) = true) →
    ∃ i, i < fuel ∧ probe used fuel h = nth h i ∧ free used (nth h i) = true ∧
      ∀ j, j < i → free used (nth h j) = false := by
  intro fuel
  induction fuel with
  | zero => intro h _ ⟨i, hi, _⟩; omega
  | succ fuel ih =>
    intro h hh ⟨i, hi, hf⟩
    by_cases h0 : free used h = true
    · refine ⟨0, by omega, ?_, ?_, ?_⟩
      · simp [probe, h0, nth_zero hh]
      · simpa [nth_zero hh] using h0
      · intro j hj; omega
    · cases i with
      | zero => rw [nth_zero hh] at hf; exact absurd hf h0
      | succ i =>
        rw [nth_succ] at hf
        obtain ⟨k, hk, hp, hfk, hmin⟩ := ih (next h) (next_lt h) ⟨i, by omega, hf⟩
        refine ⟨k + 1, by omega, ?_, ?_, ?_⟩
        · simp only [probe, h0]; rw [nth_succ]; simpa using hp
        · rw [nth_succ]; exact hfk
        · intro j hj
          cases j with
          | zero => rw [nth_zero hh]; simpa using h0
          | succ j => rw [nth_succ]; exact hmin j (by omega)

theorem nth_inj {h i j : Nat} (hi : i < M) (hj : j < M) (e : nth h i = nth h j) : i = j := by
  simp only [nth, M] at e hi hj
  omega

/-- pigeonhole: among |used| + 2 consecutive values (mod 2^31) one is neither 0 nor used -/
theorem exists_free (used : List Nat) (h : Nat) (hn : used.length + 2 ≤ M) :
    ∃ i, i < used.length + 2 ∧ free used (nth h i) = true := by
  by_contra hc
  have hall : ∀ i, i < used.length + 2 → nth h i ∈ 0 :: used := by
    intro i hi
    have : ¬ free used (nth h i) = true := fun hf => hc ⟨i, hi, hf⟩
    rw [free_iff] at this
    by_cases h0 : nth h i = 0
    · simp [h0]
    · have : nth h i ∈ used := by
        by_contra hx; exact this ⟨h0, hx⟩
      exact List.mem_cons_of_mem _ this
  let w := (List.range (used.length + 2)).map (nth h)
  have hnd : w.Nodup := by
    refine List.Nodup.map_on ?_ List.nodup_range
    intro x hx y hy e
    rw [List.mem_range] at hx hy
    exact nth_inj (by omega) (by omega) e
  have hsub : w ⊆ 0 :: used := by
    intro x hx
    obtain ⟨i, hi, rfl⟩ := List.mem_map.1 hx
    exact hall i (List.mem_range.1 hi)
  have := (hnd.subperm hsub).length_le
  simp [w] at this

/-- the probing loop ends within |used| + 2 iterations with a value that is not 0 and not used -/
theorem probe_spec (used : List Nat) (h : Nat) (hh : h < M) (hn : used.length + 2 ≤ M) :
    ∃ i, i < fuelFor used ∧ probe used (fuelFor used) h = nth h i ∧
      free used (nth h i) = true ∧ ∀ j, j < i → free used (nth h j) = false :=
  probe_first used (fuelFor used) h hh (exists_free used h hn)

theorem probe_free (used : List Nat) (h : Nat) (hh : h < M) (hn : used.length + 2 ≤ M) :
    probe used (fuelFor used) h ≠ 0 ∧ probe used (fuelFor used) h ∉ used ∧
      probe used (fuelFor used) h < M := by
  obtain ⟨i, _, hp, hf, _⟩ := probe_spec used h hh hn
  rw [hp]; rw [free_iff] at hf
  exact ⟨hf.1, hf.2, Nat.mod_lt _ (by decide)⟩

theorem start_lt (s : Src) : start s < M := by
  cases s with
  | hash h => exact Nat.mod_lt _ (by decide)
  | err => decide


/-- two ids of one backend may be equal only when both are 0 (= not written) -/
def Apart (a b : Nat) : Prop := (a ≠ 0 ∨ b ≠ 0) → a ≠ b

theorem assignSorted_length : ∀ (eps : List Ep) (used : List Nat),
    (assignSorted used eps).length = eps.length := by
  intro eps
  induction eps with
  | nil => intro used; rfl
  | cons e es ih =>
    intro used
    cases hr : e.ref <;> simp [assignSorted, hr, ih]

/-- invariant of the loop over the endpoints -/
theorem assignSorted_inv : ∀ (eps : List Ep) (used : List Nat), used.length + eps.length + 1 ≤ M →
    (assignSorted used eps).Pairwise Apart ∧
      ∀ x ∈ assignSorted used eps, x ≠ 0 → x ∉ used ∧ x < M := by
  intro eps
  induction eps with
  | nil => intro used _; simp [assignSorted]
  | cons e es ih =>
    intro used hb
    simp only [List.length_cons] at hb
    cases hr : e.ref with
    | none =>
      obtain ⟨h1, h2⟩ := ih used (by omega)
      simp only [assignSorted, hr]
      refine ⟨List.pairwise_cons.2 ⟨?_, h1⟩, ?_⟩
      · intro b _ hb0 e0
        rcases hb0 with h | h
        · exact h rfl
        · exact h e0.symm
      · intro x hx hx0
        rcases List.mem_cons.1 hx with h | h
        · exact absurd h hx0
        · exact h2 x h hx0
    | some k =>
      obtain ⟨p0, pu, pm⟩ := probe_free used (start e.src) (start_lt _) (by omega)
      obtain ⟨h1, h2⟩ := ih (probe used (fuelFor used) (start e.src) :: used)
        (by simp only [List.length_cons]; omega)
      simp only [assignSorted, hr]
      refine ⟨List.pairwise_cons.2 ⟨?_, h1⟩, ?_⟩
      · intro b hbm _ e0
        have := (h2 b hbm (by rw [← e0]; exact p0)).1
        exact this (by rw [← e0]; exact List.mem_cons_self)
      · intro x hx hx0
        rcases List.mem_cons.1 hx with h | h
        · rw [h]; exact ⟨pu, pm⟩
        · have := h2 x h hx0
          exact ⟨fun hu => this.1 (List.mem_cons_of_mem _ hu), this.2⟩

/-- an endpoint without TargetRef keeps 0, an endpoint with TargetRef gets an id -/
theorem assignSorted_zero_iff : ∀ (eps : List Ep) (used : List Nat), used.length + eps.length + 1 ≤ M →
    ∀ p ∈ eps.zip (assignSorted used eps), (p.1.ref = none ↔ p.2 = 0) := by
  intro eps
  induction eps with
  | nil => intro used _ p hp; simp [assignSorted] at hp
  | cons e es ih =>
    intro used hb p hp
    simp only [List.length_cons] at hb
    cases hr : e.ref with
    | none =>
      simp only [assignSorted, hr, List.zip_cons_cons, List.mem_cons] at hp
      rcases hp with h | h
      · subst h; simp [hr]
      · exact ih used (by omega) p h
    | some k =>
      obtain ⟨p0, _, _⟩ := probe_free used (start e.src) (start_lt _) (by omega)
      simp only [assignSorted, hr, List.zip_cons_cons, List.mem_cons] at hp
      rcases hp with h | h
      · subst h; simp [hr, p0]
      · exact ih _ (by simp only [List.length_cons]; omega) p h


/-! ### from the order of assignment back to the order of the backend -/

theorem ins_perm {α : Type} (le : α → α → Bool) (a : α) : ∀ l : List α, (ins le a l).Perm (a :: l) := by
  intro l
  induction l with
  | nil => exact List.Perm.refl _
  | cons b t ih =>
    simp only [ins]
    split
    · exact List.Perm.refl _
    · exact (List.Perm.cons b ih).trans (List.Perm.swap a b t)

theorem isort_perm {α : Type} (le : α → α → Bool) : ∀ l : List α, (isort le l).Perm l := by
  intro l
  induction l with
  | nil => exact List.Perm.refl _
  | cons a t ih => exact (ins_perm le a _).trans (List.Perm.cons a ih)

theorem ins_sorted {α : Type} (le : α → α → Bool) (htr : ∀ a b c, le a b = true → le b c = true → le a c = true)
    (hto : ∀ a b, (le a b || le b a) = true) (a : α) :
    ∀ l : List α, l.Pairwise (fun x y => le x y = true) → (ins le a l).Pairwise (fun x y => le x y = true) := by
  intro l
  induction l with
  | nil => intro _; simp [ins]
  | cons b t ih =>
    intro hs
    obtain ⟨hb, ht⟩ := List.pairwise_cons.1 hs
    simp only [ins]
    split
    · rename_i hab
      refine List.pairwise_cons.2 ⟨?_, hs⟩
      intro x hx
      rcases List.mem_cons.1 hx with h | h
      · rw [h]; exact hab
      · exact htr a b x hab (hb x h)
    · rename_i hab
      have hba : le b a = true := by
        have := hto a b
        simp only [Bool.or_eq_true] at this
        rcases this with h | h
        · exact absurd h hab
        · exact h
      refine List.pairwise_cons.2 ⟨?_, ih ht⟩
      intro x hx
      rcases List.mem_cons.1 ((ins_perm le a t).mem_iff.1 hx) with h | h
      · rw [h]; exact hba
      · exact hb x h

theorem isort_sorted {α : Type} (le : α → α → Bool) (htr : ∀ a b c, le a b = true → le b c = true → le a c = true)
    (hto : ∀ a b, (le a b || le b a) = true) :
    ∀ l : List α, (isort le l).Pairwise (fun x y => le x y = true) := by
  intro l
  induction l with
  | nil => simp [isort]
  | cons a t ih => exact ins_sorted le htr hto a _ ih

theorem map_ins {α β : Type} (r : α → α → Bool) (s : β → β → Bool) (f : α → β)
    (h : ∀ a b, r a b = s (f a) (f b)) (a : α) : ∀ l : List α, (ins r a l).map f = ins s (f a) (l.map f) := by
  intro l
  induction l with
  | nil => rfl
  | cons b t ih =>
    simp only [ins, List.map_cons, h a b]
    split
    · rfl
    · simp [ih]

theorem map_isort {α β : Type} (r : α → α → Bool) (s : β → β → Bool) (f : α → β)
    (h : ∀ a b, r a b = s (f a) (f b)) : ∀ l : List α, (isort r l).map f = isort s (l.map f) := by
  intro l
  induction l with
  | nil => rfl
  | cons a t ih => simp only [isort, List.map_cons, map_ins r s f h, ih]

theorem sortEps_perm (eps : List Ep) : (sortEps eps).Perm eps.zipIdx := isort_perm _ _

theorem sortEps_length (eps : List Ep) : (sortEps eps).length = eps.length := by
  rw [(sortEps_perm eps).length_eq, List.length_zipIdx]

/-- every endpoint is visited exactly once -/
theorem sortEps_positions (eps : List Ep) : ((sortEps eps).map (·.2)).Perm (List.range eps.length) := by
  have := (sortEps_perm eps).map (·.2)
  rwa [List.zipIdx_map_snd, ← List.range_eq_range'] at this

theorem lookup_mem {l : List (Nat × Nat)} {i v : Nat} (h : l.lookup i = some v) : (i, v) ∈ l := by
  induction l with
  | nil => simp at h
  | cons p t ih =>
    obtain ⟨a, b⟩ := p
    by_cases e : i = a
    · subst e; simp [List.lookup] at h; subst h; exact List.mem_cons_self
    · have : (i == a) = false := by simpa using e
      simp only [List.lookup, this] at h
      exact List.mem_cons_of_mem _ (ih h)

theorem lookup_some {l : List (Nat × Nat)} {i : Nat} (h : i ∈ l.map (·.1)) : ∃ v, l.lookup i = some v := by
  induction l with
  | nil => simp at h
  | cons p t ih =>
    obtain ⟨a, b⟩ := p
    by_cases e : i = a
    · subst e; exact ⟨b, by simp [List.lookup]⟩
    · have hb : (i == a) = false := by simpa using e
      simp only [List.map_cons, List.mem_cons] at h
      rcases h with h | h
      · exact absurd h e
      · obtain ⟨v, hv⟩ := ih h
        exact ⟨v, by simp only [List.lookup, hb]; exact hv⟩

theorem assign_positions (eps : List Ep) : ((assign eps).map (·.1)).Perm (List.range eps.length) := by
  have : (assign eps).map (·.1) = (sortEps eps).map (·.2) := by
    simp only [assign]
    rw [List.map_fst_zip]
    simp [assignSorted_length]
  rw [this]; exact sortEps_positions eps

/-- the id of the endpoint at position `i` is the one recorded for `i` in the run of the loop -/
theorem ids_mem (eps : List Ep) (i : Nat) (hi : i < eps.length) :
    ∃ h : i < (ids eps).length, (i, (ids eps)[i]) ∈ assign eps := by
  have hl : (ids eps).length = eps.length := by simp [ids]
  refine ⟨by omega, ?_⟩
  have hm : i ∈ (assign eps).map (·.1) := (assign_positions eps).mem_iff.2 (List.mem_range.2 hi)
  obtain ⟨v, hv⟩ := lookup_some hm
  have : (ids eps)[i] = v := by simp [ids, hv]
  rw [this]; exact lookup_mem hv


theorem ids_length (eps : List Ep) : (ids eps).length = eps.length := by simp [ids]

theorem assign_snd (eps : List Ep) :
    (assign eps).map (·.2) = assignSorted [] ((sortEps eps).map (·.1)) := by
  simp only [assign]
  rw [List.map_snd_zip]
  simp [assignSorted_length]

theorem assign_pairwise (eps : List Ep) (hn : eps.length < M) :
    (assign eps).Pairwise (fun p q => p.1 ≠ q.1 → Apart p.2 q.2) := by
  have h := (assignSorted_inv ((sortEps eps).map (·.1)) [] (by simp [sortEps_length]; omega)).1
  rw [← assign_snd, List.pairwise_map] at h
  exact h.imp (fun {a b} (hpq : Apart a.2 b.2) _ => hpq)

/-- ids written for two different endpoints of the backend are different -/
theorem ids_distinct (eps : List Ep) (hn : eps.length < M) (i j : Nat) (hi : i < eps.length)
    (hj : j < eps.length) (hij : i ≠ j) :
    (ids eps)[i]'(by rw [ids_length]; exact hi) ≠ 0 →
      (ids eps)[i]'(by rw [ids_length]; exact hi) ≠ (ids eps)[j]'(by rw [ids_length]; exact hj) := by
  obtain ⟨_, mi⟩ := ids_mem eps i hi
  obtain ⟨_, mj⟩ := ids_mem eps j hj
  intro h0
  have : Std.Symm (fun p q : Nat × Nat => p.1 ≠ q.1 → Apart p.2 q.2) :=
    ⟨fun p q h hne hor e => h (Ne.symm hne) hor.symm e.symm⟩
  have := List.Pairwise.forall_of_forall (fun x _ hne => absurd rfl hne) (assign_pairwise eps hn) mi mj
  exact this hij (Or.inl h0)

theorem ids_pairwise (eps : List Ep) (hn : eps.length < M) : (ids eps).Pairwise Apart := by
  rw [List.pairwise_iff_getElem]
  intro i j hi hj hij hor
  rw [ids_length] at hi hj
  rcases hor with h | h
  · exact ids_distinct eps hn i j hi hj (by omega) h
  · exact (ids_distinct eps hn j i hj hi (by omega) h).symm

/-- every id is 0 (nothing written) or in 1 .. 2^31 - 1 -/
theorem ids_range (eps : List Ep) (hn : eps.length < M) : ∀ x ∈ ids eps, x < M := by
  intro x hx
  obtain ⟨i, hi, rfl⟩ := List.mem_iff_getElem.1 hx
  rw [ids_length] at hi
  obtain ⟨_, mi⟩ := ids_mem eps i hi
  have hx : (ids eps)[i] ∈ (assign eps).map (·.2) := List.mem_map.2 ⟨_, mi, rfl⟩
  rw [assign_snd] at hx
  by_cases h0 : (ids eps)[i] = 0
  · rw [h0]; decide
  · exact ((assignSorted_inv _ [] (by simp [sortEps_length]; omega)).2 _ hx h0).2

/-- an endpoint without TargetRef gets no id, an endpoint with TargetRef gets one -/
theorem ids_zero_iff (eps : List Ep) (hn : eps.length < M) (i : Nat) (hi : i < eps.length) :
    (ids eps)[i]'(by rw [ids_length]; exact hi) = 0 ↔ eps[i].ref = none := by
  obtain ⟨_, mi⟩ := ids_mem eps i hi
  simp only [assign] at mi
  obtain ⟨k, hk, hke⟩ := List.mem_iff_getElem.1 mi
  rw [List.getElem_zip] at hke
  simp only [List.length_zip, List.length_map, assignSorted_length, Nat.min_self] at hk
  have h1 : ((sortEps eps)[k]).2 = i := by simpa using congrArg Prod.fst hke
  have h2 : (assignSorted [] ((sortEps eps).map (·.1)))[k]'(by simp [assignSorted_length]; exact hk)
      = (ids eps)[i] := by simpa using congrArg Prod.snd hke
  have hs : (sortEps eps)[k] ∈ eps.zipIdx := (sortEps_perm eps).mem_iff.1 (List.getElem_mem _)
  have hs' : (((sortEps eps)[k]).1, i) ∈ eps.zipIdx := by rw [← h1]; exact hs
  obtain ⟨_, _, he⟩ := List.mem_zipIdx hs'
  have hz : (((sortEps eps)[k]).1, (ids eps)[i]) ∈
      ((sortEps eps).map (·.1)).zip (assignSorted [] ((sortEps eps).map (·.1))) := by
    rw [List.mem_iff_getElem]
    refine ⟨k, by simp [assignSorted_length]; exact hk, ?_⟩
    rw [List.getElem_zip, h2]; simp
  have := assignSorted_zero_iff _ [] (by simp [sortEps_length]; omega) _ hz
  simp only at this
  rw [he] at this
  simpa using this.symm


/-! ### the Spec holds on every output of the model -/

theorem hasDup_written (l : List Nat) (h : l.Pairwise Apart) :
    hasDup (written (l.map Int.ofNat)) = false := by
  induction l with
  | nil => rfl
  | cons a t ih =>
    obtain ⟨ha, ht⟩ := List.pairwise_cons.1 h
    by_cases a0 : a = 0
    · subst a0; simpa [written] using ih ht
    · have hw : written ((a :: t).map Int.ofNat) = (a : Int) :: written (t.map Int.ofNat) := by
        simp [written, a0]
      rw [hw]
      simp only [hasDup, Bool.or_eq_false_iff]
      refine ⟨?_, ih ht⟩
      simp only [List.contains_eq_mem, decide_eq_false_iff_not, written, List.mem_filter, List.mem_map]
      rintro ⟨⟨b, hb, e⟩, _⟩
      have : b = a := by simp only [Int.ofNat_eq_natCast] at e; exact_mod_cast e
      exact ha b hb (Or.inl a0) this.symm

/-- the Spec (ids written are in 1..2^31-1 and pairwise distinct) holds on the model's output, for every backend -/
theorem oracle_ids (eps : List Ep) (hn : eps.length < M) : oracle ((ids eps).map Int.ofNat) = none := by
  have hr : (written ((ids eps).map Int.ofNat)).any (fun x => x < 1 || x ≥ (M : Int)) = false := by
    rw [List.any_eq_false]
    intro x hx
    simp only [written, List.mem_filter, List.mem_map] at hx
    obtain ⟨⟨b, hb, rfl⟩, h0⟩ := hx
    have := ids_range eps hn b hb
    simp only [decide_eq_true_eq] at h0
    simp only [Bool.or_eq_true, decide_eq_true_eq, not_or]
    simp only [Int.ofNat_eq_natCast] at h0 ⊢
    omega
  simp only [oracle, hr, hasDup_written _ (ids_pairwise eps hn)]
  simp

/-! ### stability: the ids depend on the set of pods behind the backend only -/

theorem leKey_trans (a b c : Ep) : leKey a b = true → leKey b c = true → leKey a c = true := by
  simp only [leKey, decide_eq_true_eq]; omega

theorem leKey_total (a b : Ep) : (leKey a b || leKey b a) = true := by
  simp only [leKey, Bool.or_eq_true, decide_eq_true_eq]; omega

theorem key_eq_iff (a b : Ep) : key a = key b ↔ a.ref = b.ref := by
  cases ha : a.ref <;> cases hb : b.ref <;> simp [key, ha, hb]

/-- two sorted arrangements of the same endpoints are the same list when the TargetRef determines the pod -/
theorem sorted_unique : ∀ (l₁ l₂ : List Ep), l₁.Perm l₂ →
    l₁.Pairwise (fun a b => leKey a b = true) → l₂.Pairwise (fun a b => leKey a b = true) →
    (∀ a ∈ l₁, ∀ b ∈ l₁, a.ref = b.ref → a = b) → l₁ = l₂ := by
  intro l₁
  induction l₁ with
  | nil => intro l₂ hp _ _ _; exact hp.nil_eq
  | cons a t ih =>
    intro l₂ hp s₁ s₂ hf
    cases l₂ with
    | nil => exact absurd hp.symm.nil_eq (by simp)
    | cons b u =>
      have hab : a = b := by
        have hb : b ∈ a :: t := hp.mem_iff.2 List.mem_cons_self
        have ha : a ∈ b :: u := hp.mem_iff.1 List.mem_cons_self
        apply hf a List.mem_cons_self b hb
        rw [← key_eq_iff]
        have h1 : key a ≤ key b := by
          rcases List.mem_cons.1 hb with h | h
          · rw [h]; exact Nat.le_refl _
          · simpa [leKey] using (List.pairwise_cons.1 s₁).1 b h
        have h2 : key b ≤ key a := by
          rcases List.mem_cons.1 ha with h | h
          · rw [h]; exact Nat.le_refl _
          · simpa [leKey] using (List.pairwise_cons.1 s₂).1 a h
        omega
      subst hab
      congr 1
      exact ih u hp.cons_inv (List.pairwise_cons.1 s₁).2 (List.pairwise_cons.1 s₂).2
        (fun x hx y hy => hf x (List.mem_cons_of_mem _ hx) y (List.mem_cons_of_mem _ hy))

/-- the order in which the backend lists its endpoints does not matter: the same pods get the same ids -/
theorem assign_stable (eps₁ eps₂ : List Ep) (hp : eps₁.Perm eps₂)
    (hf : ∀ a ∈ eps₁, ∀ b ∈ eps₁, a.ref = b.ref → a = b) : assignByRef eps₁ = assignByRef eps₂ := by
  have hs : isort leKey eps₁ = isort leKey eps₂ := by
    apply sorted_unique
    · exact (isort_perm _ _).trans (hp.trans (isort_perm _ _).symm)
    · exact isort_sorted leKey leKey_trans leKey_total _
    · exact isort_sorted leKey leKey_trans leKey_total _
    · intro a ha b hb
      exact hf a ((isort_perm _ _).mem_iff.1 ha) b ((isort_perm _ _).mem_iff.1 hb)
  simp only [assignByRef, hs]

/-- `assignByRef` is the run of the real loop: same endpoints in the same order, same ids -/
theorem sortEps_fst (eps : List Ep) : (sortEps eps).map (·.1) = isort leKey eps := by
  have := map_isort (fun a b : Ep × Nat => leKey a.1 b.1) leKey (·.1) (fun _ _ => rfl) eps.zipIdx
  rw [List.zipIdx_map_fst] at this
  exact this

theorem assign_eq_byRef (eps : List Ep) : (assign eps).map (·.2) = (assignByRef eps).map (·.2) := by
  rw [assign_snd, sortEps_fst]
  simp only [assignByRef]
  rw [List.map_snd_zip]
  simp [assignSorted_length]

/-! ### the hash -/

theorem fnv1a_lt (bytes : List Nat) : fnv1a bytes < W := by
  have : ∀ (bs : List Nat) (h : Nat), h < W → bs.foldl fnvStep h < W := by
    intro bs
    induction bs with
    | nil => intro h hh; exact hh
    | cons b t ih => intro h _; exact ih _ (Nat.mod_lt _ (by decide))
  exact this bytes _ (by decide)

-- FNV-1a test vectors of hash/fnv (fnv_test.go golden32a)
example : fnv1a (uidBytes "") = 0x811c9dc5 := by decide +kernel
example : fnv1a (uidBytes "a") = 0xe40c292c := by decide +kernel
example : fnv1a (uidBytes "ab") = 0x4d2505ca := by decide +kernel
example : fnv1a (uidBytes "abc") = 0x1a47e90b := by decide +kernel

/-! ### non-vacuity and the seeded variant -/

/-- three pods whose hashes collide modulo 2^31 (the first two even on 32 bits), one unreadable pod, one endpoint
without TargetRef, listed in reverse TargetRef order -/
example : ids [⟨some 5, .err⟩, ⟨none, .err⟩, ⟨some 3, .hash 0x80000007⟩, ⟨some 2, .hash 7⟩, ⟨some 1, .hash 7⟩]
    = [1, 0, 9, 8, 7] := by decide +kernel

/-- wrap-around: 2^31 - 1 is taken, the next candidate 0 is skipped, 1 is taken, 2 is free -/
example : ids [⟨some 1, .hash 0x7fffffff⟩, ⟨some 2, .hash 0xffffffff⟩, ⟨some 3, .err⟩, ⟨some 4, .hash 0x80000000⟩]
    = [2147483647, 1, 2, 3] := by decide +kernel

/-- the pods of the seed's demonstration: hashes that differ in bit 31 only -/
theorem seeded_uids :
    fnv1a (uidBytes "f38a802b-82f8-4c3d-b30e-cd0aac6d316e") = 0x6bc0aa30 ∧
    fnv1a (uidBytes "b1acbc6f-7d8d-406c-b467-657e937b1193") = 0xebc0aa30 := by decide +kernel

/-- the code: the second pod is probed to the next id -/
theorem code_bit31 : ids [⟨some 1, .hash 0x6bc0aa30⟩, ⟨some 2, .hash 0xebc0aa30⟩]
    = [1807788592, 1807788593] := by decide +kernel

/-- collisions resolved on the untruncated value, mask applied to the value written only: the same id twice -/
theorem seeded_bit31_duplicate : idsV [⟨some 1, .hash 0x6bc0aa30⟩, ⟨some 2, .hash 0xebc0aa30⟩]
    = [1807788592, 1807788592] := by decide +kernel

theorem seeded_bit31_oracle :
    oracle ((idsV [⟨some 1, .hash 0x6bc0aa30⟩, ⟨some 2, .hash 0xebc0aa30⟩]).map Int.ofNat)
      = some "duplicate-server-id" := by decide +kernel

/-- the same variant while probing: 7 and 8 are taken, a third pod with hash 7 + 2^31 is "free" on 32 bits and is
written as 7 -/
theorem seeded_probe_duplicate :
    idsV [⟨some 1, .hash 7⟩, ⟨some 2, .hash 8⟩, ⟨some 3, .hash 0x80000007⟩] = [7, 8, 7] := by decide +kernel

/-- the variant is invisible as long as no two probed values differ by 2^31: a full 32 bit collision (the
repository's own test TestSyncServerIDs, UIDs "costarring" / "liquid") gives the same ids as the code -/
theorem seeded_invisible_on_full_collision :
    fnv1a (uidBytes "costarring") = 1582148253 ∧ fnv1a (uidBytes "liquid") = 1582148253 ∧
    idsV [⟨some 1, .hash 1582148253⟩, ⟨some 2, .hash 1582148253⟩]
      = ids [⟨some 1, .hash 1582148253⟩, ⟨some 2, .hash 1582148253⟩] := by decide +kernel

/-- statement shape of `syncBackendEndpointHashes`: the 31 bit mask is applied where the hash is computed AND in
the probing step, the loop ends on `hash != 0 && !exists`, the value recorded as used is the value written -/
theorem facts_c07ids :
    Facts.c07IdsHashAssigns = ["= hasher.Sum32() & 0x7fffffff", "= 1", "= (hash + 1) & 0x7fffffff"] ∧
    Facts.c07IdsExitCond = ["hash != 0 && !exists"] ∧
    Facts.c07IdsUsed = ["read hash", "usedPUIDS[hash]", "read hash"] ∧
    Facts.c07IdsWritten = ["int32(hash)"] ∧
    Facts.c07IdsBody = ["{", "mapper := c.backendAnnotations[backend]",
      "if mapper == nil || !mapper.Get(ingtypes.BackAssignBackendServerID).Bool() {", "return", "}",
      "eps := make([]*hatypes.Endpoint, len(backend.Endpoints))", "copy(eps, backend.Endpoints)",
      "sort.SliceStable(eps, func(i, j int) bool {", "ep1 := eps[i]", "ep2 := eps[j]",
      "return ep1.TargetRef < ep2.TargetRef", "})", "usedPUIDS := map[uint32]struct{}{}",
      "for _, ep := range eps {", "if ep.TargetRef == \"\" {", "continue", "}", "var hash uint32",
      "pod, err := c.cache.GetPod(ep.TargetRef)", "if err == nil {", "hasher := fnv.New32a()",
      "hasher.Write([]byte(pod.UID))", "hash = hasher.Sum32() & 0x7fffffff", "} else {", "hash = 1", "}",
      "for {", "_, exists := usedPUIDS[hash]", "if hash != 0 && !exists {", "break", "}",
      "hash = (hash + 1) & 0x7fffffff", "}", "usedPUIDS[hash] = struct{}{}", "ep.PUID = int32(hash)", "}", "}"] := by
  decide

end HapVerif.C07.Ids
