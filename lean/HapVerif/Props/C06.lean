import HapVerif.Model.C06
import HapVerif.Lemmas.C06
import HapVerif.Props.C03
import HapVerif.Props.C15
import HapVerif.Generated.Facts
/-!
# C06 — same cluster state gives the same behaviour, whatever the processing order

Three sources of order are modelled explicitly:
1. the order in which the API returns objects / events arrive: the object lists of `Sync.World`
   (`PermOf w w'` = same objects, other order);
2. conflicts between ingresses: `sortIngs` (creation time, then namespace/name);
3. Go's map iteration over the hosts of a frontend map inside `rebuildMatchFiles`: the parameter `π`
   of `Sync.route` (`IterOK` = any order without repetition that covers the hosts).

Theorems (all cluster states; `UniqueObjs` = namespace/name identify an object, which the API server
guarantees):
* `sortIngs_spec`, `sortIngs_perm'` — the processing order of the ingresses is a function of the set;
* `fullSync_perm` — the whole configuration (paths, hosts, certificates, backends and their servers,
  default backend) is the same for every order of the object lists;
* `route_perm` — the routing of the generated configuration (`Sync.routeS`: since repair 8cccd42
  `rebuildMatchFiles` iterates the hostnames sorted) is the same for every order of the lists,
  unconditionally;
* `route_perm_partial` — for ANY two admissible iteration orders of Go's maps the answers agree
  whenever the Spec determines the answer (no tie between path types of equal length);
* `served_perm`, `annOf_perm` — certificates and the winner of an annotation conflict do not depend
  on any order.

Before repair 8cccd42 the iteration order was Go's map order and the unconditional statement
  `∀ w π π' r, IterOK (fullSync w) π → IterOK (fullSync w) π' → route (fullSync w) π r = route (fullSync w) π' r`
was FALSE: finding `order-dependent-tie-between-path-types`, kernel witness `tie_depends_on_iteration`
(two admissible orders, two answers), replayed on the Go code before the repair (first line of
`c06corpus`: 5 of 12 processes answered `d_api_8080`, 7 answered `d_app_8080`).
-/
namespace HapVerif.C06
open HapVerif.Sync
open HapVerif.C04 (Str)

/-- the processing order is sorted by (creation, namespace/name) and is a permutation of the input -/
theorem sortIngs_spec (l : List Ingress) : C03.Sorted ingLt (sortIngs l) ∧ (sortIngs l).Perm l :=
  sortIngs_sorted l

/-- with unique namespace/name the processing order does not depend on the list order -/
theorem sortIngs_perm' {l l' : List Ingress} (p : l.Perm l') (u : UniqueKeys l) : sortIngs l = sortIngs l' :=
  sortIngs_perm p u

/-- **fullSync_perm**: the generated configuration is a function of the cluster state, not of the
order in which ingresses, services, endpoints and secrets are listed -/
theorem fullSync_perm {w w' : World} (p : PermOf w w') (u : UniqueObjs w) : fullSync w = fullSync w' :=
  fullSync_eq_of_perm p u

/-- **route_perm_partial**: same answer for every list order and every map iteration order, whenever
the Spec determines the answer -/
theorem route_perm_partial {w w' : World} (p : PermOf w w') (u : UniqueObjs w) (wf : C03.WFWorld w = true)
    {π π' : Iter} (hπ : C03.IterOK (fullSync w) π) (hπ' : C03.IterOK (fullSync w') π')
    {r : Req} (rq : C04.WFReq r.host r.path = true) {b : Str} (det : ∀ x ∈ C03.specRoute w r, x = b) :
    route (fullSync w) π r = route (fullSync w') π' r := by
  rw [← fullSync_perm p u] at hπ' ⊢
  exact C03.route_iter_indep wf hπ hπ' rq det

/-- **route_perm** (unconditional, code after 8cccd42): the routing of the generated configuration is
a function of the cluster state alone -/
theorem route_perm {w w' : World} (p : PermOf w w') (u : UniqueObjs w) (r : Req) :
    routeS (fullSync w) r = routeS (fullSync w') r := by
  rw [fullSync_perm p u]

/-- and it is an answer the Spec allows (C03), whatever the order -/
theorem route_perm_spec {w w' : World} (p : PermOf w w') (u : UniqueObjs w) (wf : C03.WFWorld w = true)
    {r : Req} (rq : C04.WFReq r.host r.path = true) : routeS (fullSync w') r ∈ C03.specRoute w r := by
  rw [← route_perm p u]
  exact C03.routeS_spec wf rq

/-- certificates do not depend on the order -/
theorem served_perm {w w' : World} (p : PermOf w w') (u : UniqueObjs w) (sni : Str) :
    C15.served w sni = C15.served w' sni := by
  unfold C15.served
  rw [fullSync_perm p u]

/-- the winner of a conflict between annotations of ingresses that share a backend does not depend
on the order (it is the first accepted declaration in (creation, namespace/name) order) -/
theorem annOf_perm {w w' : World} (p : PermOf w w') (u : UniqueObjs w) (k : BKey) (key : Str) :
    annOf w k key = annOf w' k key := by
  unfold annOf
  rw [effectiveAnn_perm p u]

/-- reversing every list is a permutation (the instance the driver evaluates on every case) -/
theorem permute_perm (w : World) : PermOf w (permute w) :=
  ⟨(List.reverse_perm _).symm, (List.reverse_perm _).symm, (List.reverse_perm _).symm,
   (List.reverse_perm _).symm, rfl, rfl⟩

/-! ## witnesses -/

def s (x : String) : Str := x.toList

/-- the cluster state of the finding: on `a.local` the paths `/a` Prefix and `/a` begin tie for `/a/x`;
both are moved to priority files because each overlaps a `/` entry of the other type; the priority
files are shared with `b.local` (which creates a begin file) and `c.local` (a prefix file) -/
def wTie : World :=
  { ings := [
      { ns := s "d", name := s "i1", created := 1, valid := true,
        rules := [
          ⟨s "a.local", [⟨s "/a", .pfx, s "app", s "80"⟩, ⟨s "/a", .impl, s "api", s "80"⟩,
                         ⟨s "/", .pfx, s "web", s "80"⟩, ⟨s "/", .impl, s "web", s "80"⟩]⟩,
          ⟨s "b.local", [⟨s "/x/y", .impl, s "web", s "80"⟩, ⟨s "/x", .pfx, s "web", s "80"⟩]⟩,
          ⟨s "c.local", [⟨s "/x/y", .pfx, s "web", s "80"⟩, ⟨s "/x", .impl, s "web", s "80"⟩]⟩] }],
    svcs := [⟨s "d", s "app", [⟨s "http", 80, s "8080"⟩]⟩, ⟨s "d", s "api", [⟨s "http", 80, s "8080"⟩]⟩,
             ⟨s "d", s "web", [⟨s "http", 80, s "8080"⟩]⟩] }

def πbc : Iter := ⟨[s "b.local", s "c.local", s "a.local"], [], []⟩
def πcb : Iter := ⟨[s "c.local", s "b.local", s "a.local"], [], []⟩

/-- **the finding repaired by 8cccd42, on the model**: both iteration orders are admissible, the Spec
allows both backends (a documented tie), and the two orders give different answers -/
theorem tie_depends_on_iteration :
    C03.WFWorld wTie = true ∧
    C03.specRoute wTie ⟨false, s "a.local", s "/a/x"⟩ = [s "d_app_8080", s "d_api_8080"] ∧
    route (fullSync wTie) πbc ⟨false, s "a.local", s "/a/x"⟩ = s "d_api_8080" ∧
    route (fullSync wTie) πcb ⟨false, s "a.local", s "/a/x"⟩ = s "d_app_8080" := by decide +kernel

theorem tie_iters_admissible : C03.IterOK (fullSync wTie) πbc ∧ C03.IterOK (fullSync wTie) πcb :=
  ⟨⟨C04.hostOrderOK_of_perm (by decide +kernel), C04.hostOrderOK_of_perm (by decide +kernel),
    C04.hostOrderOK_of_perm (by decide +kernel)⟩,
   ⟨C04.hostOrderOK_of_perm (by decide +kernel), C04.hostOrderOK_of_perm (by decide +kernel),
    C04.hostOrderOK_of_perm (by decide +kernel)⟩⟩

/-- after the repair the answer on this cluster state is the one of the sorted order, every run -/
theorem tie_fixed : routeS (fullSync wTie) ⟨false, s "a.local", s "/a/x"⟩ = s "d_app_8080" := by decide +kernel

/-- non-vacuity of `fullSync_perm` / `route_perm`: the witness of C03 with its lists reversed -/
example : fullSync C03.w0 = fullSync (permute C03.w0) :=
  fullSync_perm (permute_perm _)
    ⟨by intro a ha b hb; revert a b; decide +kernel, by decide +kernel, by decide +kernel, by decide +kernel⟩

example : sameCfg (fullSync C03.w0) (fullSync (permute C03.w0)) = true := by decide +kernel

/-- conflict resolution by name at equal creation time: `d/i1` wins over `d/i2` whatever the list order -/
def wAnn : World :=
  { ings := [
      { ns := s "d", name := s "i2", created := 1, valid := true, ann := [(s "balance-algorithm", s "first")],
        rules := [⟨s "a.local", [⟨s "/", .pfx, s "app", s "80"⟩]⟩] },
      { ns := s "d", name := s "i1", created := 1, valid := true, ann := [(s "balance-algorithm", s "leastconn")],
        rules := [⟨s "b.local", [⟨s "/", .pfx, s "app", s "80"⟩]⟩] }],
    svcs := [⟨s "d", s "app", [⟨s "http", 80, s "8080"⟩]⟩] }

example : annOf wAnn ⟨s "d", s "app", s "8080"⟩ (s "balance-algorithm") = some (s "leastconn") ∧
    annOf (permute wAnn) ⟨s "d", s "app", s "8080"⟩ (s "balance-algorithm") = some (s "leastconn") := by
  decide +kernel

/-- regenerated from the Go source -/
theorem facts_c06 :
    Facts.c06SortIngressTieBreak = ["i1.Namespace+\"/\"+i1.Name<i2.Namespace+\"/\"+i2.Name"] ∧
    Facts.c06RawhostsIteration = ["range-keys:hm.rawhosts", "sort.Strings(hostnames)", "range:hostnames"] := by decide

end HapVerif.C06
