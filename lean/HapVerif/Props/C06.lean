import HapVerif.Model.C06
namespace HapVerif.C06
end HapVerif.C06
