import HapVerif.Generated.CodeC17
/-!
# C17 — tie to the source: the control skeleton of `signer.verify` (pkg/acme/signer.go)

`HapVerif.CodeC17.verify` is REGENERATED on every run: the secret read, the expiry test and `match()` are reads of
an oracle `env`; `client.Sign`, `SetTLSSecretContent` and the metric collector are steps of the trace.  The theorems
are about the TRANSLATED CODE, for every oracle: a certificate is requested exactly when the secret is missing or
unreadable, expires within the window, or does not cover the domains (C17's "if and only if"); a secret is written
only when BOTH certificate and key came back; a warning next to a complete pair does not fail the run; exactly
one signing metric is counted per request, of the right kind, with the outcome of the run.
-/
namespace HapVerif.C17VerifyTie
open HapVerif HapVerif.GoLib

/-- the three reasons, in the order the code tests them -/
def need (env : Env) : Bool :=
  env.fail "GetTLSSecretContent" || env.val "expiring" || !env.val "match"

def kind (env : Env) : String :=
  if env.fail "GetTLSSecretContent" then "missing" else if env.val "expiring" then "expiring" else "outdated"

def both (env : Env) : Bool := env.val "Sign.crt" && env.val "Sign.key"

/-- what the run returns -/
def outcome (env : Env) : Option String :=
  if !need env then none
  else if both env then (if env.fail "SetTLSSecretContent" then some "SetTLSSecretContent" else none)
  else (if env.fail "Sign" then some "Sign" else none)

/-- the steps of the run -/
def steps (env : Env) : List String :=
  if !need env then []
  else ["Sign"] ++ (if both env then ["SetTLSSecretContent"] else []) ++
    ["metric:" ++ kind env ++ ":" ++ toString (outcome env == none)]

/-- **closed form of the translated `verify`**, for every oracle and every trace so far -/
theorem verify_closed_form (env : Env) (fx : Fx) :
    CodeC17.verify env fx = (outcome env, fx ++ steps env) := by
  unfold CodeC17.verify outcome steps need kind both
  simp only [GoLib.readE, GoLib.readB, GoLib.callSign, GoLib.callE, GoLib.effMetric, GoLib.nil]
  rcases Bool.eq_false_or_eq_true (env.fail "GetTLSSecretContent") with ha | ha <;>
  rcases Bool.eq_false_or_eq_true (env.val "expiring") with hb | hb <;>
  rcases Bool.eq_false_or_eq_true (env.val "match") with hc | hc <;>
  rcases Bool.eq_false_or_eq_true (env.val "Sign.crt") with hd | hd <;>
  rcases Bool.eq_false_or_eq_true (env.val "Sign.key") with he | he <;>
  rcases Bool.eq_false_or_eq_true (env.fail "Sign") with hf | hf <;>
  rcases Bool.eq_false_or_eq_true (env.fail "SetTLSSecretContent") with hg | hg <;>
  simp [ha, hb, hc, hd, he, hf, hg, outcome, need, both, kind]

/-- the six metric entries -/
def metrics : List String :=
  ["metric:missing:true", "metric:missing:false", "metric:expiring:true", "metric:expiring:false",
   "metric:outdated:true", "metric:outdated:false"]

theorem metric_mem (env : Env) (b : Bool) : ("metric:" ++ kind env ++ ":" ++ toString b) ∈ metrics := by
  unfold kind metrics
  rcases Bool.eq_false_or_eq_true (env.fail "GetTLSSecretContent") with ha | ha <;>
  rcases Bool.eq_false_or_eq_true (env.val "expiring") with hb | hb <;>
  cases b <;> simp [ha, hb] <;> decide

theorem metric_ne (env : Env) (b : Bool) (s : String) (hs : s ∉ metrics) :
    ¬ s = "metric:" ++ kind env ++ ":" ++ toString b := fun h => hs (h ▸ metric_mem env b)

/-- **a certificate is requested if and only if it is needed** -/
theorem sign_iff (env : Env) : "Sign" ∈ (CodeC17.verify env []).2 ↔ need env = true := by
  rw [verify_closed_form]
  unfold steps
  cases h : need env <;> simp

/-- a valid covering certificate that is not about to expire: nothing is called, nothing is counted, no error -/
theorem valid_covering_untouched (env : Env) (fx : Fx) (h1 : env.fail "GetTLSSecretContent" = false)
    (h2 : env.val "expiring" = false) (h3 : env.val "match" = true) : CodeC17.verify env fx = (none, fx) := by
  rw [verify_closed_form]
  simp [outcome, steps, need, h1, h2, h3]

/-- **a secret is written only when both certificate and key were obtained** (and then it is) -/
theorem store_iff (env : Env) :
    "SetTLSSecretContent" ∈ (CodeC17.verify env []).2 ↔ (need env = true ∧ both env = true) := by
  rw [verify_closed_form]
  unfold steps
  have hne := metric_ne env (outcome env).isNone "SetTLSSecretContent" (by decide)
  cases h : need env <;> cases h2 : both env <;> simp [hne]

/-- an error reported NEXT TO a complete pair is only a warning: the run succeeds when the store succeeds -/
theorem warning_does_not_fail (env : Env) (hn : need env = true) (hb : both env = true)
    (hs : env.fail "SetTLSSecretContent" = false) : (CodeC17.verify env []).1 = none := by
  rw [verify_closed_form]; simp [outcome, hn, hb, hs]

/-- exactly one metric per request — the LAST step —, of the kind of the FIRST reason that holds, carrying the
outcome of the run; none when nothing is requested -/
theorem one_metric (env : Env) (hn : need env = true) :
    ∃ pre, (CodeC17.verify env []).2 = pre ++ ["metric:" ++ kind env ++ ":" ++ toString ((CodeC17.verify env []).1 == none)] ∧
      ∀ s ∈ pre, s ∉ metrics := by
  rw [verify_closed_form]
  unfold steps
  simp only [hn, Bool.not_true, Bool.false_eq_true, if_false, List.nil_append]
  refine ⟨["Sign"] ++ (if both env then ["SetTLSSecretContent"] else []), rfl, ?_⟩
  intro s hs
  cases hb : both env <;> simp [hb] at hs
  · subst hs; decide
  · rcases hs with rfl | rfl <;> decide

/-- non-vacuity: an unreadable secret, Sign returns certificate and key together with a warning, the store works -/
example : CodeC17.verify ⟨fun n => n == "GetTLSSecretContent" || n == "Sign", fun n => n == "Sign.crt" || n == "Sign.key" || n == "match", fun _ => 0⟩ []
    = (none, ["Sign", "SetTLSSecretContent", "metric:missing:true"]) := by decide

end HapVerif.C17VerifyTie
