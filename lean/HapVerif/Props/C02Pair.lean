import HapVerif.Lemmas.C02PairStruct
import HapVerif.Lemmas.C02PairFault
import HapVerif.Lemmas.C02PairFits
import HapVerif.Lemmas.C02PairDense
import HapVerif.Lemmas.C02PairSound3
import HapVerif.Model.C11
/-!
# M-Dyn — theorems about the pairing loop of `checkBackendPair` (all endpoint lists, all scripts)

Hypotheses are executable predicates of the model:
* `Distinct eps`   — no two enabled endpoints share a target (`hasDupTarget eps = false`);
* `AllEnabled cur` — every current endpoint is enabled (the converters never emit disabled ones);
* `namesNodup old` — server names of the old backend pairwise distinct;
* `cur.length ≤ old.length` — otherwise `checkBackendPair` returns before the loop.
-/
namespace HapVerif.C02Pair
open HapVerif.C02

abbrev Distinct (eps : List EP) : Prop := hasDupTarget eps = false
abbrev AllEnabled (eps : List EP) : Prop := eps.all (·.enabled) = true

theorem targets_nodup {cur : List EP} (hd : Distinct cur) (he : AllEnabled cur) : (cur.map (·.target)).Nodup := by
  have h := (hasDupTarget_false_iff cur).1 hd
  have : enOf cur = cur := List.filter_eq_self.2 (fun e he' => (List.all_eq_true.1 he) e he')
  rwa [this] at h

/-- case analysis of `checkBackendPair` (one hypothesis per `return`) -/
theorem cbp_cases (old cur : Back) (same : Bool) (sc : List Resp) (P : Outcome → Prop)
    (h1 : old.eps.length < cur.eps.length → P ⟨false, cur.eps, [], false⟩)
    (h2 : cur.eps.length ≤ old.eps.length → cur.resolver = true → same = true →
      P ⟨true, ((List.range (old.eps.length - cur.eps.length)).foldl (fun b _ => addEmpty b) cur).eps, [], false⟩)
    (h3 : cur.eps.length ≤ old.eps.length → cur.resolver = true → same = false → P ⟨false, cur.eps, [], false⟩)
    (h4 : cur.eps.length ≤ old.eps.length → cur.resolver = false → cur.dynUpdate = false →
      same = true → old.eps ≠ cur.eps → P ⟨false, cur.eps, [], false⟩)
    (h5 : cur.eps.length ≤ old.eps.length → cur.resolver = false → cur.dynUpdate = false →
      (same = true → old.eps = cur.eps) → P ⟨same, cur.eps, [], false⟩)
    (h6 : cur.eps.length ≤ old.eps.length → cur.resolver = false → cur.dynUpdate = true →
      (hasDupTarget old.eps = true ∨ hasDupTarget cur.eps = true) → P ⟨false, cur.eps, [], false⟩)
    (h7 : cur.eps.length ≤ old.eps.length → cur.resolver = false → cur.dynUpdate = true →
      Distinct old.eps → Distinct cur.eps →
      pairLoop old.eps cur.eps cur.cookiePreserve cur.initialWeight same sc = none → P ⟨false, cur.eps, [], true⟩)
    (h8 : cur.eps.length ≤ old.eps.length → cur.resolver = false → cur.dynUpdate = true →
      Distinct old.eps → Distinct cur.eps → ∀ s,
      pairLoop old.eps cur.eps cur.cookiePreserve cur.initialWeight same sc = some s →
      P ⟨s.updated, s.cur, s.cmds, false⟩) :
    P (checkBackendPair old cur same sc) := by
  unfold checkBackendPair
  split
  · next hl => exact h1 hl
  · next hl =>
    have hl' : cur.eps.length ≤ old.eps.length := by omega
    split
    · next hr =>
      split
      · next hs => exact h2 hl' hr hs
      · next hs => exact h3 hl' hr (by simpa using hs)
    · next hr =>
      have hr' : cur.resolver = false := by simpa using hr
      split
      · next hd =>
        have hd' : cur.dynUpdate = false := by simpa using hd
        split
        · next hc => exact h4 hl' hr' hd' hc.1 hc.2
        · next hc =>
          exact h5 hl' hr' hd' (fun hs => Decidable.not_not.1 (fun hne => hc ⟨hs, hne⟩))
      · next hd =>
        have hd' : cur.dynUpdate = true := by simpa using hd
        split
        · next hdup => exact h6 hl' hr' hd' (by simpa using hdup)
        · next hdup =>
          simp only [Bool.or_eq_true, not_or, Bool.not_eq_true] at hdup
          split
          · next hp => exact h7 hl' hr' hd' hdup.1 hdup.2 hp
          · next s hp => exact h8 hl' hr' hd' hdup.1 hdup.2 s hp

def ex (n ip : String) (en : Bool) (w : Int) : EP :=
  { name := n, ip := ip, port := if en then 8080 else 1023, enabled := en, weight := w, cookie := n, label := "",
    tref := "", puid := 0 }

/-- a concrete state used by the non-vacuity examples: 2 servers + 2 empty slots; one endpoint
stays, one is replaced, one is new -/
def exOld : List EP := [ex "srv001" "10.0.0.1" true 1, ex "srv002" "10.0.0.2" true 1,
  ex "srv003" "127.0.0.1" false 1, ex "srv004" "127.0.0.1" false 1]
def exCur : List EP := [ex "srv001" "10.0.0.3" true 1, ex "srv002" "10.0.0.1" true 2, ex "srv003" "10.0.0.4" true 1]

/-! ## P1 — `empty[i]` is never read out of range -/

/-- only the old endpoints need distinct targets for index safety -/
theorem no_oob' (old cur : List EP) (p : Bool) (iw : Int) (same : Bool) (sc : List Resp)
    (hO : Distinct old) (hlen : cur.length ≤ old.length) : pairLoop old cur p iw same sc ≠ none := by
  obtain ⟨W, s, _, _, _, he⟩ := pairLoop_struct p iw same sc hO hlen
  rw [he]; simp

theorem no_oob (old cur : List EP) (p : Bool) (iw : Int) (same : Bool) (sc : List Resp)
    (hO : Distinct old) (_hC : Distinct cur) (hlen : cur.length ≤ old.length) :
    pairLoop old cur p iw same sc ≠ none :=
  no_oob' old cur p iw same sc hO hlen

example : Distinct exOld ∧ Distinct exCur ∧ exCur.length ≤ exOld.length := by decide

/-- `checkBackendPair` never reports a panic when the old targets are distinct … -/
theorem no_panic (old cur : Back) (same : Bool) (sc : List Resp) :
    (checkBackendPair old cur same sc).panic = false := by
  apply cbp_cases old cur same sc (fun o => o.panic = false) <;> intros <;> try rfl
  next hl _ _ hO _ hp => exact absurd hp (no_oob' _ _ _ _ _ _ hO hl)

/-! ## P2 — the slot count is preserved -/

theorem len_preserved (old cur : List EP) (p : Bool) (iw : Int) (same : Bool) (sc : List Resp)
    (hO : Distinct old) (hC : Distinct cur) (hE : AllEnabled cur) (hlen : cur.length ≤ old.length)
    (s : PairSt) (hs : pairLoop old cur p iw same sc = some s) : s.cur.length = old.length := by
  obtain ⟨W, s', hW, h4, hle, he⟩ := pairLoop_struct p iw same sc hO hlen
  rw [he] at hs
  simp only [Option.some.injEq] at hs
  subst hs
  simp only [copyEmpty_length, List.length_drop]
  obtain ⟨h1, _, h3⟩ := walkEnd_count hW
  have h3 := h3 (targets_nodup hC hE)
  have := length_of_clr h4.clr
  omega

example : (pairLoop exOld exCur false 1 true []).map (·.cur.length) = some 4 := by decide +kernel

/-! ## P3 — the server names of the result are a permutation of the old ones -/

theorem names_perm (old cur : List EP) (p : Bool) (iw : Int) (same : Bool) (sc : List Resp)
    (hO : Distinct old) (hC : Distinct cur) (hE : AllEnabled cur) (hlen : cur.length ≤ old.length)
    (s : PairSt) (hs : pairLoop old cur p iw same sc = some s) :
    (s.cur.map (·.name)).Perm (old.map (·.name)) := by
  obtain ⟨W, s', hW, h4, hle, he⟩ := pairLoop_struct p iw same sc hO hlen
  rw [he] at hs
  simp only [Option.some.injEq] at hs
  subst hs
  exact result_names_perm p iw (targets_nodup hC hE) hW h4

theorem names_nodup (old cur : List EP) (p : Bool) (iw : Int) (same : Bool) (sc : List Resp)
    (hO : Distinct old) (hC : Distinct cur) (hE : AllEnabled cur) (hlen : cur.length ≤ old.length)
    (hN : namesNodup old = true)
    (s : PairSt) (hs : pairLoop old cur p iw same sc = some s) : namesNodup s.cur = true := by
  rw [namesNodup_iff] at hN ⊢
  exact (names_perm old cur p iw same sc hO hC hE hlen s hs).nodup_iff.2 hN

example : (pairLoop exOld exCur false 1 true []).map (fun s => s.cur.map (·.name)) =
    some ["srv002", "srv001", "srv003", "srv004"] := by decide +kernel

/-! ## P4 — a failed command is never reported as a successful dynamic update -/

/-- for the loop: `updated` can only stay true if it started true and every consumed response was OK -/
theorem pairLoop_fault (old cur : List EP) (p : Bool) (iw : Int) (same : Bool) (sc : List Resp)
    (s : PairSt) (hs : pairLoop old cur p iw same sc = some s) (hu : s.updated = true) :
    same = true ∧ (sc.take s.cmds.length).all Resp.ok = true :=
  (pairLoop_F old cur p iw same sc s hs).upd hu

/-- for `checkBackendPair` as a whole, every branch -/
theorem pair_fault (old cur : Back) (same : Bool) (sc : List Resp) :
    let o := checkBackendPair old cur same sc
    (¬ (sc.take o.cmds.length).all Resp.ok = true → o.updated = false) ∧ (o.updated = true → same = true) := by
  have key : ∀ o : Outcome, (o.updated = true → same = true ∧ (sc.take o.cmds.length).all Resp.ok = true) →
      (¬ (sc.take o.cmds.length).all Resp.ok = true → o.updated = false) ∧ (o.updated = true → same = true) := by
    intro o h
    refine ⟨fun hn => ?_, fun hu => (h hu).1⟩
    cases hu : o.updated with
    | false => rfl
    | true => exact absurd (h hu).2 hn
  apply key
  apply cbp_cases old cur same sc
    (fun o => o.updated = true → same = true ∧ (sc.take o.cmds.length).all Resp.ok = true)
  · intro _ h; simp at h
  · intro _ _ hs _; simp [hs]
  · intro _ _ _ h; simp at h
  · intro _ _ _ _ _ h; simp at h
  · intro _ _ _ _ h; simpa using h
  · intro _ _ _ _ h; simp at h
  · intro _ _ _ _ _ _ h; simp at h
  · intro _ _ _ _ _ s hs hu; exact pairLoop_fault _ _ _ _ _ _ s hs hu

/-- non-vacuity: the second command fails, the update is refused -/
example : (checkBackendPair ⟨exOld, true, false, false, 1, 0⟩ ⟨exCur, true, false, false, 1, 0⟩ true
    [.msgs [""], .msgs ["No such server."]]).updated = false := by decide +kernel
example : (checkBackendPair ⟨exOld, true, false, false, 1, 0⟩ ⟨exCur, true, false, false, 1, 0⟩ true
    [.msgs [""], .msgs ["", "IP changed from x"]]).updated = true := by decide +kernel

/-! ## P5 — C02: after a successful dynamic update the running table equals the rendered one -/

theorem all_enabled {cur : List EP} (hE : AllEnabled cur) : ∀ e ∈ cur, e.enabled = true :=
  fun e he => (List.all_eq_true.1 hE) e he

/-- for the loop -/
theorem pairLoop_sound' (old cur : List EP) (p : Bool) (iw : Int) (same : Bool) (sc : List Resp)
    (hO : Distinct old) (hC : Distinct cur) (hE : AllEnabled cur) (hN : namesNodup old = true)
    (hlen : cur.length ≤ old.length) (s : PairSt) (hs : pairLoop old cur p iw same sc = some s)
    (hu : s.updated = true) :
    sortN (norm (s.cmds.foldl applyCmd (load old))) = sortN (norm (load s.cur)) :=
  pairLoop_sound p iw same sc hO (targets_nodup hC hE) (all_enabled hE) ((namesNodup_iff old).1 hN) hlen s hs hu

/-- **pair_sound** — for `checkBackendPair`: the guard on duplicated targets and the length check are part
of the function, so only "current endpoints are enabled" and "old names are distinct" are assumed -/
theorem pair_sound (old cur : Back) (same : Bool) (sc : List Resp) (hr : cur.resolver = false)
    (hE : AllEnabled cur.eps) (hN : namesNodup old.eps = true) :
    (checkBackendPair old cur same sc).updated = true →
    sortN (norm ((checkBackendPair old cur same sc).cmds.foldl applyCmd (load old.eps))) =
      sortN (norm (load (checkBackendPair old cur same sc).cur)) := by
  apply cbp_cases old cur same sc
    (fun o => o.updated = true → sortN (norm (o.cmds.foldl applyCmd (load old.eps))) = sortN (norm (load o.cur)))
  · intro _ h; simp at h
  · intro _ hr'; rw [hr] at hr'; cases hr'
  · intro _ _ _ h; simp at h
  · intro _ _ _ _ _ h; simp at h
  · intro _ _ _ he hs
    simp only at hs
    simp [he hs]
  · intro _ _ _ _ h; simp at h
  · intro _ _ _ _ _ _ h; simp at h
  · intro hl _ _ hO hC s hs hu
    exact pairLoop_sound' _ _ _ _ _ _ hO hC hE hN hl s hs hu

/-- the C02 statement through the executable oracle: no clause can fire on the model's outcome -/
theorem checkBackendPair_oracle_none (old cur : Back) (same : Bool) (sc : List Resp)
    (hor : old.resolver = false) (hr : cur.resolver = false) (hE : AllEnabled cur.eps)
    (hN : namesNodup old.eps = true) (hNc : namesNodup cur.eps = true) :
    oracle old ((sc.take (checkBackendPair old cur same sc).cmds.length).all Resp.ok)
      (checkBackendPair old cur same sc) = none := by
  have hpanic := no_panic old cur same sc
  have hfault := pair_fault old cur same sc
  have hsound := pair_sound old cur same sc hr hE hN
  have hnames : namesNodup (checkBackendPair old cur same sc).cur = true := by
    apply cbp_cases old cur same sc (fun o => namesNodup o.cur = true) <;> intros <;> try exact hNc
    · next hr' _ => rw [hr] at hr'; cases hr'
    · next hl _ _ hO hC s hs => exact names_nodup _ _ _ _ _ _ hO hC hE hl hN s hs
  simp only at hfault
  generalize checkBackendPair old cur same sc = o at *
  unfold oracle
  simp only [hpanic, Bool.false_eq_true, if_false, hnames, Bool.not_true, hor]
  cases hu : o.updated with
  | false => simp
  | true =>
    have hok : (sc.take o.cmds.length).all Resp.ok = true := by
      cases hk : (sc.take o.cmds.length).all Resp.ok with
      | true => rfl
      | false =>
        have := hfault.1 (by rw [hk]; simp)
        rw [hu] at this; cases this
    simp only [Bool.not_true, Bool.false_eq_true, if_false, hok]
    rw [if_neg (fun hne => hne (hsound hu))]

theorem oracle_true_of (old : Back) (a : Bool) (o : Outcome) (h : oracle old a o = none) : oracle old true o = none := by
  cases a
  · cases hp : o.panic <;> cases hn : namesNodup o.cur <;> cases hu : o.updated <;>
      simp [oracle, hp, hn, hu] at h ⊢
  · exact h

/-- the same with the flag the driver passes when every response was OK -/
theorem checkBackendPair_oracle_none_ok (old cur : Back) (same : Bool) (sc : List Resp)
    (hor : old.resolver = false) (hr : cur.resolver = false) (hE : AllEnabled cur.eps)
    (hN : namesNodup old.eps = true) (hNc : namesNodup cur.eps = true) :
    oracle old true (checkBackendPair old cur same sc) = none :=
  oracle_true_of _ _ _ (checkBackendPair_oracle_none old cur same sc hor hr hE hN hNc)

def exB (eps : List EP) : Back := ⟨eps, true, false, false, 1, 0⟩

/-- non-vacuity: the example meets the hypotheses, the update is accepted, three commands are sent -/
example : (exB exOld).resolver = false ∧ AllEnabled exCur ∧ namesNodup exOld = true ∧ namesNodup exCur = true ∧
    (checkBackendPair (exB exOld) (exB exCur) true []).updated = true ∧
    (checkBackendPair (exB exOld) (exB exCur) true []).cmds.length = 3 := by decide +kernel

/-- `AllEnabled cur` cannot be dropped from `pair_sound`: an empty (disabled) slot in the *current* backend
would be handed a server name and enabled at 127.0.0.1:1023 while the file says `disabled`.  (In the Go code
only `AddEmptyEndpoint` creates disabled endpoints and it is called after the check, on a backend that then
becomes the *old* one.) -/
theorem allEnabled_needed :
    oracle (exB [ex "srv001" "10.0.0.1" true 1]) true
      (checkBackendPair (exB [ex "srv001" "10.0.0.1" true 1]) (exB [mkEmpty "srv001" 1]) true []) =
    some "running-differs-from-disk" := by decide +kernel

/-! ## P6 — C11: what fits in the slots is applied without reload; a no-op sends nothing -/

theorem fits_no_reload (old cur : Back) (hd : cur.dynUpdate = true) (hr : cur.resolver = false)
    (hp : cur.cookiePreserve = false) (hf : C11.fits old.eps cur.eps = true) :
    (checkBackendPair old cur true []).updated = true := by
  unfold C11.fits at hf
  simp only [Bool.and_eq_true, decide_eq_true_eq, Bool.not_eq_true', List.all_eq_true] at hf
  obtain ⟨⟨⟨⟨hlen, hc⟩, ho⟩, hdo⟩, hdc⟩ := hf
  obtain ⟨s, hs, hu⟩ := pairLoop_fits old.eps cur.eps cur.initialWeight hdo hlen ho (fun e he => (hc e he).2)
  apply cbp_cases old cur true [] (fun o => o.updated = true)
  · intro h; omega
  · intro _ hr'; rw [hr] at hr'; cases hr'
  · intro _ hr'; rw [hr] at hr'; cases hr'
  · intro _ _ hd'; rw [hd] at hd'; cases hd'
  · intro _ _ hd'; rw [hd] at hd'; cases hd'
  · intro _ _ _ h; rcases h with h | h <;> simp_all
  · intro _ _ _ _ _ h; rw [hp, hs] at h; cases h
  · intro _ _ _ _ _ s' hs'
    rw [hp, hs] at hs'
    injection hs' with hs'
    rw [← hs']; exact hu

example : C11.fits exOld exCur = true ∧
    (checkBackendPair (exB exOld) (exB exCur) true []).updated = true := by decide +kernel

/-- executable form of "the current endpoints are the enabled old ones, up to names and order" -/
def noopB (old cur : List EP) : Bool :=
  cur.all (fun c => old.any (fun o => o.enabled && decide (o.target = c.target) && decide ({ c with name := o.name } = o))) &&
  (enOf old).all (fun o => cur.any (fun c => decide (c.target = o.target)))

theorem noop_of_noopB {old cur : List EP} (hO : Distinct old) (hC : Distinct cur) (h : noopB old cur = true) :
    Noop old cur := by
  unfold noopB at h
  simp only [Bool.and_eq_true, List.all_eq_true, List.any_eq_true, decide_eq_true_eq] at h
  obtain ⟨h1, h2⟩ := h
  have hE : AllEnabled cur := by
    apply List.all_eq_true.2
    intro c hc
    obtain ⟨o, _, ⟨hen, _⟩, heq⟩ := h1 c hc
    have : c.enabled = o.enabled := by rw [← heq]
    rw [this, hen]
  refine ⟨hO, targets_nodup hC hE, ?_, ?_⟩
  · intro c hc
    obtain ⟨o, ho, ⟨hen, ht⟩, heq⟩ := h1 c hc
    exact ⟨o, ho, hen, ht, heq⟩
  · intro o ho
    obtain ⟨c, hc, ht⟩ := h2 o ho
    exact ⟨c, hc, ht⟩

/-- **noop_no_reload** — a re-notification without change: no command (whatever HAProxy would answer),
and `updated` is whatever the rest of the comparison said (so no reload when nothing else changed) -/
theorem noop_no_reload (old cur : Back) (same : Bool) (sc : List Resp) (hd : cur.dynUpdate = true)
    (hr : cur.resolver = false) (hlen : cur.eps.length ≤ old.eps.length) (hO : Distinct old.eps)
    (hC : Distinct cur.eps) (hn : noopB old.eps cur.eps = true) :
    (checkBackendPair old cur same sc).updated = same ∧ (checkBackendPair old cur same sc).cmds = [] := by
  obtain ⟨s, hs, hu, hc⟩ := pairLoop_noop (noop_of_noopB hO hC hn) hlen cur.cookiePreserve cur.initialWeight same sc
  apply cbp_cases old cur same sc (fun o => o.updated = same ∧ o.cmds = [])
  · intro h; omega
  · intro _ hr'; rw [hr] at hr'; cases hr'
  · intro _ hr'; rw [hr] at hr'; cases hr'
  · intro _ _ hd'; rw [hd] at hd'; cases hd'
  · intro _ _ hd'; rw [hd] at hd'; cases hd'
  · intro _ _ _ h; rcases h with h | h <;> simp_all
  · intro _ _ _ _ _ h; rw [hs] at h; cases h
  · intro _ _ _ _ _ s' hs'
    rw [hs] at hs'
    injection hs' with hs'
    rw [← hs']; exact ⟨hu, hc⟩

/-- the two servers of `exOld`, other names, other order -/
def exNoopCur : List EP :=
  [{ ex "srv002" "10.0.0.2" true 1 with name := "x" }, { ex "srv001" "10.0.0.1" true 1 with name := "y" }]

/-- non-vacuity: hypotheses hold; nothing is sent although the socket would answer with an error -/
example : noopB exOld exNoopCur = true ∧ Distinct exNoopCur ∧ exNoopCur.length ≤ exOld.length ∧
    (checkBackendPair (exB exOld) (exB exNoopCur) true [.err]).updated = true ∧
    (checkBackendPair (exB exOld) (exB exNoopCur) true [.err]).cmds = [] := by decide +kernel

/-! ## P7 — C07: server names stay pairwise distinct (and dense) -/

/-- the pairing loop hands out exactly the old names -/
theorem pairLoop_names_ok (old cur : List EP) (p : Bool) (iw : Int) (same : Bool) (sc : List Resp)
    (hO : Distinct old) (hC : Distinct cur) (hE : AllEnabled cur) (hlen : cur.length ≤ old.length)
    (ho : namesNodup old = true ∧ dense old = true)
    (s : PairSt) (hs : pairLoop old cur p iw same sc = some s) : namesNodup s.cur = true ∧ dense s.cur = true :=
  ⟨names_nodup old cur p iw same sc hO hC hE hlen ho.1 s hs,
   denseN_perm (names_perm old cur p iw same sc hO hC hE hlen s hs).symm ho.2⟩

/-- **server_names_nodup**, `checkBackendPair` part: unique and dense names on both sides give unique and
dense names in the backend that is kept -/
theorem pair_names_ok (old cur : Back) (same : Bool) (sc : List Resp) (hE : AllEnabled cur.eps)
    (ho : namesNodup old.eps = true ∧ dense old.eps = true) (hc : namesNodup cur.eps = true ∧ dense cur.eps = true) :
    namesNodup (checkBackendPair old cur same sc).cur = true ∧ dense (checkBackendPair old cur same sc).cur = true := by
  apply cbp_cases old cur same sc (fun o => namesNodup o.cur = true ∧ dense o.cur = true) <;> intros <;>
    try exact hc
  · exact addEmpty_fold_ok _ cur hc
  · next hl _ _ hO hC s hs => exact pairLoop_names_ok _ _ _ _ _ _ hO hC hE hl ho s hs

/-- **server_names_nodup**, `alignSlots` part: the names added are `srv(len+1)`, … — fresh under `dense` -/
theorem alignSlots_names_ok (b : Back) (minFree blockSize : Nat) (h : namesNodup b.eps = true ∧ dense b.eps = true) :
    namesNodup (alignSlots b minFree blockSize).eps = true ∧ dense (alignSlots b minFree blockSize).eps = true :=
  alignSlots_ok b minFree blockSize h

example : namesNodup exOld = true ∧ dense exOld = true ∧ namesNodup exCur = true ∧ dense exCur = true ∧
    ((alignSlots (exB exOld) 3 4).eps.map (·.name)) =
      ["srv001", "srv002", "srv003", "srv004", "srv005", "srv006", "srv007", "srv008"] := by decide +kernel

/-- without `dense` the generated name can collide: `srv003` already used by the first of two slots -/
example : namesNodup [ex "srv003" "10.0.0.1" true 1, ex "a" "10.0.0.2" true 1] = true ∧
    namesNodup (addEmpty (exB [ex "srv003" "10.0.0.1" true 1, ex "a" "10.0.0.2" true 1])).eps = false := by
  decide +kernel

end HapVerif.C02Pair
