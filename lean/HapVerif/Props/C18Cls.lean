import HapVerif.Props.C18
import HapVerif.Model.C18Cls
import HapVerif.Drv.C18
import HapVerif.Generated.Facts
/-!
# C18 — authentication declared through IngressClass parameters reaches every path (`cls` lines)

Model: `effPaths m qs` (Model/C18Cls.lean) = what the path links of the backends' annotation mappers
end with after `addBackendWithClass` ran for every path `qs` of the sync, in reading order: Service
annotations, Ingress annotations, parameters of the Ingress's class; `m` selects when the class
parameters are merged (`everyPath` = the code, `firstOnly` = seed C18g: only when the mapper of the
backend is created).
Spec: `specPaths qs` — the declaration of a path is a function of its OWN sources (`declOf`); the
fail-closed Spec of Model/C18.lean is evaluated against it.
-/
namespace HapVerif.C18

theorem effGo_everyPath (seen l : List ClsPath) : effGo .everyPath seen l = l.map specPath := by
  induction l generalizing seen with
  | nil => rfl
  | cons q r ih => simp only [effGo, List.map_cons, ih]; rfl

/-- **class parameters reach every path**: for ALL lists of declared paths — whatever other paths
share a backend, whichever ingress created it, in whatever order the paths are read — the
configuration the annotation updater reads for a path is the declaration of that path: its
Service's annotations, over its Ingress's annotations, over the parameters of its Ingress's class -/
theorem class_params_reach_every_path (l : List ClsPath) : effPaths .everyPath l = specPaths l :=
  effGo_everyPath [] l

theorem class_params_reach_every_path_at (l : List ClsPath) (i : Nat) (q : ClsPath) (h : l[i]? = some q) :
    (effPaths .everyPath l)[i]? = some (specPath q) := by
  rw [class_params_reach_every_path, specPaths, List.getElem?_map, h]; rfl

/-- ... whatever the processing order: a permutation of the paths yields the same configuration
for each of them -/
theorem class_params_order_independent {l l' : List ClsPath} (hp : l.Perm l') {q : ClsPath} (hq : q ∈ l) :
    specPath q ∈ effPaths .everyPath l' := by
  rw [class_params_reach_every_path]
  exact List.mem_map.2 ⟨q, hp.mem_iff.1 hq, rfl⟩

/-- a path of an ingress whose class parameters carry an auth-url that neither its Service nor its
Ingress overrides declares that auth-url -/
theorem class_auth_url_is_declared (q : ClsPath) (c : AnnSet) (u : Url) (hc : q.clsAnn = some c)
    (hu : c.url = .val u) (hs : q.svcAnn.url = .absent) (hi : q.ingAnn.url = .absent) :
    (specPath q).url = .val u := by
  simp [specPath, withAnn, declOf, AnnSet.orElse, hc, hu, hs, hi, UrlAnn.orElse]

/-- an oauth key of the class parameters likewise -/
theorem class_oauth_is_declared (q : ClsPath) (c : AnnSet) (hc : q.clsAnn = some c)
    (hs : q.svcAnn.oauth = .absent) (hi : q.ingAnn.oauth = .absent) :
    (specPath q).oauth = c.oauth := by
  simp [specPath, withAnn, declOf, AnnSet.orElse, hc, hs, hi, OAuthAnn.orElse]

/-- the world the updater runs on -/
def clsWorld (x l : Bool) (rs re : Int) (m : ClsMerge) (qs : List ClsPath) : World :=
  { isExternal := x, hasLua := l, rangeStart := rs, rangeEnd := re, paths := effPaths m qs }

/-- **fail closed for declarations made through class parameters** (the code: merge for every
path link; repaired `buildBackendOAuth`): the fail-closed theorem of Props/C18.lean applies to every
path with the declaration `specPath q` — Service over Ingress over class parameters — for every
list of paths, shared backends, globals, port range and iteration order.  Same side condition as
`fail_closed_partial`. -/
theorem cls_fail_closed_partial (v : Variant) (hv : v.oauthOwn = true) (x l : Bool) (rs re : Int)
    (qs : List ClsPath) (ho bo : List Nat) (i : Nat) (q : ClsPath)
    (hbo : bo.Nodup) (hq : qs[i]? = some q) (hmem : q.base.backend ∈ bo)
    (hside : ¬ ((specPath q).url.nonEmpty = true ∧ ownPlc (specPath q) ≠ .backend)) :
    let w := clsWorld x l rs re .everyPath qs
    pathOk w (run v w ho bo).binds (specPath q) (obsOf w (run v w ho bo) i) = true := by
  intro w
  exact fail_closed_partial v hv w ho bo i (specPath q) hbo
    (class_params_reach_every_path_at qs i q hq) hmem hside

/-! ### witnesses -/

def clsBaseOf (host path backend : Nat) (key : String) : PathIn :=
  { host := host, backend := backend, ord := host * 16 + path, key := key, hamatch := "beg", sub := key ++ "/sub",
    url := .absent, plc := .absent, oauth := .absent, signin := false }

/-- class parameters `auth-url: http://10.0.0.1/auth` -/
def clsParamsUrl : AnnSet := { url := .val (uOk 1 "/auth") }

/-- one ingress of the class, paths /a and /b of one service
(harness: `cls x0l0r2 h1.-.-.- - 1~-.-.-.-~0.0.b.0+0.1.b.0`) -/
def clsShared : List ClsPath :=
  [{ base := clsBaseOf 0 0 0 "h0.local#/a", svcAnn := {}, ingAnn := {}, clsAnn := some clsParamsUrl },
   { base := clsBaseOf 0 1 0 "h0.local#/b", svcAnn := {}, ingAnn := {}, clsAnn := some clsParamsUrl }]

/-- non-vacuity: the second path declares the auth-url of the class and the code protects it -/
example : declaredUrl (specPath clsShared[1]) = true := by decide +kernel

example :
    let w := clsWorld false false 14415 14416 .everyPath clsShared
    let st := run vBoth w [0] [0]
    (obsOf w st 1).rb = [.icpt (.proxy 14415) "/auth" "", .unless false ""] ∧
    clsOracle { w with paths := specPaths clsShared } st.binds clsShared [obsOf w st 0, obsOf w st 1] = none := by
  decide +kernel

/-- **merging the class parameters only when the backend's mapper is created (seed C18g) leaves the
second path of a shared backend unauthenticated**: its path link has no auth-url, the backend
section carries the intercept for the first path id only, the declared path /b has no rule at all -/
theorem class_params_first_only_unprotected :
    let w := clsWorld false false 14415 14416 .firstOnly clsShared
    let st := run vBoth w [0] [0]
    effPaths .firstOnly clsShared ≠ specPaths clsShared ∧
    (obsOf w st 0).rb = [.icpt (.proxy 14415) "/auth" "", .unless false ""] ∧
    (obsOf w st 1).rb = [] ∧
    pathOk w st.binds (specPath clsShared[1]) (obsOf w st 1) = false ∧
    clsOracle { w with paths := specPaths clsShared } st.binds clsShared [obsOf w st 0, obsOf w st 1]
      = some sigClassLost := by
  decide +kernel

/-- ... also across ingresses and when the backend was first reached by an ingress WITHOUT class:
then no path of the class keeps the parameters -/
theorem class_params_first_only_unprotected_after_classless :
    let qs : List ClsPath :=
      [{ base := clsBaseOf 0 0 0 "h0.local#/a", svcAnn := {}, ingAnn := {}, clsAnn := none },
       { base := clsBaseOf 0 1 0 "h0.local#/b", svcAnn := {}, ingAnn := {}, clsAnn := some clsParamsUrl }]
    let w := clsWorld false false 14415 14416 .firstOnly qs
    let st := run vBoth w [0] [0]
    (obsOf w st 1).rb = [] ∧ st.binds = [] ∧
    clsOracle { w with paths := specPaths qs } st.binds qs [obsOf w st 0, obsOf w st 1] = some sigClassLost := by
  decide +kernel

/-- `addBackendWithClass` merges Service annotations, Ingress annotations and class parameters
into the SAME path link, in this order, and the merge of the class parameters is guarded by the
class and the presence of the parameters only — not by the backend's mapper being new: the tree
under test is the `everyPath` variant of the model -/
theorem facts_c18cls :
    Facts.c18ClassMergeCalls = ["pathLink, svcann", "pathLink, ann", "pathLink, cfg"] ∧
    Facts.c18ClassMergeConds = ["ingressClass != nil", "cfg := c.readParameters(ingressClass); cfg != nil"] ∧
    currentClsMerge = .everyPath := by
  decide +kernel

end HapVerif.C18
