import HapVerif.Model.C02Sock
import HapVerif.Generated.Facts
import HapVerif.Props.C02Pair
/-!
# C02, M-Sock — the runtime commands reach the worker that receives the traffic

`pair_sound` (Props/C02Pair.lean) says: the commands of an accepted dynamic update turn the table LOADED FROM THE OLD
FILES into the table the new files would load.  That is a statement about the running HAProxy only if the commands
are executed by the worker that runs — HAProxy keeps the former worker alive for the CLI connections it has
accepted, and a command on such a connection changes the former worker only (Model/C02Sock.lean).

* `send_fresh`, `batches_fresh` — a socket WITHOUT keep-alive dials for every `Send`: the commands are executed by
  the newest worker, no connection is left behind (so none survives a reload);
* `history_sound` — for ALL histories of `HAProxyUpdate`s (any batches, any reloads) in which every update that does
  not reload is sound on the files (`Accepted`: what `pair_sound` proves) the newest worker is equivalent to the files
  after every update, for any equivalence the commands respect;
* `history_sound_sock` — the composition with `pair_sound` on the server table of M-Dyn: histories of accepted
  `checkBackendPair` updates and reloads;
* `kept_connection_misses_newest`, `stale_after_reload` — with keep-alive the connection stays bound to the worker
  that accepted it: after a reload NOTHING the client sends reaches the newest worker;
* `kept_connection_diverges` — kernel-checked counter-example (seed C02f): reload, update, reload, update with a kept
  connection: the files say 10.0.0.4, the worker that receives the traffic still has 10.0.0.3;
* `wire_enable_eq`, `wire_disable_eq` — the three wire commands of one exec are `applyCmd` on the backend's servers;
* `facts_c02_sock` — regenerated from connections.go / socket.go: the dynamic updater's socket is created without
  keep-alive, and `Send` closes the connection of such a socket.
-/
namespace HapVerif.C02Sock
open HapVerif.C02 HapVerif.C02Pair

/-! ## a socket without keep-alive talks to the newest worker -/

section generic
variable {T K : Type} (apply : T → K → T)

theorem cmd_newest (h : Hap T) (c : Nat) (k : K) (hb : h.bound c = some h.old.length) :
    h.cmd apply c k = { h with cur := apply h.cur k } := by
  unfold Hap.cmd
  rw [hb]
  simp

theorem cmds_newest (cmds : List K) : ∀ (h : Hap T) (c : Nat), h.bound c = some h.old.length →
    cmds.foldl (fun h k => h.cmd apply c k) h = { h with cur := cmds.foldl apply h.cur } := by
  induction cmds with
  | nil => intro h c _; rfl
  | cons k ks ih =>
    intro h c hb
    rw [List.foldl_cons, cmd_newest apply h c k hb]
    exact ih { h with cur := apply h.cur k } c hb

/-- a connection that has just been accepted is served by the newest worker -/
theorem accept_bound (h : Hap T) : h.accept.1.bound h.accept.2 = some h.accept.1.old.length := by
  simp [Hap.accept, Hap.bound]

/-- **send_fresh** — one `Send` on a socket without keep-alive and without a connection: the commands are executed by
the newest worker, the former workers are untouched, and the socket is left without a connection -/
theorem send_fresh (cl : Client) (h : Hap T) (cmds : List K) (hk : cl.keepalive = false) (hc : cl.conn = none) :
    (cl.send apply h cmds).1.keepalive = false ∧ (cl.send apply h cmds).1.conn = none ∧
    (cl.send apply h cmds).2.cur = cmds.foldl apply h.cur ∧ (cl.send apply h cmds).2.old = h.old := by
  unfold Client.send
  simp only [hc, hk]
  rw [cmds_newest apply cmds _ _ (accept_bound h)]
  simp [Hap.close, Hap.accept]

/-- the batches of one dynamic update -/
theorem batches_fresh (bs : List (List K)) : ∀ (cl : Client) (h : Hap T), cl.keepalive = false → cl.conn = none →
    (bs.foldl (fun (p : Client × Hap T) b => p.1.send apply p.2 b) (cl, h)).1.keepalive = false ∧
    (bs.foldl (fun (p : Client × Hap T) b => p.1.send apply p.2 b) (cl, h)).1.conn = none ∧
    (bs.foldl (fun (p : Client × Hap T) b => p.1.send apply p.2 b) (cl, h)).2.cur = bs.flatten.foldl apply h.cur ∧
    (bs.foldl (fun (p : Client × Hap T) b => p.1.send apply p.2 b) (cl, h)).2.old = h.old := by
  induction bs with
  | nil => intro cl h hk hc; exact ⟨hk, hc, rfl, rfl⟩
  | cons b bs ih =>
    intro cl h hk hc
    obtain ⟨h1, h2, h3, h4⟩ := send_fresh apply cl h b hk hc
    rw [List.foldl_cons]
    obtain ⟨i1, i2, i3, i4⟩ := ih (cl.send apply h b).1 (cl.send apply h b).2 h1 h2
    refine ⟨i1, i2, ?_, ?_⟩
    · rw [i3, h3, List.flatten_cons, List.foldl_append]
    · rw [i4, h4]

/-- **step_fresh** — one `HAProxyUpdate` with a socket without keep-alive: all commands are executed by the worker
that was the newest one when the update started; a reload replaces it by a worker that loaded the written files -/
theorem step_fresh (w : World T) (s : Step K T) (hk : w.dyn.keepalive = false) (hc : w.dyn.conn = none) :
    (step apply w s).dyn.keepalive = false ∧ (step apply w s).dyn.conn = none ∧ (step apply w s).disk = s.written ∧
    (step apply w s).hap.cur = if s.reload then s.written else s.batches.flatten.foldl apply w.hap.cur := by
  obtain ⟨h1, h2, h3, _⟩ := batches_fresh apply s.batches w.dyn w.hap hk hc
  refine ⟨h1, h2, rfl, ?_⟩
  unfold step
  cases hr : s.reload
  · simpa using h3
  · simp [Hap.reload]

/-! ## histories -/

/-- an update is ACCEPTED when it reloads, or when its commands turn what the old files load into what the new files
load, up to the equivalence `R` (this is what `pair_sound` proves about `checkBackendPair`) -/
def Accepted (R : T → T → Prop) (w : World T) (s : Step K T) : Prop :=
  s.reload = true ∨ R (s.batches.flatten.foldl apply w.disk) s.written

/-- every update of the history is accepted in the state it is executed in -/
def RunOK (R : T → T → Prop) : World T → List (Step K T) → Prop
  | _, [] => True
  | w, s :: rest => Accepted apply R w s ∧ RunOK R (step apply w s) rest

/-- the invariant: the dynamic updater holds no connection, and the worker that receives the traffic is equivalent to
what the files on disk would load -/
structure Inv (R : T → T → Prop) (w : World T) : Prop where
  nokeep : w.dyn.keepalive = false
  noconn : w.dyn.conn = none
  sound : R w.hap.cur w.disk

theorem foldl_cong (R : T → T → Prop) (hcong : ∀ a b k, R a b → R (apply a k) (apply b k)) (l : List K) :
    ∀ a b, R a b → R (l.foldl apply a) (l.foldl apply b) := by
  induction l with
  | nil => intro a b h; exact h
  | cons k ks ih => intro a b h; exact ih _ _ (hcong a b k h)

theorem step_inv (R : T → T → Prop) (hrefl : ∀ t, R t t) (htrans : ∀ a b c, R a b → R b c → R a c)
    (hcong : ∀ a b k, R a b → R (apply a k) (apply b k)) (w : World T) (s : Step K T) (hi : Inv R w)
    (ha : Accepted apply R w s) : Inv R (step apply w s) := by
  obtain ⟨h1, h2, h3, h4⟩ := step_fresh apply w s hi.nokeep hi.noconn
  refine ⟨h1, h2, ?_⟩
  rw [h3, h4]
  cases hr : s.reload
  · rcases ha with ha | ha
    · rw [hr] at ha; cases ha
    · simp only [Bool.false_eq_true, if_false]
      exact htrans _ _ _ (foldl_cong apply R hcong _ _ _ hi.sound) ha
  · simp only [if_true]; exact hrefl _

/-- **history_sound** — ALL histories: if the dynamic updater's socket has no keep-alive (no connection survives an
update, hence none survives a reload) and every update is accepted, then after every update the worker that receives
the traffic is equivalent to what the files on disk would load -/
theorem history_sound (R : T → T → Prop) (hrefl : ∀ t, R t t) (htrans : ∀ a b c, R a b → R b c → R a c)
    (hcong : ∀ a b k, R a b → R (apply a k) (apply b k)) (steps : List (Step K T)) :
    ∀ w : World T, Inv R w → RunOK apply R w steps → Inv R (run apply w steps) := by
  induction steps with
  | nil => intro w hi _; exact hi
  | cons s rest ih =>
    intro w hi hok
    exact ih _ (step_inv apply R hrefl htrans hcong w s hi hok.1) hok.2

theorem runOK_take (R : T → T → Prop) (steps : List (Step K T)) : ∀ (n : Nat) (w : World T),
    RunOK apply R w steps → RunOK apply R w (steps.take n) := by
  induction steps with
  | nil => intro n w h; simpa using h
  | cons s rest ih =>
    intro n w h
    cases n with
    | zero => trivial
    | succ n => exact ⟨h.1, ih n _ h.2⟩

/-- … after EVERY update of the history, not only the last one -/
theorem history_sound_every_step (R : T → T → Prop) (hrefl : ∀ t, R t t) (htrans : ∀ a b c, R a b → R b c → R a c)
    (hcong : ∀ a b k, R a b → R (apply a k) (apply b k)) (steps : List (Step K T)) (w : World T) (hi : Inv R w)
    (hok : RunOK apply R w steps) (n : Nat) :
    R (run apply w (steps.take n)).hap.cur (run apply w (steps.take n)).disk :=
  (history_sound apply R hrefl htrans hcong _ w hi (runOK_take apply R steps n w hok)).sound

/-! ## with keep-alive the connection stays with the worker that accepted it -/

theorem cmd_former (h : Hap T) (c g : Nat) (k : K) (hb : h.bound c = some g) (hg : g ≠ h.old.length) :
    (h.cmd apply c k).cur = h.cur ∧ (h.cmd apply c k).old.length = h.old.length ∧ (h.cmd apply c k).conns = h.conns := by
  unfold Hap.cmd
  rw [hb]
  simp [hg]

theorem cmds_former (cmds : List K) : ∀ (h : Hap T) (c g : Nat), h.bound c = some g → g ≠ h.old.length →
    (cmds.foldl (fun h k => h.cmd apply c k) h).cur = h.cur ∧
    (cmds.foldl (fun h k => h.cmd apply c k) h).old.length = h.old.length ∧
    (cmds.foldl (fun h k => h.cmd apply c k) h).conns = h.conns := by
  induction cmds with
  | nil => intro h c g _ _; exact ⟨rfl, rfl, rfl⟩
  | cons k ks ih =>
    intro h c g hb hg
    obtain ⟨h1, h2, h3⟩ := cmd_former apply h c g k hb hg
    have hb' : (h.cmd apply c k).bound c = some g := by unfold Hap.bound at hb ⊢; rw [h3]; exact hb
    obtain ⟨i1, i2, i3⟩ := ih (h.cmd apply c k) c g hb' (by rw [h2]; exact hg)
    rw [List.foldl_cons]
    exact ⟨i1.trans h1, i2.trans h2, i3.trans h3⟩

/-- **kept_connection_misses_newest** — a socket WITH keep-alive whose connection was accepted by a former worker:
whatever it sends, the worker that receives the traffic does not change (and the connection stays where it is) -/
theorem kept_connection_misses_newest (cl : Client) (h : Hap T) (cmds : List K) (c g : Nat)
    (hk : cl.keepalive = true) (hc : cl.conn = some c) (hb : h.bound c = some g) (hg : g ≠ h.old.length) :
    (cl.send apply h cmds).2.cur = h.cur ∧ (cl.send apply h cmds).1.conn = some c ∧
    (cl.send apply h cmds).2.bound c = some g := by
  obtain ⟨h1, _, h3⟩ := cmds_former apply cmds h c g hb hg
  unfold Client.send
  simp only [hc, hk, if_true]
  refine ⟨h1, by simp, ?_⟩
  unfold Hap.bound at hb ⊢
  rw [h3]; exact hb

/-- **stale_after_reload** — every established connection misses the worker started by a reload -/
theorem stale_after_reload (h : Hap T) (loaded : T) (c g : Nat) (hb : h.bound c = some g) (hg : g ≤ h.old.length) :
    (h.reload loaded).bound c = some g ∧ g ≠ (h.reload loaded).old.length := by
  refine ⟨hb, ?_⟩
  simp only [Hap.reload, List.length_append, List.length_cons, List.length_nil]
  omega

end generic

/-! ## the server table of M-Dyn -/

/-- what one command does to one observable row -/
def rowUpd (c : Cmd) (r : NRow) : NRow :=
  if r.1 = cmdName c then normSrv (updSrv c { name := r.1, ip := "", port := 0, state := .ready, weight := 0 }) else r

theorem normSrv_updSrv (c : Cmd) (s : Srv) : normSrv (updSrv c s) = rowUpd c (normSrv s) := by
  unfold rowUpd
  rw [normSrv_fst]
  by_cases hn : s.name = cmdName c
  · rw [if_pos hn]
    cases c with
    | disable n =>
      simp only [cmdName] at hn
      simp [updSrv, hn, normSrv]
    | enable n ip port w =>
      simp only [cmdName] at hn
      simp only [updSrv, hn, if_true]
  · simp [updSrv_other c s hn, hn]

theorem norm_applyCmd (t : List Srv) (c : Cmd) : norm (applyCmd t c) = (norm t).map (rowUpd c) := by
  rw [applyCmd_eq]
  simp [norm, List.map_map, Function.comp_def, normSrv_updSrv]

/-- "the same observable rows": the equivalence of the history theorem -/
def RowsEq (a b : List Srv) : Prop := (norm a).Perm (norm b)

theorem rowsEq_cong (a b : List Srv) (c : Cmd) (h : RowsEq a b) : RowsEq (applyCmd a c) (applyCmd b c) := by
  unfold RowsEq at h ⊢
  rw [norm_applyCmd, norm_applyCmd]
  exact h.map _

theorem rowsEq_of_sortN {a b : List Srv} (h : sortN (norm a) = sortN (norm b)) : RowsEq a b :=
  (sortN_perm _).symm.trans ((h ▸ List.Perm.refl _ : (sortN (norm a)).Perm (sortN (norm b))).trans (sortN_perm _))

theorem sortN_of_rowsEq {a b : List Srv} (h : RowsEq a b) (hn : (b.map (·.name)).Nodup) :
    sortN (norm a) = sortN (norm b) := by
  refine sortN_eq_of_perm h ?_
  have : ((norm b).map (·.1)).Nodup := by rw [norm_keys]; exact hn
  exact (h.map (·.1)).nodup_iff.2 this

theorem flatten_singletons {α : Type} (l : List α) : (l.map (fun x => [x])).flatten = l := by
  induction l with
  | nil => rfl
  | cons x xs ih => simp [ih]

/-- names of the result of `checkBackendPair` -/
theorem cbp_names (old cur : Back) (same : Bool) (sc : List Resp) (hr : cur.resolver = false)
    (hE : AllEnabled cur.eps) (hN : namesNodup old.eps = true) (hNc : namesNodup cur.eps = true) :
    namesNodup (checkBackendPair old cur same sc).cur = true := by
  apply cbp_cases old cur same sc (fun o => namesNodup o.cur = true) <;> intros <;> try exact hNc
  · next hr' _ => rw [hr] at hr'; cases hr'
  · next hl _ _ hO hC s hs => exact names_nodup _ _ _ _ _ _ hO hC hE hl hN s hs

/-- one `HAProxyUpdate` on one backend -/
inductive CStep
  /-- anything that needs a reload (a refused dynamic update included: `sent` = what it had sent before): the files
  are written from `eps`, a new worker loads them -/
  | reload (sent : List Cmd) (eps : List EP)
  /-- a dynamic update: `checkBackendPair` of the committed backend against `cur` with the answers `sc` -/
  | dyn (cur : Back) (same : Bool) (sc : List Resp)

/-- the controller (`mem` = endpoints of the committed backend = what was written last) next to HAProxy -/
structure CWorld where
  w : World (List Srv)
  mem : List EP

def cstep (b0 : Back) (cw : CWorld) : CStep → CWorld
  | .reload sent eps => ⟨step applyCmd cw.w ⟨sent.map (fun c => [c]), load eps, true⟩, eps⟩
  | .dyn cur same sc =>
    let o := checkBackendPair { b0 with eps := cw.mem } cur same sc
    ⟨step applyCmd cw.w ⟨o.cmds.map (fun c => [c]), load o.cur, false⟩, o.cur⟩

/-- side conditions of a step: a dynamic step is one that `checkBackendPair` ACCEPTED (`updated`), on a backend
without resolver whose current endpoints are enabled and carry distinct names (what the converters build) -/
def COk (b0 : Back) (cw : CWorld) : CStep → Prop
  | .reload _ eps => namesNodup eps = true
  | .dyn cur same sc => cur.resolver = false ∧ AllEnabled cur.eps ∧ namesNodup cur.eps = true ∧
      (checkBackendPair { b0 with eps := cw.mem } cur same sc).updated = true

def CRunOK (b0 : Back) : CWorld → List CStep → Prop
  | _, [] => True
  | cw, s :: rest => COk b0 cw s ∧ CRunOK b0 (cstep b0 cw s) rest

instance (b0 : Back) (cw : CWorld) (s : CStep) : Decidable (COk b0 cw s) := by
  cases s <;> (unfold COk; infer_instance)

instance decCRunOK (b0 : Back) : ∀ (cw : CWorld) (steps : List CStep), Decidable (CRunOK b0 cw steps)
  | _, [] => isTrue trivial
  | cw, s :: rest => by
    unfold CRunOK
    exact @instDecidableAnd _ _ _ (decCRunOK b0 _ rest)

def crun (b0 : Back) (cw : CWorld) (steps : List CStep) : CWorld := steps.foldl (cstep b0) cw

structure CInv (cw : CWorld) : Prop where
  inv : Inv RowsEq cw.w
  disk : cw.w.disk = load cw.mem
  names : namesNodup cw.mem = true

theorem cstep_inv (b0 : Back) (cw : CWorld) (s : CStep) (hi : CInv cw) (hok : COk b0 cw s) : CInv (cstep b0 cw s) := by
  have hrefl : ∀ t : List Srv, RowsEq t t := fun _ => List.Perm.refl _
  have htrans : ∀ a b c : List Srv, RowsEq a b → RowsEq b c → RowsEq a c := fun _ _ _ h1 h2 => h1.trans h2
  cases s with
  | reload sent eps =>
    refine ⟨step_inv applyCmd RowsEq hrefl htrans rowsEq_cong _ _ hi.inv (Or.inl rfl), rfl, hok⟩
  | dyn cur same sc =>
    obtain ⟨hr, hE, hNc, hu⟩ := hok
    refine ⟨step_inv applyCmd RowsEq hrefl htrans rowsEq_cong _ _ hi.inv (Or.inr ?_), rfl, ?_⟩
    · show RowsEq (((checkBackendPair { b0 with eps := cw.mem } cur same sc).cmds.map (fun c => [c])).flatten.foldl
        applyCmd cw.w.disk) (load (checkBackendPair { b0 with eps := cw.mem } cur same sc).cur)
      rw [flatten_singletons, hi.disk]
      exact rowsEq_of_sortN (pair_sound { b0 with eps := cw.mem } cur same sc hr hE hi.names hu)
    · exact cbp_names { b0 with eps := cw.mem } cur same sc hr hE hi.names hNc

/-- **history_sound_sock** — composition with `pair_sound`.  For EVERY history of reloads and accepted dynamic
updates of a backend, with the dynamic updater's socket as the code creates it (no keep-alive): after every
`HAProxyUpdate` the worker that receives the traffic holds — server by server, a server in maintenance being only a
name — what the files just written would load -/
theorem history_sound_sock (b0 : Back) (steps : List CStep) : ∀ cw : CWorld, CInv cw → CRunOK b0 cw steps →
    CInv (crun b0 cw steps) ∧
    sortN (norm (crun b0 cw steps).w.hap.cur) = sortN (norm (load (crun b0 cw steps).mem)) := by
  induction steps with
  | nil =>
    intro cw hi _
    simp only [crun, List.foldl_nil]
    refine ⟨hi, ?_⟩
    have h := hi.inv.sound
    rw [hi.disk] at h
    refine sortN_of_rowsEq h ?_
    have := (namesNodup_iff cw.mem).1 hi.names
    simpa [load, List.map_map, Function.comp_def, loadSrv] using this
  | cons s rest ih =>
    intro cw hi hok
    exact ih _ (cstep_inv b0 cw s hi hok.1) hok.2

/-- the state right after the first reload: the worker has loaded the files -/
def cstart (keepalive : Bool) (eps : List EP) : CWorld :=
  ⟨⟨{ old := [[]], cur := load eps }, ⟨keepalive, none⟩, load eps⟩, eps⟩

theorem cstart_inv (eps : List EP) (hN : namesNodup eps = true) : CInv (cstart false eps) :=
  ⟨⟨rfl, rfl, List.Perm.refl _⟩, rfl, hN⟩

/-! ## the counter-example: a connection kept across a reload (seed C02f) -/

def wEps : List EP := [ex "srv001" "10.0.0.1" true 1, ex "srv002" "10.0.0.2" true 1]
def wCur1 : Back := exB [ex "srv001" "10.0.0.1" true 1, ex "srv002" "10.0.0.3" true 1]
def wCur2 : Back := exB [ex "srv001" "10.0.0.1" true 1, ex "srv002" "10.0.0.4" true 1]

/-- a pod replaced (runtime), something that reloads, the pod replaced again (runtime) -/
def wSteps : List CStep := [.dyn wCur1 true [], .reload [] wCur1.eps, .dyn wCur2 true []]

/-- non-vacuity of `history_sound_sock`: the history meets the side conditions, both updates are applied at run time
with three commands each, and without keep-alive the newest worker follows the files -/
example : CRunOK (exB []) (cstart false wEps) wSteps ∧
    (crun (exB []) (cstart false wEps) wSteps).w.hap.cur = load (crun (exB []) (cstart false wEps) wSteps).mem ∧
    (crun (exB []) (cstart false wEps) wSteps).w.hap.old.length = 2 := by
  refine ⟨?_, ?_, ?_⟩ <;> decide +kernel

/-- **kept_connection_diverges** — the same history with keep-alive on the dynamic updater's socket (seed C02f): every
answer was OK, both updates were accepted, the files say 10.0.0.4 — the worker that receives the traffic still has
10.0.0.3, the commands of the second update went to the worker of the first one -/
theorem kept_connection_diverges :
    CRunOK (exB []) (cstart true wEps) wSteps ∧
    sortN (norm (crun (exB []) (cstart true wEps) wSteps).w.hap.cur) ≠
      sortN (norm (load (crun (exB []) (cstart true wEps) wSteps).mem)) ∧
    ((crun (exB []) (cstart true wEps) wSteps).w.hap.cur.map (·.ip)) = ["10.0.0.1", "10.0.0.3"] ∧
    ((crun (exB []) (cstart true wEps) wSteps).mem.map (·.ip)) = ["10.0.0.1", "10.0.0.4"] ∧
    ((crun (exB []) (cstart true wEps) wSteps).w.hap.old.getD 1 []).map (·.ip) = ["10.0.0.1", "10.0.0.4"] := by
  refine ⟨?_, ?_, ?_, ?_, ?_⟩ <;> decide +kernel

/-! ## wire level: the three commands of one exec -/

/-- the servers of backend `be` after one model command -/
def applyBe (t : List (String × List Srv)) (be : String) (c : Cmd) : List (String × List Srv) :=
  t.map fun bl => if bl.1 = be then (bl.1, applyCmd bl.2 c) else bl

/-- **wire_enable_eq** — `set server be/n addr …`, `… state …`, `… weight …` = `applyCmd (.enable …)` on `be` -/
theorem wire_enable_eq (t : WTable) (be n ip : String) (port : Nat) (w : Int) :
    (wireEnable be n ip port w).foldl applyW t = { t with srvs := applyBe t.srvs be (.enable n ip port w) } := by
  simp only [wireEnable, List.foldl_cons, List.foldl_nil, applyW, updBe, applyBe, List.map_map]
  congr 1
  apply List.map_congr_left
  intro bl _
  by_cases hb : bl.1 = be
  · simp only [Function.comp_def, hb, if_true, List.map_map, applyCmd_eq]
    congr 1
    apply List.map_congr_left
    intro s _
    by_cases hs : s.name = n <;> simp [updSrv, hs]
  · simp [Function.comp_def, hb]

/-- **wire_disable_eq** — the three commands of `execDisableEndpoint` = `applyCmd (.disable n)` on `be` -/
theorem wire_disable_eq (t : WTable) (be n : String) :
    (wireDisable be n).foldl applyW t = { t with srvs := applyBe t.srvs be (.disable n) } := by
  simp only [wireDisable, List.foldl_cons, List.foldl_nil, applyW, updBe, applyBe, List.map_map]
  congr 1
  apply List.map_congr_left
  intro bl _
  by_cases hb : bl.1 = be
  · simp only [Function.comp_def, hb, if_true, List.map_map, applyCmd_eq]
    congr 1
    apply List.map_congr_left
    intro s _
    by_cases hs : s.name = n <;> simp [updSrv, hs]
  · simp [Function.comp_def, hb]

theorem mem_zip_self {α : Type} (l : List α) (p : α × α) (h : p ∈ l.zip l) : p.1 = p.2 := by
  induction l with
  | nil => simp at h
  | cons x xs ih =>
    simp only [List.zip_cons_cons, List.mem_cons] at h
    rcases h with rfl | h
    · rfl
    · exact ih h

/-- a worker that has just loaded the files passes the Spec -/
theorem tablesDiffer_refl (t : WTable) : tablesDiffer t t = none := by
  unfold tablesDiffer
  simp
  intro a b c d h
  have := mem_zip_self _ _ h
  simp at this
  rw [this.2]

/-! ## facts regenerated from the Go sources on every run -/

/-- the socket of the dynamic updater is created on the admin socket WITHOUT keep-alive (`Client.keepalive = false`
in `history_sound`); `sock.Send` asks for the prompt and closes the connection when the socket has no keep-alive, and
`acquireConn` dials only when there is no connection (`Client.send`) -/
theorem facts_c02_sock :
    Facts.c02DynUpdateNewSocket = "socket.NewSocket(c.adminSock, false)" ∧
    Facts.c02SockSendKeepAliveConds = ["!s.keepalive && len(command) > 1", "!s.keepalive"] ∧
    Facts.c02SockSendClosesWithoutKeepAlive = true ∧
    Facts.c02SockDialCond = "s.conn == nil" := by
  decide

end HapVerif.C02Sock
