import HapVerif.Props.C12
/-!
C12, satellite: the source address of a backend (`hatypes.Backend.SourceIPs`, annotation source-address-intf).

The rendering of a backend carries `source <ip>` on its server lines iff the backend has a source address, and
that text does not come from the renderer: `Backends.FillSourceIPs` (changed set) / `FillAllSourceIPs` (every
backend, when a rewrite is owed; repo commit b7287f0) copy it into `Endpoint.SourceIP` inside `HAProxyUpdate`.
In the abstraction the source address is part of the backend CONTENT (`hasSource`: odd conf; the harness gives such
a backend `SourceIPs = [192.168.0.9]`), so "file = rendering of the in-memory model" (`DiskGood`) includes it; the
harness decodes a server line that does not say about the source address what its content demands to a number no
content renders to (`decode`, cfg + 1000), which `DiskGood` on the implementation's observation then refuses
(clause change-lost-after-failed-cfg-write).
-/
namespace HapVerif.C12
open HapVerif.C05
variable {p : Nat}

/-- what FillSourceIPs contributes to the rendering of a backend: `source <ip>` iff the content has a source address -/
def hasSource (c : Content) : Bool := conf c % 2 == 1

/-- a backend section as the harness decodes it: `cfg` from `balance` and the server address, `src` = the server
line carries `source <ip>` -/
def decode (cfg : Nat) (src : Bool) : Nat := if src == (cfg / 4 % 2 == 1) then cfg else cfg + 1000

/-- the decoding is the content exactly when the source address was filled as the content demands -/
theorem decode_faithful_iff (c : Content) (src : Bool) : decode c.cfg src = c.cfg ↔ src = hasSource c := by
  unfold decode hasSource conf
  by_cases h : src = (c.cfg / 4 % 2 == 1)
  · simp [h]
  · have h' : (src == (c.cfg / 4 % 2 == 1)) = false := by simpa using h
    simp [h', h]

/-- **the owed rewrite re-derives the source address of ALL backends**: after any disciplined history with any
faults the next fault-free update leaves, in every file, every backend = the rendering of its in-memory item,
source address included - also the backends of the update that failed, which are in no changed set any more. -/
theorem owed_rewrite_fills_every_source (o : Opt) (sh : Sh p) (wf : sh.WF) (hrep : o.repaired = true)
    (hq : o.queue = false) (hist : List (Ev p)) (hok : allOk o sh {} hist = true) (k : Nat) (x : Fin p) (c : Content)
    (hd : (upd o sh .none (run o sh {} hist)).w.g.w.disk k x = some c) :
    (upd o sh .none (run o sh {} hist)).w.g.w.store.items x = some c ∧ decode c.cfg (hasSource c) = c.cfg := by
  have h := (retry_converges o sh wf hrep hq hist hok).2.1.1 k x
  rw [hd] at h
  refine ⟨?_, (decode_faithful_iff c (hasSource c)).2 rfl⟩
  unfold itemsIn at h
  by_cases hs : sh.shardOf x = k
  · simp [hs] at h; exact h.symm
  · simp [hs] at h

/-- non-vacuity of `decode`: a backend with a source address whose server line lacks it is no rendering -/
example : decode 4 false = 1004 ∧ decode 4 true = 4 ∧ decode 8 false = 8 ∧ decode 8 true = 1008 := by decide

end HapVerif.C12
