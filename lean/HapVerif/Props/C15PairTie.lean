import HapVerif.Model.C15PairViews
import HapVerif.Generated.CodeC15
/-!
# C15 — tie of `dynUpdater.checkHostPair` (pkg/haproxy/dynupdate.go): in-place certificate rotation

REGENERATED on every run (Generated/CodeC15.lean).  For EVERY pair view: a re-created host is accepted without a
reload exactly when nothing but the three certificate fields differs AND — if the host serves TLS from the same file
with a new content hash — the runtime API accepted the new certificate.  The answer of `execUpdateCert` matters only
in that case (Go's `&&` does not evaluate it otherwise: no command is sent for an unchanged certificate), and a
rotation the runtime API refuses is a reload, never a silently stale certificate.
-/
namespace HapVerif.C15PairTie
open HapVerif C15Pair

/-- the certificate of the host must be swapped in the running process -/
def rotates (v : PairView) : Bool := v.hasTLS && (v.oldHash != v.curHash) && (v.oldFilename == v.curFilename)

theorem checkHostPair_tie (v : PairView) :
    CodeC15.checkHostPair v = (!v.differsOutsideCert && (!rotates v || v.execOk)) := by
  unfold CodeC15.checkHostPair rotates
  cases v.differsOutsideCert <;> cases v.hasTLS <;> cases (v.oldHash != v.curHash) <;>
    cases (v.oldFilename == v.curFilename) <;> cases v.execOk <;> rfl

/-- a difference outside the certificate is never accepted as dynamic -/
theorem other_difference_reloads (v : PairView) (h : v.differsOutsideCert = true) : CodeC15.checkHostPair v = false := by
  rw [checkHostPair_tie]; simp [h]

/-- **a refused rotation reloads** (the new process reads the new file) -/
theorem refused_rotation_reloads (v : PairView) (hr : rotates v = true) (he : v.execOk = false) :
    CodeC15.checkHostPair v = false := by
  rw [checkHostPair_tie]; simp [hr, he]

/-- **an accepted rotation with nothing else changed stays dynamic** -/
theorem accepted_rotation_dynamic (v : PairView) (hd : v.differsOutsideCert = false) (he : v.execOk = true) :
    CodeC15.checkHostPair v = true := by
  rw [checkHostPair_tie]; simp [hd, he]

/-- the answer of the runtime API is irrelevant unless the certificate rotates -/
theorem exec_irrelevant_without_rotation (v : PairView) (b : Bool) (hr : rotates v = false) :
    CodeC15.checkHostPair { v with execOk := b } = CodeC15.checkHostPair v := by
  have hr' : rotates { v with execOk := b } = false := by simpa [rotates] using hr
  rw [checkHostPair_tie, checkHostPair_tie, hr', hr]; simp

example : CodeC15.checkHostPair ⟨false, true, "a", "b", "/f", "/f", false⟩ = false := by decide
example : CodeC15.checkHostPair ⟨false, true, "a", "b", "/f", "/f", true⟩ = true := by decide
example : CodeC15.checkHostPair ⟨false, true, "a", "a", "/f", "/f", false⟩ = true := by decide

end HapVerif.C15PairTie
