import HapVerif.Model.C05Count
/-!
C05 — `Hosts.sslPassthroughCount` is the number of ssl-passthrough hosts of the current item set after EVERY
history of `AcquireHost` / `SetSSLPassthrough` / in-place changes / `RemoveAll` / `Shrink` / `Commit` /
`config.Clear()` that follows the `converters.Sync` discipline (`RemoveAll` before the re-adds of a batch):
`count_eq_passthrough_hosts` (invariant `Inv`, induction over the history), hence
`HasSSLPassthrough()` — which decides whether haproxy.cfg holds the SNI frontend — is true exactly when the
item set holds such a host (`has_ssl_passthrough_iff`).  `Shrink` modelled as the code does it: the dropped
twin is not released again (`shrink_keeps_count`, `shrink_keeps_items`); a `Shrink` that releases it a second
time breaks the invariant (`double_release_breaks`, seeded defect C05g), and so does a history outside the
discipline on the code as it is (`undisciplined_resurrects`).
-/
namespace HapVerif.C05Cnt

theorem cnt_none {p : Nat} : ∀ l : List (Fin p), cnt (fun _ => none) l = 0
  | [] => rfl
  | _ :: l => by simp [cnt, passOf, b2n, cnt_none l]

theorem cnt_upd_notin {p : Nat} (f : Fin p → Option H) (x : Fin p) (v : Option H) :
    ∀ l : List (Fin p), x ∉ l → cnt (upd f x v) l = cnt f l
  | [], _ => rfl
  | y :: l, h => by
    have hy : y ≠ x := fun e => h (by simp [e])
    have hl : x ∉ l := fun e => h (by simp [e])
    simp [cnt, upd, hy, cnt_upd_notin f x v l hl]

theorem cnt_upd_in {p : Nat} (f : Fin p → Option H) (x : Fin p) (v : Option H) :
    ∀ l : List (Fin p), l.Nodup → x ∈ l →
      cnt (upd f x v) l + b2n (passOf (f x)) = cnt f l + b2n (passOf v)
  | [], _, h => by simp at h
  | y :: l, nd, h => by
    have ndl : l.Nodup := (List.nodup_cons.mp nd).2
    have hyl : y ∉ l := (List.nodup_cons.mp nd).1
    by_cases e : y = x
    · subst e
      have := cnt_upd_notin f y v l hyl
      simp [cnt, upd, this]; omega
    · have hx : x ∈ l := by
        rcases List.mem_cons.mp h with h | h
        · exact absurd h.symm e
        · exact h
      have := cnt_upd_in f x v l ndl hx
      simp [cnt, upd, e]; omega

/-- one entry of the item set replaced: the number of passthrough hosts moves by the two flags -/
theorem passHosts_upd {p : Nat} (f : Fin p → Option H) (x : Fin p) (v : Option H) :
    cnt (upd f x v) (List.finRange p) + b2n (passOf (f x)) = cnt f (List.finRange p) + b2n (passOf v) :=
  cnt_upd_in f x v _ (List.nodup_finRange p) (List.mem_finRange x)

theorem cnt_pos_iff {p : Nat} (f : Fin p → Option H) :
    ∀ l : List (Fin p), cnt f l > 0 ↔ ∃ x, x ∈ l ∧ passOf (f x) = true
  | [] => by simp [cnt]
  | y :: l => by
    have ih := cnt_pos_iff f l
    by_cases hy : passOf (f y) = true
    · have : ∃ x, x ∈ y :: l ∧ passOf (f x) = true := ⟨y, by simp, hy⟩
      simp only [cnt, b2n, hy, if_true, this, iff_true]; omega
    · simp only [Bool.not_eq_true] at hy
      simp [cnt, b2n, hy]
      simpa using ih

/-- the invariant: an object of `itemsAdd` is the object of `items` (the pointer `AcquireHost` stored
twice), and the counter is the number of passthrough hosts in `items` -/
structure Inv {p : Nat} (s : HS p) : Prop where
  shared : ∀ x a, s.add x = some a → s.items x = some a
  counted : s.count = (passHosts s : Int)

theorem inv_empty {p : Nat} : Inv ({} : HS p) :=
  ⟨fun _ _ h => by simp at h, by simp [passHosts, cnt_none]⟩

theorem mutate_shared {p : Nat} {s : HS p} (hs : ∀ x a, s.add x = some a → s.items x = some a)
    (x : Fin p) (h' : H) : ∀ y a, (mutate s x h').add y = some a → (mutate s x h').items y = some a := by
  intro y a
  unfold mutate
  cases hx : s.add x with
  | none =>
    by_cases e : y = x
    · subst e; simp [hx]
    · simp only [upd, e, if_false]; exact hs y a
  | some b =>
    by_cases e : y = x
    · subst e; simp [upd]
    · simp only [upd, e, if_false]; exact hs y a

theorem mutate_items {p : Nat} (s : HS p) (x : Fin p) (h' : H) :
    (mutate s x h').items = upd s.items x (some h') := rfl

theorem remove1_add {p : Nat} (s : HS p) (x : Fin p) : (remove1 s x).add = s.add := by
  unfold remove1; cases s.items x <;> rfl

theorem remove1_inv {p : Nat} {s : HS p} (hi : Inv s) (x : Fin p) (hx : s.add x = none) : Inv (remove1 s x) := by
  unfold remove1
  cases hit : s.items x with
  | none => exact hi
  | some h =>
    refine ⟨?_, ?_⟩
    · intro y a hy
      by_cases e : y = x
      · subst e; simp [hx] at hy
      · simp only [upd, e, if_false]; exact hi.shared y a hy
    · have := passHosts_upd s.items x none
      have hc := hi.counted
      simp only [passHosts] at *
      simp only [hit, passOf, b2n] at this
      simp only [b2n]
      split <;> simp_all <;> omega

theorem remove_inv {p : Nat} : ∀ (xs : List (Fin p)) (s : HS p), Inv s → (∀ x, x ∈ xs → s.add x = none) →
    Inv (xs.foldl remove1 s)
  | [], _, hi, _ => hi
  | x :: xs, s, hi, h => by
    simp only [List.foldl_cons]
    apply remove_inv xs _ (remove1_inv hi x (h x (by simp)))
    intro y hy
    rw [remove1_add]
    exact h y (by simp [hy])

/-- under the invariant `Shrink` does not change the item set as a value: what it puts back is equal to
the twin it drops -/
theorem shrink_keeps_items {p : Nat} {s : HS p} (hi : Inv s) : (shrinkMaps s).items = s.items := by
  funext x
  simp only [shrinkMaps]
  by_cases m : matched s x = true
  · simp only [m, if_true]
    unfold matched at m
    cases hd : s.del x with
    | none => simp [hd] at m
    | some d =>
      cases ha : s.add x with
      | none => simp [hd, ha] at m
      | some a =>
        simp only [hd, ha, beq_iff_eq] at m
        rw [hi.shared x a ha, m]
  · simp [m]

/-- `Shrink` as the code does it: the counter is not touched (the dropped twin is not released again) -/
theorem shrink_keeps_count {p : Nat} (s : HS p) : (step s .shrink).count = s.count := rfl

theorem shrink_inv {p : Nat} {s : HS p} (hi : Inv s) : Inv (shrinkMaps s) := by
  refine ⟨?_, ?_⟩
  · intro x a hx
    rw [shrink_keeps_items hi]
    simp only [shrinkMaps] at hx
    by_cases m : matched s x = true
    · simp [m] at hx
    · simp only [m] at hx
      exact hi.shared x a (by simpa using hx)
  · have := shrink_keeps_items hi
    simp only [passHosts, this]
    exact hi.counted

theorem step_inv {p : Nat} {s : HS p} (hi : Inv s) (op : Op p) (ok : okOp s op = true) : Inv (step s op) := by
  cases op with
  | acquire x =>
    simp only [step]
    cases hit : s.items x with
    | some _ => exact hi
    | none =>
      refine ⟨?_, ?_⟩
      · intro y a hy
        by_cases e : y = x
        · subst e; simpa [upd] using hy
        · simp only [upd, e, if_false] at hy ⊢; exact hi.shared y a hy
      · have := passHosts_upd s.items x (some {})
        have hc := hi.counted
        simp only [passHosts] at *
        simp only [hit, passOf, b2n] at this
        simp_all
  | setPass x v =>
    simp only [step]
    cases hit : s.items x with
    | none => exact hi
    | some h =>
      by_cases e : h.pass = v
      · simp [e]; exact hi
      · simp only [e, if_false]
        refine ⟨mutate_shared hi.shared x _, ?_⟩
        have := passHosts_upd s.items x (some { h with pass := v })
        have hc := hi.counted
        simp only [passHosts, mutate_items] at *
        simp only [hit, passOf, b2n] at this
        cases v <;> cases hp : h.pass <;> simp_all <;> omega
  | setContent x c =>
    simp only [step]
    cases hit : s.items x with
    | none => exact hi
    | some h =>
      refine ⟨mutate_shared hi.shared x _, ?_⟩
      have := passHosts_upd s.items x (some { h with content := c })
      simp [hit, passOf] at this
      show s.count = ((cnt (upd s.items x (some { h with content := c })) (List.finRange p) : Nat) : Int)
      rw [this]
      exact hi.counted
  | remove xs =>
    simp only [step]
    apply remove_inv xs s hi
    intro x hx
    simp only [okOp, List.all_eq_true] at ok
    simpa using ok x hx
  | shrink => exact shrink_inv hi
  | commit =>
    refine ⟨fun _ _ h => by simp [step] at h, ?_⟩
    exact hi.counted
  | clear => exact inv_empty
  | shrinkRelease => simp [okOp] at ok

/-- MAIN: after every disciplined history the counter is the number of passthrough hosts of the current
item set (and the objects of `itemsAdd` are the objects of `items`) -/
theorem count_eq_passthrough_hosts {p : Nat} : ∀ (ops : List (Op p)) (s : HS p), Inv s → okAll s ops = true →
    Inv (run s ops)
  | [], _, hi, _ => hi
  | op :: ops, s, hi, ok => by
    simp only [okAll, Bool.and_eq_true] at ok
    simp only [run, List.foldl_cons]
    exact count_eq_passthrough_hosts ops _ (step_inv hi op ok.1) ok.2

theorem count_eq_passthrough_hosts_from_start {p : Nat} (ops : List (Op p)) (ok : okAll ({} : HS p) ops = true) :
    (run ({} : HS p) ops).count = (passHosts (run ({} : HS p) ops) : Int) :=
  (count_eq_passthrough_hosts ops _ inv_empty ok).counted

/-- after every prefix as well -/
theorem count_eq_passthrough_hosts_every {p : Nat} (ops : List (Op p)) (ok : okAll ({} : HS p) ops = true) (k : Nat) :
    (run ({} : HS p) (ops.take k)).count = (passHosts (run ({} : HS p) (ops.take k)) : Int) := by
  have h : ∀ (ops : List (Op p)) (s : HS p), okAll s ops = true → okAll s (ops.take k) = true := by
    induction k with
    | zero => intro ops s _; simp [okAll]
    | succ k ih =>
      intro ops s ok
      cases ops with
      | nil => simp [okAll]
      | cons op ops =>
        simp only [okAll, Bool.and_eq_true, List.take_succ_cons] at ok ⊢
        exact ⟨ok.1, ih ops _ ok.2⟩
  exact count_eq_passthrough_hosts_from_start _ (h ops _ ok)

/-- what haproxy.cfg is rendered from: `HasSSLPassthrough()` is true exactly when the item set holds an
ssl-passthrough host -/
theorem has_ssl_passthrough_iff {p : Nat} {s : HS p} (hi : Inv s) :
    hasPass s = true ↔ ∃ x h, s.items x = some h ∧ h.pass = true := by
  have hc := hi.counted
  have := cnt_pos_iff s.items (List.finRange p)
  simp only [hasPass, decide_eq_true_eq, hc, passHosts]
  constructor
  · intro h
    obtain ⟨x, _, hx⟩ := this.mp (by omega)
    cases hit : s.items x with
    | none => simp [hit, passOf] at hx
    | some h => exact ⟨x, h, hit, by simpa [hit, passOf] using hx⟩
  · rintro ⟨x, h, hit, hp⟩
    have := this.mpr ⟨x, List.mem_finRange x, by simp [hit, passOf, hp]⟩
    omega

theorem has_ssl_passthrough_after_every_history {p : Nat} (ops : List (Op p)) (ok : okAll ({} : HS p) ops = true) :
    hasPass (run ({} : HS p) ops) = true ↔ ∃ x h, (run ({} : HS p) ops).items x = some h ∧ h.pass = true :=
  has_ssl_passthrough_iff (count_eq_passthrough_hosts ops _ inv_empty ok)

/-! ### witnesses -/

/-- the only passthrough host, committed, then re-parsed unchanged by a partial sync -/
def reparse (last : Op 2) : List (Op 2) :=
  [.acquire 0, .setPass 0 true, .acquire 1, .commit, .remove [0], .acquire 0, .setPass 0 true, last, .commit]

/-- non-vacuity: the history is disciplined, `Shrink` finds the pair, the counter stays 1 -/
example : okAll ({} : HS 2) (reparse .shrink) = true ∧ matched (run ({} : HS 2) ((reparse .shrink).take 7)) 0 = true
    ∧ (run ({} : HS 2) (reparse .shrink)).count = 1 ∧ passHosts (run ({} : HS 2) (reparse .shrink)) = 1 := by
  decide +kernel

/-- a `Shrink` that releases the dropped twin a second time (seed C05g): the host is still in the item set,
the counter is 0 and `HasSSLPassthrough()` answers false: the next haproxy.cfg has no SNI frontend -/
theorem double_release_breaks :
    let s := run ({} : HS 2) (reparse .shrinkRelease)
    s.count = 0 ∧ passHosts s = 1 ∧ hasPass s = false ∧ s.items 0 = some { pass := true } := by
  decide +kernel

/-- with two passthrough hosts each no-op re-parse takes one off -/
theorem double_release_drifts :
    let s := run ({} : HS 2) [.acquire 0, .setPass 0 true, .acquire 1, .setPass 1 true, .commit,
      .remove [0], .acquire 0, .setPass 0 true, .shrinkRelease, .commit]
    s.count = 1 ∧ passHosts s = 2 := by
  decide +kernel

/-- outside the discipline the code as it is loses the count: a host acquired and removed within one batch
is put back by `Shrink` (the stale `itemsAdd` entry is the `itemsDel` entry) after `RemoveAll` released it -/
theorem undisciplined_resurrects :
    let ops : List (Op 1) := [.acquire 0, .setPass 0 true, .remove [0], .shrink]
    okAll ({} : HS 1) ops = false ∧ (run ({} : HS 1) ops).count = 0 ∧ passHosts (run ({} : HS 1) ops) = 1 := by
  decide +kernel

end HapVerif.C05Cnt
