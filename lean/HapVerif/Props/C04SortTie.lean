import HapVerif.Model.C04
import HapVerif.Generated.CodeC04
/-!
# C04 — regenerated tie of the per-file comparators (`hostsMapMatchFile.sort`, pkg/haproxy/types/maps.go)

The function literals handed to `sort.Slice` for an exact file (1st) and for a prefix / begin file (3rd) are TRANSLATED
on every run (Generated/CodeC04.lean).  `sortLessExact_tie` / `sortLessDefault_tie`: they are the model's `fileLt`, the
order every C04 theorem about the generated maps is stated with (Go's `<` on strings is the model's `ltStr`:
`ltStr_eq`).  `longer_path_first`: of two entries of one hostname the one whose path extends the other's sorts first.
-/
namespace HapVerif.C04SortTie
open HapVerif HapVerif.C04

/-- Go's `<` on strings (byte order = code point order of valid UTF-8) is the model's `ltStr` -/
theorem ltStr_eq (a b : List Char) : ltStr a b = decide (a < b) := by
  induction a generalizing b with
  | nil => cases b <;> simp [ltStr]
  | cons x xs ih =>
    cases b with
    | nil => simp [ltStr]
    | cons y ys =>
      simp only [ltStr, ih, List.cons_lt_cons_iff]
      by_cases h1 : x.toNat < y.toNat
      · have : x < y := h1
        simp [h1, this]
      · by_cases h2 : y.toNat < x.toNat
        · have h3 : ¬ x < y := fun h => by have : x.toNat < y.toNat := h; omega
          have h4 : x ≠ y := fun h => by subst h; omega
          simp [h1, h2, h3, h4]
        · have hxy : x = y := by
            have : x.toNat = y.toNat := by omega
            exact Char.toNat_inj.1 this
          subst hxy
          simp [h1]

theorem sortLessExact_tie (a b : Entry) : CodeC04.sortLessExact a b = fileLt .exact a b := by
  unfold CodeC04.sortLessExact fileLt
  simp only [ltStr_eq]
  by_cases h : a.key = b.key <;> simp [h]

theorem sortLessDefault_tie (mt : MT) (hmt : mt ≠ .exact) (a b : Entry) : CodeC04.sortLessDefault a b = fileLt mt a b := by
  unfold CodeC04.sortLessDefault fileLt
  simp only [ltStr_eq]
  cases mt with
  | exact => exact absurd rfl hmt
  | _ =>
    by_cases h : a.host = b.host <;> by_cases h2 : a.path = b.path <;> simp [h, h2, GT.gt]

theorem ltStr_irrefl (a : List Char) : ltStr a a = false := by
  induction a with
  | nil => rfl
  | cons x xs ih => simp [ltStr, ih]

/-- a proper prefix sorts before its extensions -/
theorem ltStr_prefix (p : List Char) (c : Char) (r : List Char) : ltStr p (p ++ c :: r) = true := by
  induction p with
  | nil => rfl
  | cons x xs ih => simp [ltStr, ih]

theorem ltStr_prefix_rev (p : List Char) (c : Char) (r : List Char) : ltStr (p ++ c :: r) p = false := by
  induction p with
  | nil => rfl
  | cons x xs ih => simp [ltStr, ih]

/-- **the longer declared path comes first**: within one hostname, in a prefix / begin file, an entry whose path
extends the path of another entry is sorted BEFORE it (so `map_beg` / `map_dir`, which answer with the first matching
line, answer with the longest declared path) — a statement about the translated comparator -/
theorem longer_path_first (a b : Entry) (c : Char) (r : List Char) (hh : a.host = b.host)
    (hp : a.path = b.path ++ c :: r) :
    CodeC04.sortLessDefault a b = true ∧ CodeC04.sortLessDefault b a = false := by
  have hne : a.path ≠ b.path := by
    intro h; rw [h] at hp
    have := congrArg List.length hp
    simp at this
  rw [sortLessDefault_tie .beg (by decide), sortLessDefault_tie .beg (by decide)]
  unfold fileLt
  simp only [hh, hne, Ne.symm hne, if_true, if_false]
  rw [hp]
  exact ⟨ltStr_prefix _ _ _, ltStr_prefix_rev _ _ _⟩

/-- equal keys keep their insertion order (the comparator never calls two distinct insertions equal) -/
theorem same_key_by_order (a b : Entry) (hk : a.key = b.key) :
    CodeC04.sortLessExact a b = decide (a.order < b.order) := by
  rw [sortLessExact_tie]; simp [fileLt, hk]

example : CodeC04.sortLessDefault
    { host := "h".toList, path := "/app/v2".toList, mt := .beg, order := 2, target := 1, key := "h#/app/v2".toList }
    { host := "h".toList, path := "/app".toList, mt := .beg, order := 1, target := 2, key := "h#/app".toList } = true := by decide

end HapVerif.C04SortTie
