import HapVerif.Model.Sync
import HapVerif.Generated.CodeC15
/-!
# C15 — tie of `converter.addTLS` (pkg/converters/ingress/ingress.go)

`HapVerif.CodeC15.addTLS` is REGENERATED on every run: which certificate file a `spec.tls` block gets.  The cache read
`GetTLSSecretPath` is a parameter (file, error).  The theorems are about the translated code for EVERY cache:
an empty secret name or ANY error of the read gives the controller's default certificate, otherwise exactly the file
the cache handed back for (namespace of the Ingress, declared name) — never a third value; and with the model's cache
(`secretPath`: `Sync.secretRef` + the secret store of the world) the code IS the model's `Sync.crtOf`, the function the
C15 theorems (each TLS host gets its declared certificate, else default) are about.
-/
namespace HapVerif.C15AddTLSTie
open HapVerif HapVerif.Sync

/-- closed form of the translated code -/
theorem addTLS_closed (get : List Char → List Char → Crt × Option String) (dcrt : Crt) (ns s : List Char) :
    CodeC15.addTLS get dcrt ns s =
      if s = [] then dcrt else if (get ns s).2 = none then (get ns s).1 else dcrt := by
  unfold CodeC15.addTLS
  by_cases hs : s = []
  · subst hs; simp [GoLib.chars]
  · have : (s != GoLib.chars "") = true := by simpa [GoLib.chars] using hs
    simp only [this, ↓reduceIte, hs]
    cases h : (get ns s).2 <;> simp [GoLib.nil]

/-- **any error of the secret read gives the default certificate** -/
theorem error_is_default (get : List Char → List Char → Crt × Option String) (dcrt : Crt) (ns s : List Char)
    (e : String) (h : (get ns s).2 = some e) : CodeC15.addTLS get dcrt ns s = dcrt := by
  rw [addTLS_closed]; simp [h]

/-- **an empty secret name gives the default certificate** (and the cache is not asked) -/
theorem empty_is_default (get₁ get₂ : List Char → List Char → Crt × Option String) (dcrt : Crt) (ns : List Char) :
    CodeC15.addTLS get₁ dcrt ns [] = dcrt ∧ CodeC15.addTLS get₁ dcrt ns [] = CodeC15.addTLS get₂ dcrt ns [] := by
  simp [addTLS_closed]

/-- **never a third certificate**: the default one, or the file the cache handed back for exactly
(namespace of the Ingress, declared name) -/
theorem default_or_declared (get : List Char → List Char → Crt × Option String) (dcrt : Crt) (ns s : List Char) :
    CodeC15.addTLS get dcrt ns s = dcrt ∨
      (s ≠ [] ∧ (get ns s).2 = none ∧ CodeC15.addTLS get dcrt ns s = (get ns s).1) := by
  rw [addTLS_closed]
  by_cases hs : s = []
  · simp [hs]
  · cases h : (get ns s).2 <;> simp [hs]

/-- the model's cache: `GetTLSSecretPath` of a world (reference resolution + the secret store) -/
def secretPath (w : World) (ns secret : List Char) : Crt × Option String :=
  match secretRef w ns secret with
  | none => (.dflt, some "forbidden or malformed reference")
  | some (a, n) =>
    match w.secs.find? (fun s => s.ns = a ∧ s.name = n) with
    | some s => if s.isTLS then (.secret s.ns s.name s.version, none) else (.dflt, some "not a TLS secret")
    | none => (.dflt, some "secret not found")

/-- **with the model's cache the translated code is `Sync.crtOf`** -/
theorem addTLS_tie (w : World) (ns secret : List Char) :
    CodeC15.addTLS (secretPath w) .dflt ns secret = crtOf w ns secret := by
  rw [addTLS_closed]
  unfold crtOf secretPath
  by_cases hs : secret = []
  · subst hs; simp
  · have : secret.isEmpty = false := by cases secret <;> simp_all
    simp only [hs, ↓reduceIte, this, Bool.false_eq_true]
    cases secretRef w ns secret with
    | none => simp
    | some p =>
      obtain ⟨a, n⟩ := p
      simp only []
      cases w.secs.find? (fun s => s.ns = a ∧ s.name = n) with
      | none => simp
      | some s => cases h : s.isTLS <;> simp [h]

example : CodeC15.addTLS (fun _ _ => (Crt.secret ['d'] ['s'] 1, none)) .dflt ['d'] ['s'] = Crt.secret ['d'] ['s'] 1 := by decide
example : CodeC15.addTLS (fun _ _ => (Crt.secret ['d'] ['s'] 1, some "x")) .dflt ['d'] ['s'] = Crt.dflt := by decide

end HapVerif.C15AddTLSTie
