import HapVerif.Model.C02DecViews
import HapVerif.Generated.CodeC02
/-!
# C02 — tie of the reload decision (`dynUpdater.checkConfigChange`, `dynUpdater.update`, pkg/haproxy/dynupdate.go)

Both functions are REGENERATED on every run (Generated/CodeC02.lean).  The comparisons of the sections that HAProxy
cannot change at run time and the verdicts of `frontendUpdated()` / `backendUpdated()` are the fields of a view; the
theorems hold for EVERY view: the update is called "applied dynamically" — HAProxy is NOT reloaded — exactly when
there is committed data, no section outside hosts/backends differs, and both pairings succeeded; in every other case
the function answers "reload" (so the running process is replaced by one that reads the files just written) and the
slots are re-aligned; the log line names exactly the sections that differ.
-/
namespace HapVerif.C02DecTie
open HapVerif C02Dec

/-- the sections the log line names -/
def diffOf (v : DecView) : List String :=
  (if v.globalDiffers then ["global"] else []) ++
  (if v.tcpbackendsChanged then ["tcp-services (configmap)"] else []) ++
  (if v.tcpservicesChanged then ["tcp-services"] else []) ++
  (if v.frontendChanged then ["frontend"] else []) ++
  (if v.userlistsChanged then ["userlists"] else []) ++
  (if v.frontendUpdated then [] else ["hosts"]) ++
  (if v.backendUpdated then [] else ["backends"])

/-- nothing differs outside what the runtime API can change, and what it can change was changed -/
def clean (v : DecView) : Bool :=
  !v.globalDiffers && !v.tcpbackendsChanged && !v.tcpservicesChanged && !v.frontendChanged && !v.userlistsChanged &&
    v.frontendUpdated && v.backendUpdated

theorem checkConfigChange_tie (v : DecView) : CodeC02.checkConfigChange v = (clean v, diffOf v) := by
  obtain ⟨c, g, tb, ts, f, u, fu, bu⟩ := v
  cases g <;> cases tb <;> cases ts <;> cases f <;> cases u <;> cases fu <;> cases bu <;> rfl

/-- **anything but endpoints / certificates differing ⇒ reload**: a differing section forces the answer "reload" -/
theorem section_differs_reloads (v : DecView)
    (h : v.globalDiffers = true ∨ v.tcpbackendsChanged = true ∨ v.tcpservicesChanged = true ∨
      v.frontendChanged = true ∨ v.userlistsChanged = true) :
    (CodeC02.checkConfigChange v).1 = false := by
  rw [checkConfigChange_tie]
  rcases h with h | h | h | h | h <;> simp [clean, h]

/-- a refused or impossible runtime update of a host or of a backend forces the answer "reload" -/
theorem failed_pairing_reloads (v : DecView) (h : v.frontendUpdated = false ∨ v.backendUpdated = false) :
    (CodeC02.checkConfigChange v).1 = false := by
  rw [checkConfigChange_tie]
  rcases h with h | h <;> simp [clean, h]

/-- the log line is empty exactly when the update is accepted as dynamic -/
theorem diff_empty_iff (v : DecView) : (CodeC02.checkConfigChange v).2 = [] ↔ (CodeC02.checkConfigChange v).1 = true := by
  rw [checkConfigChange_tie]
  obtain ⟨c, g, tb, ts, f, u, fu, bu⟩ := v
  cases g <;> cases tb <;> cases ts <;> cases f <;> cases u <;> cases fu <;> cases bu <;> simp [clean, diffOf]

/-- **`update()`**: dynamic (no reload) iff committed ∧ clean; the slots are re-aligned exactly when it reloads -/
theorem update_tie (v : DecView) (fx : List String) :
    CodeC02.update v fx = (v.committed && clean v, if v.committed && clean v then fx else fx ++ ["alignSlots"]) := by
  unfold CodeC02.update
  rw [checkConfigChange_tie]
  cases h : (v.committed && clean v) <;> simp_all [C02Dec.alignSlots]

/-- without committed data (first run, or after `config.Clear()` lost it) the answer is always "reload" -/
theorem uncommitted_reloads (v : DecView) (fx : List String) (h : v.committed = false) :
    (CodeC02.update v fx).1 = false := by
  rw [update_tie]; simp [h]

example : CodeC02.update ⟨true, false, false, false, false, false, true, true⟩ [] = (true, []) := by decide
example : CodeC02.update ⟨true, false, false, false, true, false, true, true⟩ [] = (false, ["alignSlots"]) := by decide
example : (CodeC02.checkConfigChange ⟨true, true, false, false, false, false, true, false⟩).2 = ["global", "backends"] := by decide

end HapVerif.C02DecTie
