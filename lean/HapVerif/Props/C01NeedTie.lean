import HapVerif.Model.C01NeedViews
import HapVerif.Generated.CodeC01
/-!
# C01 — regenerated tie of `converter.NeedFullSync` (pkg/converters/ingress/ingress.go)

`NeedFullSync`, `defaultCrtNeedFullSync`, `globalConfigNeedFullSync` are TRANSLATED on every run (Generated/CodeC01.lean).
They are the ingress converter's contribution to the decision "partial or full" that the regenerated `converters.Sync`
(`convertersSync_tie`) reads as `ingress.NeedFullSync`: a batch that carries a NEW content of the global ConfigMap, or a
default certificate other than the one the frontend was built with, is converted from scratch — the two inputs a
partial sync cannot follow (every host / backend may depend on a global default).
-/
namespace HapVerif.C01NeedTie
open HapVerif C01Need

theorem needFullSync_tie (v : NeedView) :
    CodeC01.needFullSync v =
      ((v.frontCrtFile != v.dfltCrtFile || v.frontCrtHash != v.dfltCrtHash) || (v.gNew.isSome && v.gCur != v.gNew)) := by
  unfold CodeC01.needFullSync CodeC01.defaultCrtNeedFullSync CodeC01.globalConfigNeedFullSync
  cases (v.frontCrtFile != v.dfltCrtFile || v.frontCrtHash != v.dfltCrtHash) <;>
    cases (v.gNew.isSome && v.gCur != v.gNew) <;> rfl

/-- **a new content of the global ConfigMap forces a full sync** -/
theorem global_change_forces_full (v : NeedView) (k : Nat) (hn : v.gNew = some k) (hc : v.gCur ≠ some k) :
    CodeC01.needFullSync v = true := by
  rw [needFullSync_tie]
  simp only [hn, Option.isSome_some, Bool.true_and, Bool.or_eq_true, bne_iff_ne, ne_eq]
  exact Or.inr hc

/-- **another default certificate (file or content) forces a full sync** -/
theorem default_crt_change_forces_full (v : NeedView)
    (h : v.frontCrtFile ≠ v.dfltCrtFile ∨ v.frontCrtHash ≠ v.dfltCrtHash) :
    CodeC01.needFullSync v = true := by
  rw [needFullSync_tie]
  rcases h with h | h <;> simp [h]

/-- a batch without global data (nil map: the ConfigMap was not part of it) and with the same default certificate
stays partial — as far as the ingress converter is concerned -/
theorem unchanged_stays_partial (v : NeedView) (h1 : v.frontCrtFile = v.dfltCrtFile) (h2 : v.frontCrtHash = v.dfltCrtHash)
    (h3 : v.gNew = none ∨ v.gNew = v.gCur) : CodeC01.needFullSync v = false := by
  rw [needFullSync_tie]
  rcases h3 with h3 | h3 <;> simp [h1, h2, h3]

example : CodeC01.needFullSync ⟨"f", "h", "f", "h", some 1, some 2⟩ = true := by decide
example : CodeC01.needFullSync ⟨"f", "h", "f", "h", some 1, none⟩ = false := by decide

end HapVerif.C01NeedTie
