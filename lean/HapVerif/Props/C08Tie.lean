import HapVerif.Model.C08
import HapVerif.Generated.CodeC08
/-!
# C08 — tie between the model and the source (`IsValidIngress`)

`HapVerif.CodeC08.isValidIngress` / `isValidIngressClass` are REGENERATED on every run from
`pkg/controller/services/cache.go`.  The theorem states that on every Ingress / cache content that the
abstraction `(Ann, Cls)` of the C08 model describes, the translated source computes `C08.isValidIngress` —
the function every C08 theorem (selection = documented rule, watchers, histories) is about.
-/
namespace HapVerif.C08Tie
open HapVerif HapVerif.GoLib

/-- the model's configuration read off the cache facade's configuration -/
def cfgOf (c : CacheView) : C08.Cfg :=
  { watch := c.config.WatchIngressWithoutClass, prec := c.config.IngressClassPrecedence,
    ctrlEmpty := "" == c.config.ControllerName }

/-- what the abstract annotation value says about `ing.Annotations["kubernetes.io/ingress.class"]` -/
def AnnRel (c : CacheView) : C08.Ann → String × Bool → Prop
  | .absent, p => p.2 = false
  | .ours, p => p.2 = true ∧ p.1 = c.config.IngressClass
  | .foreign, p => p.2 = true ∧ p.1 ≠ c.config.IngressClass

/-- what the abstract class value says about `spec.ingressClassName` and the cache: `dangling` = the name has no
IngressClass object: `GetIngressClass` returns the zero object together with an error -/
def ClsRel (c : CacheView) : C08.Cls → Option String → Prop
  | .absent, n => n = none
  | .ours, n => ∃ s e, n = some s ∧ c.getIngressClass s = (some ⟨c.config.ControllerName⟩, e)
  | .foreign, n => ∃ s k e, n = some s ∧ c.getIngressClass s = (some ⟨k⟩, e) ∧ k ≠ c.config.ControllerName
  | .dangling, n => ∃ s e, n = some s ∧ c.getIngressClass s = (some ⟨""⟩, e)

theorem annBeq (a b : C08.Ann) : (a == b) = decide (a = b) := rfl
theorem clsBeq (a b : C08.Cls) : (a == b) = decide (a = b) := rfl
theorem strBeqFalse {a b : String} (h : a ≠ b) : (a == b) = false := by simpa using h

theorem isValidIngress_tie (c : CacheView) (ing : IngressView) (a : C08.Ann) (cl : C08.Cls)
    (ha : AnnRel c a ing.annClass) (hc : ClsRel c cl ing.className) :
    CodeC08.isValidIngress c ing = C08.isValidIngress (cfgOf c) a cl := by
  obtain ⟨⟨w, ic, pr, cn⟩, get⟩ := c
  obtain ⟨⟨av, ah⟩, cname⟩ := ing
  cases a <;> cases cl <;> simp only [AnnRel, ClsRel] at ha hc
  all_goals (
    first
    | (obtain ⟨s, e, rfl, hg⟩ := hc)
    | (obtain ⟨s, k, e, rfl, hg, hk⟩ := hc; have hk' := strBeqFalse hk)
    | (subst hc))
  all_goals (
    first
    | (obtain ⟨rfl, rfl⟩ := ha)
    | (obtain ⟨rfl, hne⟩ := ha; have hne' := strBeqFalse hne)
    | (subst ha))
  all_goals (
    (cases w <;> cases pr) <;>
    simp_all [CodeC08.isValidIngress, CodeC08.isValidIngressClass, C08.isValidIngress, C08.fromClassOf, cfgOf,
      GoLib.nil, GoLib.deref, GoLib.derefClass, bne, annBeq, clsBeq] <;>
    (first | done | (by_cases h0 : cn = "" <;> simp [h0] <;> exact fun h => h0 h.symm)))

/-- non-vacuity: annotation of another controller, ingressClassName naming our class, `--ingress-class-precedence` -/
example :
    CodeC08.isValidIngress
      ⟨⟨false, "haproxy", true, "haproxy-ingress.github.io/controller"⟩,
        fun n => if n = "hap" then (some ⟨"haproxy-ingress.github.io/controller"⟩, none) else (some ⟨""⟩, some ())⟩
      ⟨("nginx", true), some "hap"⟩ = true := by decide

end HapVerif.C08Tie
