import HapVerif.Model.C03
import HapVerif.Lemmas.C03
import HapVerif.Generated.Facts
/-!
# C03 — requests reach exactly the ready endpoints that Ingress and Service designate

Model: `HapVerif.Sync` (`fullSync`, the three frontend maps in their real insertion order, `route` =
C04 map files + lookups + the `use_backend` chain; `routeS` = `route` with the hostnames iterated in
sorted order, which is what the code does since repair 8cccd42).  Spec: `HapVerif.C03.specRoute`, `ServersOK`
(written over the cluster state).  All theorems hold for every cluster state, every request and every
Go-map iteration order; proofs in `Lemmas/C03.lean` (core Lean), path precedence from the proved
`C04.layout_wellordered` / `C04.lookup_of_wellordered`.

Hypotheses: `WFWorld w` (declared hosts without `/`, `#`; declared paths start with `/`, no `#`, no
empty segment — the hypotheses of C04, decidable) and `C04.WFReq` on the request.  Not assumed:
unique names, existing services, lower-case hosts, absence of duplicates.

Shape of the statement.  The brief's `route (fullSync w) req = specRoute w req` cannot hold as an
equation between single answers: when two declared paths of different types have the same length
and both match (`/a` Prefix and `/a` ImplementationSpecific for `/a/x`), the documentation does not
order them and the code's choice depends on the layout of the map files (C04 leaves exactly these
ties open, `C04.best`).  `specRoute` is therefore the list of allowed backends and the theorem is
membership; `route_spec_eq` is the equation whenever the Spec determines the answer.
-/
namespace HapVerif.C03
open HapVerif.Sync
open HapVerif.C04 (Str)

/-- **route_spec**: whatever the iteration order of the three maps, the frontends send a request to
a backend the Spec allows: the exact / longest declared path of its host among the first
declarations of the first-created Ingresses (HTTPS: only hosts with a tls entry), else the same on
the default host, else the default backend, else 404. -/
theorem route_spec {w : World} (wf : WFWorld w = true) {π : Iter} (hπ : IterOK (fullSync w) π)
    {r : Req} (rq : C04.WFReq r.host r.path = true) :
    route (fullSync w) π r ∈ specRoute w r :=
  route_mem_spec wf hπ rq

/-- the equation, whenever the Spec determines the answer -/
theorem route_spec_eq {w : World} (wf : WFWorld w = true) {π : Iter} (hπ : IterOK (fullSync w) π)
    {r : Req} (rq : C04.WFReq r.host r.path = true) {b : Str}
    (det : ∀ x ∈ specRoute w r, x = b) : route (fullSync w) π r = b :=
  det _ (route_spec wf hπ rq)

/-- two iteration orders of Go's maps give the same answer whenever the Spec determines it -/
theorem route_iter_indep {w : World} (wf : WFWorld w = true) {π π' : Iter}
    (hπ : IterOK (fullSync w) π) (hπ' : IterOK (fullSync w) π')
    {r : Req} (rq : C04.WFReq r.host r.path = true) {b : Str}
    (det : ∀ x ∈ specRoute w r, x = b) : route (fullSync w) π r = route (fullSync w) π' r := by
  rw [route_spec_eq wf hπ rq det, route_spec_eq wf hπ' rq det]

/-- the iteration order used by the driver is admissible (the hypothesis `IterOK` is satisfiable) -/
theorem iter_exists (c : Cfg) : IterOK c c.iter0 := iter0_ok c

/-- **route_spec for the code as it is** (after repair 8cccd42 `rebuildMatchFiles` iterates the
hostnames sorted, `Sync.routeS`): the routing of the generated configuration is allowed by the Spec -/
theorem routeS_spec {w : World} (wf : WFWorld w = true) {r : Req} (rq : C04.WFReq r.host r.path = true) :
    routeS (fullSync w) r ∈ specRoute w r :=
  route_spec wf (iterSorted_ok _) rq

/-- the parts of the model the Spec refers to, as equations: the paths of the configuration are the
first declarations; a host has TLS iff an Ingress declares it -/
theorem paths_spec (w : World) : (fullSync w).paths = effective w := fullSync_paths w
theorem hasTLS_spec (w : World) (h : Str) : (fullSync w).hasTLS h = declaresTLS w h := fullSync_hasTLS w h

/-- every effective path comes from a declaration of an Ingress of this controller whose Service
port exists, and its backend is in the configuration -/
theorem path_designates {w : World} {p : HPath} (hp : p ∈ (fullSync w).paths) :
    (∃ d ∈ allDecls w, toHPath w d = some p) ∧ ∃ b ∈ (fullSync w).backends, b.key = p.bk :=
  ⟨mem_effective (by rw [← fullSync_paths]; exact hp), fullSync_phb w p hp⟩

/-- **servers_spec**: every backend belongs to an existing Service port; its enabled servers are
ready addresses of the matching Endpoints port, every ready address is enabled (or drained when it
is also listed not-ready / terminating under drain-support), weight-0 servers exist only with
drain-support and only for not-ready addresses or terminating pods. -/
theorem servers_spec (w : World) : ∀ b ∈ (fullSync w).backends,
    ∃ s sp, w.findSvc b.key.ns b.key.svc = some s ∧ sp ∈ s.ports ∧ sp.target = b.key.port ∧
      ServersOK w s sp b.servers := by
  intro b hb
  obtain ⟨s, sp, h1, h2, h3, h4⟩ := fullSync_backends_ok w b hb
  refine ⟨s, sp, h1, h2, by rw [h3], ?_⟩
  rw [h4]
  exact mkServers_ok w s sp

/-- without drain-support no server has weight 0 -/
theorem no_drain_without_support (w : World) (h : w.opts.drain = false) :
    ∀ b ∈ (fullSync w).backends, drainedOf b.servers = [] := by
  intro b hb
  obtain ⟨s, sp, _, _, _, ok⟩ := servers_spec w b hb
  cases hd : drainedOf b.servers with
  | nil => rfl
  | cons t ts =>
    have := (ok.drained t (by rw [hd]; exact List.mem_cons_self)).1
    rw [h] at this
    exact absurd this (by decide)

/-! ## non-vacuity: a concrete cluster state (duplicate path across two ingresses created in the
"wrong" list order, TLS on one host, default host, not-ready endpoint) -/

def s (x : String) : Str := x.toList

def w0 : World :=
  { ings := [
      { ns := s "e", name := s "late", created := 2, valid := true,
        rules := [⟨s "a.local", [⟨s "/", .pfx, s "app", s "80"⟩]⟩] },
      { ns := s "d", name := s "early", created := 1, valid := true,
        rules := [⟨s "a.local", [⟨s "/", .pfx, s "app", s "http"⟩, ⟨s "/a", .exact, s "app", s "adm"⟩]⟩,
                  ⟨s "b.local", [⟨s "/", .impl, s "app", s "80"⟩]⟩],
        tls := [⟨[s "a.local"], s "tls1"⟩], dflt := some (s "app", s "81") },
      { ns := s "d", name := s "foreign", created := 0, valid := false,
        rules := [⟨s "a.local", [⟨s "/", .pfx, s "nosvc", s "80"⟩]⟩] } ],
    svcs := [⟨s "d", s "app", [⟨s "http", 80, s "8080"⟩, ⟨s "adm", 81, s "adm"⟩]⟩,
             ⟨s "e", s "app", [⟨s "http", 80, s "8080"⟩]⟩],
    eps := [⟨s "d", s "app", [⟨s "10.0.1.1", true, s "p1"⟩, ⟨s "10.0.1.2", false, s "p2"⟩],
             [⟨s "http", 8080⟩, ⟨s "adm", 9090⟩]⟩],
    secs := [⟨s "d", s "tls1", true, 1⟩] }

example : WFWorld w0 = true := by decide +kernel

/-- the duplicated `a.local/` belongs to the first-created ingress `d/early` (listed second) -/
example : specRoute w0 ⟨false, s "a.local", s "/x"⟩ = [s "d_app_8080"] ∧
    route (fullSync w0) (fullSync w0).iter0 ⟨false, s "a.local", s "/x"⟩ = s "d_app_8080" := by decide +kernel

/-- HTTPS: `b.local` has no tls entry, the request falls to the default host (spec.defaultBackend) -/
example : specRoute w0 ⟨true, s "b.local", s "/x"⟩ = [s "d_app_adm"] ∧
    specRoute w0 ⟨false, s "b.local", s "/x"⟩ = [s "d_app_8080"] ∧
    route (fullSync w0) (fullSync w0).iter0 ⟨true, s "b.local", s "/x"⟩ = s "d_app_adm" := by decide +kernel

example : C04.WFReq (s "a.local") (s "/a") = true ∧
    route (fullSync w0) (fullSync w0).iter0 ⟨true, s "a.local", s "/a"⟩ = s "d_app_adm" := by decide +kernel

/-- `route_spec_eq` applied: hypotheses are satisfiable and the conclusion is about a real lookup -/
example : route (fullSync w0) (fullSync w0).iter0 ⟨false, s "a.local", s "/x"⟩ = s "d_app_8080" :=
  route_spec_eq (w := w0) (by decide +kernel) (iter_exists _) (by decide +kernel)
    (b := s "d_app_8080") (by
      have h : specRoute w0 ⟨false, s "a.local", s "/x"⟩ = [s "d_app_8080"] := by decide +kernel
      intro x hx; rw [h] at hx; simpa using hx)

/-- servers: only the ready address, the not-ready one is absent without drain-support and weight 0 with it -/
example : (fullSync w0).backends.map (fun b => (b.key.id, b.servers)) =
    [(s "d_app_adm", [⟨s "10.0.1.1", 9090, 1⟩]), (s "d_app_8080", [⟨s "10.0.1.1", 8080, 1⟩])] := by
  decide +kernel

example : ((fullSync { w0 with opts := { drain := true } }).backends.map (·.servers)) =
    [[⟨s "10.0.1.1", 9090, 1⟩, ⟨s "10.0.1.2", 9090, 0⟩], [⟨s "10.0.1.1", 8080, 1⟩, ⟨s "10.0.1.2", 8080, 0⟩]] := by
  decide +kernel

/-- the oracle accepts the model's own servers and rejects a not-ready address served -/
example : checkBackend w0 (s "d_app_8080") [⟨s "10.0.1.1", 8080, 1⟩] = none ∧
    checkBackend w0 (s "d_app_8080") [⟨s "10.0.1.1", 8080, 1⟩, ⟨s "10.0.1.2", 8080, 1⟩] =
      some "not-ready-endpoint-served" ∧
    checkRoute w0 ⟨true, s "b.local", s "/x"⟩ (s "d_app_8080") = some "https-without-tls" ∧
    checkRoute w0 ⟨false, s "a.local", s "/x"⟩ (s "e_app_8080") = some "duplicate-path-owner" := by
  decide +kernel

/-- regenerated from the Go source: the constants and conditions the model transcribes -/
theorem facts_c03 :
    Facts.c03FindServicePortConds =
      ["port.Name==servicePort||port.TargetPort.String()==servicePort", "err!=nil", "port.Port==svcPort"] ∧
    Facts.c03MatchPortConds = ["epPort.Protocol!=api.ProtocolTCP"] ∧
    Facts.c03PathTypeOrder = "exact,prefix,begin,regex" ∧
    Facts.c03InitialWeight = "1" ∧
    Facts.c03AlwaysAddHTTPS = "false" ∧
    Facts.c03BackendIDSeps = ["\"_\"", "\"_\""] ∧
    Facts.c03SortIngressConds = ["i1.CreationTimestamp!=i2.CreationTimestamp"] ∧
    Facts.c03HasTLS = ["h.TLS.UseDefaultCrt||h.TLS.TLSHash!=\"\""] := by decide

end HapVerif.C03
