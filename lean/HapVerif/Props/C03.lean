import HapVerif.Model.C03
namespace HapVerif.C03
end HapVerif.C03
