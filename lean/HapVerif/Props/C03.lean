import HapVerif.Model.C03
import HapVerif.Generated.Facts
namespace HapVerif.C03

/-- regenerated from the Go source: the constants and conditions the model transcribes -/
theorem facts_c03 :
    Facts.c03FindServicePortConds =
      ["port.Name==servicePort||port.TargetPort.String()==servicePort", "err!=nil", "port.Port==svcPort"] ∧
    Facts.c03MatchPortConds = ["epPort.Protocol!=api.ProtocolTCP"] ∧
    Facts.c03PathTypeOrder = "exact,prefix,begin,regex" ∧
    Facts.c03InitialWeight = "1" ∧
    Facts.c03AlwaysAddHTTPS = "false" ∧
    Facts.c03BackendIDSeps = ["\"_\"", "\"_\""] ∧
    Facts.c03SortIngressConds = ["i1.CreationTimestamp!=i2.CreationTimestamp"] ∧
    Facts.c03HasTLS = ["h.TLS.UseDefaultCrt||h.TLS.TLSHash!=\"\""] := by decide

end HapVerif.C03
