import HapVerif.Model.C17
import HapVerif.Generated.CodeC17
/-!
# C17 — tie between the model and the source (`match`)

`HapVerif.CodeC17.matchDomains` is REGENERATED on every run from `pkg/acme/signer.go` (`match`): the loop that
decides whether the certificate in the secret already covers every declared domain — i.e. whether a new
certificate is requested.  With x509's `VerifyHostname` read as the model's `covered sans`, it is `C17.matchAll`.
-/
namespace HapVerif.C17Tie
open HapVerif HapVerif.GoLib

theorem loop_eq (v : C17.Name → Bool) (domains : List C17.Name) (found : Bool) :
    (match GoLib.forRange (ρ := Bool) domains found (fun domain found =>
        let found := (v domain)
        if (!found) then GoLib.Step.ret false else GoLib.Step.next found) with
      | .ret r' => r'
      | .done _ => true) = domains.all v := by
  induction domains generalizing found with
  | nil => simp [GoLib.forRange]
  | cons d ds ih =>
    by_cases hd : v d = true
    · simp only [GoLib.forRange, hd, Bool.not_true, Bool.false_eq_true, ↓reduceIte, List.all_cons, Bool.true_and]
      exact ih true
    · have hd' : v d = false := by simpa using hd
      simp [GoLib.forRange, hd']

/-- every declared domain must verify; the first one that does not ends the scan (no early `true`) -/
theorem match_tie (v : C17.Name → Bool) (domains : List C17.Name) :
    CodeC17.matchDomains v domains = domains.all v := by
  unfold CodeC17.matchDomains
  exact loop_eq v domains false

theorem matchAll_tie (domains sans : List C17.Name) :
    CodeC17.matchDomains (C17.covered sans) domains = C17.matchAll domains sans := by
  rw [match_tie]; rfl

/-- non-vacuity: a wildcard certificate covers both declared hosts (seed C17b returned false early here) -/
example : CodeC17.matchDomains (C17.covered [["*", "dev", "local"]]) [["s1", "dev", "local"], ["s2", "dev", "local"]] = true := by
  decide

end HapVerif.C17Tie
