import HapVerif.Model.C17
import HapVerif.Generated.CodeC17
/-!
# C17 — tie between the model and the source (`match`)

`HapVerif.CodeC17.matchDomains` is REGENERATED on every run from `pkg/acme/signer.go` (`match`): the loop that
decides whether the certificate in the secret already covers every declared domain — i.e. whether a new
certificate is requested.  With x509's `VerifyHostname` read as the model's `covered sans`, it is `C17.matchAll`.
-/
namespace HapVerif.C17Tie
open HapVerif HapVerif.GoLib

theorem loop_eq (v : C17.Name → Bool) (domains : List C17.Name) (found : Bool) :
    (match GoLib.forRange (ρ := Bool) domains found (fun domain found =>
        let found := (v domain)
        if (!found) then GoLib.Step.ret false else GoLib.Step.next found) with
      | .ret r' => r'
      | .done _ => true) = domains.all v := by
  induction domains generalizing found with
  | nil => simp [GoLib.forRange]
  | cons d ds ih =>
    by_cases hd : v d = true
    · simp only [GoLib.forRange, hd, Bool.not_true, Bool.false_eq_true, ↓reduceIte, List.all_cons, Bool.true_and]
      exact ih true
    · have hd' : v d = false := by simpa using hd
      simp [GoLib.forRange, hd']

/-- every declared domain must verify; the first one that does not ends the scan (no early `true`) -/
theorem match_tie (v : C17.Name → Bool) (domains : List C17.Name) :
    CodeC17.matchDomains v domains = domains.all v := by
  unfold CodeC17.matchDomains
  exact loop_eq v domains false

theorem matchAll_tie (domains sans : List C17.Name) :
    CodeC17.matchDomains (C17.covered sans) domains = C17.matchAll domains sans := by
  rw [match_tie]; rfl

/-- non-vacuity: a wildcard certificate covers both declared hosts (seed C17b returned false early here) -/
example : CodeC17.matchDomains (C17.covered [["*", "dev", "local"]]) [["s1", "dev", "local"], ["s2", "dev", "local"]] = true := by
  decide

/-! ## `instance.AcmeUpdate` -/

theorem forRange_eff (name : String) (xs : List String) (fx : Fx) :
    GoLib.forRange (ρ := Fx) xs fx (fun x fx =>
        let fx := (GoLib.effS name fx x)
        GoLib.Step.next fx) = .done (fx ++ xs.map (fun x => name ++ ":" ++ x)) := by
  induction xs generalizing fx with
  | nil => simp [GoLib.forRange]
  | cons x xs ih => simp only [GoLib.forRange]; rw [ih]; simp [GoLib.effS]

/-- **on the leader with an account every added / changed storage is enqueued and every removed one is
removed — whatever else the instance went through** (the translated function reads nothing else: no `failedSince`,
no `reloadOwed`; seed C17e made it depend on the last reload) -/
theorem acmeUpdate_leader (env : Env) (i : AcmeInstView) (adds dels : List String) (fx : Fx)
    (h1 : i.configNil = false) (h2 : i.queueNil = false) (hl : i.isLeader = true)
    (ha : env.val "acmeEnsureConfig" = true) :
    CodeC17.acmeUpdate env i adds dels fx =
      fx ++ ["acmeEnsureConfig"] ++ adds.map (fun x => "add" ++ ":" ++ x) ++ dels.map (fun x => "del" ++ ":" ++ x) := by
  unfold CodeC17.acmeUpdate
  simp only [h1, h2, hl, ha, GoLib.callB, Bool.or_self, Bool.false_eq_true, ↓reduceIte, Bool.not_true,
    forRange_eff]

/-- not the leader, no account, no queue, no configuration: nothing is enqueued or removed -/
theorem acmeUpdate_silent (env : Env) (i : AcmeInstView) (adds dels : List String) (fx : Fx)
    (h : i.configNil = true ∨ i.queueNil = true ∨ i.isLeader = false ∨ env.val "acmeEnsureConfig" = false) :
    ∀ s ∈ CodeC17.acmeUpdate env i adds dels fx, s ∈ fx ∨ s = "acmeEnsureConfig" := by
  unfold CodeC17.acmeUpdate
  cases hc : i.configNil <;> cases hq : i.queueNil <;> cases hl : i.isLeader <;>
    cases ha : env.val "acmeEnsureConfig" <;> simp_all [GoLib.callB] <;>
    (first | done | (intro s hs; left; cases hu : GoLib.readB env "storages.Updated" <;> simp [hu] at hs <;> exact hs))

example : CodeC17.acmeUpdate ⟨fun _ => false, fun _ => true, fun _ => 0⟩ ⟨false, false, true⟩ ["s1,,h1.x"] ["s0"] []
    = ["acmeEnsureConfig", "add:s1,,h1.x", "del:s0"] := by decide

end HapVerif.C17Tie
