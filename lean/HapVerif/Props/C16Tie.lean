import HapVerif.Lemmas.C16Core
import HapVerif.Lemmas.C16Round
import HapVerif.Generated.CodeC16
/-!
# C16 — tie between the model and the source (`gcd`, `lcm`, `RebalanceWeight`)

`HapVerif.CodeC16.gcd / lcm / rebalanceWeight` are REGENERATED on every run from
`pkg/converters/utils/lbweight.go`.  The theorems state that, on well-formed input (`WFIn`: weights 0..256,
lengths ≥ 0, initial weight 1..256 — what both callers pass), the translated code computes the hand-written model
`C16.rebalance` every C16 theorem (range, zero-iff, order, share) is about.
-/
namespace HapVerif.C16Tie
open HapVerif HapVerif.GoLib HapVerif.C16

/-- Euclid's loop on naturals: never out of fuel with fuel > b, ends in `(gcd, 0)` -/
theorem gcd_loop (n : Nat) : ∀ (m k : Nat), k < n →
    GoLib.whileFuel (ρ := Option Int) n ((m : Int), (k : Int)) (fun (_, b) => (b != (0 : Int)))
      (fun (a, b) =>
        let r := (GoLib.rem a b)
        let tmp0' := b
        let tmp1' := r
        let a := tmp0'
        let b := tmp1'
        GoLib.Step.next (a, b))
      = .done (((Nat.gcd m k : Nat) : Int), (0 : Int)) := by
  induction n with
  | zero => intro m k h; omega
  | succ n ih =>
    intro m k hk
    unfold GoLib.whileFuel
    by_cases hz : k = 0
    · subst hz; simp
    · have hc : ((k : Int) != (0 : Int)) = true := by simp; omega
      simp only [hc, if_true]
      have hr : GoLib.rem (m : Int) (k : Int) = ((m % k : Nat) : Int) := by
        simp [GoLib.rem, Int.tmod]
      simp only [hr]
      have hlt : m % k < n := by
        have := Nat.mod_lt m (Nat.pos_of_ne_zero hz)
        omega
      rw [ih k (m % k) hlt]
      congr 2
      rw [Nat.gcd_comm k (m % k), ← Nat.gcd_rec, Nat.gcd_comm]

/-- **the translated `gcd` is the model's `gcdI`** on non-negative operands (the only ones `RebalanceWeight`
passes); the loop never runs out of fuel -/
theorem gcd_tie {a b : Int} (ha : 0 ≤ a) (hb : 0 ≤ b) : CodeC16.gcd a b = some (gcdI a b) := by
  obtain ⟨m, rfl⟩ := Int.eq_ofNat_of_zero_le ha
  obtain ⟨k, rfl⟩ := Int.eq_ofNat_of_zero_le hb
  unfold CodeC16.gcd
  rw [Int.natAbs_natCast, gcd_loop (k + 1) m k (by omega)]
  simp [gcdI]

theorem gcdT_tie {a b : Int} (ha : 0 ≤ a) (hb : 0 ≤ b) : CodeC16.gcdT a b = gcdI a b := by
  simp [CodeC16.gcdT, gcd_tie ha hb]

/-- **the translated `lcm` is the model's `lcmI`** (Go's truncating `/` is the floor division on these operands) -/
theorem lcm_tie {a b : Int} (ha : 0 ≤ a) (hb : 0 ≤ b) : CodeC16.lcm a b = lcmI a b := by
  unfold CodeC16.lcm lcmI
  rw [gcdT_tie ha hb]
  simp only [GoLib.quo, GoLib.GoQuo.quo]
  rw [Int.tdiv_eq_ediv_of_nonneg hb]

example : CodeC16.gcd 12 18 = some 6 := by decide
example : CodeC16.lcm 4 6 = 12 := by decide

/-! ## `RebalanceWeight`: the three loop bodies, exactly as generated -/

/-- body of the first loop (lcm of the non-zero lengths) -/
def body1 (cl : Cluster) (lcmCount : Int) : Step Int (List Cluster) :=
  if ((cl).length == (0 : Int)) then
    GoLib.Step.next lcmCount
  else
    if (decide (lcmCount > (0 : Int))) then
      let lcmCount := (CodeC16.lcm lcmCount (cl).length)
      GoLib.Step.next lcmCount
    else
      let lcmCount := (cl).length
      GoLib.Step.next lcmCount

/-- body of the second loop (gcd, max, min of the cluster weights) -/
def body2 (lcmCount : Int) (cl : Cluster) : Int × Int × Int → Step (Int × Int × Int) (List Cluster) :=
  fun (gcdClusterWeight, maxWeight, minWeight) =>
  if (((cl).length == (0 : Int)) || ((cl).weight == (0 : Int))) then
    GoLib.Step.next (gcdClusterWeight, maxWeight, minWeight)
  else
    let clusterWeight := (GoLib.quo ((cl).weight * lcmCount) (cl).length)
    let gcdClusterWeight := (if (decide (gcdClusterWeight > (0 : Int))) then
      let gcdClusterWeight := (CodeC16.gcdT gcdClusterWeight clusterWeight)
      gcdClusterWeight
    else
      let gcdClusterWeight := clusterWeight
      gcdClusterWeight)
    let minWeight := (if ((decide (clusterWeight < minWeight)) || (decide (minWeight < (0 : Int)))) then
      let minWeight := clusterWeight
      minWeight
    else
      minWeight)
    if (decide (clusterWeight > maxWeight)) then
      let maxWeight := clusterWeight
      GoLib.Step.next (gcdClusterWeight, maxWeight, minWeight)
    else
      GoLib.Step.next (gcdClusterWeight, maxWeight, minWeight)

/-- the weight the last loop writes for one cluster -/
def newW (lcmCount gcdClusterWeight : Int) (weightFactorMin weightFactor : F32) (cl : Cluster) : Int :=
  let weight := (GoLib.quo (weightFactorMin * (C16.F32.ofInt ((cl).weight * lcmCount))) (C16.F32.ofInt ((cl).length * gcdClusterWeight)))
  if (decide (weightFactor > (1 : Int))) then
    let propWeight := (C16.F32.toInt (GoLib.quo weight weightFactor))
    (if ((propWeight == (0 : Int)) && (decide ((cl).weight > (0 : Int)))) then (1 : Int) else propWeight)
  else
    let propWeight := (C16.F32.toInt weight)
    (if ((propWeight == (0 : Int)) && (decide ((cl).weight > (0 : Int)))) then (1 : Int) else propWeight)

/-- the translated function, with the loop bodies named: every loop visits every cluster, no early exit; the last
loop rewrites `Weight` of every cluster and nothing else -/
def spec (clusters : List Cluster) (initialWeight : Int) : List Cluster :=
  match GoLib.forRange clusters (0 : Int) body1 with
  | .ret r' => r'
  | .done lcmCount =>
    if (lcmCount == (0 : Int)) then clusters
    else
      match GoLib.forRange clusters ((0 : Int), (0 : Int), (-(1 : Int))) (body2 lcmCount) with
      | .ret r' => r'
      | .done (gcdClusterWeight, maxWeight, minWeight) =>
        if (gcdClusterWeight == (0 : Int)) then clusters
        else
          let weightFactorMin := (GoLib.quo (C16.F32.ofInt (initialWeight * gcdClusterWeight)) (C16.F32.ofInt minWeight))
          let weightFactor := (GoLib.quo (weightFactorMin * (C16.F32.ofInt maxWeight)) (C16.F32.ofInt ((256 : Int) * gcdClusterWeight)))
          match GoLib.forRange clusters [] (fun cl acc' =>
              (GoLib.Step.next (GoLib.append1 acc' { cl with weight := newW lcmCount gcdClusterWeight weightFactorMin weightFactor cl }) :
                Step (List Cluster) (List Cluster))) with
          | .ret r' => r'
          | .done acc' => acc'

theorem code_eq_spec (clusters : List Cluster) (initialWeight : Int) :
    CodeC16.rebalanceWeight clusters initialWeight = spec clusters initialWeight := by
  unfold CodeC16.rebalanceWeight spec
  have hb : ∀ (l g : Int) (wfm wf : F32), (fun (cl : Cluster) (acc' : List Cluster) =>
      let weight := (GoLib.quo (wfm * (C16.F32.ofInt ((cl).weight * l))) (C16.F32.ofInt ((cl).length * g)))
      if (decide (wf > (1 : Int))) then
        let propWeight := (C16.F32.toInt (GoLib.quo weight wf))
        let propWeight := (if ((propWeight == (0 : Int)) && (decide ((cl).weight > (0 : Int)))) then
          let propWeight := (1 : Int)
          propWeight
        else
          propWeight)
        let cl := { cl with weight := propWeight }
        (GoLib.Step.next (GoLib.append1 acc' cl) : Step (List Cluster) (List Cluster))
      else
        let propWeight := (C16.F32.toInt weight)
        let propWeight := (if ((propWeight == (0 : Int)) && (decide ((cl).weight > (0 : Int)))) then
          let propWeight := (1 : Int)
          propWeight
        else
          propWeight)
        let cl := { cl with weight := propWeight }
        GoLib.Step.next (GoLib.append1 acc' cl)) =
      (fun cl acc' => GoLib.Step.next (GoLib.append1 acc' { cl with weight := newW l g wfm wf cl })) := by
    intro l g wfm wf
    funext cl acc'
    simp only [newW]
    split <;> rfl
  simp only [hb]
  rfl

/-! ## loops that never leave early are folds -/

theorem forRange_fold {α σ τ ρ : Type} (f : α → σ → Step σ ρ) (g : τ → α → τ) (r : τ → σ) (P : τ → Prop) :
    ∀ (xs : List α) (t : τ), P t →
      (∀ x ∈ xs, ∀ t, P t → f x (r t) = .next (r (g t x)) ∧ P (g t x)) →
      GoLib.forRange xs (r t) f = .done (r (xs.foldl g t)) ∧ P (xs.foldl g t) := by
  intro xs
  induction xs with
  | nil => intro t hP _; exact ⟨rfl, hP⟩
  | cons x xs ih =>
    intro t hP h
    obtain ⟨h1, h2⟩ := h x (by simp) t hP
    simp only [GoLib.forRange, h1, List.foldl_cons]
    exact ih (g t x) h2 (fun y hy => h y (by simp [hy]))

/-- first loop = the model's `lcmCount` -/
theorem loop1 {cls : List Cluster} (hlen : ∀ c ∈ cls, 0 ≤ c.length) :
    GoLib.forRange cls (0 : Int) body1 = .done (lcmCount cls) := by
  have := forRange_fold (ρ := List Cluster) body1 lcmStep id (fun t => 0 ≤ t) cls 0 (le_refl _)
    (by
      intro c hc t ht
      have hl := hlen c hc
      have hs := lcmStep_spec (acc := t) (c := c) ht hl
      refine ⟨?_, hs.1⟩
      simp only [body1, lcmStep, id]
      by_cases h0 : c.length = 0
      · simp [h0]
      · by_cases ht0 : t > 0
        · simp [h0, ht0, lcm_tie ht hl]
        · simp [h0, ht0])
  simpa [lcmCount_eq] using this.1

/-- the state tuple of the second loop -/
def accT (a : Acc) : Int × Int × Int := (a.g, a.mx, a.mn)

theorem tdiv_nonneg' {a b : Int} (ha : 0 ≤ a) (hb : 0 ≤ b) : 0 ≤ a.tdiv b := Int.tdiv_nonneg ha hb

/-- second loop = the model's accumulator `accAll` -/
theorem loop2 {cls : List Cluster} {lcm : Int} (hl : 0 ≤ lcm) (hlen : ∀ c ∈ cls, 0 ≤ c.length)
    (hw : ∀ c ∈ cls, 0 ≤ c.weight) :
    GoLib.forRange cls ((0 : Int), (0 : Int), (-(1 : Int))) (body2 lcm) = .done (accT (accAll lcm cls)) := by
  have := forRange_fold (ρ := List Cluster) (body2 lcm) (accStep lcm) accT (fun a => 0 ≤ a.g) cls {} (le_refl _)
    (by
      intro c hc a ha
      have hcl := hlen c hc
      have hcw := hw c hc
      have hcw0 : 0 ≤ clusterWeight lcm c := tdiv_nonneg' (Int.mul_nonneg hcw hl) hcl
      have hq : GoLib.quo (c.weight * lcm) c.length = clusterWeight lcm c := rfl
      by_cases hact : c.length = 0 ∨ c.weight = 0
      · refine ⟨?_, by simp [accStep, hact, ha]⟩
        show body2 lcm c (a.g, a.mx, a.mn) =
            Step.next ((accStep lcm a c).g, (accStep lcm a c).mx, (accStep lcm a c).mn)
        simp only [body2, accStep, if_pos hact]
        rcases hact with h | h <;> simp [h]
      · have h1 : c.length ≠ 0 := fun h => hact (Or.inl h)
        have h2 : c.weight ≠ 0 := fun h => hact (Or.inr h)
        constructor
        · show body2 lcm c (a.g, a.mx, a.mn) =
            Step.next ((accStep lcm a c).g, (accStep lcm a c).mx, (accStep lcm a c).mn)
          simp only [body2, accStep, if_neg hact, hq]
          have hbeq1 : (c.length == 0) = false := by simpa using h1
          have hbeq2 : (c.weight == 0) = false := by simpa using h2
          simp only [hbeq1, hbeq2, Bool.or_false, Bool.false_eq_true, if_false]
          have e : (decide (clusterWeight lcm c < a.mn) || decide (a.mn < 0)) =
              decide (clusterWeight lcm c < a.mn ∨ a.mn < 0) := by simp
          simp only [e]
          by_cases hg : a.g > 0
          · have hgt := gcdT_tie (le_of_lt hg) hcw0
            by_cases hm : (clusterWeight lcm c < a.mn ∨ a.mn < 0) <;>
              by_cases hmx : clusterWeight lcm c > a.mx <;> simp [hg, hm, hmx, hgt]
          · by_cases hm : (clusterWeight lcm c < a.mn ∨ a.mn < 0) <;>
              by_cases hmx : clusterWeight lcm c > a.mx <;> simp [hg, hm, hmx]
        · simp only [accStep, if_neg hact]
          by_cases hg : a.g > 0
          · simp only [if_pos hg]; rw [gcdI_eq]; exact Int.natCast_nonneg _
          · simp only [if_neg hg]; exact hcw0)
  simpa [accAll, accT] using this.1

theorem foldl_push {α β : Type} (h : α → β) (xs : List α) : ∀ (init : List β),
    xs.foldl (fun acc x => GoLib.append1 acc (h x)) init = init ++ xs.map h := by
  induction xs with
  | nil => intro init; simp
  | cons x xs ih => intro init; rw [List.foldl_cons, ih]; simp [GoLib.append1]

/-- third loop = a map over the clusters -/
theorem loop3 (cls : List Cluster) (h : Cluster → Cluster) :
    GoLib.forRange cls [] (fun cl acc' => (GoLib.Step.next (GoLib.append1 acc' (h cl)) : Step (List Cluster) (List Cluster)))
      = .done (cls.map h) := by
  have := forRange_fold (ρ := List Cluster) (fun cl acc' => (GoLib.Step.next (GoLib.append1 acc' (h cl)) : Step (List Cluster) (List Cluster)))
    (fun acc x => GoLib.append1 acc (h x)) id (fun _ => True) cls [] trivial (fun _ _ _ _ => ⟨rfl, trivial⟩)
  simpa [foldl_push] using this.1

/-! ## the float expressions -/

theorem f32_one : f32 1 = 1 := by
  have := f32_exact_of_int 1 (by norm_num)
  simpa using this

theorem ofInt_v (i : Int) : (F32.ofInt i).v = some (f32 (i : Rat)) := rfl

theorem quo_some {x y : Rat} (hy : y ≠ 0) :
    (GoLib.quo (⟨some x⟩ : F32) ⟨some y⟩) = ⟨some (f32 (x / y))⟩ := by
  show F32.div _ _ = _
  simp [F32.div, hy]

theorem mul_some (x y : Rat) : ((⟨some x⟩ : F32) * ⟨some y⟩) = ⟨some (f32 (x * y))⟩ := rfl

theorem gt_one_iff (x : Rat) : ((⟨some x⟩ : F32) > ((1 : Int) : F32)) ↔ x > 1 := by
  show F32.ltB (F32.ofInt 1) ⟨some x⟩ = true ↔ _
  simp [F32.ltB, F32.ofInt, f32_one]

/-- the weight the translated last loop writes for a non-empty cluster is the model's `newWeight` -/
theorem newW_eq {lcm g : Int} {wfm wf : Rat} {c : Cluster} (hl : 0 < c.length) (hg : 0 < g) :
    newWeight f32 lcm g wfm wf c = some (newW lcm g ⟨some wfm⟩ ⟨some wf⟩ c) := by
  have hden : f32 ((c.length * g : Int) : Rat) ≠ 0 := by
    have : (0 : Rat) < ((c.length * g : Int) : Rat) := by exact_mod_cast Int.mul_pos hl hg
    exact ne_of_gt (f32_pos_of_pos this)
  have hl0 : c.length ≠ 0 := by omega
  unfold newWeight newW
  simp only [if_neg hl0]
  have hweight : (GoLib.quo ((⟨some wfm⟩ : F32) * (F32.ofInt (c.weight * lcm))) (F32.ofInt (c.length * g)))
      = ⟨some (f32 (f32 (wfm * f32 ((c.weight : Rat) * (lcm : Rat))) / f32 ((c.length : Rat) * (g : Rat))))⟩ := by
    have h1 : F32.ofInt (c.weight * lcm) = ⟨some (f32 ((c.weight : Rat) * (lcm : Rat)))⟩ := by
      simp [F32.ofInt]
    have h2 : F32.ofInt (c.length * g) = ⟨some (f32 ((c.length : Rat) * (g : Rat)))⟩ := by
      simp [F32.ofInt]
    rw [h1, h2, mul_some, quo_some]
    have := hden
    push_cast at this
    exact this
  rw [hweight]
  by_cases hwf : wf > 1
  · have hd : decide ((⟨some wf⟩ : F32) > ((1 : Int) : F32)) = true := by
      simpa using (gt_one_iff wf).2 hwf
    have hwf0 : wf ≠ 0 := by
      intro h0; rw [h0] at hwf; exact absurd hwf (by norm_num)
    simp only [hd, if_true, if_pos hwf, quo_some hwf0, F32.toInt]
    simp
  · have hd : decide ((⟨some wf⟩ : F32) > ((1 : Int) : F32)) = false := by
      simpa using (not_congr (gt_one_iff wf)).2 hwf
    simp only [hd, if_neg hwf, F32.toInt]
    simp

/-- **`RebalanceWeight` as written in Go computes the model `C16.rebalance`**: on well-formed input both are maps
over the clusters, position by position; the code changes nothing but `Weight`, and wherever the model specifies a
weight (every cluster that has replicas, and every cluster when the function returns early) the code writes exactly
that weight.  (For an empty cluster after a rebalance the Go code converts ±Inf/NaN to `int` — implementation
defined, never read by the callers — and the model says `none`.) -/
theorem rebalance_tie {cls : List Cluster} {initial : Int} (h : WFIn cls initial) :
    ∃ (hc : Cluster → Cluster) (hm : Cluster → Option Int),
      CodeC16.rebalanceWeight cls initial = cls.map hc ∧ rebalance cls initial = cls.map hm ∧
      ∀ c ∈ cls, (hc c).length = c.length ∧ ∀ w, hm c = some w → (hc c).weight = w := by
  rw [code_eq_spec]
  unfold spec
  rw [loop1 h.len]
  have hL := lcmCount_nonneg h.len
  simp only []
  unfold rebalance
  rw [rebalanceWith_eq]
  by_cases hz : lcmCount cls = 0
  · refine ⟨id, fun c => some c.weight, ?_, ?_, ?_⟩
    · simp [hz]
    · simp [hz]
    · intro c _; exact ⟨rfl, fun w hw => by simpa using hw⟩
  · have hzb : (lcmCount cls == 0) = false := by simpa using hz
    simp only [hzb, if_neg hz, Bool.false_eq_true, if_false]
    rw [loop2 hL h.len h.wlo]
    simp only [accT]
    by_cases hg : (accAll (lcmCount cls) cls).g = 0
    · refine ⟨id, fun c => some c.weight, ?_, ?_, ?_⟩
      · simp [hg]
      · simp [hg]
      · intro c _; exact ⟨rfl, fun w hw => by simpa using hw⟩
    · have hgb : ((accAll (lcmCount cls) cls).g == 0) = false := by simpa using hg
      simp only [hgb, if_neg hg, Bool.false_eq_true, if_false]
      obtain ⟨g0, mn0, mnmx, _, _, _⟩ := accAll_spec h hg
      have hmx0 : 0 < (accAll (lcmCount cls) cls).mx := by omega
      -- the two scale factors are finite
      have hmnR : f32 (((accAll (lcmCount cls) cls).mn : Int) : Rat) ≠ 0 :=
        ne_of_gt (f32_pos_of_pos (by exact_mod_cast mn0))
      have hgR : f32 (((256 * (accAll (lcmCount cls) cls).g : Int)) : Rat) ≠ 0 :=
        ne_of_gt (f32_pos_of_pos (by exact_mod_cast (by omega : 0 < 256 * (accAll (lcmCount cls) cls).g)))
      have hwfm : (GoLib.quo (F32.ofInt (initial * (accAll (lcmCount cls) cls).g)) (F32.ofInt (accAll (lcmCount cls) cls).mn))
          = ⟨some (wfmOf f32 initial (accAll (lcmCount cls) cls))⟩ := by
        have h1 : F32.ofInt (initial * (accAll (lcmCount cls) cls).g) =
            ⟨some (f32 ((initial : Rat) * ((accAll (lcmCount cls) cls).g : Rat)))⟩ := by simp [F32.ofInt]
        rw [h1, F32.ofInt, quo_some hmnR]; rfl
      have hwf : (GoLib.quo ((⟨some (wfmOf f32 initial (accAll (lcmCount cls) cls))⟩ : F32) * (F32.ofInt (accAll (lcmCount cls) cls).mx))
            (F32.ofInt ((256 : Int) * (accAll (lcmCount cls) cls).g)))
          = ⟨some (wfOf f32 initial (accAll (lcmCount cls) cls))⟩ := by
        have h2 : F32.ofInt ((256 : Int) * (accAll (lcmCount cls) cls).g) =
            ⟨some (f32 ((256 : Rat) * ((accAll (lcmCount cls) cls).g : Rat)))⟩ := by simp [F32.ofInt]
        have hgR' : f32 ((256 : Rat) * ((accAll (lcmCount cls) cls).g : Rat)) ≠ 0 := by
          have := hgR; push_cast at this; exact this
        rw [h2, F32.ofInt, mul_some, quo_some hgR']; rfl
      rw [hwfm, hwf, loop3]
      refine ⟨_, _, rfl, rfl, ?_⟩
      intro c hc
      refine ⟨rfl, ?_⟩
      intro w hw
      by_cases hl : c.length = 0
      · rw [newWeight_eq, if_pos hl] at hw; exact absurd hw (by simp)
      · have hlpos : 0 < c.length := by have := h.len c hc; omega
        rw [newW_eq hlpos g0] at hw
        exact Option.some.inj hw

/-- non-vacuity / a concrete run of the translated code: 41:59 with one replica each, initial weight 1 — the input
of the repaired zero-weight defect -/
example : (CodeC16.rebalanceWeight [⟨41, 1⟩, ⟨59, 1⟩] 1).map (·.weight) = [1, 1] := by decide +kernel

end HapVerif.C16Tie
