import HapVerif.Model.C03Views
import HapVerif.Generated.CodeC03
/-!
# C03 — regenerated tie of `FindServicePort` (pkg/converters/utils/services.go)

TRANSLATED on every run (Generated/CodeC03.lean; `strconv.ParseInt` is a parameter).  `findServicePort_tie`: which port
of the Service a backend declaration designates — the FIRST port whose name or `targetPort` text equals the declared
text; only when there is none and the text is a number, the first port with that number; else nil (the caller then
skips the backend).  The correspondence run compares the same function on generated Services (mode `ep`).
-/
namespace HapVerif.C03FindTie
open HapVerif HapVerif.GoLib HapVerif.C03V

def byText (sp : List Char) (p : SvcPortFull) : Bool := p.Name == sp || p.TargetPortString == sp

/-- a unit-state loop whose body returns the first element satisfying `q` -/
theorem first_loop (q : SvcPortFull → Bool) (ports : List SvcPortFull) :
    GoLib.forRange ports () (fun port _ =>
      if q port then (GoLib.Step.ret (some port) : GoLib.Step Unit (Option SvcPortFull)) else GoLib.Step.next ())
    = match ports.find? q with
      | some p => .ret (some p)
      | none => .done () := by
  induction ports with
  | nil => rfl
  | cons p ps ih =>
    simp only [GoLib.forRange, List.find?_cons]
    cases hq : q p with
    | true => simp
    | false => simpa using ih

/-- the function with its two loops in closed form -/
def spec (parseInt : List Char → Int × Option String) (ports : List SvcPortFull) (sp : List Char) : Option SvcPortFull :=
  match ports.find? (byText sp) with
  | some p => some p
  | none =>
    match (parseInt sp).2 with
    | some _ => none
    | none => ports.find? (fun p => p.Port == (parseInt sp).1)

def firstBody (q : SvcPortFull → Bool) : SvcPortFull → Unit → GoLib.Step Unit (Option SvcPortFull) :=
  fun port _ => if q port then GoLib.Step.ret (some port) else GoLib.Step.next ()

theorem first_loop' (q : SvcPortFull → Bool) (ports : List SvcPortFull) :
    GoLib.forRange ports () (firstBody q) = match ports.find? q with
      | some p => .ret (some p)
      | none => .done () := first_loop q ports

/-- the generated function with its loop bodies named -/
def codeSpec (parseInt : List Char → Int × Option String) (ports : List SvcPortFull) (servicePort : List Char) : Option SvcPortFull :=
  match GoLib.forRange ports () (firstBody (byText servicePort)) with
  | .ret r' => r'
  | .done _ =>
    let (svcPortNumber, err) := ((fun s _ _ => parseInt s) servicePort (10 : Int) (0 : Int))
    if (err != GoLib.nil) then
      GoLib.nil
    else
      let svcPort := (GoLib.idInt svcPortNumber)
      match GoLib.forRange ports () (firstBody (fun port => (port).Port == svcPort)) with
      | .ret r' => r'
      | .done _ =>
        GoLib.nil

theorem code_eq (parseInt : List Char → Int × Option String) (ports : List SvcPortFull) (sp : List Char) :
    CodeC03.findServicePort parseInt ports sp = codeSpec parseInt ports sp := rfl

theorem findServicePort_tie (parseInt : List Char → Int × Option String) (ports : List SvcPortFull) (sp : List Char) :
    CodeC03.findServicePort parseInt ports sp = spec parseInt ports sp := by
  rw [code_eq]
  unfold codeSpec spec
  rw [first_loop']
  cases hf : ports.find? (byText sp) with
  | some p => rfl
  | none =>
    simp only []
    cases he : (parseInt sp).2 with
    | some e =>
      have : ((parseInt sp).2 != GoLib.nil) = true := by simp [he, GoLib.nil]
      simp [GoLib.nil]
    | none =>
      have : ((parseInt sp).2 != GoLib.nil) = false := by simp [he, GoLib.nil]
      simp only [this, Bool.false_eq_true, ↓reduceIte, GoLib.idInt]
      rw [first_loop']
      cases ports.find? (fun p => p.Port == (parseInt sp).1) <;> rfl

/-- **a port designated by name or targetPort wins over a port that merely carries the number** -/
theorem text_match_wins (parseInt : List Char → Int × Option String) (ports : List SvcPortFull) (sp : List Char)
    (p : SvcPortFull) (h : ports.find? (byText sp) = some p) :
    CodeC03.findServicePort parseInt ports sp = some p := by
  rw [findServicePort_tie, spec, h]

/-- the port handed back is a port of the Service that matches the declared text by name, targetPort or number -/
theorem found_is_designated (parseInt : List Char → Int × Option String) (ports : List SvcPortFull) (sp : List Char)
    (p : SvcPortFull) (h : CodeC03.findServicePort parseInt ports sp = some p) :
    p ∈ ports ∧ (byText sp p = true ∨ ((parseInt sp).2 = none ∧ p.Port = (parseInt sp).1)) := by
  rw [findServicePort_tie] at h
  unfold spec at h
  cases hf : ports.find? (byText sp) with
  | some q =>
    rw [hf] at h
    cases h
    exact ⟨List.mem_of_find?_eq_some hf, Or.inl (List.find?_some hf)⟩
  | none =>
    rw [hf] at h
    simp only [] at h
    cases he : (parseInt sp).2 with
    | some e => rw [he] at h; cases h
    | none =>
      rw [he] at h
      simp only [] at h
      have := List.find?_some h
      exact ⟨List.mem_of_find?_eq_some h, Or.inr ⟨rfl, by simpa using this⟩⟩

/-- a text that is neither a name, a targetPort nor a number designates nothing -/
theorem unknown_text_is_nil (parseInt : List Char → Int × Option String) (ports : List SvcPortFull) (sp : List Char)
    (e : String) (h1 : ports.find? (byText sp) = none) (h2 : (parseInt sp).2 = some e) :
    CodeC03.findServicePort parseInt ports sp = none := by
  rw [findServicePort_tie, spec, h1]; simp [h2]

example : CodeC03.findServicePort (fun _ => (8080, none))
    [⟨"web".toList, "http".toList, 80⟩, ⟨"alt".toList, "8080".toList, 81⟩, ⟨"num".toList, "x".toList, 8080⟩] "8080".toList
    = some ⟨"alt".toList, "8080".toList, 81⟩ := by decide

end HapVerif.C03FindTie
