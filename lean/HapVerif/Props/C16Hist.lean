import HapVerif.Model.C16Hist
import HapVerif.Generated.Facts
/-!
# C16 — histories: the weights WRITTEN follow the last configuration

Full-strength statement: after every history of cluster states, the weights written for the servers
of a backend are those the converter computes for the LAST state (so range / zero-iff / share / order
of Props/C16Callers hold for what HAProxy is given, not only for what one conversion returns).

* `sameKeys_whole`: with the code's key (the whole Endpoint value) two backends match only when they
  hold the same set of (server, weight) pairs;
* `shrink_code_mem` / `shrink_code_other`: `Shrink` with that key never changes the set of
  (server, weight) pairs of the rebuilt backend, whatever is committed;
* `hist_code_written`: after EVERY history the store holds, as a set, the servers and weights of
  `convert` of the last state the controller was told about (`seen`), for every `convert`;
  `hist_code_written_all_visible`: when every change is an event, that is the LAST state;
  `hist_code_weightAt`: the weight looked up by address is the converter's;
* the code is weaker than the full statement only through the events: `relabel_not_seen`
  (kernel-checked): a state that differs from its predecessor only in pod labels is not converted
  (the Pod watcher forwards only DeletionTimestamp changes) — known finding
  `written-weights-stale-after-pod-relabel`;
* `shrink_blind_keeps_committed` + `blind_rebalance_is_dropped` (seed C16g): a key that leaves the
  weight out keeps the COMMITTED weights whenever only weights change.
-/
namespace HapVerif.C16

theorem sameKeys_whole {l1 l2 : List HSrv} (h : sameKeys keyWhole l1 l2 = true) :
    ∀ e, e ∈ l1 ↔ e ∈ l2 := by
  intro e
  simp only [sameKeys, Bool.and_eq_true, List.all_eq_true, List.any_eq_true, decide_eq_true_eq] at h
  have inj : ∀ a b : HSrv, keyWhole a = keyWhole b → a = b := by
    intro a b hk
    cases a; cases b
    simp only [keyWhole, Prod.mk.injEq] at hk
    simp [hk.1, hk.2]
  constructor
  · intro he
    obtain ⟨x, hx, hk⟩ := h.2 e he
    rw [← inj _ _ hk]; exact hx
  · intro he
    obtain ⟨x, hx, hk⟩ := h.1 e he
    rw [← inj _ _ hk]; exact hx

/-- `Shrink` with the code's key: the (server, weight) pairs are those of the rebuilt backend -/
theorem shrink_code_mem {α : Type} [DecidableEq α] (committed : Option (HBackend α)) (rebuilt : HBackend α) :
    ∀ e, e ∈ (shrinkWith keyWhole committed rebuilt).eps ↔ e ∈ rebuilt.eps := by
  intro e
  cases committed with
  | none => simp [shrinkWith]
  | some del =>
    simp only [shrinkWith]
    split
    · rename_i h
      simp only [Bool.and_eq_true, backendsMatchWith] at h
      exact (sameKeys_whole h.2.2 e).symm
    · exact Iff.rfl

theorem shrink_code_other {α : Type} [DecidableEq α] (committed : Option (HBackend α)) (rebuilt : HBackend α) :
    (shrinkWith keyWhole committed rebuilt).other = rebuilt.other := by
  cases committed with
  | none => simp [shrinkWith]
  | some del =>
    simp only [shrinkWith]
    split
    · rename_i h
      simp only [Bool.and_eq_true, backendsMatchWith, decide_eq_true_eq] at h
      exact h.2.1.symm
    · rfl

/-- the store holds what `convert` gives for the last state the controller converted -/
def Tracks {α σ : Type} (convert : σ → HBackend α) (s : HState α σ) : Prop :=
  match s.seen, s.store with
  | none, none => True
  | some c, some b => (∀ e, e ∈ b.eps ↔ e ∈ (convert c).eps) ∧ b.other = (convert c).other
  | _, _ => False

theorem histStep_tracks {α σ : Type} [DecidableEq α] (vis : σ → σ → Bool) (convert : σ → HBackend α)
    (s : HState α σ) (c : σ) (h : Tracks convert s) : Tracks convert (histStep keyWhole vis convert s c) := by
  unfold histStep
  by_cases hv : isVisible vis s.prev c = true
  · rw [if_pos hv]; exact ⟨shrink_code_mem _ _, shrink_code_other _ _⟩
  · rw [if_neg hv]; exact h

/-- MAIN: after every history (any states, any events, any converter) the written servers and weights
are, as a set, those of `convert` of the last converted state -/
theorem hist_code_written {α σ : Type} [DecidableEq α] (vis : σ → σ → Bool) (convert : σ → HBackend α)
    (cs : List σ) (s : HState α σ) (h : Tracks convert s) :
    Tracks convert (histWith keyWhole vis convert s cs) := by
  induction cs generalizing s with
  | nil => exact h
  | cons c cs ih => exact ih _ (histStep_tracks vis convert s c h)

theorem histWith_append {α κ σ : Type} [DecidableEq α] [DecidableEq κ] (key : HSrv → κ) (vis : σ → σ → Bool)
    (convert : σ → HBackend α) (s : HState α σ) (cs : List σ) (c : σ) :
    histWith key vis convert s (cs ++ [c]) = histStep key vis convert (histWith key vis convert s cs) c := by
  simp [histWith, List.foldl_append]

/-- when every change of the cluster is an event the written weights are those of the LAST state:
every clause proved of `convert` (Props/C16Callers) holds of what is written after any history -/
theorem hist_code_written_all_visible {α σ : Type} [DecidableEq α] (convert : σ → HBackend α)
    (cs : List σ) (c : σ) :
    ∃ b, (histWith keyWhole visAlways convert {} (cs ++ [c])).store = some b ∧
      (∀ e, e ∈ b.eps ↔ e ∈ (convert c).eps) ∧ b.other = (convert c).other := by
  rw [histWith_append]
  refine ⟨shrinkWith keyWhole (histWith keyWhole visAlways convert {} cs).store (convert c), ?_, ?_, ?_⟩
  · unfold histStep
    cases (histWith keyWhole visAlways convert {} cs).prev <;> simp [isVisible, visAlways]
  · exact shrink_code_mem _ _
  · exact shrink_code_other _ _

theorem find_of_wellKeyed {l1 l2 : List HSrv} (hm : ∀ e, e ∈ l1 ↔ e ∈ l2) (hk : WellKeyed l2) (a : Nat) :
    l1.find? (fun e => e.addr == a) = l2.find? (fun e => e.addr == a) := by
  cases h1 : l1.find? (fun e => e.addr == a) with
  | none =>
    rw [List.find?_eq_none] at h1
    symm
    rw [List.find?_eq_none]
    intro x hx
    exact h1 x ((hm x).2 hx)
  | some e =>
    have he := List.mem_of_find?_eq_some h1
    have hp := List.find?_some h1
    cases h2 : l2.find? (fun e => e.addr == a) with
    | none =>
      rw [List.find?_eq_none] at h2
      exact absurd hp (h2 e ((hm e).1 he))
    | some e' =>
      have he' := List.mem_of_find?_eq_some h2
      have hp' := List.find?_some h2
      simp only [beq_iff_eq] at hp hp'
      rw [hk e ((hm e).1 he) e' he' (hp.trans hp'.symm)]

/-- the weight written for an address is the converter's, whenever the converter gives one weight per
address (`bgAcquire_nodup`: blue/green; Gateway: a repeated address carries its ref's weight) -/
theorem hist_code_weightAt {α σ : Type} [DecidableEq α] (convert : σ → HBackend α) (cs : List σ) (c : σ)
    (hk : WellKeyed (convert c).eps) :
    ∃ b, (histWith keyWhole visAlways convert {} (cs ++ [c])).store = some b ∧
      ∀ a, weightAt b a = weightAt (convert c) a := by
  obtain ⟨b, hb, hm, _⟩ := hist_code_written_all_visible convert cs c
  exact ⟨b, hb, fun a => by unfold weightAt; rw [find_of_wellKeyed hm hk a]⟩

/-! ### non-vacuity and the seeded variant -/

def demoA : HBackend Unit := ⟨(), [⟨1, 1⟩, ⟨2, 1⟩, ⟨3, 2⟩]⟩   -- blue 50 / green 50 on blue,blue,green
def demoB : HBackend Unit := ⟨(), [⟨1, 4⟩, ⟨2, 4⟩, ⟨3, 1⟩]⟩   -- blue 90 / green 10
def demoConv : Bool → HBackend Unit := fun b => if b then demoB else demoA

example : (histWith keyWhole visAlways demoConv {} [false, true]).store = some demoB := by decide
example : (histWith keyWhole visAlways demoConv {} [false, true, false]).store = some demoA := by decide
example : WellKeyed demoB.eps := by
  intro e1 h1 e2 h2 h
  simp only [demoB, List.mem_cons, List.mem_nil_iff, or_false] at h1 h2
  rcases h1 with rfl | rfl | rfl <;> rcases h2 with rfl | rfl | rfl <;> first | rfl | (simp at h)

/-- a weight-blind key: when only weights differ (same `other`, same addresses in the same order) the
COMMITTED backend is put back -/
theorem shrink_blind_keeps_committed {α : Type} [DecidableEq α] (del rebuilt : HBackend α)
    (ho : rebuilt.other = del.other) (ha : rebuilt.eps.map (·.addr) = del.eps.map (·.addr)) :
    shrinkWith keyNoWeight (some del) rebuilt = del := by
  have hl : rebuilt.eps.length = del.eps.length := by
    have := congrArg List.length ha
    simpa using this
  have hs : sameKeys keyNoWeight rebuilt.eps del.eps = true := by
    simp only [sameKeys, keyNoWeight, Bool.and_eq_true, List.all_eq_true, List.any_eq_true]
    constructor
    · intro e he
      have : e.addr ∈ rebuilt.eps.map (·.addr) := by rw [ha]; exact List.mem_map_of_mem he
      obtain ⟨x, hx, hxe⟩ := List.mem_map.1 this
      exact ⟨x, hx, decide_eq_true hxe⟩
    · intro x hx
      have : x.addr ∈ del.eps.map (·.addr) := by rw [← ha]; exact List.mem_map_of_mem hx
      obtain ⟨e, he, hex⟩ := List.mem_map.1 this
      exact ⟨e, he, decide_eq_true hex⟩
  simp [shrinkWith, backendsMatchWith, ho, hs, hl]

/-- seed C16g on its demonstration: 50/50 -> 90/10 on blue,blue,green keeps 1,1,2; the full-strength
statement (`hist_code_written_all_visible`) fails for the weight-blind key -/
theorem blind_rebalance_is_dropped :
    (histWith keyNoWeight visAlways demoConv {} [false, true]).store = some demoA ∧
    (histWith keyWhole visAlways demoConv {} [false, true]).store = some demoB ∧
    histOracle false [1, 1, 2] [1, 1, 2] [4, 4, 1] = some "written-weights-stale-after-balance-change" := by
  decide

/-- the events: a state that differs from its predecessor in nothing the watchers forward is not
converted — the written weights stay those of the last converted state (known finding
`written-weights-stale-after-pod-relabel`: `vis` is false for a change of pod labels alone) -/
theorem relabel_not_seen :
    (histWith keyWhole (fun _ _ => false) demoConv {} [false, true]).store = some demoA ∧
    (histWith keyWhole (fun _ _ => false) demoConv {} [false, true]).seen = some false := by
  decide

theorem invisible_step_keeps_store {α κ σ : Type} [DecidableEq α] [DecidableEq κ] (key : HSrv → κ)
    (vis : σ → σ → Bool) (convert : σ → HBackend α) (s : HState α σ) (p c : σ)
    (hp : s.prev = some p) (hv : vis p c = false) :
    (histStep key vis convert s c).store = s.store ∧ (histStep key vis convert s c).seen = s.seen := by
  simp [histStep, isVisible, hp, hv]

/-- regenerated from pkg/haproxy/types/backends.go: `backendsMatch` keys its endpoint set by the
dereferenced Endpoint value (every field, `Weight` included) -/
theorem facts_c16_backends_match :
    HapVerif.Facts.c16BackendsMatchKeys = ["*ep", "*ep", "*ep"] ∧
    HapVerif.Facts.c16BackendsMatchMapKeyType = "Endpoint" ∧
    HapVerif.Facts.c16ShrinkUsesBackendsMatch = true := by decide

end HapVerif.C16
