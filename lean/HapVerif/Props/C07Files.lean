import HapVerif.Model.C07Files
/-!
# C07 — a CA bundle read from files never puts the name of a missing file into the configuration

`auth-tls-secret` / `secure-verify-ca-secret` accept `file://<ca>[,<crl>]`.  Unlike the secret protocol the
controller does not write these files itself, so "every file the configuration names exists" rests on
`GetCASecretPath` alone: it must hand a name back only after `os.Stat` succeeded on it.  The theorems are
about the model `Files.resolve` (Model/C07Files.lean), for EVERY reference text and EVERY set of existing
files; the `cafile` cases of the harness compare the model with the real function on the real filesystem.
-/
namespace HapVerif.C07.Files

/-- a name is handed back only for a file that exists (also next to an error) -/
theorem resolveNames_names_exist (ex : String → Bool) (l : List String) :
    ((resolveNames ex l).ca ≠ "" → ex (resolveNames ex l).ca = true) ∧
    ((resolveNames ex l).crl ≠ "" → ex (resolveNames ex l).crl = true) := by
  match l with
  | [] => simp [resolveNames]
  | [a] => by_cases ha : ex a <;> simp [resolveNames, ha]
  | [a, b] => by_cases ha : ex a <;> by_cases hb : ex b <;> simp [resolveNames, ha, hb]
  | _ :: _ :: _ :: _ => simp [resolveNames]

theorem resolve_names_exist (ex : String → Bool) (ref : String) :
    ((resolve ex ref).ca ≠ "" → ex (resolve ex ref).ca = true) ∧
    ((resolve ex ref).crl ≠ "" → ex (resolve ex ref).crl = true) := by
  unfold resolve resolveFile
  simp only []
  split
  · split
    · simp
    · exact resolveNames_names_exist ex _
  · split <;> simp

/-- success exactly when there are one or two names and every one of them exists -/
theorem resolveNames_ok_iff (ex : String → Bool) (l : List String) :
    (resolveNames ex l).err = none ↔ l ≠ [] ∧ l.length ≤ 2 ∧ ∀ n ∈ l, ex n = true := by
  match l with
  | [] => simp [resolveNames]
  | [a] => by_cases ha : ex a <;> simp [resolveNames, ha]
  | [a, b] => by_cases ha : ex a <;> by_cases hb : ex b <;> simp [resolveNames, ha, hb]
  | _ :: _ :: _ :: _ => simp [resolveNames]

/-- an error whenever any named file is missing -/
theorem resolveNames_err_of_missing (ex : String → Bool) (l : List String)
    (h : ∃ n ∈ l, ex n = false) : (resolveNames ex l).err ≠ none := by
  intro hok
  obtain ⟨n, hn, hf⟩ := h
  have := ((resolveNames_ok_iff ex l).1 hok).2.2 n hn
  simp [hf] at this

/-- nothing else changes: on success the names are the ones of the reference, in order, the CRL name
empty exactly when only one name was given -/
theorem resolveNames_ok_names (ex : String → Bool) (l : List String)
    (h : (resolveNames ex l).err = none) :
    (l = [(resolveNames ex l).ca] ∧ (resolveNames ex l).crl = "") ∨
    l = [(resolveNames ex l).ca, (resolveNames ex l).crl] := by
  match l with
  | [] => simp [resolveNames] at h
  | [a] => by_cases ha : ex a <;> simp [resolveNames, ha] at h ⊢
  | [a, b] => by_cases ha : ex a <;> by_cases hb : ex b <;> simp [resolveNames, ha, hb] at h ⊢
  | _ :: _ :: _ :: _ => simp [resolveNames] at h

/-- the answer depends on the filesystem only through the files the reference names -/
theorem resolveNames_congr (ex ex' : String → Bool) (l : List String)
    (h : ∀ n ∈ l, ex n = ex' n) : resolveNames ex l = resolveNames ex' l := by
  match l with
  | [] => rfl
  | [a] => simp [resolveNames, ← h a (by simp)]
  | [a, b] => simp [resolveNames, ← h a (by simp), ← h b (by simp)]
  | _ :: _ :: _ :: _ => rfl

theorem resolveFile_ok_iff (ex : String → Bool) (c : String) :
    (resolveFile ex c).err = none ↔
      c ≠ "" ∧ (names c).length ≤ 2 ∧ names c ≠ [] ∧ ∀ n ∈ names c, ex n = true := by
  unfold resolveFile
  by_cases hc : c = ""
  · simp [hc]
  · simp only [hc, if_false, resolveNames_ok_iff]
    constructor
    · rintro ⟨a, b, d⟩; exact ⟨by simpa using hc, b, a, d⟩
    · rintro ⟨_, b, a, d⟩; exact ⟨a, b, d⟩

theorem resolveFile_err_of_missing (ex : String → Bool) (c : String)
    (h : ∃ n ∈ names c, ex n = false) : (resolveFile ex c).err ≠ none := by
  unfold resolveFile
  split
  · simp
  · exact resolveNames_err_of_missing ex _ h

theorem splitChars_ne_nil (sep : Char) (l cur : List Char) : splitChars sep l cur ≠ [] := by
  induction l generalizing cur with
  | nil => simp [splitChars]
  | cons c cs ih => unfold splitChars; split <;> simp [ih]

/-- `strings.Split` never returns an empty slice (`files[0]` of the Go code cannot panic) -/
theorem names_ne_nil (c : String) : names c ≠ [] := by
  simp [names, splitChars_ne_nil]

/-- the protocol split of every `file://…` text (no line feed): protocol `file`, content = the rest -/
theorem contentProtocol_file (c : String) (h : c.toList.contains '\n' = false) :
    contentProtocol ("file://" ++ c) = ("file", c) := by
  unfold contentProtocol
  have : ("file://" ++ c).toList = 'f' :: 'i' :: 'l' :: 'e' :: ':' :: '/' :: '/' :: c.toList := by
    simp [String.toList_append]
  simp only [this]
  have h' : '\n' ∉ c.toList := by simpa using h
  simp [List.takeWhile, List.dropWhile, isLowerAZ, h']

/-- the whole function on a `file://` reference: nil error exactly when one or two names are given and
every one of them exists -/
theorem resolve_file_ok_iff (ex : String → Bool) (c : String) (h : c.toList.contains '\n' = false) :
    (resolve ex ("file://" ++ c)).err = none ↔
      c ≠ "" ∧ (names c).length ≤ 2 ∧ ∀ n ∈ names c, ex n = true := by
  unfold resolve
  simp only [contentProtocol_file c h, if_true]
  rw [resolveFile_ok_iff]
  constructor
  · rintro ⟨a, b, _, d⟩; exact ⟨a, b, d⟩
  · rintro ⟨a, b, d⟩; exact ⟨a, b, names_ne_nil c, d⟩

/-- … and an error whenever ANY file it names is missing (the CRL included: seed C07g drops this) -/
theorem resolve_file_err_of_missing (ex : String → Bool) (c : String) (h : c.toList.contains '\n' = false)
    (hm : ∃ n ∈ names c, ex n = false) : (resolve ex ("file://" ++ c)).err ≠ none := by
  intro hok
  obtain ⟨n, hn, hf⟩ := hm
  have := ((resolve_file_ok_iff ex c h).1 hok).2.2 n hn
  simp [hf] at this

/-- nothing reaches the configuration from a reference that failed -/
theorem written_nil_of_error (ex : String → Bool) (ref : String) (h : (resolve ex ref).err ≠ none) :
    written ex ref = [] := by
  unfold written configured
  cases he : (resolve ex ref).err with
  | none => exact absurd he h
  | some _ => simp [words]

/-- THE STATEMENT C07 NEEDS: every file named by the words a reference contributes to the configuration
(crt-list line, bind line, server line) exists -/
theorem written_files_exist (ex : String → Bool) (ref : String) :
    ∀ f ∈ namedFiles (written ex ref), ex f = true := by
  intro f hf
  have hx := resolve_names_exist ex ref
  unfold written configured at hf
  cases he : (resolve ex ref).err with
  | some _ => simp [he, words, namedFiles] at hf
  | none =>
    simp only [he, words] at hf
    by_cases h1 : (resolve ex ref).ca = ""
    · simp [h1, namedFiles] at hf
    · by_cases h2 : (resolve ex ref).crl = ""
      · simp [h1, h2, namedFiles] at hf
        rw [hf]; exact hx.1 h1
      · simp [h1, h2, namedFiles] at hf
        rcases hf with hf | hf
        · rw [hf]; exact hx.1 h1
        · rw [hf]; exact hx.2 h2

/-- the words are complete: a successful reference with a CRL writes both names -/
theorem written_of_ok (ex : String → Bool) (ref : String) (h : (resolve ex ref).err = none)
    (hca : (resolve ex ref).ca ≠ "") (hcrl : (resolve ex ref).crl ≠ "") :
    written ex ref = ["ca-file", (resolve ex ref).ca, "crl-file", (resolve ex ref).crl] := by
  simp [written, configured, h, words, hca, hcrl]

/-- the Spec evaluated by the driver holds on the model's own answer -/
theorem oracle_resolve (ex : String → Bool) (ref : String) :
    let r := resolve ex ref
    r.err = none →
    oracle ex (if r.ca = "" then "-" else r.ca) (if r.crl = "" then "-" else r.crl) "-" = none := by
  intro r _
  have hx := resolve_names_exist ex ref
  unfold oracle
  simp only [ne_eq, not_true_eq_false, if_false]
  by_cases h1 : r.ca = "" <;> by_cases h2 : r.crl = ""
  · simp [h1, h2]
  · have := hx.2 h2; simp [h1, h2, r, this]
  · have := hx.1 h1; simp [h1, h2, r, this]
  · have a := hx.1 h1; have b := hx.2 h2; simp [h1, h2, r, a, b]

/-- the protocol split on the texts the annotations carry -/
theorem contentProtocol_file_example :
    contentProtocol "file:///etc/ca.pem,/etc/crl.pem" = ("file", "/etc/ca.pem,/etc/crl.pem") := by decide

example : contentProtocol "d/ca-secret" = ("secret", "d/ca-secret") := by decide
example : contentProtocol "s3://bucket" = ("secret", "s3://bucket") := by decide
example : contentProtocol "vault://x" = ("vault", "x") := by decide

/-- non-vacuity: a reference with both files present names both; with the CRL missing it is an error
and names nothing -/
example : written (exOf ["/m/ca.pem", "/m/crl.pem"]) "file:///m/ca.pem,/m/crl.pem"
    = ["ca-file", "/m/ca.pem", "crl-file", "/m/crl.pem"] := by decide
example : resolve (exOf ["/m/ca.pem"]) "file:///m/ca.pem,/m/crl.pem" = ⟨"/m/ca.pem", "", some "stat"⟩ := by decide
example : written (exOf ["/m/ca.pem"]) "file:///m/ca.pem,/m/crl.pem" = [] := by decide

/-- seed C07g on the model: the variant that does not fail on a missing CRL hands back, with a nil error,
the name of a file that does not exist; the Spec of the driver rejects that answer -/
theorem lax_names_missing_file :
    let r := resolveNamesLax (exOf ["/m/ca.pem"]) ["/m/ca.pem", "/m/crl.pem"]
    r.err = none ∧ r.crl = "/m/crl.pem" ∧ exOf ["/m/ca.pem"] r.crl = false ∧
    oracle (exOf ["/m/ca.pem"]) r.ca r.crl "-" = some "config-names-missing-file" := by decide

end HapVerif.C07.Files
