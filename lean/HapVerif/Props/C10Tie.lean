import HapVerif.Model.C10Views
import HapVerif.Generated.CodeC10
/-!
# C10 — tie between the model and the source (`checkListenerAllowed*`)

`HapVerif.CodeC10.*` are REGENERATED on every run from `pkg/converters/gateway/gateway.go`.  The theorems state
that the three admission functions return no error exactly when the model's `kindAllowed`, `nsAllowed`,
`listenerAllowed` say so — the decisions every C10 attachment theorem is about — for every world, gateway,
route and listener.  A verdict depends only on the listener's allowedRoutes, the two namespaces, the route kind
and the labels of the route's namespace: nothing is carried from one call to the next (seed C10e).
-/
namespace HapVerif.C10Tie
open HapVerif HapVerif.C10 HapVerif.C10Views HapVerif.GoLib

def src (r : Route) : RouteSrc := ⟨routeKind r, r.ns⟩

theorem kind_loop (rk : String) (kinds : List RKind) :
    GoLib.forRange (ρ := Option String) kinds () (fun kind _ =>
        if (((((kind).group == none) || ((kind).group == some C10.gwGroup))) && ((kind).kind == rk)) then
          GoLib.Step.ret GoLib.nil
        else
          GoLib.Step.next ())
      = if kinds.any (fun k => (k.group == none || k.group == some gwGroup) && k.kind == rk) then .ret none else .done () := by
  induction kinds with
  | nil => rfl
  | cons k ks ih =>
    by_cases h : ((k.group == none || k.group == some gwGroup) && k.kind == rk) = true
    · simp only [GoLib.forRange, List.any_cons, h, Bool.true_or, ↓reduceIte, GoLib.nil]
    · have h' : ((k.group == none || k.group == some gwGroup) && k.kind == rk) = false := by simpa using h
      simp only [GoLib.forRange, h', Bool.false_eq_true, ↓reduceIte, List.any_cons, Bool.false_or]
      exact ih

theorem kind_tie' (rs : RouteSrc) (kinds : List RKind) :
    (CodeC10.checkListenerAllowedKind rs kinds).isNone =
      (kinds.isEmpty || kinds.any fun k => (k.group == none || k.group == some gwGroup) && k.kind == rs.kind) := by
  unfold CodeC10.checkListenerAllowedKind
  cases kinds with
  | nil => simp [GoLib.len, GoLib.nil]
  | cons k ks =>
    have hl : (GoLib.len (k :: ks) == (0 : Int)) = false := by
      simp [GoLib.len]; omega
    simp only [hl, Bool.false_eq_true, ↓reduceIte]
    rw [kind_loop]
    have he : (k :: ks).isEmpty = false := rfl
    rw [he, Bool.false_or]
    by_cases ha : (k :: ks).any (fun k => (k.group == none || k.group == some gwGroup) && k.kind == rs.kind) = true
    · rw [ha]; rfl
    · have ha' : (k :: ks).any (fun k => (k.group == none || k.group == some gwGroup) && k.kind == rs.kind) = false := by
        simpa using ha
      rw [ha']; rfl

theorem kind_tie (r : Route) (kinds : List RKind) :
    (CodeC10.checkListenerAllowedKind (src r) kinds).isNone = kindAllowed r kinds :=
  kind_tie' (src r) kinds

theorem gn_some {w : World} {n : String} {ls : List (String × String)} (h : w.nss.lookup n = some ls) :
    getNamespace w n = (ls, none) := by simp [getNamespace, h]
theorem gn_none {w : World} {n : String} (h : w.nss.lookup n = none) :
    getNamespace w n = ([], some "namespace-not-found") := by simp [getNamespace, h]

theorem ns_tie' (w : World) (gwNs : String) (rs : RouteSrc) (nr : Option NsRule) :
    (CodeC10.checkListenerAllowedNamespace w ⟨gwNs⟩ rs nr).isNone =
      (match nr with
       | none => false
       | some nr =>
         match nr.frm with
         | none => false
         | some f =>
           if f = "Same" ∧ rs.namespace' = gwNs then true
           else if f = "All" then true
           else if f = "Selector" then
             (match nr.sel with
              | none => false
              | some ts => ts.all termValid &&
                  match w.nss.lookup rs.namespace' with
                  | none => false
                  | some ls => ts.all (termMatch ls))
           else false) := by
  unfold CodeC10.checkListenerAllowedNamespace
  cases nr with
  | none => simp [frmOf]
  | some nr =>
    obtain ⟨frm, sel⟩ := nr
    cases frm with
    | none => simp [frmOf]
    | some f =>
      simp only [frmOf, selOf, Option.bind_some, GoLib.nil]
      by_cases h1 : f = "Same" ∧ rs.namespace' = gwNs
      · obtain ⟨rfl, h2⟩ := h1; simp [h2]
      · by_cases h2 : f = "All"
        · subst h2; simp
        · by_cases h3 : f = "Selector"
          · subst h3
            cases sel with
            | none => simp
            | some ts =>
              cases hl : w.nss.lookup rs.namespace' with
              | none =>
                rw [gn_none hl]
                by_cases hv : ts.all termValid = true
                · simp [asSelector, hv]
                · have hv' : ts.all termValid = false := by simpa using hv
                  simp [asSelector, hv']
              | some ls =>
                rw [gn_some hl]
                by_cases hv : ts.all termValid = true
                · by_cases hm : ts.all (termMatch ls) = true
                  · simp [asSelector, matches', hv, hm]
                  · have hm' : ts.all (termMatch ls) = false := by simpa using hm
                    simp [asSelector, matches', hv, hm']
                · have hv' : ts.all termValid = false := by simpa using hv
                  simp [asSelector, hv']
          · by_cases hsame : f = "Same"
            · subst hsame
              have hne : ¬ rs.namespace' = gwNs := fun e => h1 ⟨rfl, e⟩
              simp [hne]
            · simp [hsame, h2, h3]

theorem ns_tie (w : World) (gw : Gateway) (r : Route) (nr : Option NsRule) :
    (CodeC10.checkListenerAllowedNamespace w ⟨gw.ns⟩ (src r) nr).isNone = nsAllowed w gw r nr := by
  rw [ns_tie']
  unfold nsAllowed selectorAllows
  rfl

/-- **`checkListenerAllowed` admits exactly what the model's `listenerAllowed` admits** (callers always pass the
address of a listener of the gateway, never nil) -/
theorem listener_tie (w : World) (gw : Gateway) (r : Route) (l : Listener) :
    (CodeC10.checkListenerAllowed w ⟨gw.ns⟩ (src r) (some l)).isNone = listenerAllowed w gw r l := by
  unfold CodeC10.checkListenerAllowed listenerAllowed
  cases ha : l.allowed with
  | none => simp [allowedOf, ha]
  | some a =>
    have hk := kind_tie r a.kinds
    have hn := ns_tie w gw r a.nss
    simp only [allowedOf, kindsOf, nssOf, Option.bind_some, ha, Option.map_some, Option.getD_some, GoLib.nil]
    rw [← hk, ← hn]
    cases CodeC10.checkListenerAllowedKind (src r) a.kinds <;>
      cases CodeC10.checkListenerAllowedNamespace w ⟨gw.ns⟩ (src r) a.nss <;> simp

/-- non-vacuity: from=Selector with a matchExpressions requirement the namespace labels violate -/
example :
    CodeC10.checkListenerAllowedNamespace
      { classes := [], nss := [("apps", [("env", "prod")])], gws := [], routes := [], svcs := [] }
      ⟨"infra"⟩ ⟨"HTTPRoute", "apps"⟩ (some ⟨some "Selector", some [⟨"env", "NotIn", ["prod"]⟩]⟩)
      = some "route-not-allowed" := by decide +kernel

end HapVerif.C10Tie
