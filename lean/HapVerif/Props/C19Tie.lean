import HapVerif.Model.C19
import HapVerif.Generated.CodeC19
/-!
# C19 — tie between the model and the source (`firstToken`)

`HapVerif.CodeC19.firstToken` is REGENERATED on every run from
`pkg/converters/ingress/annotations/backend.go` (two index loops over the bytes of the line, the `asciiSpace`
table read from the same file).  The theorem states that it never panics / runs out of fuel and returns the
model's `C19.firstToken` — the tokenizer every C19 theorem (no disabled keyword reaches a backend) is about.
-/
namespace HapVerif.C19Tie
open HapVerif HapVerif.GoLib

/-- an index loop `for ; len(s) > j; j++ { if stop(s[j]) { break } }` from `i` ends at the first stopping byte -/
theorem scan_loop (s : List Nat) (stop : Int → Bool) (n : Nat) :
    ∀ (i : Nat), i ≤ s.length → s.length - i < n →
      GoLib.whileFuel (ρ := Option (List Nat)) n (i : Int) (fun j => decide (GoLib.len s > j))
        (fun j => if stop (GoLib.byteAt s j) then .brk j else .next (GoLib.add j (1 : Int)))
        = .done (((i + ((s.drop i).takeWhile (fun (b : Nat) => !stop ((b : Nat) : Int))).length : Nat)) : Int) := by
  induction n with
  | zero => intro i _ h; omega
  | succ n ih =>
    intro i hi hn
    unfold GoLib.whileFuel
    by_cases hlt : i < s.length
    · have hc : decide (GoLib.len s > (i : Int)) = true := by
        simp only [GoLib.len, decide_eq_true_eq]; omega
      rw [if_pos hc]
      have hb : GoLib.byteAt s (i : Int) = ((s[i] : Nat) : Int) := by
        simp [GoLib.byteAt, List.getD_eq_getElem?_getD, List.getElem?_eq_getElem hlt]
      have hd : s.drop i = s[i] :: s.drop (i + 1) := (List.drop_eq_getElem_cons hlt)
      simp only [hb]
      by_cases hs : stop ((s[i] : Nat) : Int) = true
      · rw [if_pos hs, hd, List.takeWhile_cons]
        simp [hs]
      · simp only [hs, Bool.false_eq_true, if_false]
        have := ih (i + 1) (by omega) (by omega)
        have hadd : GoLib.add (i : Int) (1 : Int) = ((i + 1 : Nat) : Int) := by simp [GoLib.add]
        rw [hadd, this, hd, List.takeWhile_cons]
        simp [hs]; omega
    · have hie : i = s.length := by omega
      have hc : decide (GoLib.len s > (i : Int)) = false := by
        simp only [GoLib.len, decide_eq_false_iff_not]; omega
      rw [if_neg (by simp [hc])]
      subst hie
      simp

theorem length_takeWhile_le' (l : List Nat) (p : Nat → Bool) : (l.takeWhile p).length ≤ l.length := by
  induction l with
  | nil => simp
  | cons a l ih =>
    by_cases h : p a = true
    · simp [List.takeWhile_cons, h]; exact ih
    · simp [List.takeWhile_cons, h]

theorem take_takeWhile_length (l : List Nat) (p : Nat → Bool) : l.take (l.takeWhile p).length = l.takeWhile p := by
  induction l with
  | nil => rfl
  | cons a l ih =>
    by_cases h : p a = true
    · simp [List.takeWhile_cons, h, ih]
    · simp [List.takeWhile_cons, h]

theorem tbl_eq (b : Nat) :
    GoLib.lookupTbl Facts.c19AsciiSpaceKeys Facts.c19AsciiSpaceVals (b : Int) = ((C19.tbl b : Nat) : Int) := by
  have hz : Facts.c19AsciiSpaceKeys.zip Facts.c19AsciiSpaceVals = C19.spaceTable := by decide
  simp only [GoLib.lookupTbl, C19.tbl, Int.toNat_natCast, hz]
  cases C19.spaceTable.lookup b <;> rfl

theorem skipBlanks_eq (s : List Nat) :
    C19.skipBlanks s = s.drop (s.takeWhile (fun (b : Nat) => !(GoLib.lookupTbl Facts.c19AsciiSpaceKeys Facts.c19AsciiSpaceVals ((b : Nat) : Int) == (0 : Int)))).length := by
  induction s with
  | nil => rfl
  | cons b r ih =>
    unfold C19.skipBlanks
    by_cases h : C19.tbl b = 0
    · simp [h, tbl_eq, List.takeWhile_cons]
    · have h' : (C19.tbl b == 0) = false := by simpa using h
      simp [h, h', tbl_eq, List.takeWhile_cons, ih]

theorem takeToken_eq (s : List Nat) :
    C19.takeToken s = s.takeWhile (fun (b : Nat) => !(GoLib.lookupTbl Facts.c19AsciiSpaceKeys Facts.c19AsciiSpaceVals ((b : Nat) : Int) == (1 : Int))) := by
  induction s with
  | nil => rfl
  | cons b r ih =>
    unfold C19.takeToken
    by_cases h : C19.tbl b = 1
    · simp [h, tbl_eq, List.takeWhile_cons]
    · have h' : (C19.tbl b == 1) = false := by simpa using h
      have h2 : ¬ ((C19.tbl b : Nat) : Int) = 1 := by omega
      simp [h, h', h2, tbl_eq, List.takeWhile_cons, ih]

/-- **the translated `firstToken` is the model's tokenizer**, for every byte string; it never indexes out of range
(the loops are guarded) and never runs out of fuel -/
theorem firstToken_tie (s : List Nat) : CodeC19.firstToken s = some (C19.firstToken s) := by
  unfold CodeC19.firstToken
  have h1 := scan_loop s (fun v => GoLib.lookupTbl Facts.c19AsciiSpaceKeys Facts.c19AsciiSpaceVals v == (0 : Int))
    (s.length + 1) 0 (Nat.zero_le _) (by omega)
  rw [show ((0 : Nat) : Int) = 0 from rfl] at h1
  simp only [List.drop_zero, Nat.zero_add] at h1
  simp only []
  rw [h1]
  simp only []
  have hle : (s.takeWhile (fun (b : Nat) => !(GoLib.lookupTbl Facts.c19AsciiSpaceKeys Facts.c19AsciiSpaceVals ((b : Nat) : Int) == (0 : Int)))).length ≤ s.length :=
    length_takeWhile_le' _ _
  have h2 := scan_loop s (fun v => GoLib.lookupTbl Facts.c19AsciiSpaceKeys Facts.c19AsciiSpaceVals v == (1 : Int))
    (s.length + 1) _ hle (by omega)
  rw [h2]
  simp only [GoLib.slice, Int.toNat_natCast, C19.firstToken, Option.some.injEq]
  rw [skipBlanks_eq, takeToken_eq, Nat.add_sub_cancel_left, take_takeWhile_length]

example : CodeC19.firstToken (GoLib.bytes "  \tserver s1 10.0.0.1") = some (GoLib.bytes "server") := by decide +kernel
example : CodeC19.firstToken (GoLib.bytes "\rserver s1") = some (GoLib.bytes "server") := by decide +kernel

end HapVerif.C19Tie
