import HapVerif.Model.C19
import HapVerif.Props.C19
import HapVerif.Generated.CodeC19
/-!
# C19 — tie between the model and the source (`firstToken`)

`HapVerif.CodeC19.firstToken` is REGENERATED on every run from
`pkg/converters/ingress/annotations/backend.go` (two index loops over the bytes of the line, the `asciiSpace`
table read from the same file).  The theorem states that it never panics / runs out of fuel and returns the
model's `C19.firstToken` — the tokenizer every C19 theorem (no disabled keyword reaches a backend) is about.
-/
namespace HapVerif.C19Tie
open HapVerif HapVerif.GoLib

/-- an index loop `for ; len(s) > j; j++ { if stop(s[j]) { break } }` from `i` ends at the first stopping byte -/
theorem scan_loop (s : List Nat) (stop : Int → Bool) (n : Nat) :
    ∀ (i : Nat), i ≤ s.length → s.length - i < n →
      GoLib.whileFuel (ρ := Option (List Nat)) n (i : Int) (fun j => decide (GoLib.len s > j))
        (fun j => if stop (GoLib.byteAt s j) then .brk j else .next (GoLib.add j (1 : Int)))
        = .done (((i + ((s.drop i).takeWhile (fun (b : Nat) => !stop ((b : Nat) : Int))).length : Nat)) : Int) := by
  induction n with
  | zero => intro i _ h; omega
  | succ n ih =>
    intro i hi hn
    unfold GoLib.whileFuel
    by_cases hlt : i < s.length
    · have hc : decide (GoLib.len s > (i : Int)) = true := by
        simp only [GoLib.len, decide_eq_true_eq]; omega
      rw [if_pos hc]
      have hb : GoLib.byteAt s (i : Int) = ((s[i] : Nat) : Int) := by
        simp [GoLib.byteAt, List.getD_eq_getElem?_getD, List.getElem?_eq_getElem hlt]
      have hd : s.drop i = s[i] :: s.drop (i + 1) := (List.drop_eq_getElem_cons hlt)
      simp only [hb]
      by_cases hs : stop ((s[i] : Nat) : Int) = true
      · rw [if_pos hs, hd, List.takeWhile_cons]
        simp [hs]
      · simp only [hs, Bool.false_eq_true, if_false]
        have := ih (i + 1) (by omega) (by omega)
        have hadd : GoLib.add (i : Int) (1 : Int) = ((i + 1 : Nat) : Int) := by simp [GoLib.add]
        rw [hadd, this, hd, List.takeWhile_cons]
        simp [hs]; omega
    · have hie : i = s.length := by omega
      have hc : decide (GoLib.len s > (i : Int)) = false := by
        simp only [GoLib.len, decide_eq_false_iff_not]; omega
      rw [if_neg (by simp [hc])]
      subst hie
      simp

theorem length_takeWhile_le' (l : List Nat) (p : Nat → Bool) : (l.takeWhile p).length ≤ l.length := by
  induction l with
  | nil => simp
  | cons a l ih =>
    by_cases h : p a = true
    · simp [List.takeWhile_cons, h]; exact ih
    · simp [List.takeWhile_cons, h]

theorem take_takeWhile_length (l : List Nat) (p : Nat → Bool) : l.take (l.takeWhile p).length = l.takeWhile p := by
  induction l with
  | nil => rfl
  | cons a l ih =>
    by_cases h : p a = true
    · simp [List.takeWhile_cons, h, ih]
    · simp [List.takeWhile_cons, h]

theorem tbl_eq (b : Nat) :
    GoLib.lookupTbl Facts.c19AsciiSpaceKeys Facts.c19AsciiSpaceVals (b : Int) = ((C19.tbl b : Nat) : Int) := by
  have hz : Facts.c19AsciiSpaceKeys.zip Facts.c19AsciiSpaceVals = C19.spaceTable := by decide
  simp only [GoLib.lookupTbl, C19.tbl, Int.toNat_natCast, hz]
  cases C19.spaceTable.lookup b <;> rfl

theorem skipBlanks_eq (s : List Nat) :
    C19.skipBlanks s = s.drop (s.takeWhile (fun (b : Nat) => !(GoLib.lookupTbl Facts.c19AsciiSpaceKeys Facts.c19AsciiSpaceVals ((b : Nat) : Int) == (0 : Int)))).length := by
  induction s with
  | nil => rfl
  | cons b r ih =>
    unfold C19.skipBlanks
    by_cases h : C19.tbl b = 0
    · simp [h, tbl_eq, List.takeWhile_cons]
    · have h' : (C19.tbl b == 0) = false := by simpa using h
      simp [h, h', tbl_eq, List.takeWhile_cons, ih]

theorem takeToken_eq (s : List Nat) :
    C19.takeToken s = s.takeWhile (fun (b : Nat) => !(GoLib.lookupTbl Facts.c19AsciiSpaceKeys Facts.c19AsciiSpaceVals ((b : Nat) : Int) == (1 : Int))) := by
  induction s with
  | nil => rfl
  | cons b r ih =>
    unfold C19.takeToken
    by_cases h : C19.tbl b = 1
    · simp [h, tbl_eq, List.takeWhile_cons]
    · have h' : (C19.tbl b == 1) = false := by simpa using h
      have h2 : ¬ ((C19.tbl b : Nat) : Int) = 1 := by omega
      simp [h, h', h2, tbl_eq, List.takeWhile_cons, ih]

/-- **the translated `firstToken` is the model's tokenizer**, for every byte string; it never indexes out of range
(the loops are guarded) and never runs out of fuel -/
theorem firstToken_tie (s : List Nat) : CodeC19.firstToken s = some (C19.firstToken s) := by
  unfold CodeC19.firstToken
  have h1 := scan_loop s (fun v => GoLib.lookupTbl Facts.c19AsciiSpaceKeys Facts.c19AsciiSpaceVals v == (0 : Int))
    (s.length + 1) 0 (Nat.zero_le _) (by omega)
  rw [show ((0 : Nat) : Int) = 0 from rfl] at h1
  simp only [List.drop_zero, Nat.zero_add] at h1
  simp only []
  rw [h1]
  simp only []
  have hle : (s.takeWhile (fun (b : Nat) => !(GoLib.lookupTbl Facts.c19AsciiSpaceKeys Facts.c19AsciiSpaceVals ((b : Nat) : Int) == (0 : Int)))).length ≤ s.length :=
    length_takeWhile_le' _ _
  have h2 := scan_loop s (fun v => GoLib.lookupTbl Facts.c19AsciiSpaceKeys Facts.c19AsciiSpaceVals v == (1 : Int))
    (s.length + 1) _ hle (by omega)
  rw [h2]
  simp only [GoLib.slice, Int.toNat_natCast, C19.firstToken, Option.some.injEq]
  rw [skipBlanks_eq, takeToken_eq, Nat.add_sub_cancel_left, take_takeWhile_length]

example : CodeC19.firstToken (GoLib.bytes "  \tserver s1 10.0.0.1") = some (GoLib.bytes "server") := by decide +kernel
example : CodeC19.firstToken (GoLib.bytes "\rserver s1") = some (GoLib.bytes "server") := by decide +kernel

/-! ## `buildBackendCustomConfig` (the whole function, regenerated)

`HapVerif.CodeC19.buildBackendCustomConfig` is the translation of the function that decides whether a
`config-backend` snippet reaches a backend: the mapper read is an argument, `utils.LineToSlice` is the model's
`lineToSlice`, the two `logger.Warn` calls are steps of a trace, the assignment to `d.backend.CustomConfig` is the
first component of the result.  `buildBackendCustomConfig_tie` states that it is the model's `customConfig` — the
function every theorem of Props/C19.lean is about — so `blocked`, `star_blocks`, `untouched` hold of the CODE. -/

theorem firstTokenT_eq (s : List Nat) : CodeC19.firstTokenT s = C19.firstToken s := by
  simp [CodeC19.firstTokenT, firstToken_tie]

/-- the label the warnings carry -/
def label (src : Option String) : String := src.getD "global config"

/-- what the regenerated function returns, read off the model's outcome -/
def resultOf (custom : List (List Nat)) (fx : List C19.Warned) : C19.Outcome → List (List Nat) × List C19.Warned
  | .noSnippet => (custom, fx)
  | .emitted ls => (ls, fx)
  | .skipStar src => (custom, C19.warn fx "skipping configuration snippet on %s: custom configuration is disabled" (label src))
  | .skipKw src kw => (custom, C19.warn fx "skipping configuration snippet on %s: keyword '%s' not allowed" (label src) kw)

/-- the inner loop: the first line whose first token is the keyword ends the function -/
theorem inner_loop {ρ : Type} (lines : List (List Nat)) (kw : List Nat) (g : List C19.Warned → ρ) (fx : List C19.Warned) :
    GoLib.forRange lines fx (fun line fx =>
      if (CodeC19.firstTokenT line == kw) then (GoLib.Step.ret (g fx) : GoLib.Step (List C19.Warned) ρ) else GoLib.Step.next fx)
    = if lines.any (fun l => C19.firstToken l == kw) then .ret (g fx) else .done fx := by
  induction lines with
  | nil => simp [GoLib.forRange]
  | cons l ls ih =>
    simp only [GoLib.forRange, List.any_cons, firstTokenT_eq]
    by_cases h : (C19.firstToken l == kw) = true
    · simp [h]
    · simp only [h, Bool.false_eq_true, ↓reduceIte, Bool.false_or]
      simpa [firstTokenT_eq] using ih

/-- the body of the keyword loop, as generated -/
def kwBody (source : String) (lines custom : List (List Nat)) :
    List Nat → List C19.Warned → GoLib.Step (List C19.Warned) (List (List Nat) × List C19.Warned) :=
  fun keyword fx =>
        if (keyword == ([] : List Nat)) then
          GoLib.Step.next fx
        else
          if (keyword == C19.star) then
            let fx := (C19.warn fx "skipping configuration snippet on %s: custom configuration is disabled" source)
            GoLib.Step.ret (custom, fx)
          else
            match GoLib.forRange lines fx (fun line fx =>
                if ((CodeC19.firstTokenT line) == keyword) then
                  let fx := (C19.warn fx "skipping configuration snippet on %s: keyword '%s' not allowed" source keyword)
                  GoLib.Step.ret (custom, fx)
                else
                  GoLib.Step.next fx) with
            | .ret r' => GoLib.Step.ret r'
            | .done fx =>
              GoLib.Step.next fx

/-- how the function ends after the keyword loop -/
def finish (lines : List (List Nat)) :
    GoLib.RDone (List C19.Warned) (List (List Nat) × List C19.Warned) → List (List Nat) × List C19.Warned
  | .ret r' => r'
  | .done fx => (lines, fx)

/-- the generated function with its loop body and its ending named -/
def spec (disableKeywords : List (List Nat)) (cfg : C19.Cfg) (custom : List (List Nat)) (fx : List C19.Warned) :
    List (List Nat) × List C19.Warned :=
  let lines := C19.lineToSlice cfg.value
  if ((GoLib.len lines) == (0 : Int)) then (custom, fx)
  else
    finish lines (GoLib.forRange disableKeywords fx
      (kwBody (if cfg.source.isSome then cfg.source.getD "" else "global config") lines custom))

theorem code_eq_spec (kws : List (List Nat)) (cfg : C19.Cfg) (custom : List (List Nat)) (fx : List C19.Warned) :
    CodeC19.buildBackendCustomConfig kws cfg custom fx = spec kws cfg custom fx := by
  unfold CodeC19.buildBackendCustomConfig spec
  simp only []
  split
  · rfl
  · rfl

/-- the keyword loop is the model's `scan` -/
theorem outer_loop (src : Option String) (lines : List (List Nat)) (custom : List (List Nat)) (kws : List (List Nat))
    (fx : List C19.Warned) :
    GoLib.forRange kws fx (kwBody (label src) lines custom)
    = match C19.scan src lines kws with
      | some o => .ret (resultOf custom fx o)
      | none => .done fx := by
  induction kws with
  | nil => simp [GoLib.forRange, C19.scan]
  | cons k ks ih =>
    simp only [GoLib.forRange, C19.scan]
    by_cases h1 : k = []
    · subst h1; simpa [kwBody] using ih
    · have h1' : (k == ([] : List Nat)) = false := by simpa using h1
      by_cases h2 : k = C19.star
      · subst h2; simp [kwBody, h1', h1, resultOf]
      · have h2' : (k == C19.star) = false := by simpa using h2
        have hb : kwBody (label src) lines custom k fx =
            (match (if lines.any (fun l => C19.firstToken l == k) then
                (GoLib.RDone.ret (custom, C19.warn fx "skipping configuration snippet on %s: keyword '%s' not allowed" (label src) k) : GoLib.RDone (List C19.Warned) _)
              else .done fx) with
             | .ret r' => GoLib.Step.ret r'
             | .done fx => GoLib.Step.next fx) := by
          simp only [kwBody, h1', h2', Bool.false_eq_true, ↓reduceIte]
          rw [inner_loop lines k (fun fx => (custom, C19.warn fx "skipping configuration snippet on %s: keyword '%s' not allowed" (label src) k)) fx]
        rw [hb]
        by_cases h3 : lines.any (fun l => C19.firstToken l == k) = true
        · simp [h1, h2, h3, resultOf]
        · simp only [h1, h2, h3, Bool.false_eq_true, ↓reduceIte]
          simpa using ih

/-- **the regenerated `buildBackendCustomConfig` is the model's `customConfig`**: for every keyword list,
every value and source the mapper hands over and every previous content of the backend -/
theorem buildBackendCustomConfig_tie (kws : List (List Nat)) (cfg : C19.Cfg) (custom : List (List Nat)) (fx : List C19.Warned) :
    CodeC19.buildBackendCustomConfig kws cfg custom fx = resultOf custom fx (C19.customConfig kws cfg) := by
  rw [code_eq_spec]
  unfold spec C19.customConfig
  simp only []
  by_cases h0 : C19.lineToSlice cfg.value = []
  · simp [h0, GoLib.len, resultOf]
  · have hl : (GoLib.len (C19.lineToSlice cfg.value) == (0 : Int)) = false := by
      simp [GoLib.len, h0]
    simp only [hl, Bool.false_eq_true, ↓reduceIte, h0]
    have hsrc : (if cfg.source.isSome = true then cfg.source.getD "" else "global config") = label cfg.source := by
      cases cfg.source <;> simp [label]
    rw [hsrc, outer_loop]
    cases C19.scan cfg.source (C19.lineToSlice cfg.value) kws <;> simp [resultOf, finish]

/-- on a freshly acquired backend the code leaves exactly the lines of the model's outcome -/
theorem code_lines (kws : List (List Nat)) (cfg : C19.Cfg) (fx : List C19.Warned) :
    (CodeC19.buildBackendCustomConfig kws cfg [] fx).1 = (C19.customConfig kws cfg).lines := by
  rw [buildBackendCustomConfig_tie]
  cases C19.customConfig kws cfg <;> rfl

/-- **the code drops the whole snippet** when some line starts with a non-empty disabled keyword -/
theorem code_blocked (kws : List (List Nat)) (cfg : C19.Cfg) (fx : List C19.Warned)
    (h : ∃ l ∈ C19.lineToSlice cfg.value, ∃ k ∈ kws, k ≠ [] ∧ C19.firstToken l = k) :
    (CodeC19.buildBackendCustomConfig kws cfg [] fx).1 = [] := by
  rw [code_lines]; exact C19.blocked kws cfg h

/-- **`*` disables every snippet** -/
theorem code_star_blocks (kws : List (List Nat)) (cfg : C19.Cfg) (fx : List C19.Warned) (h : C19.star ∈ kws) :
    (CodeC19.buildBackendCustomConfig kws cfg [] fx).1 = [] := by
  rw [code_lines]; exact C19.star_blocks kws cfg h

/-- **otherwise the snippet is written as `LineToSlice` produced it** -/
theorem code_untouched (kws : List (List Nat)) (cfg : C19.Cfg) (fx : List C19.Warned)
    (h : ¬ C19.Hit kws (C19.lineToSlice cfg.value)) :
    (CodeC19.buildBackendCustomConfig kws cfg [] fx).1 = C19.lineToSlice cfg.value := by
  rw [code_lines]; exact C19.untouched kws cfg h

theorem scan_not_emitted (src : Option String) (lines kws : List (List Nat)) (ls : List (List Nat)) :
    C19.scan src lines kws ≠ some (.emitted ls) := by
  induction kws with
  | nil => simp [C19.scan]
  | cons k ks ih =>
    unfold C19.scan
    split
    · exact ih
    · split
      · simp
      · split
        · simp
        · exact ih

/-- a snippet that is dropped leaves what the backend held (nothing half-written), and the code logs at most
one warning per call -/
theorem code_dropped_keeps (kws : List (List Nat)) (cfg : C19.Cfg) (custom : List (List Nat)) (fx : List C19.Warned) :
    ((CodeC19.buildBackendCustomConfig kws cfg custom fx).1 = custom ∨
      (CodeC19.buildBackendCustomConfig kws cfg custom fx).1 = C19.lineToSlice cfg.value) ∧
    (CodeC19.buildBackendCustomConfig kws cfg custom fx).2.length ≤ fx.length + 1 := by
  rw [buildBackendCustomConfig_tie]
  unfold C19.customConfig
  simp only []
  split
  · simp [resultOf]
  · cases hs : C19.scan cfg.source (C19.lineToSlice cfg.value) kws with
    | none => simp [resultOf]
    | some o =>
      cases o with
      | emitted ls => exact absurd hs (scan_not_emitted _ _ _ _)
      | noSnippet => simp [resultOf]
      | skipStar s => simp [resultOf, C19.warn]
      | skipKw s k => simp [resultOf, C19.warn]

example : CodeC19.buildBackendCustomConfig [GoLib.bytes "server"] { source := some "ingress d/i", value := GoLib.bytes "timeout 5s\n  server s1 1.2.3.4" } [] []
    = ([], [{ fmt := "skipping configuration snippet on %s: keyword '%s' not allowed", source := "ingress d/i", kw := GoLib.bytes "server" }]) := by
  decide +kernel
example : (CodeC19.buildBackendCustomConfig [GoLib.bytes "server"] { source := none, value := GoLib.bytes "timeout 5s\nservers 3" } [] []).1
    = [GoLib.bytes "timeout 5s", GoLib.bytes "servers 3"] := by
  decide +kernel

end HapVerif.C19Tie
