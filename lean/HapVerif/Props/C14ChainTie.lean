import HapVerif.Model.C14
import HapVerif.Generated.CodeC14
/-!
# C14 — tie to the source: the ConfigMap chain (`initCh`, `getChangedObjects`, the `cmChange` callback)

`HapVerif.CodeC14.initCh / getChangedObjects / cmChange` are REGENERATED on every run from
`pkg/controller/reconciler/watchers.go`.  They are the three places the clause "successive batches chain the global
and TCP ConfigMap data so each sees the previously delivered data as current" of C14 depends on: the callback that
records the data of a ConfigMap event in the batch under construction, the swap that hands the batch over, and the
initialisation of the next batch.  The theorems state that they are the model's `applyCm`, `swap` and `carry`.
-/
namespace HapVerif.C14ChainTie
open HapVerif HapVerif.C14 HapVerif.C14V

/-- the chained fields of a model batch as the Go struct -/
def chOf (b : Batch) : ChView :=
  { GlobalConfigMapDataCur := b.gCur, GlobalConfigMapDataNew := b.gNew,
    TCPConfigMapDataCur := b.tCur, TCPConfigMapDataNew := b.tNew }

/-- **`initCh` is the model's `carry`**: the next batch starts with, as current data, the data the previous batch
announced as new — or, when it announced none, what it had as current; nothing else is carried over -/
theorem initCh_tie (b : Batch) : CodeC14.initCh (some (chOf b)) = chOf (carry b) := by
  unfold CodeC14.initCh carry chOf pick
  cases hg : b.gNew <;> cases ht : b.tNew <;> simp [GoLib.nil]

/-- the very first batch (`w.ch == nil`): nothing is current -/
theorem initCh_nil : CodeC14.initCh none = {} := by
  simp [CodeC14.initCh]

/-- **`getChangedObjects` is the model's `swap`**: the batch handed to the reconciliation is the accumulated one,
unchanged; the watchers go on with `carry` of it; `run` is raised -/
theorem getChangedObjects_tie (s : St) (r : Bool) :
    CodeC14.getChangedObjects ⟨chOf s.ch, r⟩ = (⟨chOf (swap s).2.ch, true⟩, chOf (swap s).1) := by
  simp [CodeC14.getChangedObjects, C14V.applyInit, initCh_tie, swap]

/-- closed form of the ConfigMap callback: the data of the event — the EMPTY map when `.Data` is nil — is written to
the field of the ConfigMap the event names, whatever the batch already holds (no comparison with the current or the
pending data: seed C14f); other ConfigMaps change nothing -/
theorem cmChange_closed (cfg : CfgNames) (o : CmView) (g t : Option Nat) :
    CodeC14.cmChange cfg o g t =
      if o.Namespace ++ "/" ++ o.Name = cfg.ConfigMapName then (some (o.Data.getD 0), t)
      else if o.Namespace ++ "/" ++ o.Name = cfg.TCPConfigMapName then (g, some (o.Data.getD 0))
      else (g, t) := by
  unfold CodeC14.cmChange
  simp only [GoLib.add, GoLib.nil]
  cases hd : o.Data <;> simp [hd]

/-- **the callback is the model's `applyCm`** for a ConfigMap create/update event, whenever the object's
namespace/name is the configured global (TCP) ConfigMap exactly when the model's selector says so -/
theorem cmChange_tie (cfg : CfgNames) (o : CmView) (b : Batch) (e : Event)
    (hk : e.kind = .cm) (ht : e.typ = .create ∨ e.typ = .update) (hdata : o.Data = e.data)
    (hne : cfg.ConfigMapName ≠ cfg.TCPConfigMapName)
    (hg : cmSel e = some true ↔ o.Namespace ++ "/" ++ o.Name = cfg.ConfigMapName)
    (htc : cmSel e = some false ↔ o.Namespace ++ "/" ++ o.Name = cfg.TCPConfigMapName) :
    CodeC14.cmChange cfg o b.gNew b.tNew = ((applyCm b e).gNew, (applyCm b e).tNew) := by
  rw [cmChange_closed]
  unfold applyCm
  simp only [hk, ht, and_self, if_true, true_and]
  by_cases h1 : o.Namespace ++ "/" ++ o.Name = cfg.ConfigMapName
  · have := hg.2 h1
    simp [h1, this, hdata]
  · by_cases h2 : o.Namespace ++ "/" ++ o.Name = cfg.TCPConfigMapName
    · have := htc.2 h2
      have h1' : ¬ cfg.TCPConfigMapName = cfg.ConfigMapName := fun h => hne h.symm
      simp [h2, h1', this, hdata]
    · have n1 : cmSel e ≠ some true := fun h => h1 (hg.1 h)
      have n2 : cmSel e ≠ some false := fun h => h2 (htc.1 h)
      have : cmSel e = none := by
        cases hs : cmSel e with
        | none => rfl
        | some v => cases v <;> simp_all
      simp [h1, h2, this]

/-- concrete runs: an emptied ConfigMap (nil `.Data`) is announced as the empty map; a revert A → B → A inside one
window ends with A pending (the history seed C14f loses) -/
example : CodeC14.cmChange ⟨"n0/o0", "n0/o1"⟩ ⟨"n0", "o0", none⟩ (some 5) none = (some 0, none) := by decide
example : (let s1 := CodeC14.cmChange ⟨"n0/o0", "n0/o1"⟩ ⟨"n0", "o1", some 2⟩ none none
           CodeC14.cmChange ⟨"n0/o0", "n0/o1"⟩ ⟨"n0", "o1", some 1⟩ s1.1 s1.2) = (none, some 1) := by decide

end HapVerif.C14ChainTie
