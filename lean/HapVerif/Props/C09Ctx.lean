import HapVerif.Model.C09Ctx
import HapVerif.Props.C09
import HapVerif.Generated.Facts
/-!
C09 — the declaring context of a reference (who carries the annotation, through which route the
carrier is reached).

  * `annContext_carrier`, `annContext_nonempty`: the annotations of a carrier are resolved in the
    carrier's namespace; the empty (= global, nothing to deny) context is never the context of an
    object that lives in a namespace.
  * `carrier_uses_eq` / `carrier_reads_eq`: a site on a carrier is the site of `Model/C09.lean`
    evaluated with `src` = the carrier's namespace.
  * `carrier_isolation`, `carrier_reads_only_own`, `carrier_noninterference` (FULL STRENGTH: every site,
    route, referencing namespace — the empty one included —, settings, model state, value).
  * `carrier_referencer_irrelevant`, `carrier_decision`: the outcome depends on the settings only through
    the bit of the TARGET's kind, and on the referencer (its namespace, the route's name for the carrier)
    not at all: it is a function of (site, carrier namespace, value, that bit).
  * `brn_denied_iff` / `getter_denied_iff` / `carrier_denied_iff`: the permission decision in closed form:
    denied ⇔ ¬ `permitted bits kind carrierNs targetNs`.
  * `reached_iff`: whether the carrier is reached is the `services` decision of the REFERENCE to it.
  * `seeded_same_namespace_routes_agree`: on routes whose referencer lives in the carrier's namespace the
    seeded variant C09f equals the code (why it looked innocent);
    `seeded_default_backend_reads_foreign`, `seeded_auth_url_resolves_in_referencer`: its decide-witnesses.
  * `facts_c09ctx`: the Source of a Service's annotations is built from the Service's own name.
-/
namespace HapVerif.C09

/-! ### the context -/

/-- the context of a carrier's annotations is the carrier's namespace — for every route and every
referencing namespace -/
theorem annContext_carrier (route : Route) (refNs carNs : Str) : annContext route refNs carNs = carNs := rfl

/-- the global context (empty namespace: "nothing to deny") is never the context of an object that
lives in a namespace, not even when the referencer is the command line (`refNs = []`) -/
theorem annContext_nonempty (route : Route) (refNs carNs : Str) (h : carNs ≠ []) :
    annContext route refNs carNs ≠ [] := h

/-- a site on a carrier = the site evaluated in the carrier's namespace -/
theorem carrier_uses_eq (s : Site) (b : Bits) (ex : Existing) (route : Route) (refNs carNs name value : Str)
    (r : Res) (h : carrierUses s b ex route refNs carNs name value = some r) :
    r = siteUses s b (existingSeenBy route ex) (route == .direct) carNs value := by
  simp only [carrierUses, carrierUsesWith, annContext] at h
  split at h
  · simp at h
  · split at h
    · simp at h
    · simpa using h.symm

theorem carrier_reads_eq (s : Site) (b : Bits) (ex : Existing) (route : Route) (refNs carNs name value : Str)
    (r : Res) (h : carrierReads s b ex route refNs carNs name value = some r) :
    siteReads s b (existingSeenBy route ex) (route == .direct) carNs value = some r := by
  simp only [carrierReads, carrierReadsWith, annContext] at h
  split at h
  · simp at h
  · split at h
    · simp at h
    · exact h

/-! ### isolation and non-interference, every route -/

/-- **carrier_isolation** (full strength): while the kind of the site is denied, whatever object a
reference written on a carrier brings into the configuration lives in the CARRIER's namespace —
whatever the route, whoever the referencer (`refNs` arbitrary, the empty namespace of the command
line included), whatever the other settings, the model state and the value -/
theorem carrier_isolation (s : Site) (b : Bits) (ex : Existing) (route : Route)
    (refNs carNs name value ns n : Str)
    (hb : b.get s.kind = false) (hc : carNs ≠ [])
    (h : carrierUses s b ex route refNs carNs name value = some (.obj ns n)) : ns = carNs := by
  have := carrier_uses_eq s b ex route refNs carNs name value _ h
  exact isolation s b _ _ carNs value ns n hb hc this.symm

/-- the cache is only asked for objects of the carrier's namespace -/
theorem carrier_reads_only_own (s : Site) (b : Bits) (ex : Existing) (route : Route)
    (refNs carNs name value ns n : Str)
    (hb : b.get s.kind = false) (hc : carNs ≠ [])
    (h : carrierReads s b ex route refNs carNs name value = some (.obj ns n)) : ns = carNs :=
  reads_only_own s b _ _ carNs value ns n hb hc (carrier_reads_eq s b ex route refNs carNs name value _ h)

/-- **carrier_noninterference**: two clusters that hold the same objects in the carrier's namespace
give the same result (in particular with and without any object of the referencer's or of a third
namespace) -/
theorem carrier_noninterference (s : Site) (b : Bits) (ex : Existing) (route : Route)
    (refNs carNs name value : Str) (hb : b.get s.kind = false) (hc : carNs ≠ [])
    (w w' : Str → Str → Bool) (hagree : ∀ n, w carNs n = w' carNs n) :
    (carrierUses s b ex route refNs carNs name value).map (effect w) =
      (carrierUses s b ex route refNs carNs name value).map (effect w') := by
  cases hu : carrierUses s b ex route refNs carNs name value with
  | none => rfl
  | some r =>
    have hr := carrier_uses_eq s b ex route refNs carNs name value r hu
    subst hr
    simp only [Option.map_some]
    exact congrArg some (noninterference s b _ _ carNs value hb hc w w' hagree)

/-! ### what the decision depends on -/

/-- the outcome of a site depends on the settings only through the bit of its own kind -/
theorem siteUses_bit (s : Site) (b b' : Bits) (ex : Existing) (fi : Bool) (src value : Str)
    (hbit : b.get s.kind = b'.get s.kind) :
    siteUses s b ex fi src value = siteUses s b' ex fi src value := by
  cases s
  case authURL =>
    have h : b.svc = b'.svc := by simpa [Site.kind, Bits.get] using hbit
    simp only [siteUses, siteResolve, siteArgs, Site.getter, getterResolve, h] <;> rfl
  all_goals
    simp only [siteUses, siteResolve, siteArgs]
    exact bits_independent _ b b' src value (by simpa [Site.getter, getterAllow, Site.kind, Bits.get] using hbit)

theorem siteReads_bit (s : Site) (b b' : Bits) (ex : Existing) (fi : Bool) (src value : Str)
    (hbit : b.get s.kind = b'.get s.kind) :
    siteReads s b ex fi src value = siteReads s b' ex fi src value := by
  cases s
  case authURL =>
    have h : b.svc = b'.svc := by simpa [Site.kind, Bits.get] using hbit
    simp only [siteReads, siteResolve, siteArgs, Site.getter, getterResolve, h] <;> rfl
  all_goals
    simp only [siteReads, siteResolve, siteArgs]
    exact congrArg some
      (bits_independent _ b b' src value (by simpa [Site.getter, getterAllow, Site.kind, Bits.get] using hbit))

/-- whether the carrier is reached is the `services` decision of the REFERENCE to it: the command line
(`refNs = []`) reaches every Service, an object of a namespace reaches the Services of its own
namespace, and those of other namespaces iff `cross-namespace-services` is allow -/
theorem reached_iff (b : Bits) (route : Route) (refNs carNs name : Str) (hc : carNs ≠ []) :
    carrierReached b route refNs carNs name = true ↔
      route = .direct ∨ route = .gateway ∨ refNs = [] ∨ carNs = refNs ∨ b.svc = true := by
  cases route <;> simp only [carrierReached, buildResourceNameK, reduceCtorEq, false_or, true_or, or_true]
  all_goals
    by_cases h1 : refNs = []
    · simp [h1]
    · by_cases h2 : carNs = refNs
      · simp [h1, h2]
      · cases hs : b.svc <;> simp [h1, h2, hc]

/-- **the referencer is irrelevant**: two references that both reach the carrier through the same kind
of route — from any namespaces, under any names — give the same outcome -/
theorem carrier_referencer_irrelevant (s : Site) (b : Bits) (ex : Existing) (route : Route)
    (refNs refNs' carNs name name' value : Str)
    (hr : carrierReached b route refNs carNs name = true)
    (hr' : carrierReached b route refNs' carNs name' = true) :
    carrierUses s b ex route refNs carNs name value = carrierUses s b ex route refNs' carNs name' value := by
  simp [carrierUses, carrierUsesWith, annContext, hr, hr']

/-- **carrier_decision**: for every site, carrier and route the outcome of a reached carrier is a
function of (site, route's scope, namespace of the carrier, value — i.e. namespace of the target —, the
bit of the target's kind): not of the referencing namespace, not of the name under which the carrier
is referenced, not of the three other keys -/
theorem carrier_decision (s : Site) (b b' : Bits) (ex : Existing) (route : Route)
    (refNs refNs' carNs name name' value : Str)
    (hbit : b.get s.kind = b'.get s.kind)
    (hr : carrierReached b route refNs carNs name = true)
    (hr' : carrierReached b' route refNs' carNs name' = true) :
    carrierUses s b ex route refNs carNs name value = carrierUses s b' ex route refNs' carNs name' value ∧
    carrierReads s b ex route refNs carNs name value = carrierReads s b' ex route refNs' carNs name' value := by
  simp only [carrierUses, carrierUsesWith, carrierReads, carrierReadsWith, annContext, hr, hr',
    Bool.not_true, Bool.false_eq_true, if_false]
  rw [siteUses_bit s b b' _ _ carNs value hbit, siteReads_bit s b b' _ _ carNs value hbit]
  exact ⟨rfl, rfl⟩

/-- the permission decision in closed form, on `buildResourceName`'s split key -/
theorem brn_denied_iff (dns tns n : Str) (allow : Bool) (hd : dns ≠ []) :
    buildResourceNameK dns (some (tns, n)) allow = .denied ↔ (tns ≠ [] ∧ tns ≠ dns ∧ allow = false) := by
  simp only [buildResourceNameK, hd, if_false]
  by_cases h1 : tns = []
  · simp [h1]
  · by_cases h2 : tns = dns
    · simp [h2]
    · cases allow <;> simp [h1, h2]

/-- … on a getter, for a value that names an object `tns/n` (`tns = []`: a bare name), with or
without the `secret://` protocol -/
theorem getter_denied_iff (g : Getter) (b : Bits) (dns value content tns n : Str) (hd : dns ≠ [])
    (hc : (g = .svc ∧ content = value) ∨ (g ≠ .svc ∧ getContentProtocol value = (sSecret, content)))
    (hk : splitKey content = some (tns, n)) :
    getterResolve g b dns value = .denied ↔ (tns ≠ [] ∧ tns ≠ dns ∧ getterAllow b g = false) := by
  have hsf : sSecret ≠ sFile := by decide
  rcases hc with ⟨rfl, rfl⟩ | ⟨hg, hp⟩
  · simp only [getterResolve, buildResourceName, hk, getterAllow]
    exact brn_denied_iff dns tns n b.svc hd
  · cases g
    case svc => exact absurd rfl hg
    all_goals
      simp only [getterResolve, hp, hsf, if_false, ne_eq, not_true_eq_false, buildResourceName, hk]
      exact brn_denied_iff dns tns n _ hd

/-- **carrier_denied_iff**: on a reached carrier, a reference to the object `tns/n` through a site
that asks a getter (every site but `auth-url`, which `isolation` covers) is refused exactly when it is
not `permitted`: the target's namespace is written, is not the carrier's, and the key of the target's
kind is deny.  Nothing else enters the decision. -/
theorem carrier_denied_iff (s : Site) (hs : s ≠ .authURL) (b : Bits) (ex : Existing) (route : Route)
    (refNs carNs name value content tns n : Str) (hcar : carNs ≠ [])
    (hr : carrierReached b route refNs carNs name = true) (he : carrierEvaluated s route = true)
    (hp : getContentProtocol value = (sSecret, content)) (hk : splitKey content = some (tns, n)) :
    carrierUses s b ex route refNs carNs name value = some .denied ↔ permitted b s.kind carNs tns = false := by
  have hperm : permitted b s.kind carNs tns = false ↔ (tns ≠ [] ∧ tns ≠ carNs ∧ b.get s.kind = false) := by
    simp [permitted, and_assoc]
  rw [hperm]
  simp only [carrierUses, carrierUsesWith, annContext, hr, he, Bool.not_true, Bool.false_eq_true, if_false,
    Option.some.injEq]
  cases s
  case authURL => exact absurd rfl hs
  all_goals
    simp only [siteUses, siteResolve, siteArgs, Site.getter]
    rw [getter_denied_iff _ b carNs value content tns n hcar (Or.inr ⟨by decide, hp⟩) hk]
    simp [getterAllow, Site.kind, Bits.get]

/-! ### non-vacuity -/

/-- a Service of namespace a named by the command line, by an Ingress of namespace c, by a route:
own names resolve, names of the referencer's namespace (c) and of a third one (b) are refused, each
key opens its kind; without `services: allow` the Ingress of namespace c does not reach the Service;
per-path keys are not evaluated on a backend without paths -/
example :
    carrierUses .secureCrt Bits.none Existing.none .defaultBackend [] ['a'] ['s'] ['c', 'r', 't']
      = some (.obj ['a'] ['c', 'r', 't']) ∧
    carrierUses .secureCrt Bits.none Existing.none .defaultBackend [] ['a'] ['s'] ['b', '/', 'c', 'r', 't']
      = some .denied ∧
    carrierUses .secureCrt ⟨true, false, false, false⟩ Existing.none .defaultBackend [] ['a'] ['s'] ['b', '/', 'c', 'r', 't']
      = some (.obj ['b'] ['c', 'r', 't']) ∧
    carrierUses .secureCA ⟨true, false, true, true⟩ Existing.none .authURL ['c'] ['a'] ['s'] ['c', '/', 'c', 'a']
      = some .denied ∧
    carrierUses .secureCA ⟨true, false, true, true⟩ Existing.none .authURL ['c'] ['a'] ['s'] ['c', 'a']
      = some (.obj ['a'] ['c', 'a']) ∧
    carrierUses .secureCA ⟨true, true, true, false⟩ Existing.none .authURL ['c'] ['a'] ['s'] ['c', 'a'] = none ∧
    carrierUses .authSecret Bits.none Existing.none .defaultBackend [] ['a'] ['s'] ['p', 'w'] = none ∧
    carrierUses .authSecret Bits.none Existing.none .gateway ['a'] ['a'] ['s'] ['b', '/', 'p', 'w'] = some .denied ∧
    carrierUses .authSecret Bits.none Existing.none .ingress ['a'] ['a'] ['s'] ['p', 'w'] = some (.obj ['a'] ['p', 'w']) ∧
    carrierUses .tls Bits.none Existing.none .direct ['a'] ['a'] ['s'] ['b', '/', 'c', 'r', 't'] = some .denied := by
  refine ⟨?_, ?_, ?_, ?_, ?_, ?_, ?_, ?_, ?_, ?_⟩ <;> decide

/-! ### the seeded variant C09f: the annotations of a Service resolved in the REFERENCER's context -/

/-- why it looked innocent: whenever the referencer lives in the carrier's namespace (every ordinary
Ingress → Service reference; every direct carrier; the Gateway flow) the seeded variant IS the code -/
theorem seeded_same_namespace_routes_agree (s : Site) (b : Bits) (ex : Existing) (route : Route)
    (carNs name value : Str) :
    carrierUsesSeeded s b ex route carNs carNs name value = carrierUses s b ex route carNs carNs name value ∧
    carrierReadsSeeded s b ex route carNs carNs name value = carrierReads s b ex route carNs carNs name value := by
  cases route <;>
    simp [carrierUsesSeeded, carrierUses, carrierUsesWith, carrierReadsSeeded, carrierReads, carrierReadsWith,
      annContextSeeded, annContext]

/-- SEED C09f, route `--default-backend-service=a/svc`: the command-line source has the EMPTY
namespace, which the cache reads as "global, nothing to deny".  With every key at deny the Service
annotation `secure-crt-secret: b/crt` of tenant a reads tenant b's secret (the code: denied), and a
bare name is looked up without a namespace (the code: a/crt).  Replays
`C09 carrier db securecrt other 00000 0`, `C09 carrier db securecrt n 00000 0`
(signature `foreign-secret-read:secure-crt-secret`). -/
theorem seeded_default_backend_reads_foreign :
    annContextSeeded .defaultBackend [] ['a'] = [] ∧
    carrierUsesSeeded .secureCrt Bits.none Existing.none .defaultBackend [] ['a'] ['s', 'v', 'c'] ['b', '/', 'c', 'r', 't']
      = some (.obj ['b'] ['c', 'r', 't']) ∧
    carrierReadsSeeded .secureCrt Bits.none Existing.none .defaultBackend [] ['a'] ['s', 'v', 'c'] ['b', '/', 'c', 'r', 't']
      = some (.obj ['b'] ['c', 'r', 't']) ∧
    carrierUsesSeeded .secureCA Bits.none Existing.none .defaultBackend [] ['a'] ['s', 'v', 'c'] ['b', '/', 'c', 'a']
      = some (.obj ['b'] ['c', 'a']) ∧
    carrierUses .secureCrt Bits.none Existing.none .defaultBackend [] ['a'] ['s', 'v', 'c'] ['b', '/', 'c', 'r', 't']
      = some .denied ∧
    carrierUsesSeeded .secureCrt Bits.none Existing.none .defaultBackend [] ['a'] ['s', 'v', 'c'] ['c', 'r', 't']
      = some (.obj [] ['c', 'r', 't']) ∧
    carrierUses .secureCrt Bits.none Existing.none .defaultBackend [] ['a'] ['s', 'v', 'c'] ['c', 'r', 't']
      = some (.obj ['a'] ['c', 'r', 't']) := by
  refine ⟨?_, ?_, ?_, ?_, ?_, ?_, ?_⟩ <;> decide

/-- SEED C09f, route `auth-url: svc://a/authsvc:port` on an Ingress of namespace c with only
`cross-namespace-services: allow`: the annotations of Service a/authsvc are resolved as if declared in
c — `c/crt` is read although the certificate key is deny (the code: denied), a bare name is c's object
(the code: a's).  Replays `C09 carrier authsvc securecrt ref 00001 0`, `C09 carrier authsvc securecrt n 00001 0`. -/
theorem seeded_auth_url_resolves_in_referencer :
    carrierUsesSeeded .secureCrt ⟨false, false, false, true⟩ Existing.none .authURL ['c'] ['a'] ['s'] ['c', '/', 'c', 'r', 't']
      = some (.obj ['c'] ['c', 'r', 't']) ∧
    carrierUses .secureCrt ⟨false, false, false, true⟩ Existing.none .authURL ['c'] ['a'] ['s'] ['c', '/', 'c', 'r', 't']
      = some .denied ∧
    carrierUsesSeeded .secureCrt ⟨false, false, false, true⟩ Existing.none .authURL ['c'] ['a'] ['s'] ['c', 'r', 't']
      = some (.obj ['c'] ['c', 'r', 't']) ∧
    carrierUses .secureCrt ⟨false, false, false, true⟩ Existing.none .authURL ['c'] ['a'] ['s'] ['c', 'r', 't']
      = some (.obj ['a'] ['c', 'r', 't']) ∧
    carrierUsesSeeded .secureCrt Bits.none Existing.none .authURL ['c'] ['a'] ['s'] ['c', '/', 'c', 'r', 't'] = none := by
  refine ⟨?_, ?_, ?_, ?_, ?_⟩ <;> decide

/-! ### facts regenerated from the Go source -/

/-- `addBackendWithClass` reaches the Service with the REFERENCING source's namespace and attaches to
the Service's annotations a Source built from the Service's own full name (`namespace := ssvcName[0]`);
the Service's annotations are the first thing added; the Gateway flow (`ReadAnnotations`) builds the
Source from `service.Namespace`; the command-line source has no namespace and brings no annotation of
its own; the auth-url pre-build goes through the same function with the Ingress as source; Gateway
backendRefs live in the route's namespace. -/
theorem facts_c09ctx :
    Facts.c09AddBackendGetService = ["source.Namespace, fullSvcName"] ∧
    Facts.c09AddBackendSvcSource =
      ["annotations.Source", "Namespace: namespace", "Name: svcName", "Type: convtypes.ResourceService"] ∧
    Facts.c09AddBackendNamespace =
      ["ssvcName := strings.Split(fullSvcName, \"/\")", "namespace := ssvcName[0]", "svcName := ssvcName[1]"] ∧
    Facts.c09AddBackendAnnSources = ["svcann", "ann", "cfg"] ∧
    Facts.c09ReadAnnotationsSource =
      ["source", "annotations.Source", "Namespace: service.Namespace", "Name: service.Name",
       "Type: convtypes.ResourceService"] ∧
    Facts.c09DefaultBackSource =
      ["annotations.Source", "Name: \"<default-backend>\"", "Type: convtypes.ResourceIngress"] ∧
    Facts.c09DefaultBackendCall =
      ["&c.defaultBackSource, pathLink, c.options.DefaultBackend, \"\", map[string]string{}"] ∧
    Facts.c09AuthURLPrebuild = ["source, pathLink, authSvcName, urlPort, map[string]string{}"] ∧
    Facts.c09GatewayBackendRefService = ["\"\", svcName"] ∧
    Facts.c09GatewayBackendRefName = ["svcName := routeSource.namespace + \"/\" + string(back.Name)"] := by
  decide

end HapVerif.C09
