import HapVerif.Model.Sync
import HapVerif.Generated.CodeC03
/-!
# C03 — tie between the model and the source (`createEndpoints`, `matchPort`)

`HapVerif.CodeC03.createEndpoints / matchPort` are REGENERATED on every run from
`pkg/converters/utils/services.go`: the function that turns an `Endpoints` object into the ready / not-ready
targets of a Service port — three nested range loops over subsets, ports and addresses, the `ip-override`
annotation, the accumulators `ready` / `notReady` (named results).  The theorems state that the translated code
lists, for EVERY Endpoints object (any number of subsets), exactly the addresses x matching TCP ports of every
subset, subset by subset, port by port, in the order written — nothing is dropped between subsets (seed C03b
re-made the accumulators per subset) — and that on the one-subset objects of the M-Sync model it is the model's
`Sync.targetsOf`.
-/
namespace HapVerif.C03Tie
open HapVerif HapVerif.GoLib HapVerif.C03V

/-- a loop whose body always continues is a fold -/
theorem forRange_next {α σ ρ : Type} (xs : List α) (s : σ) (g : α → σ → σ) :
    GoLib.forRange (ρ := ρ) xs s (fun x s => .next (g x s)) = .done (xs.foldl (fun s x => g x s) s) := by
  induction xs generalizing s with
  | nil => rfl
  | cons x xs ih => simp only [GoLib.forRange, List.foldl_cons]; exact ih _

theorem foldl_append1 {α β : Type} (h : α → β) (xs : List α) (init : List β) :
    xs.foldl (fun acc x => GoLib.append1 acc (h x)) init = init ++ xs.map h := by
  induction xs generalizing init with
  | nil => simp
  | cons x xs ih => rw [List.foldl_cons, ih]; simp [GoLib.append1]

/-- the override the function computes from the annotations -/
def overrideOf (e : EndpointsView) : List Char :=
  if e.Annotations != none then mapGet e.Annotations (GoLib.chars "haproxy-ingress.github.io/ip-override") else []

def resolve (ov ip : List Char) : List Char := if ov != [] then ov else ip

/-- the targets of one port of one subset -/
def portTargets (ov : List Char) (addrs : List AddrView) (p : EpPortView) : List EndpointOut :=
  addrs.map fun a => newEndpoint (resolve ov a.IP) p.Port a.TargetRef

/-- the targets of one subset: every matching port x every address, port by port -/
def subsetTargets (sp : SvcPortView) (ov : List Char) (ready : Bool) (s : SubsetView) : List EndpointOut :=
  (s.Ports.filter (CodeC03.matchPort sp)).flatMap
    (portTargets ov (if ready then s.Addresses else s.NotReadyAddresses))

/-- `matchPort`: TCP ports only; an unnamed service port matches every port, a named one its namesake -/
theorem matchPort_tie (sp : SvcPortView) (p : EpPortView) :
    CodeC03.matchPort sp p = (p.Protocol == GoLib.chars "TCP" && (sp.Name == [] || sp.Name == p.Name)) := by
  unfold CodeC03.matchPort
  by_cases h : p.Protocol = GoLib.chars "TCP"
  · simp [h, GoLib.chars]
  · have : (p.Protocol != GoLib.chars "TCP") = true := by simpa using h
    have h2 : (p.Protocol == GoLib.chars "TCP") = false := by simpa using h
    simp [this, h2]

/-- what one port adds to the two accumulators -/
def portStep (sp : SvcPortView) (ov : List Char) (s : SubsetView) (p : EpPortView)
    (st : List EndpointOut × List EndpointOut) : List EndpointOut × List EndpointOut :=
  if CodeC03.matchPort sp p then
    (st.1 ++ portTargets ov s.NotReadyAddresses p, st.2 ++ portTargets ov s.Addresses p)
  else st

theorem ports_fold (sp : SvcPortView) (ov : List Char) (s : SubsetView) (ps : List EpPortView) :
    ∀ st : List EndpointOut × List EndpointOut,
      ps.foldl (fun st p => portStep sp ov s p st) st =
        (st.1 ++ (ps.filter (CodeC03.matchPort sp)).flatMap (portTargets ov s.NotReadyAddresses),
         st.2 ++ (ps.filter (CodeC03.matchPort sp)).flatMap (portTargets ov s.Addresses)) := by
  induction ps with
  | nil => intro st; simp
  | cons p ps ih =>
    intro st
    rw [List.foldl_cons, ih]
    by_cases hm : CodeC03.matchPort sp p = true
    · simp [portStep, hm, List.filter_cons, List.append_assoc]
    · have hm' : CodeC03.matchPort sp p = false := by simpa using hm
      simp [portStep, hm', List.filter_cons]

def subsetStep (sp : SvcPortView) (ov : List Char) (s : SubsetView)
    (st : List EndpointOut × List EndpointOut) : List EndpointOut × List EndpointOut :=
  (st.1 ++ subsetTargets sp ov false s, st.2 ++ subsetTargets sp ov true s)

theorem subsets_fold (sp : SvcPortView) (ov : List Char) (ss : List SubsetView) :
    ∀ st : List EndpointOut × List EndpointOut,
      ss.foldl (fun st s => subsetStep sp ov s st) st =
        (st.1 ++ ss.flatMap (subsetTargets sp ov false), st.2 ++ ss.flatMap (subsetTargets sp ov true)) := by
  induction ss with
  | nil => intro st; simp
  | cons s ss ih => intro st; rw [List.foldl_cons, ih]; simp [subsetStep, List.append_assoc]

theorem forRange_fold' {α σ ρ : Type} (f : α → σ → Step σ ρ) (g : σ → α → σ) (h : ∀ x s, f x s = .next (g s x)) :
    ∀ (xs : List α) (s : σ), GoLib.forRange xs s f = .done (xs.foldl g s) := by
  intro xs
  induction xs with
  | nil => intro s; rfl
  | cons x xs ih => intro s; simp only [GoLib.forRange, h, List.foldl_cons]; exact ih _

abbrev Ret := List EndpointOut × List EndpointOut × Option String

/-- innermost loops: one address appended -/
def addrBody (ov : List Char) (port : Int) (addr : AddrView) (acc : List EndpointOut) : Step (List EndpointOut) Ret :=
  let acc := (GoLib.append1 acc (C03V.newEndpoint ((fun ip => if (ov != (GoLib.chars "")) then ov else ip) (addr).IP) port (addr).TargetRef))
  GoLib.Step.next acc

def portBody (sp : SvcPortView) (ov : List Char) (subset : SubsetView) (epPort : EpPortView) :
    List EndpointOut × List EndpointOut → Step (List EndpointOut × List EndpointOut) Ret :=
  fun (notReady, ready) =>
  if (CodeC03.matchPort sp epPort) then
    let port := (GoLib.idInt (epPort).Port)
    match GoLib.forRange (subset).Addresses ready (addrBody ov port) with
    | .ret r' => GoLib.Step.ret r'
    | .done ready =>
      match GoLib.forRange (subset).NotReadyAddresses notReady (addrBody ov port) with
      | .ret r' => GoLib.Step.ret r'
      | .done notReady =>
        GoLib.Step.next (notReady, ready)
  else
    GoLib.Step.next (notReady, ready)

def subsetBody (sp : SvcPortView) (ov : List Char) (subset : SubsetView) :
    List EndpointOut × List EndpointOut → Step (List EndpointOut × List EndpointOut) Ret :=
  fun (notReady, ready) =>
  match GoLib.forRange (subset).Ports (notReady, ready) (portBody sp ov subset) with
  | .ret r' => GoLib.Step.ret r'
  | .done (notReady, ready) =>
    GoLib.Step.next (notReady, ready)

/-- the translated function with its loop bodies named -/
def spec (endpoints : EndpointsView) (svcPort : SvcPortView) : Ret :=
  let ready : List C03V.EndpointOut := []
  let notReady : List C03V.EndpointOut := []
  let ipOverride := (GoLib.chars "")
  let ann := (endpoints).Annotations
  let ipOverride := (if (ann != GoLib.nil) then
    (C03V.mapGet ann (GoLib.chars "haproxy-ingress.github.io/ip-override"))
  else
    ipOverride)
  match GoLib.forRange (endpoints).Subsets (notReady, ready) (subsetBody svcPort ipOverride) with
  | .ret r' => r'
  | .done (notReady, ready) =>
    (ready, notReady, GoLib.nil)

theorem code_eq_spec (e : EndpointsView) (sp : SvcPortView) : CodeC03.createEndpoints e sp = spec e sp := rfl

theorem addr_loop (ov : List Char) (port : Int) (addrs : List AddrView) (acc : List EndpointOut) :
    GoLib.forRange addrs acc (addrBody ov port) =
      .done (acc ++ addrs.map fun a => newEndpoint (resolve ov a.IP) port a.TargetRef) := by
  rw [forRange_fold' (addrBody ov port)
    (fun acc a => GoLib.append1 acc (newEndpoint (resolve ov a.IP) port a.TargetRef)) (fun _ _ => rfl)]
  rw [foldl_append1]

theorem port_step (sp : SvcPortView) (ov : List Char) (s : SubsetView) (p : EpPortView)
    (st : List EndpointOut × List EndpointOut) : portBody sp ov s p st = .next (portStep sp ov s p st) := by
  obtain ⟨nr, r⟩ := st
  by_cases hm : CodeC03.matchPort sp p = true
  · simp only [portBody, hm, if_true, portStep, addr_loop]
    rfl
  · have hm' : CodeC03.matchPort sp p = false := by simpa using hm
    simp [portBody, hm', portStep]

theorem subset_step (sp : SvcPortView) (ov : List Char) (s : SubsetView)
    (st : List EndpointOut × List EndpointOut) : subsetBody sp ov s st = .next (subsetStep sp ov s st) := by
  obtain ⟨nr, r⟩ := st
  simp only [subsetBody]
  rw [forRange_fold' (portBody sp ov s) (fun st p => portStep sp ov s p st) (fun p st => port_step sp ov s p st),
    ports_fold]
  simp [subsetStep, subsetTargets]

/-- **the translated `createEndpoints` lists, for every Endpoints object, the addresses x matching TCP ports of
every subset**, subset by subset and port by port in the order written, ready and not-ready apart, with the
`ip-override` annotation applied to every address; it never fails. -/
theorem createEndpoints_tie (e : EndpointsView) (sp : SvcPortView) :
    CodeC03.createEndpoints e sp =
      (e.Subsets.flatMap (subsetTargets sp (overrideOf e) true),
       e.Subsets.flatMap (subsetTargets sp (overrideOf e) false), none) := by
  rw [code_eq_spec]
  unfold spec
  simp only []
  have hov : (if (e.Annotations != GoLib.nil) = true then
        C03V.mapGet e.Annotations (GoLib.chars "haproxy-ingress.github.io/ip-override") else GoLib.chars "")
      = overrideOf e := by
    unfold overrideOf GoLib.nil
    by_cases h : (e.Annotations != none) = true <;> simp [h, GoLib.chars]
  rw [hov]
  rw [forRange_fold' (subsetBody sp (overrideOf e)) (fun st s => subsetStep sp (overrideOf e) s st)
    (fun s st => subset_step sp (overrideOf e) s st), subsets_fold]
  simp [GoLib.nil]

/-! ## the one-subset objects of the M-Sync model -/

open HapVerif.Sync in
/-- an `Endpoints` object of the M-Sync model (one subset, TCP ports, ready flag per address) as the Go structs -/
def subsetOf (e : Sync.Endpoints) : SubsetView :=
  { Addresses := (e.addrs.filter (·.ready = true)).map fun a => ⟨a.ip, a.pod⟩
    NotReadyAddresses := (e.addrs.filter (·.ready = false)).map fun a => ⟨a.ip, a.pod⟩
    Ports := e.ports.map fun p => ⟨p.name, (p.num : Int), GoLib.chars "TCP"⟩ }

/-- **on the model's objects the translated `createEndpoints` is the model's `targetsOf`** (ready and not-ready
listing, addresses x matching ports in the same order) -/
theorem createEndpoints_model (e : Sync.Endpoints) (sp : Sync.SvcPort) (ready : Bool) :
    (let r := CodeC03.createEndpoints ⟨none, [subsetOf e]⟩ ⟨sp.name⟩
     (if ready then r.1 else r.2.1).map fun o => (o.ip, o.port.toNat)) = Sync.targetsOf e sp ready := by
  rw [createEndpoints_tie]
  have hov : overrideOf ⟨none, [subsetOf e]⟩ = [] := rfl
  have hmp : ∀ p : Sync.EpPort, CodeC03.matchPort ⟨sp.name⟩ ⟨p.name, (p.num : Int), GoLib.chars "TCP"⟩ = Sync.matchPort sp p := by
    intro p
    rw [matchPort_tie]
    have h1 : (sp.name == ([] : List Char)) = sp.name.isEmpty := by cases sp.name <;> rfl
    have h2 : (sp.name == p.name) = decide (sp.name = p.name) := by
      by_cases h : sp.name = p.name <;> simp [h]
    simp [Sync.matchPort, h1, h2]
  have hfilter : ((subsetOf e).Ports.filter (CodeC03.matchPort ⟨sp.name⟩)) =
      (e.ports.filter (Sync.matchPort sp)).map fun p => ⟨p.name, (p.num : Int), GoLib.chars "TCP"⟩ := by
    simp only [subsetOf, List.filter_map]
    congr 1
    apply List.filter_congr
    intro p _
    exact hmp p
  simp only [List.flatMap_cons, List.flatMap_nil, List.append_nil, subsetTargets, hfilter, hov]
  cases ready <;>
    simp [Sync.targetsOf, subsetOf, portTargets, resolve, newEndpoint,
      List.flatMap_map, List.map_flatMap, Function.comp_def]

/-- a concrete run: two subsets (the object of seed C03b), a named service port, a UDP port that never matches -/
example : (CodeC03.createEndpoints
      ⟨none, [⟨[⟨"10.0.0.1".toList, "p1".toList⟩], [], [⟨"http".toList, 8080, "TCP".toList⟩, ⟨"http".toList, 53, "UDP".toList⟩]⟩,
              ⟨[⟨"10.0.0.2".toList, "p2".toList⟩], [⟨"10.0.0.3".toList, "p3".toList⟩], [⟨"http".toList, 8080, "TCP".toList⟩]⟩]⟩
      ⟨"http".toList⟩).1.map (fun o => (String.ofList o.ip, o.port))
    = [("10.0.0.1", 8080), ("10.0.0.2", 8080)] := by decide

end HapVerif.C03Tie
