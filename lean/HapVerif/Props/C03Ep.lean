import HapVerif.Model.C03Ep
import HapVerif.Lemmas.C03
import HapVerif.Props.C03Tie
/-!
# C03 — hand-maintained Endpoints objects: which addresses are served (after seed C03g)

All theorems quantify over EVERY Endpoints object (any number of subsets, any ports: names, numbers, protocols
TCP / UDP / SCTP, ready and not-ready addresses per subset), every service port (named or not, any `port`, any
`targetPort`) and every address.

* `mem_listed`            what `createEndpoints` lists: an address of a subset x a TCP port OF THE SAME SUBSET that the
                          service port takes by NAME (an unnamed service port takes every TCP port);
* `listed_port_indep`     neither `port` nor `targetPort` of the service port takes part (seed C03g made the unnamed
                          case depend on the numeric targetPort);
* `designated_listed`     **no designated ready endpoint is omitted**;
* `listed_named_iff`      for a NAMED service port the listing is exactly the designated set;
* `listed_iff_allowed`    nothing is listed that the Spec does not allow (no UDP / SCTP port, no foreign name, no
                          address of the other readiness);
* `mem_sortT`             the `sort.Slice` of `CreateEndpoints` keeps the listing;
* `checkListing_model`, `checkServers_model`, `oracle_run`
                          **the oracle of the harness accepts the model's run on every case** (listing and servers of the
                          backend: enabled = allowed ready ones, every designated one enabled — or weight 0 under
                          drain-support when it is also listed not-ready — weight 0 only under drain-support and only
                          for not-ready ones);
* `createEndpoints_ep`    tie: the TRANSLATED `createEndpoints` (Generated/CodeC03.lean, regenerated from the source on
                          every run) on the Go view of any such object is `listed` (ready and not-ready).
-/
namespace HapVerif.C03Ep
open HapVerif.Sync List
open HapVerif.C04 (Str)
open HapVerif.C03 (enabledOf drainedOf tgt mem_enabledOf mem_drainedOf ready_fold drain_fold mem_sortBy)

theorem matchPortE_iff (sp : SvcPort) (p : EpPortE) :
    matchPortE sp p = true ↔ p.proto = .tcp ∧ (sp.name = [] ∨ sp.name = p.name) := by
  unfold matchPortE
  cases h : sp.name <;> simp

/-- **what is listed**: an address of a subset x a TCP port of the same subset taken by name -/
theorem mem_listed (e : EpObj) (sp : SvcPort) (ready : Bool) (t : Str × Nat) :
    t ∈ listed e sp ready ↔
      ∃ s ∈ e, ∃ p ∈ s.ports, p.proto = .tcp ∧ (sp.name = [] ∨ sp.name = p.name) ∧
        t.1 ∈ s.addrs ready ∧ t.2 = p.num := by
  unfold listed listedSubset
  simp only [mem_flatMap, mem_filter, mem_map, matchPortE_iff]
  constructor
  · rintro ⟨s, hs, p, ⟨hp, h1, h2⟩, ip, hip, rfl⟩
    exact ⟨s, hs, p, hp, h1, h2, hip, rfl⟩
  · rintro ⟨s, hs, p, hp, h1, h2, hip, hn⟩
    exact ⟨s, hs, p, ⟨hp, h1, h2⟩, t.1, hip, by rw [← hn]⟩

/-- the listing reads the NAME of the service port only: not `port`, not `targetPort` -/
theorem listed_port_indep (e : EpObj) (sp sp' : SvcPort) (ready : Bool) (h : sp.name = sp'.name) :
    listed e sp ready = listed e sp' ready := by
  have : matchPortE sp = matchPortE sp' := by funext p; simp [matchPortE, h]
  unfold listed listedSubset
  rw [this]

theorem mem_designated (e : EpObj) (sp : SvcPort) (t : Str × Nat) :
    t ∈ designated e sp ↔
      ∃ s ∈ e, ∃ p ∈ s.ports, p.proto = .tcp ∧ p.name = sp.name ∧ t.1 ∈ s.ready ∧ t.2 = p.num := by
  unfold designated
  simp only [mem_flatMap, mem_filter, mem_map, Bool.and_eq_true, decide_eq_true_eq]
  constructor
  · rintro ⟨s, hs, p, ⟨hp, h1, h2⟩, ip, hip, rfl⟩
    exact ⟨s, hs, p, hp, h1, h2, hip, rfl⟩
  · rintro ⟨s, hs, p, hp, h1, h2, hip, hn⟩
    exact ⟨s, hs, p, ⟨hp, h1, h2⟩, t.1, hip, by rw [← hn]⟩

/-- **no designated ready endpoint is omitted**, whatever the numbers of the service port -/
theorem designated_listed (e : EpObj) (sp : SvcPort) (t : Str × Nat) (h : t ∈ designated e sp) :
    t ∈ listed e sp true := by
  obtain ⟨s, hs, p, hp, h1, h2, h3, h4⟩ := (mem_designated e sp t).1 h
  exact (mem_listed e sp true t).2 ⟨s, hs, p, hp, h1, Or.inr h2.symm, h3, h4⟩

/-- a NAMED service port: exactly the designated endpoints are listed -/
theorem listed_named_iff (e : EpObj) (sp : SvcPort) (hn : sp.name ≠ []) (t : Str × Nat) :
    t ∈ listed e sp true ↔ t ∈ designated e sp := by
  refine ⟨fun h => ?_, designated_listed e sp t⟩
  obtain ⟨s, hs, p, hp, h1, h2, h3, h4⟩ := (mem_listed e sp true t).1 h
  rcases h2 with h2 | h2
  · exact absurd h2 hn
  · exact (mem_designated e sp t).2 ⟨s, hs, p, hp, h1, h2.symm, h3, h4⟩

theorem allowedB_iff (e : EpObj) (sp : SvcPort) (ready : Bool) (t : Str × Nat) :
    allowedB e sp ready t = true ↔
      ∃ s ∈ e, ∃ p ∈ s.ports, p.proto = .tcp ∧ (sp.name = [] ∨ sp.name = p.name) ∧
        t.1 ∈ s.addrs ready ∧ t.2 = p.num := by
  unfold allowedB
  simp only [any_eq_true, Bool.and_eq_true, decide_eq_true_eq, contains_iff_mem, Bool.or_eq_true, isEmpty_iff]
  constructor
  · rintro ⟨s, hs, hip, p, hp, ⟨h1, h2⟩, h3⟩
    exact ⟨s, hs, p, hp, h1, h3, hip, h2.symm⟩
  · rintro ⟨s, hs, p, hp, h1, h3, hip, h2⟩
    exact ⟨s, hs, hip, p, hp, ⟨h1, h2.symm⟩, h3⟩

/-- **nothing else is listed**: a listed target is an address of the asked readiness x a TCP port of its subset
that carries the service port's name (any TCP port for an unnamed service port) -/
theorem listed_iff_allowed (e : EpObj) (sp : SvcPort) (ready : Bool) (t : Str × Nat) :
    t ∈ listed e sp ready ↔ allowedB e sp ready t = true := by
  rw [mem_listed, allowedB_iff]

/-- a UDP / SCTP port contributes nothing -/
theorem non_tcp_not_listed (sp : SvcPort) (ready : Bool) (s : Subset) (h : ∀ p ∈ s.ports, p.proto ≠ .tcp) :
    listedSubset sp ready s = [] := by
  unfold listedSubset
  have : s.ports.filter (matchPortE sp) = [] := by
    apply filter_eq_nil_iff.2
    intro p hp hm
    exact h p hp ((matchPortE_iff sp p).1 hm).1
  rw [this]; rfl

theorem mem_sortT {l : List (Str × Nat)} {t : Str × Nat} : t ∈ sortT l ↔ t ∈ l := mem_sortBy

/-- the oracle accepts the model's ready listing -/
theorem checkListing_model (e : EpObj) (sp : SvcPort) : checkListing e sp (sortT (listed e sp true)) = none := by
  unfold checkListing
  have h1 : (sortT (listed e sp true)).find? (fun t => !allowedB e sp true t) = none := by
    apply find?_eq_none.2
    intro t ht
    have := (listed_iff_allowed e sp true t).1 (mem_sortT.1 ht)
    simp [this]
  rw [h1]
  have h2 : (designated e sp).all (sortT (listed e sp true)).contains = true := by
    apply all_eq_true.2
    intro t ht
    exact contains_iff_mem.2 (mem_sortT.2 (designated_listed e sp t ht))
  simp [h2]

/-- the servers of the backend, as a proposition -/
structure ServersOK (e : EpObj) (sp : SvcPort) (drain : Bool) (l : List Server) : Prop where
  enabled : ∀ t ∈ enabledOf l, allowedB e sp true t = true
  drained : ∀ t ∈ drainedOf l, drain = true ∧ allowedB e sp false t = true
  served : ∀ t ∈ designated e sp,
    t ∈ enabledOf l ∨ (drain = true ∧ allowedB e sp false t = true ∧ t ∈ drainedOf l)

theorem serversOf_ok (e : EpObj) (sp : SvcPort) (drain : Bool) :
    ServersOK e sp drain (serversOf (sortT (listed e sp true)) (sortT (listed e sp false)) drain) := by
  unfold serversOf
  simp only
  have aR : ∀ t, t ∈ sortT (listed e sp true) → allowedB e sp true t = true :=
    fun t h => (listed_iff_allowed e sp true t).1 (mem_sortT.1 h)
  have aD : ∀ t, t ∈ sortT (listed e sp false) → allowedB e sp false t = true :=
    fun t h => (listed_iff_allowed e sp false t).1 (mem_sortT.1 h)
  have dR : ∀ t ∈ designated e sp, t ∈ sortT (listed e sp true) :=
    fun t h => mem_sortT.2 (designated_listed e sp t h)
  generalize sortT (listed e sp true) = R at aR dR
  generalize sortT (listed e sp false) = D at aD
  obtain ⟨r1, _, r3⟩ := ready_fold R []
  generalize R.foldl (fun l t => acquire l t.1 t.2 1) [] = l1 at r1 r3
  have r1' : ∀ x ∈ l1, x.weight = 1 ∧ tgt x ∈ R := by
    intro x hx
    rcases r1 x hx with h | h
    · simp at h
    · exact h
  by_cases hd : drain = true
  · simp only [hd, if_true]
    obtain ⟨d1, d2⟩ := drain_fold D l1
    generalize D.foldl (fun l t => acquireDrain l t.1 t.2) l1 = l2 at d1 d2
    refine ⟨fun t h => ?_, fun t h => ?_, fun t h => ?_⟩
    · obtain ⟨x, hx, hw, rfl⟩ := mem_enabledOf.1 h
      rcases d1 x hx with h1 | h1
      · exact aR _ (r1' x h1).2
      · exact absurd h1.1 hw
    · obtain ⟨x, hx, hw, rfl⟩ := mem_drainedOf.1 h
      rcases d1 x hx with h1 | h1
      · rw [(r1' x h1).1] at hw; exact absurd hw (by decide)
      · exact ⟨rfl, aD _ h1.2⟩
    · obtain ⟨y, hy, hyt⟩ := r3 t (dR t h)
      obtain ⟨x, hx, hxt, hxw⟩ := d2 y hy
      rcases hxw with h1 | h1
      · exact Or.inl (mem_enabledOf.2 ⟨x, hx, by rw [h1, (r1' y hy).1]; decide, hxt.trans hyt⟩)
      · refine Or.inr ⟨rfl, ?_, mem_drainedOf.2 ⟨x, hx, h1.1, hxt.trans hyt⟩⟩
        rw [← hyt]; exact aD _ h1.2
  · have hd' : drain = false := by simpa using hd
    subst hd'
    simp only [Bool.false_eq_true, if_false]
    refine ⟨fun t h => ?_, fun t h => ?_, fun t h => ?_⟩
    · obtain ⟨x, hx, _, rfl⟩ := mem_enabledOf.1 h
      exact aR _ (r1' x hx).2
    · obtain ⟨x, hx, hw, rfl⟩ := mem_drainedOf.1 h
      rw [(r1' x hx).1] at hw; exact absurd hw (by decide)
    · obtain ⟨y, hy, hyt⟩ := r3 t (dR t h)
      exact Or.inl (mem_enabledOf.2 ⟨y, hy, by rw [(r1' y hy).1]; decide, hyt⟩)

theorem checkServers_of_ok {e : EpObj} {sp : SvcPort} {drain : Bool} {l : List Server}
    (ok : ServersOK e sp drain l) : checkServers e sp drain l = none := by
  unfold checkServers
  have h1 : (enabledOf l).find? (fun t => !allowedB e sp true t) = none := by
    apply find?_eq_none.2
    intro t ht
    simp [ok.enabled t ht]
  rw [h1]
  have h2 : (!(drainedOf l).isEmpty && !drain) = false := by
    cases hl : drainedOf l with
    | nil => simp
    | cons t ts =>
      have := (ok.drained t (by rw [hl]; exact mem_cons_self)).1
      simp [this]
  have h3 : (drainedOf l).all (allowedB e sp false) = true :=
    all_eq_true.2 fun t ht => (ok.drained t ht).2
  have h4 : ((designated e sp).all fun t =>
      (enabledOf l).contains t || (drain && allowedB e sp false t && (drainedOf l).contains t)) = true := by
    apply all_eq_true.2
    intro t ht
    rcases ok.served t ht with h | ⟨a, b, c⟩
    · simp [h]
    · simp [a, b, c]
  simp only [h2, h3, h4]
  simp

/-- the oracle accepts the servers the model builds -/
theorem checkServers_model (e : EpObj) (sp : SvcPort) (drain : Bool) :
    checkServers e sp drain (serversOf (sortT (listed e sp true)) (sortT (listed e sp false)) drain) = none :=
  checkServers_of_ok (serversOf_ok e sp drain)

/-- the port the Spec says the Ingress designates is found by the code's `FindServicePort` -/
theorem specPort_found (c : Case) (h : (specPort c).isSome = true) :
    (findPort ⟨[], [], c.ports⟩ c.ing).isSome = true := by
  unfold specPort at h
  unfold findPort
  simp only
  cases h1 : c.ports.find? (fun p => decide (p.name = c.ing ∨ p.target = c.ing)) with
  | some p => rfl
  | none =>
    simp only
    have hn := find?_eq_none.1 h1
    cases h2 : c.ports.find? (fun p => decide (p.name = c.ing ∧ (!c.ing.isEmpty) = true)) with
    | some p =>
      have hp := find?_some h2
      have hm := mem_of_find?_eq_some h2
      simp only [decide_eq_true_eq] at hp
      exact absurd (by simp [hp.1]) (hn p hm)
    | none =>
      rw [h2] at h
      simp only at h
      split at h
      · rename_i hdig
        simp only [hdig, if_true]
        exact h
      · simp at h

/-- **the oracle of the harness accepts the model's run on EVERY case** -/
theorem oracle_run (c : Case) : oracle c (run c) = none := by
  unfold oracle run
  cases hf : findPort ⟨[], [], c.ports⟩ c.ing with
  | none =>
    simp only [Option.map_none]
    cases hs : (specPort c).isSome with
    | false => simp
    | true => have := specPort_found c hs; rw [hf] at this; simp at this
  | some sp =>
    simp only [Option.map_some, checkListing_model, checkServers_model]
    simp

/-! ## tie to the translated code -/

open HapVerif.GoLib HapVerif.C03V HapVerif.C03Tie in
def protoStr : Proto → List Char
  | .tcp => GoLib.chars "TCP"
  | .udp => GoLib.chars "UDP"
  | .sctp => GoLib.chars "SCTP"

open HapVerif.C03V in
/-- a subset as the Go structs -/
def subsetView (s : Subset) : SubsetView :=
  { Addresses := s.ready.map fun ip => ⟨ip, []⟩
    NotReadyAddresses := s.notReady.map fun ip => ⟨ip, []⟩
    Ports := s.ports.map fun p => ⟨p.name, (p.num : Int), protoStr p.proto⟩ }

open HapVerif.C03V in
def viewOf (e : EpObj) : EndpointsView := ⟨none, e.map subsetView⟩

open HapVerif.C03V HapVerif.C03Tie in
theorem matchPort_view (sp : SvcPort) (p : EpPortE) :
    CodeC03.matchPort ⟨sp.name⟩ ⟨p.name, (p.num : Int), protoStr p.proto⟩ = matchPortE sp p := by
  rw [matchPort_tie]
  have h1 : (sp.name == ([] : List Char)) = sp.name.isEmpty := by cases sp.name <;> rfl
  have h2 : (sp.name == p.name) = decide (sp.name = p.name) := by
    by_cases h : sp.name = p.name <;> simp [h]
  have h3 : (protoStr p.proto == GoLib.chars "TCP") = decide (p.proto = .tcp) := by
    cases p.proto <;> decide
  simp [matchPortE, h1, h2, h3]

open HapVerif.C03V HapVerif.C03Tie in
/-- **the translated `createEndpoints` on the Go view of ANY hand-written Endpoints object is `listed`** -/
theorem createEndpoints_ep (e : EpObj) (sp : SvcPort) (ready : Bool) :
    (let r := CodeC03.createEndpoints (viewOf e) ⟨sp.name⟩
     (if ready then r.1 else r.2.1).map fun o => (o.ip, o.port.toNat)) = listed e sp ready := by
  rw [createEndpoints_tie]
  have hov : overrideOf (viewOf e) = [] := rfl
  have hsub : ∀ s : Subset, ∀ r : Bool,
      (subsetTargets ⟨sp.name⟩ [] r (subsetView s)).map (fun o => (o.ip, o.port.toNat)) = listedSubset sp r s := by
    intro s r
    have hfilter : ((subsetView s).Ports.filter (CodeC03.matchPort ⟨sp.name⟩)) =
        (s.ports.filter (matchPortE sp)).map fun p => ⟨p.name, (p.num : Int), protoStr p.proto⟩ := by
      simp only [subsetView, List.filter_map]
      congr 1
      apply List.filter_congr
      intro p _
      exact matchPort_view sp p
    simp only [subsetTargets, hfilter]
    cases r <;>
      simp [listedSubset, Subset.addrs, subsetView, portTargets, C03Tie.resolve, newEndpoint,
        List.flatMap_map, List.map_flatMap, Function.comp_def]
  rw [hov]
  have hov2 : (viewOf e).Subsets = e.map subsetView := rfl
  rw [hov2]
  cases ready <;>
    simp only [Bool.false_eq_true, if_false, if_true, listed, List.map_flatMap, List.flatMap_map, hsub]

/-! ## non-vacuity and witnesses -/

def s (x : String) : Str := x.toList

/-- the object of seed C03g: an unnamed service port 80 (targetPort 80), the Endpoints written by hand on 9376 -/
def legacy : EpObj := [⟨[s "10.0.0.5", s "10.0.0.6"], [s "10.0.0.7"], [⟨[], 9376, .tcp⟩]⟩]

example : listed legacy ⟨[], 80, s "80"⟩ true = [(s "10.0.0.5", 9376), (s "10.0.0.6", 9376)] := by decide
example : designated legacy ⟨[], 80, s "80"⟩ = [(s "10.0.0.5", 9376), (s "10.0.0.6", 9376)] := by decide

/-- the oracle rejects the empty listing for it (what seed C03g produced) and a not-ready / a UDP address served -/
example : checkListing legacy ⟨[], 80, s "80"⟩ [] = some "endpoint-omitted-against-service-port-designation" ∧
    checkListing legacy ⟨[], 80, s "80"⟩ [(s "10.0.0.5", 9376), (s "10.0.0.6", 9376), (s "10.0.0.7", 9376)]
      = some "not-ready-endpoint-listed" ∧
    checkServers legacy ⟨[], 80, s "80"⟩ false [] =
      some "backend:endpoint-omitted-against-service-port-designation" ∧
    checkListing [⟨[s "10.0.0.5"], [], [⟨s "http", 8080, .tcp⟩, ⟨s "http", 53, .udp⟩, ⟨s "adm", 81, .tcp⟩]⟩]
        ⟨s "http", 80, s "8080"⟩ [(s "10.0.0.5", 8080), (s "10.0.0.5", 53)] = some "non-tcp-endpoint-port-listed" ∧
    checkListing [⟨[s "10.0.0.5"], [], [⟨s "http", 8080, .tcp⟩, ⟨s "http", 53, .udp⟩, ⟨s "adm", 81, .tcp⟩]⟩]
        ⟨s "http", 80, s "8080"⟩ [(s "10.0.0.5", 8080), (s "10.0.0.5", 81)] =
      some "foreign-named-endpoint-port-listed" := by decide

/-- two subsets, ports of three protocols, drain-support: the model's run and the oracle on it -/
example : run ⟨[⟨s "http", 80, s "8080"⟩, ⟨s "adm", 81, s "adm"⟩], s "http", true,
      [⟨[s "10.0.0.5"], [], [⟨s "http", 9376, .tcp⟩, ⟨s "adm", 9377, .tcp⟩, ⟨s "http", 53, .udp⟩]⟩,
       ⟨[s "10.0.0.6"], [s "10.0.0.7"], [⟨s "http", 9378, .tcp⟩, ⟨s "http", 9379, .sctp⟩]⟩]⟩ =
    some ⟨[(s "10.0.0.5", 9376), (s "10.0.0.6", 9378)], [(s "10.0.0.7", 9378)],
      some (s "8080", [⟨s "10.0.0.5", 9376, 1⟩, ⟨s "10.0.0.6", 9378, 1⟩, ⟨s "10.0.0.7", 9378, 0⟩])⟩ := by
  decide +kernel

end HapVerif.C03Ep
