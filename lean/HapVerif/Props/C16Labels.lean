import HapVerif.Props.C16Callers
/-!
# C16 — blue/green: which pods an entry `label=value=weight` selects

`buildBackendBlueGreenBalance` selects the members of a group with
`if label, found := pod.Labels[dw.labelName]; found { if label == dw.labelValue {`: the label must be
PRESENT in the pod's label map and carry the entry's value.  Label values may be EMPTY (marker labels
`blue: ""`), and `blue==3` is the legal item label `blue`, value ``, weight 3 (`strings.Split` gives
three fields).  A pod that LACKS the label is in no group of that name — not even one declared with
the empty value — and is written 0 (`unmatched_zero`).

* `goSplit_*`: the structural model of `strings.Split` is THE splitting (fields free of the
  separator whose join is the input; unique), `parseEntry_three_fields`: an item parses iff it has
  exactly two `=` and a Go integer after the second; witnesses for empty value / empty name /
  repeated `=`.
* `bgLabelMatch_iff`, `bg_absent_no_match`, `bg_present_empty_matches`: the matching relation for all
  label maps and entries, empty strings included; `labelsOfPairs_lookup`: the map the case grammar
  denotes.
* `unmatched_zero`, `unmatched_zero_core`: a pod lacking the label of every entry gets 0 whatever
  the entries' values.
* the seeded variant C16f (`bgLabelMatchLoose`: `pod.Labels[name] == value`): `loose_differs_iff`
  (it differs from the code exactly on an absent label against the empty value),
  `seed_invisible_without_empty_values` (with non-empty values — all the generator fed before — the
  two functions are equal), `seed_lookup_or_empty_breaks_unmatched_zero` (kernel-checked witness on
  `blue==3,green==1`).

Every theorem of `Props/C16Callers` about `bgCore` / `bgRun` is stated for arbitrary `BgEp` (any
association list of arbitrary strings, absent / empty / other value) and arbitrary `BgEntry` (empty
name, empty value): they hold for this matching relation as they stand; the `example`s at the end
instantiate them on empty values and names.
-/
namespace HapVerif.C16

/-! ## `strings.Split` -/

theorem goSplit_ne_nil (sep : Char) : ∀ s : List Char, goSplit sep s ≠ []
  | [] => by simp [goSplit]
  | c :: cs => by
    unfold goSplit
    split
    · simp
    · split <;> simp

/-- one field more than separators: an item has three fields iff it has exactly two `=` -/
theorem goSplit_length (sep : Char) : ∀ s : List Char, (goSplit sep s).length = s.count sep + 1
  | [] => by simp [goSplit]
  | c :: cs => by
    have ih := goSplit_length sep cs
    unfold goSplit
    by_cases h : c = sep
    · subst h
      simp [ih]
    · rw [if_neg h]
      have hc : (c :: cs).count sep = cs.count sep := by
        rw [List.count_cons]; simp [h]
      rw [hc, ← ih]
      split
      · rename_i f fs heq; rw [heq]; simp
      · rename_i heq; exact absurd heq (goSplit_ne_nil sep cs)

/-- no field contains the separator -/
theorem goSplit_no_sep (sep : Char) : ∀ (s : List Char), ∀ f ∈ goSplit sep s, sep ∉ f
  | [] => by simp [goSplit]
  | c :: cs => by
    have ih := goSplit_no_sep sep cs
    unfold goSplit
    by_cases h : c = sep
    · subst h
      intro f hf
      simp only [if_true, List.mem_cons] at hf
      rcases hf with rfl | hf
      · simp
      · exact ih f hf
    · rw [if_neg h]
      split
      · rename_i f fs heq
        intro g hg
        simp only [List.mem_cons] at hg
        rcases hg with rfl | hg
        · intro hm
          simp only [List.mem_cons] at hm
          rcases hm with rfl | hm
          · exact h rfl
          · exact ih f (by rw [heq]; simp) hm
        · exact ih g (by rw [heq]; simp [hg])
      · rename_i heq; exact absurd heq (goSplit_ne_nil sep cs)

/-- the fields joined by the separator give the input back -/
def joinSep (sep : Char) : List (List Char) → List Char
  | [] => []
  | [f] => f
  | f :: g :: fs => f ++ sep :: joinSep sep (g :: fs)

theorem goSplit_join (sep : Char) : ∀ s : List Char, joinSep sep (goSplit sep s) = s
  | [] => by simp [goSplit, joinSep]
  | c :: cs => by
    have ih := goSplit_join sep cs
    unfold goSplit
    by_cases h : c = sep
    · subst h
      rw [if_pos rfl]
      cases hs : goSplit c cs with
      | nil => exact absurd hs (goSplit_ne_nil c cs)
      | cons f fs => rw [hs] at ih; simp [joinSep, ih]
    · rw [if_neg h]
      split
      · rename_i f fs heq
        rw [heq] at ih
        cases fs with
        | nil => simp only [joinSep] at ih ⊢; rw [ih]
        | cons g gs => simp only [joinSep, List.cons_append] at ih ⊢; rw [ih]
      · rename_i heq; exact absurd heq (goSplit_ne_nil sep cs)

/-- **`goSplit` is THE splitting**: any non-empty list of separator-free fields whose join is `s` is
`goSplit sep s` -/
theorem goSplit_unique (sep : Char) : ∀ (s : List Char) (fs : List (List Char)), fs ≠ [] →
    (∀ f ∈ fs, sep ∉ f) → joinSep sep fs = s → fs = goSplit sep s
  | [], fs, hne, hfree, hj => by
    cases fs with
    | nil => exact absurd rfl hne
    | cons f rest =>
      cases rest with
      | nil => simp only [joinSep] at hj; subst hj; simp [goSplit]
      | cons g gs => simp [joinSep] at hj
  | c :: cs, fs, hne, hfree, hj => by
    cases fs with
    | nil => exact absurd rfl hne
    | cons f rest =>
      cases f with
      | nil =>
        -- the first field is empty: the input starts with the separator
        cases rest with
        | nil => simp [joinSep] at hj
        | cons g gs =>
          simp only [joinSep, List.nil_append, List.cons.injEq] at hj
          obtain ⟨rfl, hj⟩ := hj
          have := goSplit_unique sep cs (g :: gs) (by simp)
            (fun x hx => hfree x (by simp only [List.mem_cons] at hx ⊢; exact Or.inr hx)) hj
          unfold goSplit
          rw [if_pos rfl, ← this]
      | cons d ds =>
        have hd : d ≠ sep := by
          intro e
          exact hfree (d :: ds) (by simp) (by simp [e])
        have hdc : d = c := by
          cases rest with
          | nil => simp only [joinSep, List.cons.injEq] at hj; exact hj.1
          | cons g gs => simp only [joinSep, List.cons_append, List.cons.injEq] at hj; exact hj.1
        subst hdc
        have hj' : joinSep sep (ds :: rest) = cs := by
          cases rest with
          | nil => simp only [joinSep, List.cons.injEq] at hj ⊢; exact hj.2
          | cons g gs => simp only [joinSep, List.cons_append, List.cons.injEq] at hj ⊢; exact hj.2
        have := goSplit_unique sep cs (ds :: rest) (by simp)
          (fun x hx => by
            simp only [List.mem_cons] at hx
            rcases hx with rfl | hx
            · intro hm; exact hfree (d :: x) (by simp) (by simp [hm])
            · exact hfree x (by simp [hx])) hj'
        unfold goSplit
        rw [if_neg hd, ← this]

theorem goSplitStr_length (sep : Char) (s : String) :
    (goSplitStr sep s).length = s.toList.count sep + 1 := by
  simp [goSplitStr, goSplit_length]

/-- **an item parses only if it has exactly two `=`** (`len(dwSlice) != 3` is an error), whatever
stands between them: nothing is demanded of the label name and the label value, which may be empty -/
theorem parseEntry_three_fields {s : String} {e : BgEntry} (h : parseEntry s = some e) :
    s.toList.count '=' = 2 ∧ ∃ w, goSplitStr '=' s = [e.name, e.value, w] ∧
      (parseGoInt w).map clampWeight = some e.weight := by
  have hl := goSplitStr_length '=' s
  unfold parseEntry at h
  split at h
  · rename_i n v w heq
    rw [heq] at hl
    simp only [Option.map_eq_some_iff] at h
    obtain ⟨x, hx, rfl⟩ := h
    refine ⟨by simp at hl; omega, w, heq, ?_⟩
    simp [hx]
  · cases h

/-- more or fewer than two `=`: malformed, the whole annotation is dropped (`parseEntries_malformed`) -/
theorem parseEntry_wrong_count {s : String} (h : s.toList.count '=' ≠ 2) : parseEntry s = none := by
  cases hp : parseEntry s with
  | none => rfl
  | some e => exact absurd (parseEntry_three_fields hp).1 h

/-- **what the parser does with empty fields and repeated `=`** (the correspondence run confirms each
of these on the Go code): an empty VALUE, an empty NAME, both; four fields / an empty weight are
malformed -/
theorem parse_empty_fields :
    parseBalance "blue==3,green==1" = some [⟨"blue", "", 3⟩, ⟨"green", "", 1⟩] ∧
    parseEntry "=v=2" = some ⟨"", "v", 2⟩ ∧
    parseEntry "==7" = some ⟨"", "", 7⟩ ∧
    parseEntry "g==300" = some ⟨"g", "", 256⟩ ∧
    parseEntry "g=a=b=1" = none ∧ parseEntry "===" = none ∧ parseEntry "===1" = none ∧
    parseEntry "==" = none ∧ parseEntry "g==" = none ∧ parseEntry "=" = none ∧ parseEntry "" = none ∧
    parseBalance "blue==3,,green==1" = none ∧
    goSplitStr '=' "blue==3" = ["blue", "", "3"] ∧ goSplitStr '=' "" = [""] ∧
    goSplitStr ',' "a,,b," = ["a", "", "b", ""] := by
  decide +kernel

/-! ## the label map of a pod -/

theorem lookup_labelSet (m : List (String × String)) (k' v k : String) :
    (labelSet m k' v).lookup k = if k = k' then some v else m.lookup k := by
  unfold labelSet
  by_cases hany : m.any (·.1 == k') = true
  · rw [if_pos hany]
    induction m with
    | nil => simp at hany
    | cons p ps ih =>
      obtain ⟨a, b⟩ := p
      by_cases ha : a = k'
      · subst ha
        by_cases hk : k = a
        · subst hk; simp
        · have : (k == a) = false := by simpa using hk
          simp only [List.map_cons, beq_self_eq_true, if_true, List.lookup, this, if_neg hk]
          by_cases hany' : ps.any (·.1 == a) = true
          · have := ih hany'
            rw [if_neg hk] at this
            exact this
          · -- no further pair with that key: the map is the identity on the tail
            have hid : ps.map (fun p => if (p.1 == a) = true then (a, v) else p) = ps := by
              have : ps.map (fun p => if (p.1 == a) = true then (a, v) else p) = ps.map id := by
                apply List.map_congr_left
                intro p hp
                have hpa : (p.1 == a) = false := by
                  have := hany'
                  simp only [List.any_eq_true, not_exists, not_and] at this
                  simpa using this p hp
                simp [hpa]
              rw [this, List.map_id]
            rw [hid]
      · have hne : (a == k') = false := by simpa using ha
        have hany' : ps.any (·.1 == k') = true := by
          simpa [List.any_cons, hne] using hany
        have := ih hany'
        simp only [List.map_cons, hne, Bool.false_eq_true, if_false, List.lookup]
        by_cases hk : k = a
        · subst hk
          simp [ha]
        · have : (k == a) = false := by simpa using hk
          simp only [this]
          exact ih hany'
  · rw [if_neg hany]
    have hnone : m.lookup k' = none := by
      rw [List.lookup_eq_none_iff]
      intro p hp
      have := hany
      simp only [List.any_eq_true, not_exists, not_and] at this
      have h2 := this p hp
      simp only [bne_iff_ne, ne_eq]
      intro e
      exact h2 (by simp [e])
    rw [List.lookup_append]
    by_cases hk : k = k'
    · subst hk
      simp [hnone, List.lookup]
    · rw [if_neg hk]
      have : (k == k') = false := by simpa using hk
      cases m.lookup k <;> simp [List.lookup, this]

theorem labelsOfPairs_fold (kvs : List (String × String)) (m : List (String × String)) (k : String) :
    (kvs.foldl (fun m p => labelSet m p.1 p.2) m).lookup k = (kvs.reverse.lookup k).or (m.lookup k) := by
  induction kvs generalizing m with
  | nil => simp
  | cons p ps ih =>
    rw [List.foldl_cons, ih, lookup_labelSet]
    rw [List.reverse_cons, List.lookup_append]
    obtain ⟨a, b⟩ := p
    by_cases hk : k = a
    · subst hk
      cases ps.reverse.lookup k <;> simp [List.lookup]
    · have : (k == a) = false := by simpa using hk
      rw [if_neg hk]
      cases ps.reverse.lookup k <;> simp [List.lookup, this]

/-- **the label map the case grammar denotes**: reading name `k` gives the value of the LAST pair
named `k` (Go map assignment), `none` iff no pair is named `k` — a name is absent, present with the
empty value, or present with another value -/
theorem labelsOfPairs_lookup (kvs : List (String × String)) (k : String) :
    labelGet (labelsOfPairs kvs) k = kvs.reverse.lookup k := by
  unfold labelGet labelsOfPairs
  rw [labelsOfPairs_fold]
  simp [List.lookup]

/-! ## the matching relation -/

/-- **an entry matches a pod iff the label is PRESENT and equal** — for every label map and every
entry, the empty name and the empty value included -/
theorem bgLabelMatch_iff (e : BgEntry) (ep : BgEp) :
    bgLabelMatch e ep = true ↔ ∃ ls, ep.labels = some ls ∧ labelGet ls e.name = some e.value := by
  unfold bgLabelMatch
  cases hl : ep.labels with
  | none => simp
  | some ls =>
    cases hg : labelGet ls e.name with
    | none => simp [hg]
    | some v => simp [hg]

/-- a pod that LACKS the label matches no entry of that name, whatever the entry's value -/
theorem bg_absent_no_match (e : BgEntry) (ep : BgEp) (ls : List (String × String))
    (hl : ep.labels = some ls) (ha : labelGet ls e.name = none) : bgLabelMatch e ep = false := by
  simp [bgLabelMatch, hl, ha]

/-- a pod that CARRIES the label with the empty value matches the entry declared with the empty
value: present-with-`""` is not absent -/
theorem bg_present_empty_matches (e : BgEntry) (ep : BgEp) (ls : List (String × String))
    (hl : ep.labels = some ls) (hp : labelGet ls e.name = some "") (hv : e.value = "") :
    bgLabelMatch e ep = true := by
  simp [bgLabelMatch, hl, hp, hv]

/-- a pod carrying the label with ANOTHER value does not match -/
theorem bg_present_other_no_match (e : BgEntry) (ep : BgEp) (ls : List (String × String)) (v : String)
    (hl : ep.labels = some ls) (hp : labelGet ls e.name = some v) (hv : v ≠ e.value) :
    bgLabelMatch e ep = false := by
  simp [bgLabelMatch, hl, hp, hv]

/-- the pod lacks the label of every entry (or the server has no pod) -/
def BgLacksAll (entries : List BgEntry) (ep : BgEp) : Prop :=
  ∀ e ∈ entries, ∀ ls, ep.labels = some ls → labelGet ls e.name = none

theorem bgLacksAll_no_match {entries : List BgEntry} {ep : BgEp} (h : BgLacksAll entries ep) :
    ∀ e ∈ entries, bgLabelMatch e ep = false := by
  intro e he
  cases hl : ep.labels with
  | none => simp [bgLabelMatch, hl]
  | some ls => exact bg_absent_no_match e ep ls hl (h e he ls hl)

/-- **`unmatched_zero`, core form, both modes**: a server whose pod lacks the label of every entry is
written 0 — whatever the entries' VALUES are (the empty value included), whatever their weights,
whatever the other servers -/
theorem unmatched_zero_core (mode : String) (initial : Int) (entries : List BgEntry) (eps : List BgEp)
    (p : BgEp × Int) (hp : p ∈ eps.zip (bgCore mode initial entries eps))
    (h : BgLacksAll entries p.1) : p.2 = 0 :=
  bg_no_group_zero mode initial entries eps p hp fun e he => by
    simp [bgMember, bgLacksAll_no_match h e he]

/-- **`unmatched_zero`**: once the annotation parses, a server whose pod lacks the label of every
entry gets weight 0, in every mode, for every `initial-weight` — full strength: nothing is assumed
about the values of the entries (`blue==3,green==1` selects by the EMPTY value; an unlabelled pod is
still in no group) -/
theorem unmatched_zero (i : BgIn) (entries : List BgEntry) (he : bgEntries i.ann = some entries)
    (p : BgEp × Int) (hp : p ∈ i.eps.zip (bgRun i)) (h : BgLacksAll entries p.1) : p.2 = 0 :=
  bg_unmatched_zero i entries he p hp (bgLacksAll_no_match h)

/-- and the Spec's clause agrees: such a server has no matching entry, so `bgOracleCore` demands 0 -/
theorem unmatched_matching_nil (initial : Int) (entries : List BgEntry) (ep : BgEp)
    (h : BgLacksAll entries ep) : bgMatching initial entries ep = [] := by
  unfold bgMatching
  rw [List.filter_eq_nil_iff]
  intro e he
  simp [bgMember, bgLacksAll_no_match h e he]

/-- **the property's zero clause in terms of the label map** (mode deploy, servers of at most one
group, `BgWF`): the weight written is 0 exactly when the server is draining, or NO entry names a label
that is present in its pod with the entry's value, or the entry that does has configured weight 0 -/
theorem bg_zero_iff_labels {mode : String} (hmode : mode ≠ "pod") {initial : Int} {entries : List BgEntry}
    (h : BgWF initial entries) (eps : List BgEp) (p : BgEp × Int)
    (hp : p ∈ eps.zip (bgCore mode initial entries eps))
    (hone : ∀ e₁ ∈ entries, ∀ e₂ ∈ entries, bgMember initial e₁ p.1 = true → bgMember initial e₂ p.1 = true → e₁ = e₂) :
    p.2 = 0 ↔ (bgCur initial p.1 = 0 ∨
      (∀ e ∈ entries, ¬ ∃ ls, p.1.labels = some ls ∧ labelGet ls e.name = some e.value) ∨
      ∃ e ∈ entries, (∃ ls, p.1.labels = some ls ∧ labelGet ls e.name = some e.value) ∧ e.weight = 0) := by
  rw [bg_zero_iff_single hmode h eps p hp hone]
  simp only [← bgLabelMatch_iff, Bool.not_eq_true]

/-! ## the seeded variant: `pod.Labels[name] == value` -/

/-- the parameterised function instantiated with the code's matching IS the model of the code -/
theorem bgRunM_code : bgRunM bgLabelMatch = bgRun := rfl

theorem bgCoreM_code : bgCoreM bgLabelMatch = bgCore := rfl

/-- the variant differs from the code exactly on an ABSENT label against the EMPTY value -/
theorem loose_differs_iff (e : BgEntry) (ep : BgEp) :
    bgLabelMatchLoose e ep ≠ bgLabelMatch e ep ↔
      ∃ ls, ep.labels = some ls ∧ labelGet ls e.name = none ∧ e.value = "" := by
  unfold bgLabelMatchLoose bgLabelMatch
  cases hl : ep.labels with
  | none => simp
  | some ls =>
    simp only [ne_eq, Option.some.injEq, exists_eq_left']
    cases hg : labelGet ls e.name with
    | some v => simp
    | none =>
      simp only [Option.getD_none, true_and]
      by_cases hv : e.value = ""
      · simp [hv]
      · have : ("" == e.value) = false := by
          rw [beq_eq_false_iff_ne]; exact fun h => hv h.symm
        simp [this, hv]

theorem loose_eq_of_value_ne_empty (e : BgEntry) (ep : BgEp) (hv : e.value ≠ "") :
    bgLabelMatchLoose e ep = bgLabelMatch e ep := by
  by_contra h
  obtain ⟨_, _, _, h0⟩ := (loose_differs_iff e ep).1 h
  exact hv h0

/-- there the variant says MATCH and the code says no match -/
theorem loose_matches_unlabelled (e : BgEntry) (ep : BgEp) (ls : List (String × String))
    (hl : ep.labels = some ls) (ha : labelGet ls e.name = none) (hv : e.value = "") :
    bgLabelMatchLoose e ep = true ∧ bgLabelMatch e ep = false := by
  simp [bgLabelMatchLoose, bgLabelMatch, hl, ha, hv]

/-- the function depends on the matching condition only through the (entry, server) pairs of the case -/
theorem bgCoreM_congr (m m' : BgMatch) (mode : String) (initial : Int) (entries : List BgEntry)
    (eps : List BgEp) (h : ∀ e ∈ entries, ∀ ep ∈ eps, m e ep = m' e ep) :
    bgCoreM m mode initial entries eps = bgCoreM m' mode initial entries eps := by
  have hmem : ∀ e ∈ entries, ∀ ep ∈ eps, bgMemberM m initial e ep = bgMemberM m' initial e ep := by
    intro e he ep hep
    simp [bgMemberM, h e he ep hep]
  have hcl : bgClustersM m initial entries eps = bgClustersM m' initial entries eps := by
    unfold bgClustersM
    apply List.map_congr_left
    intro e he
    have : eps.filter (bgMemberM m initial e) = eps.filter (bgMemberM m' initial e) :=
      List.filter_congr fun ep hep => hmem e he ep hep
    rw [this]
  unfold bgCoreM
  split
  · apply List.map_congr_left
    intro ep hep
    unfold bgPodWeightM
    have : (entries.filter fun e => bgMemberM m initial e ep) = entries.filter fun e => bgMemberM m' initial e ep :=
      List.filter_congr fun e he => hmem e he ep hep
    rw [this]
  · simp only
    rw [hcl]
    apply List.map_congr_left
    intro ep hep
    unfold bgDeployWeightM
    have : ((entries.zip (rebalance (bgClustersM m' initial entries eps) initial)).filter
          fun p => bgMemberM m initial p.1 ep)
        = (entries.zip (rebalance (bgClustersM m' initial entries eps) initial)).filter
          fun p => bgMemberM m' initial p.1 ep :=
      List.filter_congr fun p hp => hmem p.1 (List.of_mem_zip hp).1 ep hep
    rw [this]

/-- **why the seed was invisible**: when no entry is declared with the empty value — every case the
generator fed before, every test and documented example of the repository — the variant and the code
compute the same weights for every server, in every mode -/
theorem seed_invisible_without_empty_values (mode : String) (initial : Int) (entries : List BgEntry)
    (eps : List BgEp) (h : ∀ e ∈ entries, e.value ≠ "") :
    bgCoreM bgLabelMatchLoose mode initial entries eps = bgCore mode initial entries eps := by
  rw [← bgCoreM_code]
  exact bgCoreM_congr _ _ mode initial entries eps fun e he ep _ => loose_eq_of_value_ne_empty e ep (h e he)

/-- … and likewise when every pod carries the label of every entry -/
theorem seed_invisible_when_labels_present (mode : String) (initial : Int) (entries : List BgEntry)
    (eps : List BgEp)
    (h : ∀ e ∈ entries, ∀ ep ∈ eps, ∀ ls, ep.labels = some ls → labelGet ls e.name ≠ none) :
    bgCoreM bgLabelMatchLoose mode initial entries eps = bgCore mode initial entries eps := by
  rw [← bgCoreM_code]
  refine bgCoreM_congr _ _ mode initial entries eps fun e he ep hep => ?_
  by_contra hne
  obtain ⟨ls, hl, ha, _⟩ := (loose_differs_iff e ep).1 hne
  exact h e he ep hep ls hl ha

def podBlueMarker : BgEp := ⟨false, some [("blue", "")]⟩
def podGreenMarker : BgEp := ⟨false, some [("green", "")]⟩
def podUnlabelled : BgEp := ⟨false, some []⟩
def markerIn (mode : String) : BgIn :=
  ⟨mode, 100, some "blue==3,green==1", [podBlueMarker, podBlueMarker, podGreenMarker, podUnlabelled]⟩

/-- **the seeded variant C16f breaks the zero clause and the shares** on `blue-green-balance:
"blue==3,green==1"`, initial-weight 100, two pods labelled `blue: ""`, one `green: ""`, one without
group label.  The code: groups of 2 and 1 members, vector (3,2),(1,1), weights 150 150 100 and 0 for
the unlabelled pod (pod mode 3 3 1 0); the Spec accepts.  The variant (`lookup-or-empty == value`):
every pod lacks at least one of the two labels and so matches that entry too: all four pods are
members of BOTH groups, vector (3,4),(1,4), the last entry wins: 85 85 85 85 (pod mode 1 1 1 1),
the pod of no group gets a quarter of the traffic and blue:green is 2:1; the Spec says
`bg-unmatched-not-zero`. -/
theorem seed_lookup_or_empty_breaks_unmatched_zero :
    bgEntries (markerIn "").ann = some [⟨"blue", "", 3⟩, ⟨"green", "", 1⟩] ∧
    BgLacksAll [⟨"blue", "", 3⟩, ⟨"green", "", 1⟩] podUnlabelled ∧
    bgRun (markerIn "") = [150, 150, 100, 0] ∧ bgRun (markerIn "pod") = [3, 3, 1, 0] ∧
    bgOracle (markerIn "") (bgRun (markerIn "")) = none ∧
    bgOracle (markerIn "pod") (bgRun (markerIn "pod")) = none ∧
    bgClustersM bgLabelMatchLoose 100 [⟨"blue", "", 3⟩, ⟨"green", "", 1⟩] (markerIn "").eps = [⟨3, 4⟩, ⟨1, 4⟩] ∧
    bgRunM bgLabelMatchLoose (markerIn "") = [85, 85, 85, 85] ∧
    bgRunM bgLabelMatchLoose (markerIn "pod") = [1, 1, 1, 1] ∧
    bgOracle (markerIn "") (bgRunM bgLabelMatchLoose (markerIn "")) = some "bg-unmatched-not-zero" ∧
    bgOracle (markerIn "pod") (bgRunM bgLabelMatchLoose (markerIn "pod")) = some "bg-unmatched-not-zero" := by
  refine ⟨by decide +kernel, ?_, by decide +kernel, by decide +kernel, by decide +kernel, by decide +kernel,
    by decide +kernel, by decide +kernel, by decide +kernel, by decide +kernel, by decide +kernel⟩
  intro e _ ls hl
  simp only [podUnlabelled, Option.some.injEq] at hl
  subst hl
  rfl

/-- the smallest input: ONE entry with the empty value, one pod without the label -/
theorem seed_lookup_or_empty_minimal :
    bgRun ⟨"pod", 1, some "blue==3", [podUnlabelled]⟩ = [0] ∧
    bgRunM bgLabelMatchLoose ⟨"pod", 1, some "blue==3", [podUnlabelled]⟩ = [3] ∧
    bgRun ⟨"", 1, some "blue==3", [podUnlabelled]⟩ = [0] ∧
    bgRunM bgLabelMatchLoose ⟨"", 1, some "blue==3", [podUnlabelled]⟩ = [1] ∧
    bgOracle ⟨"", 1, some "blue==3", [podUnlabelled]⟩ [1] = some "bg-unmatched-not-zero" ∧
    -- the empty NAME behaves like any other name
    bgRun ⟨"pod", 1, some "==3", [podUnlabelled, ⟨false, some [("", "")]⟩, ⟨false, some [("", "x")]⟩]⟩ = [0, 3, 0] ∧
    bgRunM bgLabelMatchLoose ⟨"pod", 1, some "==3", [podUnlabelled, ⟨false, some [("", "")]⟩, ⟨false, some [("", "x")]⟩]⟩
      = [3, 3, 0] := by
  decide +kernel

/-! ## the caller theorems on empty values and names (non-vacuity) -/

/-- `BgLacksAll` is inhabited with an entry of empty value, and refuted by a pod carrying the label
with the empty value -/
example : BgLacksAll [⟨"blue", "", 3⟩, ⟨"", "", 1⟩] ⟨false, some [("green", "")]⟩ := by
  intro e he ls hl
  simp only [Option.some.injEq] at hl
  subst hl
  simp only [List.mem_cons, List.mem_nil_iff, or_false] at he
  rcases he with rfl | rfl <;> rfl

example : ¬ BgLacksAll [⟨"blue", "", 3⟩] podBlueMarker := by
  intro h
  have := h ⟨"blue", "", 3⟩ (by simp) [("blue", "")] rfl
  revert this
  decide +kernel

/-- `bg_pod_weight`, `bg_zero_iff_single`, `bg_deploy_weight` instantiated on marker labels: the pod
labelled `blue: ""` is the single member… of the group `blue==3` and nothing else -/
example : BgSingle 100 [⟨"blue", "", 3⟩, ⟨"green", "", 1⟩] podBlueMarker ⟨"blue", "", 3⟩ := by
  refine ⟨by simp, by decide +kernel, ?_⟩
  intro e he hm
  simp only [List.mem_cons, List.mem_nil_iff, or_false] at he
  rcases he with rfl | rfl
  · rfl
  · revert hm; decide +kernel

example : (bgMatching 100 [⟨"blue", "", 3⟩, ⟨"green", "", 1⟩] podBlueMarker).getLast? = some ⟨"blue", "", 3⟩ ∧
    bgMatching 100 [⟨"blue", "", 3⟩, ⟨"green", "", 1⟩] podUnlabelled = [] ∧
    bgLabelMatch ⟨"", "", 1⟩ ⟨false, some [("", "")]⟩ = true ∧
    bgLabelMatch ⟨"", "", 1⟩ ⟨false, some [("x", "")]⟩ = false ∧
    bgLabelMatch ⟨"g", "", 1⟩ ⟨false, some [("g", "a")]⟩ = false ∧
    bgLabelMatch ⟨"g", "a", 1⟩ ⟨false, some [("g", "")]⟩ = false ∧
    labelsOfPairs [("g", "a"), ("v", ""), ("g", "")] = [("g", ""), ("v", "")] := by
  decide +kernel

/-- regenerated from the Go source on every run: in `buildBackendBlueGreenBalance` the pod's label
is read by a comma-ok lookup keyed by the entry's label name whose `found` result guards the match,
and the value is compared with the entry's label value by `==` inside that guard — the matching
condition of `bgLabelMatch`, not `bgLabelMatchLoose` -/
theorem facts_c16_label_match :
    Facts.c16BlueGreenMatchCommaOk = true ∧ Facts.c16BlueGreenMatchEq = true := by decide

end HapVerif.C16
