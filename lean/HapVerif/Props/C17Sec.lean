import HapVerif.Props.C17
import HapVerif.Model.C17Sec
/-!
# C17 — the Secret behind "missing or unreadable"

`Props/C17.lean` (a) proves `sign_iff` for an abstract secret state (`Secret.missing` = "the getter
returned an error"). This file proves what stands behind that bit: the model `readP` of
`cache.go GetTLSSecretContent` over the Secret as a structure (type, bytes under `tls.crt`, `tls.key`,
`ca.crt`, extra keys), and `usable` = the controller's own `GetTLSSecretPath` accepts the secret.
Tied to the Go code by the `vsec` mode of `harness/c17`: the real `createCacheFacade` over a
controller-runtime fake client, the real signer on top, `use=` observed through the real
`GetTLSSecretPath` of the same facade.

* `decision_type_independent`, `usable_type_independent`, `decision_ignores_unrelated_keys`: for ALL
  inputs, two Secrets that differ only in `.type` (only in unrelated keys) get the same verdict, the same
  calls, the same object afterwards.
* `reader_accepts_iff_loadable`: the reader of the code that exists (`validateCrtAndKey`, repair d4cef7d) hands
  out a certificate exactly when the controller's loader (`GetTLSSecretPath`) accepts the Secret, for every Secret
  and time — "unreadable" for the signer is "HAProxy cannot be given it".
* `code_never_panics`, `sec_refines_verify`, `sec_sign_iff`: the decision over the structure is the abstract
  `notify` on the read result; `Sign` is called iff the controller could not load the Secret / expiring / not covering.
* `spec_holds`: full strength — the Spec (`oracleSec`) holds on every input with a declared name.
* four defects found by this check were repaired in /repo (bae2aa9 `panic-on-empty-tls-crt`, bffe88a
  `unusable-secret-not-requested`, d4cef7d `secret-with-unverifiable-ca-not-requested` and
  `secret-with-stray-text-after-key-not-requested`); the former readers are `ReadPolicy` parameters with
  kernel-checked witnesses (`empty_crt_panicked_old`, `unusable_key_not_requested_old`,
  `unverifiable_ca_not_requested_old`, `stray_text_after_key_not_requested_old`), the replays stay in the corpus.
* `type_sensitive_reader_rerequests_valid_certificate`: the reader that refuses Secrets whose type is not
  kubernetes.io/tls (seed C17f) re-requests a valid, covering, far from expiring certificate kept in an
  Opaque Secret; `type_sensitive_reader_same_on_tls_secrets`: it cannot be told from the code as long
  as every Secret has type kubernetes.io/tls.
-/
namespace HapVerif.C17

/-! ## the verdict does not depend on the Secret's type -/

theorem read_type_independent (now : Int) (s : Sec) (t : SType) :
    readP .code now (some { s with type := t }) = readP .code now (some s) := by
  simp [readP, ReadPolicy.code, validate]

theorem usable_type_independent (now : Int) (s : Sec) (t : SType) :
    usable now (some { s with type := t }) = usable now (some s) := by
  simp [usable, validate]

/-- **decision_type_independent**: Secrets that differ only in `.type` get the same verdict — the same
`Sign` / `SetTLSSecretContent` calls, error, metric, the same `GetTLSSecretPath` verdict, the same object
afterwards — for every content, time, window, declared set and `Sign` result. -/
theorem decision_type_independent (i : SIn) (s : Sec) (t : SType) (h : i.sec = some s) :
    notifySec { i with sec := some { s with type := t } } = notifySec i := by
  simp only [notifySec, notifySecP, h, read_type_independent, usable_type_independent, SIn.toVIn, afterOf,
    Option.isSome_some]

/-- the Spec verdict on the outcome is the same as well -/
theorem oracle_type_independent (i : SIn) (s : Sec) (t : SType) (h : i.sec = some s) :
    oracleSec { i with sec := some { s with type := t } } (notifySec { i with sec := some { s with type := t } }) =
      oracleSec i (notifySec i) := by
  rw [decision_type_independent i s t h]
  simp [oracleSec, neededSec, certLooksValid, unusableClause, h]

theorem read_ignores_unrelated_keys (now : Int) (s : Sec) (x : Bool) :
    readP .code now (some { s with extra := x }) = readP .code now (some s) := by
  simp [readP, ReadPolicy.code, validate]

theorem usable_ignores_unrelated_keys (now : Int) (s : Sec) (x : Bool) :
    usable now (some { s with extra := x }) = usable now (some s) := by
  simp [usable, validate]

/-- unrelated keys next to `tls.crt`/`tls.key`/`ca.crt` play no part -/
theorem decision_ignores_unrelated_keys (i : SIn) (s : Sec) (x : Bool) (h : i.sec = some s) :
    notifySec { i with sec := some { s with extra := x } } = notifySec i := by
  simp only [notifySec, notifySecP, h, read_ignores_unrelated_keys, usable_ignores_unrelated_keys, SIn.toVIn, afterOf,
    Option.isSome_some]

def exOpaque (c : CaSt) : SIn :=
  { acct := true, sec := some { type := .opaque, crt := .cert 100 [["a", "x"]], key := .ok, ca := c },
    now := 0, window := 10, declared := [["a", "x"]], sign := ⟨true, true, false⟩, setErr := false }

example : notifySec (exOpaque .absent) =
    some { usable := true, after := .old,
           out := { got := true, signed := none, written := false, err := false, metric := none } } := by decide

/-! ## the structure refines the abstract signer model -/

/-- what the abstract model `notify` is given -/
def absSecret (i : SIn) : Secret := (readP .code i.now i.sec).toSecret

/-- only the reader of before bae2aa9 hands out a nil certificate -/
theorem readP_nil (p : ReadPolicy) (now : Int) (o : Option Sec) (h : readP p now o = .nilCrt) : p.nilOnEmpty = true := by
  cases o with
  | none => simp [readP] at h
  | some s =>
    simp only [readP] at h
    split at h
    · cases h
    · cases hc : s.crt with
      | absent => simp [hc] at h
      | bad => simp [hc] at h
      | empty =>
        cases hn : p.nilOnEmpty with
        | true => rfl
        | false => simp [hc, hn] at h
      | cert na sans =>
        simp only [hc] at h
        cases hk : p.check <;> simp only [hk] at h <;> (try split at h) <;> cases h

/-- the length tests of `getCertificate` add nothing to `validateCrtAndKey` -/
theorem usable_eq_validate (now : Int) (s : Sec) : usable now (some s) = (validate now s).isSome := by
  unfold usable validate
  cases hc : s.crt <;> cases hk : s.key <;> simp [hc, hk, keyPemOk, keyPairOk]

/-- **reader_accepts_iff_loadable**: `GetTLSSecretContent` hands out a certificate exactly when `GetTLSSecretPath`
accepts the Secret (and then it is the certificate under `tls.crt`), for every Secret — of any type — and time. -/
theorem reader_accepts_iff_loadable (now : Int) (o : Option Sec) :
    (∃ na sans, readP .code now o = .crt na sans) ↔ usable now o = true := by
  cases o with
  | none => simp [readP, usable]
  | some s =>
    rw [usable_eq_validate]
    cases hc : s.crt with
    | absent => simp [readP, ReadPolicy.code, validate, hc]
    | empty => simp [readP, ReadPolicy.code, validate, hc]
    | bad => simp [readP, ReadPolicy.code, validate, hc]
    | cert na sans =>
      cases hv : (validate now s).isSome <;> simp [readP, ReadPolicy.code, hc, hv]

/-- **sec_refines_verify** (with `code_never_panics`): the outcome over the Secret structure is the abstract
`notify` on the read result, for every input — every theorem of `Props/C17.lean` (a) (`sign_iff`, boundaries,
`store_only_both`, …) carries over. -/
theorem sec_refines_verify (i : SIn) :
    notifySec i = some { usable := usable i.now i.sec, out := notify (i.toVIn (absSecret i)),
                         after := afterOf i (notify (i.toVIn (absSecret i))) } := by
  unfold notifySec notifySecP absSecret
  have hn : (i.acct && readP .code i.now i.sec == .nilCrt) = false := by
    cases hr : (readP .code i.now i.sec == .nilCrt) with
    | false => simp
    | true =>
      have := readP_nil .code i.now i.sec (by simpa using hr)
      simp [ReadPolicy.code] at this
  simp [hn]

/-- **code_never_panics**: no Secret content makes `Notify` dereference a nil certificate (repair bae2aa9) -/
theorem code_never_panics (i : SIn) : (notifySec i).isSome = true := by
  rw [sec_refines_verify]; rfl

theorem absSecret_cert_iff (i : SIn) (na : Int) (sans : List Name) :
    absSecret i = .cert na sans ↔ ∃ s, i.sec = some s ∧ s.crt = .cert na sans ∧ usable i.now (some s) = true := by
  unfold absSecret
  cases hs : i.sec with
  | none => simp [readP, Read.toSecret]
  | some s =>
    have hu := usable_eq_validate i.now s
    cases hc : s.crt with
    | cert na' sans' =>
      cases hv : (validate i.now s).isSome <;> simp [readP, Read.toSecret, ReadPolicy.code, hc, hv, hu]
    | absent => simp [readP, Read.toSecret, ReadPolicy.code, hc]
    | empty => simp [readP, Read.toSecret, ReadPolicy.code, hc]
    | bad => simp [readP, Read.toSecret, ReadPolicy.code, hc]

/-- a loadable Secret has a certificate under `tls.crt` -/
theorem usable_has_cert (now : Int) (s : Sec) (h : usable now (some s) = true) : ∃ na sans, s.crt = .cert na sans := by
  rw [usable_eq_validate] at h
  cases hc : s.crt with
  | cert na sans => exact ⟨na, sans, rfl⟩
  | absent => simp [validate, hc] at h
  | empty => simp [validate, hc] at h
  | bad => simp [validate, hc] at h

theorem absSecret_missing_iff (i : SIn) : absSecret i = .missing ↔ usable i.now i.sec = false := by
  constructor
  · intro h
    cases hu : usable i.now i.sec with
    | false => rfl
    | true =>
      cases hs : i.sec with
      | none => simp [hs, usable] at hu
      | some s =>
        rw [hs] at hu
        obtain ⟨na, sans, hc⟩ := usable_has_cert i.now s hu
        rw [(absSecret_cert_iff i na sans).2 ⟨s, hs, hc, hu⟩] at h
        cases h
  · intro h
    cases ha : absSecret i with
    | missing => rfl
    | cert na sans =>
      obtain ⟨s, hs, _, hu⟩ := (absSecret_cert_iff i na sans).1 ha
      rw [hs, hu] at h
      cases h

/-- **sec_sign_iff**: over the real reader, for every Secret, type, time, window and `Sign` result:
`Client.Sign` is called iff (account and) the controller could not load the Secret as a certificate (no such
Secret included), or `NotAfter < now + window`, or a declared name is not covered. -/
theorem sec_sign_iff (i : SIn) (hd : i.declared ≠ []) :
    ∃ o, notifySec i = some o ∧
      (o.out.signed.isSome = true ↔ i.acct = true ∧
        (usable i.now i.sec = false ∨
          ∃ s na sans, i.sec = some s ∧ s.crt = .cert na sans ∧
            (na < i.now + i.window ∨ ∃ d ∈ i.declared, covered sans d = false))) := by
  refine ⟨_, sec_refines_verify i, ?_⟩
  show (notify (i.toVIn (absSecret i))).signed.isSome = true ↔ _
  rw [sign_iff _ (by simpa [SIn.toVIn] using hd)]
  simp only [SIn.toVIn]
  rw [absSecret_missing_iff i]
  constructor
  · rintro ⟨ha, h⟩
    refine ⟨ha, ?_⟩
    rcases h with h | ⟨na, sans, hc, h⟩
    · exact Or.inl h
    · obtain ⟨s, hs, hc, _⟩ := (absSecret_cert_iff i na sans).1 hc
      exact Or.inr ⟨s, na, sans, hs, hc, h⟩
  · rintro ⟨ha, h⟩
    refine ⟨ha, ?_⟩
    rcases h with h | ⟨s, na, sans, hs, hc, h⟩
    · exact Or.inl h
    · cases hu : usable i.now i.sec with
      | false => exact Or.inl rfl
      | true =>
        rw [hs] at hu
        exact Or.inr ⟨na, sans, (absSecret_cert_iff i na sans).2 ⟨s, hs, hc, hu⟩, h⟩

/-- what is left in the API: the issued pair in a kubernetes.io/tls Secret iff the write was made and
accepted, otherwise the object is as it was -/
theorem after_new_iff (p : ReadPolicy) (i : SIn) (o : SOut) (h : notifySecP p i = some o) :
    (o.after = .new ↔ o.out.written = true ∧ i.setErr = false) ∧
    (o.after ≠ .new → o.after = if i.sec.isSome then .old else .none) := by
  simp only [notifySecP] at h
  split at h
  · cases h
  · simp only [Option.some.injEq] at h
    subst h
    simp only [afterOf]
    cases hw : (notify (i.toVIn (readP p i.now i.sec).toSecret)).written <;> cases hs : i.setErr <;>
      cases hsec : i.sec <;> simp

/-! ## Spec -/

/-- **spec_holds** (full strength): for every input with a declared name the outcome of the code meets the Spec:
requested iff missing / the controller could not load it / expiring / not covering, whatever the type; written iff
`Sign` gave both parts; the declared names are requested; the object afterwards is the issued pair or untouched. -/
theorem spec_holds (i : SIn) (hd : i.declared ≠ []) : oracleSec i (notifySec i) = none := by
  rw [sec_refines_verify i]
  have hd' : (i.toVIn (absSecret i)).declared ≠ [] := by simpa [SIn.toVIn] using hd
  -- "needed" of the Spec = "needed" of the abstract model
  have hneed : neededSec i (usable i.now i.sec) = needed (i.toVIn (absSecret i)) := by
    cases ha : absSecret i with
    | missing =>
      have hu := (absSecret_missing_iff i).1 ha
      simp [neededSec, needed, SIn.toVIn, hu]
    | cert na sans =>
      obtain ⟨s, hs, hc, hu⟩ := (absSecret_cert_iff i na sans).1 ha
      simp only [neededSec, needed, certLooksValid, SIn.toVIn, hu, hs, hc, Bool.not_true, Bool.false_or, Bool.not_and,
        Bool.not_not]
      rw [Bool.eq_iff_iff]
      simp only [Bool.or_eq_true, decide_eq_true_eq, Bool.not_eq_true', List.all_eq_false, Bool.not_eq_true]
      exact or_congr decide_eq_true_iff.symm Iff.rfl
  have hsig := sign_iff (i.toVIn (absSecret i)) hd'
  rw [← needed_iff] at hsig
  have hst := store_only_both (i.toVIn (absSecret i))
  have hdom := signed_domains (i.toVIn (absSecret i))
  have hnone := no_account_nothing (i.toVIn (absSecret i))
  generalize hN : notify (i.toVIn (absSecret i)) = N at *
  simp only [oracleSec, hneed]
  have hacct : (i.toVIn (absSecret i)).acct = i.acct := rfl
  have hdecl : (i.toVIn (absSecret i)).declared = i.declared := rfl
  have hsgn : (i.toVIn (absSecret i)).sign = i.sign := rfl
  rw [hacct] at hsig hnone
  rw [hsgn] at hst
  cases ha : i.acct with
  | false =>
    have := hnone ha
    simp [this]
  | true =>
    simp only [ha, true_and] at hsig
    cases hn : needed (i.toVIn (absSecret i)) with
    | false =>
      have hs0 : N.signed.isSome = false := by
        cases h : N.signed.isSome with
        | false => rfl
        | true => rw [hsig.1 h] at hn; cases hn
      have hw0 : N.written = false := by
        cases h : N.written with
        | false => rfl
        | true => rw [(hst.1 h).1] at hs0; cases hs0
      have hs1 : N.signed = none := by
        cases h : N.signed with
        | none => rfl
        | some _ => simp [h] at hs0
      cases hsec : i.sec <;> simp [hs1, hw0, afterOf, hsec]
    | true =>
      have hs0 : N.signed.isSome = true := hsig.2 hn
      obtain ⟨ds, hds⟩ := Option.isSome_iff_exists.1 hs0
      have hdd : ds = i.declared := by
        rw [hdom ds hds, itemDomains_of_ne hd', hdecl]
      subst hdd
      cases hw : N.written with
      | false =>
        cases hsec : i.sec <;> simp [hds, hw, afterOf, hsec]
      | true =>
        have := hst.1 hw
        cases hse : i.setErr <;> cases hsec : i.sec <;> simp [hds, hw, afterOf, hsec, this.2.1, this.2.2, hse]

/-- non-vacuity: nothing is requested for a valid pair (also with a `ca.crt` that verifies), a request is made
once it has expired (`now = 200`), and both outcomes are judged fine -/
example : oracleSec (exOpaque .absent) (notifySec (exOpaque .absent)) = none ∧
    (notifySec (exOpaque .self)).map (·.out.signed) = some none ∧
    (notifySec { exOpaque .absent with now := 200 }).map (·.out.signed) = some (some [["a", "x"]]) ∧
    oracleSec { exOpaque .absent with now := 200 } (notifySec { exOpaque .absent with now := 200 }) = none := by decide

/-- a certificate that parses, is far from expiring and covers the names, with key `k` and `ca.crt` state `c` -/
def unusableWitness (k : KeySt) (c : CaSt) : SIn :=
  { acct := true, sec := some { type := .tls, crt := .cert 100 [["a", "x"]], key := k, ca := c }, now := 0, window := 10,
    declared := [["a", "x"]], sign := ⟨true, true, false⟩, setErr := false }

/-- whatever spoils the Secret for the controller — key absent, empty, not a key, of another pair, followed by
stray text, or a `ca.crt` that does not verify — the certificate is requested again -/
theorem unusable_secret_requested :
    (∀ k ∈ [KeySt.absent, .empty, .bad, .other, .stray], ∀ c ∈ [CaSt.absent, .bad, .self],
      (notifySec (unusableWitness k c)).map (·.usable) = some false ∧
      (notifySec (unusableWitness k c)).map (·.out.signed) = some (some [["a", "x"]])) ∧
    (notifySec (unusableWitness .ok .bad)).map (·.usable) = some false ∧
    (notifySec (unusableWitness .ok .bad)).map (·.out.signed) = some (some [["a", "x"]]) ∧
    (notifySec { unusableWitness .ok .self with now := 101, window := -5 }).map (·.usable) = some false ∧
    (notifySec { unusableWitness .ok .self with now := 101, window := -5 }).map (·.out.signed) = some (some [["a", "x"]]) ∧
    (∀ c ∈ [CaSt.absent, .self],
      (notifySec (unusableWitness .ok c)).map (·.usable) = some true ∧
      (notifySec (unusableWitness .ok c)).map (·.out.signed) = some none) := by decide

/-! ### the readers before the repairs (historical witnesses; the replays stay in the corpus) -/

def emptyCrtWitness : SIn :=
  { acct := true, sec := some { type := .tls, crt := .empty, key := .ok }, now := 0, window := 10,
    declared := [["a", "x"]], sign := ⟨true, true, false⟩, setErr := false }

/-- before bae2aa9: zero bytes under `tls.crt` made `checkValidCertPEM` return `(nil, nil)`, `GetTLSSecretContent`
handed out `TLSSecret{Crt: nil}` without an error and `verify` dereferenced it; now the certificate is requested -/
theorem empty_crt_panicked_old :
    notifySecP { nilOnEmpty := true, check := .none } emptyCrtWitness = none ∧
    oracleSec emptyCrtWitness (notifySecP { nilOnEmpty := true, check := .none } emptyCrtWitness) =
      some "panic-on-empty-tls-crt" ∧
    (notifySec emptyCrtWitness).map (·.out.signed) = some (some [["a", "x"]]) ∧
    oracleSec emptyCrtWitness (notifySec emptyCrtWitness) = none := by decide

/-- before bffe88a: `GetTLSSecretContent` only read `tls.crt`; a fine certificate next to an absent / empty /
unparsable / foreign `tls.key` was "up to date" although the controller could not load the secret -/
theorem unusable_key_not_requested_old :
    ∀ k ∈ [KeySt.absent, .empty, .bad, .other],
      oracleSec (unusableWitness k .absent) (notifySecP { check := .none } (unusableWitness k .absent)) =
        some "unusable-secret-not-requested" := by decide

/-- between bffe88a and d4cef7d (`tls.X509KeyPair` only): a usable pair next to a `ca.crt` that does not verify the
chain (garbage; or the chain has expired while the window is negative) — `buildCertFromCrtAndKey` refused the secret,
the reader never read `ca.crt` -/
theorem unverifiable_ca_not_requested_old :
    oracleSec (unusableWitness .ok .bad) (notifySecP { check := .pair } (unusableWitness .ok .bad)) =
      some "secret-with-unverifiable-ca-not-requested" ∧
    oracleSec { unusableWitness .ok .self with now := 101, window := -5 }
        (notifySecP { check := .pair } { unusableWitness .ok .self with now := 101, window := -5 }) =
      some "secret-with-unverifiable-ca-not-requested" ∧
    (∀ k ∈ [KeySt.absent, .empty, .bad, .other], ∀ c ∈ [CaSt.absent, .bad, .self],
      oracleSec (unusableWitness k c) (notifySecP { check := .pair } (unusableWitness k c)) = none) := by decide

/-- … and the key of the pair followed by stray text: `tls.X509KeyPair` takes the first key block, `checkValidPEM`
of the loader refuses the bytes -/
theorem stray_text_after_key_not_requested_old :
    oracleSec (unusableWitness .stray .absent) (notifySecP { check := .pair } (unusableWitness .stray .absent)) =
      some "secret-with-stray-text-after-key-not-requested" := by decide

/-- the former readers differ from the code only on Secrets the controller cannot load although `tls.crt` parses,
and on zero bytes under `tls.crt` -/
theorem old_readers_same_elsewhere (p : ReadPolicy) (hp : p.tlsTypeOnly = false) (i : SIn)
    (h : ∀ s, i.sec = some s → s.crt ≠ .empty ∧ (∀ na sans, s.crt = .cert na sans → usable i.now (some s) = true)) :
    notifySecP p i = notifySec i := by
  unfold notifySec notifySecP
  have : readP p i.now i.sec = readP .code i.now i.sec := by
    cases hs : i.sec with
    | none => rfl
    | some s =>
      obtain ⟨he, hk⟩ := h s hs
      cases hc : s.crt with
      | empty => exact absurd hc he
      | absent => simp [readP, hp, hc, ReadPolicy.code]
      | bad => simp [readP, hp, hc, ReadPolicy.code]
      | cert na sans =>
        have hu := hk na sans hc
        rw [usable_eq_validate] at hu
        have hv := hu
        simp only [validate, hc] at hv
        have hpair : keyPairOk s.key = true := by
          cases hq : keyPairOk s.key with
          | true => rfl
          | false => simp [hq] at hv
        cases hck : p.check <;> simp [readP, hp, hc, hu, hpair, hck, ReadPolicy.code]
  rw [this]

/-! ## a reader that looks at the type (seed C17f) -/

/-- a valid (365 days left, window 30 days), covering certificate with its key in an Opaque Secret -/
def opaqueWitness (t : SType) : SIn :=
  { acct := true, sec := some { type := t, crt := .cert (365 * 86400) [["app", "x"], ["www", "x"]], key := .ok },
    now := 0, window := 30 * 86400, declared := [["app", "x"], ["www", "x"]], sign := ⟨true, true, false⟩, setErr := false }

/-- **type_sensitive_reader_rerequests_valid_certificate**: the reader that refuses every type but
kubernetes.io/tls asks the CA again for a certificate that is present, loadable by the controller, far from
expiring and covering — for Opaque, untyped and otherwise typed Secrets, on every check (the decision has no
memory) — and replaces the user's Secret; the code that exists requests nothing for any type. -/
theorem type_sensitive_reader_rerequests_valid_certificate :
    (∀ t ∈ [SType.opaque, .empty, .other],
      notifySecP { tlsTypeOnly := true } (opaqueWitness t) =
        some { usable := true, after := .new,
               out := { got := true, signed := some [["app", "x"], ["www", "x"]], written := true, err := false,
                        metric := some (.missing, true) } } ∧
      oracleSec (opaqueWitness t) (notifySecP { tlsTypeOnly := true } (opaqueWitness t)) =
        some "valid-certificate-re-requested") ∧
    (∀ t ∈ [SType.tls, .opaque, .empty, .other],
      notifySec (opaqueWitness t) =
        some { usable := true, after := .old,
               out := { got := true, signed := none, written := false, err := false, metric := none } } ∧
      oracleSec (opaqueWitness t) (notifySec (opaqueWitness t)) = none) := by decide

/-- … and it is indistinguishable from the code as long as every Secret has type kubernetes.io/tls (every
Secret the signer writes itself has): a check that only builds such Secrets cannot see it -/
theorem type_sensitive_reader_same_on_tls_secrets (i : SIn) (h : ∀ s, i.sec = some s → s.type = .tls) :
    notifySecP { tlsTypeOnly := true } i = notifySec i := by
  unfold notifySec notifySecP
  have : readP { tlsTypeOnly := true } i.now i.sec = readP .code i.now i.sec := by
    cases hs : i.sec with
    | none => rfl
    | some s => simp [readP, h s hs, ReadPolicy.code]
  rw [this]

/-- the type-sensitive reader does depend on the type: `decision_type_independent` fails for it -/
theorem type_sensitive_reader_depends_on_type :
    notifySecP { tlsTypeOnly := true } (opaqueWitness .opaque) ≠
      notifySecP { tlsTypeOnly := true } (opaqueWitness .tls) := by decide

/-! ## regenerated facts: the shape of the reader and of what the controller accepts -/

/-- `GetTLSSecretContent` reads `secret.Data` only (no `.type`): `tls.crt` must be present, then
`validateCrtAndKey(tls.crt, tls.key, ca.crt)` decides; `getCertificate` — what HAProxy is given — does not read
`.type` either, wants both `tls.crt` and `tls.key` non-empty and hands the same three keys to
`buildCertFromCrtAndKey`, whose first call is `validateCrtAndKey`; `validateCrtAndKey` = certificate PEM check, key PEM
check (`checkValidPEM`), `tls.X509KeyPair`, then — `len(ca) > 0` — the `ca.crt` check and chain verification;
`checkValidCertPEM` loops `for len(raw) > 0` and refuses an input without any certificate (`x509crt == nil` twice:
first certificate, final test); `SetTLSSecretContent` writes type kubernetes.io/tls through Update-then-Create. -/
theorem facts_c17sec :
    Facts.c17GetSecretConds = ["err != nil", "!foundCrt", "err != nil"] ∧
    Facts.c17GetSecretFields = ["secret.Data"] ∧
    Facts.c17GetSecretDataKeys = ["api.TLSCertKey", "api.TLSPrivateKeyKey", "\"ca.crt\""] ∧
    Facts.c17GetSecretCalls = ["c.get", "fmt.Errorf", "c.sslCerts.validateCrtAndKey", "fmt.Errorf"] ∧
    Facts.c17GetSecretValidateArgs = ["pemCrt", "secret.Data[api.TLSPrivateKeyKey]", "secret.Data[\"ca.crt\"]"] ∧
    Facts.c17GetCertificateConds = ["len(crt) > 0 && len(key) > 0", "len(ca) > 0", "len(crl) > 0"] ∧
    Facts.c17GetCertificateFields = ["secret.Data", "secret.Name", "secret.Namespace"] ∧
    Facts.c17GetCertificateDataKeys = ["api.TLSCertKey", "api.TLSPrivateKeyKey", "\"ca.crt\"", "\"ca.crl\""] ∧
    Facts.c17BuildCertCalls = ["s.validateCrtAndKey"] ∧
    Facts.c17ValidateCalls = ["s.checkValidCertPEM", "s.checkValidPEM", "tls.X509KeyPair", "s.checkValidCertPEM",
      "x509.NewCertPool", "x509.NewCertPool", "root.AppendCertsFromPEM", "intm.AppendCertsFromPEM", "x509crt.Verify",
      "fmt.Errorf"] ∧
    Facts.c17ValidateConds = ["err != nil", "err != nil", "err != nil", "len(ca) > 0", "err != nil", "err != nil"] ∧
    Facts.c17CheckCertPEMConds = ["block == nil", "block.Type != \"CERTIFICATE\"", "err != nil", "x509crt == nil", "x509crt == nil"] ∧
    Facts.c17CheckCertPEMLoop = ["len(raw) > 0"] ∧
    Facts.c17SetSecretAssigns.contains "secret.Type = api.SecretTypeTLS" = true ∧
    Facts.c17SetSecretAssigns.length = 6 ∧
    Facts.c17CreateOrUpdateCalls = ["c.client.Update", "errors.IsNotFound", "c.client.Create"] := by
  decide

end HapVerif.C17
