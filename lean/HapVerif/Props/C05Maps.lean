import HapVerif.Lemmas.C05Maps
import HapVerif.Props.C05
/-!
# C05, backend maps: `_back_<id>_idpath*.map` follow the current model although only `ItemsAdd` is visited

Model: `HapVerif.C05.BWorld` (Model/C05Maps.lean) = the C05 backends store and files, the backend map
files, and the DECLARED state (ghost).  `mp c` is the rendering of the map file set of a backend with
content `c` (`none`: `NeedACL()` is false, no file is written or referred to).

* `backmaps_eq_items`: after every update of every disciplined history, every backend of `items`
  that needs ACLs has its maps on disk, rendered from the object that is in `items` — also the ones
  `Shrink` put back, which `WriteBackendMaps` does not visit.  No hypothesis on `mp`.
* `items_match_declared`: at every point of every disciplined history the stored object is the
  declared one up to `Shrink`'s match (same configuration, at least as many empty slots).
* `backmaps_eq_declared`: under `MapDep mp` (the rendering reads nothing that `Shrink`'s match does not
  compare) the maps on disk are the rendering of what the converter DECLARED last.  The hypothesis
  is needed (`mapdep_needed`); for the real code it is checked by the harness (every file against a
  fresh instance fed the declared state).
* `disk_matches_declared`: the same for the backend sections in the shard files.
-/
namespace HapVerif.C05
variable {p : Nat}

theorem brun_append (mp : Content → Option Nat) (sh : Sh p) (b : BWorld p) (a c : List (Op p)) :
    brun mp sh b (a ++ c) = brun mp sh (brun mp sh b a) c := by
  simp [brun, List.foldl_append]

/-- both invariants hold along every disciplined history -/
theorem brun_inv {mp : Content → Option Nat} {sh : Sh p} (wf : sh.WF) (ops : List (Op p)) : ∀ {b : BWorld p},
    Inv sh b.w → BInv mp b → allOk sh b.w ops = true →
    Inv sh (brun mp sh b ops).w ∧ BInv mp (brun mp sh b ops) := by
  induction ops with
  | nil => intro b hi hb _; exact ⟨hi, hb⟩
  | cons op ops ih =>
    intro b hi hb hok
    simp only [allOk, Bool.and_eq_true] at hok
    have h1 : Inv sh (bstep mp sh b op).w := by rw [bstep_w]; exact step_inv wf hi op hok.1
    have h2 := bstep_inv hi hb op hok.1
    have h3 : allOk sh (bstep mp sh b op).w ops = true := by rw [bstep_w]; exact hok.2
    exact ih h1 h2 h3

/-- **the stored object is the declared one up to `Shrink`'s match**, at every point of every
disciplined history (not only after updates) -/
theorem items_match_declared (mp : Content → Option Nat) (sh : Sh p) (wf : sh.WF) (hist : List (Op p))
    (hok : allOk sh {} hist = true) :
    ∀ x, declMatches (brun mp sh {} hist).w.store.items (brun mp sh {} hist).decl x = true :=
  (brun_inv wf hist (b := {}) (inv_init sh) (binv_init mp) hok).2.r

/-- **C05, backend maps.**  For every rendering `mp`, shard count, shard function, name universe and
EVERY disciplined history: right after each update, every backend of the current state that needs
ACLs has its map files on disk and they are the rendering of the object held in `items` — although
`WriteBackendMaps` only visits `ItemsAdd` and skips the backends that `Shrink` put back. -/
theorem backmaps_eq_items (mp : Content → Option Nat) (sh : Sh p) (wf : sh.WF) (hist : List (Op p))
    (hok : allOk sh {} (hist ++ [.update]) = true) :
    ∀ x c v, (brun mp sh {} (hist ++ [.update])).w.store.items x = some c → mp c = some v →
      (brun mp sh {} (hist ++ [.update])).bm x = some v := by
  intro x c v hit hm
  have hb := (brun_inv wf (hist ++ [.update]) (b := {}) (inv_init sh) (binv_init mp) hok).2
  refine hb.i1 x c v ?_ hit hm
  rw [brun_w]
  exact ((update_clean sh wf hist hok).1 x).1

/-- a declared backend is stored -/
theorem stored_of_declared {items decl : Map p} {x : Fin p} {a : Content} (h : declMatches items decl x = true)
    (hd : decl x = some a) : ∃ c, items x = some c ∧ a.matches c = true := by
  unfold declMatches at h
  rw [hd] at h
  cases hi : items x with
  | none => rw [hi] at h; cases h
  | some c => rw [hi] at h; exact ⟨c, rfl, h⟩

/-- **C05, backend maps against the declared state.**  If the rendering of the maps reads nothing but
what `Shrink`'s match compares (`MapDep`), then right after each update the map files of every
backend are the rendering of what the last batch DECLARED for it — the state of the cluster, not
merely the object the store happens to keep. -/
theorem backmaps_eq_declared (mp : Content → Option Nat) (hdep : MapDep mp) (sh : Sh p) (wf : sh.WF)
    (hist : List (Op p)) (hok : allOk sh {} (hist ++ [.update]) = true) :
    ∀ x a v, (brun mp sh {} (hist ++ [.update])).decl x = some a → mp a = some v →
      (brun mp sh {} (hist ++ [.update])).bm x = some v := by
  intro x a v hd hm
  obtain ⟨c, hit, hmc⟩ := stored_of_declared (items_match_declared mp sh wf _ hok x) hd
  exact backmaps_eq_items mp sh wf hist hok x c v hit (by rw [← hdep a c hmc]; exact hm)

/-- **C05, backend sections against the declared state**: right after each update the section of every
name in the file of its shard is the declared backend up to the empty slots, and a name that is not
declared has no section -/
theorem disk_matches_declared (mp : Content → Option Nat) (sh : Sh p) (wf : sh.WF) (hist : List (Op p))
    (hok : allOk sh {} (hist ++ [.update]) = true) :
    ∀ x, declMatches (fun y => (brun mp sh {} (hist ++ [.update])).w.disk (sh.shardOf y) y)
      (brun mp sh {} (hist ++ [.update])).decl x = true := by
  intro x
  have h := items_match_declared mp sh wf _ hok x
  have hd := disk_eq_items sh wf hist hok (sh.shardOf x) x
  have hw : (brun mp sh {} (hist ++ [.update])).w = run sh {} (hist ++ [.update]) := brun_w mp sh _ {}
  simp only [if_true] at hd
  unfold declMatches at h ⊢
  simp only [hw] at h ⊢
  rw [hd]
  exact h

/-! ### non-vacuity and the witness that `MapDep` is needed -/

/-- maps rendered from the configuration only (what the real rendering does: paths, ids, hostnames);
odd configurations need ACLs -/
def mpCfg (c : Content) : Option Nat := if c.cfg % 2 = 1 then some c.cfg else none
/-- a rendering that would read the number of slots, which `Shrink`'s match ignores -/
def mpSlots (c : Content) : Option Nat := some c.slots

theorem mpCfg_dep : MapDep mpCfg := by
  intro a d h
  simp only [Content.matches, Bool.and_eq_true, beq_iff_eq] at h
  simp [mpCfg, h.1]

/-- non-vacuity of `backmaps_eq_items` / `backmaps_eq_declared`: name 0 is re-added with fewer slots
(`Shrink` puts the old object back, `ItemsAdd` is empty after it: `WriteBackendMaps` writes nothing
for name 0) while name 1 changes from a configuration without ACLs to one with; name 0 keeps the
maps of its first declaration, name 1 gets its own, the stored object of name 0 has more slots than
the declared one -/
example :
    let hist : List (Op 2) := [.acquire 0 ⟨3, 2⟩, .acquire 1 ⟨2, 0⟩, .update, .removeAll [0, 1], .acquire 0 ⟨3, 1⟩,
      .acquire 1 ⟨5, 0⟩]
    let b := brun mpCfg sh3 {} (hist ++ [.update])
    allOk sh3 {} (hist ++ [.update]) = true ∧
    (shrink sh3 (brun mpCfg sh3 {} hist).w.store).add 0 = none ∧
    b.decl 0 = some ⟨3, 1⟩ ∧ b.w.store.items 0 = some ⟨3, 2⟩ ∧ b.bm 0 = some 3 ∧
    (brun mpCfg sh3 {} [.acquire 0 ⟨3, 2⟩, .acquire 1 ⟨2, 0⟩, .update]).bm 1 = none ∧ b.bm 1 = some 5 := by
  decide

/-- `MapDep` is needed: with a rendering that reads something `Shrink`'s match does not compare, the
maps of a backend that `Shrink` put back are those of the OLD declaration — `backmaps_eq_items` still
holds (they are the rendering of the stored object), `backmaps_eq_declared` does not -/
theorem mapdep_needed :
    let hist : List (Op 2) := [.acquire 0 ⟨1, 2⟩, .update, .removeAll [0], .acquire 0 ⟨1, 1⟩]
    let b := brun mpSlots sh3 {} (hist ++ [.update])
    allOk sh3 {} (hist ++ [.update]) = true ∧ ¬ MapDep mpSlots ∧
    b.decl 0 = some ⟨1, 1⟩ ∧ mpSlots ⟨1, 1⟩ = some 1 ∧ b.bm 0 = some 2 ∧
    b.w.store.items 0 = some ⟨1, 2⟩ := by
  refine ⟨by decide, ?_, by decide, by decide, by decide, by decide⟩
  intro h
  have := h ⟨1, 1⟩ ⟨1, 2⟩ (by decide)
  simp [mpSlots] at this

/-- outside the discipline the maps do not follow either: `RemoveAll` of a name acquired in the same
batch leaves the backend in `items` with nothing tracked, its maps are never written -/
theorem undisciplined_backmaps_missing :
    let ops : List (Op 2) := [.acquire 0 ⟨3, 0⟩, .removeAll [0], .update]
    allOk sh3 {} ops = false ∧ (brun mpCfg sh3 {} ops).w.store.items 0 = some ⟨3, 0⟩ ∧
    (brun mpCfg sh3 {} ops).bm 0 = none := by decide

end HapVerif.C05
