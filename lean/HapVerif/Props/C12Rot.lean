import HapVerif.Model.C12Rot
import HapVerif.Generated.Facts
/-!
C12, satellite: a failed ROTATED write owes a rewrite exactly like a failed plain write.

* `clean_write`            a fault-free `writeToDisk` ends with the file = the rendered buffer, whatever the
                           rotation setting, whatever was (or was not) on disk, and keeps at most `rotate` copies
* `fault_fires_iff`        when each of the three fault points makes the call fail
* `failed_write_keeps_or_loses_file`  after a failed call the output name holds what it held, or nothing
                           (the rename worked, the removal or the write did not) - never the new content
* `failed_write_owes_rewrite`  a failed write leaves `rewriteOwed` set although the trackers are emptied
* `retry_applies`          FULL STRENGTH, every rotation setting, every history of changes and of updates with
                           a fault at any of the three points, any number of times: the next fault-free update
                           returns no error, the file holds the rendering of the model, HAProxy read it,
                           nothing is owed, at most `rotate` old copies are kept
* `next_event_applies`     the same when the retry is not empty but carries the next event
* three `decide` witnesses of the writer that memoises the content BEFORE the write succeeded (NOT the code
  that exists): after a failed rename / removal / write the identical retry skips the file, returns success,
  clears the owed rewrite and reloads - the file is the old one or does not exist, and later empty updates
  do not heal it.
* `facts_c12rot`           the statement shape of template.writeToDisk
-/
namespace HapVerif.C12Rot

theorem trim_clean (rotate : Nat) (olds : List Nat) :
    (trim rotate false olds).2 = true ∧ ((trim rotate false olds).1.length ≤ rotate ∨
      (trim rotate false olds).1 = olds ∧ olds.length ≤ rotate) := by
  unfold trim
  by_cases h : olds.length ≤ rotate
  · simp [h]
  · simp [h]; omega

theorem trim_len (rotate : Nat) (olds : List Nat) : (trim rotate false olds).1.length ≤ rotate := by
  unfold trim
  by_cases h : olds.length ≤ rotate
  · simp [h]
  · simp [h]; omega

theorem trim_failed (rotate : Nat) (fail : Bool) (olds : List Nat) (h : (trim rotate fail olds).2 = false) :
    fail = true ∧ rotate < olds.length ∧ (trim rotate fail olds).1 = olds := by
  unfold trim at h ⊢
  by_cases h1 : olds.length ≤ rotate
  · simp [h1] at h
  · cases fail <;> simp [h1] at h ⊢
    omega

theorem trim_ok_iff (rotate : Nat) (fail : Bool) (olds : List Nat) :
    (trim rotate fail olds).2 = !(fail && decide (rotate < olds.length)) := by
  unfold trim
  by_cases h1 : olds.length ≤ rotate
  · have : ¬ rotate < olds.length := by omega
    simp [h1, this]
  · have : rotate < olds.length := by omega
    cases fail <;> simp [h1, this]

/-- a fault-free write ends with the rendered buffer on disk, for every rotation setting -/
theorem clean_write (rotate : Nat) (o : Out) (buf : Nat) :
    (writeToDisk false rotate .none o buf).2 = true ∧
    (writeToDisk false rotate .none o buf).1.disk = some buf ∧
    (0 < rotate → (writeToDisk false rotate .none o buf).1.olds.length ≤ rotate) ∧
    (rotate = 0 → (writeToDisk false rotate .none o buf).1.olds = o.olds) := by
  unfold writeToDisk rotateStep
  by_cases h0 : rotate = 0
  · subst h0; simp
  · have hp : 0 < rotate := Nat.pos_of_ne_zero h0
    cases hd : o.disk with
    | none =>
      have h1 := (trim_clean rotate o.olds).1
      have h2 := trim_len rotate o.olds
      simp [h0, hd, h1, h2]
    | some c =>
      have h1 := (trim_clean rotate (o.olds ++ [c])).1
      have h2 := trim_len rotate (o.olds ++ [c])
      simp [h0, hd, h1, h2]

/-- when a fault makes the call fail: the write always; the rename when rotation is on and the file exists;
the removal when rotation is on and more than `rotate` copies exist once the current file is rotated -/
theorem fault_fires_iff (rotate : Nat) (f : RotFault) (o : Out) (buf : Nat) :
    (writeToDisk false rotate f o buf).2 = !fires rotate f o.disk.isSome o.olds.length := by
  unfold writeToDisk rotateStep fires
  by_cases h0 : rotate = 0
  · subst h0; cases f <;> simp
  · have hp : 0 < rotate := Nat.pos_of_ne_zero h0
    cases hd : o.disk with
    | none =>
      cases f <;> simp [h0, hd, hp, trim_ok_iff] <;> (split <;> simp_all)
    | some c =>
      cases f <;> simp [h0, hd, hp, trim_ok_iff] <;> (split <;> simp_all)

/-- a failed call never leaves the new content: the output name holds what it held, or nothing -/
theorem failed_write_keeps_or_loses_file (rotate : Nat) (f : RotFault) (o : Out) (buf : Nat)
    (h : (writeToDisk false rotate f o buf).2 = false) :
    (writeToDisk false rotate f o buf).1.disk = o.disk ∨ (writeToDisk false rotate f o buf).1.disk = none := by
  unfold writeToDisk rotateStep at h ⊢
  by_cases h0 : rotate = 0
  · subst h0; cases f <;> simp_all
  · cases hd : o.disk with
    | none =>
      cases ht : (trim rotate (decide (f = .remove)) o.olds).2 <;> cases f <;> simp_all
    | some c =>
      cases ht : (trim rotate (decide (f = .remove)) (o.olds ++ [c])).2 <;> cases f <;> simp_all

/-- a failed write of the file leaves the rewrite owed (the trackers are empty by then), whatever the rotation
setting and whichever step failed -/
theorem failed_write_owes_rewrite (memo : Bool) (rotate : Nat) (f : RotFault) (s : St)
    (h : (upd memo rotate f s).2 = true) :
    (upd memo rotate f s).1.owed = true ∧ (upd memo rotate f s).1.dirty = false := by
  unfold upd at h ⊢
  cases hd : s.dirty <;> cases ho : s.owed <;>
    cases h2 : (writeToDisk memo rotate f s.out s.want).2 <;> simp_all

/-- invariant of the cycle (code that exists): while nothing is tracked and nothing owed the file holds the
rendering and HAProxy read it; while nothing is owed at most `rotate` copies are kept; without rotation
there never is one -/
def Inv (rotate : Nat) (s : St) : Prop :=
  (s.dirty = false → s.owed = false → s.out.disk = some s.want ∧ s.running = some s.want) ∧
  (s.owed = false → s.out.olds.length ≤ rotate) ∧
  (rotate = 0 → s.out.olds = [])

theorem inv_init (rotate : Nat) : Inv rotate {} := by
  refine ⟨?_, ?_, ?_⟩ <;> simp

theorem rot0_keeps_olds (f : RotFault) (o : Out) (buf : Nat) :
    (writeToDisk false 0 f o buf).1.olds = o.olds := by
  unfold writeToDisk rotateStep
  cases f <;> simp

theorem inv_upd (rotate : Nat) (f : RotFault) (s : St) (h : Inv rotate s) :
    Inv rotate (upd false rotate f s).1 := by
  obtain ⟨h1, h2, h3⟩ := h
  unfold upd
  by_cases hs : (!s.dirty && !s.owed) = true
  · simp only [hs, if_true]; exact ⟨h1, h2, h3⟩
  · simp only [hs]
    cases hr : (writeToDisk false rotate f s.out s.want).2 with
    | false =>
      refine ⟨?_, ?_, ?_⟩
      · simp
      · simp
      · intro h0; subst h0
        simp [rot0_keeps_olds, h3]
    | true =>
      have hf : fires rotate f s.out.disk.isSome s.out.olds.length = false := by
        have := fault_fires_iff rotate f s.out s.want
        rw [hr] at this; simpa using this.symm
      -- a call that did not fail did what the fault-free call does
      have heq : writeToDisk false rotate f s.out s.want = writeToDisk false rotate .none s.out s.want := by
        unfold writeToDisk rotateStep fires at *
        by_cases h0 : rotate = 0
        · subst h0; cases f <;> simp_all
        · have hp : 0 < rotate := Nat.pos_of_ne_zero h0
          cases hd : s.out.disk with
          | none =>
            cases f <;> simp_all [trim]
            all_goals (try omega)
            all_goals (try (intro hx; omega))
          | some c =>
            cases f <;> simp_all [trim]
            all_goals (try omega)
            all_goals (try (intro hx; omega))
      have hc := clean_write rotate s.out s.want
      rw [← heq] at hc
      refine ⟨?_, ?_, ?_⟩
      · intro _ _; simp [hc.2.1]
      · intro _
        by_cases h0 : rotate = 0
        · have := hc.2.2.2 h0; simp [this, h3 h0]
        · exact hc.2.2.1 (Nat.pos_of_ne_zero h0)
      · intro h0; have := hc.2.2.2 h0; simp [this, h3 h0]

theorem inv_step (rotate : Nat) (s : St) (e : Ev) (h : Inv rotate s) : Inv rotate (step false rotate s e) := by
  cases e with
  | change c =>
    unfold step
    by_cases hc : c = s.want
    · simp [hc]; exact h
    · simp only [hc, if_false]
      obtain ⟨_, h2, h3⟩ := h
      exact ⟨by simp, h2, h3⟩
  | upd f => exact inv_upd rotate f s h

theorem inv_run (rotate : Nat) (evs : List Ev) : ∀ s, Inv rotate s → Inv rotate (run false rotate s evs) := by
  induction evs with
  | nil => intro s h; exact h
  | cons e es ih => intro s h; exact ih _ (inv_step rotate s e h)

theorem settled_of_inv (rotate : Nat) (s : St) (h : Inv rotate s) : settled rotate (upd false rotate .none s) = true := by
  obtain ⟨h1, h2, h3⟩ := h
  have hc := clean_write rotate s.out s.want
  unfold settled upd
  by_cases hs : (!s.dirty && !s.owed) = true
  · have hd : s.dirty = false := by cases hx : s.dirty <;> simp_all
    have ho : s.owed = false := by cases hx : s.owed <;> simp_all
    have := h1 hd ho
    simp [hd, ho, this.1, this.2, h2 ho]
  · simp only [hs, hc.1]
    have hl : (writeToDisk false rotate .none s.out s.want).1.olds.length ≤ rotate := by
      by_cases h0 : rotate = 0
      · have := hc.2.2.2 h0; simp [this, h3 h0]
      · exact hc.2.2.1 (Nat.pos_of_ne_zero h0)
    simp [hc.2.1, hl]

/-- FULL STRENGTH: whatever the rotation setting, whatever changes arrived and whatever step of the (rotated)
write failed in whatever update, any number of times - the next fault-free update applies the change -/
theorem retry_applies (rotate : Nat) (evs : List Ev) :
    settled rotate (upd false rotate .none (run false rotate {} evs)) = true :=
  settled_of_inv rotate _ (inv_run rotate evs {} (inv_init rotate))

/-- the retry is not empty but carries the next event -/
theorem next_event_applies (rotate : Nat) (evs : List Ev) (c : Nat) :
    settled rotate (upd false rotate .none (step false rotate (run false rotate {} evs) (.change c))) = true :=
  settled_of_inv rotate _ (inv_step rotate _ _ (inv_run rotate evs {} (inv_init rotate)))

/-- non-vacuity: rotation 1, the three fault points hit in turn (the removal needs an old copy), then the retry -/
example :
    let s := run false 1 {} [.upd .none, .change 1, .upd .rename, .upd .none, .change 2, .upd .remove,
      .change 3, .upd .write]
    s.owed = true ∧ s.out.disk = none ∧ s.want = 3 ∧ s.out.olds = [1] ∧
    (upd false 1 .none s).1.out = { disk := some 3, olds := [1] } := by decide

/-! ### the writer that memoises before the write succeeded (NOT the code that exists) -/

/-- the rotation rename fails, the identical retry skips the file: success, nothing owed, HAProxy reloaded
with the OLD file; later empty updates do not heal -/
theorem memo_before_write_loses_change_rename :
    let s := run true 1 {} [.upd .none, .change 1, .upd .rename]
    s.owed = true ∧ s.want = 1 ∧
    (upd true 1 .none s).2 = false ∧ (upd true 1 .none s).1.owed = false ∧
    (upd true 1 .none s).1.out.disk = some 0 ∧ (upd true 1 .none s).1.running = some 0 ∧
    settled 1 (upd true 1 .none s) = false ∧
    settled 1 (upd true 1 .none (run true 1 s [.upd .none, .upd .none])) = false ∧
    settled 1 (upd false 1 .none (run false 1 {} [.upd .none, .change 1, .upd .rename])) = true := by decide

/-- the removal of the oldest copy fails: the rename already happened, the retry skips the file - success
is reported and haproxy.cfg does not exist -/
theorem memo_before_write_loses_file_remove :
    let s := run true 1 {} [.upd .none, .change 1, .upd .none, .change 2, .upd .remove]
    s.owed = true ∧ s.out.disk = none ∧
    (upd true 1 .none s).2 = false ∧ (upd true 1 .none s).1.owed = false ∧
    (upd true 1 .none s).1.out.disk = none ∧ (upd true 1 .none s).1.want = 2 ∧
    settled 1 (upd false 1 .none (run false 1 {} [.upd .none, .change 1, .upd .none, .change 2, .upd .remove])) = true := by
  decide

/-- the write itself fails (3 copies kept) -/
theorem memo_before_write_loses_change_write :
    let s := run true 3 {} [.upd .none, .change 1, .upd .write]
    s.owed = true ∧ (upd true 3 .none s).2 = false ∧ (upd true 3 .none s).1.owed = false ∧
    (upd true 3 .none s).1.out.disk = none ∧ (upd true 3 .none s).1.want = 1 ∧
    settled 3 (upd false 3 .none (run false 3 {} [.upd .none, .change 1, .upd .write])) = true := by decide

/-- without rotation the memo is inactive: the defect needs `--max-old-config-files > 0` -/
theorem memo_inactive_without_rotation (f : RotFault) (o : Out) (buf : Nat) :
    writeToDisk true 0 f o buf = writeToDisk false 0 f o buf := by
  unfold writeToDisk; simp

/-- the oracle clause of the driver is the last conjunct of `settled` -/
theorem rotClause_none_iff (rotate copies : Nat) : rotClause rotate copies = none ↔ copies ≤ rotate := by
  unfold rotClause; by_cases h : copies ≤ rotate <;> simp [h]

/-- template.writeToDisk, every statement: the rotation block (Stat, Rename -> return, append; the removal loop ->
return), then os.WriteFile of the rendered buffer -> return, return nil.  Nothing returns early on the
strength of earlier content, nothing is recorded before the write. -/
theorem facts_c12rot :
    HapVerif.Facts.c12WriteToDiskShape =
      ["if:output==\"\"{assign:output=t.output}",
       "if:output==\"\"{return:fmt.Errorf}",
       "if:t.rotate>0{if-init:os.Stat(output);f!=nil{assign:rotateTo:=output+\".\"+f.ModTime().Format(\"20060102-150405.000\");if-init:os.Rename(output,rotateTo);err!=nil{return:fmt.Errorf};assign:t.configFiles=append(t.configFiles,rotateTo)}else{if:err!=nil&&!os.IsNotExist(err){return:fmt.Errorf}};for:len(t.configFiles)>t.rotate{assign:name:=t.configFiles[0];if-init:os.Remove(name);err!=nil&&!os.IsNotExist(err){return:fmt.Errorf};assign:t.configFiles=t.configFiles[1:]}}",
       "if-init:os.WriteFile(output,t.rawConfig.Bytes(),0644);err!=nil{return:fmt.Errorf}",
       "return:nil"] := by
  rfl

end HapVerif.C12Rot
