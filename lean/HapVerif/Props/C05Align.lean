import HapVerif.Lemmas.C05Align
import HapVerif.Props.C05
import HapVerif.Generated.Facts
/-!
# C05 — files on disk hold exactly the current model, with the dynamic updater in the loop

`Props/C05.lean` proves the property for a store whose objects only change through `RemoveAll` +
`AcquireBackend`.  `HAProxyUpdate` also changes stored objects IN PLACE between `Shrink` and `writeConfig`
(Model/C05Align.lean): `checkBackendPair` hands the free slots of the replaced object to the new one, and on
every reload `alignSlots` appends empty slots to ANY backend of `Items()` — also to a backend that no batch
touched since its file was written (a bystander whose free slots were consumed by a dynamic scale-up) — and
flags its shard by hand (`BackendChanged`).

Statement: for every updater (`Dyn`: any pair decision, any in-place change of the re-created object, any
number of slots added by either loop of `alignSlots`), every shard count and shard function, and EVERY
disciplined history of RemoveAll / AcquireBackend / Clear / HAProxyUpdate (with or without a change outside
the backends; reloading or not; writing or not), after every update every file equals the current items of
its shard — the grown bystanders included.  The invariant carried from `Shrink` to `writeConfig` is `WInv`:
"a backend whose shard is not flagged is on disk exactly as it is in memory".
-/
namespace HapVerif.C05A
open HapVerif.C05
variable {p : Nat}

/-- one `HAProxyUpdate` (the code: both loops of `alignSlots` set `changed`) -/
theorem updateA_good {sh : Sh p} (wf : sh.WF) {w : World p} (h : Inv sh w) (d : Dyn p) (committed other : Bool) :
    Good sh (updateA .real d sh committed other w) ∧ Clean (updateA .real d sh committed other w) ∧
      Inv sh (updateA .real d sh committed other w) := by
  have hs : Inv sh { w with store := shrink sh w.store } := shrink_inv h
  have h2 : WInv sh (if committed then mutate (shrink sh w.store) (dynF d (shrink sh w.store)) else shrink sh w.store)
      w.disk := by
    cases committed with
    | true => exact dyn_winv hs d
    | false => exact winv_of_inv hs
  unfold updateA
  simp only []
  by_cases hr : needReload d committed other (shrink sh w.store) = true
  · simp only [hr, if_true, Bool.true_or]
    exact written_good wf (align_winv h2 d)
  · simp only [hr, Bool.false_or]
    by_cases hp : pending (shrink sh w.store) = true
    · simp only [hp, if_true]
      exact written_good wf h2
    · simp only [hp]
      have hnone := (pending_false_iff _).1 (by simpa using hp)
      have hid : (if committed then mutate (shrink sh w.store) (dynF d (shrink sh w.store)) else shrink sh w.store)
          = shrink sh w.store := by
        cases committed with
        | false => rfl
        | true =>
          simp only [if_true]
          apply mutate_id
          intro x c
          unfold dynF
          rw [(hnone x).2]
      simp only [Bool.false_eq_true, if_false]
      rw [hid]
      have good : Good sh { store := commit (shrink sh w.store), disk := w.disk } := by
        intro k x
        simp only [itemsIn, commit]
        by_cases hk : sh.shardOf x = k
        · simp only [hk, if_true]
          have := hs.b x (hnone x).1 (hnone x).2
          rw [hk] at this; exact this.symm
        · simp only [hk, if_false]; exact hs.g k x hk
      refine ⟨good, ⟨fun x => ⟨rfl, rfl⟩, fun k => rfl⟩, ?_⟩
      refine ⟨?_, ?_, ?_, ?_, ?_, ?_, ?_⟩
      · intro x c hx; simp [commit, emp] at hx
      · intro x _ _
        have := good (sh.shardOf x) x
        simp only [itemsIn, if_true] at this
        exact this.symm
      · intro x _ hx; simp [commit, emp] at hx
      · intro x d hx; simp [commit, emp] at hx
      · intro _ x hx; simp [commit, emp] at hx
      · intro hn k x; exact hs.s1 hn k x
      · intro k x hk; exact hs.g k x hk

theorem clean_of_okA_clear {s : Store p} (h : okA s .clear = true) : ∀ x, s.add x = none ∧ s.del x = none := by
  simp only [okA, Bool.not_eq_true'] at h
  exact (pending_false_iff s).1 h

theorem stepA_inv {sh : Sh p} (wf : sh.WF) (d : Dyn p) {g : GWorld p} (h : Inv sh g.w) (op : AOp p)
    (hok : okA g.w.store op = true) : Inv sh (stepA .real d sh g op).w := by
  cases op with
  | acquire x c => exact acquire_inv h x c
  | removeAll xs =>
    refine removeAll_inv xs h ?_
    intro x hx
    simp only [okA, List.all_eq_true] at hok
    simpa using hok x hx
  | clear => exact clear_inv wf h (clean_of_okA_clear hok)
  | update other => exact (updateA_good wf h d g.committed other).2.2

theorem runA_inv {sh : Sh p} (wf : sh.WF) (d : Dyn p) (ops : List (AOp p)) : ∀ {g : GWorld p}, Inv sh g.w →
    allOkA .real d sh g ops = true → Inv sh (runA .real d sh g ops).w := by
  induction ops with
  | nil => intro g h _; exact h
  | cons op ops ih =>
    intro g h hok
    simp only [allOkA, Bool.and_eq_true] at hok
    exact ih (stepA_inv wf d h op hok.1) hok.2

theorem runA_append (v : Variant) (d : Dyn p) (sh : Sh p) (g : GWorld p) (a b : List (AOp p)) :
    runA v d sh g (a ++ b) = runA v d sh (runA v d sh g a) b := by
  simp [runA, List.foldl_append]

theorem allOkA_append (v : Variant) (d : Dyn p) (sh : Sh p) (a b : List (AOp p)) : ∀ (g : GWorld p),
    allOkA v d sh g (a ++ b) = (allOkA v d sh g a && allOkA v d sh (runA v d sh g a) b) := by
  induction a with
  | nil => intro g; simp [allOkA, runA]
  | cons op a ih => intro g; simp [allOkA, runA, ih, Bool.and_assoc]

/-- **C05 with the dynamic updater.**  For every updater `d`, every shard count (0 = single file, 1, N) and
shard function, every name universe and EVERY disciplined history: right after an `HAProxyUpdate` — whether
it reloaded, applied the change dynamically or found nothing to do — file `k` holds exactly the current items
of shard `k`, with the slots `checkBackendPair` carried over and the slots `alignSlots` appended to ANY
backend, although only `ChangedShards()` were rewritten. -/
theorem disk_eq_items_align (d : Dyn p) (sh : Sh p) (wf : sh.WF) (hist : List (AOp p)) (other : Bool)
    (hok : allOkA .real d sh {} (hist ++ [.update other]) = true) :
    ∀ k x, (runA .real d sh {} (hist ++ [.update other])).w.disk k x =
      if sh.shardOf x = k then (runA .real d sh {} (hist ++ [.update other])).w.store.items x else none := by
  rw [allOkA_append] at hok
  simp only [Bool.and_eq_true] at hok
  have h := runA_inv wf d hist (g := {}) (inv_init sh) hok.1
  rw [runA_append]
  exact (updateA_good wf h d _ other).1

/-- the same at EVERY update of a history, not only the last one -/
theorem disk_eq_items_align_every (d : Dyn p) (sh : Sh p) (wf : sh.WF) (pre rest : List (AOp p)) (other : Bool)
    (hok : allOkA .real d sh {} (pre ++ [.update other] ++ rest) = true) :
    ∀ k x, (runA .real d sh {} (pre ++ [.update other])).w.disk k x =
      if sh.shardOf x = k then (runA .real d sh {} (pre ++ [.update other])).w.store.items x else none := by
  rw [allOkA_append] at hok
  simp only [Bool.and_eq_true] at hok
  exact disk_eq_items_align d sh wf pre other hok.1

/-- the shard maps follow the in-place changes (`BuildSortedShard(k)` renders the grown objects) -/
theorem shards_eq_items_align (d : Dyn p) (sh : Sh p) (wf : sh.WF) (hist : List (AOp p))
    (hok : allOkA .real d sh {} hist = true) (hn : sh.n ≠ 0) :
    ∀ k x, (runA .real d sh {} hist).w.store.shards k x = itemsIn sh (runA .real d sh {} hist).w.store k x :=
  (runA_inv wf d hist (g := {}) (inv_init sh) hok).s1 hn

/-! ### over update batches (the shape `converters.Sync` + `HAProxyUpdate` produce) -/

/-- one update: a partial resync of a subset (`RemoveAll(dirty)`, then the re-adds) or a full resync
(`Clear`), with or without a change outside the backends -/
inductive ABatch (p : Nat) where
  | partialSync (dirty : List (Fin p)) (acqs : List (Fin p × Content)) (other : Bool)
  | fullSync (acqs : List (Fin p × Content)) (other : Bool)

def ABatch.ops : ABatch p → List (AOp p)
  | .partialSync dirty acqs other => .removeAll dirty :: (acqs.map fun a => .acquire a.1 a.2) ++ [.update other]
  | .fullSync acqs other => .clear :: (acqs.map fun a => .acquire a.1 a.2) ++ [.update other]

theorem allOkA_acqs (d : Dyn p) (sh : Sh p) (other : Bool) (acqs : List (Fin p × Content)) : ∀ g : GWorld p,
    allOkA .real d sh g ((acqs.map fun a => AOp.acquire a.1 a.2) ++ [.update other]) = true := by
  induction acqs with
  | nil => intro g; simp [allOkA, okA]
  | cons a acqs ih => intro g; simp [allOkA, okA, ih]

theorem abatch_ok (d : Dyn p) (sh : Sh p) {g : GWorld p} (hc : Clean g.w) (b : ABatch p) :
    allOkA .real d sh g b.ops = true := by
  cases b with
  | partialSync dirty acqs other =>
    simp only [ABatch.ops, List.cons_append, allOkA, Bool.and_eq_true]
    refine ⟨?_, allOkA_acqs d sh other acqs _⟩
    simp only [okA, List.all_eq_true]
    intro x _; simp [(hc.1 x).1]
  | fullSync acqs other =>
    simp only [ABatch.ops, List.cons_append, allOkA, Bool.and_eq_true]
    refine ⟨?_, allOkA_acqs d sh other acqs _⟩
    simp only [okA, Bool.not_eq_true']
    exact (pending_false_iff _).2 hc.1

theorem abatch_ops_snoc (b : ABatch p) : ∃ pre other, b.ops = pre ++ [.update other] := by
  cases b with
  | partialSync dirty acqs other =>
    exact ⟨.removeAll dirty :: acqs.map fun a => .acquire a.1 a.2, other, by simp [ABatch.ops]⟩
  | fullSync acqs other => exact ⟨.clear :: acqs.map fun a => .acquire a.1 a.2, other, by simp [ABatch.ops]⟩

theorem abatches_inv (d : Dyn p) (sh : Sh p) (wf : sh.WF) (bs : List (ABatch p)) : ∀ {g : GWorld p},
    Inv sh g.w → Clean g.w → Good sh g.w →
    Inv sh (runA .real d sh g (bs.flatMap ABatch.ops)).w ∧ Clean (runA .real d sh g (bs.flatMap ABatch.ops)).w ∧
      Good sh (runA .real d sh g (bs.flatMap ABatch.ops)).w := by
  induction bs with
  | nil => intro g h hc hg; exact ⟨h, hc, hg⟩
  | cons b bs ih =>
    intro g h hc hg
    simp only [List.flatMap_cons, runA_append]
    obtain ⟨pre, other, hpre⟩ := abatch_ops_snoc b
    have hok := abatch_ok d sh hc b
    rw [hpre, allOkA_append] at hok
    simp only [Bool.and_eq_true] at hok
    have h1 := runA_inv wf d pre h hok.1
    have h2 := updateA_good wf h1 d (runA .real d sh g pre).committed other
    have e : runA .real d sh g b.ops = stepA .real d sh (runA .real d sh g pre) (.update other) := by
      rw [hpre, runA_append]; rfl
    rw [e]
    exact ih h2.2.2 h2.2.1 h2.1

/-- **C05 over update batches with the dynamic updater**: after ANY sequence of updates — each one a
RemoveAll/Acquire of any subset or a full resync, with any contents (scale-ups that fit in the free slots and
are applied without reload, scale-downs, re-notifications that `Shrink` drops, changes that reload), with or
without an unrelated change that reloads — every file equals the items of its shard. -/
theorem disk_eq_items_align_batches (d : Dyn p) (sh : Sh p) (wf : sh.WF) (bs : List (ABatch p)) :
    ∀ k x, (runA .real d sh {} (bs.flatMap ABatch.ops)).w.disk k x =
      if sh.shardOf x = k then (runA .real d sh {} (bs.flatMap ABatch.ops)).w.store.items x else none :=
  (abatches_inv d sh wf bs (g := {}) (inv_init sh) ⟨fun _ => ⟨rfl, rfl⟩, fun _ => rfl⟩
    (by intro k x; simp [itemsIn, emp])).2.2

/-! ### consistency with Props/C05.lean: an updater that changes nothing is the gated update of M-Store -/

/-- no in-place change at all -/
def noDyn : Dyn p :=
  { pairOk := fun _ _ _ => false, carry := fun _ _ a => a, top := fun _ _ => 0, pad := fun _ _ => 0 }

theorem align_noDyn (sh : Sh p) (s : Store p) : align .real noDyn sh s = s := by
  have hm : mutate s (alignF noDyn) = s := mutate_id s _ (by intro x c; rfl)
  unfold align
  simp only []
  rw [hm]
  cases s with
  | mk items add del shards changed =>
    simp only [Store.mk.injEq, true_and]
    funext k
    have key : ∀ f : Fin p → Bool, (∀ x, f x = false) → (changed k || anyFin f) = changed k := by
      intro f hf; rw [(anyFin_false_iff f).2 hf]; simp
    apply key
    intro x
    cases items x <;> simp [alignFlag, grow, noDyn]

/-- with `noDyn` (every remaining pair reloads, nothing is carried, nothing is appended) and no change outside
the backends, `updateA` IS `C05.updateGated`: `disk_eq_items_e2e` is the instance `d = noDyn` of
`disk_eq_items_align` -/
theorem updateA_noDyn (sh : Sh p) (committed : Bool) (w : World p) :
    updateA .real noDyn sh committed false w = updateGated sh committed w := by
  have hm : mutate (shrink sh w.store) (dynF noDyn (shrink sh w.store)) = shrink sh w.store :=
    mutate_id _ _ (by intro x c; unfold dynF; cases (shrink sh w.store).del x <;> cases (shrink sh w.store).add x <;> rfl)
  unfold updateA updateGated
  simp only [hm, ite_self, align_noDyn]
  by_cases hp : pending (shrink sh w.store) = true
  · have hp' : (anyFin fun x => ((shrink sh w.store).add x).isSome || ((shrink sh w.store).del x).isSome) = true := hp
    simp [hp, hp']
  · have hp0 : pending (shrink sh w.store) = false := by simpa using hp
    have hp' : (anyFin fun x => ((shrink sh w.store).add x).isSome || ((shrink sh w.store).del x).isSome) = false := hp0
    have hnone := (pending_false_iff _).1 hp0
    have hadd : (anyFin fun x => ((shrink sh w.store).add x).isSome) = false := by
      rw [anyFin_false_iff]; intro x; simp [(hnone x).1]
    have hpo : pairsOk (noDyn : Dyn p) (shrink sh w.store) = true := by
      unfold pairsOk
      simp only [Bool.not_eq_true']
      rw [anyFin_false_iff]
      intro x; rw [(hnone x).1, (hnone x).2]
    cases committed <;> simp [needReload, hp0, hp', hadd, hpo]

/-! ### non-vacuity and witnesses -/

/-- every backend asks for one free slot (`slots-min-free: 1`), slots increment 1 -/
def d11 : Dyn 2 := slotsDyn (fun _ => 1) (fun _ => 1)

/-- conf 1 with `used` endpoints, declared the way a converter does: no empty slot -/
def decl (conf used : Nat) : Content := ⟨64 * conf + used, 0⟩

/-- the history of seeded defect C05e (three shards, name 0 in shard 2, name 1 in shard 0):
first update (reload; both get their free slot); backend 0 is scaled up 1 -> 2 (applied dynamically, its free
slot is consumed); backend 1 changes its configuration (reload): `alignSlots` tops backend 0 up in memory -/
def seedHist : List (AOp 2) :=
  [.acquire 0 (decl 1 1), .acquire 1 (decl 1 1), .update false,
   .removeAll [0], .acquire 0 (decl 1 2), .update false,
   .removeAll [1], .acquire 1 (decl 2 1), .update false]

/-- non-vacuity of `disk_eq_items_align`: the history is disciplined; the second update does not reload and
leaves backend 0 without free slot, in memory and in its file; the third update — which does not touch
backend 0 nor shard 2 — grows backend 0 in memory AND rewrites the file of shard 2 -/
example :
    allOkA .real d11 sh3 {} seedHist = true ∧
    (runA .real d11 sh3 {} (seedHist.take 3)).w.disk 2 0 = some ⟨65, 1⟩ ∧
    needReload d11 true false (shrink sh3 (runA .real d11 sh3 {} (seedHist.take 5)).w.store) = false ∧
    (runA .real d11 sh3 {} (seedHist.take 6)).w.store.items 0 = some ⟨66, 0⟩ ∧
    (runA .real d11 sh3 {} (seedHist.take 6)).w.disk 2 0 = some ⟨66, 0⟩ ∧
    (runA .real d11 sh3 {} seedHist).w.store.items 0 = some ⟨66, 1⟩ ∧
    (runA .real d11 sh3 {} seedHist).w.disk 2 0 = some ⟨66, 1⟩ := by decide

/-- **witness of seeded defect C05e** (`if newFreeSlots > 0 { BackendChanged }`: the top-up to slots-min-free
no longer flags the shard; with a slots increment of 1 the padding is always 0): after the same disciplined
history the update succeeded, the model holds backend 0 with a free slot, the file of shard 2 that HAProxy
just loaded declares none — `disk_eq_items_align` is false for the variant -/
theorem padOnly_stale_shard_file :
    allOkA .padOnly d11 sh3 {} seedHist = true ∧
    (runA .padOnly d11 sh3 {} seedHist).w.store.items 0 = some ⟨66, 1⟩ ∧
    (runA .padOnly d11 sh3 {} seedHist).w.disk 2 0 = some ⟨66, 0⟩ ∧
    (runA .real d11 sh3 {} seedHist).w.disk 2 0 = some ⟨66, 1⟩ := by decide

/-- the same with a full resync as the cause of the reload: `Clear`, everything is declared again unchanged,
`Shrink` puts every old object back (no add/del left, no shard flagged), no committed data => reload =>
`alignSlots` tops up backend 0 -/
theorem padOnly_stale_after_full_resync :
    let hist : List (AOp 2) := seedHist.take 6 ++ [.clear, .acquire 0 (decl 1 2), .acquire 1 (decl 1 1), .update false]
    allOkA .padOnly d11 sh3 {} hist = true ∧
    (runA .padOnly d11 sh3 {} hist).w.store.items 0 = some ⟨66, 1⟩ ∧
    (runA .padOnly d11 sh3 {} hist).w.disk 2 0 = some ⟨66, 0⟩ ∧
    (runA .real d11 sh3 {} hist).w.disk 2 0 = some ⟨66, 1⟩ := by decide

/-- without shards the variant is harmless (the single file is always rendered in full): the defect needs
`--backend-shards > 0` -/
example :
    (runA .padOnly d11 sh0 {} seedHist).w.store.items 0 = some ⟨66, 1⟩ ∧
    (runA .padOnly d11 sh0 {} seedHist).w.disk 0 0 = some ⟨66, 1⟩ := by decide

/-- with a slots increment of 2 the padding hides the variant on this history (3 slots are padded to 4), and
shows it again one endpoint later — the flag has to follow BOTH loops -/
example :
    let d12 : Dyn 2 := slotsDyn (fun _ => 1) (fun _ => 2)
    (runA .padOnly d12 sh3 {} seedHist).w.disk 2 0 = (runA .padOnly d12 sh3 {} seedHist).w.store.items 0 ∧
    (runA .padOnly d12 sh3 {} seedHist).w.store.items 0 = some ⟨66, 2⟩ := by decide

/-- non-vacuity of the skipped write: a re-notification that `Shrink` drops neither reloads nor writes -/
example :
    let hist : List (AOp 2) := seedHist.take 6 ++ [.removeAll [0], .acquire 0 (decl 1 2)]
    allOkA .real d11 sh3 {} (hist ++ [.update false]) = true ∧
    pending (shrink sh3 (runA .real d11 sh3 {} hist).w.store) = false ∧
    needReload d11 true false (shrink sh3 (runA .real d11 sh3 {} hist).w.store) = false := by decide

/-! ### regenerated facts: the Go source still has the shape the model assumes -/

/-- `alignSlots` walks `Items()`; each of its two loops that append a slot (`top`, `pad`) raises `changed`, and
`changed` alone guards `BackendChanged(back)` (`Variant.real`; `Variant.padOnly` is `if newFreeSlots > 0`);
`update` looks at the pairs only on committed data and aligns iff a reload is due -/
theorem facts_c05_align :
    Facts.c05AlignSlotsShape = ["range:backends.Items()", "changed:=false", "range:back.Endpoints",
      "for:i<minFreeSlots", "back.AddEmptyEndpoint", "changed=true",
      "for:i<newFreeSlots", "back.AddEmptyEndpoint", "changed=true",
      "if:changed:backends.BackendChanged(back)"] ∧
    Facts.c05DynUpdateShape = ["updated:=d.config.hasCommittedData()&&d.checkConfigChange()", "if:!updated",
      "d.alignSlots()"] := by
  decide

end HapVerif.C05A
