import HapVerif.Lemmas.C18OAuth
import HapVerif.Props.C18
import HapVerif.Drv.C18
import HapVerif.Generated.Facts
/-!
# C18 — which backend an `oauth` declaration is authenticated by (`oa` lines)

Model: `findBackend t pubs ns p` (Model/C18OAuth.lean) = `updater.findBackend(namespace, uriPrefix)`
over the list of published paths (hostname, declared path, namespace, backend id): hostnames in
`sort.Strings` order, the paths of a host descending, first hit; `t` selects the comparison of the
loop (`eqTrim` = the code, `hasPrefix` = seed C18f).  `oauthAnnOf` turns the answer into the abstract
outcome `OAuthAnn` the run of Model/C18.lean consumes.
Spec: `oauthTargets pubs ns ann` = the backends of the paths of the SAME namespace whose declared
path equals the uri prefix up to trailing slashes ("the authentication service call configured for
exactly that path" = the documented oauth2-proxy location); `oaPathOk`: a declared path is
intercepted through one of them with `<prefix>/auth`, or every request is denied.
-/
namespace HapVerif.C18

/-! ## the lookup, for every list of published paths -/

/-- a backend is found iff some published path passes the test of the loop (any test) -/
theorem findBackend_isSome_iff (t : PathTest) (pubs : List Pub) (ns p : String) :
    (findBackend t pubs ns p).isSome = true ↔ ∃ q ∈ pubs, t.hit ns p q = true := by
  unfold findBackend
  rw [Option.isSome_map, List.find?_isSome]
  constructor
  · rintro ⟨q, hq, hh⟩; exact ⟨q, mem_scanOrder.1 hq, hh⟩
  · rintro ⟨q, hq, hh⟩; exact ⟨q, mem_scanOrder.2 hq, hh⟩

/-- the backend found is the backend of a published path that passes the test -/
theorem findBackend_sound (t : PathTest) (pubs : List Pub) (ns p b : String)
    (h : findBackend t pubs ns p = some b) : ∃ q ∈ pubs, t.hit ns p q = true ∧ q.backend = b := by
  unfold findBackend at h
  rw [Option.map_eq_some_iff] at h
  obtain ⟨q, hq, hb⟩ := h
  exact ⟨q, mem_scanOrder.1 (List.mem_of_find?_eq_some hq), List.find?_some hq, hb⟩

/-- **exactly that path**: the code's lookup only ever answers with the backend of a path of the
declaring namespace whose declared path EQUALS the uri prefix up to trailing slashes — never with
a path that merely shares a prefix with it (`/oauth2-docs`, `/oauth2x`, `/oauth2/sub`, `/oauth`) -/
theorem lookup_exact_path (pubs : List Pub) (ns p b : String)
    (h : findBackend .eqTrim pubs ns p = some b) :
    ∃ q ∈ pubs, q.backend = b ∧ q.ns = ns ∧ trimR q.path = p := by
  obtain ⟨q, hq, hh, hb⟩ := findBackend_sound _ _ _ _ _ h
  simp only [PathTest.hit, Bool.and_eq_true, beq_iff_eq] at hh
  exact ⟨q, hq, hb, hh.2, hh.1⟩

/-- **dangling declaration**: no path of the namespace equals the uri prefix up to trailing slashes
— whatever prefixes the published paths share with it — and the lookup finds nothing -/
theorem lookup_dangling (pubs : List Pub) (ns p : String)
    (h : ∀ q ∈ pubs, q.ns = ns → trimR q.path ≠ p) : findBackend .eqTrim pubs ns p = none := by
  cases hf : findBackend .eqTrim pubs ns p with
  | none => rfl
  | some b =>
    obtain ⟨q, hq, _, hn, hp⟩ := lookup_exact_path _ _ _ _ hf
    exact absurd hp (h q hq hn)

/-- **model vs Spec**: the lookup of the code, called as `buildBackendOAuth` calls it, answers iff
the Spec names a target, and its answer is one of the Spec's targets -/
theorem lookup_iff_spec (pubs : List Pub) (ns : String) (ann : Option String) :
    (findBackend .eqTrim pubs ns (uriPrefix ann)).isSome = true ↔ oauthTargets pubs ns ann ≠ [] := by
  rw [findBackend_isSome_iff]
  constructor
  · rintro ⟨q, hq, hh⟩ hnil
    have hm : q.backend ∈ oauthTargets pubs ns ann := by
      simp only [oauthTargets, List.mem_map, List.mem_filter]
      exact ⟨q, ⟨hq, by simpa [PathTest.hit, atPrefix, uriPrefix, and_comm] using hh⟩, rfl⟩
    rw [hnil] at hm
    cases hm
  · intro hne
    cases hl : pubs.filter (atPrefix ns ann) with
    | nil => exact absurd (by simp [oauthTargets, hl]) hne
    | cons q r =>
      have hq : q ∈ pubs.filter (atPrefix ns ann) := by rw [hl]; exact List.mem_cons_self ..
      rw [List.mem_filter] at hq
      exact ⟨q, hq.1, by simpa [PathTest.hit, atPrefix, uriPrefix, and_comm] using hq.2⟩

theorem lookup_in_spec (pubs : List Pub) (ns : String) (ann : Option String) (b : String)
    (h : findBackend .eqTrim pubs ns (uriPrefix ann) = some b) : b ∈ oauthTargets pubs ns ann := by
  obtain ⟨q, hq, hb, hn, hp⟩ := lookup_exact_path _ _ _ _ h
  simp only [oauthTargets, List.mem_map, List.mem_filter, atPrefix, Bool.and_eq_true, beq_iff_eq]
  exact ⟨q, ⟨hq, hn, hp⟩, hb⟩

/-- **unrelated paths decide nothing**: the answer is the answer on the paths that pass the test -/
theorem lookup_only_reads_hits (t : PathTest) (pubs : List Pub) (ns p : String) :
    findBackend t pubs ns p = findBackend t (pubs.filter (t.hit ns p)) ns p := by
  unfold findBackend
  rw [find?_scanOrder_filter]

/-- adding or removing — anywhere in the registration order, on any host, in any namespace — a path
that does not pass the test (for the code: a path that is not equal to the uri prefix up to
trailing slashes, or belongs to another namespace) never changes the answer -/
theorem lookup_ignores_unrelated (t : PathTest) (l1 l2 : List Pub) (q : Pub) (ns p : String)
    (hq : t.hit ns p q = false) :
    findBackend t (l1 ++ q :: l2) ns p = findBackend t (l1 ++ l2) ns p := by
  rw [lookup_only_reads_hits t (l1 ++ q :: l2), lookup_only_reads_hits t (l1 ++ l2)]
  simp [List.filter_append, hq]

/-- a sibling that only shares a prefix with the uri prefix is such a path -/
theorem lookup_ignores_prefix_sibling (l1 l2 : List Pub) (q : Pub) (ns p : String)
    (hq : trimR q.path ≠ p) :
    findBackend .eqTrim (l1 ++ q :: l2) ns p = findBackend .eqTrim (l1 ++ l2) ns p :=
  lookup_ignores_unrelated _ _ _ _ _ _ (by simp [PathTest.hit, hq])

/-- a path of another namespace as well, even when it sits exactly at the uri prefix -/
theorem lookup_ignores_other_namespace (l1 l2 : List Pub) (q : Pub) (ns p : String)
    (hq : q.ns ≠ ns) :
    findBackend .eqTrim (l1 ++ q :: l2) ns p = findBackend .eqTrim (l1 ++ l2) ns p :=
  lookup_ignores_unrelated _ _ _ _ _ _ (by simp [PathTest.hit, hq])

/-- **a function of the SET of published paths** (hostnames sorted since 58bb97c, `Host.Paths`
sorted): two listings of the same paths — any Go map order of `Hosts().Items()`, any registration
order of the ingresses — give the same answer; (host, path) identifies a published path -/
theorem lookup_perm (t : PathTest) (pubs pubs' : List Pub) (ns p : String) (hperm : pubs.Perm pubs')
    (hkey : ∀ a ∈ pubs, ∀ b ∈ pubs, a.host = b.host → a.path = b.path → a = b) :
    findBackend t pubs ns p = findBackend t pubs' ns p := by
  unfold findBackend
  rw [scanOrder_eq_of_perm pubs pubs' hperm hkey]

/-- the visiting order: every published path once, hostnames ascending, paths of a host descending -/
theorem scan_order_sorted (pubs : List Pub) :
    (scanOrder pubs).Perm pubs ∧ (scanOrder pubs).Pairwise (fun a b => pubLe a b = true) :=
  ⟨scanOrder_perm pubs, scanOrder_sorted pubs⟩

/-! ## fail closed with the computed lookup -/

/-- **fail closed, oauth** — `fail_closed_partial` with the lookup computed instead of assumed: for
every list of published paths (siblings sharing a prefix with the uri prefix, trailing slashes,
other hosts, other namespaces), every uri prefix annotation, every world around it and every
iteration order, a path whose oauth outcome is what the code's lookup answers is denied, or
intercepted with `<prefix>/auth` by a backend the Spec names (`oauthTargets`: same namespace, path
equal to the prefix up to trailing slashes) or through a port bound to its own auth-url's service.
Side condition of `fail_closed_partial`: no non-empty auth-url with a placement other than backend. -/
theorem oauth_fail_closed_partial (v : Variant) (hv : v.oauthOwn = true) (pubs : List Pub) (w : World)
    (ho bo : List Nat) (i : Nat) (p : PathIn) (ns : String) (d : OAuthDecl)
    (hbo : bo.Nodup) (hp : w.paths[i]? = some p) (hmem : p.backend ∈ bo)
    (hside : ¬ (p.url.nonEmpty = true ∧ ownPlc p ≠ .backend))
    (hoa : p.oauth = oauthAnnOf .eqTrim pubs ns d) :
    oaPathOk pubs w (run v w ho bo).binds p ⟨ns, some d⟩ (obsOf w (run v w ho bo) i) = true := by
  have hbase := fail_closed_partial v hv w ho bo i p hbo hp hmem hside
  have hdecl : declared p = true := by
    simp only [declared, declaredOAuth, hoa, oauthAnnOf, Bool.or_eq_true]
    right
    split <;> simp
  have hsub : ∀ x ∈ wants w p, x ∈ oaWants pubs w p ⟨ns, some d⟩ := by
    intro x hx
    simp only [wants, List.mem_append] at hx
    simp only [oaWants, wants, List.mem_append]
    rcases hx with hx | hx
    · exact Or.inl (Or.inl hx)
    · right
      rw [hoa] at hx
      unfold oauthAnnOf at hx
      cases hf : findBackend .eqTrim pubs ns (uriPrefix d.pfx) with
      | none => rw [hf] at hx; cases hi : d.implOk <;> simp [hi] at hx
      | some b =>
        rw [hf] at hx
        obtain ⟨implOk, ann⟩ := d
        cases implOk with
        | false => simp at hx
        | true =>
          simp only [List.mem_singleton] at hx
          subst hx
          simp only [List.mem_map]
          exact ⟨b, lookup_in_spec pubs ns ann b hf, rfl⟩
  simp only [pathOk, hdecl, Bool.not_true, Bool.false_or, Bool.or_eq_true, Bool.and_eq_true] at hbase
  simp only [oaPathOk, Bool.or_eq_true, Bool.and_eq_true]
  rcases hbase with h | ⟨h0, h1⟩
  · exact Or.inl (Or.inr (covered_mono hsub _ h))
  · exact Or.inr ⟨covered_mono hsub _ h0, covered_mono hsub _ h1⟩

/-- **a dangling declaration is denied**: oauth declared with an accepted implementation name, no
auth-url on the path, and no path of the namespace published at the uri prefix: the backend section
answers the path with the unconditional deny -/
theorem oauth_dangling_denied (v : Variant) (hv : v.oauthOwn = true) (pubs : List Pub) (w : World)
    (ho bo : List Nat) (i : Nat) (p : PathIn) (ns : String) (ann : Option String)
    (hbo : bo.Nodup) (hp : w.paths[i]? = some p) (hmem : p.backend ∈ bo)
    (hurl : p.url.nonEmpty = false)
    (hoa : p.oauth = oauthAnnOf .eqTrim pubs ns ⟨true, ann⟩)
    (hdang : oauthTargets pubs ns ann = []) :
    (obsOf w (run v w ho bo) i).rb = [.deny] ∨
      ((obsOf w (run v w ho bo) i).r0 = [.deny] ∧ (obsOf w (run v w ho bo) i).r1 = [.deny]) := by
  have h := oauth_fail_closed_partial v hv pubs w ho bo i p ns ⟨true, ann⟩ hbo hp hmem
    (by simp [hurl]) hoa
  have hw : oaWants pubs w p ⟨ns, some ⟨true, ann⟩⟩ = [] := by
    cases hpu : p.url with
    | val u => rw [hpu] at hurl; simp [UrlAnn.nonEmpty] at hurl
    | absent => simp [oaWants, hdang, wants, hpu]
    | empty => simp [oaWants, hdang, wants, hpu]
  simp only [oaPathOk, oaDeclared, Option.isSome_some, Bool.or_true, Bool.not_true, Bool.false_or,
    hw, Bool.or_eq_true, Bool.and_eq_true] at h
  rcases h with h | ⟨h0, h1⟩
  · exact Or.inl (covered_nil h)
  · exact Or.inr ⟨covered_nil h0, covered_nil h1⟩

/-! ## witnesses -/

def pApp : Pub := ⟨"h0.local", "/", "default", "default_app_8080"⟩
def pDocs : Pub := ⟨"h0.local", "/oauth2-docs", "default", "default_docs_8080"⟩
def pProxy : Pub := ⟨"h0.local", "/oauth2", "default", "default_oauth2proxy_8080"⟩
def pProxySlash : Pub := ⟨"h1.local", "/oauth2/", "default", "default_proxy2_8080"⟩
def pForeign : Pub := ⟨"h0.local", "/oauth2", "other", "other_oauth2proxy_8080"⟩

/-- non-vacuity of the lookup theorems: the proxy is found beside a sibling that shares the prefix
and sorts BEFORE it (paths descending), whatever the registration order; trailing slashes and
another host of the namespace count; another namespace does not; the Spec agrees -/
example : findBackend .eqTrim [pApp, pDocs, pProxy] "default" (uriPrefix none) = some "default_oauth2proxy_8080" ∧
    findBackend .eqTrim [pProxy, pApp, pDocs] "default" (uriPrefix none) = some "default_oauth2proxy_8080" ∧
    (scanOrder [pApp, pProxy, pDocs]).map (·.path) = ["/oauth2-docs", "/oauth2", "/"] ∧
    findBackend .eqTrim [pApp, pDocs, pProxySlash] "default" (uriPrefix (some "/oauth2//")) = some "default_proxy2_8080" ∧
    findBackend .eqTrim [pApp, pDocs, pForeign] "default" (uriPrefix none) = none ∧
    oauthTargets [pApp, pDocs, pProxy, pProxySlash, pForeign] "default" none =
      ["default_oauth2proxy_8080", "default_proxy2_8080"] ∧
    oauthTargets [pApp, pDocs, pForeign] "default" none = [] := by
  decide +kernel

/-- the protected path `/` of host h0 (harness: `oa x0l0r2 0.0./.b.0.-.o.-,...`) as the run sees it -/
def wOa (t : PathTest) (pubs : List Pub) : World :=
  mkWorld 14415 14416
    [mkPath 0 0 "h0.local#/" "beg" "h0.local#//sub" .absent .absent (oauthAnnOf t pubs "default" ⟨true, none⟩)]

def dOa : OaDecl := ⟨"default", some ⟨true, none⟩⟩

/-- **seed C18f, first half**: with `strings.HasPrefix` the sibling `/oauth2-docs` — visited before
`/oauth2`, the paths of a host are sorted descending — is taken for the oauth2-proxy: the protected
path is intercepted by the documentation backend; the Spec answers with the clause
`oauth-intercept-by-backend-not-published-at-uri-prefix`.  The code's comparison takes the proxy. -/
theorem prefix_test_takes_sibling_for_proxy :
    let pubs := [pApp, pDocs, pProxy]
    findBackend .hasPrefix pubs "default" (uriPrefix none) = some "default_docs_8080" ∧
    findBackend .eqTrim pubs "default" (uriPrefix none) = some "default_oauth2proxy_8080" ∧
    (let w := wOa .hasPrefix pubs
     let st := run vBoth w [0] [0]
     (obsOf w st 0).rb = [.icpt (.backend "default_docs_8080") "/oauth2/auth" "/oauth2/", .unless true "/oauth2/"] ∧
     oaOracle pubs w st.binds [dOa] [obsOf w st 0] = some sigForeignProxy) ∧
    (let w := wOa .eqTrim pubs
     let st := run vBoth w [0] [0]
     (obsOf w st 0).rb = [.icpt (.backend "default_oauth2proxy_8080") "/oauth2/auth" "/oauth2/", .unless true "/oauth2/"] ∧
     oaOracle pubs w st.binds [dOa] [obsOf w st 0] = none) := by
  decide +kernel

/-- **seed C18f, second half**: a dangling declaration (nothing published at `/oauth2`) is no longer
denied with `strings.HasPrefix`: the sibling's backend decides; the Spec answers
`oauth-dangling-uri-prefix-not-denied`.  The code denies. -/
theorem prefix_test_leaves_dangling_undenied :
    let pubs := [pApp, pDocs]
    oauthTargets pubs "default" none = [] ∧
    (let w := wOa .hasPrefix pubs
     let st := run vBoth w [0] [0]
     (obsOf w st 0).rb = [.icpt (.backend "default_docs_8080") "/oauth2/auth" "/oauth2/", .unless true "/oauth2/"] ∧
     oaOracle pubs w st.binds [dOa] [obsOf w st 0] = some sigDangling) ∧
    (let w := wOa .eqTrim pubs
     let st := run vBoth w [0] [0]
     (obsOf w st 0).rb = [.deny] ∧ oaOracle pubs w st.binds [dOa] [obsOf w st 0] = none) := by
  decide +kernel

/-- the lookup theorems do NOT hold for the prefix test: its answer changes when a path that is
not at the uri prefix is added -/
theorem prefix_test_reads_unrelated_paths :
    findBackend .hasPrefix ([pApp] ++ pDocs :: [pProxy]) "default" "/oauth2" ≠
      findBackend .hasPrefix ([pApp] ++ [pProxy]) "default" "/oauth2" ∧
    trimR pDocs.path ≠ "/oauth2" := by
  decide +kernel

/-! ## facts regenerated from the Go sources -/

/-- the loop of `findBackend` compares the right-trimmed declared path with `==` and tests the
namespace, under one `if` with one `return` of the path's backend; the hostnames are sorted before
the loop and each host's `Paths` is walked in slice order; `Host.addLink` keeps `Paths` sorted by path
descending; `buildBackendOAuth` starts from `/oauth2`, takes `oauth-uri-prefix` when it has a source,
right-trims it, looks in the namespace of the oauth annotation's source and builds `<prefix>/`,
`<prefix>/auth` from the same value (`currentPathTest = eqTrim`) -/
theorem facts_c18_oauth :
    Facts.c18FindBackendConds = ["strings.TrimRight(path.Path(), \"/\") == uriPrefix && path.Backend.Namespace == namespace"] ∧
    Facts.c18FindBackendReturns = ["return &path.Backend", "return nil"] ∧
    Facts.c18FindBackendRanges = ["hosts", "hostnames", "host.Paths"] ∧
    Facts.c18FindBackendSort = ["sort.Strings(hostnames)"] ∧
    Facts.c18HostAddLinkCmps = ["p1.Link.path == p2.Link.path", "p1.order < p2.order", "p1.Link.path > p2.Link.path"] ∧
    Facts.c18OAuthPrefixAssigns = ["uriPrefix := \"/oauth2\"", "uriPrefix = prefix.Value", "uriPrefix = strings.TrimRight(uriPrefix, \"/\")",
      "namespace := oauth.Source.Namespace", "backend := c.findBackend(namespace, uriPrefix)"] ∧
    Facts.c18OAuthPrefixConds = ["prefix.Source != nil"] ∧
    Facts.c18OAuthPathAssigns = ["path.AuthExternal.AuthBackendName = backend.ID", "path.AuthExternal.AllowedPath = uriPrefix + \"/\"",
      "path.AuthExternal.AuthPath = uriPrefix + \"/auth\""] ∧
    currentPathTest = .eqTrim := by
  decide +kernel

end HapVerif.C18
