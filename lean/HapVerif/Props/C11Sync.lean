import HapVerif.Model.C11Sync
import HapVerif.Generated.CodeC12
import HapVerif.Generated.Facts
/-!
# C11, world level — why a no-op resync of the REAL pipeline does not reload: `SyncConfig ; Shrink`

`Model/C11Sync.lean` models the two steps `instance.HAProxyUpdate` runs on the store before anything is compared:
`derive` (= `config.SyncConfig()`: attributes the converters do not write, derived from the hosts of `ItemsAdd()`
only — `backend.TLS.HasTLSAuth` of the backends of a host asking for a client certificate) and `shrink`
(= `config.Shrink()`: a re-created item equal to the committed one leaves the changed sets).

* `noop_derive_then_shrink_quiet` — for EVERY committed store whose flags are the derived ones and EVERY no-op
  re-creation (any subset of hosts and backends removed and created again with the content the converter wrote
  before: the backends WITHOUT the derived flag), closed under the host — backend links: after `derive ; shrink`
  no host and no backend is left in the changed sets, nothing asks for a reload (`outsideDiff = false`), and the
  committed store is the one before.
* `inv_boot`, `inv_cycle`, `inv_history` — the premise "the committed flags are the derived ones" holds after the
  first update and is kept by every update cycle (whatever the batch changes, dirty sets closed under the
  links), so it holds along every history.
* `seeded_shrink_first_reloads` — kernel-checked witness: with `shrink ; derive` (Shrink moved before SyncConfig,
  seeded defect C11f) the no-op re-notification of a host with `auth-tls-secret` leaves its backend changed with a
  difference outside the endpoints (reload) and commits the backend WITHOUT the flag (the reloaded configuration
  loses the client-certificate headers); `deriveFirst` is quiet on the same input.
* `orders_agree_without_derived` — without a host that gives a derived attribute both orders compute the same:
  the defect is invisible to worlds without such hosts.
* `full_sync_every_host_added`, `full_sync_reloads`, `full_sync_reloads_uncommitted`, `full_sync_noop_reloads` — the
  KNOWN FINDING `reload-on-noop:full-sync-rebuilds-every-host`: a full sync starts from `config.Clear()`, Hosts keeps
  no `ItemsDel()` and the committed global is dropped, so a no-op notification of a full-sync kind reloads.
* `syncConfig_before_shrink` — tie to the code: in the REGENERATED translation of `instance.HAProxyUpdate`
  (`Generated/CodeC12.lean`) every update of a configured instance starts with `SyncConfig` and then `Shrink`,
  for every oracle of the writes / the dynamic updater and every instance state.
-/
namespace HapVerif.C11Sync

/-! ### small facts -/

theorem mark_id (hs : List Host) (b : Bk) : (mark hs b).id = b.id := by
  unfold mark; split <;> rfl

theorem mark_body (hs : List Host) (b : Bk) : (mark hs b).body = b.body := by
  unfold mark; split <;> rfl

theorem mark_flag (hs : List Host) (b : Bk) : (mark hs b).flag = (b.flag || wants hs b.id) := by
  unfold mark
  by_cases h : wants hs b.id = true
  · simp [h]
  · have h' : wants hs b.id = false := by simpa using h
    simp [h']

theorem bk_ext {a b : Bk} (h1 : a.id = b.id) (h2 : a.body = b.body) (h3 : a.flag = b.flag) : a = b := by
  cases a; cases b; simp_all

theorem wants_iff (hs : List Host) (id : String) : wants hs id = true ↔ ∃ h ∈ hs, gives h id = true := by
  simp [wants, List.any_eq_true]

theorem wants_append (a b : List Host) (id : String) : wants (a ++ b) id = (wants a id || wants b id) := by
  simp [wants, List.any_append]

/-- `wants` only looks at which hosts there are -/
theorem wants_congr {a b : List Host} (h : ∀ x, x ∈ a ↔ x ∈ b) (id : String) : wants a id = wants b id := by
  apply Bool.eq_iff_iff.mpr
  rw [wants_iff, wants_iff]
  constructor
  · rintro ⟨x, hx, hg⟩; exact ⟨x, (h x).mp hx, hg⟩
  · rintro ⟨x, hx, hg⟩; exact ⟨x, (h x).mpr hx, hg⟩

theorem wants_false_iff (hs : List Host) (id : String) : wants hs id = false ↔ ∀ h ∈ hs, gives h id = false := by
  constructor
  · intro hw h hh
    cases hg : gives h id
    · rfl
    · have : wants hs id = true := (wants_iff hs id).mpr ⟨h, hh, hg⟩
      rw [hw] at this; cases this
  · intro hall
    cases hw : wants hs id
    · rfl
    · obtain ⟨h, hh, hg⟩ := (wants_iff hs id).mp hw
      rw [hall h hh] at hg; cases hg

/-- a committed backend that already has what the added hosts give is not touched by SyncConfig -/
theorem mark_eq_self {hs : List Host} {b : Bk} (h : wants hs b.id = true → b.flag = true) : mark hs b = b := by
  apply bk_ext (mark_id _ _) (mark_body _ _)
  rw [mark_flag]
  cases hw : wants hs b.id
  · simp
  · simp [h hw]

/-- the items of the store are the same before and after Shrink (the committed object takes the place of the
equal re-created one) -/
theorem shrink_hosts (m : Mid) (x : Host) : x ∈ (shrink m).hosts ↔ x ∈ m.hosts := by
  simp only [Mid.hosts, shrink, List.mem_append, List.mem_filter]
  constructor
  · rintro ((h | ⟨h, _⟩) | ⟨h, _⟩)
    · exact Or.inl h
    · exact Or.inr h
    · exact Or.inr h
  · rintro (h | h)
    · exact Or.inl (Or.inl h)
    · by_cases hc : m.hDel.contains x = true
      · exact Or.inl (Or.inr ⟨h, hc⟩)
      · exact Or.inr ⟨h, by simp only [Bool.not_eq_true] at hc; simp only [hc, Bool.not_false]⟩

theorem shrink_backs (m : Mid) (x : Bk) : x ∈ (shrink m).backs ↔ x ∈ m.backs := by
  simp only [Mid.backs, shrink, List.mem_append, List.mem_filter]
  constructor
  · rintro ((h | ⟨h, _⟩) | ⟨h, _⟩)
    · exact Or.inl h
    · exact Or.inr h
    · exact Or.inr h
  · rintro (h | h)
    · exact Or.inl (Or.inl h)
    · by_cases hc : m.bDel.contains x = true
      · exact Or.inl (Or.inr ⟨h, hc⟩)
      · exact Or.inr ⟨h, by simp only [Bool.not_eq_true] at hc; simp only [hc, Bool.not_false]⟩

theorem filter_eq_nil' {α} (p : α → Bool) (l : List α) (h : ∀ x ∈ l, p x = false) : l.filter p = [] := by
  induction l with
  | nil => rfl
  | cons a t ih =>
    have ha := h a (List.mem_cons_self ..)
    simp only [List.filter_cons, ha, Bool.false_eq_true, ↓reduceIte]
    exact ih fun x hx => h x (List.mem_cons_of_mem _ hx)

/-! ### the no-op statement -/

/-- what SyncConfig makes of a re-created backend under the premises: the committed backend -/
theorem noop_mark_is_committed {s : Store} {r : Recr} (hi : Inv s) (hn : NoOp s r) (hc : Closed s r)
    {b : Bk} (hb : b ∈ r.backs) : ∃ d ∈ s.backs, d.id = b.id ∧ mark r.hosts b = d := by
  obtain ⟨hn1, hn2, hn3, _⟩ := hn
  obtain ⟨hf, _, d, hd, hid, hbody⟩ := hn3 b hb
  refine ⟨d, hd, hid, ?_⟩
  apply bk_ext (by rw [mark_id, hid]) (by rw [mark_body, hbody])
  rw [mark_flag, hf, Bool.false_or, hi d hd, hid]
  apply Bool.eq_iff_iff.mpr
  rw [wants_iff, wants_iff]
  constructor
  · rintro ⟨h, hh, hg⟩; exact ⟨h, (hn1 h hh).1, hg⟩
  · rintro ⟨h, hh, hg⟩; exact ⟨h, hn2 h hh (hc b hb h hh hg), hg⟩

/-- **No-op resyncs stay quiet.**  For every committed store (names are keys, flags are the derived ones), every
no-op re-creation closed under the links: `SyncConfig ; Shrink` leaves nothing in the changed sets, nothing that
asks for a reload, and the store it started from. -/
theorem noop_derive_then_shrink_quiet (s : Store) (r : Recr) (hk : Keyed s) (hi : Inv s) (hn : NoOp s r)
    (hc : Closed s r) :
    (cycle .deriveFirst s r).hAdd = [] ∧ (cycle .deriveFirst s r).hDel = [] ∧
    (cycle .deriveFirst s r).bAdd = [] ∧ (cycle .deriveFirst s r).bDel = [] ∧
    outsideDiff (cycle .deriveFirst s r) = false ∧
    (∀ h, h ∈ (cycle .deriveFirst s r).hosts ↔ h ∈ s.hosts) ∧
    (∀ b, b ∈ (cycle .deriveFirst s r).backs ↔ b ∈ s.backs) := by
  have hmk := fun b hb => noop_mark_is_committed hi hn hc (b := b) hb
  obtain ⟨hn1, hn2, hn3, hn4⟩ := hn
  -- the four changed sets
  have e1 : (cycle .deriveFirst s r).hAdd = [] := by
    simp only [cycle, shrink, derive, enter]
    apply filter_eq_nil'
    intro h hh
    have hx := hn1 h hh
    have hm : (s.hosts.filter fun h => r.hostsDel.contains h.name).contains h = true :=
      List.contains_iff_mem.mpr (List.mem_filter.mpr ⟨hx.1, hx.2⟩)
    simp only [hm, Bool.not_true]
  have e2 : (cycle .deriveFirst s r).hDel = [] := by
    simp only [cycle, shrink, derive, enter]
    apply filter_eq_nil'
    intro h hh
    obtain ⟨hs, hd⟩ := List.mem_filter.mp hh
    have hm : r.hosts.contains h = true := List.contains_iff_mem.mpr (hn2 h hs hd)
    simp only [hm, Bool.not_true]
  have e3 : (cycle .deriveFirst s r).bAdd = [] := by
    simp only [cycle, shrink, derive, enter]
    apply filter_eq_nil'
    intro x hx
    obtain ⟨b, hb, rfl⟩ := List.mem_map.mp hx
    obtain ⟨d, hd, hid, he⟩ := hmk b hb
    have hdirty := (hn3 b hb).2.1
    have hm : (s.backs.filter fun b => r.backsDel.contains b.id).contains (mark r.hosts b) = true := by
      rw [he]
      exact List.contains_iff_mem.mpr (List.mem_filter.mpr ⟨hd, by show r.backsDel.contains d.id = true; rw [hid]; exact hdirty⟩)
    simp only [hm, Bool.not_true]
  have e4 : (cycle .deriveFirst s r).bDel = [] := by
    simp only [cycle, shrink, derive, enter]
    apply filter_eq_nil'
    intro d hd
    obtain ⟨hs, hdirty⟩ := List.mem_filter.mp hd
    obtain ⟨b, hb, hid⟩ := hn4 d hs hdirty
    obtain ⟨d', hd', hid', he⟩ := hmk b hb
    have : d' = d := hk.2 d' hd' d hs (by rw [hid', hid])
    have hm : (r.backs.map (mark r.hosts)).contains d = true :=
      List.contains_iff_mem.mpr (List.mem_map.mpr ⟨b, hb, by rw [he, this]⟩)
    simp only [hm, Bool.not_true]
  refine ⟨e1, e2, e3, e4, ?_, ?_, ?_⟩
  · simp [outsideDiff, e1, e2, e3, e4]
  · intro h
    unfold cycle
    rw [shrink_hosts]
    simp only [Mid.hosts, derive, enter, List.mem_append, List.mem_filter]
    constructor
    · rintro (⟨hs, _⟩ | hr)
      · exact hs
      · exact (hn1 h hr).1
    · intro hs
      cases hd : r.hostsDel.contains h.name
      · exact Or.inl ⟨hs, by simp only [Bool.not_false]⟩
      · exact Or.inr (hn2 h hs hd)
  · intro b
    unfold cycle
    rw [shrink_backs]
    simp only [Mid.backs, derive, enter, List.mem_append, List.mem_map, List.mem_filter]
    -- a bystander already has what the added hosts give (they are committed hosts)
    have keep : ∀ d ∈ s.backs, mark r.hosts d = d := fun d hd => mark_eq_self fun hw => by
      rw [hi d hd]
      obtain ⟨h, hh, hg⟩ := (wants_iff _ _).mp hw
      exact (wants_iff _ _).mpr ⟨h, (hn1 h hh).1, hg⟩
    constructor
    · rintro (⟨d, ⟨hs, _⟩, rfl⟩ | ⟨x, hx, rfl⟩)
      · rw [keep d hs]; exact hs
      · obtain ⟨d, hd, _, he⟩ := hmk x hx
        rw [he]; exact hd
    · intro hs
      cases hd : r.backsDel.contains b.id
      · exact Or.inl ⟨b, ⟨hs, by simp only [hd, Bool.not_false]⟩, keep b hs⟩
      · obtain ⟨x, hx, hid⟩ := hn4 b hs hd
        obtain ⟨d', hd', hid', he⟩ := hmk x hx
        have : d' = b := hk.2 d' hd' b hs (by rw [hid', hid])
        exact Or.inr ⟨x, hx, by rw [he, this]⟩

/-! ### the premise "the committed flags are the derived ones" along every history -/

/-- the first update: nothing is committed, the converters build everything (no backend carries the flag yet) -/
theorem inv_boot (r : Recr) (hf : ∀ b ∈ r.backs, b.flag = false) :
    Inv (commit (cycle .deriveFirst { hosts := [], backs := [] } r)) := by
  intro x hx
  simp only [commit] at hx ⊢
  unfold cycle at hx ⊢
  rw [shrink_backs] at hx
  rw [wants_congr (shrink_hosts _) x.id]
  simp only [Mid.backs, Mid.hosts, derive, enter, List.filter_nil, List.map_nil, List.nil_append, List.mem_map] at hx ⊢
  obtain ⟨b, hb, rfl⟩ := hx
  rw [mark_flag, mark_id, hf b hb, Bool.false_or]

/-- what a batch has to respect for the flags to stay the derived ones: the converters create backends without
the flag, and the dirty sets are closed under the links host — backend in both directions (a committed host that
is not re-created gives nothing to a re-created backend; a committed backend that is not re-created gets nothing
from a host that is removed or re-created) -/
def BatchOk (s : Store) (r : Recr) : Prop :=
  (∀ b ∈ r.backs, b.flag = false) ∧
  (∀ b ∈ r.backs, ∀ h ∈ s.hosts, r.hostsDel.contains h.name = false → gives h b.id = false) ∧
  (∀ d ∈ s.backs, r.backsDel.contains d.id = false → ∀ h ∈ s.hosts, r.hostsDel.contains h.name = true → gives h d.id = false)

theorem inv_cycle (s : Store) (r : Recr) (hi : Inv s) (hb : BatchOk s r) :
    Inv (commit (cycle .deriveFirst s r)) := by
  obtain ⟨hf, hc1, hc2⟩ := hb
  intro x hx
  simp only [commit] at hx ⊢
  unfold cycle at hx ⊢
  rw [shrink_backs] at hx
  rw [wants_congr (shrink_hosts _) x.id]
  simp only [Mid.backs, Mid.hosts, derive, enter, List.mem_append, List.mem_map, List.mem_filter] at hx ⊢
  rw [wants_append]
  rcases hx with ⟨d, ⟨hs, hkeep⟩, rfl⟩ | ⟨b, hb', rfl⟩
  · -- a bystander: its committed flag comes from hosts that stay, the added hosts may add to it
    have hkeep' : r.backsDel.contains d.id = false := by simpa using hkeep
    rw [mark_flag, mark_id, hi d hs]
    congr 1
    apply Bool.eq_iff_iff.mpr
    rw [wants_iff, wants_iff]
    constructor
    · rintro ⟨h, hh, hg⟩
      cases hd : r.hostsDel.contains h.name
      · exact ⟨h, List.mem_filter.mpr ⟨hh, by show (!r.hostsDel.contains h.name) = true; rw [hd]; rfl⟩, hg⟩
      · rw [hc2 d hs hkeep' h hh hd] at hg; cases hg
    · rintro ⟨h, hh, hg⟩
      exact ⟨h, (List.mem_filter.mp hh).1, hg⟩
  · -- a re-created backend: the hosts that stay give it nothing
    rw [mark_flag, mark_id, hf b hb', Bool.false_or]
    have : wants (s.hosts.filter fun h => !r.hostsDel.contains h.name) b.id = false := by
      rw [wants_false_iff]
      intro h hh
      obtain ⟨hs, hk⟩ := List.mem_filter.mp hh
      exact hc1 b hb' h hs (by simpa using hk)
    rw [this, Bool.false_or]

/-- the stores of a history of update cycles -/
def runStores (s : Store) : List Recr → Store
  | [] => s
  | r :: rs => runStores (commit (cycle .deriveFirst s r)) rs

/-- every batch respects `BatchOk` in the state it meets -/
def HistOk : Store → List Recr → Prop
  | _, [] => True
  | s, r :: rs => BatchOk s r ∧ HistOk (commit (cycle .deriveFirst s r)) rs

theorem inv_history (s : Store) (rs : List Recr) (hi : Inv s) (hok : HistOk s rs) : Inv (runStores s rs) := by
  induction rs generalizing s with
  | nil => exact hi
  | cons r rs ih => exact ih _ (inv_cycle s r hi hok.1) hok.2

/-- the computable closure check of the driver is the premise `Closed` -/
theorem closed_of_check (s : Store) (r : Recr) (h : closedOk s r = true) : Closed s r := by
  intro b hb x hx hg
  simp only [closedOk, List.all_eq_true] at h
  have := h b hb x hx
  simpa [hg] using this

/-! ### the seeded order -/

def exHost : Host := { name := "a.local", auth := true, pass := false, own := ["d_app_8080"] }
def exStore : Store := { hosts := [exHost], backs := [{ id := "d_app_8080", body := 0, flag := true }] }
/-- a no-op re-notification: host and backend removed and created again as the converter writes them -/
def exRecr : Recr :=
  { hostsDel := ["a.local"], hosts := [exHost], backsDel := ["d_app_8080"], backs := [{ id := "d_app_8080", body := 0, flag := false }] }

/-- **Seeded defect C11f** (`Shrink` before `SyncConfig`): Hosts.Shrink drops the unchanged host from `ItemsAdd()`
first, SyncConfig then has no host to visit, the re-created backend keeps `HasTLSAuth = false` and differs from the
committed one outside its endpoints — reload — and the flag is lost in the committed store.  The code's order is
quiet on the same input. -/
theorem seeded_shrink_first_reloads :
    changedBacks (cycle .shrinkFirst exStore exRecr) = ["d_app_8080"] ∧
    outsideDiff (cycle .shrinkFirst exStore exRecr) = true ∧
    (commit (cycle .shrinkFirst exStore exRecr)).backs = [{ id := "d_app_8080", body := 0, flag := false }] ∧
    changedBacks (cycle .deriveFirst exStore exRecr) = [] ∧
    outsideDiff (cycle .deriveFirst exStore exRecr) = false ∧
    (commit (cycle .deriveFirst exStore exRecr)).backs = exStore.backs := by
  decide +kernel

/-- non-vacuity of `noop_derive_then_shrink_quiet`: the example satisfies its premises -/
example : Keyed exStore ∧ Inv exStore ∧ NoOp exStore exRecr ∧ Closed exStore exRecr := by
  refine ⟨⟨?_, ?_⟩, ?_, ⟨?_, ?_, ?_, ?_⟩, ?_⟩ <;> simp [exStore, exRecr, exHost, Inv, Closed, wants, gives]

theorem derive_id_without_derived (m : Mid) (h : ∀ x ∈ m.hAdd, ∀ id, gives x id = false) : derive m = m := by
  have hw : ∀ id, wants m.hAdd id = false := fun id => (wants_false_iff _ _).mpr fun x hx => h x hx id
  have hm : ∀ b : Bk, mark m.hAdd b = b := fun b => mark_eq_self fun hh => by rw [hw] at hh; cases hh
  have hmap : ∀ l : List Bk, l.map (mark m.hAdd) = l := fun l => by
    induction l with
    | nil => rfl
    | cons a t ih => rw [List.map_cons, hm a, ih]
  unfold derive
  rw [hmap, hmap]

/-- without a re-created host that gives a derived attribute both orders compute the same: plain hosts, TLS hosts
without a CA and ssl-passthrough hosts do not see the swap -/
theorem orders_agree_without_derived (s : Store) (r : Recr) (h : ∀ x ∈ r.hosts, ∀ id, gives x id = false) :
    cycle .shrinkFirst s r = cycle .deriveFirst s r := by
  unfold cycle
  simp only
  rw [derive_id_without_derived (enter s r) (by simpa [enter] using h)]
  apply derive_id_without_derived
  intro x hx id
  simp only [shrink, enter, List.mem_filter] at hx
  exact h x hx.1 id

/-! ### full syncs: a known finding

A notification of a full-sync kind (IngressClass, Gateway-API objects) makes the converters rebuild everything from
`config.Clear()`.  `Backends` survives `Clear` (the committed items become `ItemsDel()`, unchanged backends
shrink), `Hosts` does not and the committed global is dropped: HAProxy reloads although the rebuilt configuration is
the committed one.  Full strength (what the property demands, and what `noop_derive_then_shrink_quiet` gives for a
PARTIAL sync that re-creates every item): `NoOp' s r → reloadDecision _ (cycleFull s r) = false`.  It does not hold: -/

/-- every rebuilt host stays in `ItemsAdd()` after a full sync, whatever was committed -/
theorem full_sync_every_host_added (s : Store) (r : Recr) : (cycleFull s r).hAdd = r.hosts := by
  simp [cycleFull, shrink, derive, enterFull]

/-- … so a full sync with at least one host asks for a reload even if the committed state were kept … -/
theorem full_sync_reloads (s : Store) (r : Recr) (h : r.hosts ≠ []) (committed : Bool) :
    reloadDecision committed (cycleFull s r) = true := by
  have hadd := full_sync_every_host_added s r
  have hdel : (cycleFull s r).hDel = [] := by simp [cycleFull, shrink, derive, enterFull]
  cases hr : r.hosts with
  | nil => exact absurd hr h
  | cons x xs =>
    simp [reloadDecision, outsideDiff, hadd, hdel, hr]

/-- … and it always does, since `Clear` drops the committed state -/
theorem full_sync_reloads_uncommitted (s : Store) (r : Recr) : reloadDecision false (cycleFull s r) = true := by
  simp [reloadDecision]

/-- kernel-checked witness of the known finding `reload-on-noop:full-sync-rebuilds-every-host`: the store of one host
and one backend rebuilt identically by a full sync — the backend shrinks (nothing to update), the host is reported
as changed, the update reloads; the same re-creation as a PARTIAL sync is quiet -/
theorem full_sync_noop_reloads :
    changedBacks (cycleFull exStore exRecr) = [] ∧ changedHosts (cycleFull exStore exRecr) = ["a.local"] ∧
    outsideDiff (cycleFull exStore exRecr) = true ∧ reloadDecision false (cycleFull exStore exRecr) = true ∧
    (commit (cycleFull exStore exRecr)).backs = exStore.backs ∧ (commit (cycleFull exStore exRecr)).hosts = exStore.hosts ∧
    reloadDecision true (cycle .deriveFirst exStore exRecr) = false := by
  decide +kernel

/-! ### tie to the code: the statement order of `instance.HAProxyUpdate` -/

/-- case split on a Bool subterm, then evaluate the conditionals it decides (the tactic of Props/C12Tie.lean) -/
macro "c11bc " t:term : tactic => `(tactic| first
  | (cases hbc : ($t : Bool) <;>
     simp only [hbc, Bool.false_eq_true, ↓reduceIte, Bool.not_true, Bool.not_false, Bool.true_and, Bool.false_and,
       Bool.and_true, Bool.and_false, Bool.or_true, Bool.or_false, Bool.true_or, Bool.false_or, decide_true,
       decide_false, bne_self_eq_false, Option.some.injEq, reduceCtorEq])
  | skip)

macro "c11bp " t:term : tactic => `(tactic| first
  | (by_cases hbp : ($t : Prop) <;>
     simp only [hbp, Bool.false_eq_true, ↓reduceIte, Bool.not_true, Bool.not_false, Bool.true_and, Bool.false_and,
       Bool.and_true, Bool.and_false, Bool.or_true, Bool.or_false, Bool.true_or, Bool.false_or, decide_true,
       decide_false, not_true_eq_false, not_false_eq_true])
  | skip)

open HapVerif.GoLib in
/-- in the regenerated translation of `HAProxyUpdate` every update of a configured instance begins with
`SyncConfig` and then `Shrink`, whatever the writes, the dynamic updater and the reload answer: the whole decision
tree of the skeleton is walked (every Bool it looks at, in program order) -/
theorem syncConfig_before_shrink (env : Env) (i : InstView) (h : i.configNil = false) :
    ((CodeC12.haproxyUpdate env i []).2.1).take 2 = ["SyncConfig", "Shrink"] := by
  unfold CodeC12.haproxyUpdate
  simp only [GoLib.callE, GoLib.eff, GoLib.callB, GoLib.effB, GoLib.readB, GoLib.readN, GoLib.nil, GoLib.errorf]
  simp only [h]
  c11bc i.rewriteOwed
  all_goals c11bc env.fail "WriteTCPServicesMaps"
  all_goals try rfl
  all_goals c11bc env.fail "WriteFrontendMaps"
  all_goals try rfl
  all_goals c11bc env.fail "WriteBackendMaps"
  all_goals try rfl
  all_goals c11bc env.fail "writeCrtLists"
  all_goals try rfl
  all_goals c11bc i.fake
  all_goals c11bc env.val "dynupdate"
  all_goals c11bc (i.sortEndpointsBy != "random")
  all_goals c11bp (env.num "cmdCnt" > 0)
  all_goals c11bc env.val "Backends.Changed"
  all_goals c11bc env.fail "writeConfig"
  all_goals try rfl
  all_goals c11bc i.reloadOwed
  all_goals c11bc i.validateConfig
  all_goals c11bc env.fail "check"
  all_goals try rfl
  all_goals c11bc i.hasReloadQueue
  all_goals try rfl
  all_goals c11bc env.fail "Reload"
  all_goals try rfl
  all_goals c11bp (env.num "cmdCnt" > 0)
  all_goals try rfl
  all_goals c11bc i.validateConfig
  all_goals c11bc env.fail "check"
  all_goals try rfl
  all_goals c11bc i.hasReloadQueue
  all_goals c11bc env.fail "Reload"
  all_goals rfl

/-- non-vacuity: the trace of an update whose frontend maps cannot be written -/
example :
    (CodeC12.haproxyUpdate ⟨fun n => n == "WriteFrontendMaps", fun _ => true, fun _ => 0⟩
      ⟨false, false, false, true, true, "endpoint", false, false, true, false⟩ []).2.1 =
      ["SyncConfig", "Shrink", "WriteTCPServicesMaps", "WriteFrontendMaps", "metric:noop", "Commit"] := by
  decide +kernel

/-- facts regenerated from the Go source on every run: `HAProxyUpdate` calls `SyncConfig` and then `Shrink` before
its first assignment (the deferred `Commit` aside); `TLS.HasTLSAuth` is assigned in `config.SyncConfig` only — no
converter or annotation updater writes it, so a re-created backend enters the cycle without it — and SyncConfig
reads the hosts of `ItemsAdd()` only; `backendsMatch` neutralises `PathsMap`, `pathConfig` and `Endpoints` and does
not neutralise `TLS`: the derived flag is compared (whether `PathsDefaultHostMap` is compared is read by the driver
from the same fact) -/
theorem facts_c11_sync :
    Facts.c11UpdatePrologue = ["if:i.config==nil=>return:nil", "defer:i.config.Commit", "call:i.config.SyncConfig",
      "call:i.config.Shrink"] ∧
    Facts.c11HasTLSAuthWriters = ["pkg/haproxy/config.go:SyncConfig:backend.TLS.HasTLSAuth=true"] ∧
    Facts.c11SyncConfigHostSource = ["c.hosts.ItemsAdd"] ∧
    ["PathsMap", "pathConfig", "Endpoints"].all (Facts.c11BackendsMatchNeutralised.contains ·) = true ∧
    Facts.c11BackendsMatchNeutralised.contains "TLS" = false := by
  decide +kernel

end HapVerif.C11Sync
