import HapVerif.Model.C09
import HapVerif.Generated.CodeC09
/-!
# C09 — tie between the model and the source (`buildResourceName`)

`HapVerif.CodeC09.buildResourceName` is REGENERATED on every run from `pkg/controller/services/cache.go`: the
function through which EVERY getter of the cache facade (GetService, GetTLSSecretPath, GetCASecretPath,
GetPasswdSecretContent, …) turns a reference written by a tenant into the namespace/name it reads, and the only
place a cross-namespace read is refused.  The theorem states that it is the model's `C09.buildResourceName` — the
function the isolation theorems of C09 (`carrier_isolation`, `getter_denied_iff`, …) are about — for every default
namespace, reference text and permission bit.  client-go's `cache.SplitMetaNamespaceKey` enters as the model's
`splitKey` (`strings.Split(s, "/")`: one part = no namespace, two parts = namespace/name, otherwise an error).
-/
namespace HapVerif.C09Tie
open HapVerif HapVerif.C09

/-- client-go's `SplitMetaNamespaceKey` as the model reads it: (namespace, name, error) -/
def splitKeyGo (s : Str) : Str × Str × Option String :=
  match C09.splitKey s with
  | some (ns, n) => (ns, n, none)
  | none => ([], [], some "unexpected key format")

/-- how the three results are read: no error = the object `ns/name` is read; the split error = malformed; the
refusal of `buildResourceName` itself = denied -/
def toRes : Str × Str × Option String → Res
  | (ns, name, none) => .obj ns name
  | (_, _, some e) => if e = "cross-namespace" then .denied else .invalid

/-- **the translated `buildResourceName` is the model's** -/
theorem buildResourceName_tie (dns kind value : Str) (allow : Bool) :
    toRes (CodeC09.buildResourceName splitKeyGo dns kind value allow) = C09.buildResourceName dns value allow := by
  unfold CodeC09.buildResourceName C09.buildResourceName buildResourceNameK splitKeyGo
  cases hk : C09.splitKey value with
  | none => simp [toRes, GoLib.nil]
  | some p =>
    obtain ⟨ns, n⟩ := p
    have he : ((none : Option String) != GoLib.nil) = false := rfl
    simp only [he, Bool.false_eq_true, if_false, GoLib.chars, String.toList_empty]
    by_cases h1 : dns = []
    · simp [h1, toRes, GoLib.nil]
    · have h1b : (dns == ([] : List Char)) = false := by simpa using h1
      simp only [h1b, Bool.false_eq_true, if_false, h1]
      by_cases h2 : ns = []
      · simp [h2, toRes, GoLib.nil]
      · have h2b : (ns == ([] : List Char)) = false := by simpa using h2
        simp only [h2b, Bool.false_eq_true, if_false, h2]
        by_cases h3 : (allow || ns == dns) = true
        · have h3' : (allow || decide (ns = dns)) = true := by simpa using h3
          simp [h3, h3', toRes, GoLib.nil]
        · have h3f : (allow || ns == dns) = false := by simpa using h3
          have h3' : (allow || decide (ns = dns)) = false := by simpa using h3
          simp [h3f, h3', toRes, GoLib.errorfCross]

/-- non-vacuity: namespace `a`, reference `b/crt`, permission off: refused; permission on: `b/crt` is read -/
example : toRes (CodeC09.buildResourceName splitKeyGo "a".toList "secret".toList "b/crt".toList false) = .denied := by decide
example : toRes (CodeC09.buildResourceName splitKeyGo "a".toList "secret".toList "b/crt".toList true) = .obj "b".toList "crt".toList := by decide
example : toRes (CodeC09.buildResourceName splitKeyGo "a".toList "secret".toList "crt".toList false) = .obj "a".toList "crt".toList := by decide

end HapVerif.C09Tie
