import HapVerif.Model.C14
namespace HapVerif.C14
end HapVerif.C14
