import HapVerif.Lemmas.C14
import HapVerif.Generated.Facts
/-!
# C14 — every Kubernetes event lands in exactly one reconciliation batch

Model: `HapVerif.C14.run c ops` — the watchers' accumulator (`w.ch`) driven by an arbitrary
sequence `ops : List Op` of ATOMIC steps: `Op.ev e` = one event offered by an informer goroutine
(predicates, then `hdlr.Create/Update/Delete/Generic` under `watchers.mu`), `Op.swap` =
`getChangedObjects` (copy + `initCh` under the same mutex).  Every interleaving of the per-kind
informer goroutines with reconciliations is such a sequence, so a statement `∀ ops` is a statement
about every interleaving.  (That the steps are atomic — the mutex — is modelled, not verified;
it is exercised by the concurrent harness run under the race detector.)

"Accepted" = `accepts c e` (the handler's predicate list, checked against the real predicates by
the harness on every case).  An event is located by the ops before it (`pre`), the ops up to the
next swap (`mid`, swap-free) and the rest (`post`); the batch that swap returns has index
`swapCount pre`.
-/
namespace HapVerif.C14

/-! ## (1) exactly once -/

/-- **No event is lost, and it is in the NEXT batch.**  Every accepted create/update/delete event
has its resource link, its change description and (for the kinds that have typed lists) its
list entry in the batch returned by the first swap after it — whatever happened before
(`pre`), between (`mid`) and after (`post`). -/
theorem delivered_in_next_batch (c : Cfg) (pre mid post : List Op) (e : Event)
    (ha : accepts c e = true) (hg : e.typ ≠ .generic) (hm : ∀ o ∈ mid, o ≠ Op.swap) :
    ∃ b, (run c (pre ++ .ev e :: (mid ++ .swap :: post))).1[swapCount pre]? = some b ∧
      linkOf e ∈ b.links ∧ descrOf e ∈ b.objects ∧ (∀ x, entryOf e = some x → x ∈ b.typed) ∧
      (e.kind.full = true → b.full = true) := by
  obtain ⟨w, hw, hew⟩ := windows_decomp (accepts c) pre mid post e ha hm
  have hlen := batchesOf_length (windows (accepts c) (pre ++ .ev e :: (mid ++ .swap :: post))).1 none none
  have hlt : swapCount pre < (windows (accepts c) (pre ++ .ev e :: (mid ++ .swap :: post))).1.length := by
    have := List.getElem?_eq_some_iff.mp hw; exact this.1
  rw [run_batches]
  have hlt' : swapCount pre < (batchesOf none none (windows (accepts c) (pre ++ .ev e :: (mid ++ .swap :: post))).1).length := by
    rw [hlen]; exact hlt
  refine ⟨_, List.getElem?_eq_getElem hlt', ?_⟩
  obtain ⟨w', g', t', h1, h2⟩ := batchesOf_getElem? _ none none (swapCount pre) _ (List.getElem?_eq_getElem hlt')
  rw [hw] at h1
  cases h1
  rw [h2]
  refine ⟨?_, ?_, ?_, ?_⟩
  · rw [mem_accum_links]; exact Or.inr ⟨e, hew, hg, rfl⟩
  · rw [mem_accum_objects]; exact Or.inr ⟨e, hew, hg, rfl⟩
  · intro x hx
    rw [accum_typed, List.mem_append, List.mem_filterMap]
    exact Or.inr ⟨e, hew, hx⟩
  · intro hf
    rw [accum_full]
    have : w.any forcesFull = true := List.any_eq_true.mpr ⟨e, hew, by simp [forcesFull, hf]⟩
    simp [this]

/-- **Nothing else is in a batch.**  The k-th returned batch is exactly what the accepted events
of the k-th window (those between swap k-1 and swap k) produce: its typed lists are their entries
in arrival order (no duplicate, nothing missing), its links/descriptions are the de-duplicated
links/descriptions of those events and of no other event, `NeedFullSync` is set iff one of them
demands it, `…New` is the data of the last ConfigMap event of the window. -/
theorem batch_is_its_window (c : Cfg) (ops : List Op) (k : Nat) (b : Batch)
    (hb : (run c ops).1[k]? = some b) :
    ∃ w, (windows (accepts c) ops).1[k]? = some w ∧
      b.typed = w.filterMap entryOf ∧
      (∀ x, x ∈ b.links ↔ ∃ e ∈ w, e.typ ≠ .generic ∧ linkOf e = x) ∧
      (∀ x, x ∈ b.objects ↔ ∃ e ∈ w, e.typ ≠ .generic ∧ descrOf e = x) ∧
      b.links.Nodup ∧ b.objects.Nodup ∧
      b.full = w.any forcesFull ∧
      b.gNew = newData true none w ∧ b.tNew = newData false none w := by
  rw [run_batches] at hb
  obtain ⟨w, g, t, hw, rfl⟩ := batchesOf_getElem? _ _ _ _ _ hb
  refine ⟨w, hw, ?_, ?_, ?_, ?_, ?_, ?_, ?_, ?_⟩
  · simp [accum_typed, fresh]
  · intro x; simp [mem_accum_links, fresh]
  · intro x; simp [mem_accum_objects, fresh]
  · exact nodup_accum_links _ _ (by simp [fresh])
  · exact nodup_accum_objects _ _ (by simp [fresh])
  · simp [accum_full, fresh]
  · simp [accum_gNew, fresh]
  · simp [accum_tNew, fresh]

/-- one batch per swap -/
theorem batch_count (c : Cfg) (ops : List Op) : (run c ops).1.length = swapCount ops := by
  rw [run_batches, batchesOf_length]; exact windowsFrom_length _ _ _

/-- the windows partition the accepted events in order: every accepted event is in exactly one
window (or still pending after the last swap) -/
theorem windows_partition (acc : Event → Bool) (ops : List Op) :
    (windows acc ops).1.flatten ++ (windows acc ops).2 = (eventsOf ops).filter acc := by
  unfold windows; simpa using windowsFrom_partition acc ops []

/-- **Conservation.**  The typed-list entries of all returned batches, followed by the ones still
pending, are the entries of the accepted events — same order, same multiplicity. -/
theorem typed_conservation (c : Cfg) (ops : List Op) :
    (run c ops).1.flatMap (·.typed) ++ (run c ops).2.ch.typed =
      ((eventsOf ops).filter (accepts c)).filterMap entryOf := by
  obtain ⟨g', t', hfin⟩ := runFrom_final c ops {} [] none none rfl
  have hfin' : (run c ops).2.ch = accum (fresh g' t') (windows (accepts c) ops).2 := hfin
  rw [hfin', run_batches, batchesOf_typed, accum_typed, ← windows_partition, List.filterMap_append]
  simp [fresh]

theorem entryOf_id (e : Event) (x : Entry) (h : entryOf e = some x) : x.id = e.id := by
  unfold entryOf at h
  cases hf : e.kind.fam with
  | none => simp [hf] at h
  | some f =>
    simp only [hf] at h
    cases ht : e.typ <;> simp only [ht] at h
    · cases h; rfl
    · split at h
      · cases h; rfl
      · split at h
        · cases h; rfl
        · split at h
          · cases h; rfl
          · cases h
    · cases h; rfl
    · cases h

theorem nodup_filterMap_entryOf (l : List Event) (h : (l.map (·.id)).Nodup) :
    (l.filterMap entryOf).Nodup := by
  induction l with
  | nil => simp
  | cons e l ih =>
    simp only [List.map_cons, List.nodup_cons] at h
    rw [List.filterMap_cons]
    cases he : entryOf e with
    | none => exact ih h.2
    | some x =>
      simp only
      rw [List.nodup_cons]
      refine ⟨?_, ih h.2⟩
      intro hx
      obtain ⟨e', he', hx'⟩ := List.mem_filterMap.mp hx
      apply h.1
      have h1 := entryOf_id e x he
      have h2 := entryOf_id e' x hx'
      exact List.mem_map.mpr ⟨e', he', by rw [← h2, h1]⟩

/-- **No duplication.**  When the events are distinct (distinct ids), no list entry occurs twice:
not twice in one batch, not in two batches, not in a batch and again in the pending state. -/
theorem typed_exactly_once (c : Cfg) (ops : List Op) (hid : ((eventsOf ops).map (·.id)).Nodup) :
    ((run c ops).1.flatMap (·.typed) ++ (run c ops).2.ch.typed).Nodup := by
  rw [typed_conservation]
  apply nodup_filterMap_entryOf
  have hsub : ((eventsOf ops).filter (accepts c)).map (·.id) |>.Sublist ((eventsOf ops).map (·.id)) :=
    (List.filter_sublist).map _
  exact hsub.nodup hid

/-- `getChangedObjects` leaves an empty accumulator: only the two `…Cur` fields survive a swap -/
theorem swap_resets (s : St) :
    (swap s).2.ch.typed = [] ∧ (swap s).2.ch.links = [] ∧ (swap s).2.ch.objects = [] ∧
    (swap s).2.ch.full = false ∧ (swap s).2.ch.gNew = none ∧ (swap s).2.ch.tNew = none ∧ (swap s).2.q = s.q :=
  ⟨rfl, rfl, rfl, rfl, rfl, rfl, rfl⟩

/-- every accepted event enqueues exactly one reconciliation request, carrying its kind's
full-sync flag -/
theorem notify_once (c : Cfg) (ops : List Op) :
    (run c ops).2.q = ((eventsOf ops).filter (accepts c)).map (·.kind.full) := by
  suffices h : ∀ (ops : List Op) (s : St),
      (runFrom c s ops).2.q = s.q ++ ((eventsOf ops).filter (accepts c)).map (·.kind.full) by
    simpa [run] using h ops {}
  intro ops
  induction ops with
  | nil => intro s; simp [runFrom, eventsOf]
  | cons o ops ih =>
    intro s
    cases o with
    | swap => simp only [runFrom, eventsOf, ih]; rfl
    | ev e =>
      simp only [runFrom, eventsOf, ih, List.filter_cons]
      unfold onEvent
      by_cases h : accepts c e <;> simp [h]

/-! ## (2) ConfigMap chaining -/

/-- the oracle's chain predicate holds on the batches of every op sequence -/
theorem chain_holds (c : Cfg) (ops : List Op) : checkChain none none (run c ops).1 = true := by
  rw [run_batches]; exact batchesOf_chain _ none none

theorem checkChain_step : ∀ (bs : List Batch) (g t : Option Nat) (k : Nat) (b b' : Batch),
    checkChain g t bs = true → bs[k]? = some b → bs[k+1]? = some b' →
    b'.gCur = pick b.gNew b.gCur ∧ b'.tCur = pick b.tNew b.tCur := by
  intro bs
  induction bs with
  | nil => intro g t k b b' _ h; simp at h
  | cons a bs ih =>
    intro g t k b b' hc h1 h2
    simp only [checkChain, Bool.and_eq_true, beq_iff_eq] at hc
    cases k with
    | succ k => exact ih _ _ k b b' hc.2 (by simpa using h1) (by simpa using h2)
    | zero =>
      simp only [List.getElem?_cons_zero, Option.some.injEq] at h1
      subst h1
      cases bs with
      | nil => simp at h2
      | cons a' bs =>
        simp only [Nat.zero_add, List.getElem?_cons_succ, List.getElem?_cons_zero, Option.some.injEq] at h2
        subst h2
        simp only [checkChain, Bool.and_eq_true, beq_iff_eq] at hc
        obtain ⟨⟨hg, ht⟩, ⟨hg', ht'⟩, _⟩ := hc
        rw [hg, ht]
        exact ⟨hg', ht'⟩

/-- **Chaining.**  `…Cur` of batch k+1 is the `…New` batch k delivered, or batch k's `…Cur`
when it delivered none; the first batch starts from nil. -/
theorem chain_step (c : Cfg) (ops : List Op) (k : Nat) (b b' : Batch)
    (h1 : (run c ops).1[k]? = some b) (h2 : (run c ops).1[k+1]? = some b') :
    b'.gCur = pick b.gNew b.gCur ∧ b'.tCur = pick b.tNew b.tCur :=
  checkChain_step _ _ _ k b b' (chain_holds c ops) h1 h2

theorem chain_first (c : Cfg) (ops : List Op) (b : Batch) (h : (run c ops).1[0]? = some b) :
    b.gCur = none ∧ b.tCur = none := by
  have := chain_holds c ops
  cases hbs : (run c ops).1 with
  | nil => simp [hbs] at h
  | cons a bs =>
    simp only [hbs, List.getElem?_cons_zero, Option.some.injEq] at h
    subst h
    simp only [hbs, checkChain, Bool.and_eq_true, beq_iff_eq] at this
    exact ⟨this.1.1, this.1.2⟩

/-- **ConfigMap data is delivered.**  `…New` of a batch is the data of the last ConfigMap event of
its window — an emptied ConfigMap (nil `.Data`) being announced as EMPTY data, not as "unchanged" —
and nil when the window has no such event.  (Full strength since the repair f69446d of `cmChange`.) -/
theorem configmap_delivered (c : Cfg) (ops : List Op) (k : Nat) (b : Batch) (w : List Event)
    (hb : (run c ops).1[k]? = some b) (hw : (windows (accepts c) ops).1[k]? = some w) :
    b.gNew = specNew true w ∧ b.tNew = specNew false w := by
  obtain ⟨w', hw', _, _, _, _, _, _, hg, ht⟩ := batch_is_its_window c ops k b hb
  rw [hw] at hw'; cases hw'
  rw [hg, ht, newData_eq_last, newData_eq_last]
  unfold specNew
  exact ⟨rfl, rfl⟩

/-- the emptied ConfigMap now reaches the reconciliation: data 3, then nil data ⇒ the second batch
announces empty data (`some 0`) and the third has it as current -/
theorem configmap_emptied_delivered :
    let ops := [Op.ev { id := 0, kind := .cm, typ := .create, ns := some 0, name := 0, data := some 3 }, .swap,
                Op.ev { id := 2, kind := .cm, typ := .update, ns := some 0, name := 0, data := none }, .swap, .swap]
    ((run {} ops).1.map fun b => (b.gCur, b.gNew)) = [(none, some 3), (some 3, some 0), (some 0, none)] ∧
    (windows (accepts {}) ops).1.map (specNew true) = [some 3, some 0, none] := by
  decide

/-- historical witness (fixed: f69446d, oracle clause `configmap-emptied-update-not-delivered`):
`cmChange` before the repair stored the nil map, i.e. "unchanged", so the old data 3 stayed
current; the repaired step announces empty data -/
theorem configmap_emptied_not_delivered_old :
    let b : Batch := { gCur := some 3 }
    let e : Event := { id := 2, kind := .cm, typ := .update, ns := some 0, name := 0, data := none }
    (applyCmOld b e).gNew = none ∧ pick (applyCmOld b e).gNew b.gCur = some 3 ∧
    (applyCm b e).gNew = some 0 ∧ pick (applyCm b e).gNew b.gCur = some 0 := by
  decide

/-! ## (3) class transitions -/

/-- the typed-list classification of the code is the one the property demands -/
theorem entryOf_eq_specEntry (e : Event) : entryOf e = specEntry e := by
  unfold entryOf specEntry specAct
  cases hf : e.kind.fam with
  | none => rfl
  | some f =>
    cases ht : e.typ <;> cases hvo : e.vOld <;> cases hvn : e.vNew <;> simp

/-- **Class in ⇒ add, class out ⇒ delete.**  An accepted update whose validity flips is delivered,
in the next batch, in the family's `Add` list (new object) when the object becomes valid and in
the `Del` list (OLD object) when it stops being valid — and is in no `Upd` list of any batch. -/
theorem class_transition_listed (c : Cfg) (pre mid post : List Op) (e : Event) (f : Fam)
    (ha : accepts c e = true) (hu : e.typ = .update) (hf : e.kind.fam = some f)
    (hflip : e.vOld ≠ e.vNew) (hm : ∀ o ∈ mid, o ≠ Op.swap) :
    ∃ b, (run c (pre ++ .ev e :: (mid ++ .swap :: post))).1[swapCount pre]? = some b ∧
      (if e.vNew then (⟨f, .add, e.id, false⟩ : Entry) ∈ b.typed else (⟨f, .del, e.id, true⟩ : Entry) ∈ b.typed) ∧
      entryOf e ≠ some ⟨f, .upd, e.id, false⟩ ∧ entryOf e ≠ some ⟨f, .upd, e.id, true⟩ := by
  obtain ⟨b, hb, _, _, hx, _⟩ := delivered_in_next_batch c pre mid post e ha (by simp [hu]) hm
  refine ⟨b, hb, ?_⟩
  unfold entryOf at hx ⊢
  simp only [hf, hu] at hx ⊢
  cases hvo : e.vOld <;> cases hvn : e.vNew <;> simp [hvo, hvn] at hflip hx ⊢
  · exact hx
  · exact hx

/- Full strength (the change description of a class transition is add / del too):

     theorem class_transition_described (… same hypotheses …) : specDescr e ∈ b.objects

   FALSE for the current code: `hdlr.Update` always calls `compose("update", …)`, so an Ingress
   entering the class is listed in `IngressesAdd` but described as `update/Ingress:…`; the status
   updater looks for the `add/Ingress:` prefix (`class_transition_described_as_update`).
   The description agrees with the classification for every event that is not a validity flip. -/
theorem description_partial (e : Event) (h : isFlip e = false) : descrOf e = specDescr e := by
  unfold descrOf specDescr specAct actOf isFlip at *
  cases ht : e.typ <;> simp [ht] at h ⊢
  cases hf : e.kind.fam with
  | none => simp
  | some f =>
    simp [hf] at h
    simp [h]

/-- counter-example (known finding `class-transition-described-as-update`) -/
theorem class_transition_described_as_update :
    let e : Event := { id := 0, kind := .ing, typ := .update, ns := some 0, name := 2, vOld := false, vNew := true }
    (run {} [.ev e, .swap]).1.map (fun b => (b.typed, b.objects)) =
        [([⟨.ing, .add, 0, false⟩], [(.upd, .ingress, ⟨some 0, 2⟩)])] ∧
    specDescr e = (.add, .ingress, ⟨some 0, 2⟩) := by
  decide

/-! ## non-vacuity -/

/-- two informers and a reconciliation interleaved: the Ingress event that arrives before the
swap is in batch 0, the Secret event after it in batch 1; both batches are non-empty -/
example :
    let i : Event := { id := 0, kind := .ing, typ := .create, ns := some 0, name := 2 }
    let s : Event := { id := 2, kind := .secret, typ := .update, ns := some 0, name := 3 }
    accepts {} i = true ∧ accepts {} s = true ∧
    (run {} [.ev i, .swap, .ev s, .swap]).1.map (fun b => (b.typed, b.links)) =
      [([⟨.ing, .add, 0, false⟩], [(.ingress, ⟨some 0, 2⟩)]), ([], [(.secret, ⟨some 0, 3⟩)])] := by
  decide

/-- the hypotheses of `class_transition_listed` are satisfiable (an Ingress leaving the class) -/
example :
    let e : Event := { id := 5, kind := .ing, typ := .update, ns := some 1, name := 2, vOld := true, vNew := false }
    accepts {} e = true ∧ e.kind.fam = some .ing ∧ e.vOld ≠ e.vNew ∧
    (run {} [.ev e, .swap]).1.map (·.typed) = [[⟨.ing, .del, 5, true⟩]] := by
  decide

/-- chaining is exercised: data 1, then nothing, then data 2 -/
example :
    let u (i d : Nat) : Op := .ev { id := i, kind := .cm, typ := .update, ns := some 0, name := 1, data := some d }
    (run {} [u 0 1, .swap, .swap, u 3 2, .swap, .swap]).1.map (fun b => (b.tCur, b.tNew)) =
      [(none, some 1), (some 1, none), (some 1, some 2), (some 2, none)] := by
  decide

/-- an update with both objects outside the class is NOT accepted for an Ingress (predicate) -/
example : accepts {} { id := 0, kind := .ing, typ := .update, ns := some 0, name := 2, vOld := false, vNew := false } = false := by
  decide

/-- an accepted IngressClass event asks for a full sync: batch flag and queue item -/
example :
    let e : Event := { id := 0, kind := .ingcls, typ := .update, ns := none, name := 2 }
    accepts {} e = true ∧ (run {} [.ev e, .swap]).1.map (·.full) = [true] ∧ (run {} [.ev e, .swap]).2.q = [true] := by
  decide

/-! ## regenerated facts -/

/-- the kinds in handler-table order (`handlersCore`, `handlersIngress`, gateway v1alpha2, v1beta1,
v1, TCPRoute) and the Go type each watches -/
def tableKinds : List Kind :=
  [.cm, .svc, .ep, .eps, .secret, .pod, .ing, .ingcls, .gwA2, .gwclsA2, .hrA2, .gwB1, .gwclsB1, .hrB1,
   .gwV1, .gwclsV1, .hrV1, .tcpr]

def Kind.goType : Kind → String
  | .cm => "api.ConfigMap" | .svc => "api.Service" | .ep => "api.Endpoints"
  | .eps => "discoveryv1.EndpointSlice" | .secret => "api.Secret" | .pod => "api.Pod"
  | .ing => "networking.Ingress" | .ingcls => "networking.IngressClass"
  | .gwA2 => "gatewayv1alpha2.Gateway" | .gwclsA2 => "gatewayv1alpha2.GatewayClass" | .hrA2 => "gatewayv1alpha2.HTTPRoute"
  | .gwB1 => "gatewayv1beta1.Gateway" | .gwclsB1 => "gatewayv1beta1.GatewayClass" | .hrB1 => "gatewayv1beta1.HTTPRoute"
  | .gwV1 => "gatewayv1.Gateway" | .gwclsV1 => "gatewayv1.GatewayClass" | .hrV1 => "gatewayv1.HTTPRoute"
  | .tcpr => "gatewayv1alpha2.TCPRoute"

/-- the model's kind table is the handler table of watchers.go: same handlers, and `Kind.full`
is true exactly for the handlers declared with `full: true` (IngressClass included) -/
theorem facts_c14_table :
    Facts.c14HandlerTypes = tableKinds.map Kind.goType ∧
    Facts.c14FullTypes = (tableKinds.filter Kind.full).map Kind.goType := by
  decide

/-- the parts of watchers.go the model depends on syntactically: every handler entry point and
`getChangedObjects` take `watchers.mu` first; Create/Update/Delete call the closure, `compose`
with the literal `add`/`update`/`del`, then `notify`; `compose` de-duplicates; `initCh` carries
the two `…Cur` fields; `cmChange` stores `data`, which is `cm.Data` with nil replaced by an empty map -/
theorem facts_c14 :
    Facts.c14CreateCalls = ["h.w.mu.Lock", "h.w.mu.Unlock", "h.add", "h.compose", "h.notify"] ∧
    Facts.c14UpdateCalls = ["h.w.mu.Lock", "h.w.mu.Unlock", "h.upd", "h.compose", "h.notify"] ∧
    Facts.c14DeleteCalls = ["h.w.mu.Lock", "h.w.mu.Unlock", "h.del", "h.compose", "h.notify"] ∧
    Facts.c14GenericCalls = ["h.w.mu.Lock", "h.w.mu.Unlock", "h.notify"] ∧
    Facts.c14SwapCalls = ["w.mu.Lock", "w.mu.Unlock", "w.initCh"] ∧
    Facts.c14ComposeLiterals = ["add", "update", "del"] ∧
    Facts.c14InitChAssigns = ["newch.GlobalConfigMapDataCur=w.ch.GlobalConfigMapDataNew",
      "newch.GlobalConfigMapDataCur=w.ch.GlobalConfigMapDataCur",
      "newch.TCPConfigMapDataCur=w.ch.TCPConfigMapDataNew",
      "newch.TCPConfigMapDataCur=w.ch.TCPConfigMapDataCur",
      "w.ch=newch", "w.ch.Links=?"] ∧
    Facts.c14CmChangeAssigns = ["w.ch.GlobalConfigMapDataNew=data", "w.ch.TCPConfigMapDataNew=data"] ∧
    Facts.c14CmNilDataBecomesEmpty = true := by
  decide

end HapVerif.C14
