import HapVerif.Model.C11AuthP
import HapVerif.Generated.CodeC11
/-!
# C11 — regenerated tie of `Frontend.AcquireAuthBackendName` (pkg/haproxy/types/frontend.go)

The function is TRANSLATED on every run (Generated/CodeC11.lean; `sort.Slice` is a parameter).  `acquire_code_tie`: on the
view of any model frontend the translated code IS the model's `walk` — the bind of the backend is returned wherever it
sits in the list, whatever unused ports precede it, and the frontend is returned UNTOUCHED (not flagged: no reload);
only a backend without bind gets the candidate port, refused when past the range.  Together with
`C11AuthP.acquire_idem` / `noop_reacquire_quiet` (proved on `walk`) this carries the no-op statement to the code.
The early-exit walk of seed C11g does not satisfy it (`C11AuthP.seeded_break_rebinds`).
-/
namespace HapVerif.C11AuthPTie
open HapVerif HapVerif.GoLib HapVerif.C11AuthP HapVerif.C11AuthPV

def ofBind (x : Bind) : BindV :=
  { AuthBackendName := (x.port : Int), Backend := x.back, LocalPort := (x.port : Int), SocketID := 10000 + (x.port : Int) }

def ofFront (f : Front) : FrontV :=
  { RangeStart := (f.lo : Int), RangeEnd := (f.hi : Int), BindList := f.binds.map ofBind, changed := f.changed }

/-- the loop of the translated code, from candidate port `fp`, is the model's `walk` -/
theorem loop_eq_walk (fv : FrontV) (b : Nat) (binds : List Bind) (fp : Nat) :
    GoLib.forRange (binds.map ofBind) (fp : Int) (fun bind freePort =>
      if ((bind).Backend == b) then
        (GoLib.Step.ret (((bind).AuthBackendName, GoLib.nil), fv) : GoLib.Step Int ((Int × Option String) × FrontV))
      else
        if (freePort == (bind).LocalPort) then
          let freePort := (GoLib.add freePort (1 : Int))
          GoLib.Step.next freePort
        else
          GoLib.Step.next freePort)
    = match walk b fp binds with
      | .found p => .ret (((p : Int), none), fv)
      | .free p => .done (p : Int) := by
  induction binds generalizing fp with
  | nil => simp [GoLib.forRange, walk]
  | cons x rest ih =>
    simp only [List.map_cons, GoLib.forRange, walk]
    by_cases hb : x.back = b
    · simp [ofBind, hb, GoLib.nil]
    · have hb' : ((ofBind x).Backend == b) = false := by simpa [ofBind] using hb
      simp only [hb', Bool.false_eq_true, ↓reduceIte, hb]
      by_cases hp : fp = x.port
      · subst hp
        simp only [ofBind, beq_self_eq_true, ↓reduceIte]
        have := ih (x.port + 1)
        simpa [GoLib.add] using this
      · have hp' : (((fp : Nat) : Int) == (ofBind x).LocalPort) = false := by
          simp only [ofBind, beq_eq_false_iff_ne, ne_eq]; omega
        simp only [hp', Bool.false_eq_true, ↓reduceIte, hp]
        exact ih fp

/-- **the translated `AcquireAuthBackendName` on the view of a model frontend** -/
theorem acquire_code_tie (sortSlice : List BindV → List BindV) (f : Front) (b : Nat) :
    CodeC11.acquireAuthBackendName sortSlice (ofFront f) b =
      match walk b f.lo f.binds with
      | .found p => (((p : Int), none), ofFront f)
      | .free p =>
        if p > f.hi then (((0 : Int), some "auth proxy list is full"), ofFront f)
        else (((p : Int), none),
          { ofFront f with BindList := sortSlice (f.binds.map ofBind ++ [ofBind { port := p, back := b }]), changed := true }) := by
  unfold CodeC11.acquireAuthBackendName
  simp only [ofFront]
  rw [loop_eq_walk]
  cases walk b f.lo f.binds with
  | found p => rfl
  | free p =>
    simp only []
    by_cases hp : p > f.hi
    · simp [hp]
    · simp [hp, ofBind, GoLib.append1, GoLib.add, applySort, GoLib.nil]

/-- **a backend that holds a bind gets it back and the frontend is not touched** — wherever the bind sits, whatever
ports are unused before it, whatever the sort function does -/
theorem bound_backend_untouched (sortSlice : List BindV → List BindV) (f : Front) (b p : Nat)
    (h : walk b f.lo f.binds = .found p) :
    CodeC11.acquireAuthBackendName sortSlice (ofFront f) b = (((p : Int), none), ofFront f) := by
  rw [acquire_code_tie, h]

/-- the answer and the frontend do not depend on the range start when the backend holds a bind past a hole
(non-vacuity of the statement above: the seed's shape) -/
example : CodeC11.acquireAuthBackendName id (ofFront { lo := 5, hi := 9, binds := [⟨6, 1⟩, ⟨7, 2⟩], changed := false }) 2
    = (((7 : Int), none), ofFront { lo := 5, hi := 9, binds := [⟨6, 1⟩, ⟨7, 2⟩], changed := false }) := by decide
example : (CodeC11.acquireAuthBackendName id (ofFront { lo := 5, hi := 9, binds := [⟨6, 1⟩, ⟨7, 2⟩], changed := false }) 3).1
    = ((5 : Int), none) := by decide

end HapVerif.C11AuthPTie
