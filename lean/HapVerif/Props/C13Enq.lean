import HapVerif.Props.C13
import HapVerif.Model.C13Enq
/-!
# C13 — the enqueue discipline of the callers of the rate limited queues

The spacing / liveness theorems of `Props/C13.lean` speak about notifications that reach the queue through
`AddRateLimited` (the limiter's `When`).  The limiter cannot protect the queue from a caller that enqueues with
`AddAfter` / `Add`: such an enqueue neither consults nor updates `last`, and the delaying queue keeps the EARLIEST
deadline of an item that already waits, so it also pulls forward a run the limiter had deferred.

* `simulateE_allRL`: an enqueue log in which every entry is rate-limited IS the notification pattern of `Props/C13`
  (so every theorem there is a theorem about such logs);
* `sites_*`: the enqueue sites of the reconcile queue (`hdlr.notify`, `IngressReconciler.leaderChanged` gated by
  `watchers.running()`) with the methods of the code that exists (`discCode`, pinned by `facts_c13_enqueue`): spacing
  and liveness hold for EVERY history of the controller, whatever the interleaving of the sites;
* `one_addafter_breaks_spacing`, `addafter_leader_breaks_spacing`, `addafter_pulls_deferred_forward`,
  `add_now_breaks_spacing`: the hypothesis is needed — ONE enqueue that is not rate-limited among rate-limited ones
  breaks the spacing (kernel-checked witnesses, replayed on the real queue by the harness corpus).
-/
namespace HapVerif.C13

/-! ## logs in which every enqueue is rate-limited -/

theorem foldl_enqueueD_allRL (lim : Limiter) (fg : Forget) :
    ∀ (log : List EnqEv) (s : StD), allRL log = true →
      log.foldl (enqueueD lim fg) s = (requests log).foldl (fun s e => arriveD lim fg s e.1 e.2) s
  | [], _, _ => rfl
  | e :: log, s, h => by
    simp only [allRL, List.all_cons, Bool.and_eq_true, decide_eq_true_eq] at h
    have ih := foldl_enqueueD_allRL lim fg log (enqueueD lim fg s e) (by simpa [allRL] using h.2)
    simp only [requests, List.map_cons, List.foldl_cons] at ih ⊢
    rw [ih]
    simp [enqueueD, h.1, limOf, EnqEv.plain]

/-- **an all-rate-limited enqueue log is a notification pattern of `Props/C13`** — for every limiter, `Forget`,
durations and log -/
theorem simulateE_allRL (lim : Limiter) (fg : Forget) (durs : List Int) (log : List EnqEv)
    (h : allRL log = true) :
    simulateE lim fg durs log = simulateD lim fg durs (requests log) := by
  unfold simulateE simulateD runAllE runAllD
  rw [foldl_enqueueD_allRL lim fg log _ h]

/-- a direct `AddAfter` / `Add` teaches the limiter nothing: `last` is unchanged (whereas `When` always moves it) -/
theorem limOf_after_keeps_last (lim : Limiter) (d : Int) (last : Option Int) (now : Int) :
    (limOf lim (.after d) last now).1 = last ∧ (limOf lim .now last now).1 = last := ⟨rfl, rfl⟩

/-! ## the sites of the reconcile queue -/

/-- history times are non-decreasing, starting at or after `c` -/
def SortedT : Int → List (Int × Src) → Prop
  | _, [] => True
  | c, e :: es => c ≤ e.1 ∧ SortedT e.1 es

theorem sorted_mono {c c' : Int} (h : c ≤ c') : ∀ {l : List (Int × Bool)}, Sorted c' l → Sorted c l
  | [], _ => trivial
  | _ :: _, hl => ⟨Int.le_trans h hl.1, hl.2⟩

/-- a discipline in which both sites are rate-limited produces an all-rate-limited log -/
theorem siteLog_allRL (disc : Disc) (hn : disc.notify = .rl) (hl : disc.leader = .rl) (lim : Limiter) (fg : Forget) :
    ∀ (evs : List (Int × Src)) (s : StD), allRL (siteLog disc lim fg s evs) = true
  | [], _ => rfl
  | (t, .notify b) :: es, s => by
    simp only [siteLog, allRL, List.all_cons, Bool.and_eq_true, decide_eq_true_eq]
    exact ⟨hn, by simpa [allRL] using siteLog_allRL disc hn hl lim fg es _⟩
  | (t, .leader il) :: es, s => by
    simp only [siteLog]
    split
    · simp only [allRL, List.all_cons, Bool.and_eq_true, decide_eq_true_eq]
      exact ⟨hl, by simpa [allRL] using siteLog_allRL disc hn hl lim fg es _⟩
    · exact siteLog_allRL disc hn hl lim fg es _

/-- the requests of a history are in the order (and at the times) of the history -/
theorem siteLog_sorted (disc : Disc) (lim : Limiter) (fg : Forget) :
    ∀ (evs : List (Int × Src)) (s : StD) (c : Int), SortedT c evs → Sorted c (requests (siteLog disc lim fg s evs))
  | [], _, _, _ => trivial
  | (t, .notify b) :: es, s, c, h => by
    simp only [siteLog, requests, List.map_cons]
    exact ⟨h.1, siteLog_sorted disc lim fg es _ t h.2⟩
  | (t, .leader il) :: es, s, c, h => by
    simp only [siteLog]
    split
    · simp only [requests, List.map_cons]
      exact ⟨h.1, siteLog_sorted disc lim fg es _ t h.2⟩
    · exact sorted_mono h.1 (siteLog_sorted disc lim fg es _ t h.2)

/-- a notification is never dropped by the sites: it is a request -/
theorem notify_mem_requests (disc : Disc) (lim : Limiter) (fg : Forget) (t : Int) (b : Bool) :
    ∀ (evs : List (Int × Src)) (s : StD), (t, Src.notify b) ∈ evs → (t, b) ∈ requests (siteLog disc lim fg s evs)
  | [], _, h => by cases h
  | (t', .notify b') :: es, s, h => by
    simp only [siteLog, requests, List.map_cons, List.mem_cons]
    rcases List.mem_cons.1 h with h | h
    · left; cases h; rfl
    · right; exact notify_mem_requests disc lim fg t b es _ h
  | (t', .leader il) :: es, s, h => by
    have h' : (t, Src.notify b) ∈ es := by
      rcases List.mem_cons.1 h with h | h
      · cases h
      · exact h
    simp only [siteLog]
    split
    · simp only [requests, List.map_cons, List.mem_cons]
      right; exact notify_mem_requests disc lim fg t b es _ h'
    · exact notify_mem_requests disc lim fg t b es _ h'

/-- with only full-sync kinds in the history every request is a full sync (the leader's request always is) -/
theorem siteLog_full (disc : Disc) (lim : Limiter) (fg : Forget) :
    ∀ (evs : List (Int × Src)) (s : StD), (∀ t, (t, Src.notify false) ∉ evs) →
      ∀ e, e ∈ requests (siteLog disc lim fg s evs) → e.2 = true
  | [], _, _, e, he => by cases he
  | (t, .notify b) :: es, s, h, e, he => by
    simp only [siteLog, requests, List.map_cons, List.mem_cons] at he
    rcases he with he | he
    · subst he
      cases b with
      | true => rfl
      | false => exact absurd List.mem_cons_self (h t)
    · exact siteLog_full disc lim fg es _ (fun t' hm => h t' (List.mem_cons_of_mem _ hm)) e he
  | (t, .leader il) :: es, s, h, e, he => by
    have h' : ∀ t', (t', Src.notify false) ∉ es := fun t' hm => h t' (List.mem_cons_of_mem _ hm)
    simp only [siteLog] at he
    split at he
    · simp only [requests, List.map_cons, List.mem_cons] at he
      rcases he with he | he
      · subst he; rfl
      · exact siteLog_full disc lim fg es _ h' e he
    · exact siteLog_full disc lim fg es _ h' e he

/-- the sites of the code that exists feed the queue with a notification pattern of `Props/C13` -/
theorem simulateS_discCode (lim : Limiter) (fg : Forget) (durs : List Int) (evs : List (Int × Src)) :
    simulateS discCode lim fg durs evs
      = simulateD lim fg durs (requests (siteLog discCode lim fg { durs := durs } evs)) :=
  simulateE_allRL lim fg durs _ (siteLog_allRL discCode rfl rfl lim fg evs _)

/-- **spacing, every site rate-limited, any interleaving of the sites** (instantaneous reconciliations, both
kinds): for EVERY history of watcher notifications (partial and full-sync kinds) and leader changes, two
reconciliations of one kind are never closer than `δ = 1/rate-limit-update`. -/
theorem sites_spacing {δ w : Int} (hδ : 0 < δ) (hw : 0 ≤ w) (c : Int) (evs : List (Int × Src))
    (hs : SortedT c evs) (durs : List Int) (hd : ∀ d, d ∈ durs → d ≤ 0) (b : Bool) :
    (runsOf b (simulateS discCode (ingressWhen δ w) forgetId durs evs)).Pairwise (fun a r => a + δ ≤ r) := by
  rw [simulateS_discCode]
  exact reconcile_spacing_zero hδ hw c _ (siteLog_sorted _ _ _ evs _ c hs) durs hd b

/-- **spacing of full reconciliations WITH A DURATION** (`d < δ`): for EVERY history of full-sync notifications and
leader changes — the leader-acquired sync is one more rate-limited notification of the same item — two full
reconciliation STARTS are never closer than `δ`. -/
theorem sites_spacing_dur {δ w : Int} (hδ : 0 < δ) (hw : 0 ≤ w) (c : Int) (evs : List (Int × Src))
    (hs : SortedT c evs) (hk : ∀ t, (t, Src.notify false) ∉ evs) (durs : List Int) (hd : ∀ d, d ∈ durs → d < δ)
    (b : Bool) :
    (runsOf b (simulateS discCode (ingressWhen δ w) forgetId durs evs)).Pairwise (fun a r => a + δ ≤ r) := by
  rw [simulateS_discCode]
  exact reconcile_spacing_dur hδ hw c _ (siteLog_sorted _ _ _ evs _ c hs) true
    (siteLog_full _ _ _ evs _ hk) durs hd b

/-- **liveness, every site rate-limited**: every request of the history — every watcher notification
(`notify_mem_requests`) and every leader acquisition that found the watchers running — is followed by a
reconciliation of its kind within `wait-before-update` or exactly `δ` after an earlier reconciliation; none is
dropped.  (Both kinds, instantaneous reconciliations.) -/
theorem sites_liveness {δ w : Int} (hδ : 0 < δ) (hw : 0 ≤ w) (c : Int) (evs : List (Int × Src))
    (hs : SortedT c evs) (t : Int) (b : Bool)
    (hm : (t, b) ∈ requests (siteLog discCode (ingressWhen δ w) forgetId {} evs)) :
    ∃ r, (r, b) ∈ simulate (ingressWhen δ w) (requests (siteLog discCode (ingressWhen δ w) forgetId {} evs)) ∧ t ≤ r ∧
      (r ≤ t + w ∨ ∃ p b', (p, b') ∈ simulate (ingressWhen δ w)
        (requests (siteLog discCode (ingressWhen δ w) forgetId {} evs)) ∧ r = p + δ) :=
  reconcile_liveness hδ hw c _ (siteLog_sorted _ _ _ evs _ c hs) t b hm

/-- liveness of full reconciliation STARTS with durations `d < δ` (full-sync kinds and the leader) -/
theorem sites_liveness_dur {δ w : Int} (hδ : 0 < δ) (hw : 0 ≤ w) (c : Int) (evs : List (Int × Src))
    (hs : SortedT c evs) (hk : ∀ t, (t, Src.notify false) ∉ evs) (durs : List Int) (hd : ∀ d, d ∈ durs → d < δ)
    (t : Int) (b : Bool)
    (hm : (t, b) ∈ requests (siteLog discCode (ingressWhen δ w) forgetId { durs := durs } evs)) :
    ∃ r, (r, b) ∈ simulateS discCode (ingressWhen δ w) forgetId durs evs ∧ t ≤ r ∧
      (r ≤ t + w ∨ ∃ p b', (p, b') ∈ simulateS discCode (ingressWhen δ w) forgetId durs evs ∧ r = p + δ) := by
  rw [simulateS_discCode]
  exact reconcile_liveness_dur hδ hw c _ (siteLog_sorted _ _ _ evs _ c hs) true
    (siteLog_full _ _ _ evs _ hk) durs hd t b hm

/-- the sites never create more runs of a kind than they made requests, whatever the durations -/
theorem sites_no_extra_runs (lim : Limiter) (durs : List Int) (evs : List (Int × Src)) (b : Bool) :
    (runsOf b (simulateS discCode lim forgetId durs evs)).length
      ≤ (runsOf b (requests (siteLog discCode lim forgetId { durs := durs } evs))).length := by
  rw [simulateS_discCode]
  exact no_extra_runs lim durs _ b

/-! ## the hypothesis is needed -/

/-- **one `AddAfter` among rate-limited enqueues breaks the spacing** (interval 10, wait 1): a rate-limited full
sync at 0 runs at 1; an `AddAfter(1)` of the same item at 3 runs at 4 — 3 apart.  All rate-limited: 1 and 11. -/
theorem one_addafter_breaks_spacing :
    simulateE (ingressWhen 10 1) forgetId [] [⟨0, true, .rl⟩, ⟨3, true, .after 1⟩] = [(1, true), (4, true)]
    ∧ spaced 10 (runsOf true (simulateE (ingressWhen 10 1) forgetId [] [⟨0, true, .rl⟩, ⟨3, true, .after 1⟩])) = false
    ∧ simulateE (ingressWhen 10 1) forgetId [] [⟨0, true, .rl⟩, ⟨3, true, .rl⟩] = [(1, true), (11, true)] := by
  decide

/-- **seeded variant C13g** (`leaderChanged` enqueues with `AddAfter(wait-before-update)`): a leader acquisition
inside a busy time frame. Full-sync notification at 0 (run at 1), lease acquired at 3: the next full reconciliation
starts at 4.  The code that exists (`discCode`) starts it at 11.  No tie is involved; the Spec reports `spacing`.
Replayed on the real queue: `C13 sites 10000000000 200000000 - 0:f,3000000000:L`. -/
theorem addafter_leader_breaks_spacing :
    simulateS { notify := .rl, leader := .after 1 } (ingressWhen 10 1) forgetId [] [(0, .notify true), (3, .leader true)]
        = [(1, true), (4, true)]
    ∧ oracleS 10 1 [] [(0, .notify true), (3, .leader true)] [(1, true), (4, true)] = some "spacing"
    ∧ simulateS discCode (ingressWhen 10 1) forgetId [] [(0, .notify true), (3, .leader true)] = [(1, true), (11, true)]
    ∧ oracleS 10 1 [] [(0, .notify true), (3, .leader true)] [(1, true), (11, true)] = none
    ∧ (flushD forgetId (runAllS { notify := .rl, leader := .after 1 } (ingressWhen 10 1) forgetId []
        [(0, .notify true), (3, .leader true)])).tie = false := by
  decide

/-- **the earliest-deadline rule**: a full sync the limiter had deferred to 11 (notifications at 0 and 2) is
PULLED FORWARD to 4 by an `AddAfter(1)` of the same item at 3; rate-limited, the leader's request is coalesced
into the pending run. -/
theorem addafter_pulls_deferred_forward :
    simulateS { notify := .rl, leader := .after 1 } (ingressWhen 10 1) forgetId []
        [(0, .notify true), (2, .notify true), (3, .leader true)] = [(1, true), (4, true)]
    ∧ simulateS discCode (ingressWhen 10 1) forgetId []
        [(0, .notify true), (2, .notify true), (3, .leader true)] = [(1, true), (11, true)] := by
  decide

/-- a plain `Add` is no better -/
theorem add_now_breaks_spacing :
    simulateS { notify := .rl, leader := .now } (ingressWhen 10 1) forgetId [] [(0, .notify true), (3, .leader true)]
        = [(1, true), (3, true)] := by
  decide

/-- `leaderChanged` before the first reconciliation (`watchers.running()` is false) and `leaderChanged(false)`
enqueue nothing -/
theorem leader_not_running_noop :
    siteLog discCode (ingressWhen 10 1) forgetId {} [(0, .leader true), (1, .notify false), (2, .leader false), (3, .leader true)]
      = [⟨1, false, .rl⟩, ⟨3, true, .rl⟩] := by
  decide

/-! ## facts: the methods the call sites use -/

/-- regenerated from the Go source: EVERY call site of the reconcile queue in pkg/controller/reconciler
(`hdlr.notify`, `IngressReconciler.leaderChanged`) enqueues with `AddRateLimited` (= `discCode`); the reload queue is
fed by `HAProxyUpdate` through `WorkQueue.Add`, which is `AddRateLimited`; its only other caller is the error-retry
path of `reloadHAProxy` (`AddAfter(ReloadRetry)`, outside the property: "reloads succeed"); `SetupWithManager`
builds the queue with `NewTypedRateLimitingQueueWithConfig` over `IngressReconcilerRateLimiter` (what the harness
hook replicates). -/
theorem facts_c13_enqueue :
    Facts.c13ReconcileEnqueueSites
      = ["reconciler.go:leaderChanged:r.queue.AddRateLimited", "watchers.go:notify:q.AddRateLimited"]
    ∧ Facts.c13ReloadEnqueueSites
      = ["services.go:reloadHAProxy:s.reloadQueue.AddAfter", "instance.go:HAProxyUpdate:i.options.ReloadQueue.Add"]
    ∧ Facts.c13WorkQueueAddCalls = ["w.queue.AddRateLimited"]
    ∧ "k8sworkqueue.NewTypedRateLimitingQueueWithConfig" ∈ Facts.c13SetupCalls
    ∧ "workqueue.IngressReconcilerRateLimiter" ∈ Facts.c13SetupCalls
    ∧ "r.Services.LeaderChangedSubscriber" ∈ Facts.c13SetupCalls := by
  decide

/-- non-vacuity: a history mixing both kinds, a leader acquisition inside a busy time frame and a lease loss; the
hypotheses of `sites_spacing` hold and three reconciliations happen -/
example : SortedT 0 [(0, .notify true), (2, .notify false), (13, .leader true), (14, .leader false)] := by
  simp [SortedT]
example : simulateS discCode (ingressWhen 10 1) forgetId []
    [(0, .notify true), (2, .notify false), (13, .leader true), (14, .leader false)]
      = [(1, true), (11, false), (21, true)] := by decide
example : simulateS discCode (ingressWhen 10 1) forgetId [5, 5] [(0, .notify true), (3, .leader true), (12, .leader true)]
      = [(1, true), (11, true), (21, true)] := by decide

end HapVerif.C13
