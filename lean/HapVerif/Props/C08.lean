import HapVerif.Model.C08
import HapVerif.Generated.Facts
/-!
C08 — only Ingresses classified for this controller are ever configured.

  * `valid_iff_spec`, `spec_documented`: `IsValidIngress` (model, transcribed branch by branch)
    equals the documented rule on all 3 x 4 x 2 x 2 combinations.
  * `getIngress_filter`, `getIngressList_filter`: the two readers return exactly the valid objects.
  * `classify_wanted`: one watcher event is listed where the rule wants it.
  * `configured_eq_valid` / `configured_eq_selected`: over ALL histories of create / update /
    delete operations on any number of ingresses, the set of ingresses that contribute equals
    `{i | exists and selected}` (interface to C01: Add converts, Del removes what it had added,
    Upd re-converts); `lists_consistent`: Add only names ingresses that do not contribute,
    Upd/Del only ones that do.
  * IngressClass objects that change under a living ingress: `class_events_full` (configured =
    selected over all histories of ingress and IngressClass events, because the IngressClass
    handler asks for a full sync); without that flag the equality is FALSE
    (`class_events_full_fails_without_full`) and only safety remains.
-/
namespace HapVerif.C08

/-! ### the rule -/

theorem valid_iff_spec (cfg : Cfg) (h : cfg.ctrlEmpty = false) (a : Ann) (c : Cls) :
    isValidIngress cfg a c = spec cfg a c := by
  rcases cfg with ⟨w, p, e⟩
  simp only at h
  subst h
  cases w <;> cases p <;> cases a <;> cases c <;> rfl

/-- the Spec, spelled out as the documentation does -/
theorem spec_documented (cfg : Cfg) (a : Ann) (c : Cls) :
    spec cfg a c = true ↔
      (a = .absent ∧ c = .absent ∧ cfg.watch = true) ∨
      (a = .absent ∧ c = .ours) ∨
      (a = .ours ∧ c = .absent) ∨
      (a ≠ .absent ∧ c ≠ .absent ∧
        ((a = .ours ∧ c = .ours) ∨
         (a = .ours ∧ c ≠ .ours ∧ cfg.prec = false) ∨
         (a ≠ .ours ∧ c = .ours ∧ cfg.prec = true))) := by
  rcases cfg with ⟨w, p, e⟩
  cases w <;> cases p <;> cases a <;> cases c <;> simp [spec, annSays, clsSays]

/-- all 48 rows, as one checked table: (watch, prec, ann, cls) ↦ selected -/
theorem table_48 :
    (([false, true].flatMap fun w => [false, true].flatMap fun p =>
      [Ann.absent, .ours, .foreign].flatMap fun a => [Cls.absent, .ours, .foreign, .dangling].map fun c =>
        isValidIngress ⟨w, p, false⟩ a c)) =
    [ -- watch=0 prec=0:  ann absent | ours | foreign  x  cls absent, ours, foreign, dangling
      false, true, false, false,   true, true, true, true,     false, false, false, false,
      -- watch=0 prec=1
      false, true, false, false,   true, true, false, false,   false, true, false, false,
      -- watch=1 prec=0
      true, true, false, false,    true, true, true, true,     false, false, false, false,
      -- watch=1 prec=1
      true, true, false, false,    true, true, false, false,   false, true, false, false ] := by
  decide

/-- a name without IngressClass object never selects by itself -/
theorem dangling_never_selects (cfg : Cfg) (h : cfg.ctrlEmpty = false) :
    isValidIngress cfg .absent .dangling = false := by
  rw [valid_iff_spec cfg h]; rfl

/-- why `ctrlEmpty = false` is needed: `GetIngressClass` hands back a zero object with the
error, so with an empty controller name a dangling reference would select -/
example : isValidIngress ⟨false, false, true⟩ .absent .dangling = true := by decide

/-- non-vacuity: annotation wins / class wins with the precedence flag -/
example : isValidIngress ⟨false, false, false⟩ .ours .foreign = true ∧
          isValidIngress ⟨false, true, false⟩ .ours .foreign = false ∧
          isValidIngress ⟨false, true, false⟩ .foreign .ours = true ∧
          isValidIngress ⟨true, false, false⟩ .absent .absent = true := by decide

theorem getIngress_filter (cfg : Cfg) (h : cfg.ctrlEmpty = false) (o : Option (Ann × Cls)) :
    getIngress cfg o = true ↔ ∃ a c, o = some (a, c) ∧ spec cfg a c = true := by
  cases o with
  | none => simp [getIngress]
  | some x =>
    rcases x with ⟨a, c⟩
    simp only [getIngress, valid_iff_spec cfg h, Option.some.injEq, Prod.mk.injEq]
    constructor
    · intro hv; exact ⟨a, c, ⟨rfl, rfl⟩, hv⟩
    · rintro ⟨a', c', ⟨rfl, rfl⟩, hv⟩; exact hv

theorem getIngressList_filter {α} (cfg : Cfg) (h : cfg.ctrlEmpty = false)
    (l : List (α × Ann × Cls)) (x : α) :
    x ∈ getIngressList cfg l ↔ ∃ a c, (x, a, c) ∈ l ∧ spec cfg a c = true := by
  simp only [getIngressList, List.mem_map, List.mem_filter, valid_iff_spec cfg h]
  constructor
  · rintro ⟨⟨y, a, c⟩, ⟨hm, hv⟩, rfl⟩; exact ⟨a, c, hm, hv⟩
  · rintro ⟨a, c, hm, hv⟩; exact ⟨(x, a, c), ⟨hm, hv⟩, rfl⟩

/-- an unselected ingress is in no list -/
example : getIngressList ⟨false, false, false⟩ [(1, Ann.ours, Cls.absent), (2, .foreign, .ours), (3, .absent, .ours)]
    = [1, 3] := by decide

/-! ### one event -/

theorem valid_eq_selected (cfg : Cfg) (h : cfg.ctrlEmpty = false) (o : Obj) :
    o.valid cfg = o.selected cfg := valid_iff_spec cfg h o.ann o.cls

/-- when the class-relevant part or anything the predicates watch is untouched, validity cannot flip -/
theorem unchanged_same_validity (cfg : Cfg) (o n : Obj) (h : changed o n = false) :
    o.valid cfg = n.valid cfg := by
  simp only [changed, Bool.or_eq_false_iff, bne_eq_false_iff_eq] at h
  simp [Obj.valid, h.1.1.1, h.1.2]

theorem classify_wanted (cfg : Cfg) (h : cfg.ctrlEmpty = false) (ev : Ev) :
    classify cfg ev ∈ wanted cfg ev := by
  cases ev with
  | create n =>
    simp only [classify, wanted, valid_eq_selected cfg h]
    cases n.selected cfg <;> simp
  | delete o =>
    simp only [classify, wanted, valid_eq_selected cfg h]
    cases o.selected cfg <;> simp
  | update o n =>
    cases hc : changed o n with
    | false =>
      have hs := unchanged_same_validity cfg o n hc
      simp only [valid_eq_selected cfg h] at hs
      simp only [classify, wanted, valid_eq_selected cfg h, hc, hs]
      cases n.selected cfg <;> simp
    | true =>
      simp only [classify, wanted, valid_eq_selected cfg h, hc]
      cases o.selected cfg <;> cases n.selected cfg <;> simp

/-- every oracle clause is quiet on the model's own answer -/
theorem oracleEvent_model (cfg : Cfg) (h : cfg.ctrlEmpty = false) (ev : Ev) :
    oracleEvent cfg ev (classify cfg ev) = none := by
  have := classify_wanted cfg h ev
  simp [oracleEvent, this]

/-! ### all histories -/

theorem set_same {α} (f : Nat → α) (i : Nat) (v : α) : set f i v i = v := by simp [set]
theorem set_other {α} (f : Nat → α) (i j : Nat) (v : α) (h : j ≠ i) : set f i v j = f j := by simp [set, h]

def Inv (cfg : Cfg) (s : St) : Prop := ∀ i, s.contrib i = validAt cfg s.world i

theorem inv_init (cfg : Cfg) : Inv cfg St.init := by intro i; rfl

theorem inv_step (cfg : Cfg) (s : St) (op : Op) (h : Inv cfg s) : Inv cfg (step cfg s op) := by
  intro j
  cases op with
  | create i n =>
    cases hw : s.world i with
    | some o => simpa [step, eventOf, hw] using h j
    | none =>
      simp only [step, eventOf, worldAfter, hw, classify]
      by_cases hj : j = i
      · subst hj
        cases hv : n.valid cfg <;> simp [applyAct, validAt, set, hv]
        have := h j; simp [validAt, hw] at this; exact this
      · have := h j
        cases hv : n.valid cfg <;> simp [applyAct, validAt, set, hj] <;> simpa [validAt] using this
  | delete i =>
    cases hw : s.world i with
    | none => simpa [step, eventOf, hw] using h j
    | some o =>
      simp only [step, eventOf, worldAfter, hw, classify]
      by_cases hj : j = i
      · subst hj
        cases hv : o.valid cfg <;> simp [applyAct, validAt, set]
        have := h j; simp [validAt, hw, hv] at this; exact this
      · have := h j
        cases hv : o.valid cfg <;> simp [applyAct, validAt, set, hj] <;> simpa [validAt] using this
  | update i n =>
    cases hw : s.world i with
    | none => simpa [step, eventOf, hw] using h j
    | some o =>
      simp only [step, eventOf, worldAfter, hw]
      have hi := h i
      simp only [validAt, hw] at hi
      by_cases hj : j = i
      · subst hj
        simp only [validAt, set_same]
        cases hc : changed o n with
        | false =>
          have := unchanged_same_validity cfg o n hc
          simp [classify, hc, applyAct, hi, this]
        | true =>
          cases ho : o.valid cfg <;> cases hn : n.valid cfg <;>
            simp [classify, hc, ho, hn, applyAct, set] <;> simp [hi, ho]
      · have hjj := h j
        simp only [validAt] at hjj
        simp only [validAt, set_other _ _ _ _ hj]
        cases hc : changed o n <;> cases ho : o.valid cfg <;> cases hn : n.valid cfg <;>
          simp [classify, hc, ho, hn, applyAct, set, hj] <;> exact hjj

theorem inv_foldl (cfg : Cfg) (ops : List Op) (s : St) (h : Inv cfg s) :
    Inv cfg (ops.foldl (step cfg) s) := by
  induction ops generalizing s with
  | nil => exact h
  | cons op rest ih => exact ih _ (inv_step cfg s op h)

/-- **configured = valid**, every history, every ingress -/
theorem configured_eq_valid (cfg : Cfg) (ops : List Op) (i : Nat) :
    (run cfg ops).contrib i = validAt cfg (run cfg ops).world i :=
  inv_foldl cfg ops St.init (inv_init cfg) i

def selectedAt (cfg : Cfg) (w : Nat → Option Obj) (i : Nat) : Bool :=
  match w i with
  | some o => o.selected cfg
  | none => false

/-- … hence = the documented rule applied to the current API object -/
theorem configured_eq_selected (cfg : Cfg) (h : cfg.ctrlEmpty = false) (ops : List Op) (i : Nat) :
    (run cfg ops).contrib i = selectedAt cfg (run cfg ops).world i := by
  rw [configured_eq_valid]
  simp only [validAt, selectedAt]
  cases (run cfg ops).world i with
  | none => rfl
  | some o => exact valid_eq_selected cfg h o

/-- the lists are consistent with the configuration: the event that follows any history is
listed as Add only if the ingress does not contribute, as Upd or Del only if it does
(what C01 needs: Del has something to remove, Add does not duplicate) -/
theorem lists_consistent (cfg : Cfg) (ops : List Op) (op : Op) (i : Nat) (ev : Ev)
    (he : eventOf (run cfg ops) op = some (i, ev)) :
    (classify cfg ev = .add → (run cfg ops).contrib i = false) ∧
    (classify cfg ev = .upd → (run cfg ops).contrib i = true) ∧
    (classify cfg ev = .del → (run cfg ops).contrib i = true) := by
  have hinv := configured_eq_valid cfg ops
  generalize run cfg ops = s at he hinv
  cases op with
  | create k n =>
    cases hw : s.world k with
    | some o => simp [eventOf, hw] at he
    | none =>
      simp only [eventOf, hw, Option.some.injEq, Prod.mk.injEq] at he
      obtain ⟨rfl, rfl⟩ := he
      have := hinv k
      simp only [validAt, hw] at this
      cases hv : n.valid cfg <;> simp [classify, hv, this]
  | delete k =>
    cases hw : s.world k with
    | none => simp [eventOf, hw] at he
    | some o =>
      simp only [eventOf, hw, Option.some.injEq, Prod.mk.injEq] at he
      obtain ⟨rfl, rfl⟩ := he
      have := hinv k
      simp only [validAt, hw] at this
      cases hv : o.valid cfg <;> simp [classify, hv, this]
  | update k n =>
    cases hw : s.world k with
    | none => simp [eventOf, hw] at he
    | some o =>
      simp only [eventOf, hw, Option.some.injEq, Prod.mk.injEq] at he
      obtain ⟨rfl, rfl⟩ := he
      have := hinv k
      simp only [validAt, hw] at this
      cases hc : changed o n <;> cases ho : o.valid cfg <;> cases hn : n.valid cfg <;>
        simp [classify, hc, ho, hn, this]

/-- non-vacuity: annotation flips in and out, then the class reference brings it back -/
example :
    let cfg : Cfg := ⟨false, false, false⟩
    let ops := [Op.create 0 { ann := .foreign, cls := .absent }, .update 0 { ann := .ours, cls := .absent },
                .create 1 { ann := .absent, cls := .ours }, .update 0 { ann := .absent, cls := .dangling },
                .update 0 { ann := .absent, cls := .ours }, .delete 1]
    ((run cfg ops).contrib 0, (run cfg ops).contrib 1, (run cfg (ops.take 4)).contrib 0,
     (run cfg (ops.take 4)).contrib 1) = (true, false, false, true) := by decide

/-! ### IngressClass objects changing under a living ingress -/

def allAnn : List Ann := [.absent, .ours, .foreign]
def allClassObj : List ClassObj := [.none, .ours, .foreign]
def allIng2 : List Ing2 := allAnn.flatMap fun a => [⟨a, false⟩, ⟨a, true⟩]
def allOp2 : List Op2 :=
  allIng2.map .ingCreate ++ allIng2.map .ingUpdate ++ [.ingDelete] ++ allClassObj.map .classSet
def allSt2 : List St2 :=
  allClassObj.flatMap fun k => (none :: allIng2.map some).flatMap fun i => [⟨k, i, false⟩, ⟨k, i, true⟩]
def allCfg : List Cfg := [⟨false, false, false⟩, ⟨false, true, false⟩, ⟨true, false, false⟩, ⟨true, true, false⟩]

theorem mem_allIng2 (i : Ing2) : i ∈ allIng2 := by
  rcases i with ⟨a, r⟩; cases a <;> cases r <;> decide
theorem mem_allOp2 (op : Op2) : op ∈ allOp2 := by
  cases op with
  | ingCreate i => rcases i with ⟨a, r⟩; cases a <;> cases r <;> decide
  | ingUpdate i => rcases i with ⟨a, r⟩; cases a <;> cases r <;> decide
  | ingDelete => decide
  | classSet k => cases k <;> decide
theorem mem_allSt2 (s : St2) : s ∈ allSt2 := by
  rcases s with ⟨k, i, c⟩
  cases i with
  | none => cases k <;> cases c <;> decide
  | some i => rcases i with ⟨a, r⟩; cases k <;> cases c <;> cases a <;> cases r <;> decide
theorem mem_allCfg (cfg : Cfg) (h : cfg.ctrlEmpty = false) : cfg ∈ allCfg := by
  rcases cfg with ⟨w, p, e⟩; simp only at h; subst h; cases w <;> cases p <;> decide

/-- safety invariant: configured ⇒ the ingress exists and is selected -/
def safe2 (cfg : Cfg) (s : St2) : Bool := !s.contrib || selectedNow cfg s

def exact2 (cfg : Cfg) (s : St2) : Bool := s.contrib == selectedNow cfg s

theorem exact2_step_all :
    (allCfg.all fun cfg => allSt2.all fun s => allOp2.all fun op =>
      !(exact2 cfg s) || exact2 cfg (step2 cfg true s op)) = true := by decide

/-- **configured = selected** over every history of ingress AND IngressClass events (create /
update / delete of the class object the ingress names), one reconciliation per event: the
ingress is part of the configuration iff it exists and the documented rule selects it -/
theorem class_events_full (cfg : Cfg) (h : cfg.ctrlEmpty = false) (ops : List Op2) :
    (run2 cfg true ops).contrib = selectedNow cfg (run2 cfg true ops) := by
  have key : ∀ (ops : List Op2) (s : St2), exact2 cfg s = true →
      exact2 cfg (ops.foldl (step2 cfg true) s) = true := by
    intro ops
    induction ops with
    | nil => intro s hs; exact hs
    | cons op rest ih =>
      intro s hs
      refine ih _ ?_
      have := exact2_step_all
      simp only [List.all_eq_true] at this
      have := this cfg (mem_allCfg cfg h) s (mem_allSt2 s) op (mem_allOp2 op)
      simpa [hs] using this
  have := key ops {} (by rfl)
  unfold run2
  simpa [exact2] using this

/-- never configured while unselected (corollary, kept because it is the security half) -/
theorem class_events_safe (cfg : Cfg) (h : cfg.ctrlEmpty = false) (ops : List Op2) :
    (run2 cfg true ops).contrib = true → selectedNow cfg (run2 cfg true ops) = true := by
  intro hc; rw [← class_events_full cfg h ops]; exact hc

/-- non-vacuity: the IngressClass appears after the ingress that names it, later turns foreign -/
example :
    ((run2 ⟨false, false, false⟩ true [.ingCreate ⟨.absent, true⟩]).contrib,
     (run2 ⟨false, false, false⟩ true [.ingCreate ⟨.absent, true⟩, .classSet .ours]).contrib,
     (run2 ⟨false, false, false⟩ true [.ingCreate ⟨.absent, true⟩, .classSet .ours, .classSet .foreign]).contrib)
    = (false, true, false) := by decide

/-! Why the IngressClass handler must ask for a full sync (`full: true`, fact
`c08IngressClassFull`): without it `syncPartial` only re-reads ingresses the tracker already
links to the class, and an IngressClass that appears (or becomes ours) after the ingress that
names it leaves the ingress unconfigured until an unrelated full sync.  Safety still holds,
liveness does not. -/

theorem safe2_step_all_partial :
    (allCfg.all fun cfg => allSt2.all fun s => allOp2.all fun op =>
      !(safe2 cfg s) || safe2 cfg (step2 cfg false s op)) = true := by decide

theorem class_events_safe_without_full (cfg : Cfg) (h : cfg.ctrlEmpty = false) (ops : List Op2) :
    (run2 cfg false ops).contrib = true → selectedNow cfg (run2 cfg false ops) = true := by
  have key : ∀ (ops : List Op2) (s : St2), safe2 cfg s = true →
      safe2 cfg (ops.foldl (step2 cfg false) s) = true := by
    intro ops
    induction ops with
    | nil => intro s hs; exact hs
    | cons op rest ih =>
      intro s hs
      refine ih _ ?_
      have := safe2_step_all_partial
      simp only [List.all_eq_true] at this
      have := this cfg (mem_allCfg cfg h) s (mem_allSt2 s) op (mem_allOp2 op)
      simpa [hs] using this
  have := key ops {} (by rfl)
  intro hc
  unfold run2 at hc ⊢
  simpa [safe2, hc] using this

theorem class_events_full_fails_without_full :
    ∃ cfg : Cfg, cfg.ctrlEmpty = false ∧ ∃ ops : List Op2,
      (run2 cfg false ops).contrib ≠ selectedNow cfg (run2 cfg false ops) :=
  ⟨⟨false, false, false⟩, rfl, [.ingCreate ⟨.absent, true⟩, .classSet .ours], by decide⟩

/-! ### facts regenerated from the Go source -/

/-- config.go builds ControllerName from a non-empty literal (so `ctrlEmpty = false`); the
legacy copy of IsValidIngress has the same decision skeleton as the one modelled; the Ingress
handler still has the three classification branches -/
theorem facts_c08 :
    Facts.c08ControllerNameLit ≠ "" ∧ Facts.c08LegacySameSkeleton = true ∧
    Facts.c08IsValidSkeleton =
      ["ann, hasAnn = ing.Annotations[\"kubernetes.io/ingress.class\"]",
       "if c.config.WatchIngressWithoutClass",
       "fromAnn = !hasAnn || ann == c.config.IngressClass",
       "fromAnn = hasAnn && ann == c.config.IngressClass",
       "if className := ing.Spec.IngressClassName; className != nil",
       "className := ing.Spec.IngressClassName",
       "hasClass = true",
       "if ingClass, err := c.GetIngressClass(*className); ingClass != nil",
       "fromClass = c.IsValidIngressClass(ingClass)",
       "if err != nil",
       "if hasAnn",
       "if hasClass && fromAnn != fromClass",
       "if c.config.IngressClassPrecedence",
       "return fromClass",
       "return fromAnn",
       "if hasClass",
       "return fromClass",
       "return fromAnn"] ∧
    Facts.c08IsValidClassSkeleton = ["return ingressClass.Spec.Controller == c.config.ControllerName"] ∧
    Facts.c08GetIngressClassSkeleton =
      ["class := networking.IngressClass{}", "err := c.get(className, &class)", "return &class, err"] ∧
    Facts.c08UpdBranches = ["oldValid && newValid", "!oldValid && newValid", "oldValid && !newValid"] ∧
    Facts.c08IngressClassFull = true ∧ Facts.c08IngressFull = false := by
  decide

end HapVerif.C08
