import HapVerif.Model.C08
namespace HapVerif.C08
end HapVerif.C08
