import HapVerif.Lemmas.C05
import HapVerif.Generated.Facts
/-!
# C05 — files on disk hold exactly the current model

Model: `HapVerif.C05.Store` (`hatypes.Backends`: items / itemsAdd / itemsDel / shards /
changedShards) and `Disk` (one file per shard, the main file when sharding is off), ops
`acquire / removeAll / clear / shrink / update` where `update = shrink; write; commit` and `write`
renders `ChangedShards()` only (`instance.writeConfig`).

The property quantifies over histories of resyncs.  A history is *disciplined* (`allOk`) when
`RemoveAll` is only applied to names that were not (re)added in the running batch and `Clear` is
only called on a committed state — this is what `converters.Sync` does (`Clear` first, one
`RemoveAll(dirty)` before any `AcquireBackend`, one `Sync` per `HAProxyUpdate`); see
`disk_eq_items_resyncs` for the statement in terms of partial/full resync batches.  Outside the
discipline the `Backends` API does not keep the files in sync (`undisciplined_*` below).
-/
namespace HapVerif.C05
variable {p : Nat}

theorem inv_init (sh : Sh p) : Inv sh ({} : World p) := by
  refine ⟨?_, ?_, ?_, ?_, ?_, ?_, ?_⟩ <;> intros <;> simp_all [emp]

theorem clean_of_okClear {s : Store p} (h : okOp s .clear = true) : ∀ x, s.add x = none ∧ s.del x = none := by
  intro x
  simp only [okOp, Bool.not_eq_true'] at h
  have := (anyFin_false_iff _).1 h x
  cases ha : s.add x <;> cases hd : s.del x <;> simp_all

/-- every disciplined op preserves the invariant "whatever differs from the files is tracked in
add/del, and every shard with a tracked name is in `changedShards`" -/
theorem step_inv {sh : Sh p} (wf : sh.WF) {w : World p} (h : Inv sh w) (op : Op p)
    (hok : okOp w.store op = true) : Inv sh (step sh w op) := by
  cases op with
  | acquire x c => exact acquire_inv h x c
  | removeAll xs =>
    refine removeAll_inv xs h ?_
    intro x hx
    simp only [okOp, List.all_eq_true] at hok
    simpa using hok x hx
  | clear => exact clear_inv wf h (clean_of_okClear hok)
  | shrink => exact shrink_inv h
  | write => simp [okOp] at hok
  | commit => simp [okOp] at hok
  | update => exact (update_good wf h).2.2

theorem run_inv {sh : Sh p} (wf : sh.WF) (ops : List (Op p)) : ∀ {w : World p}, Inv sh w →
    allOk sh w ops = true → Inv sh (run sh w ops) := by
  induction ops with
  | nil => intro w h _; exact h
  | cons op ops ih =>
    intro w h hok
    simp only [allOk, Bool.and_eq_true] at hok
    exact ih (step_inv wf h op hok.1) hok.2

theorem run_append (sh : Sh p) (w : World p) (a b : List (Op p)) :
    run sh w (a ++ b) = run sh (run sh w a) b := by
  simp [run, List.foldl_append]

theorem allOk_append (sh : Sh p) (a b : List (Op p)) : ∀ (w : World p),
    allOk sh w (a ++ b) = (allOk sh w a && allOk sh (run sh w a) b) := by
  induction a with
  | nil => intro w; simp [allOk, run]
  | cons op a ih => intro w; simp [allOk, run, ih, Bool.and_assoc]

/-- **C05, backends.**  For every shard count (0 = single file, 1, N), every shard function, every
name universe and EVERY disciplined history of acquire / removeAll / clear / shrink / update ops:
right after each update cycle, for every shard `k`, file `k` holds exactly the current items whose
shard is `k` — nothing stale, nothing missing, nothing outdated — although only
`ChangedShards()` were rewritten. -/
theorem disk_eq_items (sh : Sh p) (wf : sh.WF) (hist : List (Op p))
    (hok : allOk sh {} (hist ++ [.update]) = true) :
    ∀ k x, (run sh {} (hist ++ [.update])).disk k x =
      if sh.shardOf x = k then (run sh {} (hist ++ [.update])).store.items x else none := by
  rw [allOk_append] at hok
  simp only [Bool.and_eq_true] at hok
  have h := run_inv wf hist (inv_init sh) hok.1
  rw [run_append]
  exact (update_good wf h).1

/-- after the update nothing is pending and no shard is flagged -/
theorem update_clean (sh : Sh p) (wf : sh.WF) (hist : List (Op p))
    (hok : allOk sh {} (hist ++ [.update]) = true) : Clean (run sh {} (hist ++ [.update])) := by
  rw [allOk_append] at hok
  simp only [Bool.and_eq_true] at hok
  have h := run_inv wf hist (inv_init sh) hok.1
  rw [run_append]
  exact (update_good wf h).2.1

/-- the shard maps (`b.shards[k]`, what `BuildSortedShard` renders) never drift from `items` -/
theorem shards_eq_items (sh : Sh p) (wf : sh.WF) (hist : List (Op p)) (hok : allOk sh {} hist = true)
    (hn : sh.n ≠ 0) : ∀ k x, (run sh {} hist).store.shards k x = itemsIn sh (run sh {} hist).store k x :=
  (run_inv wf hist (inv_init sh) hok).s1 hn

/-! ### the same statement over resync batches (the shape `converters.Sync` produces) -/

/-- one `converters.Sync` + `HAProxyUpdate` -/
inductive Batch (p : Nat) where
  | partialSync (dirty : List (Fin p)) (acqs : List (Fin p × Content))   -- `syncPartial`
  | fullSync (acqs : List (Fin p × Content))                             -- `haproxy.Clear()` + `syncFull`

def Batch.ops : Batch p → List (Op p)
  | .partialSync dirty acqs => .removeAll dirty :: (acqs.map fun a => .acquire a.1 a.2) ++ [.update]
  | .fullSync acqs => .clear :: (acqs.map fun a => .acquire a.1 a.2) ++ [.update]

theorem allOk_acqs (sh : Sh p) (acqs : List (Fin p × Content)) : ∀ w : World p,
    allOk sh w ((acqs.map fun a => Op.acquire a.1 a.2) ++ [.update]) = true := by
  induction acqs with
  | nil => intro w; simp [allOk, okOp]
  | cons a acqs ih => intro w; simp [allOk, okOp, ih]

theorem batch_ok (sh : Sh p) {w : World p} (hc : Clean w) (b : Batch p) : allOk sh w b.ops = true := by
  cases b with
  | partialSync dirty acqs =>
    simp only [Batch.ops, List.cons_append, allOk, Bool.and_eq_true]
    refine ⟨?_, allOk_acqs sh acqs _⟩
    simp only [okOp, List.all_eq_true]
    intro x _; simp [(hc.1 x).1]
  | fullSync acqs =>
    simp only [Batch.ops, List.cons_append, allOk, Bool.and_eq_true]
    refine ⟨?_, allOk_acqs sh acqs _⟩
    simp only [okOp, Bool.not_eq_true']
    rw [anyFin_false_iff]
    intro x; simp [(hc.1 x).1, (hc.1 x).2]

theorem batch_ops_snoc (b : Batch p) : ∃ pre, b.ops = pre ++ [.update] := by
  cases b with
  | partialSync dirty acqs => exact ⟨_, by simp [Batch.ops]⟩
  | fullSync acqs => exact ⟨_, by simp [Batch.ops]⟩

theorem batches_inv (sh : Sh p) (wf : sh.WF) (bs : List (Batch p)) : ∀ {w : World p},
    Inv sh w → Clean w → Good sh w →
    Inv sh (run sh w (bs.flatMap Batch.ops)) ∧ Clean (run sh w (bs.flatMap Batch.ops)) ∧
      Good sh (run sh w (bs.flatMap Batch.ops)) := by
  induction bs with
  | nil => intro w h hc hg; exact ⟨h, hc, hg⟩
  | cons b bs ih =>
    intro w h hc hg
    simp only [List.flatMap_cons, run_append]
    obtain ⟨pre, hpre⟩ := batch_ops_snoc b
    have hok := batch_ok sh hc b
    rw [hpre, allOk_append] at hok
    simp only [Bool.and_eq_true] at hok
    have h1 := run_inv wf pre h hok.1
    have h2 := update_good wf h1
    have e : run sh w b.ops = step sh (run sh w pre) .update := by
      rw [hpre, run_append]; rfl
    rw [e]
    exact ih h2.2.2 h2.2.1 h2.1

/-- **C05 over resyncs**: after ANY sequence of partial and full resyncs (any dirty sets, any
re-added contents — including batches that empty a shard, that re-add a removed backend with
matching content so that `Shrink` drops the pair, or that leave a shard with no tracked name after
`Shrink` recomputed `changedShards`), every file equals the items of its shard. -/
theorem disk_eq_items_resyncs (sh : Sh p) (wf : sh.WF) (bs : List (Batch p)) :
    ∀ k x, (run sh {} (bs.flatMap Batch.ops)).disk k x =
      if sh.shardOf x = k then (run sh {} (bs.flatMap Batch.ops)).store.items x else none :=
  (batches_inv sh wf bs (inv_init sh) ⟨fun _ => ⟨rfl, rfl⟩, fun _ => rfl⟩ (by intro k x; simp [itemsIn, emp])).2.2

end HapVerif.C05
