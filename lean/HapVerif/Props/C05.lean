import HapVerif.Model.C05
namespace HapVerif.C05
end HapVerif.C05
