import HapVerif.Lemmas.C05
import HapVerif.Generated.Facts
/-!
# C05 — files on disk hold exactly the current model

Model: `HapVerif.C05.Store` (`hatypes.Backends`: items / itemsAdd / itemsDel / shards /
changedShards) and `Disk` (one file per shard, the main file when sharding is off), ops
`acquire / removeAll / clear / shrink / update` where `update = shrink; write; commit` and `write`
renders `ChangedShards()` only (`instance.writeConfig`).

The property quantifies over histories of resyncs.  A history is *disciplined* (`allOk`) when
`RemoveAll` is only applied to names that were not (re)added in the running batch and `Clear` is
only called on a committed state — this is what `converters.Sync` does (`Clear` first, one
`RemoveAll(dirty)` before any `AcquireBackend`, one `Sync` per `HAProxyUpdate`); see
`disk_eq_items_resyncs` for the statement in terms of partial/full resync batches.  Outside the
discipline the `Backends` API does not keep the files in sync (`undisciplined_*` below).
-/
namespace HapVerif.C05
variable {p : Nat}

theorem inv_init (sh : Sh p) : Inv sh ({} : World p) := by
  refine ⟨?_, ?_, ?_, ?_, ?_, ?_, ?_⟩ <;> intros <;> simp_all [emp]

theorem clean_of_okClear {s : Store p} (h : okOp s .clear = true) : ∀ x, s.add x = none ∧ s.del x = none := by
  intro x
  simp only [okOp, Bool.not_eq_true'] at h
  have := (anyFin_false_iff _).1 h x
  cases ha : s.add x <;> cases hd : s.del x <;> simp_all

/-- every disciplined op preserves the invariant "whatever differs from the files is tracked in
add/del, and every shard with a tracked name is in `changedShards`" -/
theorem step_inv {sh : Sh p} (wf : sh.WF) {w : World p} (h : Inv sh w) (op : Op p)
    (hok : okOp w.store op = true) : Inv sh (step sh w op) := by
  cases op with
  | acquire x c => exact acquire_inv h x c
  | removeAll xs =>
    refine removeAll_inv xs h ?_
    intro x hx
    simp only [okOp, List.all_eq_true] at hok
    simpa using hok x hx
  | clear => exact clear_inv wf h (clean_of_okClear hok)
  | shrink => exact shrink_inv h
  | write => simp [okOp] at hok
  | commit => simp [okOp] at hok
  | update => exact (update_good wf h).2.2

theorem run_inv {sh : Sh p} (wf : sh.WF) (ops : List (Op p)) : ∀ {w : World p}, Inv sh w →
    allOk sh w ops = true → Inv sh (run sh w ops) := by
  induction ops with
  | nil => intro w h _; exact h
  | cons op ops ih =>
    intro w h hok
    simp only [allOk, Bool.and_eq_true] at hok
    exact ih (step_inv wf h op hok.1) hok.2

theorem run_append (sh : Sh p) (w : World p) (a b : List (Op p)) :
    run sh w (a ++ b) = run sh (run sh w a) b := by
  simp [run, List.foldl_append]

theorem allOk_append (sh : Sh p) (a b : List (Op p)) : ∀ (w : World p),
    allOk sh w (a ++ b) = (allOk sh w a && allOk sh (run sh w a) b) := by
  induction a with
  | nil => intro w; simp [allOk, run]
  | cons op a ih => intro w; simp [allOk, run, ih, Bool.and_assoc]

/-- **C05, backends.**  For every shard count (0 = single file, 1, N), every shard function, every
name universe and EVERY disciplined history of acquire / removeAll / clear / shrink / update ops:
right after each update cycle, for every shard `k`, file `k` holds exactly the current items whose
shard is `k` — nothing stale, nothing missing, nothing outdated — although only
`ChangedShards()` were rewritten. -/
theorem disk_eq_items (sh : Sh p) (wf : sh.WF) (hist : List (Op p))
    (hok : allOk sh {} (hist ++ [.update]) = true) :
    ∀ k x, (run sh {} (hist ++ [.update])).disk k x =
      if sh.shardOf x = k then (run sh {} (hist ++ [.update])).store.items x else none := by
  rw [allOk_append] at hok
  simp only [Bool.and_eq_true] at hok
  have h := run_inv wf hist (inv_init sh) hok.1
  rw [run_append]
  exact (update_good wf h).1

/-- after the update nothing is pending and no shard is flagged -/
theorem update_clean (sh : Sh p) (wf : sh.WF) (hist : List (Op p))
    (hok : allOk sh {} (hist ++ [.update]) = true) : Clean (run sh {} (hist ++ [.update])) := by
  rw [allOk_append] at hok
  simp only [Bool.and_eq_true] at hok
  have h := run_inv wf hist (inv_init sh) hok.1
  rw [run_append]
  exact (update_good wf h).2.1

/-- the shard maps (`b.shards[k]`, what `BuildSortedShard` renders) never drift from `items` -/
theorem shards_eq_items (sh : Sh p) (wf : sh.WF) (hist : List (Op p)) (hok : allOk sh {} hist = true)
    (hn : sh.n ≠ 0) : ∀ k x, (run sh {} hist).store.shards k x = itemsIn sh (run sh {} hist).store k x :=
  (run_inv wf hist (inv_init sh) hok).s1 hn

/-! ### the same statement over resync batches (the shape `converters.Sync` produces) -/

/-- one `converters.Sync` + `HAProxyUpdate` -/
inductive Batch (p : Nat) where
  | partialSync (dirty : List (Fin p)) (acqs : List (Fin p × Content))   -- `syncPartial`
  | fullSync (acqs : List (Fin p × Content))                             -- `haproxy.Clear()` + `syncFull`

def Batch.ops : Batch p → List (Op p)
  | .partialSync dirty acqs => .removeAll dirty :: (acqs.map fun a => .acquire a.1 a.2) ++ [.update]
  | .fullSync acqs => .clear :: (acqs.map fun a => .acquire a.1 a.2) ++ [.update]

theorem allOk_acqs (sh : Sh p) (acqs : List (Fin p × Content)) : ∀ w : World p,
    allOk sh w ((acqs.map fun a => Op.acquire a.1 a.2) ++ [.update]) = true := by
  induction acqs with
  | nil => intro w; simp [allOk, okOp]
  | cons a acqs ih => intro w; simp [allOk, okOp, ih]

theorem batch_ok (sh : Sh p) {w : World p} (hc : Clean w) (b : Batch p) : allOk sh w b.ops = true := by
  cases b with
  | partialSync dirty acqs =>
    simp only [Batch.ops, List.cons_append, allOk, Bool.and_eq_true]
    refine ⟨?_, allOk_acqs sh acqs _⟩
    simp only [okOp, List.all_eq_true]
    intro x _; simp [(hc.1 x).1]
  | fullSync acqs =>
    simp only [Batch.ops, List.cons_append, allOk, Bool.and_eq_true]
    refine ⟨?_, allOk_acqs sh acqs _⟩
    simp only [okOp, Bool.not_eq_true']
    rw [anyFin_false_iff]
    intro x; simp [(hc.1 x).1, (hc.1 x).2]

theorem batch_ops_snoc (b : Batch p) : ∃ pre, b.ops = pre ++ [.update] := by
  cases b with
  | partialSync dirty acqs =>
    exact ⟨.removeAll dirty :: acqs.map fun a => .acquire a.1 a.2, by simp [Batch.ops]⟩
  | fullSync acqs => exact ⟨.clear :: acqs.map fun a => .acquire a.1 a.2, by simp [Batch.ops]⟩

theorem batches_inv (sh : Sh p) (wf : sh.WF) (bs : List (Batch p)) : ∀ {w : World p},
    Inv sh w → Clean w → Good sh w →
    Inv sh (run sh w (bs.flatMap Batch.ops)) ∧ Clean (run sh w (bs.flatMap Batch.ops)) ∧
      Good sh (run sh w (bs.flatMap Batch.ops)) := by
  induction bs with
  | nil => intro w h hc hg; exact ⟨h, hc, hg⟩
  | cons b bs ih =>
    intro w h hc hg
    simp only [List.flatMap_cons, run_append]
    obtain ⟨pre, hpre⟩ := batch_ops_snoc b
    have hok := batch_ok sh hc b
    rw [hpre, allOk_append] at hok
    simp only [Bool.and_eq_true] at hok
    have h1 := run_inv wf pre h hok.1
    have h2 := update_good wf h1
    have e : run sh w b.ops = step sh (run sh w pre) .update := by
      rw [hpre, run_append]; rfl
    rw [e]
    exact ih h2.2.2 h2.2.1 h2.1

/-- **C05 over resyncs**: after ANY sequence of partial and full resyncs (any dirty sets, any
re-added contents — including batches that empty a shard, that re-add a removed backend with
matching content so that `Shrink` drops the pair, or that leave a shard with no tracked name after
`Shrink` recomputed `changedShards`), every file equals the items of its shard. -/
theorem disk_eq_items_resyncs (sh : Sh p) (wf : sh.WF) (bs : List (Batch p)) :
    ∀ k x, (run sh {} (bs.flatMap Batch.ops)).disk k x =
      if sh.shardOf x = k then (run sh {} (bs.flatMap Batch.ops)).store.items x else none :=
  (batches_inv sh wf bs (inv_init sh) ⟨fun _ => ⟨rfl, rfl⟩, fun _ => rfl⟩ (by intro k x; simp [itemsIn, emp])).2.2


/-! ### non-vacuity and witnesses -/

/-- three shards, two names: name 0 lives in shard 2, name 1 in shard 0 -/
def sh3 : Sh 2 := { n := 3, shardOf := fun x => if x.val = 0 then 2 else 0 }
/-- sharding disabled: single file -/
def sh0 : Sh 2 := { n := 0, shardOf := fun _ => 0 }
def c1 : Content := ⟨1, 0⟩
def c2 : Content := ⟨2, 0⟩

theorem sh3_wf : sh3.WF := by intro x; simp only [sh3]; by_cases h : x.val = 0 <;> simp [h]
theorem sh0_wf : sh0.WF := by intro x; simp [sh0]

/-- non-vacuity of `disk_eq_items`: a disciplined history with a full resync that empties shard 2
and changes the backend of shard 0; the files do change (shard 2 loses its backend) -/
example :
    let hist : List (Op 2) := [.acquire 0 c1, .acquire 1 c1, .update, .clear, .acquire 1 c2]
    allOk sh3 {} (hist ++ [.update]) = true ∧
    (run sh3 {} [.acquire 0 c1, .acquire 1 c1, .update]).disk 2 0 = some c1 ∧
    (run sh3 {} (hist ++ [.update])).disk 2 0 = none ∧
    (run sh3 {} (hist ++ [.update])).disk 0 1 = some c2 := by decide

/-- non-vacuity: a change reverted within one batch (`Shrink` drops the pair and recomputes
`changedShards` to empty), the file keeps the DELETED object (more slots), and so does `items` -/
example :
    let hist : List (Op 2) := [.acquire 0 ⟨1, 2⟩, .update, .removeAll [0], .acquire 0 ⟨1, 1⟩]
    allOk sh3 {} (hist ++ [.update]) = true ∧
    (shrink sh3 (run sh3 {} hist).store).changed 2 = false ∧
    (run sh3 {} (hist ++ [.update])).store.items 0 = some ⟨1, 2⟩ ∧
    (run sh3 {} (hist ++ [.update])).disk 2 0 = some ⟨1, 2⟩ := by decide

/-- non-vacuity with sharding disabled (single file 0) -/
example :
    let hist : List (Op 2) := [.acquire 0 c1, .acquire 1 c1, .update, .clear, .acquire 1 c2]
    allOk sh0 {} (hist ++ [.update]) = true ∧ (run sh0 {} (hist ++ [.update])).disk 0 0 = none ∧
    (run sh0 {} (hist ++ [.update])).disk 0 1 = some c2 := by decide

/-- historical witness (repaired by the `fix:` commit on `Backends.Clear`): with the old `Clear`
the disciplined history `Acquire; update; Clear; update` (a full resync that empties a shard)
leaves the removed backend in the file of shard 2 -/
theorem clearOld_stale :
    let hist : List (Op 2) := [.acquire 0 c1, .update, .clear, .update]
    allOk sh3 {} hist = true ∧
    (runOld sh3 {} hist).store.items 0 = none ∧ (runOld sh3 {} hist).disk 2 0 = some c1 ∧
    (run sh3 {} hist).disk 2 0 = none := by decide

/-- the 5-call replay of the design round on the old code: `ChangedShards() = []` with one name in
`ItemsDel` -/
theorem clearOld_changedShards_empty :
    let s := shrink sh3 (clearOld sh3 (commit (acquire sh3 {} 0 c1)))
    s.del 0 = some c1 ∧ (∀ k, k < 3 → s.changed k = false) ∧
    (shrink sh3 (clear sh3 (commit (acquire sh3 {} 0 c1)))).changed 2 = true := by decide

/-- outside the discipline (documented, not reachable through `converters.Sync`): `RemoveAll` of a
name acquired in the same batch — `Shrink` sees an identical add/del pair and puts the removed
backend back into `items`, with no shard flagged -/
theorem undisciplined_add_then_remove :
    let ops : List (Op 2) := [.acquire 0 c1, .removeAll [0], .update]
    allOk sh3 {} ops = false ∧ (run sh3 {} ops).store.items 0 = some c1 ∧ (run sh3 {} ops).disk 2 0 = none := by
  decide

/-- outside the discipline: `Clear` in the middle of a batch replaces `itemsDel` and
`changedShards`, so a backend removed earlier in the batch stays in its file -/
theorem undisciplined_remove_then_clear :
    let ops : List (Op 2) := [.acquire 0 c1, .update, .removeAll [0], .clear, .update]
    allOk sh3 {} ops = false ∧ (run sh3 {} ops).store.items 0 = none ∧ (run sh3 {} ops).disk 2 0 = some c1 := by
  decide

/-- outside the discipline: a `Commit` that is not preceded by the file write (`HAProxyUpdate`
commits on every path; the no-rewrite paths are the subject of C12) loses the pending change -/
theorem commit_without_write_loses_change :
    let ops : List (Op 2) := [.acquire 0 c1, .commit, .update]
    allOk sh3 {} ops = false ∧ (run sh3 {} ops).store.items 0 = some c1 ∧ (run sh3 {} ops).disk 2 0 = none := by
  decide

/-! ### the whole `HAProxyUpdate` (end-to-end): the dynamic-update gate in front of `writeConfig` -/

theorem stepG_inv {sh : Sh p} (wf : sh.WF) {g : GWorld p} (h : Inv sh g.w) (op : Op p)
    (hok : okOp g.w.store op = true) : Inv sh (stepG sh g op).w := by
  cases op with
  | update => exact (updateGated_good wf h g.committed).2.2
  | acquire x c => exact step_inv wf h _ hok
  | removeAll xs => exact step_inv wf h _ hok
  | clear => exact step_inv wf h _ hok
  | shrink => exact step_inv wf h _ hok
  | write => simp [okOp] at hok
  | commit => simp [okOp] at hok

theorem runG_inv {sh : Sh p} (wf : sh.WF) (ops : List (Op p)) : ∀ {g : GWorld p}, Inv sh g.w →
    allOkG sh g ops = true → Inv sh (runG sh g ops).w := by
  induction ops with
  | nil => intro g h _; exact h
  | cons op ops ih =>
    intro g h hok
    simp only [allOkG, Bool.and_eq_true] at hok
    exact ih (stepG_inv wf h op hok.1) hok.2

theorem runG_append (sh : Sh p) (g : GWorld p) (a b : List (Op p)) :
    runG sh g (a ++ b) = runG sh (runG sh g a) b := by
  simp [runG, List.foldl_append]

theorem allOkG_append (sh : Sh p) (a b : List (Op p)) : ∀ (g : GWorld p),
    allOkG sh g (a ++ b) = (allOkG sh g a && allOkG sh (runG sh g a) b) := by
  induction a with
  | nil => intro g; simp [allOkG, runG]
  | cons op a ih => intro g; simp [allOkG, runG, ih, Bool.and_assoc]

/-- **C05 end-to-end.**  The same statement for the whole `HAProxyUpdate`, whose `writeConfig` is
only reached when `!updated || cmdCnt > 0 || Backends().Changed()`: for every disciplined history,
after every `HAProxyUpdate` every file equals the items of its shard — when the write is skipped
nothing was pending, so the files were already exact. -/
theorem disk_eq_items_e2e (sh : Sh p) (wf : sh.WF) (hist : List (Op p))
    (hok : allOkG sh {} (hist ++ [.update]) = true) :
    ∀ k x, (runG sh {} (hist ++ [.update])).w.disk k x =
      if sh.shardOf x = k then (runG sh {} (hist ++ [.update])).w.store.items x else none := by
  rw [allOkG_append] at hok
  simp only [Bool.and_eq_true] at hok
  have h := runG_inv wf hist (g := {}) (inv_init sh) hok.1
  rw [runG_append]
  exact (updateGated_good wf h _).1

/-- non-vacuity: the second update is skipped (nothing pending), the third one removes a backend
without any other change and is NOT skipped -/
example :
    let hist : List (Op 2) := [.acquire 0 c1, .acquire 1 c1, .update, .removeAll [0], .acquire 0 c1, .update,
      .removeAll [0]]
    allOkG sh3 {} (hist ++ [.update]) = true ∧ (runG sh3 {} hist).w.disk 2 0 = some c1 ∧
    (runG sh3 {} (hist ++ [.update])).w.disk 2 0 = none := by decide

/-- historical witness (repaired by the `fix:` commit on `HAProxyUpdate`, finding
`stale-backend-on-disk-noop-update`): with the old gate a batch that only removes backends was
reported as "old and new configurations match", `writeConfig` was skipped and the deferred
`Commit` dropped the shard flag — the removed backend stayed in its file -/
theorem noop_update_keeps_removed_backend :
    let w1 := run sh3 {} [.acquire 0 c1, .acquire 1 c1, .update, .removeAll [0]]
    let w2 := updateGatedOld sh3 true w1
    allOk sh3 {} [.acquire 0 c1, .acquire 1 c1, .update, .removeAll [0], .update] = true ∧
    w2.store.items 0 = none ∧ w2.disk 2 0 = some c1 ∧ w2.store.changed 2 = false ∧
    (updateGated sh3 true w1).disk 2 0 = none := by decide

/-! ### hosts / frontend maps guard -/

theorem hinv_init : HInv ({} : HStore p) := by
  refine ⟨?_, ?_, ?_, ?_⟩ <;> intro h <;> simp at h

theorem hstep_inv {s : HStore p} (h : HInv s) (op : HOp p) (hok : hokOp s op = true) : HInv (hstep s op) := by
  cases op with
  | acquire x c => exact hacquire_inv h x c
  | removeAll xs =>
    refine hremoveAll_inv xs h ?_
    intro x hx
    simp only [hokOp, List.all_eq_true] at hok
    simpa using hok x hx
  | backend x b => exact hbackend_inv h x b
  | clear => exact hclear_inv s
  | update => exact (hupdate_good h true (Or.inl rfl)).2.2

theorem hrun_inv (ops : List (HOp p)) : ∀ {s : HStore p}, HInv s → hallOk s ops = true →
    HInv (ops.foldl hstep s) := by
  induction ops with
  | nil => intro s h _; exact h
  | cons op ops ih =>
    intro s h hok
    simp only [hallOk, Bool.and_eq_true] at hok
    exact ih (hstep_inv h op hok.1) hok.2

theorem hallOk_append (a b : List (HOp p)) : ∀ (s : HStore p),
    hallOk s (a ++ b) = (hallOk s a && hallOk (a.foldl hstep s) b) := by
  induction a with
  | nil => intro s; simp [hallOk]
  | cons op a ih => intro s; simp [hallOk, ih, Bool.and_assoc]

/-- **C05, frontend maps guard.**  `WriteFrontendMaps` is skipped when
`frontend.Maps != nil && !hosts.Changed() && !rootRedirectBackendChanged()`; for every history of
AcquireHost / RemoveAll / backend change / config.Clear / update (RemoveAll only on hosts not
re-added in the batch), after every update the map files hold, for every host, the entry of the
current host AND the root-ssl entry computed from its current backend. -/
theorem maps_eq_hosts (hist : List (HOp p)) (hok : hallOk {} (hist ++ [.update]) = true) :
    ∀ x, ((hist ++ [HOp.update]).foldl hstep ({} : HStore p)).maps x =
         ((hist ++ [HOp.update]).foldl hstep ({} : HStore p)).want x := by
  rw [hallOk_append] at hok
  simp only [Bool.and_eq_true] at hok
  have h := hrun_inv hist hinv_init hok.1
  rw [List.foldl_append]
  exact (hupdate_good h true (Or.inl rfl)).1

/-- non-vacuity: host 0 (root redirect) re-added unchanged while its backend flips ssl-redirect
(maps rewritten because of the backend), then a full resync dropping host 1 -/
example :
    let hist : List (HOp 2) := [.acquire 0 5, .backend 0 1, .acquire 1 6, .update,
      .removeAll [0], .acquire 0 5, .backend 0 0]
    hallOk {} (hist ++ [.update]) = true ∧
    (hist.foldl hstep ({} : HStore 2)).maps 0 = some (5, true) ∧
    ((hist ++ [HOp.update]).foldl hstep ({} : HStore 2)).maps 0 = some (5, false) ∧
    ((hist ++ [HOp.update, .clear, .acquire 0 7, .update]).foldl hstep ({} : HStore 2)).maps 1 = none := by
  decide

/-- historical witness (repaired by the `fix:` commit on `WriteFrontendMaps`, finding
`stale-frontend-map-entry`): with the old guard `Maps != nil && !hosts.Changed()` an ingress update
that only flips `ssl-redirect` (host re-parsed identical, `Hosts.Shrink` drops the pair, only the
backend is dirty) left the host in `_front_redir_root_ssl.map` -/
theorem oldGuard_stale_root_ssl :
    let ops : List (HOp 2) := [.acquire 0 5, .backend 0 1, .update, .removeAll [0], .acquire 0 5, .backend 0 0,
      .update]
    hallOk {} ops = true ∧
    (ops.foldl hstepOld ({} : HStore 2)).maps 0 = some (5, true) ∧
    (ops.foldl hstepOld ({} : HStore 2)).want 0 = some (5, false) ∧
    (ops.foldl hstep ({} : HStore 2)).maps 0 = some (5, false) := by decide

/-! ### regenerated facts: the Go source still has the shape the model assumes -/

/-- `Backends.Clear` inspects the OLD shards and flags the NEW object; `Shrink` recomputes the
flags through `BackendChanged`; `HAProxyUpdate` shrinks before writing and defers `Commit`;
`writeConfig` is called when `!updated || cmdCnt > 0 || Backends().Changed()` and renders the
main file and then `ChangedShards()` only, when `BackendShards > 0`;
`WriteFrontendMaps` is guarded by `Maps != nil && !hosts.Changed() && !rootRedirectBackendChanged()` -/
theorem facts_c05 :
    Facts.c05ClearRange = ["b.shards"] ∧
    Facts.c05ClearCond = ["len(b.shards[i])>0"] ∧
    Facts.c05ClearFlagCalls = ["nb.backendShardChanged"] ∧
    Facts.c05ClearAssigns = ["nb.itemsDel=b.items"] ∧
    Facts.c05ShrinkCalls = ["b.BackendChanged", "b.BackendChanged"] ∧
    Facts.c05CommitAssigns = ["b.itemsAdd=?", "b.itemsDel=?", "b.changedShards=?"] ∧
    Facts.c05UpdateCalls = ["i.config.Commit", "i.config.SyncConfig", "i.config.Shrink",
      "i.config.WriteTCPServicesMaps", "i.config.WriteFrontendMaps", "i.config.WriteBackendMaps",
      "i.writeCrtLists", "i.writeConfig"] ∧
    Facts.c05WriteConfigGate = ["!updated||updater.cmdCnt>0||i.config.Backends().Changed()"] ∧
    Facts.c05WriteConfigCalls = ["i.haproxyTmpl.Write", ".ChangedShards", "i.haproxyTmpl.WriteOutput",
      ".BuildSortedShard"] ∧
    Facts.c05WriteConfigCmps = ["i.options.BackendShards > 0"] ∧
    Facts.c05FrontendMapsGuard = ["c.frontend.Maps!=nil&&!c.hosts.Changed()&&!c.rootRedirectBackendChanged()"] := by
  decide

end HapVerif.C05
