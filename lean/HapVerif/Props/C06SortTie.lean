import HapVerif.Generated.CodeC06
/-!
# C06 — regenerated tie of `sortedHosts` / `sortedBackends` (pkg/converters/ingress/ingress.go, repairs 67da5a0 / 85c4ee0)

Both helpers are TRANSLATED on every run (Generated/CodeC06.lean): they decide the order in which `fullSyncAnnotations`
/ `partialSyncAnnotations` hand hosts and backends to the updater — configurations that compete for a limited
resource (a `redirect-from` domain, the ports of the auth proxy) are granted first come first served, so that order is
visible in the generated configuration.  A Go map is a list of (key, object) pairs in ITERATION order.
`sortedHosts_tie`: the result is the objects in the byte order of their keys; `sortedHosts_order_independent`: for
every permutation of the entries (every iteration order Go may choose) the result is THE SAME list — the visiting order
is a function of the set of hosts, which is what C06 (same cluster state, same behaviour) needs of this step.
Replacing the helper by a plain `range` over the map does not translate to a function with this property.
-/
namespace HapVerif.C06SortTie
open HapVerif HapVerif.GoLib

theorem forRange_fold' {α σ ρ : Type} (f : α → σ → Step σ ρ) (g : σ → α → σ) (h : ∀ x s, f x s = .next (g s x)) :
    ∀ (xs : List α) (s : σ), GoLib.forRange xs s f = .done (xs.foldl g s) := by
  intro xs
  induction xs with
  | nil => intro s; rfl
  | cons x xs ih => intro s; simp only [GoLib.forRange, h, List.foldl_cons]; exact ih _

theorem foldl_append1 {β : Type} (xs acc : List β) : xs.foldl (fun a x => GoLib.append1 a x) acc = acc ++ xs := by
  induction xs generalizing acc with
  | nil => simp
  | cons x xs ih => rw [List.foldl_cons, ih]; simp [GoLib.append1]

/-- filling a slice of the right length position by position -/
theorem fill_from {β γ : Type} (f : β → γ) (xs : List β) (pre : List γ) (rest : List γ) (k : Int)
    (hk : k = (pre.length : Int)) (hr : rest.length = xs.length) :
    (GoLib.enumFrom k xs).foldl (fun acc (p : Int × β) => GoLib.setAt acc p.1 (f p.2)) (pre ++ rest) = pre ++ xs.map f := by
  induction xs generalizing pre rest k with
  | nil =>
    have : rest = [] := List.length_eq_zero_iff.1 hr
    simp [GoLib.enumFrom, this]
  | cons x xs ih =>
    cases rest with
    | nil => simp at hr
    | cons r rest =>
      simp only [GoLib.enumFrom, List.foldl_cons]
      have hset : GoLib.setAt (pre ++ r :: rest) k (f x) = (pre ++ [f x]) ++ rest := by
        subst hk
        have hn : ¬ ((pre.length : Int) < 0) := by omega
        simp only [GoLib.setAt, hn, if_false, Int.toNat_natCast]
        rw [List.set_append_right _ _ (Nat.le_refl _)]
        simp
      rw [hset, ih (pre ++ [f x]) rest (k + 1) (by simp [hk]) (by simpa using hr)]
      simp

theorem fill_all {γ : Type} [Inhabited γ] (m : List (List Char × γ)) (ks : List (List Char)) :
    (GoLib.enum ks).foldl (fun acc (p : Int × List Char) => GoLib.setAt acc p.1 (GoLib.index m p.2))
      (GoLib.makeList (GoLib.len ks) : List γ) = ks.map (GoLib.index m) := by
  have := fill_from (GoLib.index m) ks [] (GoLib.makeList (GoLib.len ks)) 0 rfl (by simp [GoLib.makeList, GoLib.len])
  simpa [GoLib.enum] using this

/-- **closed form**: the objects of the map in the byte order of their keys -/
theorem sortedHosts_tie (hosts : List (List Char × Nat)) :
    CodeC06.sortedHosts hosts = (GoLib.sortStrings (GoLib.keys hosts)).map (GoLib.index hosts) := by
  unfold CodeC06.sortedHosts
  simp only []
  rw [forRange_fold' _ (fun a x => GoLib.append1 a x) (fun _ _ => rfl), foldl_append1]
  simp only [List.nil_append]
  rw [forRange_fold' _ (fun acc (p : Int × List Char) => GoLib.setAt acc p.1 (GoLib.index hosts p.2)) (fun ⟨_, _⟩ _ => rfl)]
  simp only []
  exact fill_all hosts _

theorem sortedBackends_tie (backends : List (List Char × Nat)) :
    CodeC06.sortedBackends backends = (GoLib.sortStrings (GoLib.keys backends)).map (GoLib.index backends) := by
  unfold CodeC06.sortedBackends
  simp only []
  rw [forRange_fold' _ (fun a x => GoLib.append1 a x) (fun _ _ => rfl), foldl_append1]
  simp only [List.nil_append]
  rw [forRange_fold' _ (fun acc (p : Int × List Char) => GoLib.setAt acc p.1 (GoLib.index backends p.2)) (fun ⟨_, _⟩ _ => rfl)]
  simp only []
  exact fill_all backends _

/-! ### the order of the map does not matter -/

theorem insStr_perm (a : List Char) (l : List (List Char)) : (GoLib.insStr a l).Perm (a :: l) := by
  induction l with
  | nil => simp [GoLib.insStr]
  | cons b t ih =>
    unfold GoLib.insStr
    split
    · exact List.Perm.refl _
    · exact ((List.Perm.cons b ih).trans (List.Perm.swap a b t))

theorem sortStrings_perm_self (l : List (List Char)) : (GoLib.sortStrings l).Perm l := by
  induction l with
  | nil => simp [GoLib.sortStrings]
  | cons a t ih => exact (insStr_perm a _).trans (List.Perm.cons a ih)

theorem insStr_sorted (a : List Char) (l : List (List Char)) (h : l.Pairwise (· ≤ ·)) :
    (GoLib.insStr a l).Pairwise (· ≤ ·) := by
  induction l with
  | nil => simp [GoLib.insStr]
  | cons b t ih =>
    unfold GoLib.insStr
    have ⟨hb, ht⟩ := List.pairwise_cons.1 h
    split
    · rename_i hab
      have hab' : a ≤ b := of_decide_eq_true hab
      refine List.pairwise_cons.2 ⟨?_, h⟩
      intro c hc
      rcases List.mem_cons.1 hc with rfl | hc
      · exact hab'
      · exact List.le_trans hab' (hb c hc)
    · rename_i hab
      have hba : b ≤ a := by
        rcases List.le_total a b with h | h
        · exact absurd (decide_eq_true h) hab
        · exact h
      refine List.pairwise_cons.2 ⟨?_, ih ht⟩
      intro c hc
      rcases List.mem_cons.1 ((insStr_perm a t).mem_iff.1 hc) with rfl | hc
      · exact hba
      · exact hb c hc

theorem sortStrings_sorted (l : List (List Char)) : (GoLib.sortStrings l).Pairwise (· ≤ ·) := by
  induction l with
  | nil => simp [GoLib.sortStrings]
  | cons a t ih => exact insStr_sorted a _ ih

/-- `sort.Strings` gives the same list for every arrangement of the same keys -/
theorem sortStrings_perm {l₁ l₂ : List (List Char)} (h : l₁.Perm l₂) : GoLib.sortStrings l₁ = GoLib.sortStrings l₂ :=
  List.Perm.eq_of_pairwise (fun _ _ _ _ h1 h2 => List.le_antisymm h1 h2) (sortStrings_sorted l₁) (sortStrings_sorted l₂)
    ((sortStrings_perm_self l₁).trans (h.trans (sortStrings_perm_self l₂).symm))

/-- a Go map: no key twice -/
def Keyed {γ : Type} (m : List (List Char × γ)) : Prop := (GoLib.keys m).Nodup

theorem lookup_of_mem {γ : Type} (m : List (List Char × γ)) (hk : Keyed m) (k : List Char) (v : γ) (h : (k, v) ∈ m) :
    m.lookup k = some v := by
  induction m with
  | nil => simp at h
  | cons p t ih =>
    obtain ⟨k', v'⟩ := p
    have hk' : (k' :: GoLib.keys t).Nodup := hk
    have ⟨hn, ht⟩ := List.nodup_cons.1 hk'
    rcases List.mem_cons.1 h with heq | h'
    · cases heq; simp [List.lookup]
    · have hne : (k == k') = false := by
        simp only [beq_eq_false_iff_ne, ne_eq]
        intro he
        subst he
        exact hn (List.mem_map.2 ⟨(k, v), h', rfl⟩)
      simp only [List.lookup, hne]
      exact ih ht h'

theorem index_perm {γ : Type} [Inhabited γ] {m₁ m₂ : List (List Char × γ)} (h : m₁.Perm m₂) (hk : Keyed m₁) (k : List Char) :
    GoLib.index m₁ k = GoLib.index m₂ k := by
  have hk2 : Keyed m₂ := (List.Perm.map _ h).nodup_iff.1 hk
  unfold GoLib.index
  cases h1 : m₁.lookup k with
  | none =>
    cases h2 : m₂.lookup k with
    | none => rfl
    | some v =>
      have hm : (k, v) ∈ m₂ := by
        have := List.lookup_eq_some_iff.1 h2
        obtain ⟨l1, l2, hl, _⟩ := this
        rw [hl]; simp
      have := lookup_of_mem m₁ hk k v (h.mem_iff.2 hm)
      rw [h1] at this; cases this
  | some v =>
    have hm : (k, v) ∈ m₁ := by
      obtain ⟨l1, l2, hl, _⟩ := List.lookup_eq_some_iff.1 h1
      rw [hl]; simp
    rw [lookup_of_mem m₂ hk2 k v (h.mem_iff.1 hm)]

/-- **the hosts are visited in an order that is a function of the SET of hosts**: whatever order Go's map
iteration hands the entries in (any permutation), `sortedHosts` returns the same list -/
theorem sortedHosts_order_independent {m₁ m₂ : List (List Char × Nat)} (h : m₁.Perm m₂) (hk : Keyed m₁) :
    CodeC06.sortedHosts m₁ = CodeC06.sortedHosts m₂ := by
  rw [sortedHosts_tie, sortedHosts_tie, sortStrings_perm (show (GoLib.keys m₁).Perm (GoLib.keys m₂) from List.Perm.map _ h)]
  exact List.map_congr_left (fun k _ => index_perm h hk k)

theorem sortedBackends_order_independent {m₁ m₂ : List (List Char × Nat)} (h : m₁.Perm m₂) (hk : Keyed m₁) :
    CodeC06.sortedBackends m₁ = CodeC06.sortedBackends m₂ := by
  rw [sortedBackends_tie, sortedBackends_tie, sortStrings_perm (show (GoLib.keys m₁).Perm (GoLib.keys m₂) from List.Perm.map _ h)]
  exact List.map_congr_left (fun k _ => index_perm h hk k)

/-- every host of the map is visited exactly as often as its key occurs: once -/
theorem sortedHosts_visits_all (m : List (List Char × Nat)) :
    (CodeC06.sortedHosts m).length = m.length := by
  rw [sortedHosts_tie]; simp [(sortStrings_perm_self _).length_eq, GoLib.keys]

example : CodeC06.sortedHosts [("b.local".toList, 2), ("a.local".toList, 1)] = [1, 2] := by decide
example : CodeC06.sortedHosts [("a.local".toList, 1), ("b.local".toList, 2)] = [1, 2] := by decide

end HapVerif.C06SortTie
