import HapVerif.Model.C15
import HapVerif.Lemmas.C15
import HapVerif.Generated.Facts
/-!
# C15 — each TLS host is served with the certificate its Ingress declares, else default

Model: `Sync.fullSync` (tls loop, first assignment wins; `crtOf`: any error reading the secret =
default certificate), `Sync.crtList` (`WriteFrontendMaps` after repair c836d74), `Sync.sniCrt`
(HAProxy's crt-list lookup: exact filter, wildcard filter, first line — trusted).
Spec: `C15.specCrt` over the cluster state.  Hypotheses (decidable): hosts of tls blocks and rules are
lower case, no tls block names the reserved `<default>`; the SNI name does not start with `*`.
Not assumed: existing secrets, unique declarations, any relation between namespaces.

The dynamic path (`set ssl cert` / `commit ssl cert` sent to a running HAProxy instead of a reload)
is the satellite `Props/C15Run.lean` (`Model/C15Run.lean`: certificate in memory per FILE + crt-list of the
last reload; `running_eq_disk`, `served_running_spec` for all histories, witness
`content_keyed_memo_leaves_file_stale`); the harness compares on every reconciliation of every history what
the running (simulated) HAProxy presents with the declared certificate.

WHICH hosts a long-lived controller re-reads when a Secret changes (the tracker closure over
secret—ingress—host links, for all histories of ingress add/update/delete and secret rotations) is the
satellite `Props/C15Track.lean` (`links_invariant`, `rotation_reaches_all_readers`,
`rotation_resyncs_all_readers`, witness `seeded_closure_loses_second_reader`).
-/
namespace HapVerif.C15
open HapVerif.Sync
open HapVerif.C04 (Str)

/-- **sni_spec** (full strength): for every cluster state and every SNI name the generated
certificate list selects
* the certificate of the Secret of the FIRST-created Ingress that declares the host in `spec.tls`
  (default if that Secret is missing, malformed or forbidden) ,
* the default certificate for a host that only appears in rules,
* for a name no Ingress mentions, the certificate of the wildcard host above it, else default. -/
theorem sni_spec {w : World} (wt : WFTls w = true) (wh : WFHosts w = true) {sni : Str}
    (hs : WFSni sni = true) : served w sni = specCrt w sni :=
  served_eq_spec wt wh hs

/-- never another tenant's: whatever is served is the default certificate or the certificate some
tls declaration resolves to for exactly that host or for the wildcard above an undeclared name -/
theorem served_cases {w : World} (wt : WFTls w = true) (wh : WFHosts w = true) {sni : Str}
    (hs : WFSni sni = true) :
    served w sni = .dflt ∨ declaredCrt w (C04.lower sni) = some (served w sni) ∨
      (declaredCrt w (C04.lower sni) = none ∧ isRuleHost w (C04.lower sni) = false ∧
        ∃ wc, wildOf (C04.lower sni) = some wc ∧ declaredCrt w wc = some (served w sni)) := by
  rw [sni_spec wt wh hs]
  unfold specCrt
  simp only
  cases hd : declaredCrt w (C04.lower sni) with
  | some c => exact Or.inr (Or.inl rfl)
  | none =>
    simp only
    by_cases hr : isRuleHost w (C04.lower sni) = true
    · simp [hr]
    · have hr' : isRuleHost w (C04.lower sni) = false := by simpa using hr
      simp only [hr', Bool.false_eq_true, if_false]
      cases hw : wildOf (C04.lower sni) with
      | none => exact Or.inl rfl
      | some wc =>
        simp only
        cases hdw : declaredCrt w wc with
        | none => exact Or.inl rfl
        | some c => exact Or.inr (Or.inr ⟨trivial, trivial, wc, rfl, hdw⟩)

/-- a host with a tls entry whose secret does not resolve, and a host without tls entry, get the
default certificate -/
theorem fallback_default {w : World} (wt : WFTls w = true) (wh : WFHosts w = true) {sni : Str}
    (hs : WFSni sni = true)
    (h : declaredCrt w (C04.lower sni) = some .dflt ∨
      (declaredCrt w (C04.lower sni) = none ∧ isRuleHost w (C04.lower sni) = true)) :
    served w sni = .dflt := by
  rw [sni_spec wt wh hs]
  unfold specCrt
  rcases h with h | ⟨h1, h2⟩
  · simp [h]
  · simp [h1, h2]

/-- **rotation_exact**: replacing the content of Secret `ns/name` (new content version `v`) changes
the served certificate of a name exactly as `rot` says: names served with that secret get the new
content, every other name keeps its certificate. -/
theorem rotation_exact {w : World} (wt : WFTls w = true) (wh : WFHosts w = true) (ns name : Str) (v : Nat)
    {sni : Str} (hs : WFSni sni = true) :
    served (setSecretVersion w ns name v) sni = rot ns name v (served w sni) := by
  rw [sni_spec (w := setSecretVersion w ns name v) (by rw [WFTls_setVersion]; exact wt) wh hs,
    sni_spec wt wh hs, specCrt_setVersion]

/-- the names whose certificate changes are exactly those served with the replaced secret -/
theorem rotation_changes_iff {w : World} (wt : WFTls w = true) (wh : WFHosts w = true) (ns name : Str)
    (v : Nat) {sni : Str} (hs : WFSni sni = true) :
    served (setSecretVersion w ns name v) sni ≠ served w sni ↔
      ∃ v', served w sni = .secret ns name v' ∧ v' ≠ v := by
  rw [rotation_exact wt wh ns name v hs]
  cases served w sni with
  | dflt => simp [rot]
  | secret a b v' =>
    unfold rot
    by_cases hc : a = ns ∧ b = name
    · obtain ⟨rfl, rfl⟩ := hc
      simp only [and_self, if_true, ne_eq, Crt.secret.injEq, true_and]
      constructor
      · intro h; exact ⟨v', rfl, fun e => h e.symm⟩
      · rintro ⟨v'', rfl, hne⟩ e; exact hne e.symm
    · simp only [hc, if_false, ne_eq, not_true_eq_false, false_iff, not_exists, not_and]
      intro v'' e
      simp only [Crt.secret.injEq] at e
      exact absurd ⟨e.1, e.2.1⟩ hc

/-! ## witnesses -/

def s (x : String) : Str := x.toList

/-- two tenants: namespace `d` owns `*.w.local` with its certificate, namespace `e` declares the exact
host `x.w.local` without tls entry and `y.w.local` with a missing secret; `a.local` is declared twice
(the first-created ingress is listed second) -/
def w1 : World :=
  { ings := [
      { ns := s "e", name := s "late", created := 5, valid := true,
        rules := [⟨s "a.local", []⟩], tls := [⟨[s "a.local"], s "tls2"⟩] },
      { ns := s "d", name := s "wild", created := 1, valid := true,
        rules := [⟨s "*.w.local", []⟩, ⟨s "a.local", []⟩],
        tls := [⟨[s "*.w.local"], s "tls1"⟩, ⟨[s "a.local"], s "tls1"⟩] },
      { ns := s "e", name := s "exact", created := 2, valid := true,
        rules := [⟨s "x.w.local", []⟩, ⟨s "y.w.local", []⟩],
        tls := [⟨[s "y.w.local"], s "missing"⟩, ⟨[s "b.local"], s "d/tls1"⟩] } ],
    secs := [⟨s "d", s "tls1", true, 1⟩, ⟨s "e", s "tls2", true, 1⟩] }

example : WFTls w1 = true ∧ WFHosts w1 = true ∧ WFSni (s "x.w.local") = true := by decide +kernel

/-- first-created wins; missing and forbidden (cross-namespace) secrets give the default certificate;
an undeclared name under the wildcard gets the wildcard's certificate -/
example : served w1 (s "A.local") = .secret (s "d") (s "tls1") 1 ∧
    served w1 (s "y.w.local") = .dflt ∧ served w1 (s "b.local") = .dflt ∧
    served w1 (s "zz.w.local") = .secret (s "d") (s "tls1") 1 ∧
    served w1 (s "unknown.local") = .dflt := by decide +kernel

/-- the defect repaired by c836d74 (replayed on the Go code before the repair, kept in the corpus of
the harness): the exact host of namespace `e` without tls entry was answered with the wildcard
certificate of namespace `d`; so was the host whose own secret is missing -/
theorem wildcard_capture_before_fix :
    servedBefore w1 (s "x.w.local") = .secret (s "d") (s "tls1") 1 ∧ specCrt w1 (s "x.w.local") = .dflt ∧
    servedBefore w1 (s "y.w.local") = .secret (s "d") (s "tls1") 1 ∧ specCrt w1 (s "y.w.local") = .dflt ∧
    wildcardCaptures w1 (s "x.w.local") = true := by decide +kernel

theorem wildcard_capture_fixed :
    served w1 (s "x.w.local") = .dflt ∧ served w1 (s "y.w.local") = .dflt := by decide +kernel

/-- `sni_spec` applied (hypotheses satisfiable, conclusion about a real lookup) -/
example : served w1 (s "x.w.local") = specCrt w1 (s "x.w.local") :=
  sni_spec (by decide +kernel) (by decide +kernel) (by decide +kernel)

/-- rotation on the witness: `a.local` and the names under the wildcard follow `d/tls1`, `e`'s hosts do not move -/
example : served (setSecretVersion w1 (s "d") (s "tls1") 2) (s "a.local") = .secret (s "d") (s "tls1") 2 ∧
    served (setSecretVersion w1 (s "d") (s "tls1") 2) (s "zz.w.local") = .secret (s "d") (s "tls1") 2 ∧
    served (setSecretVersion w1 (s "d") (s "tls1") 2) (s "x.w.local") = .dflt := by decide +kernel

/-- regenerated from the Go source -/
theorem facts_c15 :
    Facts.c15DefaultCrtLine = " !*" ∧
    Facts.c15TLSFirstWins = ["host.TLS.TLSHash==\"\"", "host.TLS.TLSHash!=tlsPath.SHA1Hash"] ∧
    Facts.c15WildcardRepair = true := by decide

end HapVerif.C15
