import HapVerif.Model.C15
namespace HapVerif.C15
end HapVerif.C15
