import HapVerif.Model.C13
import HapVerif.Generated.CodeC13
/-!
# C13 — tie between the model and the source

`HapVerif.CodeC13.reloadWhen` / `ingressWhen` are REGENERATED on every run from
`pkg/utils/workqueue/ratelimiters.go` by `/verif/harness/cmd/translate`.  The theorems below state that
they are the limiter functions `C13.reloadWhen` / `C13.ingressWhen` every C13 theorem is about.

Go's zero `time.Time` (the limiter before its first call) is an instant `z` with `z + interval < now`
(year 1 versus the wall clock); the model writes it `none`.
-/
namespace HapVerif.C13Tie
open HapVerif

/-- `last` as the Go field holds it -/
def enc (z : Int) : Option Int → Int
  | none => z
  | some l => l

theorem reloadWhen_tie (interval z now : Int) (last : Option Int) (hi : 0 ≤ interval)
    (hz : z + interval < now) :
    let r := CodeC13.reloadWhen { interval := interval, last := enc z last } now
    r.1.interval = interval ∧ C13.reloadWhen interval last now = (some r.1.last, r.2) := by
  cases last with
  | none =>
    simp only [enc, CodeC13.reloadWhen, C13.reloadWhen, GoLib.timeAfter, GoLib.timeBefore, GoLib.timeAdd, GoLib.timeSub]
    have h1 : ¬ z > now := by omega
    simp [h1, hz]
  | some l =>
    simp only [enc, CodeC13.reloadWhen, C13.reloadWhen, GoLib.timeAfter, GoLib.timeBefore, GoLib.timeAdd, GoLib.timeSub]
    by_cases h1 : l > now
    · simp [h1]
    · by_cases h2 : l + interval < now
      · simp [h1, h2]
      · simp [h1, h2]

theorem ingressWhen_tie (delta wait z now : Int) (last : Option Int) (hd : 0 ≤ delta)
    (hz : z + delta < now) :
    let r := CodeC13.ingressWhen { delta := delta, wait := wait, last := enc z last } now
    r.1.delta = delta ∧ r.1.wait = wait ∧ C13.ingressWhen delta wait last now = (some r.1.last, r.2) := by
  cases last with
  | none =>
    simp only [enc, CodeC13.ingressWhen, C13.ingressWhen, GoLib.timeAfter, GoLib.timeBefore, GoLib.timeAdd, GoLib.timeSub]
    have h1 : ¬ z > now := by omega
    simp [h1, hz]
  | some l =>
    simp only [enc, CodeC13.ingressWhen, C13.ingressWhen, GoLib.timeAfter, GoLib.timeBefore, GoLib.timeAdd, GoLib.timeSub]
    by_cases h1 : l > now
    · simp [h1]
    · by_cases h2 : l + delta < now
      · simp [h1, h2]
      · simp [h1, h2]

/-- `Forget` (called by `WorkQueue.process` after every successful sync) does not touch the limiter state -/
theorem reloadForget_tie (r : GoLib.ReloadHAProxy) (now : Int) : CodeC13.reloadForget r now = r := rfl
theorem ingressForget_tie (r : GoLib.IngressReconciler) (now : Int) : CodeC13.ingressForget r now = r := rfl

/-- … i.e. it is the `Forget` parameter `C13.forgetId` under which the duration theorems of `Props.C13`
(`simulateD_single`, `reload_spacing_dur`, `no_extra_runs`, …) are stated -/
theorem reloadForget_is_forgetId (interval z now : Int) (last : Option Int) :
    (CodeC13.reloadForget { interval := interval, last := enc z last } now).last = enc z (C13.forgetId last now) := rfl
theorem ingressForget_is_forgetId (delta wait z now : Int) (last : Option Int) :
    (CodeC13.ingressForget { delta := delta, wait := wait, last := enc z last } now).last
      = enc z (C13.forgetId last now) := rfl

/-- `NumRequeues` is constantly 0 (client-go reads it only for metrics / max-retries decisions) -/
theorem numRequeues_tie (r : GoLib.ReloadHAProxy) (q : GoLib.IngressReconciler) :
    CodeC13.reloadNumRequeues r = 0 ∧ CodeC13.ingressNumRequeues q = 0 := ⟨rfl, rfl⟩

/-- non-vacuity: the translated limiter on a concrete deferred call (interval 10 s, last reload at 0, asked at 5 s:
scheduled for 10 s, `last` advances — the behaviour the repair c4e0c5b introduced) -/
example : CodeC13.reloadWhen { interval := 10, last := 0 } 5 = ({ interval := 10, last := 10 }, 5) := by decide

/-- the code before repair c4e0c5b does NOT satisfy the tie (kept as a witness that the statement bites):
`reloadWhenOld` differs from the translated source on the same call -/
example : (C13.reloadWhenOld 10 (some 0) 5).1 ≠ some (CodeC13.reloadWhen { interval := 10, last := 0 } 5).1.last := by decide

end HapVerif.C13Tie
