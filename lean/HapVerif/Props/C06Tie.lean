import HapVerif.Model.Sync
import HapVerif.Generated.CodeC06
/-!
# C06 — tie between the model and the source (the order of `sortIngress`)

`HapVerif.CodeC06.sortIngressLess` is REGENERATED on every run from the closure `sortIngress` passes to `sort.Slice`
(`pkg/converters/ingress/ingress.go`).  It is `Sync.ingLt`, the order in which both the full and the partial sync
process the ingresses — the reason the result does not depend on list or batch order (C06) and that the first-created
Ingress wins a duplicated path (C03).
-/
namespace HapVerif.C06Tie
open HapVerif

theorem sortIngressLess_tie (a b : Sync.Ingress) : CodeC06.sortIngressLess a b = Sync.ingLt a b := by
  unfold CodeC06.sortIngressLess Sync.ingLt Sync.ingKey
  by_cases h : a.created = b.created
  · simp [h]
  · have h' : (a.created != b.created) = true := by simpa using h
    simp only [h', ↓reduceIte]
    by_cases hlt : a.created < b.created <;> simp [hlt, h]

/-- the order is total on distinct (creation time, namespace/name) keys: a strict tie happens only for equal keys -/
example : CodeC06.sortIngressLess
    { ns := "team-a".toList, name := "web".toList, created := 5, valid := true }
    { ns := "team-b".toList, name := "api".toList, created := 5, valid := true } = true := by decide

end HapVerif.C06Tie
