import HapVerif.Model.C09Memo
import HapVerif.Props.C09
import HapVerif.Props.C09Ctx
import HapVerif.Generated.Facts
/-!
C09 — several references resolved in ONE sync (after seed C09g: a per-sync memo of TLS secret files in
the ingress converter's `addTLS`, keyed by the secret's full name, skipped the cache facade).

  * `runSync_none`: the memo-free resolver answers every reference of a sync with `getterResolve` of that
    reference alone.
  * `resolution_history_free` (FULL STRENGTH: every getter, settings, pair of histories, reader, value):
    for the memo-free resolver the decision for a reader depends only on (reader namespace, value, the
    bit of the getter's own kind) and never on which other references were resolved before in the same
    sync — nor on whether there was such a sync at all (`pre' = []`: a partial sync of the reader alone).
  * `legit_reader_irrelevant`: in particular a LEGITIMATE reader of the same target converted earlier in
    the same sync does not open the target for a foreign reader: denied stays denied.
  * `site_history_free`: the same at the level of the reference sites of `Model/C09.lean` (every
    secret-reading site): the last reference of a sync gets `siteUses` of that reference.
  * `memo_invisible`: EVERY memo whose key determines the facade's decision (`KeyDecides`) is invisible:
    `runSync (some p) = runSync none`; `readerKey_invisible` (with `readerKey_inj`): keeping the reader and the
    value in the key is such a memo.
  * `seeded_memo_hands_foreign_secret`, `seeded_memo_history_dependent`, `seeded_memo_alone_agrees`:
    decide-witnesses of the seeded memo keyed by the target only (`targetKey`).
  * `facts_c09memo`: `addTLS`, `readCertRef` and the annotation updater's secret-reading functions reach
    the getter without consulting any converter-side table (regenerated statement lists).
-/
namespace HapVerif.C09

/-! ### the memo-free resolver -/

theorem runFrom_none (g : Getter) (b : Bits) (t : MemoTbl) (refs : List Ref) :
    runFrom none g b t refs = refs.map (fun q => getterResolve g b q.reader q.value) := by
  induction refs generalizing t with
  | nil => rfl
  | cons q qs ih => simp [runFrom, resolveM, ih]

/-- the memo-free resolver: every reference of a sync is answered on its own -/
theorem runSync_none (g : Getter) (b : Bits) (refs : List Ref) :
    runSync none g b refs = refs.map (fun q => getterResolve g b q.reader q.value) :=
  runFrom_none g b [] refs

theorem answerAfter_none (g : Getter) (b : Bits) (pre : List Ref) (q : Ref) :
    answerAfter none g b pre q = getterResolve g b q.reader q.value := by
  simp [answerAfter, runSync_none]

/-- FULL STRENGTH.  Memo-free resolution is history free: the answer a reference gets depends on the
reader's namespace, the value and the permission bit of the getter's own kind — not on the references
resolved before it in the same sync (`pre`, `pre'` arbitrary, the empty history included), not on the
other three bits. -/
theorem resolution_history_free (g : Getter) (b b' : Bits) (pre pre' : List Ref) (q : Ref)
    (hbit : getterAllow b g = getterAllow b' g) :
    answerAfter none g b pre q = answerAfter none g b' pre' q := by
  rw [answerAfter_none, answerAfter_none]
  exact bits_independent g b b' q.reader q.value hbit

/-- a legitimate reader of the target (any number of them, of any namespace) converted before does not
open the target: what the facade refuses to the reader alone, it refuses after them -/
theorem legit_reader_irrelevant (g : Getter) (b : Bits) (pre : List Ref) (q : Ref)
    (hden : getterResolve g b q.reader q.value = .denied) :
    answerAfter none g b pre q = .denied := by
  rw [answerAfter_none, hden]

/-- every answer of a memo-free sync respects the cross-namespace permission: while the getter's kind is
denied, each reference of a (non-global) reader resolves inside the reader's namespace -/
theorem sync_reads_only_own (g : Getter) (b : Bits) (refs : List Ref) (i : Nat) (q : Ref) (ns n : Str)
    (hq : refs[i]? = some q) (hd : q.reader ≠ []) (hb : getterAllow b g = false)
    (h : (runSync none g b refs)[i]? = some (.obj ns n)) : ns = q.reader := by
  rw [runSync_none] at h
  simp [hq] at h
  exact getter_reads_only_own g b q.reader q.value ns n hb hd h

/-- the reference sites that read a Secret through a getter (all but `auth-url`) -/
def Site.readsSecret (s : Site) : Bool := s != .authURL

/-- site level: whatever was converted before in the same sync, the site of the last object uses what
`siteUses` says for that object alone (every model state `ex`, both annotation carriers) -/
theorem site_history_free (s : Site) (hs : s.readsSecret = true) (b : Bits) (ex : Existing) (fi : Bool)
    (pre : List Ref) (src value : Str) :
    answerAfter none s.getter b pre ⟨src, value⟩ = siteUses s b ex fi src value := by
  rw [answerAfter_none]
  cases s <;> simp_all [Site.readsSecret, siteUses, siteResolve, siteArgs]

/-! ### memos -/

/-- the key determines the facade's decision: two references with the same key get the same answer -/
def KeyDecides (p : MemoPolicy) (g : Getter) (b : Bits) : Prop :=
  ∀ r v r' v', p.key r v = p.key r' v' → getterResolve g b r v = getterResolve g b r' v'

/-- every stored entry is the facade's answer for every reference with that key -/
def TblSound (p : MemoPolicy) (g : Getter) (b : Bits) (t : MemoTbl) : Prop :=
  ∀ r v res, t.find (p.key r v) = some res → getterResolve g b r v = res

theorem runFrom_sound (p : MemoPolicy) (g : Getter) (b : Bits) (hk : KeyDecides p g b)
    (t : MemoTbl) (ht : TblSound p g b t) (refs : List Ref) :
    runFrom (some p) g b t refs = refs.map (fun q => getterResolve g b q.reader q.value) := by
  induction refs generalizing t with
  | nil => rfl
  | cons q qs ih =>
    simp only [runFrom, resolveM, List.map_cons]
    cases hf : t.find (p.key q.reader q.value) with
    | some res =>
      simp only
      rw [ih t ht, ht q.reader q.value res hf]
    | none =>
      simp only
      congr 1
      apply ih
      split
      · intro r v res h
        simp only [MemoTbl.find] at h
        split at h
        · next heq =>
          cases h
          exact hk r v q.reader q.value heq.symm
        · exact ht r v res h
      · exact ht

/-- FULL STRENGTH over memos: a memo whose key determines the decision cannot be observed — every sync
gives the answers of the memo-free resolver -/
theorem memo_invisible (p : MemoPolicy) (g : Getter) (b : Bits) (hk : KeyDecides p g b) (refs : List Ref) :
    runSync (some p) g b refs = runSync none g b refs := by
  rw [runSync_none]
  exact runFrom_sound p g b hk [] (fun _ _ _ h => by simp [MemoTbl.find] at h) refs

theorem readerKey_inj (r v r' v' : Str) (hr : '|' ∉ r) (hr' : '|' ∉ r')
    (h : r ++ ['|'] ++ v = r' ++ ['|'] ++ v') : r = r' ∧ v = v' := by
  induction r generalizing r' with
  | nil =>
    cases r' with
    | nil => simpa using h
    | cons c cs =>
      simp at h
      exact absurd (h.1 ▸ List.mem_cons_self) hr'
  | cons c cs ih =>
    cases r' with
    | nil =>
      simp at h
      exact absurd (h.1 ▸ List.mem_cons_self) hr
    | cons c' cs' =>
      simp at h
      have := ih cs' (fun hm => hr (List.mem_cons_of_mem _ hm)) (fun hm => hr' (List.mem_cons_of_mem _ hm))
        (by simpa using h.2)
      exact ⟨by rw [h.1, this.1], this.2⟩

/-- a memo that keeps WHO reads in its key is harmless: same key ⇒ same reader and value ⇒ same answer
(for readers whose namespace does not contain the separator; Kubernetes namespaces are DNS labels) -/
theorem readerKey_invisible (g : Getter) (b : Bits) (refs : List Ref)
    (hns : ∀ q ∈ refs, '|' ∉ q.reader) :
    runSync (some readerKey) g b refs = runSync none g b refs := by
  -- restrict `KeyDecides` to the readers of `refs` by threading the membership through the run
  rw [runSync_none]
  suffices H : ∀ (t : MemoTbl),
      (∀ r v res, '|' ∉ r → t.find (readerKey.key r v) = some res → getterResolve g b r v = res) →
      ∀ rs : List Ref, (∀ q ∈ rs, '|' ∉ q.reader) →
      runFrom (some readerKey) g b t rs = rs.map (fun q => getterResolve g b q.reader q.value) from
    H [] (fun _ _ _ _ h => by simp [MemoTbl.find] at h) refs hns
  intro t ht rs
  induction rs generalizing t with
  | nil => intro _; rfl
  | cons q qs ih =>
    intro hq
    have hqr : '|' ∉ q.reader := hq q List.mem_cons_self
    have hqs : ∀ x ∈ qs, '|' ∉ x.reader := fun x hx => hq x (List.mem_cons_of_mem _ hx)
    simp only [runFrom, resolveM, List.map_cons]
    cases hf : t.find (readerKey.key q.reader q.value) with
    | some res =>
      simp only
      rw [ih t ht hqs, ht q.reader q.value res hqr hf]
    | none =>
      simp only
      congr 1
      apply ih _ _ hqs
      split
      · intro r v res hr h
        simp only [MemoTbl.find] at h
        split at h
        · next heq =>
          cases h
          have := readerKey_inj q.reader q.value r v hqr hr (by simpa [readerKey] using heq)
          rw [this.1, this.2]
        · exact ht r v res hr h
      · exact ht

/-! ### the seeded memo (C09g): keyed by WHAT is read only -/

def refB : Ref := ⟨['b'], ['c', 'r', 't']⟩                    -- Ingress of b: `secretName: crt`
def refA : Ref := ⟨['a'], ['b', '/', 'c', 'r', 't']⟩          -- Ingress of a: `secretName: b/crt`
def refASec : Ref := ⟨['a'], "secret://b/crt".toList⟩

/-- every key at deny; namespace b's own Ingress is converted first, then namespace a's Ingress naming
`b/crt` (or `secret://b/crt`): the seeded memo hands b's certificate to a, the code's resolver denies -/
theorem seeded_memo_hands_foreign_secret :
    runSync (some targetKey) .tls Bits.none [refB, refA] = [.obj ['b'] ['c', 'r', 't'], .obj ['b'] ['c', 'r', 't']] ∧
    runSync none .tls Bits.none [refB, refA] = [.obj ['b'] ['c', 'r', 't'], .denied] ∧
    answerAfter (some targetKey) .tls Bits.none [refB] refASec = .obj ['b'] ['c', 'r', 't'] ∧
    answerAfter none .tls Bits.none [refB] refASec = .denied := by
  refine ⟨?_, ?_, ?_, ?_⟩ <;> decide

/-- the same cluster state, two configurations: the seeded memo's answer for a depends on whether b's
reader was converted before a IN THE SAME SYNC (full sync) or not (a converted first; a partial sync of
a alone) -/
theorem seeded_memo_history_dependent :
    answerAfter (some targetKey) .tls Bits.none [refB] refA ≠ answerAfter (some targetKey) .tls Bits.none [] refA ∧
    runSync (some targetKey) .tls Bits.none [refA, refB] = [.denied, .obj ['b'] ['c', 'r', 't']] := by
  refine ⟨?_, ?_⟩ <;> decide

/-- why it looked innocent: with ONE referencing object per sync the seeded memo is the code -/
theorem seeded_memo_alone_agrees (g : Getter) (b : Bits) (q : Ref) :
    runSync (some targetKey) g b [q] = runSync none g b [q] := by
  simp [runSync, runFrom, resolveM, MemoTbl.find]

/-- non-vacuity of `resolution_history_free` / `legit_reader_irrelevant`: a denied reference after a
legitimate reader, and an allowed one -/
example : answerAfter none .tls Bits.none [refB] refA = .denied ∧
          answerAfter none .tls ⟨true, false, false, false⟩ [refB] refA = .obj ['b'] ['c', 'r', 't'] := by
  refine ⟨?_, ?_⟩ <;> decide

/-- non-vacuity of `memo_invisible`: the seeded key does NOT determine the decision -/
example : ¬ KeyDecides targetKey .tls Bits.none := by
  intro h
  have := h ['b'] ['c', 'r', 't'] ['a'] ['b', '/', 'c', 'r', 't'] (by decide)
  revert this
  decide

/-- `syncRefs`: the driver's description of a sync -/
example : syncRefs true true true refA refB = [refB, refA] ∧ syncRefs false true true refA refB = [refA, refB] ∧
          syncRefs true false true refA refB = [refA] := by decide

/-! ### regenerated facts -/

theorem facts_c09memo :
    Facts.c09AddTLSStatements =
      ["if secretName != \"\"",
       "tlsFile, err := c.cache.GetTLSSecretPath( source.Namespace, secretName, []convtypes.TrackingRef{{Context: source.Type, UniqueName: source.FullName()}}, )",
       "if err == nil", "return tlsFile",
       "c.logger.Warn(\"using default certificate due to an error reading secret '%s' on %s: %v\", secretName, source, err)",
       "return c.defaultCrt"] ∧
    Facts.c09ReadCertRefStatements.getLast? =
      some "return c.cache.GetTLSSecretPath(namespace, string(certRef.Name), []convtypes.TrackingRef{{Context: convtypes.ResourceGateway, UniqueName: \"gw\"}})" ∧
    Facts.c09ReadCertRefStatements.length = 5 ∧
    Facts.c09SecretGetterGuards = [] ∧
    Facts.c09ConverterSecretTables = [] := by
  refine ⟨?_, ?_, ?_, ?_, ?_⟩ <;> rfl

end HapVerif.C09
