import HapVerif.Model.C02
namespace HapVerif.C02
end HapVerif.C02
