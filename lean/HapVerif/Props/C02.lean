import HapVerif.Model.C02
import HapVerif.Generated.Facts
import HapVerif.Props.C02Pair
import HapVerif.Props.C02Cookie
/-!
# C02 — running HAProxy never diverges from disk after runtime updates (M-Dyn)

Model: `HapVerif.C02.checkBackendPair` (dynupdate.go) + the HAProxy runtime server table
(`load`, `applyCmd`).  The deep theorems (`pair_sound`, `pair_fault`, `names_perm`,
`len_preserved`, `no_oob`) live in `Props/C02Pair.lean` once closed; this file holds the decision
structure around the pairing loop and the witnesses of the repaired defect.  The cookie column of the runtime table
(`pair_sound_cookie`, `pair_cookie_guard`, `history_sound_cookie`, the witnesses of the seeded variant C02e and of the
free-slot defect repaired by 91faf0b) lives in
`Props/C02Cookie.lean`.
-/
namespace HapVerif.C02

/-- more endpoints than slots: never dynamic, nothing is sent -/
theorem more_endpoints_reload (old cur : Back) (same : Bool) (sc : List Resp)
    (h : old.eps.length < cur.eps.length) :
    (checkBackendPair old cur same sc).updated = false ∧ (checkBackendPair old cur same sc).cmds = [] := by
  simp [checkBackendPair, h]

/-- anything but endpoints differing: never dynamic (for every endpoint change and every response) -/
theorem other_change_reload (old cur : Back) (sc : List Resp) (hr : cur.resolver = false)
    (hd : cur.dynUpdate = false) : (checkBackendPair old cur false sc).updated = false := by
  unfold checkBackendPair
  split
  · rfl
  · simp [hr, hd]

/-- duplicated targets (the repaired defect): reload, no command, no rename -/
theorem dup_targets_reload (old cur : Back) (same : Bool) (sc : List Resp)
    (hl : ¬ old.eps.length < cur.eps.length) (hr : cur.resolver = false) (hd : cur.dynUpdate = true)
    (hdup : hasDupTarget old.eps = true ∨ hasDupTarget cur.eps = true) :
    checkBackendPair old cur same sc = ⟨false, cur.eps, [], false⟩ := by
  unfold checkBackendPair
  simp only [hl, if_false, hr, hd, Bool.false_eq_true, Bool.not_true]
  rcases hdup with h | h <;> simp [h]

/-- a backend with dynamic scaling off never sends a command -/
theorem static_no_commands (old cur : Back) (same : Bool) (sc : List Resp) (hd : cur.dynUpdate = false)
    (hr : cur.resolver = false) : (checkBackendPair old cur same sc).cmds = [] := by
  unfold checkBackendPair
  split
  · rfl
  · simp only [hr, hd, Bool.false_eq_true, if_false, Bool.not_false, if_true]
    split <;> rfl

def ep (n ip : String) (en : Bool) : EP :=
  { name := n, ip := ip, port := if en then 8080 else 1023, enabled := en, weight := 1, cookie := n, label := "", tref := "", puid := 0 }

/-- why the guard is needed (replayed on the Go code before the repair): with two current endpoints
on one target the pairing loop hands the same server name to both … -/
theorem dup_cur_gives_duplicate_names :
    (pairLoop [ep "srv001" "10.0.0.1" true, ep "srv002" "127.0.0.1" false]
      [ep "srv001" "10.0.0.1" true, ep "srv002" "10.0.0.1" true] false 1 true []).map (fun s => namesNodup s.cur)
    = some false := by decide +kernel

/-- … and with duplicated old targets `empty[i]` is read out of range (Go panics) -/
theorem dup_old_out_of_range :
    pairLoop [ep "srv001" "10.0.0.1" true, ep "srv002" "10.0.0.1" true]
      [ep "srv001" "10.0.0.2" true, ep "srv002" "10.0.0.3" true] false 1 true [] = none := by
  decide +kernel

/-- regenerated from the Go source: the accepted `set server` answers and the empty-slot address -/
theorem facts_c02 :
    Facts.c02OkPrefixes = ["IP changed from ", "no need to change "] ∧
    Facts.c02EmptyAddr = "127.0.0.1" ∧ Facts.c02EmptyPort = 1023 := by decide

/-! ### the theorems about the pairing loop (proved in `Props/C02Pair.lean`, restated here for the audit) -/

/-- P1: `empty[i]` is never read out of range -/
theorem no_oob (old cur : List EP) (p : Bool) (iw : Int) (same : Bool) (sc : List Resp)
    (hO : hasDupTarget old = false) (hC : hasDupTarget cur = false) (hlen : cur.length ≤ old.length) :
    pairLoop old cur p iw same sc ≠ none := C02Pair.no_oob old cur p iw same sc hO hC hlen

/-- P1': `checkBackendPair` never panics (the guard on duplicated targets is part of it) -/
theorem no_panic (old cur : Back) (same : Bool) (sc : List Resp) :
    (checkBackendPair old cur same sc).panic = false := C02Pair.no_panic old cur same sc

/-- P2: the slot count is preserved -/
theorem len_preserved (old cur : List EP) (p : Bool) (iw : Int) (same : Bool) (sc : List Resp)
    (hO : hasDupTarget old = false) (hC : hasDupTarget cur = false) (hE : cur.all (·.enabled) = true)
    (hlen : cur.length ≤ old.length) (s : PairSt) (hs : pairLoop old cur p iw same sc = some s) :
    s.cur.length = old.length := C02Pair.len_preserved old cur p iw same sc hO hC hE hlen s hs

/-- P3: the names of the result are a permutation of the old names -/
theorem names_perm (old cur : List EP) (p : Bool) (iw : Int) (same : Bool) (sc : List Resp)
    (hO : hasDupTarget old = false) (hC : hasDupTarget cur = false) (hE : cur.all (·.enabled) = true)
    (hlen : cur.length ≤ old.length) (s : PairSt) (hs : pairLoop old cur p iw same sc = some s) :
    (s.cur.map (·.name)).Perm (old.map (·.name)) := C02Pair.names_perm old cur p iw same sc hO hC hE hlen s hs

/-- P4: a failed command is never reported as a successful dynamic update -/
theorem pair_fault (old cur : Back) (same : Bool) (sc : List Resp) :
    (¬ (sc.take (checkBackendPair old cur same sc).cmds.length).all Resp.ok = true →
      (checkBackendPair old cur same sc).updated = false) ∧
    ((checkBackendPair old cur same sc).updated = true → same = true) := C02Pair.pair_fault old cur same sc

/-- P5: after a successful dynamic update the running table is the rendered one -/
theorem pair_sound (old cur : Back) (same : Bool) (sc : List Resp) (hr : cur.resolver = false)
    (hE : cur.eps.all (·.enabled) = true) (hN : namesNodup old.eps = true) :
    (checkBackendPair old cur same sc).updated = true →
    sortN (norm ((checkBackendPair old cur same sc).cmds.foldl applyCmd (load old.eps))) =
      sortN (norm (load (checkBackendPair old cur same sc).cur)) := C02Pair.pair_sound old cur same sc hr hE hN

/-- P5 through the executable oracle -/
theorem checkBackendPair_oracle_none (old cur : Back) (same : Bool) (sc : List Resp)
    (hor : old.resolver = false) (hr : cur.resolver = false) (hE : cur.eps.all (·.enabled) = true)
    (hN : namesNodup old.eps = true) (hNc : namesNodup cur.eps = true) :
    oracle old ((sc.take (checkBackendPair old cur same sc).cmds.length).all Resp.ok)
      (checkBackendPair old cur same sc) = none :=
  C02Pair.checkBackendPair_oracle_none old cur same sc hor hr hE hN hNc

theorem checkBackendPair_oracle_none_ok (old cur : Back) (same : Bool) (sc : List Resp)
    (hor : old.resolver = false) (hr : cur.resolver = false) (hE : cur.eps.all (·.enabled) = true)
    (hN : namesNodup old.eps = true) (hNc : namesNodup cur.eps = true) :
    oracle old true (checkBackendPair old cur same sc) = none :=
  C02Pair.checkBackendPair_oracle_none_ok old cur same sc hor hr hE hN hNc

/-- P5 with the cookie column ("preserved cookie values"): the running table — every server with the cookie it was
LOADED with, `set server` cannot change it — equals the table loaded from the written endpoints -/
theorem pair_sound_cookie (aff : Bool) (old cur : Back) (same : Bool) (sc : List Resp) (hr : cur.resolver = false)
    (hE : cur.eps.all (·.enabled) = true) (hN : namesNodup old.eps = true) :
    (checkBackendPair old cur same sc).updated = true →
    sortNC (normC (tableC (cookieScope aff cur.cookiePreserve) old.eps (checkBackendPair old cur same sc).cmds)) =
      sortNC (normC (loadC (cookieScope aff cur.cookiePreserve) (checkBackendPair old cur same sc).cur)) :=
  C02Cookie.pair_sound_cookie aff old cur same sc hr hE hN

/-- P5c: the preserve guards and the copy of the free slots — a differing cookie means reload; every endpoint of
the result, free slots included, keeps the cookie HAProxy holds for its name -/
theorem pair_cookie_guard (old cur : Back) (same : Bool) (sc : List Resp) (hr : cur.resolver = false)
    (hd : cur.dynUpdate = true) (hp : cur.cookiePreserve = true)
    (hE : cur.eps.all (·.enabled) = true) (hN : namesNodup old.eps = true) :
    (checkBackendPair old cur same sc).updated = true →
    ∀ e ∈ (checkBackendPair old cur same sc).cur, ∃ o ∈ old.eps, o.name = e.name ∧ o.cookie = e.cookie :=
  C02Cookie.pair_cookie_guard old cur same sc hr hd hp hE hN

/-- P5h: history form — every sequence of accepted updates between two reloads (`C02Cookie.Reach`), whatever was
sent: HAProxy holds for every server, free slots included, the cookie of the server line written last -/
theorem history_sound_cookie (b0 : Back) (hN : namesNodup b0.eps = true) (eps : List EP)
    (h : C02Cookie.Reach b0 eps) (cmds : List Cmd) :
    sortNC (cookieRows (tableC true b0.eps cmds)) = sortNC (cookieRows (loadC true eps)) :=
  C02Cookie.history_sound_cookie b0 hN eps h cmds

/-- P5 with cookies through the executable oracle -/
theorem checkBackendPair_oracleC_none (aff : Bool) (old cur : Back) (same : Bool) (sc : List Resp)
    (hor : old.resolver = false) (hr : cur.resolver = false) (hE : cur.eps.all (·.enabled) = true)
    (hN : namesNodup old.eps = true) (hNc : namesNodup cur.eps = true) :
    oracleC (cookieScope aff cur.cookiePreserve) old
      ((sc.take (checkBackendPair old cur same sc).cmds.length).all Resp.ok) (checkBackendPair old cur same sc) = none :=
  C02Cookie.checkBackendPair_oracleC_none aff old cur same sc hor hr hE hN hNc

end HapVerif.C02
