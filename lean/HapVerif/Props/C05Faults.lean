import HapVerif.Lemmas.C12
import HapVerif.Generated.Facts
/-!
# C05 over histories that include FAILED updates

"After every successful update the configuration files HAProxy loads hold exactly the current model"
— also when earlier updates of the history failed at a file write.  A failed write returns before the
remaining files are written and the deferred `config.Commit()` forgets what was changed; the C05
invariant ("whatever differs from the files is tracked in the changed-sets") is then broken, and the
guards that skip unchanged files (`tcpservices.Changed()`, the frontend maps guard,
`backends.Changed()` + `ItemsAdd`, `ChangedShards()`, the gate in front of `writeConfig`) would keep
the stale files.  The repair 17543b6 (`instance.rewriteOwed` + `config.ForceRewrite()`) makes the
first update that gets past `writeConfig` render every file.

Model: `HapVerif.C12.FW` (Model/C12.lean) = the C05 stores (backends + shard files, hosts + frontend
map set) plus the tcp service (sni map, crt-list, `listen` section), the backend map files, and the
flags `rewriteOwed` / `reloadOwed`; `upd o sh f` = one whole `instance.HAProxyUpdate` with a fault at
any numbered point (`Fault`: tcp maps, frontend maps, backend maps, crt-lists, Sends of the dynamic
update, haproxy.cfg, shard file k, reload request, reload result).  Nothing is redefined here: the
statements below are corollaries of the invariant of every history (`JInv`, `upd_outcome` of
Lemmas/C12.lean), read in the C05 direction: not "the retry converges" but "WHATEVER update returns
success — with any batch in front of it, after any number of failures — leaves every file equal to
the rendering of the current model".

The file set of `WriteFrontendMaps` (the crt-list `_front_bind_crt.list`, then the 13 maps, written
behind ONE guard and linked by `frontend.Maps = fmaps` only when all of them were written, fact
`c05FrontendMapsWrites`) is one component of the model (`HStore.maps`); the crt-list line of a host
is a function of the host content like its map entries (`front_crtlist_eq_hosts_after_faults`).
-/
namespace HapVerif.C05F
open HapVerif.C12
open HapVerif.C05 (Sh Content itemsIn HStore)
variable {p : Nat}

/-- the invariant of every history, whatever fails in it (`JInv`: the stores are consistent; while no
rewrite is owed the files follow the stores) -/
theorem hist_jinv {o : Opt} {sh : Sh p} (wf : sh.WF) (hrep : o.repaired = true) (evs : List (Ev p)) :
    ∀ {w : FW p}, JInv o sh w → allOk o sh w evs = true → JInv o sh (run o sh w evs) := by
  induction evs with
  | nil => intro w h _; exact h
  | cons e evs ih =>
    intro w h hok
    simp only [allOk, Bool.and_eq_true] at hok
    have hstep : JInv o sh (step o sh w e) := by
      cases e with
      | upd f => exact upd_jinv wf hrep h f
      | qrun f => exact qrun_jinv h f
      | acq x c => exact jinv_step_batch wf h _ hok.1 (fun _ h => by cases h) (fun _ h => by cases h)
      | rem xs => exact jinv_step_batch wf h _ hok.1 (fun _ h => by cases h) (fun _ h => by cases h)
      | hacq x c => exact jinv_step_batch wf h _ hok.1 (fun _ h => by cases h) (fun _ h => by cases h)
      | hrem xs => exact jinv_step_batch wf h _ hok.1 (fun _ h => by cases h) (fun _ h => by cases h)
      | tcp v => exact jinv_step_batch wf h _ hok.1 (fun _ h => by cases h) (fun _ h => by cases h)
      | full => exact jinv_step_batch wf h _ hok.1 (fun _ h => by cases h) (fun _ h => by cases h)
    exact ih hstep hok.2

theorem allOk_append' (o : Opt) (sh : Sh p) (a b : List (Ev p)) : ∀ (w : FW p),
    allOk o sh w (a ++ b) = (allOk o sh w a && allOk o sh (run o sh w a) b) := by
  induction a with
  | nil => intro w; simp [allOk, run]
  | cons e a ih => intro w; simp [allOk, run, ih, Bool.and_assoc]

/-- the state right after the update that follows the history -/
abbrev after (o : Opt) (sh : Sh p) (hist : List (Ev p)) (f : Fault) : Res p := upd o sh f (run o sh {} hist)

/-- **C05 with faults.**  For every shard count, shard function and name universe, every disciplined
history of batches (backends, hosts, tcp service, full resyncs), updates and reload-queue runs in
which ANY update may have failed at ANY point (a file that cannot be written — tcp map, frontend
crt-list / map, backend map, tcp crt-list, haproxy.cfg, shard file k —, failed runtime commands, a
failed reload request, a failed reload), any number of times and in any mix; for the update that
follows, whatever batch it carries and whatever fault is injected into it: IF IT RETURNS SUCCESS, then
every shard file holds exactly the items of its shard, the frontend map set holds exactly the
hosts, haproxy.cfg refers to the host maps iff hosts exist and holds the tcp service, the tcp sni
map and crt-list hold the tcp service, and every backend that needs ACLs has its maps. -/
theorem disk_eq_items_after_faults (o : Opt) (sh : Sh p) (wf : sh.WF) (hrep : o.repaired = true)
    (hist : List (Ev p)) (hok : allOk o sh {} hist = true) (f : Fault)
    (hsucc : (after o sh hist f).err = false) : DiskGood o sh (after o sh hist f).w := by
  have hj := hist_jinv wf hrep hist (jinv_init o sh) hok
  rcases upd_outcome wf hrep hj f with ⟨_, he, _⟩ | ⟨_, _, hd, _⟩
  · unfold after at hsucc; rw [he] at hsucc; cases hsucc
  · exact hd

/-- the same, said for EVERY update inside a history: wherever a history is cut in front of an
update, if that update returned success the files are the current model -/
theorem every_successful_update_good (o : Opt) (sh : Sh p) (wf : sh.WF) (hrep : o.repaired = true)
    (hist : List (Ev p)) (hok : allOk o sh {} hist = true) :
    ∀ pre f post, hist = pre ++ Ev.upd f :: post → (after o sh pre f).err = false →
      DiskGood o sh (after o sh pre f).w := by
  intro pre f post heq hsucc
  rw [heq, allOk_append'] at hok
  simp only [Bool.and_eq_true] at hok
  exact disk_eq_items_after_faults o sh wf hrep pre hok.1 f hsucc

/-- an update that stops at a file write never returns success, so "successful" cannot be confused
with "half written" -/
theorem failed_write_is_reported (o : Opt) (sh : Sh p) (wf : sh.WF) (hrep : o.repaired = true)
    (hist : List (Ev p)) (hok : allOk o sh {} hist = true) (f : Fault) :
    (after o sh hist f).w.rewriteOwed = true → (after o sh hist f).err = true ∧ f.isWrite = true := by
  intro hro
  have hj := hist_jinv wf hrep hist (jinv_init o sh) hok
  rcases upd_outcome wf hrep hj f with ⟨hw, he, _⟩ | ⟨hno, _⟩
  · exact ⟨he, hw⟩
  · unfold after at hro; rw [hno] at hro; cases hro

/-! ### the components, in the vocabulary of C05 -/

section components
variable (o : Opt) (sh : Sh p) (wf : sh.WF) (hrep : o.repaired = true) (hist : List (Ev p))
  (hok : allOk o sh {} hist = true) (f : Fault) (hsucc : (after o sh hist f).err = false)
include wf hrep hok hsucc

/-- backend shard files / the main file: `disk_eq_items` over histories with faults -/
theorem shards_eq_items_after_faults :
    ∀ k x, (after o sh hist f).w.g.w.disk k x = itemsIn sh (after o sh hist f).w.g.w.store k x :=
  (disk_eq_items_after_faults o sh wf hrep hist hok f hsucc).1

/-- frontend map set: `maps_eq_hosts` over histories with faults; haproxy.cfg refers to it iff hosts exist -/
theorem maps_eq_hosts_after_faults :
    (∀ x, (after o sh hist f).w.h.maps x = (after o sh hist f).w.h.want x) ∧
    (after o sh hist f).w.mainHosts = hasHosts (after o sh hist f).w.h :=
  ⟨(disk_eq_items_after_faults o sh wf hrep hist hok f hsucc).2.1,
   (disk_eq_items_after_faults o sh wf hrep hist hok f hsucc).2.2.1⟩

/-- the crt-list of the frontend (`_front_bind_crt.list`) is the first file of the frontend map set:
whatever a host contributes to it (`tlsOf`: its certificate and bind options, none = default
certificate only) is on disk exactly for the current hosts -/
theorem front_crtlist_eq_hosts_after_faults (tlsOf : Nat → Option Nat) :
    ∀ x, ((after o sh hist f).w.h.maps x).bind (fun e => tlsOf e.1) =
      ((after o sh hist f).w.h.items x).bind tlsOf := by
  intro x
  rw [(disk_eq_items_after_faults o sh wf hrep hist hok f hsucc).2.1 x]
  unfold HStore.want
  cases (after o sh hist f).w.h.items x <;> rfl

/-- tcp services: the sni map (guard `tcpservices.Changed() || rewriteAll`), the crt-list (no guard:
written by every update that gets there) and the `listen` section of haproxy.cfg hold the current
service -/
theorem tcpfiles_eq_services_after_faults :
    ((after o sh hist f).w.tcp.want ≠ 0 →
      (after o sh hist f).w.tcp.map = (after o sh hist f).w.tcp.want ∧
      (after o sh hist f).w.tcp.crt = (after o sh hist f).w.tcp.want) ∧
    (after o sh hist f).w.tcp.main = (after o sh hist f).w.tcp.want :=
  ⟨(disk_eq_items_after_faults o sh wf hrep hist hok f hsucc).2.2.2.1,
   (disk_eq_items_after_faults o sh wf hrep hist hok f hsucc).2.2.2.2.1⟩

/-- backend maps (guard `backends.Changed() || rewriteAll`, `ItemsAdd` only unless everything is
rewritten): every current backend that needs ACLs has the maps of its current configuration -/
theorem backmaps_eq_items_after_faults :
    ∀ x c, (after o sh hist f).w.g.w.store.items x = some c → o.needACL (conf c) = true →
      (after o sh hist f).w.bm x = some (conf c) :=
  (disk_eq_items_after_faults o sh wf hrep hist hok f hsucc).2.2.2.2.2

end components

/-! ### non-vacuity, and what the code before the repair did -/

def s0 : Sh 2 := { n := 0, shardOf := fun _ => 0 }
def s3 : Sh 2 := { n := 3, shardOf := fun x => if x.val = 0 then 2 else 0 }
theorem s0_wf : s0.WF := by intro x; simp [s0]
theorem s3_wf : s3.WF := by intro x; simp only [s3]; by_cases h : x.val = 0 <;> simp [h]

/-- odd configurations need ACLs -/
def oA : Opt := { needACL := fun c => c % 2 == 1 }
/-- the code before 17543b6 / 5b084c3: the flags are never looked at -/
def oldA : Opt := { needACL := fun c => c % 2 == 1, repaired := false }

def c4 : Content := ⟨4, 0⟩      -- conf 1 (ACLs)
def c8 : Content := ⟨8, 0⟩      -- conf 2
def c12 : Content := ⟨12, 0⟩    -- conf 3 (ACLs)

/-- non-vacuity of `disk_eq_items_after_faults`: five failed updates in a row, each at another write
point (shard file, tcp crt-list, backend maps, frontend maps, tcp map) and each with a NEW batch in
front of it, so no update is "the retry" of the one before; before the last update the shard file of
name 0, the backend maps of name 1, the host maps and all three tcp renderings are stale and a
rewrite is owed; the sixth update carries yet another batch (a new host) and succeeds: every file is
the current model, also those of objects its own batch did not touch -/
example :
    let hist : List (Ev 2) := [.acq 0 c4, .acq 1 c4, .hacq 0 2, .tcp 1, .upd .none,
      .rem [0], .acq 0 c12, .upd (.shard 2),
      .tcp 2, .upd .crtLists,
      .rem [1], .acq 1 c12, .upd .backMaps,
      .hrem [0], .hacq 0 4, .upd .frontMaps,
      .tcp 3, .upd .tcpMaps,
      .hacq 1 6]
    let w := run oA s3 {} hist
    let r := after oA s3 hist .none
    allOk oA s3 {} hist = true ∧ w.rewriteOwed = true ∧
    w.g.w.store.items 0 = some c12 ∧ w.g.w.disk 2 0 = some c4 ∧ w.g.w.store.items 1 = some c12 ∧ w.bm 1 = some 1 ∧
    w.h.items 0 = some 4 ∧ w.h.maps 0 = some (2, false) ∧ w.h.maps 1 = none ∧
    w.tcp.want = 3 ∧ w.tcp.map = 2 ∧ w.tcp.crt = 1 ∧ w.tcp.main = 1 ∧
    r.err = false ∧ r.w.rewriteOwed = false ∧
    r.w.g.w.disk 2 0 = some c12 ∧ r.w.g.w.disk 0 1 = some c12 ∧ r.w.bm 0 = some 3 ∧ r.w.bm 1 = some 3 ∧
    r.w.h.maps 0 = some (4, false) ∧ r.w.h.maps 1 = some (6, false) ∧
    r.w.tcp.map = 3 ∧ r.w.tcp.crt = 3 ∧ r.w.tcp.main = 3 := by decide

/-- non-vacuity of `failed_write_is_reported` / the hypothesis `err = false` is not always true -/
example :
    (after oA s3 [.acq 0 c4] .backMaps).err = true ∧ (after oA s3 [.acq 0 c4] .backMaps).w.rewriteOwed = true ∧
    (after oA s3 [.acq 0 c4] .reloadSend).err = true ∧ (after oA s3 [.acq 0 c4] .reloadSend).w.rewriteOwed = false := by
  decide

/-- **without `ForceRewrite` the statement fails — shard files.**  Name 0 lives in shard 2, name 1 in
shard 0.  The update that changes name 0 fails at its shard file; the next batch changes name 1 only;
its update SUCCEEDS on the old code (`Commit()` had emptied the changed-sets, `ChangedShards()` = [0])
and shard file 2 keeps the old backend — not `DiskGood`.  The current code rewrites every shard. -/
theorem old_success_stale_shard :
    let hist : List (Ev 2) := [.acq 0 c4, .acq 1 c4, .upd .none, .rem [0], .acq 0 c12, .upd (.shard 2),
      .rem [1], .acq 1 c8]
    allOk oA s3 {} hist = true ∧
    (after oldA s3 hist .none).err = false ∧ (after oldA s3 hist .none).w.g.w.store.items 0 = some c12 ∧
    (after oldA s3 hist .none).w.g.w.disk 2 0 = some c4 ∧ ¬ DiskGood oldA s3 (after oldA s3 hist .none).w ∧
    (after oA s3 hist .none).err = false ∧ (after oA s3 hist .none).w.g.w.disk 2 0 = some c12 := by
  refine ⟨by decide, by decide, by decide, by decide, ?_, by decide, by decide⟩
  intro h
  have h1 := h.1 2 0
  revert h1
  decide

/-- **without `ForceRewrite` — backend maps.**  The maps of name 0 cannot be written; the next batch
touches name 1 only; the old update succeeds, visits `ItemsAdd` = {1}, and name 0 (configuration 3)
keeps the maps of configuration 1 -/
theorem old_success_stale_backend_maps :
    let hist : List (Ev 2) := [.acq 0 c4, .acq 1 c4, .upd .none, .rem [0], .acq 0 c12, .upd .backMaps,
      .rem [1], .acq 1 c8]
    allOk oA s0 {} hist = true ∧
    (after oldA s0 hist .none).err = false ∧ (after oldA s0 hist .none).w.g.w.store.items 0 = some c12 ∧
    (after oldA s0 hist .none).w.bm 0 = some 1 ∧ ¬ DiskGood oldA s0 (after oldA s0 hist .none).w ∧
    (after oA s0 hist .none).err = false ∧ (after oA s0 hist .none).w.bm 0 = some 3 := by
  refine ⟨by decide, by decide, by decide, by decide, ?_, by decide, by decide⟩
  intro h
  have h1 := h.2.2.2.2.2 0 c12 (by decide) (by decide)
  revert h1
  decide

/-- **without `ForceRewrite` — tcp sni map.**  The map cannot be written; the next batch changes a
backend only (`tcpservices.Changed()` is false again after the deferred `Commit()`); the old update
succeeds with the map and the `listen` section of the old service, the crt-list (no guard) of the new -/
theorem old_success_stale_tcp_map :
    let hist : List (Ev 2) := [.tcp 1, .acq 0 c8, .upd .none, .tcp 2, .upd .tcpMaps, .rem [0], .acq 0 c4]
    allOk oA s0 {} hist = true ∧
    (after oldA s0 hist .none).err = false ∧ (after oldA s0 hist .none).w.tcp.want = 2 ∧
    (after oldA s0 hist .none).w.tcp.map = 1 ∧ (after oldA s0 hist .none).w.tcp.crt = 2 ∧
    ¬ DiskGood oldA s0 (after oldA s0 hist .none).w ∧
    (after oA s0 hist .none).err = false ∧ (after oA s0 hist .none).w.tcp.map = 2 := by
  refine ⟨by decide, by decide, by decide, by decide, by decide, ?_, by decide, by decide⟩
  intro h
  have h1 := (h.2.2.2.1 (by decide)).1
  revert h1
  decide

/-- **without `ForceRewrite` — frontend map set (host maps and the crt-list of the frontend).**  The first
file of `WriteFrontendMaps` cannot be written; the next batch changes a backend only
(`hosts.Changed()` is false again); the old update succeeds and skips `WriteFrontendMaps` -/
theorem old_success_stale_frontend_maps :
    let hist : List (Ev 2) := [.hacq 0 2, .acq 0 c8, .upd .none, .hrem [0], .hacq 0 4, .upd .frontMaps,
      .rem [0], .acq 0 c4]
    allOk oA s0 {} hist = true ∧
    (after oldA s0 hist .none).err = false ∧ (after oldA s0 hist .none).w.h.items 0 = some 4 ∧
    (after oldA s0 hist .none).w.h.maps 0 = some (2, false) ∧ ¬ DiskGood oldA s0 (after oldA s0 hist .none).w ∧
    (after oA s0 hist .none).err = false ∧ (after oA s0 hist .none).w.h.maps 0 = some (4, false) := by
  refine ⟨by decide, by decide, by decide, by decide, ?_, by decide, by decide⟩
  intro h
  have h1 := h.2.1 0
  revert h1
  decide

/-- **without `ForceRewrite` — tcp crt-list / haproxy.cfg.**  The crt-list cannot be written (haproxy.cfg is
not reached); the next batch only re-declares an unchanged backend: the old update finds "old and new
configurations match", succeeds without `writeConfig`; the `listen` section keeps the old service -/
theorem old_success_stale_main_cfg :
    let hist : List (Ev 2) := [.tcp 1, .acq 0 c8, .upd .none, .tcp 2, .upd .crtLists, .rem [0], .acq 0 c8]
    allOk oA s0 {} hist = true ∧
    (after oldA s0 hist .none).err = false ∧ (after oldA s0 hist .none).w.tcp.want = 2 ∧
    (after oldA s0 hist .none).w.tcp.main = 1 ∧ ¬ DiskGood oldA s0 (after oldA s0 hist .none).w ∧
    (after oA s0 hist .none).err = false ∧ (after oA s0 hist .none).w.tcp.main = 2 := by
  refine ⟨by decide, by decide, by decide, by decide, ?_, by decide, by decide⟩
  intro h
  have h1 := h.2.2.2.2.1
  revert h1
  decide

/-! ### regenerated facts: the Go source still has the shape the corollaries rely on -/

/-- `HAProxyUpdate`: deferred `Commit`, `Shrink`, `rewrite := rewriteOwed; rewriteOwed = true; if rewrite
{ ForceRewrite() }`, the four writers in order each returning at once on error, the gate in front of
`writeConfig`, `rewriteOwed = false` only past it.  `ForceRewrite` = rewriteAll + `frontend.Maps = nil` +
`AllShardsChanged`; the tcp-maps and backend-maps guards listen to rewriteAll, `WriteBackendMaps` then
visits `Items()`, and writes for `NeedACL()` backends only; `Commit` resets rewriteAll.
`WriteFrontendMaps` writes the crt-list, then the maps, then links `frontend.Maps`.  `writeCrtLists` has no
changed-guard.  `template.writeToDisk` returns nil only at its end, after `os.WriteFile`: a write that is
asked for is attempted (no "content unchanged" shortcut that could remember a write that failed). -/
theorem facts_c05_faults :
    Facts.c12UpdateStmts = ["if:i.config==nil=>return:nil", "defer:i.config.Commit", "call:i.config.SyncConfig",
      "call:i.config.Shrink", "assign:rewrite:=i.rewriteOwed", "assign:i.rewriteOwed=true",
      "if:rewrite{i.config.ForceRewrite}",
      "if-init:i.config.WriteTCPServicesMaps();err!=nil=>return:fmt.Errorf",
      "if-init:i.config.WriteFrontendMaps();err!=nil=>return:fmt.Errorf",
      "if-init:i.config.WriteBackendMaps();err!=nil=>return:fmt.Errorf",
      "if-init:i.writeCrtLists();err!=nil=>return:fmt.Errorf",
      "call:timer.Tick", "if:!i.options.fake", "assign:updater:=i.newDynUpdater()", "assign:updated:=updater.update()",
      "if:rewrite{updated=false}",
      "if:rewrite{i.config.Backends().SortAllEndpoints;i.config.Backends().FillAllSourceIPs}",
      "if:i.options.SortEndpointsBy!=\"random\"{i.config.Backends().SortChangedEndpoints}",
      "call:i.config.Backends().FillSourceIPs",
      "if:!updated||updater.cmdCnt>0||i.config.Backends().Changed()", "assign:i.rewriteOwed=false",
      "call:i.updateCertExpiring", "defer:?", "if:updated&&i.reloadOwed{updated=false}",
      "if:updated=>return:nil", "if:i.options.ReloadQueue!=nil=>return:nil", "return:i.Reload(timer)"] ∧
    Facts.c12ForceRewrite = ["c.rewriteAll=true", "c.frontend.Maps=nil", "c.backends.AllShardsChanged"] ∧
    Facts.c12TcpMapsGuard = ["!c.tcpservices.Changed()&&!c.rewriteAll"] ∧
    Facts.c12BackendMapsGuard = ["!c.backends.Changed()&&!c.rewriteAll"] ∧
    Facts.c12BackendMapsVisited = [":=c.backends.ItemsAdd()", "=c.backends.Items()"] ∧
    Facts.c05BackendMapsShape = ["if:!c.backends.Changed()&&!c.rewriteAll", "if:c.rewriteAll", "range:backends",
      "if:backend.NeedACL()", "range:backend.Paths", "if:h==nil", "if:p==nil", "if:path.IsDefaultHost()"] ∧
    Facts.c12CommitResets = ["c.rewriteAll=false"] ∧
    Facts.c05FrontendMapsWrites = ["c.options.mapsTemplate.WriteOutput(c.frontend.CrtListFile)",
      "writeMaps(c.options.mapsTemplate)", "c.frontend.Maps=fmaps"] ∧
    Facts.c05CrtListsShape = ["range:i.config.TCPServices().Items()", "if:len(tcpPort.TLS)==0",
      "i.crtlistTmpl.WriteOutput", "if:err!=nil"] ∧
    Facts.c12WriteOutputCalls = ["t.tmpl.Execute", "t.writeToDisk"] ∧
    Facts.c12WriteToDiskOS = ["os.Stat", "os.Rename", "os.IsNotExist", "os.Remove", "os.IsNotExist", "os.WriteFile"] ∧
    Facts.c05WriteToDiskReturns = ["fmt.Errorf", "fmt.Errorf", "fmt.Errorf", "fmt.Errorf", "fmt.Errorf", "nil"] := by
  decide

end HapVerif.C05F
