import HapVerif.Model.C06Ann
import HapVerif.Generated.Facts
/-!
# C06 (annotations) — the configuration keys of one object do not depend on the order in which Go visits its
annotation map, and the winner of a key declared under several prefixes is the first listed prefix

* `readConfigKeys_first_prefix`  for ALL prefix lists, annotation lists and keys: the code's value = the Spec's
* `readConfigKeys_perm`          for ALL permutations of the annotation list (= all visiting orders of the Go map)
                                 the value of every key is the same
* `readConfigKeys_ignores_unlisted`, `readConfigKeys_key_local`  annotations under unlisted prefixes and
                                 annotations of other keys do not matter
* `stale_owner_depends_on_visit_order`  kernel-checked witness: the single-pass variant with the stale owner index
                                 gives two results on two permutations of one 3-prefix object
-/
namespace HapVerif.C06Ann

theorem lookup_append_single (m : KV) (k' v' k : Str) :
    lookup (m ++ [(k', v')]) k = (lookup m k).or (if k' = k then some v' else none) := by
  unfold lookup
  rw [List.find?_append]
  cases h : m.find? (·.1 = k) with
  | some e => simp
  | none =>
    by_cases hk : k' = k <;> simp [hk]

theorem declared_cons (a : Ann) (rest : List Ann) (p k : Str) :
    declared (a :: rest) p k = if a.pre = p ∧ a.key = k then some a.val else declared rest p k := by
  unfold declared
  by_cases h : a.pre = p ∧ a.key = k
  · simp [h]
  · rw [List.find?_cons]
    simp [h]

/-- the inner loop: what was there stays, else the declaration under `p` -/
theorem inner_lookup (p : Str) (ann : List Ann) (keys : KV) (k : Str) :
    lookup (ann.foldl (visit p) keys) k = (lookup keys k).or (declared ann p k) := by
  induction ann generalizing keys with
  | nil => simp [declared]
  | cons a rest ih =>
    rw [List.foldl_cons, ih, declared_cons]
    unfold visit
    by_cases hp : a.pre = p
    · by_cases hf : (lookup keys a.key).isSome = true
      · simp only [hp, hf, ↓reduceIte, true_and]
        by_cases hk : a.key = k
        · subst hk
          obtain ⟨v, hv⟩ := Option.isSome_iff_exists.mp hf
          simp [hv]
        · simp [hk]
      · have hf' : (lookup keys a.key).isSome = false := by simpa using hf
        simp only [hp, hf', ↓reduceIte, true_and, Bool.false_eq_true]
        rw [lookup_append_single]
        by_cases hk : a.key = k
        · subst hk
          have : lookup keys a.key = none := by simpa using hf
          simp [this]
        · simp [hk]
    · simp [hp]

theorem outer_lookup (ps : List Str) (ann : List Ann) (keys : KV) (k : Str) :
    lookup (ps.foldl (fun keys p => ann.foldl (visit p) keys) keys) k
      = (lookup keys k).or (ps.findSome? fun p => declared ann p k) := by
  induction ps generalizing keys with
  | nil => simp
  | cons p rest ih =>
    rw [List.foldl_cons, ih, inner_lookup, List.findSome?_cons]
    cases lookup keys k <;> cases declared ann p k <;> simp

/-- THE CODE MEETS THE SPEC: for every list of prefixes, every annotation list in every order and every key, the value
`readConfigKeys` leaves is the one declared under the first listed prefix that declares the key -/
theorem readConfigKeys_first_prefix (ps : List Str) (ann : List Ann) (k : Str) :
    lookup (readConfigKeys ps ann) k = specWinner ps ann k := by
  unfold readConfigKeys specWinner
  rw [outer_lookup]
  simp [lookup]

theorem declared_of_mem {ann : List Ann} (hu : UniqueNames ann) {a : Ann} (h : a ∈ ann) :
    declared ann a.pre a.key = some a.val := by
  induction ann with
  | nil => cases h
  | cons b rest ih =>
    rw [declared_cons]
    have hu' := List.pairwise_cons.mp hu
    rcases List.mem_cons.mp h with rfl | hr
    · simp
    · by_cases hb : b.pre = a.pre ∧ b.key = a.key
      · exact absurd hb (hu'.1 a hr)
      · simp only [hb, ↓reduceIte]
        exact ih hu'.2 hr

theorem mem_of_declared {ann : List Ann} {p k v : Str} (h : declared ann p k = some v) :
    (⟨p, k, v⟩ : Ann) ∈ ann := by
  induction ann with
  | nil => simp [declared] at h
  | cons b rest ih =>
    rw [declared_cons] at h
    by_cases hb : b.pre = p ∧ b.key = k
    · simp only [hb, and_self, ↓reduceIte, Option.some.injEq] at h
      obtain ⟨h1, h2⟩ := hb
      have : b = ⟨p, k, v⟩ := by cases b; simp_all
      exact this ▸ List.mem_cons_self
    · simp only [hb, ↓reduceIte] at h
      exact List.mem_cons_of_mem _ (ih h)

theorem declared_eq_some_iff {ann : List Ann} (hu : UniqueNames ann) (p k v : Str) :
    declared ann p k = some v ↔ (⟨p, k, v⟩ : Ann) ∈ ann :=
  ⟨mem_of_declared, fun h => declared_of_mem hu h⟩

theorem uniqueNames_perm {a b : List Ann} (h : a.Perm b) : UniqueNames a ↔ UniqueNames b := by
  unfold UniqueNames
  exact h.pairwise_iff (fun {x y} hxy hyx => hxy ⟨hyx.1.symm, hyx.2.symm⟩)

/-- the declaration of a key under a prefix does not depend on the visiting order -/
theorem declared_perm {a b : List Ann} (h : a.Perm b) (hu : UniqueNames a) (p k : Str) :
    declared a p k = declared b p k := by
  have hb := (uniqueNames_perm h).mp hu
  apply Option.ext
  intro v
  rw [declared_eq_some_iff hu, declared_eq_some_iff hb]
  exact h.mem_iff

theorem specWinner_perm {a b : List Ann} (h : a.Perm b) (hu : UniqueNames a) (ps : List Str) (k : Str) :
    specWinner ps a k = specWinner ps b k := by
  unfold specWinner
  congr 1
  funext p
  exact declared_perm h hu p k

/-- C06 FOR THE ANNOTATIONS OF ONE OBJECT: whatever the order in which the annotation map is visited (every
permutation of the list; a Go map holds one value per name), every configuration key gets the same value.
Full strength: all prefix lists (any length, duplicates allowed), all objects, all keys. -/
theorem readConfigKeys_perm {a b : List Ann} (h : a.Perm b) (hu : UniqueNames a) (ps : List Str) (k : Str) :
    lookup (readConfigKeys ps a) k = lookup (readConfigKeys ps b) k := by
  rw [readConfigKeys_first_prefix, readConfigKeys_first_prefix, specWinner_perm h hu]

theorem declared_filter (q : Ann → Bool) (ann : List Ann) (p k : Str)
    (hq : ∀ a, a.pre = p → a.key = k → q a = true) :
    declared (ann.filter q) p k = declared ann p k := by
  induction ann with
  | nil => rfl
  | cons a rest ih =>
    by_cases hqa : q a = true
    · rw [List.filter_cons_of_pos hqa, declared_cons, declared_cons, ih]
    · rw [List.filter_cons_of_neg hqa, declared_cons, ih]
      have : ¬ (a.pre = p ∧ a.key = k) := fun h => hqa (hq a h.1 h.2)
      simp [this]

theorem specWinner_congr (ps : List Str) (a b : List Ann) (k : Str)
    (h : ∀ p, p ∈ ps → declared a p k = declared b p k) : specWinner ps a k = specWinner ps b k := by
  unfold specWinner
  induction ps with
  | nil => rfl
  | cons p rest ih =>
    rw [List.findSome?_cons, List.findSome?_cons, h p List.mem_cons_self,
      ih fun q hq => h q (List.mem_cons_of_mem _ hq)]

/-- annotations under a prefix that is not listed do not matter -/
theorem readConfigKeys_ignores_unlisted (ps : List Str) (ann : List Ann) (k : Str) :
    lookup (readConfigKeys ps (ann.filter fun a => decide (a.pre ∈ ps))) k = lookup (readConfigKeys ps ann) k := by
  rw [readConfigKeys_first_prefix, readConfigKeys_first_prefix]
  apply specWinner_congr
  intro p hp
  apply declared_filter
  intro a ha _
  simpa [ha] using hp

/-- the value of a key depends on the annotations of that key alone -/
theorem readConfigKeys_key_local (ps : List Str) (ann : List Ann) (k : Str) :
    lookup (readConfigKeys ps (ann.filter fun a => decide (a.key = k))) k = lookup (readConfigKeys ps ann) k := by
  rw [readConfigKeys_first_prefix, readConfigKeys_first_prefix]
  apply specWinner_congr
  intro p _
  apply declared_filter
  intro a _ ha
  simpa using ha

/-- a listed prefix that the object does not use for the key does not matter either -/
theorem specWinner_skip_undeclared (p : Str) (ps : List Str) (ann : List Ann) (k : Str)
    (h : declared ann p k = none) : specWinner (p :: ps) ann k = specWinner ps ann k := by
  simp [specWinner, h]

/-- the oracle of the driver accepts what the code computes (observed sets = singletons of the code's value) -/
theorem oracle_accepts_code (ps : List Str) (ann : List Ann) (ks : List Str) :
    oracle ps ann (ks.map fun k => (k, [(lookup (readConfigKeys ps ann) k).getD ['-']])) = none := by
  unfold oracle
  have h1 : (ks.map fun k => (k, [(lookup (readConfigKeys ps ann) k).getD ['-']])).any
      (fun o => decide (o.2.length ≠ 1)) = false := by
    simp [List.any_eq_false]
  have h2 : (ks.map fun k => (k, [(lookup (readConfigKeys ps ann) k).getD ['-']])).any
      (fun o => decide (o.2 ≠ [(specWinner ps ann o.1).getD ['-']])) = false := by
    simp [List.any_eq_false, readConfigKeys_first_prefix]
  simp only [h1, h2]
  simp

/-! ## non-vacuity and witnesses -/

def p1 : Str := "haproxy-ingress.github.io".toList
def p2 : Str := "ingress.kubernetes.io".toList
def p3 : Str := "haproxy.org".toList
def bal : Str := "balance-algorithm".toList

/-- one object, the key declared under three prefixes with three values -/
def obj3 : List Ann := [⟨p1, bal, "first".toList⟩, ⟨p2, bal, "leastconn".toList⟩, ⟨p3, bal, "source".toList⟩]
/-- the same object visited as p3, p1, p2 -/
def obj3' : List Ann := [⟨p3, bal, "source".toList⟩, ⟨p1, bal, "first".toList⟩, ⟨p2, bal, "leastconn".toList⟩]

example : obj3.Perm obj3' ∧ UniqueNames obj3 := by decide
example : lookup (readConfigKeys [p1, p2, p3] obj3) bal = some "first".toList ∧
    lookup (readConfigKeys [p1, p2, p3] obj3') bal = some "first".toList ∧
    lookup (readConfigKeys [p3, p2] obj3') bal = some "source".toList ∧
    lookup (readConfigKeys [p2] (⟨"other.io".toList, bal, "random".toList⟩ :: obj3')) bal = some "leastconn".toList := by
  decide +kernel

/-- without `UniqueNames` (not a Go map) the order would matter: the hypothesis of `readConfigKeys_perm` is needed -/
example : lookup (readConfigKeys [p1] [⟨p1, bal, ['a']⟩, ⟨p1, bal, ['b']⟩]) bal ≠
    lookup (readConfigKeys [p1] [⟨p1, bal, ['b']⟩, ⟨p1, bal, ['a']⟩]) bal := by decide +kernel

/-- SEED C06g: the single-pass variant whose `owner` index is not updated when a higher-precedence prefix replaces the
value gives the value of the MIDDLE prefix when the map is visited as p3, p1, p2 and the value of the first prefix in
the declared order: two permutations of one object, two results (and the first violates the precedence) -/
theorem stale_owner_depends_on_visit_order :
    obj3.Perm obj3' ∧ UniqueNames obj3 ∧
    lookup (readConfigKeysStale [p1, p2, p3] obj3) bal = some "first".toList ∧
    lookup (readConfigKeysStale [p1, p2, p3] obj3') bal = some "leastconn".toList ∧
    specWinner [p1, p2, p3] obj3' bal = some "first".toList := by
  decide +kernel

/-- … while it cannot be told from the code with two prefixes (the default), whatever the order: every permutation of
the two-prefix object -/
theorem stale_owner_same_with_two_prefixes :
    ∀ o ∈ [[(⟨p1, bal, ['a']⟩ : Ann), ⟨p2, bal, ['b']⟩], [⟨p2, bal, ['b']⟩, ⟨p1, bal, ['a']⟩]],
      lookup (readConfigKeysStale [p1, p2] o) bal = lookup (readConfigKeys [p1, p2] o) bal := by
  decide +kernel

/-- regenerated from the Go source: readConfigKeys ranges over the prefixes OUTSIDE and over the annotation map
INSIDE, and `keys[key]` has one writer, guarded by `!found` -/
theorem facts_c06ann :
    Facts.c06ReadConfigKeysLoops = ["0:range:c.options.AnnotationPrefix", "1:range:ann"] ∧
    Facts.c06ReadConfigKeysWrites = ["keys[key]=annValue if !found"] := by decide

end HapVerif.C06Ann
