import HapVerif.Model.C07PathViews
import HapVerif.Generated.CodeC07
/-!
# C07 — regenerated tie of `Backend.AddBackendPath` (pkg/haproxy/types/backend.go): path ids are unique

TRANSLATED on every run (Generated/CodeC07.lean; `sortPaths` is a parameter).  The id of a new path is `path%02d` of
`len(b.Paths)+1`.  `ids_unique`: along EVERY history of `AddBackendPath` calls from an empty backend, for every sort
function that only permutes, the ids of the paths are exactly 1..n — no two paths of a backend share an id (the names
the templates and the idpath maps refer to are unique: third anchor of C07) — and a link that is already there gets
its existing path back, nothing added.
-/
namespace HapVerif.C07PathTie
open HapVerif HapVerif.C07Path

/-- the invariant: every id is in 1..n and no id occurs twice (n = number of paths) -/
def Inv (b : BackV) : Prop :=
  (b.Paths.map (·.ID)).Nodup ∧ ∀ p ∈ b.Paths, 1 ≤ p.ID ∧ p.ID ≤ (b.Paths.length : Int)

theorem inv_empty : Inv { Paths := [] } := by simp [Inv]

theorem find_mem (paths : List PathV) (link : Nat) (h : (find paths link).ID ≠ 0) :
    find paths link ∈ paths ∧ (find paths link).Link = link := by
  unfold find at *
  cases hf : paths.find? (fun p => p.Link == link) with
  | none => simp [hf, nilPath] at h
  | some p =>
    simp only [Option.getD_some]
    exact ⟨List.mem_of_find?_eq_some hf, by simpa using List.find?_some hf⟩

/-- closed form -/
theorem addBackendPath_closed (sortPaths : List PathV → List PathV) (b : BackV) (link : Nat) :
    CodeC07.addBackendPath sortPaths b link =
      if (find b.Paths link).ID ≠ 0 then (find b.Paths link, b)
      else ({ ID := (b.Paths.length : Int) + 1, Link := link },
            { Paths := sortPaths (b.Paths ++ [{ ID := (b.Paths.length : Int) + 1, Link := link }]) }) := by
  unfold CodeC07.addBackendPath
  by_cases h : (find b.Paths link).ID = 0
  · simp [h, GoLib.add, GoLib.len, GoLib.append1, applySort]
  · simp [h]

/-- **one call keeps the ids unique** (for a sort that only permutes) -/
theorem add_inv (sortPaths : List PathV → List PathV) (hs : ∀ l, (sortPaths l).Perm l) (b : BackV) (link : Nat)
    (hi : Inv b) : Inv (CodeC07.addBackendPath sortPaths b link).2 := by
  rw [addBackendPath_closed]
  by_cases h : (find b.Paths link).ID = 0
  · simp only [h, ne_eq, not_true_eq_false, ↓reduceIte]
    obtain ⟨hn, hr⟩ := hi
    have hp := hs (b.Paths ++ [{ ID := (b.Paths.length : Int) + 1, Link := link }])
    refine ⟨?_, ?_⟩
    · have : ((b.Paths ++ [({ ID := (b.Paths.length : Int) + 1, Link := link } : PathV)]).map (·.ID)).Nodup := by
        rw [List.map_append, List.nodup_append]
        refine ⟨hn, by simp, ?_⟩
        intro a ha c hc
        simp only [List.map_cons, List.map_nil, List.mem_singleton] at hc
        obtain ⟨p, hp', rfl⟩ := List.mem_map.1 ha
        have := (hr p hp').2
        omega
      exact (List.Perm.map _ hp).nodup_iff.2 this
    · intro p hp'
      have hm := hp.mem_iff.1 hp'
      rw [hp.length_eq]
      simp only [List.length_append, List.length_singleton, List.mem_append, List.mem_singleton] at hm ⊢
      rcases hm with hm | rfl
      · have := hr p hm
        constructor <;> omega
      · constructor <;> simp <;> omega
  · simpa [h] using hi

/-- **every history of `AddBackendPath` calls keeps the ids unique** -/
theorem ids_unique (sortPaths : List PathV → List PathV) (hs : ∀ l, (sortPaths l).Perm l) (links : List Nat) :
    Inv (links.foldl (fun b l => (CodeC07.addBackendPath sortPaths b l).2) { Paths := [] }) := by
  suffices ∀ b, Inv b → Inv (links.foldl (fun b l => (CodeC07.addBackendPath sortPaths b l).2) b) from this _ inv_empty
  induction links with
  | nil => intro b hb; exact hb
  | cons l ls ih => intro b hb; exact ih _ (add_inv sortPaths hs b l hb)

/-- a link that is already there gets its path back and nothing is added -/
theorem existing_link_reused (sortPaths : List PathV → List PathV) (b : BackV) (link : Nat)
    (h : (find b.Paths link).ID ≠ 0) :
    CodeC07.addBackendPath sortPaths b link = (find b.Paths link, b) ∧ (find b.Paths link).Link = link := by
  rw [addBackendPath_closed]
  exact ⟨by simp [h], (find_mem _ _ h).2⟩

example : ((CodeC07.addBackendPath id (CodeC07.addBackendPath id { Paths := [] } 7).2 9).2.Paths.map (·.ID)) = [1, 2] := by decide
example : (CodeC07.addBackendPath id (CodeC07.addBackendPath id { Paths := [] } 7).2 7).2.Paths.length = 1 := by decide

end HapVerif.C07PathTie
