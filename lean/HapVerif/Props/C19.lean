import HapVerif.Lemmas.C19
import HapVerif.Generated.Facts
/-!
# C19 — disabled snippet keywords never reach the configuration through annotations

Model (`HapVerif.C19`, file `Model/C19.lean`): `lineToSlice` (`utils.LineToSlice`),
`firstToken` over the `asciiSpace` table, the keyword loop of `buildBackendCustomConfig`
(`scan`, `customConfig`) and `mapperGet` (first registered annotation value, else the
global ConfigMap value with a nil source).  Strings are arbitrary byte lists, keyword lists
and annotation lists are arbitrary lists: every theorem below quantifies over all of them.

The model is tied to the Go code by the correspondence run (`harness/cmd/hv/c19.go`), the
constants (table, loop conditions, split/trim separators) by `facts_c19`.
-/
namespace HapVerif.C19

/-! ## `firstToken` -/

/-- **firstToken_spec**: the two table loops compute "skip C-`isspace` blanks, then take
the maximal run of non-blanks" — for every byte string (blank-only, empty, bytes ≥ 128, …). -/
theorem firstToken_spec (s : Str) :
    firstToken s = (s.dropWhile isSpace).takeWhile (fun b => !isSpace b) := by
  unfold firstToken
  rw [skipBlanks_eq, takeToken_eq]

/-- leading blanks or tabs (any mix of the six `isspace` bytes) do not change the token -/
theorem firstToken_leading_blanks (ws l : Str) (h : ∀ b ∈ ws, isSpace b = true) :
    firstToken (ws ++ l) = firstToken l := by
  rw [firstToken_spec, firstToken_spec]
  congr 1
  induction ws with
  | nil => rfl
  | cons b ws ih =>
    have hb := h b List.mem_cons_self
    simp only [List.cons_append, List.dropWhile_cons, hb, if_true]
    exact ih (fun c hc => h c (List.mem_cons_of_mem _ hc))

theorem mem_takeWhile_true (p : Nat → Bool) (l : Str) (b : Nat) (h : b ∈ l.takeWhile p) : p b = true := by
  induction l with
  | nil => simp at h
  | cons c l ih =>
    rw [List.takeWhile_cons] at h
    split at h
    · rename_i hc
      rcases List.mem_cons.1 h with e | h
      · exact e ▸ hc
      · exact ih h
    · simp at h

/-- the token never contains a blank: `k x`, `k\tx`, `k\r` all have token `k` -/
theorem firstToken_no_blank (s : Str) : ∀ b ∈ firstToken s, isSpace b = false := by
  rw [firstToken_spec]
  intro b hb
  have := mem_takeWhile_true _ _ _ hb
  simpa using this

example : firstToken [32, 9, 107, 32, 120] = [107] := by decide        -- " \tk x" -> "k"
example : firstToken [107, 120] = [107, 120] := by decide              -- "kx" is not "k"
example : firstToken [13, 11, 12, 107, 9] = [107] := by decide         -- "\r\v\fk\t" -> "k"
example : firstToken [194, 160, 107] = [194, 160, 107] := by decide    -- NBSP is not a blank

/-! ## `LineToSlice`: multi-line values -/

/-- no line of the slice contains a line feed, and joining them gives the right-trimmed text back -/
theorem lineToSlice_lines (s : Str) :
    (∀ l ∈ lineToSlice s, nl ∉ l) ∧
    (s ≠ [] → List.intercalate [nl] (lineToSlice s) = trimRightNL s) := by
  unfold lineToSlice
  constructor
  · split
    · simp
    · exact splitNL_no_nl _
  · intro h
    simp only [h, if_false]
    exact splitNL_join _

/-- **physical_line_checked**: every non-empty physical line of the text — whatever precedes
it (nothing, or anything ending in a line feed) and whatever follows it (nothing, or a line
feed and anything) — is an element of the slice the keyword loop iterates over. -/
theorem physical_line_checked (a l b : Str) (hl : nl ∉ l) (hne : l ≠ [])
    (ha : a = [] ∨ ∃ a', a = a' ++ [nl]) (hb : b = [] ∨ ∃ b', b = nl :: b') :
    l ∈ lineToSlice (a ++ l ++ b) := by
  have hnotall : (l ++ b).all (· == nl) = false := by
    cases l with
    | nil => exact absurd rfl hne
    | cons c l =>
      have hc : c ≠ nl := fun e => hl (e ▸ List.mem_cons_self)
      simp [hc]
  have hs : a ++ l ++ b ≠ [] := by
    cases l with
    | nil => exact absurd rfl hne
    | cons c l => simp
  unfold lineToSlice
  simp only [hs, if_false]
  rw [List.append_assoc, trimRightNL_append_of_not_all a (l ++ b) hnotall, trimRightNL_append_clean l b hl]
  -- the tail after `l` is empty or still starts with a line feed
  have htail : trimRightNL b = [] ∨ ∃ t, trimRightNL b = nl :: t := by
    rcases hb with rfl | ⟨b', rfl⟩
    · exact Or.inl rfl
    · rcases trimRightNL_nl_cons b' with h | h
      · exact Or.inl h
      · exact Or.inr ⟨_, h⟩
  have hmid : l ∈ splitNL (l ++ trimRightNL b) := by
    rcases htail with h | ⟨t, h⟩
    · rw [h, List.append_nil, splitNL_of_not_mem hl]; exact List.mem_singleton.2 rfl
    · rw [h, splitNL_append_nl, splitNL_of_not_mem hl]; simp
  rcases ha with rfl | ⟨a', rfl⟩
  · simpa using hmid
  · rw [List.append_assoc, List.singleton_append, splitNL_append_nl]
    exact List.mem_append_right _ hmid

example : lineToSlice [120, 10, 32, 107, 10, 10] = [[120], [32, 107]] := by decide   -- "x\n k\n\n"
example : lineToSlice [10] = [[]] := by decide                                        -- "\n" -> one empty line
example : lineToSlice [] = [] := by decide

/-! ## the keyword loop -/

/-- some disabled keyword hits the snippet: `*`, or a non-empty keyword equal to the first
token of some line -/
def Hit (kws : List Str) (lines : List Str) : Prop :=
  star ∈ kws ∨ ∃ l ∈ lines, ∃ k ∈ kws, k ≠ [] ∧ firstToken l = k

theorem scan_some_lines {src : Option String} {lines kws : List Str} {o : Outcome}
    (h : scan src lines kws = some o) : o.lines = [] := by
  induction kws with
  | nil => simp [scan] at h
  | cons k ks ih =>
    unfold scan at h
    split at h
    · exact ih h
    · split at h
      · cases h; rfl
      · split at h
        · cases h; rfl
        · exact ih h

theorem scan_none_iff (src : Option String) (lines kws : List Str) :
    scan src lines kws = none ↔ ¬ Hit kws lines := by
  induction kws with
  | nil => simp [scan, Hit]
  | cons k ks ih =>
    unfold scan
    by_cases hk : k = []
    · simp only [hk, if_true, ih, Hit]
      have hs : star ≠ [] := by decide
      constructor
      · rintro h (hm | ⟨l, hl, k', hk', hne, ht⟩)
        · rcases List.mem_cons.1 hm with e | hm
          · exact hs e
          · exact h (Or.inl hm)
        · rcases List.mem_cons.1 hk' with e | hk'
          · exact hne e
          · exact h (Or.inr ⟨l, hl, k', hk', hne, ht⟩)
      · rintro h (hm | ⟨l, hl, k', hk', hne, ht⟩)
        · exact h (Or.inl (List.mem_cons_of_mem _ hm))
        · exact h (Or.inr ⟨l, hl, k', List.mem_cons_of_mem _ hk', hne, ht⟩)
    · simp only [hk, if_false]
      by_cases hst : k = star
      · simp only [hst, if_true]
        constructor
        · intro h; cases h
        · intro h; exact absurd (Or.inl List.mem_cons_self) h
      · simp only [hst, if_false]
        by_cases hany : lines.any (fun l => firstToken l == k) = true
        · simp only [hany, if_true]
          constructor
          · intro h; cases h
          · intro h
            obtain ⟨l, hl, he⟩ := List.any_eq_true.1 hany
            exact absurd (Or.inr ⟨l, hl, k, List.mem_cons_self, hk, by simpa using he⟩) h
        · simp only [hany, Bool.false_eq_true, if_false]
          rw [ih]
          simp only [Hit]
          constructor
          · rintro h (hm | ⟨l, hl, k', hk', hne, ht⟩)
            · rcases List.mem_cons.1 hm with e | hm
              · exact hst e.symm
              · exact h (Or.inl hm)
            · rcases List.mem_cons.1 hk' with e | hk'
              · subst e
                exact hany (List.any_eq_true.2 ⟨l, hl, by simpa using ht⟩)
              · exact h (Or.inr ⟨l, hl, k', hk', hne, ht⟩)
          · rintro h (hm | ⟨l, hl, k', hk', hne, ht⟩)
            · exact h (Or.inl (List.mem_cons_of_mem _ hm))
            · exact h (Or.inr ⟨l, hl, k', List.mem_cons_of_mem _ hk', hne, ht⟩)

/-- **blocked**: if some line of the effective snippet has a non-empty disabled keyword as
its first token, nothing of the snippet is emitted (dropped as a whole). All keyword lists,
all texts, any source. -/
theorem blocked (kws : List Str) (cfg : Cfg)
    (h : ∃ l ∈ lineToSlice cfg.value, ∃ k ∈ kws, k ≠ [] ∧ firstToken l = k) :
    (customConfig kws cfg).lines = [] := by
  unfold customConfig
  simp only
  split
  · rfl
  · cases hs : scan cfg.source (lineToSlice cfg.value) kws with
    | some o => exact scan_some_lines hs
    | none => exact absurd (Or.inr h) ((scan_none_iff _ _ _).1 hs)

/-- **star**: with `*` in the list no snippet is emitted at all -/
theorem star_blocks (kws : List Str) (cfg : Cfg) (h : star ∈ kws) : (customConfig kws cfg).lines = [] := by
  unfold customConfig
  simp only
  split
  · rfl
  · cases hs : scan cfg.source (lineToSlice cfg.value) kws with
    | some o => exact scan_some_lines hs
    | none => exact absurd (Or.inl h) ((scan_none_iff _ _ _).1 hs)

/-- **untouched**: otherwise the snippet is emitted exactly as `LineToSlice` produced it -/
theorem untouched (kws : List Str) (cfg : Cfg) (h : ¬ Hit kws (lineToSlice cfg.value)) :
    (customConfig kws cfg).lines = lineToSlice cfg.value := by
  unfold customConfig
  simp only
  split
  · rename_i he; simp [Outcome.lines, he]
  · rw [(scan_none_iff _ _ _).2 h]; rfl

theorem takeWhile_word (k rest : Str) (hkb : ∀ c ∈ k, isSpace c = false)
    (hrest : rest = [] ∨ ∃ c r, rest = c :: r ∧ isSpace c = true) :
    (k ++ rest).takeWhile (fun b => !isSpace b) = k := by
  induction k with
  | nil =>
    rcases hrest with rfl | ⟨c, r, rfl, hc⟩
    · rfl
    · simp [hc]
  | cons c k ih =>
    have hc := hkb c List.mem_cons_self
    simp only [List.cons_append, List.takeWhile_cons, hc, Bool.not_false, if_true]
    congr 1
    exact ih (fun x hx => hkb x (List.mem_cons_of_mem _ hx))

/-- **multiline_no_bypass**: blanks before the keyword and surrounding lines do not hide it:
if the text contains a physical line `ws ++ k ++ rest` (blanks, the keyword, then end of line
or a blank and anything) the whole snippet is dropped. -/
theorem multiline_no_bypass (kws : List Str) (src : Option String) (a b ws k rest : Str)
    (hk : k ∈ kws) (hkne : k ≠ []) (hkb : ∀ c ∈ k, isSpace c = false)
    (hws : ∀ c ∈ ws, isSpace c = true)
    (hrest : rest = [] ∨ ∃ c r, rest = c :: r ∧ isSpace c = true)
    (hline : nl ∉ ws ++ k ++ rest)
    (ha : a = [] ∨ ∃ a', a = a' ++ [nl]) (hb : b = [] ∨ ∃ b', b = nl :: b') :
    (customConfig kws ⟨src, a ++ (ws ++ k ++ rest) ++ b⟩).lines = [] := by
  apply blocked
  refine ⟨ws ++ k ++ rest, ?_, k, hk, hkne, ?_⟩
  · apply physical_line_checked _ _ _ hline _ ha hb
    cases k with
    | nil => exact absurd rfl hkne
    | cons c k => simp
  · rw [List.append_assoc, firstToken_leading_blanks ws _ hws, firstToken_spec]
    have hdrop : (k ++ rest).dropWhile isSpace = k ++ rest := by
      cases k with
      | nil => exact absurd rfl hkne
      | cons c k => simp [hkb c List.mem_cons_self]
    rw [hdrop]
    exact takeWhile_word k rest hkb hrest

end HapVerif.C19
