import HapVerif.Lemmas.C19
import HapVerif.Generated.Facts
/-!
# C19 — disabled snippet keywords never reach the configuration through annotations

Model (`HapVerif.C19`, file `Model/C19.lean`): `lineToSlice` (`utils.LineToSlice`),
`firstToken` over the `asciiSpace` table, the keyword loop of `buildBackendCustomConfig`
(`scan`, `customConfig`) and `mapperGet` (first registered annotation value, else the
global ConfigMap value with a nil source).  Strings are arbitrary byte lists, keyword lists
and annotation lists are arbitrary lists: every theorem below quantifies over all of them.

One SYNC (`Backend`, `Updater`, `runSync`, `sync`, `reorder`): several backends, each with
its ordered annotation sources `(type, namespace, name)`, updated by ONE updater in an
arbitrary order.  What an updater carries from one backend to the next is a parameter
(`Updater σ`): `pureUpdater` is the code as it is, `memoUpdater key` memoises the verdict of
the keyword scan under `key source` (the seeded change C19e is `memoUpdater keyFullName`).
`sync_order_independent`, `sync_perm`, `no_leak_sync`, `oracle_sync_partial` lift the
single-backend theorems to every backend of every sync; `memo_sound` / `seeded_memo_leaks`
say when such a memo is harmless and that `Source.FullName()` is not.

The model is tied to the Go code by the correspondence run (`harness/cmd/hv/c19.go`), the
constants (table, loop conditions, split/trim separators) by `facts_c19`.
-/
namespace HapVerif.C19

/-! ## `firstToken` -/

/-- **firstToken_spec**: the two table loops compute "skip C-`isspace` blanks, then take
the maximal run of non-blanks" — for every byte string (blank-only, empty, bytes ≥ 128, …). -/
theorem firstToken_spec (s : Str) :
    firstToken s = (s.dropWhile isSpace).takeWhile (fun b => !isSpace b) := by
  unfold firstToken
  rw [skipBlanks_eq, takeToken_eq]

/-- leading blanks or tabs (any mix of the six `isspace` bytes) do not change the token -/
theorem firstToken_leading_blanks (ws l : Str) (h : ∀ b ∈ ws, isSpace b = true) :
    firstToken (ws ++ l) = firstToken l := by
  rw [firstToken_spec, firstToken_spec]
  congr 1
  induction ws with
  | nil => rfl
  | cons b ws ih =>
    have hb := h b List.mem_cons_self
    simp only [List.cons_append, List.dropWhile_cons, hb, if_true]
    exact ih (fun c hc => h c (List.mem_cons_of_mem _ hc))

theorem mem_takeWhile_true (p : Nat → Bool) (l : Str) (b : Nat) (h : b ∈ l.takeWhile p) : p b = true := by
  induction l with
  | nil => simp at h
  | cons c l ih =>
    rw [List.takeWhile_cons] at h
    split at h
    · rename_i hc
      rcases List.mem_cons.1 h with e | h
      · exact e ▸ hc
      · exact ih h
    · simp at h

/-- the token never contains a blank: `k x`, `k\tx`, `k\r` all have token `k` -/
theorem firstToken_no_blank (s : Str) : ∀ b ∈ firstToken s, isSpace b = false := by
  rw [firstToken_spec]
  intro b hb
  have := mem_takeWhile_true _ _ _ hb
  simpa using this

example : firstToken [32, 9, 107, 32, 120] = [107] := by decide        -- " \tk x" -> "k"
example : firstToken [107, 120] = [107, 120] := by decide              -- "kx" is not "k"
example : firstToken [13, 11, 12, 107, 9] = [107] := by decide         -- "\r\v\fk\t" -> "k"
example : firstToken [194, 160, 107] = [194, 160, 107] := by decide    -- NBSP is not a blank

/-! ## `LineToSlice`: multi-line values -/

/-- no line of the slice contains a line feed, and joining them gives the right-trimmed text back -/
theorem lineToSlice_lines (s : Str) :
    (∀ l ∈ lineToSlice s, nl ∉ l) ∧
    (s ≠ [] → List.intercalate [nl] (lineToSlice s) = trimRightNL s) := by
  unfold lineToSlice
  constructor
  · split
    · simp
    · exact splitNL_no_nl _
  · intro h
    simp only [h, if_false]
    exact splitNL_join _

/-- **physical_line_checked**: every non-empty physical line of the text — whatever precedes
it (nothing, or anything ending in a line feed) and whatever follows it (nothing, or a line
feed and anything) — is an element of the slice the keyword loop iterates over. -/
theorem physical_line_checked (a l b : Str) (hl : nl ∉ l) (hne : l ≠ [])
    (ha : a = [] ∨ ∃ a', a = a' ++ [nl]) (hb : b = [] ∨ ∃ b', b = nl :: b') :
    l ∈ lineToSlice (a ++ l ++ b) := by
  have hnotall : (l ++ b).all (· == nl) = false := by
    cases l with
    | nil => exact absurd rfl hne
    | cons c l =>
      have hc : c ≠ nl := fun e => hl (e ▸ List.mem_cons_self)
      simp [hc]
  have hs : a ++ l ++ b ≠ [] := by
    cases l with
    | nil => exact absurd rfl hne
    | cons c l => simp
  unfold lineToSlice
  simp only [hs, if_false]
  rw [List.append_assoc, trimRightNL_append_of_not_all a (l ++ b) hnotall, trimRightNL_append_clean l b hl]
  -- the tail after `l` is empty or still starts with a line feed
  have htail : trimRightNL b = [] ∨ ∃ t, trimRightNL b = nl :: t := by
    rcases hb with rfl | ⟨b', rfl⟩
    · exact Or.inl rfl
    · rcases trimRightNL_nl_cons b' with h | h
      · exact Or.inl h
      · exact Or.inr ⟨_, h⟩
  have hmid : l ∈ splitNL (l ++ trimRightNL b) := by
    rcases htail with h | ⟨t, h⟩
    · rw [h, List.append_nil, splitNL_of_not_mem hl]; exact List.mem_singleton.2 rfl
    · rw [h, splitNL_append_nl, splitNL_of_not_mem hl]; simp
  rcases ha with rfl | ⟨a', rfl⟩
  · simpa using hmid
  · rw [List.append_assoc, List.singleton_append, splitNL_append_nl]
    exact List.mem_append_right _ hmid

example : lineToSlice [120, 10, 32, 107, 10, 10] = [[120], [32, 107]] := by decide   -- "x\n k\n\n"
example : lineToSlice [10] = [[]] := by decide                                        -- "\n" -> one empty line
example : lineToSlice [] = [] := by decide

/-! ## the keyword loop -/

/-- some disabled keyword hits the snippet: `*`, or a non-empty keyword equal to the first
token of some line -/
def Hit (kws : List Str) (lines : List Str) : Prop :=
  star ∈ kws ∨ ∃ l ∈ lines, ∃ k ∈ kws, k ≠ [] ∧ firstToken l = k

theorem scan_some_lines {src : Option String} {lines kws : List Str} {o : Outcome}
    (h : scan src lines kws = some o) : o.lines = [] := by
  induction kws with
  | nil => simp [scan] at h
  | cons k ks ih =>
    unfold scan at h
    split at h
    · exact ih h
    · split at h
      · cases h; rfl
      · split at h
        · cases h; rfl
        · exact ih h

theorem scan_none_iff (src : Option String) (lines kws : List Str) :
    scan src lines kws = none ↔ ¬ Hit kws lines := by
  induction kws with
  | nil => simp [scan, Hit]
  | cons k ks ih =>
    unfold scan
    by_cases hk : k = []
    · simp only [hk, if_true, ih, Hit]
      have hs : star ≠ [] := by decide
      constructor
      · rintro h (hm | ⟨l, hl, k', hk', hne, ht⟩)
        · rcases List.mem_cons.1 hm with e | hm
          · exact hs e
          · exact h (Or.inl hm)
        · rcases List.mem_cons.1 hk' with e | hk'
          · exact hne e
          · exact h (Or.inr ⟨l, hl, k', hk', hne, ht⟩)
      · rintro h (hm | ⟨l, hl, k', hk', hne, ht⟩)
        · exact h (Or.inl (List.mem_cons_of_mem _ hm))
        · exact h (Or.inr ⟨l, hl, k', List.mem_cons_of_mem _ hk', hne, ht⟩)
    · simp only [hk, if_false]
      by_cases hst : k = star
      · simp only [hst, if_true]
        constructor
        · intro h; cases h
        · intro h; exact absurd (Or.inl List.mem_cons_self) h
      · simp only [hst, if_false]
        by_cases hany : lines.any (fun l => firstToken l == k) = true
        · simp only [hany, if_true]
          constructor
          · intro h; cases h
          · intro h
            obtain ⟨l, hl, he⟩ := List.any_eq_true.1 hany
            exact absurd (Or.inr ⟨l, hl, k, List.mem_cons_self, hk, by simpa using he⟩) h
        · simp only [hany, Bool.false_eq_true, if_false]
          rw [ih]
          simp only [Hit]
          constructor
          · rintro h (hm | ⟨l, hl, k', hk', hne, ht⟩)
            · rcases List.mem_cons.1 hm with e | hm
              · exact hst e.symm
              · exact h (Or.inl hm)
            · rcases List.mem_cons.1 hk' with e | hk'
              · subst e
                exact hany (List.any_eq_true.2 ⟨l, hl, by simpa using ht⟩)
              · exact h (Or.inr ⟨l, hl, k', hk', hne, ht⟩)
          · rintro h (hm | ⟨l, hl, k', hk', hne, ht⟩)
            · exact h (Or.inl (List.mem_cons_of_mem _ hm))
            · exact h (Or.inr ⟨l, hl, k', List.mem_cons_of_mem _ hk', hne, ht⟩)

/-- **blocked**: if some line of the effective snippet has a non-empty disabled keyword as
its first token, nothing of the snippet is emitted (dropped as a whole). All keyword lists,
all texts, any source. -/
theorem blocked (kws : List Str) (cfg : Cfg)
    (h : ∃ l ∈ lineToSlice cfg.value, ∃ k ∈ kws, k ≠ [] ∧ firstToken l = k) :
    (customConfig kws cfg).lines = [] := by
  unfold customConfig
  simp only
  split
  · rfl
  · cases hs : scan cfg.source (lineToSlice cfg.value) kws with
    | some o => exact scan_some_lines hs
    | none => exact absurd (Or.inr h) ((scan_none_iff _ _ _).1 hs)

/-- **star**: with `*` in the list no snippet is emitted at all -/
theorem star_blocks (kws : List Str) (cfg : Cfg) (h : star ∈ kws) : (customConfig kws cfg).lines = [] := by
  unfold customConfig
  simp only
  split
  · rfl
  · cases hs : scan cfg.source (lineToSlice cfg.value) kws with
    | some o => exact scan_some_lines hs
    | none => exact absurd (Or.inl h) ((scan_none_iff _ _ _).1 hs)

/-- **untouched**: otherwise the snippet is emitted exactly as `LineToSlice` produced it -/
theorem untouched (kws : List Str) (cfg : Cfg) (h : ¬ Hit kws (lineToSlice cfg.value)) :
    (customConfig kws cfg).lines = lineToSlice cfg.value := by
  unfold customConfig
  simp only
  split
  · rename_i he; simp [Outcome.lines, he]
  · rw [(scan_none_iff _ _ _).2 h]; rfl

theorem takeWhile_word (k rest : Str) (hkb : ∀ c ∈ k, isSpace c = false)
    (hrest : rest = [] ∨ ∃ c r, rest = c :: r ∧ isSpace c = true) :
    (k ++ rest).takeWhile (fun b => !isSpace b) = k := by
  induction k with
  | nil =>
    rcases hrest with rfl | ⟨c, r, rfl, hc⟩
    · rfl
    · simp [hc]
  | cons c k ih =>
    have hc := hkb c List.mem_cons_self
    simp only [List.cons_append, List.takeWhile_cons, hc, Bool.not_false, if_true]
    congr 1
    exact ih (fun x hx => hkb x (List.mem_cons_of_mem _ hx))

/-- **multiline_no_bypass**: blanks before the keyword and surrounding lines do not hide it:
if the text contains a physical line `ws ++ k ++ rest` (blanks, the keyword, then end of line
or a blank and anything) the whole snippet is dropped. -/
theorem multiline_no_bypass (kws : List Str) (src : Option String) (a b ws k rest : Str)
    (hk : k ∈ kws) (hkne : k ≠ []) (hkb : ∀ c ∈ k, isSpace c = false)
    (hws : ∀ c ∈ ws, isSpace c = true)
    (hrest : rest = [] ∨ ∃ c r, rest = c :: r ∧ isSpace c = true)
    (hline : nl ∉ ws ++ k ++ rest)
    (ha : a = [] ∨ ∃ a', a = a' ++ [nl]) (hb : b = [] ∨ ∃ b', b = nl :: b') :
    (customConfig kws ⟨src, a ++ (ws ++ k ++ rest) ++ b⟩).lines = [] := by
  apply blocked
  refine ⟨ws ++ k ++ rest, ?_, k, hk, hkne, ?_⟩
  · apply physical_line_checked _ _ _ hline _ ha hb
    cases k with
    | nil => exact absurd rfl hkne
    | cons c k => simp
  · rw [List.append_assoc, firstToken_leading_blanks ws _ hws, firstToken_spec]
    have hdrop : (k ++ rest).dropWhile isSpace = k ++ rest := by
      cases k with
      | nil => exact absurd rfl hkne
      | cons c k => simp [hkb c List.mem_cons_self]
    rw [hdrop]
    exact takeWhile_word k rest hkb hrest

/-! ## which value the backend sees: annotations merging into one backend -/

/-- several annotations registered on one backend: the filter runs on, and only on, the value
that is emitted (the first registered one) — a later, different annotation is neither
checked nor emitted, so merging cannot smuggle a snippet past the check -/
theorem merge_first_wins (kws : List Str) (l : String) (v : Str) (rest : List (String × Str)) (glob : Str) :
    run kws ((l, v) :: rest) glob = customConfig kws ⟨some l, v⟩ := rfl

/-- the emitted lines do not depend on where the value came from (the source only feeds the log) -/
theorem lines_source_irrelevant (kws : List Str) (s₁ s₂ : Option String) (v : Str) :
    (customConfig kws ⟨s₁, v⟩).lines = (customConfig kws ⟨s₂, v⟩).lines := by
  by_cases h : Hit kws (lineToSlice v)
  · rcases h with h | h
    · rw [star_blocks kws _ h, star_blocks kws _ h]
    · rw [blocked kws ⟨s₁, v⟩ h, blocked kws ⟨s₂, v⟩ h]
  · rw [untouched kws ⟨s₁, v⟩ h, untouched kws ⟨s₂, v⟩ h]

/-! ## the property, as the oracle states it, on the model's output -/

theorem any_dirty_iff (kws lines : List Str) :
    lines.any (dirtyLine kws) = true ↔ ∃ l ∈ lines, ∃ k ∈ kws, k ≠ [] ∧ firstToken l = k := by
  simp only [List.any_eq_true, dirtyLine, disabled, Bool.and_eq_true, decide_eq_true_eq,
    List.contains_iff_mem, ← firstToken_spec, specToken]
  constructor
  · rintro ⟨l, hl, hne, hm⟩
    exact ⟨l, hl, _, hm, hne, rfl⟩
  · rintro ⟨l, hl, k, hk, hne, rfl⟩
    exact ⟨l, hl, hne, hk⟩

theorem star_disabled_iff (kws : List Str) : disabled kws star = true ↔ star ∈ kws := by
  have hs : star ≠ [] := by decide
  simp [disabled, hs]

theorem hit_iff (kws lines : List Str) :
    (disabled kws star || lines.any (dirtyLine kws)) = true ↔ Hit kws lines := by
  rw [Bool.or_eq_true, star_disabled_iff, any_dirty_iff]; rfl

/-- **safety, all sources**: no emitted line starts with a disabled keyword, and nothing is
emitted when `*` is disabled.  (For every keyword list, annotation list, global value.) -/
theorem emitted_is_clean (kws : List Str) (anns : List (String × Str)) (glob : Str) :
    (star ∈ kws → (run kws anns glob).lines = []) ∧
    ∀ l ∈ (run kws anns glob).lines, ∀ k ∈ kws, k ≠ [] → firstToken l ≠ k := by
  unfold run
  refine ⟨star_blocks kws _, ?_⟩
  intro l hl k hk hne ht
  by_cases h : Hit kws (lineToSlice (mapperGet anns glob).value)
  · rcases h with h | h
    · rw [star_blocks kws _ h] at hl; simp at hl
    · rw [blocked kws _ h] at hl; simp at hl
  · rw [untouched kws _ h] at hl
    exact h (Or.inr ⟨l, hl, k, hk, hne, ht⟩)

/-- **property_annotation_partial**: whenever the backend carries at least one annotation
value for `config-backend` (Service, Ingress, IngressClass parameters — any number of them,
any texts, any keyword list) the model's output satisfies every clause of the oracle. -/
theorem property_annotation_partial (kws : List Str) (anns : List (String × Str)) (glob : Str)
    (h : anns ≠ []) : oracle kws anns glob (run kws anns glob).lines = none := by
  cases anns with
  | nil => exact absurd rfl h
  | cons a rest =>
    obtain ⟨lab, v⟩ := a
    rw [merge_first_wins]
    simp only [oracle, mapperGet]
    by_cases hh : Hit kws (lineToSlice v)
    · have hout : (customConfig kws ⟨some lab, v⟩).lines = [] := by
        rcases hh with h | h
        · exact star_blocks kws _ h
        · exact blocked kws ⟨some lab, v⟩ h
      have hb := (hit_iff kws (lineToSlice v)).2 hh
      simp [hout, hb]
    · have hout := untouched kws ⟨some lab, v⟩ hh
      simp only at hout
      have hb : (disabled kws star || (lineToSlice v).any (dirtyLine kws)) = false := by
        cases hx : (disabled kws star || (lineToSlice v).any (dirtyLine kws))
        · rfl
        · exact absurd ((hit_iff _ _).1 hx) hh
      have h1 : disabled kws star = false := by
        cases hx : disabled kws star
        · rfl
        · rw [hx] at hb; simp at hb
      have h2 : (lineToSlice v).any (dirtyLine kws) = false := by
        cases hx : (lineToSlice v).any (dirtyLine kws)
        · rfl
        · rw [hx] at hb; simp at hb
      simp [hout, h1, h2]

/-- without any annotation the global value is selected; the only clause the model can
violate is the one that exempts global snippets from the filter -/
theorem property_global_partial (kws : List Str) (glob : Str) :
    oracle kws [] glob (run kws [] glob).lines = none ∨
    oracle kws [] glob (run kws [] glob).lines = some "global-source-snippet-filtered" := by
  simp only [oracle, mapperGet, run]
  by_cases hh : Hit kws (lineToSlice glob)
  · have hout : (customConfig kws ⟨none, glob⟩).lines = [] := by
      rcases hh with h | h
      · exact star_blocks kws _ h
      · exact blocked kws ⟨none, glob⟩ h
    by_cases he : lineToSlice glob = []
    · left; simp [hout, he]
    · have he' : ¬ ([] : List Str) = lineToSlice glob := fun e => he e.symm
      right; simp [hout, he']
  · have hout := untouched kws ⟨none, glob⟩ hh
    simp only at hout
    left; simp [hout]

/-
**global_unaffected** (C19: "snippets from the global ConfigMap are unaffected"), at full strength:

    theorem global_unaffected (kws : List Str) (glob : Str) :
        (run kws [] glob).lines = lineToSlice glob

and the whole property on the model:

    theorem property (kws : List Str) (anns : List (String × Str)) (glob : Str) :
        oracle kws anns glob (run kws anns glob).lines = none

Both are FALSE for the code as it is (`config.Source == nil` only changes the log text; the
keyword loop runs all the same).  Witness: keyword list `k`, global `config-backend: "k"`.
-/
theorem global_unaffected_fails : ¬ ∀ (kws : List Str) (glob : Str), (run kws [] glob).lines = lineToSlice glob := by
  intro h
  exact absurd (h [[107]] [107]) (by decide)

theorem property_fails : ¬ ∀ (kws : List Str) (anns : List (String × Str)) (glob : Str),
    oracle kws anns glob (run kws anns glob).lines = none := by
  intro h
  exact absurd (h [[107]] [] [107]) (by decide)

/-- the witness and its oracle signature; the `*` variant; the log blames "global config" (`none`) -/
theorem global_filtered_witness :
    run [[107]] [] [107] = .skipKw none [107] ∧
    oracle [[107]] [] [107] (run [[107]] [] [107]).lines = some "global-source-snippet-filtered" ∧
    run [star] [] [120] = .skipStar none ∧
    oracle [star] [] [120] (run [star] [] [120]).lines = some "global-source-snippet-filtered" := by decide

/-- **global_unaffected_partial**: the global snippet is emitted unchanged exactly when the
same text would have passed as an annotation; in particular when no keyword hits it. -/
theorem global_unaffected_partial (kws : List Str) (glob : Str) :
    (¬ Hit kws (lineToSlice glob) → (run kws [] glob).lines = lineToSlice glob) ∧
    (∀ lab, (run kws [] glob).lines = (run kws [(lab, glob)] []).lines) := by
  constructor
  · exact untouched kws ⟨none, glob⟩
  · intro lab; exact lines_source_irrelevant kws none (some lab) glob

/-! ## non-vacuity -/

-- annotation " \tk 1\nx" with keyword k: dropped as a whole, the log names the annotation
example : run [[107]] [("s", [32, 9, 107, 32, 49, 10, 120])] [120] = .skipKw (some "s") [107] := by decide
-- keyword as a prefix of another word: "kx 1" passes with keyword k
example : (run [[107]] [("s", [107, 120, 32, 49])] []).lines = [[107, 120, 32, 49]] := by decide
-- mixed case is a different token: "K" passes with keyword k
example : (run [[107]] [("i1", [75])] []).lines = [[75]] := by decide
-- the Service annotation wins over a dirty Ingress annotation (which is then not emitted either)
example : (run [[107]] [("s", [120]), ("i1", [107])] []).lines = [[120]] := by decide
-- the hypotheses of `blocked`, `untouched`, `multiline_no_bypass` are satisfiable
example : ∃ l ∈ lineToSlice [120, 10, 9, 107], ∃ k ∈ [[107]], k ≠ [] ∧ firstToken l = k := by decide
example : ¬ Hit [[107]] (lineToSlice [120, 10, 107, 120]) := by unfold Hit; decide
example : oracle [[107]] [("s", [107])] [] [[107]] = some "annotation-keyword-leaked" := by decide
example : oracle [star] [("s", [120])] [] [[120]] = some "star-leaked" := by decide
example : oracle [[107]] [("s", [120])] [] [] = some "clean-snippet-dropped" := by decide
example : oracle [[107]] [("s", [120, 10, 107])] [] [[120]] = some "dirty-snippet-not-dropped-as-a-whole" := by decide

/-! ## one sync: several backends, one updater, arbitrary processing order -/

/-- the pair `(source, value)` handed to `buildBackendCustomConfig` is what `Mapper.Get` returns -/
theorem selCfg_eq (b : Backend) (glob : Str) :
    (⟨b.selSrc.map Src.label, b.selValue glob⟩ : Cfg) = mapperGet b.lanns glob := by
  obtain ⟨id, anns⟩ := b
  cases anns with
  | nil => rfl
  | cons a rest => rfl

/-- **runSync_stateless**: for ANY updater whose outcome does not depend on what it carries
from one backend to the next, a sync — whatever its state, length, order — gives every
backend the outcome of the single-backend model. -/
theorem runSync_stateless {σ : Type} (u : Updater σ) (kws : List Str) (glob : Str)
    (h : ∀ s src v, (u.build kws s src v).1 = customConfig kws ⟨src.map Src.label, v⟩) :
    ∀ (s : σ) (bs : List Backend),
      runSync u kws glob s bs = bs.map fun b => (b, run kws b.lanns glob) := by
  intro s bs
  induction bs generalizing s with
  | nil => rfl
  | cons b bs ih =>
    simp only [runSync, List.map_cons]
    rw [ih, h, selCfg_eq]
    rfl

theorem sync_pure (kws : List Str) (glob : Str) (bs : List Backend) :
    sync pureUpdater kws glob bs = bs.map fun b => (b, run kws b.lanns glob) :=
  runSync_stateless pureUpdater kws glob (fun _ _ _ => rfl) () bs

/-- **sync_order_independent**: for the code as it is, whatever the processing order `ord`
(any list of positions: a permutation, with repetitions, partial) and whatever the other
backends of the sync declare, each processed backend gets exactly the outcome of the
single-backend model — so `blocked`, `star_blocks`, `untouched`, `multiline_no_bypass`,
`merge_first_wins`, `property_annotation_partial` apply to every backend of a sync. -/
theorem sync_order_independent (kws : List Str) (glob : Str) (bs : List Backend) (ord : List Nat) :
    sync pureUpdater kws glob (reorder bs ord) =
      (reorder bs ord).map fun b => (b, run kws b.lanns glob) :=
  sync_pure kws glob _

/-- the same with permutations: two processing orders of the same backends give the same
outcomes up to that permutation, and every backend of the sync is in the result with its
single-backend outcome -/
theorem sync_perm (kws : List Str) (glob : Str) (bs bs' : List Backend) (h : bs'.Perm bs) :
    (sync pureUpdater kws glob bs').Perm (sync pureUpdater kws glob bs) ∧
    ∀ b ∈ bs, (b, run kws b.lanns glob) ∈ sync pureUpdater kws glob bs' := by
  rw [sync_pure, sync_pure]
  refine ⟨h.map _, ?_⟩
  intro b hb
  exact List.mem_map.2 ⟨b, h.mem_iff.2 hb, rfl⟩

/-- the outcome of a backend does not depend on the backends around it -/
theorem sync_backend_outcome (kws : List Str) (glob : Str) (bs : List Backend) (b : Backend) (o : Outcome)
    (h : (b, o) ∈ sync pureUpdater kws glob bs) : o = run kws b.lanns glob := by
  rw [sync_pure] at h
  obtain ⟨b', _, e⟩ := List.mem_map.1 h
  cases e
  rfl

/-- **no_leak_sync**: no disabled keyword reaches ANY backend of a sync through annotations:
for every backend, in every processing order, nothing is emitted under `*`, no emitted line
starts with a non-empty disabled keyword, and when the backend has an annotation value the
whole Spec holds. -/
theorem no_leak_sync (kws : List Str) (glob : Str) (bs : List Backend) (ord : List Nat)
    (b : Backend) (o : Outcome) (h : (b, o) ∈ sync pureUpdater kws glob (reorder bs ord)) :
    (star ∈ kws → o.lines = []) ∧
    (∀ l ∈ o.lines, ∀ k ∈ kws, k ≠ [] → firstToken l ≠ k) ∧
    (b.anns ≠ [] → oracle kws b.lanns glob o.lines = none) := by
  have ho := sync_backend_outcome kws glob _ b o h
  subst ho
  refine ⟨(emitted_is_clean kws b.lanns glob).1, (emitted_is_clean kws b.lanns glob).2, ?_⟩
  intro hne
  apply property_annotation_partial
  intro he
  apply hne
  obtain ⟨id, anns⟩ := b
  cases anns with
  | nil => rfl
  | cons a r => simp [Backend.lanns] at he

/-- the Spec of the sync on the model: the only clause that can fail on any backend is the
known one about global snippets (`property_global_partial`) -/
theorem oracle_sync_partial (kws : List Str) (glob : Str) (bs : List Backend) :
    ∀ c ∈ oracleSync kws glob ((sync pureUpdater kws glob bs).map fun bo => (bo.1, bo.2.lines)),
      c = "global-source-snippet-filtered" := by
  intro c hc
  rw [sync_pure] at hc
  simp only [oracleSync, List.map_map, List.mem_filterMap, List.mem_map, Function.comp] at hc
  obtain ⟨bo, ⟨b, _, rfl⟩, hor⟩ := hc
  simp only at hor
  obtain ⟨id, anns⟩ := b
  cases anns with
  | nil =>
    rcases property_global_partial kws glob with h | h
    · simp [Backend.lanns, h] at hor
    · simp only [Backend.lanns, List.map_nil, h, Option.some.injEq] at hor
      exact hor.symm
  | cons a r =>
    have := property_annotation_partial kws (Backend.lanns ⟨id, a :: r⟩) glob (by simp [Backend.lanns])
    rw [this] at hor
    cases hor

/-! ### when is a per-sync memo of the verdict sound? -/

/-- the keyword loop returns what `lookupDisabledKeyword` + the two `if`s of the refactored
form return -/
theorem scan_verdict (src : Option String) (lines kws : List Str) :
    (match scan src lines kws with | some o => o | none => .emitted lines)
      = ofVerdict src lines (verdict lines kws) := by
  induction kws with
  | nil => simp [scan, verdict, ofVerdict, star]
  | cons k ks ih =>
    unfold scan verdict
    by_cases hk : k = []
    · simp only [hk, if_true]; exact ih
    · simp only [hk, if_false]
      by_cases hs : k = star
      · simp [hs, ofVerdict]
      · simp only [hs, if_false]
        by_cases ha : lines.any (fun l => firstToken l == k) = true
        · simp [ha, ofVerdict, hs, hk]
        · simp only [ha, Bool.false_eq_true, if_false]; exact ih

theorem customConfig_verdict (kws : List Str) (src : Option String) (v : Str) :
    customConfig kws ⟨src, v⟩ =
      if lineToSlice v = [] then .noSnippet else ofVerdict src (lineToSlice v) (verdict (lineToSlice v) kws) := by
  unfold customConfig
  simp only
  split
  · rfl
  · exact scan_verdict src (lineToSlice v) kws

/-- within the sync the memo key determines the selected value -/
def KeyFaithful (key : Option Src → String) (glob : Str) (bs : List Backend) : Prop :=
  ∀ b ∈ bs, ∀ b' ∈ bs, key b.selSrc = key b'.selSrc → b.selValue glob = b'.selValue glob

/-- every memo entry is the verdict of the selected value of some backend of the sync -/
def MemoInv (key : Option Src → String) (kws : List Str) (glob : Str) (all : List Backend)
    (m : List (String × Str)) : Prop :=
  ∀ k w, m.lookup k = some w →
    ∃ b ∈ all, key b.selSrc = k ∧ w = verdict (lineToSlice (b.selValue glob)) kws

theorem memoBuild_spec (key : Option Src → String) (kws : List Str) (glob : Str) (all : List Backend)
    (hf : KeyFaithful key glob all) (m : List (String × Str)) (hm : MemoInv key kws glob all m)
    (b : Backend) (hb : b ∈ all) :
    (memoBuild key kws m b.selSrc (b.selValue glob)).1
        = customConfig kws ⟨b.selSrc.map Src.label, b.selValue glob⟩ ∧
    MemoInv key kws glob all (memoBuild key kws m b.selSrc (b.selValue glob)).2 := by
  rw [customConfig_verdict]
  unfold memoBuild
  simp only
  by_cases hl : lineToSlice (b.selValue glob) = []
  · simp only [hl, if_true]; exact ⟨trivial, hm⟩
  · simp only [hl, if_false]
    by_cases hk : kws = []
    · subst hk
      simp only [if_true]
      refine ⟨?_, hm⟩
      simp [verdict, ofVerdict, star]
    · simp only [hk, if_false]
      cases hlk : m.lookup (key b.selSrc) with
      | some w =>
        simp only
        refine ⟨?_, hm⟩
        obtain ⟨b', hb', hkey, hw⟩ := hm _ _ hlk
        rw [hw, hf b' hb' b hb hkey]
      | none =>
        simp only
        refine ⟨trivial, ?_⟩
        intro k w hkw
        rw [List.lookup_cons] at hkw
        by_cases he : (k == key b.selSrc) = true
        · rw [he] at hkw
          cases hkw
          exact ⟨b, hb, (by simpa using he : k = key b.selSrc).symm, rfl⟩
        · have he' : (k == key b.selSrc) = false := by simpa using he
          rw [he'] at hkw
          exact hm k w hkw

theorem runSync_memo (key : Option Src → String) (kws : List Str) (glob : Str) (all : List Backend)
    (hf : KeyFaithful key glob all) :
    ∀ (bs : List Backend) (m : List (String × Str)), (∀ b ∈ bs, b ∈ all) → MemoInv key kws glob all m →
      runSync (memoUpdater key) kws glob m bs = bs.map fun b => (b, run kws b.lanns glob) := by
  intro bs
  induction bs with
  | nil => intros; rfl
  | cons b bs ih =>
    intro m hsub hm
    have hb : b ∈ all := hsub b List.mem_cons_self
    obtain ⟨h1, h2⟩ := memoBuild_spec key kws glob all hf m hm b hb
    simp only [runSync, List.map_cons, show (memoUpdater key).build = memoBuild key from rfl]
    rw [h1, selCfg_eq, ih _ (fun x hx => hsub x (List.mem_cons_of_mem _ hx)) h2]
    rfl

/-- **memo_sound**: a per-sync memo of the verdict is harmless exactly under the condition
the seeded change took for granted: within the sync, equal keys mean equal selected values.
Then every backend still gets its single-backend outcome, in any processing order.
`Source.FullName()` does not satisfy it (`seeded_memo_leaks`): an Ingress and a Service may
share namespace/name. -/
theorem memo_sound (key : Option Src → String) (kws : List Str) (glob : Str) (bs : List Backend)
    (ord : List Nat) (hf : KeyFaithful key glob (reorder bs ord)) :
    sync (memoUpdater key) kws glob (reorder bs ord) = sync pureUpdater kws glob (reorder bs ord) := by
  rw [sync_pure]
  exact runSync_memo key kws glob _ hf _ [] (fun _ h => h) (fun _ _ h => by simp at h)

/-! ### the memoising variant (seeded defect C19e) is expressible and leaks -/

def wIngApp : Src := { type := .ingress, ns := "default", name := "app" }
def wSvcApp : Src := { type := .service, ns := "default", name := "app" }
/-- `server` -/
def wServer : Str := [115, 101, 114, 118, 101, 114]
/-- backend `default_web_8080`: Ingress default/app carries the allowed snippet `x 1` -/
def wWeb : Backend := { id := "default_web_8080", anns := [(wIngApp, [120, 32, 49])] }
/-- backend `default_app_8080`: Service default/app carries ` server e` -/
def wApp : Backend := { id := "default_app_8080", anns := [(wSvcApp, 32 :: wServer ++ [32, 101])] }

/-- **seeded_memo_leaks**: with the verdict memoised under `Source.FullName()` the 2-backend
sync (Ingress default/app: allowed snippet; Service default/app: a `server` line;
`--disable-config-keywords=server`) emits the `server` line when the ingress' backend is
updated first, and drops the allowed snippet in the other order; the code as it is does
neither, and a memo keyed by the full source does not either. -/
theorem seeded_memo_leaks :
    (sync (memoUpdater keyFullName) [wServer] [] [wWeb, wApp]).map (·.2.lines)
      = [[[120, 32, 49]], [32 :: wServer ++ [32, 101]]] ∧
    oracleSync [wServer] [] ((sync (memoUpdater keyFullName) [wServer] [] [wWeb, wApp]).map fun bo => (bo.1, bo.2.lines))
      = ["annotation-keyword-leaked"] ∧
    oracleSync [wServer] [] ((sync (memoUpdater keyFullName) [wServer] [] (reorder [wWeb, wApp] [1, 0])).map fun bo => (bo.1, bo.2.lines))
      = ["clean-snippet-dropped"] ∧
    oracleSync [wServer] [] ((sync pureUpdater [wServer] [] [wWeb, wApp]).map fun bo => (bo.1, bo.2.lines)) = [] ∧
    oracleSync [wServer] [] ((sync (memoUpdater keyLabel) [wServer] [] [wWeb, wApp]).map fun bo => (bo.1, bo.2.lines)) = [] := by
  decide

/-- hence the hypothesis of `runSync_stateless` fails for the seeded variant: its outcome
depends on the carried state -/
theorem seeded_memo_stateful :
    ¬ ∀ s src v, ((memoUpdater keyFullName).build [wServer] s src v).1
        = customConfig [wServer] ⟨src.map Src.label, v⟩ := by
  intro h
  exact absurd (h [("default/app", [])] (some wSvcApp) (32 :: wServer ++ [32, 101])) (by decide)

-- the witness sync is not key-faithful for `Source.FullName()`, it is for the full source
example : ¬ KeyFaithful keyFullName [] [wWeb, wApp] := by
  intro h
  exact absurd (h wWeb (by simp) wApp (by simp) (by decide)) (by decide)
example : KeyFaithful keyLabel [] [wWeb, wApp] := by
  intro b hb b' hb' hk
  simp only [List.mem_cons, List.not_mem_nil, or_false] at hb hb'
  rcases hb with rfl | rfl <;> rcases hb' with rfl | rfl <;> first | rfl | exact absurd hk (by decide)

-- non-vacuity: a sync of two backends in both orders; the dirty one is dropped, the clean one kept
example : (sync pureUpdater [wServer] [] (reorder [wWeb, wApp] [1, 0])).map (·.2)
    = [.skipKw (some "S/default/app") wServer, .emitted [[120, 32, 49]]] := by decide
example : (sync pureUpdater [wServer] [] (reorder [wWeb, wApp] [0, 1])).map (·.2)
    = [.emitted [[120, 32, 49]], .skipKw (some "S/default/app") wServer] := by decide
example : (reorder [wWeb, wApp] [1, 0]).Perm [wWeb, wApp] := by decide
-- the registration model: the cluster of the witness gives these two backends
example : Cluster.backends
    { svcs := [{ ns := "default", name := "web", ann := none },
               { ns := "default", name := "app", ann := some (32 :: wServer ++ [32, 101]) }],
      ings := [{ ns := "default", name := "app", ann := some [120, 32, 49], params := none, svcs := ["web"] },
               { ns := "default", name := "other", ann := none, params := none, svcs := ["app"] }] }
    = [wWeb, wApp] := by decide

/-! ## constants regenerated from the Go source -/

/-- the `asciiSpace` table, the loop conditions of `firstToken`, the shape of
`buildBackendCustomConfig` (incl. what it reads of the per-sync updater) and of `LineToSlice`
are the ones the model was written from -/
theorem facts_c19 :
    Facts.c19AsciiSpaceLen = 256 ∧
    Facts.c19AsciiSpaceKeys.zip Facts.c19AsciiSpaceVals = spaceTable ∧
    Facts.c19AsciiSpaceKeys.length = Facts.c19AsciiSpaceVals.length ∧
    Facts.c19FirstTokenConds =
      ["len(s) > start", "asciiSpace[s[start]] == 0", "len(s) > end", "asciiSpace[s[end]] == 1"] ∧
    Facts.c19FirstTokenReturns = ["s[start:end]"] ∧
    Facts.c19CustomConfigConds =
      ["len(lines) == 0", "config.Source != nil", "keyword == \"\"", "keyword == \"*\"", "firstToken(line) == keyword"] ∧
    Facts.c19CustomConfigRanges = ["c.options.DisableKeywords", "lines"] ∧
    Facts.c19CustomConfigAssigns = ["d.backend.CustomConfig = lines"] ∧
    Facts.c19CustomConfigReturns = 3 ∧
    Facts.c19CustomConfigInput = ["ingtypes.BackConfigBackend", "config.Value"] ∧
    -- of the updater (shared by all the backends of a sync) only the keyword list and the logger are used:
    -- the current code is `pureUpdater`
    Facts.c19CustomConfigReceiverUses = ["c.logger.Warn", "c.options.DisableKeywords"] ∧
    Facts.c19LineToSliceConds = ["s == \"\""] ∧
    Facts.c19LineToSliceReturns = ["nil", "strings.Split(strings.TrimRight(s, \"\\n\"), \"\\n\")"] := by
  decide

end HapVerif.C19
