import HapVerif.Model.C19
namespace HapVerif.C19
end HapVerif.C19
