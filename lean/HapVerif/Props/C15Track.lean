import HapVerif.Model.C15Track
import HapVerif.Props.C01
/-!
# C15 — a rotated Secret reaches every host that uses it (tracker closure over all histories)

Model: `Model/C15Track.lean` — the tracking calls of `syncIngress` for hosts and certificates
(`ingLinks`), `syncPartial` (`partialSync`: `QueryLinks(changed.Links, true)` removes the connected
components of the changed objects, the ingresses of the output are read again and register their
links again) and `syncFull` (`fullSyncT`) over the M-Tracker of C01 (`C01.Tr`, `C01.track`,
`C01.queryLinks`; theorems `C01.tracker_output`, `C01.tracker_untouched_adj`).  Every other link of
the real tracker is an arbitrary extra edge list / seed list per reconciliation: the theorems hold
for every choice, hence for the real, larger tracker.

Histories: `Reachable` = a full sync of ANY cluster state followed by ANY sequence of partial
syncs whose batches are arbitrary lists of operations (ingress add / update / delete, secret add /
update / delete, services, endpoints, pods …).

* `links_invariant` — in every reachable state every ingress of this controller has all its
  ingress—host and ingress—secret links in the tracker.  It is preserved because a partial sync
  re-syncs every ingress of a removed component (`removed_component_resynced`).
* `rotation_reaches_all_readers` — in every reachable state, for every ingress `I` that CURRENTLY
  declares Secret `S` for host `H`, a query seeded with `S` returns `H` and `I`; whatever happened to the
  other readers of `S` before.
* `rotation_resyncs_all_readers` — the reconciliation that carries the Secret event marks `H` dirty and
  reads `I` again.
* `seeded_closure_loses_second_reader` — kernel-checked: with the closure of seed C15e (a Secret reached
  from a reader is not followed, the removal still deletes the whole component) the update of the first
  reader of a shared Secret deletes the links of the second reader without re-syncing it; the rotation
  that follows reaches nothing.

The dirty set may be LARGER than the set of readers (it is a union of connected components); a host that
is re-read although its Secret did not change is built from the same objects again (C01), so "exactly
the hosts that use it" is carried by `rotation_exact` of `Props/C15.lean` for the values and by the
theorems here for the completeness of the re-read set.
-/
namespace HapVerif.C15
open HapVerif.Sync
open HapVerif.C04 (Str)
open HapVerif.C01 (Tr track queryLinks Adj Conn HasEdge)

/-! ## lemmas on the model -/

theorem trackIng_eq (w : World) (t : Tr Node) (i : Ingress) : trackIng w t i = ingLinks w i ++ t := by
  unfold trackIng
  induction ingLinks w i with
  | nil => rfl
  | cons e l ih => simp only [List.foldr_cons, ih]; rfl

theorem mem_trackAll {w : World} {e : Node × Node} : ∀ (l : List Ingress) (t : Tr Node),
    e ∈ trackAll w l t ↔ e ∈ t ∨ ∃ i ∈ l, e ∈ ingLinks w i
  | [], t => by simp [trackAll]
  | i :: l, t => by
    have ih := mem_trackAll (w := w) (e := e) l (trackIng w t i)
    unfold trackAll at ih ⊢
    rw [List.foldl_cons, ih, trackIng_eq, List.mem_append]
    constructor
    · rintro ((h | h) | ⟨j, hj, h⟩)
      · exact Or.inr ⟨i, List.mem_cons_self .., h⟩
      · exact Or.inl h
      · exact Or.inr ⟨j, List.mem_cons_of_mem _ hj, h⟩
    · rintro (h | ⟨j, hj, h⟩)
      · exact Or.inl (Or.inr h)
      · rcases List.mem_cons.mp hj with rfl | hj
        · exact Or.inl (Or.inl h)
        · exact Or.inr ⟨j, hj, h⟩

/-- every link of an ingress starts at its own node -/
theorem ingLinks_fst {w : World} {i : Ingress} {e : Node × Node} (he : e ∈ ingLinks w i) :
    e.1 = Node.ing (ingKey i) := by
  unfold ingLinks at he
  rcases List.mem_append.mp he with h | h
  · obtain ⟨_, _, rfl⟩ := List.mem_map.mp h; rfl
  · obtain ⟨b, _, hb⟩ := List.mem_filterMap.mp h
    cases hs : secNode w i.ns b with
    | none => simp [hs] at hb
    | some s => simp [hs] at hb; rw [← hb]

theorem host_link {w : World} {i : Ingress} {b : TLSSpec} {h : Str} (hb : b ∈ i.tls) (hh : h ∈ b.hosts) :
    (Node.ing (ingKey i), Node.host h) ∈ ingLinks w i := by
  unfold ingLinks hostsOfIng
  refine List.mem_append_left _ (List.mem_map.mpr ⟨h, ?_, rfl⟩)
  exact List.mem_append_right _ (List.mem_flatMap.mpr ⟨b, hb, hh⟩)

theorem sec_link {w : World} {i : Ingress} {b : TLSSpec} {s : Node} (hb : b ∈ i.tls)
    (hs : secNode w i.ns b = some s) : (Node.ing (ingKey i), s) ∈ ingLinks w i := by
  unfold ingLinks
  exact List.mem_append_right _ (List.mem_filterMap.mpr ⟨b, hb, by simp [hs]⟩)

/-- the operations never change the cross-namespace permission -/
theorem apply_xns (w : World) (op : Op) : (w.apply op).opts.crossNsSecret = w.opts.crossNsSecret := by
  cases op <;> rfl

theorem applyAll_xns : ∀ (ops : List Op) (w : World),
    (w.applyAll ops).opts.crossNsSecret = w.opts.crossNsSecret
  | [], _ => rfl
  | op :: ops, w => by
    show ((w.apply op).applyAll ops).opts.crossNsSecret = _
    rw [applyAll_xns ops, apply_xns]

theorem ingLinks_congr {w w' : World} (h : w'.opts.crossNsSecret = w.opts.crossNsSecret) (i : Ingress) :
    ingLinks w' i = ingLinks w i := by
  unfold ingLinks secNode secretRef
  simp only [h]

theorem mem_upsert {α : Type} {same : α → Bool} {upd : α → α} {new x : α} :
    ∀ {l : List α}, x ∈ upsert same upd new l → x ∈ l ∨ x = new ∨ ∃ o ∈ l, x = upd o
  | [], h => by
    simp only [upsert, List.mem_singleton] at h
    exact Or.inr (Or.inl h)
  | y :: l, h => by
    unfold upsert at h
    split at h
    · rcases List.mem_cons.mp h with h | h
      · exact Or.inr (Or.inr ⟨y, List.mem_cons_self .., h⟩)
      · exact Or.inl (List.mem_cons_of_mem _ h)
    · rcases List.mem_cons.mp h with h | h
      · exact Or.inl (h ▸ List.mem_cons_self ..)
      · rcases mem_upsert h with h | h | ⟨o, ho, h⟩
        · exact Or.inl (List.mem_cons_of_mem _ h)
        · exact Or.inr (Or.inl h)
        · exact Or.inr (Or.inr ⟨o, List.mem_cons_of_mem _ ho, h⟩)

/-- an ingress of the new cluster that no event of the operation names was there before, unchanged -/
theorem mem_apply_ings {w : World} {op : Op} {i : Ingress} (hi : i ∈ (w.apply op).ings)
    (hk : ingKey i ∉ changedIngs [op]) : i ∈ w.ings := by
  cases op with
  | ingPut j =>
    simp only [changedIngs, List.mem_singleton] at hk
    rcases mem_upsert (by simpa [World.apply] using hi) with h | h | ⟨o, _, h⟩
    · exact h
    · exact absurd (by rw [h]) hk
    · exact absurd (by rw [h]; rfl) hk
  | ingDel ns name =>
    have : i ∈ w.ings.filter fun x => !(x.ns = ns ∧ x.name = name) := by simpa [World.apply] using hi
    exact (List.mem_filter.mp this).1
  | _ => exact hi

theorem changedIngs_cons {op : Op} {ops : List Op} {k : Str} :
    k ∈ changedIngs (op :: ops) ↔ k ∈ changedIngs [op] ∨ k ∈ changedIngs ops := by
  cases op <;> simp [changedIngs]

theorem mem_applyAll_ings {i : Ingress} : ∀ (ops : List Op) (w : World),
    i ∈ (w.applyAll ops).ings → ingKey i ∉ changedIngs ops → i ∈ w.ings
  | [], _, hi, _ => hi
  | op :: ops, w, hi, hk => by
    have h1 : i ∈ (w.apply op).ings :=
      mem_applyAll_ings ops (w.apply op) hi (fun h => hk (changedIngs_cons.mpr (Or.inr h)))
    exact mem_apply_ings h1 (fun h => hk (changedIngs_cons.mpr (Or.inl h)))

/-! ## the invariant -/

/-- every ingress of this controller has all its host and secret links in the tracker -/
def Inv (s : TState) : Prop :=
  ∀ i ∈ s.w.ings, i.valid = true → ∀ e ∈ ingLinks s.w i, Adj s.t e.1 e.2

theorem adj_of_mem {t : Tr Node} {e : Node × Node} (h : e ∈ t) : Adj t e.1 e.2 := Or.inl h

theorem inv_full (w : World) (post : Tr Node) : Inv (fullSyncT w post) := by
  intro i hi hv e he
  refine adj_of_mem (List.mem_append_right _ ?_)
  exact (mem_trackAll _ _).mpr (Or.inr ⟨i, List.mem_filter.mpr ⟨hi, by simpa using hv⟩, he⟩)

theorem mem_resyncList {w' : World} {changed : List Str} {out : List Node} {i : Ingress} :
    i ∈ resyncList w' changed out ↔
      i ∈ w'.ings ∧ i.valid = true ∧ (ingKey i ∈ changed ∨ Node.ing (ingKey i) ∈ out) := by
  simp [resyncList, List.mem_filter]

/-- **the invariant is preserved**: an ingress that is not read again keeps every link, because the
removal only touches the connected components of the seeds and every ingress of those components is in
the output of the query -/
theorem inv_step {s : TState} (b : Batch) (h : Inv s) : Inv (partialSync s b) := by
  intro i hi hv e he
  show Adj (b.post ++ trackAll _ (resyncList _ _ _) _) e.1 e.2
  by_cases hr : i ∈ resyncList (s.w.applyAll b.ops) (changedIngs b.ops)
      (queryLinks (b.pre ++ s.t) (seedsOf b) true).1
  · exact adj_of_mem (List.mem_append_right _ ((mem_trackAll _ _).mpr (Or.inr ⟨i, hr, he⟩)))
  · have hno : ingKey i ∉ changedIngs b.ops ∧
        Node.ing (ingKey i) ∉ (queryLinks (b.pre ++ s.t) (seedsOf b) true).1 := by
      constructor
      · intro hc; exact hr (mem_resyncList.mpr ⟨hi, hv, Or.inl hc⟩)
      · intro hc; exact hr (mem_resyncList.mpr ⟨hi, hv, Or.inr hc⟩)
    have hold : i ∈ s.w.ings := mem_applyAll_ings b.ops s.w hi hno.1
    have he' : e ∈ ingLinks s.w i := by
      rw [← ingLinks_congr (applyAll_xns b.ops s.w) i]; exact he
    have hadj : Adj (b.pre ++ s.t) e.1 e.2 :=
      (h i hold hv e he').mono (fun _ hx => List.mem_append_right _ hx)
    have hfst := ingLinks_fst he
    have hunreached : ¬ ∃ sd ∈ seedsOf b, Conn (b.pre ++ s.t) sd e.1 := by
      intro hc
      apply hno.2
      rw [← hfst]
      exact (C01.tracker_output _ _ _).mpr ⟨⟨e.2, hadj⟩, hc⟩
    have hkeep : Adj (queryLinks (b.pre ++ s.t) (seedsOf b) true).2 e.1 e.2 :=
      (C01.tracker_untouched_adj _ _ _ _ hunreached).mpr hadj
    refine hkeep.mono (fun x hx => List.mem_append_right _ ((mem_trackAll _ _).mpr (Or.inl hx)))

/-- **links_invariant**: for all histories -/
theorem links_invariant {s : TState} (h : Reachable s) : Inv s := by
  induction h with
  | full w post => exact inv_full w post
  | step b _ ih => exact inv_step b ih

/-- the reason the invariant survives: an ingress of this controller (in the cluster after the batch) that
loses a link in the removal is read again by the same partial sync -/
theorem removed_component_resynced (s : TState) (b : Batch) {i : Ingress}
    (hi : i ∈ (s.w.applyAll b.ops).ings) (hv : i.valid = true) {x : Node}
    (hadj : Adj (b.pre ++ s.t) (Node.ing (ingKey i)) x)
    (hlost : ¬ Adj (queryLinks (b.pre ++ s.t) (seedsOf b) true).2 (Node.ing (ingKey i)) x) :
    i ∈ resyncList (s.w.applyAll b.ops) (changedIngs b.ops) (dirtyOut s b) := by
  refine mem_resyncList.mpr ⟨hi, hv, Or.inr ?_⟩
  apply Classical.byContradiction
  intro hno
  apply hlost
  refine (C01.tracker_untouched_adj _ _ _ _ ?_).mpr hadj
  intro hc
  exact hno ((C01.tracker_output _ _ _).mpr ⟨⟨x, hadj⟩, hc⟩)

/-! ## the property clause -/

/-- a reader of a Secret is connected to it, and so is the host it declares the Secret for -/
theorem reader_connected {s : TState} (hinv : Inv s) {i : Ingress} (hi : i ∈ s.w.ings)
    (hv : i.valid = true) {h a n : Str} (hd : Declares s.w i h a n) :
    Adj s.t (Node.ing (ingKey i)) (Node.sec a n) ∧ Adj s.t (Node.ing (ingKey i)) (Node.host h) := by
  obtain ⟨b, hb, hh, hs⟩ := hd
  exact ⟨hinv i hi hv _ (sec_link hb hs), hinv i hi hv _ (host_link hb hh)⟩

/-- **rotation_reaches_all_readers**: in every reachable tracker state, for every ingress `I` of this
controller that currently declares Secret `a/n` for host `h`, a query seeded with the Secret returns `h`
and `I` — in particular after other readers of the Secret were updated or deleted. -/
theorem rotation_reaches_all_readers {s : TState} (hr : Reachable s) {i : Ingress} (hi : i ∈ s.w.ings)
    (hv : i.valid = true) {h a n : Str} (hd : Declares s.w i h a n) :
    Node.host h ∈ (queryLinks s.t [Node.sec a n] true).1 ∧
    Node.ing (ingKey i) ∈ (queryLinks s.t [Node.sec a n] true).1 := by
  obtain ⟨hsec, hhost⟩ := reader_connected (links_invariant hr) hi hv hd
  have hc : Conn s.t (Node.sec a n) (Node.ing (ingKey i)) := Conn.single hsec.symm
  constructor
  · exact (C01.tracker_output _ _ _).mpr
      ⟨⟨_, hhost.symm⟩, _, List.mem_singleton.mpr rfl, Conn.tail hc hhost⟩
  · exact (C01.tracker_output _ _ _).mpr ⟨⟨_, hsec⟩, _, List.mem_singleton.mpr rfl, hc⟩

/-- **rotation_resyncs_all_readers**: the reconciliation whose batch carries an event of Secret `a/n`
(together with anything else) marks the host of every current reader dirty and reads the reader again, if it
is still there -/
theorem rotation_resyncs_all_readers {s : TState} (hr : Reachable s) (b : Batch) {a n : Str}
    (hsec : Node.sec a n ∈ changedSecs b.ops) {i : Ingress} (hi : i ∈ s.w.ings) (hv : i.valid = true)
    {h : Str} (hd : Declares s.w i h a n) :
    Node.host h ∈ dirtyOut s b ∧
    ∀ i' ∈ (s.w.applyAll b.ops).ings, i'.valid = true → ingKey i' = ingKey i →
      i' ∈ resyncList (s.w.applyAll b.ops) (changedIngs b.ops) (dirtyOut s b) := by
  obtain ⟨hs, hh⟩ := reader_connected (links_invariant hr) hi hv hd
  have up : ∀ {x y : Node}, Adj s.t x y → Adj (b.pre ++ s.t) x y :=
    fun hxy => hxy.mono (fun _ hx => List.mem_append_right _ hx)
  have hseed : Node.sec a n ∈ seedsOf b :=
    List.mem_append_left _ (List.mem_append_right _ hsec)
  have hc : Conn (b.pre ++ s.t) (Node.sec a n) (Node.ing (ingKey i)) := Conn.single (up hs).symm
  have hing : Node.ing (ingKey i) ∈ dirtyOut s b :=
    (C01.tracker_output _ _ _).mpr ⟨⟨_, up hs⟩, _, hseed, hc⟩
  refine ⟨(C01.tracker_output _ _ _).mpr ⟨⟨_, (up hh).symm⟩, _, hseed, Conn.tail hc (up hh)⟩, ?_⟩
  intro i' hi' hv' hk
  exact mem_resyncList.mpr ⟨hi', hv', Or.inr (hk ▸ hing)⟩

/-! ## witnesses -/

def s' (x : String) : Str := x.toList

def ingA (secret : String) : Ingress :=
  { ns := s' "d", name := s' "i1", created := 1, valid := true,
    rules := [⟨s' "a.local", [⟨s' "/", .pfx, s' "app", s' "80"⟩]⟩], tls := [⟨[s' "a.local"], s' secret⟩] }

def ingC : Ingress :=
  { ns := s' "d", name := s' "i2", created := 2, valid := true,
    rules := [⟨s' "c.local", [⟨s' "/", .pfx, s' "api", s' "80"⟩]⟩], tls := [⟨[s' "c.local"], s' "tls1"⟩] }

/-- two ingresses with distinct hosts and services share Secret `d/tls1` -/
def wShared : World :=
  { ings := [ingA "tls1", ingC], secs := [⟨s' "d", s' "tls1", true, 1⟩, ⟨s' "d", s' "tls2", true, 1⟩] }

/-- the first reader moves to its own Secret -/
def bLeave : Batch := { ops := [.ingPut (ingA "tls2")] }

def sGood : TState := partialSync (fullSyncT wShared []) bLeave
def sSeeded : TState := partialSeeded (fullSyncT wShared []) bLeave

instance (w : World) (i : Ingress) (h a n : Str) : Decidable (Declares w i h a n) := by
  unfold Declares; infer_instance

/-- **the closure of seed C15e loses the second reader.**  After the first reader of the shared Secret
left: `d/i2` still declares `d/tls1` for `c.local`; with the code as it is the rotation of `d/tls1` reaches
`c.local`; with the seeded closure the partial sync did not read `d/i2` again although the removal deleted
its links, so neither the seeded nor the original query reaches `c.local` from the Secret any more. -/
theorem seeded_closure_loses_second_reader :
    Declares sSeeded.w ingC (s' "c.local") (s' "d") (s' "tls1") ∧ ingC ∈ sSeeded.w.ings ∧
    Node.host (s' "c.local") ∈ (queryLinks sGood.t [Node.sec (s' "d") (s' "tls1")] true).1 ∧
    Node.ing (s' "d/i2") ∉
      (seededQuery (fullSyncT wShared []).t (seedsOf bLeave) true).1 ∧
    (Node.ing (s' "d/i2"), Node.host (s' "c.local")) ∉ sSeeded.t ∧
    (Node.ing (s' "d/i2"), Node.sec (s' "d") (s' "tls1")) ∉ sSeeded.t ∧
    Node.host (s' "c.local") ∉ (seededQuery sSeeded.t [Node.sec (s' "d") (s' "tls1")] true).1 ∧
    Node.host (s' "c.local") ∉ (queryLinks sSeeded.t [Node.sec (s' "d") (s' "tls1")] true).1 := by
  decide +kernel

/-- the seeded closure still handles each single step: a rotation right after the full sync reaches both
readers, and the update of a reader reaches the Secret -/
example :
    Node.host (s' "c.local") ∈ (seededQuery (fullSyncT wShared []).t [Node.sec (s' "d") (s' "tls1")] true).1 ∧
    Node.host (s' "a.local") ∈ (seededQuery (fullSyncT wShared []).t [Node.sec (s' "d") (s' "tls1")] true).1 ∧
    Node.sec (s' "d") (s' "tls1") ∈ (seededQuery (fullSyncT wShared []).t (seedsOf bLeave) true).1 := by
  decide +kernel

/-- non-vacuity: `sGood` is reachable, `d/i2` declares the Secret there, the theorem applies -/
example : Node.host (s' "c.local") ∈ (queryLinks sGood.t [Node.sec (s' "d") (s' "tls1")] true).1 ∧
    Node.ing (s' "d/i2") ∈ (queryLinks sGood.t [Node.sec (s' "d") (s' "tls1")] true).1 :=
  rotation_reaches_all_readers (s := sGood) (.step bLeave (.full wShared [])) (i := ingC)
    (by decide +kernel) rfl (by decide +kernel)

/-- non-vacuity of the invariant and of the re-sync statement: the rotation after the first reader left
marks `c.local` dirty and reads `d/i2` again -/
example : Node.host (s' "c.local") ∈ dirtyOut sGood { ops := [.secPut ⟨s' "d", s' "tls1", true, 2⟩] } ∧
    ingC ∈ resyncList (sGood.w.applyAll [.secPut ⟨s' "d", s' "tls1", true, 2⟩]) []
      (dirtyOut sGood { ops := [.secPut ⟨s' "d", s' "tls1", true, 2⟩] }) := by
  have h := rotation_resyncs_all_readers (s := sGood) (.step bLeave (.full wShared []))
    { ops := [.secPut ⟨s' "d", s' "tls1", true, 2⟩] } (a := s' "d") (n := s' "tls1")
    (by decide +kernel) (i := ingC) (by decide +kernel) rfl (h := s' "c.local") (by decide +kernel)
  exact ⟨h.1, h.2 ingC (by decide +kernel) rfl rfl⟩

/-- the closure is not the whole cluster: the rotation of `d/tls2` does not touch `c.local` -/
example : Node.host (s' "c.local") ∉ (queryLinks sGood.t [Node.sec (s' "d") (s' "tls2")] true).1 ∧
    Node.host (s' "a.local") ∈ (queryLinks sGood.t [Node.sec (s' "d") (s' "tls2")] true).1 := by
  decide +kernel

end HapVerif.C15
