import HapVerif.Model.C18
namespace HapVerif.C18
end HapVerif.C18
