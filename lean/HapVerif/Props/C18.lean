import HapVerif.Lemmas.C18
import HapVerif.Drv.C18
import HapVerif.Generated.Facts
/-!
# C18 — external authentication fails closed: property theorems

Model: `HapVerif.C18.run v w hostOrder backendOrder` (Model/C18.lean) = `fullSyncAnnotations`
restricted to `buildHostAuthExternal`, `buildBackendAuthExternal`, `buildBackendOAuth` over the
abstract outcomes of the auth-url validation, sharing one auth-proxy bind list; `obsOf` = what the
rendered `http-request` rules do to one path.  The variant `v`: `vFound` is the code as first
found; `oauthOwn` = `buildBackendOAuth` with the precedence test on the path's own auth-url and
the deny restored (repo commit 4d834ab); `usedFront` = the clean-up of `setAuthExternal` keeps
the names of frontend placed paths (`/verif/.build/c18-fix-6.patch`).  The driver reads the
variant of the tree under test from the regenerated facts (`currentVariant`).
Spec: `pathOk` (Model/C18.lean).
-/
namespace HapVerif.C18

/-! ## the auth-proxy port allocator (`Frontend.AcquireAuthBackendName`) -/

/-- a successful answer is bound to the asked backend afterwards and nothing else changed; a
port that was not bound to it before is an unbound port of the configured range -/
theorem acquire_answer {bs bs' : List Bind} {rs re p : Int} {t : Nat} (hs : Sorted bs)
    (h : acquire bs rs re t = (some p, bs')) :
    ⟨p, t⟩ ∈ bs' ∧ (∀ b, b ∈ bs' ↔ b = ⟨p, t⟩ ∨ b ∈ bs) ∧ Sorted bs' ∧
    (⟨p, t⟩ ∈ bs ∨ (rs ≤ p ∧ p ≤ re ∧ p ∉ ports bs ∧ ∀ b ∈ bs, b.target ≠ t)) :=
  acquire_some hs h

/-- "auth proxy list is full" is answered exactly when the backend has no bind yet and every
port of the range is bound (in particular: always for an empty range) -/
theorem full_iff_exhausted {bs : List Bind} {rs re : Int} {t : Nat} (hs : Sorted bs) :
    (acquire bs rs re t).1 = none ↔
      (∀ b ∈ bs, b.target ≠ t) ∧ ∀ q, rs ≤ q → q ≤ re → q ∈ ports bs :=
  acquire_full_iff hs

/-- over every history of acquire / remove-except / remove-by-target / range change from the
empty list: no port is bound twice and no backend is bound twice -/
theorem ports_never_twice (rs re : Int) (ops : List AllocOp) :
    (ports (ops.foldl AllocState.step ⟨rs, re, []⟩).binds).Nodup ∧
    (targets (ops.foldl AllocState.step ⟨rs, re, []⟩).binds).Nodup :=
  ⟨sorted_ports_nodup (alloc_history_inv rs re ops).1, (alloc_history_inv rs re ops).2⟩

/-- non-vacuity: range of one port, two backends — the second one is refused -/
example : (acquire (acquire [] 14415 14415 1).2 14415 14415 2).1 = none := by decide
example : (acquire [] 14415 14414 1).1 = none := by decide
example : (acquire (acquire [] 14415 14416 1).2 14415 14416 2) = (some 14416, [⟨14415, 1⟩, ⟨14416, 2⟩]) := by decide

/-! ## scoping of the backend rules (`createPathConfig`, `PathIDs`) -/

/-- **scoped**: whatever records the paths of a backend carry, the id set that guards the rules
of a config item contains a path of that backend iff the item was built from that path's config -/
theorem rules_scoped (brec : Nat → AuthRec) (idxs : List Nat) {g : AuthRec × List Nat}
    (hg : g ∈ groupsOf brec idxs) {i : Nat} (hi : i ∈ idxs) : i ∈ g.2 ↔ g.1 = brec i :=
  group_scoped brec idxs hg hi

/-- hence the rules the backend section applies to a path id are exactly the rules of that
path's own record (with or without ACL) -/
theorem backend_rules_own (brec : Nat → AuthRec) (idxs : List Nat) {i : Nat} (hi : i ∈ idxs) :
    backendRules brec idxs i = rulesOf (brec i) :=
  backendRules_eq brec idxs hi

/-- non-vacuity: three paths, two configs -/
example : groupsOf (fun i => if i = 1 then { alwaysDeny := true } else {}) [0, 1, 2] =
    [({}, [0, 2]), ({ alwaysDeny := true }, [1])] := by decide +kernel

/-! ## every run: names on backend paths are backed by a bind to the path's own service -/

/-- for both variants, every host order, every backend order: the bind list is strictly sorted
and a backend-path record naming `_auth_<P>` belongs to a path with an auth-url whose backend
is what port `P` forwards to — clean-ups of an exhausted range never break this -/
theorem run_binds_back_records (v : Variant) (w : World) (ho bo : List Nat) :
    Sorted (run v w ho bo).binds ∧
    ∀ i P, ((run v w ho bo).brec i).name = .proxy P →
      ∃ p u, w.paths[i]? = some p ∧ p.url = .val u ∧ ⟨P, u.target⟩ ∈ (run v w ho bo).binds :=
  run_inv v w ho bo

/-! ## fail closed -/

/-- the property on the model: every path of every world, under every iteration order -/
def FailClosed (v : Variant) : Prop :=
  ∀ (w : World) (ho bo : List Nat) (i : Nat) (p : PathIn), bo.Nodup → w.paths[i]? = some p →
    p.backend ∈ bo →
    pathOk w (run v w ho bo).binds p (obsOf w (run v w ho bo) i) = true

/- Full-strength statement: `theorem fail_closed : FailClosed vBoth` (the current code).
   It does not hold (`fail_closed_fails` below: frontend placement); what is proved is the part
   that rests on the backend section: -/

/-- **fail closed, backend placement and oauth** (repaired `buildBackendOAuth`): a path that
declares an auth-url with backend placement, or oauth without an auth-url of its own, gets from
its backend section either `deny`, or the intercept through a port bound to the backend of its
own URL / through its oauth2-proxy backend with its own path, followed by deny-or-redirect unless
successful — for every validation outcome, port range, mix of other paths, hosts and backends,
and every iteration order.  Side condition: the path does not carry a non-empty auth-url with a
placement other than `backend`. -/
theorem fail_closed_partial (v : Variant) (hv : v.oauthOwn = true) (w : World) (ho bo : List Nat)
    (i : Nat) (p : PathIn)
    (hbo : bo.Nodup) (hp : w.paths[i]? = some p) (hmem : p.backend ∈ bo)
    (hside : ¬ (p.url.nonEmpty = true ∧ ownPlc p ≠ .backend)) :
    pathOk w (run v w ho bo).binds p (obsOf w (run v w ho bo) i) = true := by
  cases hd : declared p with
  | false => simp [pathOk, hd]
  | true =>
    obtain ⟨r1, hpost, hfin⟩ := run_brec (v := v) (ho := ho) hp hbo hmem
    rw [hv] at hfin
    obtain ⟨hs, hrec⟩ := run_inv v w ho bo
    have hrb : (obsOf w (run v w ho bo) i).rb = rulesOf (oauthRec true w p r1) := by
      unfold obsOf
      rw [hp]
      simp only
      rw [backendRules_eq _ _ (mem_backendIdxs.mpr ⟨p, hp, rfl⟩), hfin]
    have hcov := final_rules_covered (w := w) (binds := (run v w ho bo).binds) hs hpost
      (by
        intro P hn
        obtain ⟨p', u, hp', hu, hb⟩ := hrec i P (by rw [hfin]; exact hn)
        rw [hp] at hp'
        injection hp' with hp'
        subst hp'
        exact ⟨u, hu, hb⟩) hd hside
    simp only [pathOk, hrb, hcov, Bool.or_true, Bool.true_or]

/-- **fail closed, frontend placement, request equal to the path** (clean-up keeps frontend
names, `usedFront`): a path that declares an auth-url with frontend placement, on a host whose
host-level placement and auth-url are the path's own (no other ingress registered different
values first) and which `buildHostAuthExternal` visits, gets from the frontends — for the request
whose base equals the path — either `deny` or the intercept through a port bound to the backend
of its own URL, followed by deny-or-redirect unless successful; for every validation outcome,
port range, other paths/hosts/backends and iteration order.  For an exact path (`sub = key`) that
is every request of the path.  Side conditions on the rendered scope `-m str <match> '<key>'`:
no other path has the same key and no match word equals the key. -/
theorem fail_closed_frontend_partial (v : Variant) (hv : v.usedFront = true) (w : World)
    (ho bo : List Nat) (i : Nat) (p : PathIn) (u : Url)
    (hp : w.paths[i]? = some p) (hho : p.host ∈ ho)
    (hown : ownPlc p = .frontend) (hurl : p.url = .val u)
    (hplc : hostPlc w p.host = .frontend) (hhu : hostUrl w p.host = p.url)
    (hkeys : ∀ (j : Nat) (q : PathIn), w.paths[j]? = some q → j ≠ i → q.key ≠ p.key)
    (hham : ∀ (j : Nat) (q : PathIn), w.paths[j]? = some q → q.hamatch ≠ p.key) :
    covered (run v w ho bo).binds (wants w p) (obsOf w (run v w ho bo) i).r0 = true ∧
    (p.sub = p.key → pathOk w (run v w ho bo).binds p (obsOf w (run v w ho bo) i) = true) := by
  rw [hurl] at hhu
  obtain ⟨⟨hs, _⟩, hfrec⟩ := run_inv2 v w ho bo
  have hsome := run_frec_isSome (v := v) (bo := bo) hp hho hplc hhu
  cases hr : (run v w ho bo).frec i with
  | none => rw [hr] at hsome; cases hsome
  | some r =>
    obtain ⟨p', u', hp', _, hu', hshape⟩ := hfrec i r hr
    rw [hp] at hp'
    injection hp' with hp'
    subst hp'
    rw [hhu] at hu'
    injection hu' with hu'
    subst hu'
    have hr0 : (obsOf w (run v w ho bo) i).r0 = rulesOf r := by
      unfold obsOf
      rw [hp]
      exact frontRules_own hp hr hkeys hham
    have hcov : covered (run v w ho bo).binds (wants w p) (rulesOf r) = true := by
      rcases hshape with rfl | ⟨P, rfl, hres, hb⟩
      · simp [rulesOf, denyRec, covered]
      · have hw : Want.proxy u.target (normPath u.path) ∈ wants w p := by
          unfold wants
          rw [hurl]
          simp [placed, hown, hres]
        have hrules : rulesOf (okRec {} P u (hostSignin w p.host)) =
            [.icpt (.proxy P) (normPath u.path) "", .unless (hostSignin w p.host) ""] := by
          simp [rulesOf, okRec]
        rw [hrules]
        simp only [covered]
        rw [targetOf_of_mem hs (hb hv)]
        simpa using hw
    refine ⟨by rw [hr0]; exact hcov, ?_⟩
    intro hsub
    have hr1 : (obsOf w (run v w ho bo) i).r1 = (obsOf w (run v w ho bo) i).r0 := by
      unfold obsOf
      rw [hp]
      simp only [hsub]
    simp only [pathOk, hr1, hr0, hcov, Bool.and_self, Bool.or_true]

/-! ### witnesses -/

def uOk (target : Nat) (path : String) : Url :=
  { parseOk := true, proto := .http, isIP := true, dnsOk := true, hasPort := true, hasNs := true,
    nsOk := true, svcFound := true, target := target, path := path }

/-- `::malformed` -/
def uMalformed : Url := { uOk 0 "" with parseOk := false }

def mkPath (host backend : Nat) (key hamatch sub : String) (url : UrlAnn) (plc : Plc) (oauth : OAuthAnn) : PathIn :=
  { host := host, backend := backend, ord := host * 16 + backend, key := key, hamatch := hamatch, sub := sub,
    url := url, plc := plc, oauth := oauth, signin := false }

def oauthOk : OAuthAnn := .val true true "/oauth2" "default_oauth2proxy_8080"

def mkWorld (rs re : Int) (ps : List PathIn) : World :=
  { isExternal := false, hasLua := false, rangeStart := rs, rangeEnd := re, paths := ps }

/-- auth-url `::malformed`, placement backend, oauth oauth2_proxy (harness: `x0l0r2 0.0.0.b.mf.b.o.-,0.9.2.b.-.-.-.-`) -/
def wBadUrlOAuth : World :=
  mkWorld 14415 14416 [mkPath 0 0 "h0.local#/a" "beg" "h0.local#/a/sub" (.val uMalformed) .backend oauthOk]

/-- the same path without the oauth key -/
def wBadUrlOnly : World :=
  mkWorld 14415 14416 [mkPath 0 0 "h0.local#/a" "beg" "h0.local#/a/sub" (.val uMalformed) .backend .absent]

/-- an auth-url path and an oauth path of another ingress on one backend
(harness: `x0l0r2 0.0.0.b.h1.b.-.-,0.1.0.b.-.-.o.-,0.9.2.b.-.-.-.-`) -/
def wSharedBackend : World :=
  mkWorld 14415 14416
    [mkPath 0 0 "h0.local#/a" "beg" "h0.local#/a/sub" (.val (uOk 1 "/auth")) .backend .absent,
     { mkPath 0 0 "h0.local#/b" "beg" "h0.local#/b/sub" .absent .absent oauthOk with ord := 1 }]

/-- **`buildBackendOAuth` as found re-opens a path that a malformed auth-url had closed**: the
record ends `AlwaysDeny=false`, no name, no rule — while without the oauth key it is denied -/
theorem oauth_resets_deny :
    let st := run vFound wBadUrlOAuth [0] [0]
    st.brec 0 = {} ∧ (obsOf wBadUrlOAuth st 0).rb = [] ∧
    (oracle wBadUrlOAuth st.binds [obsOf wBadUrlOAuth st 0]) = some "oauth-resets-deny-after-bad-auth-url" ∧
    (obsOf wBadUrlOnly (run vFound wBadUrlOnly [0] [0]) 0).rb = [.deny] := by
  decide +kernel

/-- **the precedence test reads the backend-wide auth-url**: the oauth path of the second
ingress is left without any rule -/
theorem oauth_shared_backend_unprotected :
    let st := run vFound wSharedBackend [0] [0]
    (obsOf wSharedBackend st 1).rb = [] ∧
    oracle wSharedBackend st.binds [obsOf wSharedBackend st 0, obsOf wSharedBackend st 1]
      = some "oauth-shared-backend-unprotected" := by
  decide +kernel

/-- the full statement fails for the code as found -/
theorem fail_closed_old_fails : ¬ FailClosed vFound := by
  intro h
  have := h wBadUrlOAuth [0] [0] 0 _ (by decide) rfl (by decide)
  revert this
  decide +kernel

/-- the repaired variant protects both witnesses (deny, resp. oauth intercept) -/
theorem fixed_repairs_witnesses :
    (obsOf wBadUrlOAuth (run vOAuth wBadUrlOAuth [0] [0]) 0).rb = [.deny] ∧
    (obsOf wSharedBackend (run vOAuth wSharedBackend [0] [0]) 1).rb =
      [.icpt (.backend "default_oauth2proxy_8080") "/oauth2/auth" "/oauth2/", .unless true "/oauth2/"] ∧
    oracle wSharedBackend (run vOAuth wSharedBackend [0] [0]).binds
      [obsOf wSharedBackend (run vOAuth wSharedBackend [0] [0]) 0,
       obsOf wSharedBackend (run vOAuth wSharedBackend [0] [0]) 1] = none := by
  decide +kernel

/-! ### frontend placement: what keeps `FailClosed true` from holding -/

/-- one path, begin match, frontend placement (harness: `x0l0r2 0.0.0.b.h1.f.-.-`) -/
def wFrontBegin : World :=
  mkWorld 14415 14416 [mkPath 0 0 "h0.local#/a" "beg" "h0.local#/a/sub" (.val (uOk 1 "/auth")) .frontend .absent]

/-- the frontend rule is scoped by `{ var(req.base) -m str beg 'h0.local#/a' }`: `-m str` compares
the whole base with the words `beg` and the key, so a request below the path is not intercepted -/
theorem frontend_rule_misses_subpaths :
    let st := run vBoth wFrontBegin [0] [0]
    (obsOf wFrontBegin st 0).r0 = [.icpt (.proxy 14415) "/auth" "", .unless false ""] ∧
    (obsOf wFrontBegin st 0).r1 = [] ∧
    oracle wFrontBegin st.binds [obsOf wFrontBegin st 0] = some "frontend-rule-misses-subpath-requests" := by
  decide +kernel

/-- two ingresses on one host: the first fixes the host's placement, the frontend auth-url of
the second is dropped (harness: `x0l0r2 0.0.0.e.h1.b.-.-,0.1.1.e.h2.f.-.-`) -/
def wHostConflict : World :=
  mkWorld 14415 14416
    [mkPath 0 0 "h0.local#/a" "str" "h0.local#/a" (.val (uOk 1 "/auth")) .backend .absent,
     mkPath 0 1 "h0.local#/b" "str" "h0.local#/b" (.val (uOk 2 "/check")) .frontend .absent]

theorem frontend_placement_lost_on_host_conflict :
    let st := run vBoth wHostConflict [0] [0, 1]
    st.frec 1 = none ∧ st.brec 1 = {} ∧
    oracle wHostConflict st.binds [obsOf wHostConflict st 0, obsOf wHostConflict st 1]
      = some "frontend-placement-lost-on-host-conflict" := by
  decide +kernel

/-- one port; a frontend-placed path, then a backend-placed path with another service: the
clean-up does not count the frontend path's name, the port is handed to the other service
(harness: `x0l0r1 0.0.0.e.h1.f.-.-,1.1.1.e.h2.b.-.-`) -/
def wPortReassigned : World :=
  mkWorld 14415 14415
    [mkPath 0 0 "h0.local#/a" "str" "h0.local#/a" (.val (uOk 1 "/auth")) .frontend .absent,
     mkPath 1 1 "h1.local#/b" "str" "h1.local#/b" (.val (uOk 2 "/check")) .backend .absent]

theorem frontend_port_reassigned_before_fix :
    let st := run vOAuth wPortReassigned [0, 1] [0, 1]
    st.frec 0 = some { name := .proxy 14415, authPath := "/auth" } ∧ st.binds = [⟨14415, 2⟩] ∧
    st.cleaned = true ∧
    oracle wPortReassigned st.binds [obsOf wPortReassigned st 0, obsOf wPortReassigned st 1]
      = some "frontend-intercept-through-reassigned-auth-proxy-port" := by
  decide +kernel

/-- with the names of frontend placed paths kept by the clean-up (repo commit 48fd9df) the
frontend path keeps its port and service, and the backend path that finds the range full is denied -/
theorem frontend_port_kept :
    let st := run vBoth wPortReassigned [0, 1] [0, 1]
    st.binds = [⟨14415, 1⟩] ∧ st.brec 1 = { alwaysDeny := true } ∧
    oracle wPortReassigned st.binds [obsOf wPortReassigned st 0, obsOf wPortReassigned st 1] = none := by
  decide +kernel

/-- an auth-url whose placement is neither backend nor frontend configures nothing and still
takes precedence over the path's oauth (harness: `x0l0r2 0.0.0.b.h1.t.o.-,0.9.2.b.-.-.-.-`) -/
def wPlacementTypo : World :=
  mkWorld 14415 14416 [mkPath 0 0 "h0.local#/a" "beg" "h0.local#/a/sub" (.val (uOk 1 "/auth")) .other oauthOk]

theorem oauth_skipped_for_unplaced_auth_url :
    let st := run vBoth wPlacementTypo [0] [0]
    (obsOf wPlacementTypo st 0) = ⟨[], [], []⟩ ∧
    oracle wPlacementTypo st.binds [obsOf wPlacementTypo st 0]
      = some "oauth-skipped-for-auth-url-with-invalid-placement" := by
  decide +kernel

/-- the full statement fails for the current code too (frontend placement, begin/prefix path) -/
theorem fail_closed_fails : ¬ FailClosed vBoth := by
  intro h
  have := h wFrontBegin [0] [0] 0 _ (by decide) rfl (by decide)
  revert this
  decide +kernel

/-- non-vacuity of `fail_closed_partial`: a declared path that satisfies the side condition and
is intercepted through its own service; an exhausted range denies -/
example : let w := mkWorld 14415 14416 [mkPath 0 0 "h0.local#/a" "beg" "h0.local#/a/sub" (.val (uOk 1 "/auth")) .absent .absent]
    w.paths.all declared = true ∧
    (obsOf w (run vOAuth w [0] [0]) 0).rb = [.icpt (.proxy 14415) "/auth" "", .unless false ""] ∧
    (run vOAuth w [0] [0]).binds = [⟨14415, 1⟩] := by decide +kernel
example : let w := mkWorld 14415 14414 [mkPath 0 0 "h0.local#/a" "beg" "h0.local#/a/sub" (.val (uOk 1 "/auth")) .absent .absent]
    (obsOf w (run vOAuth w [0] [0]) 0).rb = [.deny] := by decide +kernel

/-- non-vacuity of `fail_closed_frontend_partial`: an exact path placed in the frontend -/
example : let w := mkWorld 14415 14416 [mkPath 0 0 "h0.local#/a" "str" "h0.local#/a" (.val (uOk 1 "/auth")) .frontend .absent]
    hostPlc w 0 = .frontend ∧ hostUrl w 0 = .val (uOk 1 "/auth") ∧
    obsOf w (run vBoth w [0] [0]) 0 =
      ⟨[], [.icpt (.proxy 14415) "/auth" "", .unless false ""], [.icpt (.proxy 14415) "/auth" "", .unless false ""]⟩ := by
  decide +kernel

/-! ## facts regenerated from the Go sources and the template -/

/-- `setAuthExternal` arms the deny first and clears it once, after the last early return; the
clean-up between the two acquire attempts uses `BuildUsedAuthBackends`, which reads backend paths
only; auth-url is built before oauth and hosts before backends; `buildBackendOAuth` is the
repaired variant of the model (own auth-url, deny restored) and the clean-up also keeps the
names read from `HostPath.AuthExt` (`currentVariant = vBoth`); the frontend scope condition is the one `frontCond` models; the allocator
compares what `scan`/`acquire` compare -/
theorem facts_c18 :
    Facts.c18SetAuthFirstStmt = "auth.AlwaysDeny = true" ∧
    Facts.c18SetAuthDenyAssigns = ["auth.AlwaysDeny = true", "auth.AlwaysDeny = false"] ∧
    Facts.c18SetAuthReturnsAfterClear = 0 ∧
    Facts.c18SetAuthCleanup = ["c.haproxy.Backends().BuildUsedAuthBackends()", "c.haproxy.Frontend().RemoveAuthBackendExcept(used)"] ∧
    Facts.c18UsedAuthReads = ["path.AuthExternal.AuthBackendName"] ∧
    Facts.c18BackendBuilderOrder = ["c.buildBackendAuthExternal", "c.buildBackendOAuth"] ∧
    Facts.c18FullSyncOrder = ["c.updater.UpdateHostConfig", "c.updater.UpdateBackendConfig"] ∧
    Facts.c18BackendAuthConds = ["config.Get(ingtypes.BackAuthExternalPlacement).ToLower() == \"backend\"", "url.Value != \"\""] ∧
    Facts.c18HostAuthConds = ["d.mapper.Get(ingtypes.BackAuthExternalPlacement).ToLower() == \"frontend\"", "url.Value != \"\""] ∧
    Facts.c18FrontCondFormat = ["{ var(req.base) -m str %s '%s' }"] ∧
    Facts.c18AcquireConds = ["bind.Backend == backend", "freePort == bind.LocalPort", "freePort > proxy.RangeEnd",
      "proxy.BindList[i].LocalPort < proxy.BindList[j].LocalPort"] ∧
    Facts.c18OAuthPrecedenceReads = "config" ∧
    Facts.c18OAuthPrecedenceAssigns = ["path.AuthExternal.AlwaysDeny = denied"] ∧
    Facts.c18OAuthDenyAssigns = ["path.AuthExternal.AlwaysDeny = true", "path.AuthExternal.AlwaysDeny = denied", "path.AuthExternal.AlwaysDeny = false"] ∧
    Facts.c18SetAuthUsedFrontReads = ["hpath.AuthExt.AuthBackendName"] ∧
    currentVariant = vBoth := by
  decide +kernel

end HapVerif.C18
