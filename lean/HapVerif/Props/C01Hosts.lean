import HapVerif.Model.C01Hosts
/-
C01, host store: the derived counter `sslPassthroughCount` always equals the number of ssl-passthrough
hosts among the CURRENT items — after any history of reconciliations (full or partial, any dirty sets, any
declarations), so `HasSSLPassthrough()` of a long-lived controller is the one a freshly started controller
computes from the same hosts. The two seeded variants of `Shrink` (re-acquire / release again) break it
(kernel-checked witnesses).
-/
namespace HapVerif.C01Hosts

def names (l : List Host) : List String := l.map (·.name)

/-- the invariant: the counter is the number of passthrough hosts, names are unique -/
structure Inv (s : St) : Prop where
  cnt : s.count = passCount s.items
  nd  : (names s.items).Nodup

theorem find_none_iff (l : List Host) (n : String) : find l n = none ↔ n ∉ names l := by
  unfold find names
  rw [List.find?_eq_none]
  simp

theorem find_some_mem {l : List Host} {n : String} {h : Host} (e : find l n = some h) : h ∈ l ∧ h.name = n := by
  unfold find at e
  have := List.find?_some e
  have hm := List.mem_of_find?_eq_some e
  simp at this
  exact ⟨hm, this⟩

theorem passCount_append (a b : List Host) : passCount (a ++ b) = passCount a + passCount b := by
  unfold passCount; simp [List.filter_append]

theorem passCount_cons (x : Host) (l : List Host) :
    passCount (x :: l) = (if x.pass then 1 else 0) + passCount l := by
  unfold passCount
  by_cases h : x.pass <;> simp [h] <;> omega

/-- updating the entries named `n` of a list in which nobody is named `n` changes nothing -/
theorem map_upd_of_not_mem (l : List Host) (n : String) (f : Host → Host) (h : n ∉ names l) :
    l.map (fun x => if x.name = n then f x else x) = l := by
  induction l with
  | nil => rfl
  | cons x xs ih =>
    simp [names] at h
    have hx : ¬ x.name = n := fun e => h.1 e.symm
    simp [hx]
    apply ih
    simp [names]; exact h.2

theorem names_map_upd (l : List Host) (n : String) (f : Host → Host) (hf : ∀ x, (f x).name = x.name) :
    names (l.map (fun x => if x.name = n then f x else x)) = names l := by
  unfold names
  rw [List.map_map]
  apply List.map_congr_left
  intro x _
  simp only [Function.comp]
  split <;> simp [hf]

/-- setting the flag of the (unique) host named `n` -/
theorem passCount_setFlag (l : List Host) (n : String) (v : Bool) (h : Host) (nd : (names l).Nodup)
    (hm : h ∈ l) (hn : h.name = n) :
    passCount (l.map (fun x => if x.name = n then { x with pass := v } else x)) =
      passCount l - (if h.pass then 1 else 0) + (if v then 1 else 0) := by
  induction l with
  | nil => cases hm
  | cons x xs ih =>
    have ndc : x.name ∉ names xs ∧ (names xs).Nodup := by simpa [names] using nd
    by_cases hx : x.name = n
    · -- x is the host; nobody else is named n
      have hnot : n ∉ names xs := hx ▸ ndc.1
      have hxh : h = x := by
        rcases List.mem_cons.mp hm with e | e
        · exact e
        · exfalso; apply hnot; rw [← hn]; exact List.mem_map_of_mem e
      subst hxh
      rw [List.map_cons, map_upd_of_not_mem xs n _ hnot]
      simp only [hx, if_true]
      rw [passCount_cons, passCount_cons]
      cases h.pass <;> cases v <;> simp <;> omega
    · have hm' : h ∈ xs := by
        rcases List.mem_cons.mp hm with e | e
        · exact absurd (e ▸ hn) hx
        · exact e
      rw [List.map_cons]
      simp only [hx, if_false]
      rw [passCount_cons, passCount_cons, ih ndc.2 hm']
      omega

theorem passCount_setOther (l : List Host) (n : String) (k : Nat) :
    passCount (l.map (fun x => if x.name = n then { x with other := k } else x)) = passCount l := by
  induction l with
  | nil => rfl
  | cons x xs ih =>
    rw [List.map_cons, passCount_cons, passCount_cons, ih]
    by_cases hx : x.name = n <;> simp [hx]

theorem passCount_filter_name (l : List Host) (n : String) (h : Host) (nd : (names l).Nodup)
    (hm : h ∈ l) (hn : h.name = n) :
    passCount (l.filter (·.name ≠ n)) = passCount l - (if h.pass then 1 else 0) := by
  induction l with
  | nil => cases hm
  | cons x xs ih =>
    have ndc : x.name ∉ names xs ∧ (names xs).Nodup := by simpa [names] using nd
    by_cases hx : x.name = n
    · have hnot : n ∉ names xs := hx ▸ ndc.1
      have hxh : h = x := by
        rcases List.mem_cons.mp hm with e | e
        · exact e
        · exfalso; apply hnot; rw [← hn]; exact List.mem_map_of_mem e
      subst hxh
      have hall : xs.filter (fun x => !decide (x.name = n)) = xs := by
        apply List.filter_eq_self.mpr
        intro y hy
        simp
        intro e
        exact hnot (e ▸ List.mem_map_of_mem hy)
      simp only [List.filter_cons, ne_eq, hx, not_true_eq_false, decide_false, Bool.false_eq_true, if_false,
        decide_not, passCount_cons]
      rw [hall]
      cases h.pass <;> simp <;> omega
    · have hm' : h ∈ xs := by
        rcases List.mem_cons.mp hm with e | e
        · exact absurd (e ▸ hn) hx
        · exact e
      simp only [List.filter_cons, ne_eq, hx, not_false_eq_true, decide_true, if_true]
      rw [passCount_cons, passCount_cons, ih ndc.2 hm']
      omega

theorem names_filter_nodup (l : List Host) (p : Host → Bool) (nd : (names l).Nodup) : (names (l.filter p)).Nodup := by
  unfold names at *
  exact (List.filter_sublist.map _).nodup nd

/-! ### every operation keeps the invariant -/

theorem acquire_inv {s : St} (h : Inv s) (n : String) : Inv (acquire s n) := by
  unfold acquire
  split
  · exact h
  · rename_i e
    have hn := (find_none_iff _ _).mp e
    constructor
    · simp only [passCount_append, ← h.cnt]
      simp [passCount]
    · have : names (s.items ++ [⟨n, false, 0⟩]) = names s.items ++ [n] := by simp [names]
      rw [this]
      exact List.nodup_append.mpr ⟨h.nd, by simp, by
        intro a ha b hb
        simp at hb
        subst hb
        intro e2; subst e2; exact hn ha⟩

theorem setPass_inv {s : St} (h : Inv s) (n : String) (v : Bool) : Inv (setPass s n v) := by
  unfold setPass
  split
  · exact h
  · rename_i x e
    obtain ⟨hm, hn⟩ := find_some_mem e
    by_cases hp : x.pass = v
    · simp [hp]; exact h
    · simp only [hp, if_false]
      constructor
      · show (if v = true then s.count + 1 else s.count - 1) = _
        rw [passCount_setFlag s.items n v x h.nd hm hn, ← h.cnt]
        cases hx : x.pass <;> cases v <;> simp_all <;> omega
      · show (names (s.items.map _)).Nodup
        rw [names_map_upd s.items n (fun x => { x with pass := v }) (fun _ => rfl)]
        exact h.nd

theorem setOther_inv {s : St} (h : Inv s) (n : String) (k : Nat) : Inv (setOther s n k) := by
  unfold setOther
  constructor
  · show s.count = passCount (s.items.map _)
    rw [passCount_setOther]; exact h.cnt
  · show (names (s.items.map _)).Nodup
    rw [names_map_upd s.items n (fun x => { x with other := k }) (fun _ => rfl)]; exact h.nd

theorem declare_inv {s : St} (h : Inv s) (d : Decl) : Inv (declare s d) :=
  setOther_inv (setPass_inv (acquire_inv h _) _ _) _ _

theorem removeOne_inv {s : St} (h : Inv s) (n : String) : Inv (removeOne s n) := by
  unfold removeOne
  split
  · exact h
  · rename_i x e
    obtain ⟨hm, hn⟩ := find_some_mem e
    constructor
    · show release s.count x = passCount (s.items.filter _)
      rw [passCount_filter_name s.items n x h.nd hm hn, ← h.cnt]
      unfold release
      cases x.pass <;> simp
    · exact names_filter_nodup _ _ h.nd

theorem removeAll_inv {s : St} (h : Inv s) (ns : List String) : Inv (removeAll s ns) := by
  unfold removeAll
  induction ns generalizing s with
  | nil => exact h
  | cons n ns ih => exact ih (removeOne_inv h n)

/-- replacing the host named like `d` by `d` itself when it already EQUALS `d` changes nothing -/
theorem map_replace_eq (l : List Host) (d : Host) (nd : (names l).Nodup) (a : Host)
    (hm : a ∈ l) (hn : a.name = d.name) (e : a = d) :
    l.map (fun x => if x.name = d.name then d else x) = l := by
  subst e
  induction l with
  | nil => rfl
  | cons x xs ih =>
    have ndc : x.name ∉ names xs ∧ (names xs).Nodup := by simpa [names] using nd
    by_cases hx : x.name = a.name
    · have hnot : a.name ∉ names xs := hx ▸ ndc.1
      have hxa : a = x := by
        rcases List.mem_cons.mp hm with e | e
        · exact e
        · exfalso; exact hnot (List.mem_map_of_mem e)
      subst hxa
      rw [List.map_cons]
      simp only [if_true]
      congr 1
      exact map_upd_of_not_mem xs a.name (fun _ => a) hnot
    · have hm' : a ∈ xs := by
        rcases List.mem_cons.mp hm with e | e
        · exact absurd (e ▸ rfl) hx
        · exact e
      rw [List.map_cons]
      simp only [hx, if_false]
      congr 1
      exact ih ndc.2 hm'

theorem shrinkOne_inv {s : St} (h : Inv s) (d : Host) : Inv (shrinkOne .current s d) := by
  unfold shrinkOne
  split
  · split
    · rename_i a e
      obtain ⟨hm, hn⟩ := find_some_mem e
      split
      · rename_i hd
        have := map_replace_eq s.items d h.nd a hm hn hd
        constructor
        · show s.count = passCount (s.items.map _)
          rw [this]; exact h.cnt
        · show (names (s.items.map _)).Nodup
          rw [this]; exact h.nd
      · exact h
    · exact h
  · exact h

theorem shrink_inv {s : St} (h : Inv s) : Inv (shrink .current s) := by
  unfold shrink
  generalize s.del = l
  induction l generalizing s with
  | nil => exact h
  | cons d ds ih => exact ih (shrinkOne_inv h d)

theorem commit_inv {s : St} (h : Inv s) : Inv (commit s) := ⟨h.cnt, h.nd⟩

theorem clear_inv : Inv clear := ⟨by simp [clear, passCount], by simp [clear, names]⟩

theorem decls_inv {s : St} (h : Inv s) (ds : List Decl) : Inv (ds.foldl declare s) := by
  induction ds generalizing s with
  | nil => exact h
  | cons d ds ih => exact ih (declare_inv h d)

theorem cycle_inv {s : St} (h : Inv s) (c : Cycle) : Inv (cycle .current s c) := by
  unfold cycle
  apply commit_inv
  apply shrink_inv
  apply decls_inv
  split
  · exact clear_inv
  · exact removeAll_inv h _

/-- **passthrough_count_exact**: after ANY history of reconciliations (full or partial, any dirty sets, any
    declarations, hosts re-parsed unchanged or changed) the counter is the number of ssl-passthrough hosts
    among the current items. -/
theorem passthrough_count_exact (cs : List Cycle) : Inv (run .current cs) := by
  unfold run
  have : ∀ (s : St), Inv s → Inv (cs.foldl (cycle .current) s) := by
    induction cs with
    | nil => intro s h; exact h
    | cons c cs ih => intro s h; exact ih _ (cycle_inv h c)
  exact this {} ⟨by simp [passCount], by simp [names]⟩

/-- what the templates read is what a controller started on the same hosts reads -/
theorem has_passthrough_iff (cs : List Cycle) :
    hasPass (run .current cs) = (run .current cs).items.any (·.pass) := by
  have h := passthrough_count_exact cs
  unfold hasPass
  rw [h.cnt]
  unfold passCount
  generalize (run .current cs).items = l
  induction l with
  | nil => simp
  | cons x xs ih =>
    by_cases hx : x.pass
    · simp [hx]
    · simp [hx] at ih ⊢
      exact ih

/-- the Spec evaluated on the model itself never fails -/
theorem oracle_model (cs : List Cycle) :
    oracle (hasPass (run .current cs)) (run .current cs).items = none := by
  unfold oracle
  rw [has_passthrough_iff]
  simp

/-! ### non-vacuity and the seeded variants -/

def hP : Decl := ⟨"a.local", true, 1⟩
def hQ : Decl := ⟨"b.local", false, 2⟩
/-- full sync with a passthrough host; the host is re-parsed unchanged (endpoints event); the host goes away -/
def hist : List Cycle :=
  [⟨true, [], [hP, hQ]⟩, ⟨false, ["a.local"], [hP]⟩, ⟨false, ["a.local"], []⟩]

example : (run .current hist).items = [⟨"b.local", false, 2⟩] ∧ hasPass (run .current hist) = false := by decide
example : hasPass (run .current (hist.take 2)) = true ∧ (run .current (hist.take 2)).items.length = 2 := by decide

/-- seed C01d (Shrink re-acquires the restored host): the flag stays on after the last passthrough host left -/
theorem reacquire_overcounts :
    hasPass (run .reacquire hist) = true ∧ (run .reacquire hist).items.any (·.pass) = false := by decide

/-- seed C07c (Shrink releases the restored host again): the flag is off while a passthrough host exists -/
theorem rerelease_undercounts :
    hasPass (run .rerelease (hist.take 2)) = false ∧ (run .rerelease (hist.take 2)).items.any (·.pass) = true := by
  decide

end HapVerif.C01Hosts
