import HapVerif.Lemmas.C18
/-!
# C07 (part): internal auth-proxy ports are not allocated twice

Re-export of the allocator lemmas proved for C18 (`HapVerif.C18`, Model/C18.lean `scan`, `acquire`,
`removeExcept`, `removeByTarget` = `Frontend.AcquireAuthBackendName`, `RemoveAuthBackendExcept`,
`RemoveAuthBackendByTarget` of pkg/haproxy/types/frontend.go; tied to the Go code by the
`C18 alloc ...` correspondence cases of harness/cmd/hv/c18.go).
-/
namespace HapVerif.C07
open HapVerif.C18

/-- `auth_ports_nodup ∧ within range`, one call: on a strictly sorted bind list a successful
`AcquireAuthBackendName` either repeats the bind the backend already has or hands out a port of
`[RangeStart, RangeEnd]` that no bind uses; the other binds are untouched and the list stays sorted -/
theorem auth_port_fresh_in_range {bs bs' : List Bind} {rs re p : Int} {t : Nat} (hs : Sorted bs)
    (h : acquire bs rs re t = (some p, bs')) :
    ⟨p, t⟩ ∈ bs' ∧ (∀ b, b ∈ bs' ↔ b = ⟨p, t⟩ ∨ b ∈ bs) ∧ Sorted bs' ∧
    (⟨p, t⟩ ∈ bs ∨ (rs ≤ p ∧ p ≤ re ∧ p ∉ ports bs ∧ ∀ b ∈ bs, b.target ≠ t)) :=
  acquire_some hs h

/-- the error "auth proxy list is full" exactly when the range is exhausted (and the backend has
no bind yet) -/
theorem auth_list_full_iff_exhausted {bs : List Bind} {rs re : Int} {t : Nat} (hs : Sorted bs) :
    (acquire bs rs re t).1 = none ↔
      (∀ b ∈ bs, b.target ≠ t) ∧ ∀ q, rs ≤ q → q ≤ re → q ∈ ports bs :=
  acquire_full_iff hs

/-- over every history of acquire / remove-except / remove-by-target / range change starting
from the empty list: the list is strictly sorted by port — no port is bound twice (hence no
duplicated `bind 127.0.0.1:<port>` / `backend _auth_<port>` section) — and no backend is bound twice -/
theorem auth_ports_nodup (rs re : Int) (ops : List AllocOp) :
    Sorted (ops.foldl AllocState.step ⟨rs, re, []⟩).binds ∧
    (ports (ops.foldl AllocState.step ⟨rs, re, []⟩).binds).Nodup ∧
    (targets (ops.foldl AllocState.step ⟨rs, re, []⟩).binds).Nodup :=
  ⟨(alloc_history_inv rs re ops).1, sorted_ports_nodup (alloc_history_inv rs re ops).1,
   (alloc_history_inv rs re ops).2⟩

/-- a sorted list binds a port to one backend only -/
theorem auth_port_one_backend {bs : List Bind} (h : Sorted bs) {a b : Bind}
    (ha : a ∈ bs) (hb : b ∈ bs) (hp : a.port = b.port) : a = b :=
  sorted_functional h ha hb hp

/-- non-vacuity: two backends on a range of two ports, a third one is refused -/
example : (acquire [⟨14415, 1⟩, ⟨14416, 2⟩] 14415 14416 3).1 = none := by decide

end HapVerif.C07
