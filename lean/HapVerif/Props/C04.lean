import HapVerif.Model.C04
namespace HapVerif.C04
end HapVerif.C04
