import HapVerif.Model.C04
import HapVerif.Generated.Facts
/-!
# C04 — path precedence in generated maps

Model: `HapVerif.C04.rebuild` (maps.go `rebuildMatchFiles` for filter-less exact/prefix/begin
entries) and `lookupFiles` (HAProxy `map_str/map_beg/map_dir`, first answering file wins).
Spec: `best` — an exact rule equal to the path, else the longest declared path among the rules
that match by their own type.
-/
namespace HapVerif.C04

def r (h p : String) (mt : MT) (t : Nat) : Rule := ⟨h.toList, p.toList, mt, t⟩

/-- all requests of a finite list are answered as the property demands -/
def allOk (rules : List Rule) (fs : List MFile) (reqs : List (String × String)) : Bool :=
  reqs.all fun (h, p) => (checkReq rules fs h.toList p.toList).isNone

/-! ### Witnesses of the two repaired defects (replayed on the Go code before the repairs) -/

def caseRules : List Rule := [r "h" "/app/sub" .beg 0, r "h" "/App" .pfx 1]

/-- before the case repair `/App/sub/x` was answered by the shorter `/App` with the default order -/
theorem before_case_fix_violates :
    checkReq caseRules (rebuildV beforeCaseFix [.exact, .pfx, .beg] (entriesOf caseRules) ["h".toList])
      "h".toList "/App/sub/x".toList = some "shorter-path-wins" := by decide +kernel

theorem after_case_fix_ok :
    checkReq caseRules (rebuild [.exact, .pfx, .beg] (entriesOf caseRules) ["h".toList])
      "h".toList "/App/sub/x".toList = none := by decide +kernel

def upperRules : List Rule :=
  [r "h" "/z/q" .pfx 0, r "h" "/z" .beg 1, r "h" "/a/x/y" .beg 2, r "h" "/a/x" .pfx 3,
   r "h" "/a/b" .pfx 4, r "h" "/a" .beg 5, r "h" "/" .pfx 6]

/-- before the `_upper` repair `/a/x/foo` was answered by `/a` instead of `/a/x` -/
theorem before_upper_fix_violates :
    checkReq upperRules (rebuildV beforeUpperFix [.exact, .pfx, .beg] (entriesOf upperRules) ["h".toList])
      "h".toList "/a/x/foo".toList = some "shorter-path-wins" := by decide +kernel

theorem after_upper_fix_ok :
    checkReq upperRules (rebuild [.exact, .pfx, .beg] (entriesOf upperRules) ["h".toList])
      "h".toList "/a/x/foo".toList = none := by decide +kernel

/-- regenerated from the Go source: the key separator is `#` (not a path or host character) and the
default host name cannot collide with a DNS name -/
theorem facts_c04 : Facts.c04KeySeparator = "#" ∧ Facts.c04DefaultHost = "<default>" := by decide

end HapVerif.C04
