import HapVerif.Model.C04
import HapVerif.Generated.Facts
import HapVerif.Lemmas.C04Final
/-!
# C04 — path precedence in generated maps

Model: `HapVerif.C04.rebuild` (maps.go `rebuildMatchFiles` for filter-less exact/prefix/begin
entries) and `lookupFiles` (HAProxy `map_str/map_beg/map_dir`, first answering file wins).
Spec: `best` — an exact rule equal to the path, else the longest declared path among the rules
that match by their own type.

Theorems (all rule lists of any length, all hosts, all admissible host iteration orders, all six
path-type orders; proofs in `Lemmas/C04*.lean`, core Lean only):

* T1 `dir_key`, `no_cross_host`, `no_cross_host_file` — a key `host#path` never matches the sample
  of another host under `str`, `beg` or `dir`; on one host `dir` is `dirPrefix`.
* T2 `lookup_of_wellordered` — `WellOrdered` layout holding exactly the entries ⇒ `checkReq = none`.
* T3 `rebuild_wellordered` — the current code builds a `WellOrdered` permutation of the entries.
* T4 `lookup_spec`, `lookup_perm`.

Hypotheses `WF rules`, `WFReq host path` (decidable, `Lemmas/C04Layout.lean`): hosts non-empty
without `/` and `#`; declared paths start with `/`, contain no `#` and no empty segment (`//`);
the request host has no `/`, `#`, the request path starts with `/` and has no `#`.  Not needed
and therefore not assumed: lower-case hosts, ASCII, absence of duplicate rules (a duplicate has the
same declared length, so `best` leaves the choice open), `//` in the request path.

Full-strength statement (FALSE for the code as it is, see `double_slash_*` below):
  `∀ rules π mo h p, hosts/paths as above but paths may contain "//" →
     checkReq rules (rebuild mo (entriesOf rules) π) h p = none`.
HAProxy's `map_dir` strips every trailing `/` of a pattern, maps.go compares the declared strings,
so a prefix path that ends in two or more `/` is neither ordered nor sorted as what it matches.
-/
namespace HapVerif.C04

def r (h p : String) (mt : MT) (t : Nat) : Rule := ⟨h.toList, p.toList, mt, t⟩

/-- all requests of a finite list are answered as the property demands -/
def allOk (rules : List Rule) (fs : List MFile) (reqs : List (String × String)) : Bool :=
  reqs.all fun (h, p) => (checkReq rules fs h.toList p.toList).isNone

/-! ### Witnesses of the two repaired defects (replayed on the Go code before the repairs) -/

def caseRules : List Rule := [r "h" "/app/sub" .beg 0, r "h" "/App" .pfx 1]

/-- before the case repair `/App/sub/x` was answered by the shorter `/App` with the default order -/
theorem before_case_fix_violates :
    checkReq caseRules (rebuildV beforeCaseFix [.exact, .pfx, .beg] (entriesOf caseRules) ["h".toList])
      "h".toList "/App/sub/x".toList = some "shorter-path-wins" := by decide +kernel

theorem after_case_fix_ok :
    checkReq caseRules (rebuild [.exact, .pfx, .beg] (entriesOf caseRules) ["h".toList])
      "h".toList "/App/sub/x".toList = none := by decide +kernel

def upperRules : List Rule :=
  [r "h" "/z/q" .pfx 0, r "h" "/z" .beg 1, r "h" "/a/x/y" .beg 2, r "h" "/a/x" .pfx 3,
   r "h" "/a/b" .pfx 4, r "h" "/a" .beg 5, r "h" "/" .pfx 6]

/-- before the `_upper` repair `/a/x/foo` was answered by `/a` instead of `/a/x` -/
theorem before_upper_fix_violates :
    checkReq upperRules (rebuildV beforeUpperFix [.exact, .pfx, .beg] (entriesOf upperRules) ["h".toList])
      "h".toList "/a/x/foo".toList = some "shorter-path-wins" := by decide +kernel

theorem after_upper_fix_ok :
    checkReq upperRules (rebuild [.exact, .pfx, .beg] (entriesOf upperRules) ["h".toList])
      "h".toList "/a/x/foo".toList = none := by decide +kernel

/-! ### Witnesses outside the hypothesis `WF`: a prefix path that ends in `//` (genuine defect of the
code, replayed on the Go code: `bin/check C04 --replay` on the three lines below) -/

def dblRules1 : List Rule := [r "h" "/a//" .pfx 0, r "h" "/a/xy" .beg 1]
def dblRules2 : List Rule := [r "h" "/a//" .pfx 0, r "h" "/a/+x" .pfx 1]
def dblRules3 : List Rule := [r "h" "/a///" .pfx 0, r "h" "/a/b" .pfx 1]

/-- `C04 maps EPB h|/a//|P|0,h|/a/xy|B|1`: `/a//` (4 chars) is not a prefix of `/a/xy`, so no priority
file is made, and `map_dir` answers `/a/xy` with the shorter rule -/
theorem double_slash_cross_type :
    WF dblRules1 = false ∧
    checkReq dblRules1 (rebuild [.exact, .pfx, .beg] (entriesOf dblRules1) ["h".toList])
      "h".toList "/a/xy".toList = some "shorter-path-wins" := by decide +kernel

/-- `C04 maps EPB h|/a//|P|0,h|/a/+x|P|1`: inside one `dir` file `/a//` sorts before `/a/+x` -/
theorem double_slash_same_file :
    WF dblRules2 = false ∧
    checkReq dblRules2 (rebuild [.exact, .pfx, .beg] (entriesOf dblRules2) ["h".toList])
      "h".toList "/a/+x".toList = some "shorter-path-wins" := by decide +kernel

/-- `C04 maps EPB h|/a///|P|0,h|/a/b|P|1`: the declared-longest `/a///` loses against `/a/b` -/
theorem double_slash_declared_longest :
    WF dblRules3 = false ∧
    checkReq dblRules3 (rebuild [.exact, .pfx, .beg] (entriesOf dblRules3) ["h".toList])
      "h".toList "/a/b".toList = some "shorter-path-wins" := by decide +kernel

/-! ## T1 — no capture across hosts -/

/-- HAProxy's `dir` match on `host#path` keys is host equality and the directory-prefix test -/
theorem dir_key {h p H q : Str} (hne : h ≠ []) (hs : '/' ∉ h) (hh : '#' ∉ h)
    (hH : '#' ∉ H) (hHs : '/' ∉ H) (hq : '#' ∉ q) :
    wordMatch (h ++ '#' :: p) (H ++ '#' :: q) = (decide (h = H) && dirPrefix p q) :=
  wordMatch_key hne hs hh hH hHs hq

example : wordMatch "h#/a/".toList "h#/a/x".toList = true ∧ wordMatch "h#/a".toList "h#/ab".toList = false ∧
    wordMatch "g#/a".toList "h#/a".toList = false := by decide +kernel

theorem reqOK_of_WFReq {h q : Str} (rq : WFReq h q = true) :
    '#' ∉ lower h ∧ '/' ∉ lower h ∧ '#' ∉ q := by
  simp only [WFReq, Bool.and_eq_true, Bool.not_eq_true', List.contains_eq_mem,
    decide_eq_false_iff_not] at rq
  exact ⟨fun x => rq.1.1.2 (mem_lower_hash.1 x), fun x => rq.1.1.1 (mem_lower_slash.1 x), rq.2⟩

/-- **T1**: an entry of another host matches the sample of a request under no method
(`str` equality, `dir` word match, `beg` prefix of the lower-cased sample) -/
theorem no_cross_host {rules : List Rule} (wf : WF rules = true) {h q : Str} (rq : WFReq h q = true)
    {e : Entry} (he : e ∈ entriesOf rules) (hne : e.host ≠ lower h) :
    e.key ≠ sampleOf h q ∧ wordMatch e.key (sampleOf h q) = false ∧
      e.key.isPrefixOf (lower (sampleOf h q)) = false := by
  obtain ⟨r1, r2, r3⟩ := reqOK_of_WFReq rq
  have ok := entriesOf_ok wf e he
  have key : ∀ t, entMatch t e (sampleOf h q) = false := by
    intro t
    unfold sampleOf
    rw [entMatch_key ok r1 r2 (lower_idem h) r3]
    simp [hne]
  exact ⟨by simpa [entMatch] using key .exact, by simpa [entMatch] using key .pfx,
    by simpa [entMatch] using key .beg⟩

/-- a file that only holds entries of other hosts does not answer -/
theorem no_cross_host_file {rules : List Rule} (wf : WF rules = true) {h q : Str}
    (rq : WFReq h q = true) (t : MT) (E : List Entry)
    (hE : ∀ e ∈ E, e ∈ entriesOf rules ∧ e.host ≠ lower h) :
    lookupFile (mkFile t E) (sampleOf h q) = none := by
  rw [lookupFile_none]
  intro e he
  obtain ⟨h1, h2, h3⟩ := no_cross_host wf rq (hE e he).1 (hE e he).2
  cases t
  · simpa [entMatch] using h1
  · simpa [entMatch] using h2
  · simpa [entMatch] using h3

def twoHosts : List Rule :=
  [r "a.local" "/app" .pfx 0, r "b.local" "/" .beg 1, r "b.local" "/app/x" .exact 2, r "a.local" "/App/Sub" .beg 3]

example : WF twoHosts = true ∧ WFReq "A.local".toList "/app/x".toList = true ∧
    (∃ e ∈ entriesOf twoHosts, e.host ≠ lower "A.local".toList) := by decide +kernel

/-! ## T2 — a well-ordered layout answers as the property demands -/

/-- **T2**.  `WellOrdered` (see `Lemmas/C04Layout.lean`): entries sit in files of their own type;
only the first file may be an exact file; for same-host non-exact entries, `e1` properly extending
`e2` (folded paths) implies `file e1 ≤ file e2` — strictly before when the types differ
(`WellOrdered.strict`).  The same-type clause cannot be dropped: `[pfx{/a}]; [pfx{/a/b}]` answers
`/a/b/c` with `/a`.  The descending order inside a `dir` file is not a hypothesis: it is produced
by `mkFile` (`fileLt` is a strict order, `sortBy` sorts) and proved in `Lemmas/C04Sort.lean`.
Ties (equal declared length) stay open exactly as in `best`. -/
theorem lookup_of_wellordered {rules : List Rule} {l : Layout} {h q : Str}
    (wf : WF rules = true) (rq : WFReq h q = true) (wo : WellOrdered l)
    (cov : ∀ e, e ∈ l.flatMap (·.entries) ↔ e ∈ entriesOf rules) :
    checkReq rules (emit l) h q = none :=
  checkReq_of_wellordered wf rq wo cov

/-! ## T3 — the current code builds a well-ordered layout -/

/-- **T3**: for every admissible host iteration order and every permutation of the three path
types, `rebuild` is the emission of a `WellOrdered` layout that is a permutation of the entries
(every entry in exactly one file, once) -/
theorem rebuild_wellordered (rules : List Rule) {π : List Str}
    (hπ : HostOrderOK (entriesOf rules) π) {mo : List MT} (hmo : mo.Perm [.exact, .pfx, .beg]) :
    rebuild mo (entriesOf rules) π = emit (layoutV current mo (entriesOf rules) π) ∧
    WellOrdered (layoutV current mo (entriesOf rules) π) ∧
    ((layoutV current mo (entriesOf rules) π).flatMap (·.entries)).Perm (entriesOf rules) :=
  ⟨rebuildV_eq_emit _ _ _ _, layout_wellordered (entriesOf_esOK rules) hπ.1 hπ.2 hmo⟩

/-- Go's map iteration: any permutation of the hosts is admissible -/
theorem hostOrder_of_perm {rules : List Rule} {π : List Str}
    (h : π.Perm (hostsOf (entriesOf rules))) : HostOrderOK (entriesOf rules) π :=
  hostOrderOK_of_perm h

example : HostOrderOK (entriesOf twoHosts) ["b.local".toList, "a.local".toList] :=
  hostOrder_of_perm (by decide +kernel)

/-- the invariant is not vacuous: priority files exist and are ordered on the 7-rule set that
broke the code before the `_upper` repair -/
example : (layoutV current [.exact, .pfx, .beg] (entriesOf upperRules) ["h".toList]).length = 5 ∧
    WellOrdered (layoutV current [.exact, .pfx, .beg] (entriesOf upperRules) ["h".toList]) :=
  ⟨by decide +kernel,
   (rebuild_wellordered upperRules (hostOrder_of_perm (by decide +kernel)) (List.Perm.refl _)).2.1⟩

/-- T2 applied to that layout (hypotheses are satisfiable, conclusion is about a real lookup) -/
example : checkReq upperRules (emit (layoutV current [.exact, .pfx, .beg] (entriesOf upperRules) ["h".toList]))
    "H".toList "/a/x/foo".toList = none :=
  have t3 := rebuild_wellordered upperRules (π := ["h".toList]) (hostOrder_of_perm (by decide +kernel))
    (List.Perm.refl [MT.exact, MT.pfx, MT.beg])
  lookup_of_wellordered (by decide +kernel) (by decide +kernel) t3.2.1 (fun _ => t3.2.2.mem_iff)

/-! ## T4 — the property -/

/-- **T4**: every request is answered by an exact rule equal to the path if there is one, otherwise
by a matching rule of maximal declared length; no answer iff no rule matches; never by a rule of
another host -/
theorem lookup_spec {rules : List Rule} (wf : WF rules = true) {π : List Str}
    (hπ : HostOrderOK (entriesOf rules) π) {mo : List MT} (hmo : mo.Perm [.exact, .pfx, .beg])
    {h q : Str} (rq : WFReq h q = true) :
    checkReq rules (rebuild mo (entriesOf rules) π) h q = none := by
  obtain ⟨e, wo, pm⟩ := rebuild_wellordered rules hπ hmo
  rw [e]
  exact lookup_of_wellordered wf rq wo (fun x => pm.mem_iff)

/-- the same, unfolded: what the frontend returns lies in `best` -/
theorem lookup_in_best {rules : List Rule} (wf : WF rules = true) {π : List Str}
    (hπ : HostOrderOK (entriesOf rules) π) {mo : List MT} (hmo : mo.Perm [.exact, .pfx, .beg])
    {h q : Str} (rq : WFReq h q = true) :
    match lookupFiles (rebuild mo (entriesOf rules) π) (sampleOf h q) with
    | none => best rules h q = []
    | some t => t ∈ best rules h q :=
  checkReq_none_iff.1 (lookup_spec wf hπ hmo rq)

/-- **T4** iteration-order independence: two iteration orders (and two path-type orders) agree on
whether a request is answered, both answers lie in the same set `best`, and they are equal
whenever the property determines the answer (no tie) -/
theorem lookup_perm {rules : List Rule} (wf : WF rules = true) {π π' : List Str}
    (hπ : HostOrderOK (entriesOf rules) π) (hπ' : HostOrderOK (entriesOf rules) π')
    {mo mo' : List MT} (hmo : mo.Perm [.exact, .pfx, .beg]) (hmo' : mo'.Perm [.exact, .pfx, .beg])
    {h q : Str} (rq : WFReq h q = true) :
    ((lookupFiles (rebuild mo (entriesOf rules) π) (sampleOf h q)).isSome =
      (lookupFiles (rebuild mo' (entriesOf rules) π') (sampleOf h q)).isSome) ∧
    ((∀ t ∈ best rules h q, ∀ t' ∈ best rules h q, t = t') →
      lookupFiles (rebuild mo (entriesOf rules) π) (sampleOf h q) =
        lookupFiles (rebuild mo' (entriesOf rules) π') (sampleOf h q)) := by
  have a := lookup_in_best wf hπ hmo rq
  have b := lookup_in_best wf hπ' hmo' rq
  cases h1 : lookupFiles (rebuild mo (entriesOf rules) π) (sampleOf h q) <;>
    cases h2 : lookupFiles (rebuild mo' (entriesOf rules) π') (sampleOf h q) <;>
    rw [h1] at a <;> rw [h2] at b <;> simp only at a b
  · simp
  · rw [a] at b; simp at b
  · rw [b] at a; simp at a
  · exact ⟨rfl, fun hu => by rw [hu _ a _ b]⟩

/-- `lookup_spec` applies to a two-host rule set with mixed case, in both iteration orders, and the
answer is the one expected -/
example : WF twoHosts = true ∧ WFReq "A.local".toList "/app/sub/x".toList = true ∧
    best twoHosts "A.local".toList "/app/sub/x".toList = [3] ∧
    lookupFiles (rebuild [.pfx, .beg, .exact] (entriesOf twoHosts) ["b.local".toList, "a.local".toList])
      (sampleOf "A.local".toList "/app/sub/x".toList) = some 3 := by decide +kernel

example : checkReq twoHosts (rebuild [.beg, .exact, .pfx] (entriesOf twoHosts)
    ["b.local".toList, "a.local".toList]) "A.local".toList "/app/sub/x".toList = none :=
  lookup_spec (by decide +kernel) (hostOrder_of_perm (by decide +kernel)) (by decide) (by decide +kernel)

/-- regenerated from the Go source: the key separator is `#` (not a path or host character) and the
default host name cannot collide with a DNS name -/
theorem facts_c04 : Facts.c04KeySeparator = "#" ∧ Facts.c04DefaultHost = "<default>" := by decide

end HapVerif.C04
