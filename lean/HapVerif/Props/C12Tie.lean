import HapVerif.Generated.CodeC12
/-!
# C12 — the control skeleton of `HAProxyUpdate` and `Reload`, translated, and what it guarantees

`HapVerif.CodeC12.haproxyUpdate` / `reload` are REGENERATED on every run from `pkg/haproxy/instance.go`.  Every
call into the model, the templates, the dynamic updater and haproxy is a step of a trace `Fx` whose oracle says
which writes / the reload fail and what the dynamic updater answers.  The theorems are about the translated
code itself, for EVERY oracle and every instance state — the facts the C12 fault-cycle model (`Model/C12.lean`:
`pre`, `post`, `upd`) takes as its shape, and the C05 / C17 checks rely on:

* the deferred `Commit` runs exactly once, last, on every path (`commit_last`);
* `rewriteOwed` is set before the first write and cleared only once `writeConfig` is behind (or not needed):
  a failed write leaves it set (`failed_write_owes_rewrite`), an update without failing write clears it
  (`no_failed_write_clears`);
* an owed rewrite forces `ForceRewrite` and a reload whatever the dynamic updater says (`owed_rewrite_reloads`);
  an owed reload is retried (`owed_reload_retried`);
* the writes happen in one fixed order and stop at the first failure (`writes_in_order`);
* `Reload` records its outcome in `reloadOwed` (`reload_outcome`).
-/
namespace HapVerif.C12Tie
open HapVerif HapVerif.GoLib

def writes : List String := ["WriteTCPServicesMaps", "WriteFrontendMaps", "WriteBackendMaps", "writeCrtLists", "writeConfig"]

/-- the steps one call adds to an empty trace -/
def run (env : Env) (i : InstView) : InstView × Fx × Option String := CodeC12.haproxyUpdate env i []

/-- case split on a Bool subterm, then evaluate the conditionals it decides -/
macro "bc " t:term : tactic => `(tactic| first
  | (cases hbc : ($t : Bool) <;>
     simp only [hbc, Bool.false_eq_true, ↓reduceIte, Bool.not_true, Bool.not_false, Bool.true_and, Bool.false_and,
       Bool.and_true, Bool.and_false, Bool.or_true, Bool.or_false, Bool.true_or, Bool.false_or, decide_true,
       decide_false, bne_self_eq_false, Option.some.injEq, reduceCtorEq])
  | skip)

macro "bp " t:term : tactic => `(tactic| first
  | (by_cases hbp : ($t : Prop) <;>
     simp only [hbp, Bool.false_eq_true, ↓reduceIte, Bool.not_true, Bool.not_false, Bool.true_and, Bool.false_and,
       Bool.and_true, Bool.and_false, Bool.or_true, Bool.or_false, Bool.true_or, Bool.false_or, decide_true,
       decide_false, not_true_eq_false, not_false_eq_true])
  | skip)

/-- the whole decision tree of `haproxyUpdate`: every Bool the skeleton looks at, in program order (twice: a
condition can only be evaluated once the ones before it are decided); `c` closes the leaves -/
macro "skel " e:ident ii:ident " => " c:tacticSeq : tactic => `(tactic| (
  bc ($ii).rewriteOwed
  all_goals bc ($e).fail "WriteTCPServicesMaps"
  all_goals try ($c)
  all_goals bc ($e).fail "WriteFrontendMaps"
  all_goals try ($c)
  all_goals bc ($e).fail "WriteBackendMaps"
  all_goals try ($c)
  all_goals bc ($e).fail "writeCrtLists"
  all_goals try ($c)
  all_goals bc ($ii).fake
  all_goals bc ($e).val "dynupdate"
  all_goals bc (($ii).sortEndpointsBy != "random")
  all_goals bp (($e).num "cmdCnt" > 0)
  all_goals bc ($e).val "Backends.Changed"
  all_goals bc ($e).fail "writeConfig"
  all_goals try ($c)
  all_goals bc ($ii).reloadOwed
  all_goals bc ($ii).validateConfig
  all_goals bc ($e).fail "check"
  all_goals try ($c)
  all_goals bc ($ii).hasReloadQueue
  all_goals try ($c)
  all_goals bc ($e).fail "Reload"
  all_goals try ($c)
  all_goals bp (($e).num "cmdCnt" > 0)
  all_goals try ($c)
  all_goals bc ($ii).validateConfig
  all_goals bc ($e).fail "check"
  all_goals try ($c)
  all_goals bc ($ii).hasReloadQueue
  all_goals bc ($e).fail "Reload"
  all_goals ($c)))

macro "unfold_skel" : tactic => `(tactic| (
  unfold run CodeC12.haproxyUpdate
  simp only [GoLib.callE, GoLib.eff, GoLib.callB, GoLib.effB, GoLib.readB, GoLib.readN, GoLib.nil, GoLib.errorf,
    Bool.false_eq_true, ↓reduceIte]))

/-- the deferred `Commit` runs exactly once, and last, on every path -/
theorem commit_last (env : Env) (i : InstView) (h : i.configNil = false) :
    (run env i).2.1.getLast? = some "Commit" ∧ (run env i).2.1.count "Commit" = 1 := by
  unfold_skel
  simp only [h, Bool.false_eq_true, ↓reduceIte]
  skel env i => exact ⟨rfl, rfl⟩

/-- an error that does not come from the reload leaves the rewrite owed: the next update renders every file -/
theorem failed_write_owes_rewrite (env : Env) (i : InstView) (h : i.configNil = false)
    (he : (run env i).2.2 ≠ none) (hr : (run env i).2.1.count "Reload" = 0) :
    (run env i).1.rewriteOwed = true := by
  revert he hr
  unfold_skel
  simp only [h, Bool.false_eq_true, ↓reduceIte]
  skel env i => first | (intro _ _; rfl) | (intro he _; exact absurd rfl he) | (intro _ hr; exact absurd hr (by decide))

/-- hypotheses "no write fails" as rewrite rules -/
def NoWriteFails (env : Env) : Prop :=
  env.fail "WriteTCPServicesMaps" = false ∧ env.fail "WriteFrontendMaps" = false ∧
  env.fail "WriteBackendMaps" = false ∧ env.fail "writeCrtLists" = false ∧ env.fail "writeConfig" = false

/-- an update none of whose writes fails gets past `writeConfig` (or does not need it) and clears the owed rewrite —
whatever the reload does afterwards -/
theorem no_failed_write_clears (env : Env) (i : InstView) (h : i.configNil = false) (hw : NoWriteFails env) :
    (run env i).1.rewriteOwed = false := by
  obtain ⟨h1, h2, h3, h4, h5⟩ := hw
  unfold_skel
  simp only [h, h1, h2, h3, h4, h5, Bool.false_eq_true, ↓reduceIte, bne_self_eq_false]
  skel env i => rfl

/-- an owed rewrite renders every file (`ForceRewrite` before the first write) and ends in a reload, whatever the
dynamic updater answers -/
theorem owed_rewrite_reloads (env : Env) (i : InstView) (h : i.configNil = false) (ho : i.rewriteOwed = true)
    (hw : NoWriteFails env) :
    (run env i).2.1.take 3 = ["SyncConfig", "Shrink", "ForceRewrite"] ∧
    (run env i).2.1.count "ReloadQueue.Add" + (run env i).2.1.count "Reload" = 1 := by
  obtain ⟨h1, h2, h3, h4, h5⟩ := hw
  unfold_skel
  simp only [h, ho, h1, h2, h3, h4, h5, Bool.false_eq_true, ↓reduceIte, bne_self_eq_false]
  skel env i => exact ⟨rfl, rfl⟩

/-- an owed rewrite sorts the endpoints and fills the source address of EVERY backend before the configuration is
written (repair b7287f0: the backends of the failed update are no longer in the changed set, `FillSourceIPs` alone
would skip them), once each; without an owed rewrite neither step runs -/
theorem owed_rewrite_fills_all (env : Env) (i : InstView) (h : i.configNil = false) (ho : i.rewriteOwed = true)
    (hw : NoWriteFails env) :
    (run env i).2.1.count "SortAllEndpoints" = 1 ∧ (run env i).2.1.count "FillAllSourceIPs" = 1 := by
  obtain ⟨h1, h2, h3, h4, h5⟩ := hw
  unfold_skel
  simp only [h, ho, h1, h2, h3, h4, h5, Bool.false_eq_true, ↓reduceIte, bne_self_eq_false]
  skel env i => exact ⟨rfl, rfl⟩

theorem no_owed_rewrite_no_fill_all (env : Env) (i : InstView) (h : i.configNil = false) (ho : i.rewriteOwed = false)
    (hw : NoWriteFails env) :
    (run env i).2.1.count "SortAllEndpoints" = 0 ∧ (run env i).2.1.count "FillAllSourceIPs" = 0 := by
  obtain ⟨h1, h2, h3, h4, h5⟩ := hw
  unfold_skel
  simp only [h, ho, h1, h2, h3, h4, h5, Bool.false_eq_true, ↓reduceIte, bne_self_eq_false]
  skel env i => exact ⟨rfl, rfl⟩

/-- a reload that failed is retried by the next update even if nothing changed -/
theorem owed_reload_retried (env : Env) (i : InstView) (h : i.configNil = false) (ho : i.reloadOwed = true)
    (hw : NoWriteFails env) :
    (run env i).2.1.count "ReloadQueue.Add" + (run env i).2.1.count "Reload" = 1 := by
  obtain ⟨h1, h2, h3, h4, h5⟩ := hw
  unfold_skel
  simp only [h, ho, h1, h2, h3, h4, h5, Bool.false_eq_true, ↓reduceIte, bne_self_eq_false]
  skel env i => rfl

/-- without anything owed, a dynamic update that was accepted does not reload -/
theorem dynamic_update_no_reload (env : Env) (i : InstView) (h : i.configNil = false)
    (h1 : i.rewriteOwed = false) (h2 : i.reloadOwed = false) (hd : env.val "dynupdate" = true) :
    (run env i).2.1.count "ReloadQueue.Add" + (run env i).2.1.count "Reload" = 0 := by
  unfold_skel
  simp only [h, h1, h2, hd, Bool.false_eq_true, ↓reduceIte]
  skel env i => rfl

/-- `IncUpdate<Status>` is called exactly once per update (the reload counts itself: `IncUpdateFull` in `Reload`;
an update handed to the reload queue is counted when the queue runs it) -/
theorem one_metric (env : Env) (i : InstView) (h : i.configNil = false) :
    (run env i).2.1.count "metric:noop" + (run env i).2.1.count "metric:dynamic" +
      (run env i).2.1.count "Reload" + (run env i).2.1.count "ReloadQueue.Add" = 1 := by
  unfold_skel
  simp only [h, Bool.false_eq_true, ↓reduceIte]
  skel env i => rfl

/-- the files are written in one fixed order and the first failure ends the update -/
theorem writes_in_order (env : Env) (i : InstView) (h : i.configNil = false) :
    ((run env i).2.1.filter (fun s => writes.contains s)).isPrefixOf writes = true := by
  unfold_skel
  simp only [h, Bool.false_eq_true, ↓reduceIte]
  skel env i => rfl

/-! ## `Reload` -/

/-- `Reload` records its outcome: `reloadOwed` is set iff `reloadHAProxy` failed, the error is returned, a success
marks the instance up -/
theorem reload_outcome (env : Env) (i : InstView) (fx : Fx) :
    (CodeC12.reload env i fx).1.reloadOwed = env.fail "reloadHAProxy" ∧
    ((CodeC12.reload env i fx).2.2 = none ↔ env.fail "reloadHAProxy" = false) ∧
    (env.fail "reloadHAProxy" = false → (CodeC12.reload env i fx).1.up = true) := by
  unfold CodeC12.reload
  simp only [GoLib.callE, GoLib.eff, GoLib.effB, GoLib.nil, GoLib.errorf, Bool.false_eq_true, ↓reduceIte]
  by_cases hf : env.fail "reloadHAProxy" = true
  · simp [hf]
  · have hf' : env.fail "reloadHAProxy" = false := by simpa using hf
    simp [hf']

/-- non-vacuity: a frontend map that cannot be written -/
example :
    (run ⟨fun n => n == "WriteFrontendMaps", fun _ => true, fun _ => 0⟩
      ⟨false, false, false, true, true, "endpoint", false, false, true, false⟩).2.1 =
      ["SyncConfig", "Shrink", "WriteTCPServicesMaps", "WriteFrontendMaps", "metric:noop", "Commit"] := by
  decide +kernel

end HapVerif.C12Tie
