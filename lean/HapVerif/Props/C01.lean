import HapVerif.Model.C01
namespace HapVerif.C01
end HapVerif.C01
