import HapVerif.Lemmas.C01Hist
import HapVerif.Generated.Facts
/-
C01 — incremental (partial) resync converges to the configuration of a full sync.

Full-strength statement (the property), on the model:
    for every history (an initial full sync, then any sequence of full and partial syncs whose batches
    describe the changes of the cluster) the items the long-lived controller holds — host entries (live flag,
    paths with their backend, trace) and backend traces — are the items `syncFull` computes on the final cluster:
        ∀ h, GoodHistory w0 h → ObsEq (runSteps rev w0 h) (syncFull rev (lastWorld w0 h))
"An item's content is a function of its trace" (the decomposition abstraction; the trace lists the declaring
ingress objects in processing order and the value of every object read) turns equality of the items into
equality of the configuration; that last step is validated end to end by the harness (long-lived pipeline vs
fresh pipeline, normal forms compared after every sync), not proved.

It is FALSE for revisions 0 and 1 of the code (`late_ref_rev0`, `late_ref_rev1`: kernel-checked
counter-examples, replayed on the real pipeline by the harness corpus; repaired by 0a95d71 and b28788a).
For the current revision (2) this file proves
  M-Tracker   : `tracker_output`, `tracker_output_reachPlus`, `tracker_remove_no_touch`, `tracker_remove_isolates`,
                `tracker_untouched_adj`, `tracker_untouched_conn`, `tracker_clear`, `go_query_terminates`
  (a)         : `linked_full`, `linked_partial`, `linked_history` — the tracking invariant (every item is
                connected to each declarer and to each object read for it; every synced ingress to every
                host, service and backend its declarations name) is established by a full sync and preserved
                by every partial sync, for all histories
  (b) closure : `closure_complete_items` (an item whose recorded dependencies changed is dirty),
                `closure_complete_declarers` (every declarer, in the new cluster, of a dirty host is re-synced),
                `clean_item_fresh` (what survives was built from objects that did not change)
  (c)         : `partial_eq_full_step_partial`, `partial_eq_full_partial` — partial = full for all histories,
                under ONE explicit side condition per partial sync, `SCdef`: when an added/updated ingress has a
                spec.defaultBackend, the default host is live or has no entry (i.e. there is no record of only
                FAILED default backends of other ingresses). `trackAddedIngress` does not pre-track the default
                host in that case, so the new owner is appended to an entry that is not dirty and the ORDER of the
                touches differs from a full sync (`scdef_trace_order`); the failed declarations contribute
                nothing to the host, the real pipelines are equal (replayed: corpus of harness/cmd/hv/c01.go,
                both creation orders). It is a limit of the trace abstraction, not a defect of the code.
                `partial_eq_full_history_partial` states (c) for histories of OPERATIONS: the watchers model builds
                the batches and `watchers_describe` proves that they describe the change (`Describes`).
                Assumptions of the statement: unique ingress keys (preserved by the operations), `BackIdInj` (a backend
                id identifies namespace and service: Kubernetes names contain no `_`), drain-support off.
  option      : `--default-backend-service` (`syncDefaultBackend`, `defaultBackSource`) is one more declaration source
                of the SAME structures (`optIngress`, an `Ingress` flagged `pseudo` in the initial cluster `optWorld`), so
                (a), (b), (c) above hold for it without change; `partial_eq_full_history_opt_partial` states (c) for
                histories under the option, `opt_default_backend` replays the corpus history of harness/cmd/hv/c01.go
                (service goes, comes back) on the model. With the option the default host always has an entry (the
                dependency recorded by the pseudo source), so `SCdef` reads: an ingress with a spec.defaultBackend is
                added/updated only while the default host is live.
-/
namespace HapVerif.C01

/-! ## M-Tracker -/

/-- output of `QueryLinks` = the nodes, with at least one edge, of the connected components of the seeds -/
theorem tracker_output {α : Type} [DecidableEq α] (t : Tr α) (seeds : List α) (n : α) :
    n ∈ (queryLinks t seeds true).1 ↔ HasEdge t n ∧ ∃ s ∈ seeds, Conn t s n :=
  mem_queryOut

/-- the same set as the Go code computes it: reachable from a seed in ≥ 1 step (a seed without edges
returns nothing; a seed is returned iff it is reachable from a seed, i.e. iff it has an edge) -/
theorem tracker_output_reachPlus {α : Type} [DecidableEq α] (t : Tr α) (seeds : List α) (n : α) :
    n ∈ (queryLinks t seeds false).1 ↔ ∃ s ∈ seeds, ReachPlus t s n :=
  mem_queryOut_iff_reachPlus

/-- after `QueryLinks(…, true)` no remaining edge touches a returned node -/
theorem tracker_remove_no_touch {α : Type} [DecidableEq α] (t : Tr α) (seeds : List α) (e : α × α)
    (he : e ∈ (queryLinks t seeds true).2) :
    e.1 ∉ (queryLinks t seeds true).1 ∧ e.2 ∉ (queryLinks t seeds true).1 :=
  rest_no_touch_out he

/-- the whole connected component is deleted: a returned node has no edge left -/
theorem tracker_remove_isolates {α : Type} [DecidableEq α] (t : Tr α) (seeds : List α) (a b : α)
    (ha : a ∈ (queryLinks t seeds true).1) : ¬ Adj (queryLinks t seeds true).2 a b :=
  rest_isolated (mem_reach.mpr (mem_queryOut.mp ha).2) b

/-- untouched components are unchanged (edges) -/
theorem tracker_untouched_adj {α : Type} [DecidableEq α] (t : Tr α) (seeds : List α) (a b : α)
    (ha : ¬ ∃ s ∈ seeds, Conn t s a) : Adj (queryLinks t seeds true).2 a b ↔ Adj t a b :=
  rest_adj_iff (fun h => ha (mem_reach.mp h)) b

/-- untouched components are unchanged (connectivity) -/
theorem tracker_untouched_conn {α : Type} [DecidableEq α] (t : Tr α) (seeds : List α) (a b : α)
    (ha : ¬ ∃ s ∈ seeds, Conn t s a) : Conn (queryLinks t seeds true).2 a b ↔ Conn t a b :=
  rest_conn_iff (fun h => ha (mem_reach.mp h)) b

/-- a read-only query changes nothing; `ClearLinks` leaves no edge -/
theorem tracker_clear {α : Type} [DecidableEq α] (t : Tr α) (seeds : List α) :
    (queryLinks t seeds false).2 = t ∧ (clearLinks : Tr α) = [] := ⟨rfl, rfl⟩

/-- the Go recursion (`updateOutput` inside `QueryLinks`, `removeRef`) terminates: on the mirror of the
Go data structure both recursions stay within depth `number of half edges + 1` -/
theorem go_query_terminates {α : Type} [DecidableEq α] (d : Half α) (seeds : List α) (remove : Bool) :
    (goQuery d seeds remove).isSome = true :=
  goQuery_terminates d seeds remove

/-- each nested `removeRef` call has deleted a key first: depth ≤ half edges + 1, state never grows -/
theorem go_removeRef_terminates {α : Type} [DecidableEq α] (f : Nat) (n : α) (d : Half α) (hf : d.length < f) :
    ∃ d', goRemoveRef f n d = some d' ∧ d'.length ≤ d.length :=
  goRemoveRef_terminates f n d hf

/-! ## (a) the tracking invariant, all histories -/

/-- established by a full sync -/
theorem linked_full (rev : Rev) (hrev : 2 ≤ rev) (w : World) : Linked w (syncFull rev w) :=
  linked_syncFull rev hrev w

/-- preserved by a partial sync -/
theorem linked_partial (rev : Rev) (hrev : 2 ≤ rev) (w w' : World) (b : Batch) (st : St)
    (hd : Describes w w' b) (hwf : w.WF) (hwf' : w'.WF) (hl : Linked w st) :
    Linked w' (syncPartial rev w' b st) :=
  linked_syncPartial rev hrev hd hwf hwf' hl

/-- a history at the level of reconciliations: the cluster at each sync and the batch that led to it
(most recent first) -/
def lastWorld (w0 : World) : List (World × Batch) → World
  | [] => w0
  | (w', _) :: _ => w'

def runSteps (rev : Rev) (w0 : World) : List (World × Batch) → St
  | [] => syncFull rev w0
  | (w', b) :: rest => step rev w' b (runSteps rev w0 rest)

/-- every batch of the history describes its change of the cluster (partial syncs) and keys are unique -/
def GoodHistory (w0 : World) : List (World × Batch) → Prop
  | [] => w0.WF
  | (w', b) :: rest =>
    GoodHistory w0 rest ∧ w'.WF ∧ (b.full = false → Describes (lastWorld w0 rest) w' b)

/-- (a) for ALL histories: after the initial full sync and any sequence of full and partial syncs the
controller state satisfies the tracking invariant for the current cluster -/
theorem linked_history (rev : Rev) (hrev : 2 ≤ rev) (w0 : World) (h : List (World × Batch))
    (hg : GoodHistory w0 h) :
    Linked (lastWorld w0 h) (runSteps rev w0 h) ∧ (lastWorld w0 h).WF := by
  induction h with
  | nil => exact ⟨linked_syncFull rev hrev w0, hg⟩
  | cons x rest ih =>
    obtain ⟨w', b⟩ := x
    obtain ⟨hg1, hwf', hdesc⟩ := hg
    obtain ⟨hl, hwf⟩ := ih hg1
    refine ⟨?_, hwf'⟩
    show Linked w' (step rev w' b (runSteps rev w0 rest))
    unfold step
    cases hb : b.full with
    | true => simp only [if_true]; exact linked_syncFull rev hrev w'
    | false =>
      simp only [Bool.false_eq_true, if_false]
      exact linked_syncPartial rev hrev (hdesc hb) hwf hwf' hl

/-! ## (b) closure completeness -/

/-- the recorded dependencies of a touch changed between `w` and `w'`: its ingress is a seed of the
batch, or an object it read has another value -/
def TouchChanged (w w' : World) (b : Batch) (x : Touch) : Prop :=
  (⟨.ing, x.ing.key⟩ : Node) ∈ b.links ∨ ∃ r ∈ x.reads, w'.read r.1 ≠ w.read r.1

/-- (b1) an item whose recorded dependencies changed is returned by the tracker (it is dirty):
hosts and backends -/
theorem closure_complete_items (w w' : World) (b : Batch) (st : St)
    (hd : Describes w w' b) (hl : Linked w st) :
    (∀ h x, st.hm h = some x → (∃ t ∈ x.trace, TouchChanged w w' b t) → (⟨.host, h⟩ : Node) ∈ dirty w' b st) ∧
    (∀ k, (∃ t ∈ st.bm k, TouchChanged w w' b t) → (⟨.back, k⟩ : Node) ∈ dirty w' b st) := by
  have key : ∀ (item : Node) (t : Touch), touchOK st.tr item t → item ≠ ⟨.ing, t.ing.key⟩ →
      TouchChanged w w' b t → item ∈ dirty w' b st := by
    intro item t hok hne hch
    have hedge : HasEdge (preTr w' b st) item := (hasEdge_of_conn_ne hok.1 hne).mono (preTr_sub w' b st)
    refine mem_queryOut.mpr ⟨hedge, ?_⟩
    rcases hch with hseed | ⟨r, hr, hneq⟩
    · exact ⟨_, hseed, (hok.1.mono (preTr_sub w' b st)).symm⟩
    · exact ⟨r.1, hd.obj r.1 (fun e => hneq e.symm), ((hok.2 r hr).mono (preTr_sub w' b st)).symm⟩
  constructor
  · rintro h x hx ⟨t, ht, hch⟩
    exact key _ t (hl.tc.host h x hx t ht) (by intro e; cases e) hch
  · rintro k ⟨t, ht, hch⟩
    exact key _ t (hl.tc.back k t ht) (by intro e; cases e) hch

/-- (b1, contrapositive) what survives a partial sync was built from ingresses that are not seeds and from
objects that did not change: its trace is still valid in the new cluster -/
theorem clean_item_fresh (w w' : World) (b : Batch) (st : St)
    (hd : Describes w w' b) (hl : Linked w st) (h : String) (x : Host)
    (hx : st.hm h = some x) (hclean : (⟨.host, h⟩ : Node) ∉ dirty w' b st) :
    ∀ t ∈ x.trace, (⟨.ing, t.ing.key⟩ : Node) ∉ b.links ∧ ∀ r ∈ t.reads, w'.read r.1 = w.read r.1 := by
  intro t ht
  have := (closure_complete_items w w' b st hd hl).1 h x hx
  constructor
  · intro hs; exact hclean (this ⟨t, ht, Or.inl hs⟩)
  · intro r hr
    apply Classical.byContradiction
    intro hne
    exact hclean (this ⟨t, ht, Or.inr ⟨r, hr, hne⟩⟩)

/-- (b2) every declarer, in the new cluster, of a host that is connected to a seed is in the re-synced
list — declarers that are carried by the batch, and declarers that did not change (they are linked to
the host, hence dirty themselves) -/
theorem closure_complete_declarers (w w' : World) (b : Batch) (st : St)
    (hd : Describes w w' b) (hwf : w.WF) (hwf' : w'.WF) (hl : Linked w st)
    (i : Ingress) (hi : i ∈ w'.validSorted) (d : Decl) (hdd : d ∈ declsOf i)
    (hdirty : (⟨.host, d.host⟩ : Node) ∈ reach (preTr w' b st) b.links) :
    i ∈ resyncList w' b (dirty w' b st) := by
  apply Classical.byContradiction
  intro hn
  obtain ⟨hiw, _, hnd⟩ := not_resynced hd hwf hwf' hi hn
  have hold := (hl.ing i hiw d hdd).1
  have hdi : d.ing = i := declsOf_ing hdd
  rw [hdi] at hold
  have hold' := hold.mono (preTr_sub w' b st)
  apply hnd
  refine mem_queryOut.mpr ⟨hasEdge_of_conn_ne hold' (by intro e; cases e), ?_⟩
  obtain ⟨s, hs, hc⟩ := mem_reach.mp hdirty
  exact ⟨s, hs, hc.trans hold'.symm⟩

/-! ## (c) partial = full -/

/- `ObsEq st1 st2` (Lemmas/C01Hist): the entry of every host and the trace of every backend coincide -/

/-- one partial sync: if the controller state has the items of a full sync on `w` and satisfies the
tracking invariant, the partial sync for a batch that describes `w → w'` yields the items of a full sync on
`w'` (side condition `SCdef`, assumptions `BackIdInj`, unique keys) -/
theorem partial_eq_full_step_partial (rev : Rev) (hrev : 2 ≤ rev) (w w' : World) (b : Batch) (st : St)
    (hd : Describes w w' b) (hwf : w.WF) (hwf' : w'.WF) (hl : Linked w st)
    (hobs : ObsEq st (syncFull rev w)) (hinj : BackIdInj w w') (hsc : SCdef b st) :
    ObsEq (syncPartial rev w' b st) (syncFull rev w') :=
  partial_eq_full_step ⟨hrev, hd, hwf, hwf', hl, hobs.1, hobs.2, hinj, hsc⟩

/-- a history whose partial syncs also satisfy the side condition and the naming assumption -/
def GoodHistoryEq (rev : Rev) (w0 : World) : List (World × Batch) → Prop
  | [] => w0.WF
  | (w', b) :: rest =>
    GoodHistoryEq rev w0 rest ∧ w'.WF ∧
      (b.full = false → Describes (lastWorld w0 rest) w' b ∧ BackIdInj (lastWorld w0 rest) w' ∧
        SCdef b (runSteps rev w0 rest))

/-- (c) for ALL histories: after the initial full sync and any sequence of full and partial syncs the
controller holds exactly the items of a full sync on the current cluster, and the tracking invariant -/
theorem partial_eq_full_partial (rev : Rev) (hrev : 2 ≤ rev) (w0 : World) (h : List (World × Batch))
    (hg : GoodHistoryEq rev w0 h) :
    ObsEq (runSteps rev w0 h) (syncFull rev (lastWorld w0 h)) ∧
      Linked (lastWorld w0 h) (runSteps rev w0 h) ∧ (lastWorld w0 h).WF := by
  induction h with
  | nil => exact ⟨⟨fun _ => rfl, fun _ => rfl⟩, linked_syncFull rev hrev w0, hg⟩
  | cons x rest ih =>
    obtain ⟨w', b⟩ := x
    obtain ⟨hg1, hwf', hstep⟩ := hg
    obtain ⟨hobs, hl, hwf⟩ := ih hg1
    show ObsEq (step rev w' b (runSteps rev w0 rest)) (syncFull rev w') ∧
      Linked w' (step rev w' b (runSteps rev w0 rest)) ∧ w'.WF
    unfold step
    cases hb : b.full with
    | true =>
      simp only [if_true]
      exact ⟨⟨fun _ => rfl, fun _ => rfl⟩, linked_syncFull rev hrev w', hwf'⟩
    | false =>
      simp only [Bool.false_eq_true, if_false]
      obtain ⟨hd, hinj, hsc⟩ := hstep hb
      exact ⟨partial_eq_full_step_partial rev hrev _ w' b _ hd hwf hwf' hl hobs hinj hsc,
        linked_syncPartial rev hrev hd hwf hwf' hl, hwf'⟩

/-- (c) at the level of OPERATIONS, with the watchers model building the batches (`Describes` is proved for
them: `describes_of_ops`): for every history — batches of create/update/delete operations on Ingress, Service,
Endpoints, Secret, IngressClass, ConfigMap and Pod objects, one reconciliation after each batch, full or
partial as the real `converters.Sync` decides — the controller ends with the host entries and backend traces
of a full sync on the final cluster. `HistOK`: at each partial sync `SCdef`, `BackIdInj`, drain-support off. -/
theorem partial_eq_full_history_partial (rev : Rev) (hrev : 2 ≤ rev) (batches : List (List Op))
    (hne : batches ≠ []) (hok : HistOK rev ({}, {}) batches) :
    ObsEq (runHistory rev batches).2.st (syncFull rev (runHistory rev batches).1) ∧
      Linked (runHistory rev batches).1 (runHistory rev batches).2.st := by
  rw [runHistory_eq]
  have hg : Good rev (({} : World), ({} : Ctl)) := ⟨by simp [World.WF], Or.inl rfl⟩
  obtain ⟨_, h⟩ := good_history rev hrev batches _ hg hok
  have hf := first_false_history rev batches (({} : World), ({} : Ctl)) (Or.inl hne)
  rcases h with h | h
  · rw [hf] at h; cases h
  · exact h

/-- the same under the controller option `--default-backend-service=ns/svc` (`db = some (ns, svc)`): the
converter's pseudo source `defaultBackSource` is a member of the initial cluster (`optWorld`, `optIngress`) that no
operation touches; `syncDefaultBackend` is the `pseudo` branch of `outcome`. The invariant, closure completeness
(`closure_complete_items`, `closure_complete_declarers`: they quantify over every member of `validSorted`, the
pseudo source included) and partial = full hold for it because it is one more declaration source. -/
theorem partial_eq_full_history_opt_partial (rev : Rev) (hrev : 2 ≤ rev) (db : Option (String × String))
    (batches : List (List Op)) (hne : batches ≠ []) (hok : HistOK rev (optWorld db, {}) batches) :
    ObsEq (runHistoryOpt rev db batches).2.st (syncFull rev (runHistoryOpt rev db batches).1) ∧
      Linked (runHistoryOpt rev db batches).1 (runHistoryOpt rev db batches).2.st := by
  have heq : runHistoryOpt rev db batches = batches.foldl (runBatch rev) (optWorld db, {}) := rfl
  rw [heq]
  have hwf : (optWorld db).WF := by
    cases db with
    | none => simp [optWorld, World.WF]
    | some q => obtain ⟨ns, svc⟩ := q; simp [optWorld, World.WF]
  have hg : Good rev (optWorld db, ({} : Ctl)) := ⟨hwf, Or.inl rfl⟩
  obtain ⟨_, h⟩ := good_history rev hrev batches _ hg hok
  have hf := first_false_history rev batches (optWorld db, ({} : Ctl)) (Or.inl hne)
  rcases h with h | h
  · rw [hf] at h; cases h
  · exact h

/-- the pseudo source is always "valid" (it is not read through the cache filter `IsValidIngress`; the class
annotation of `optIngress` stands for that), whatever IngressClasses the cluster has -/
theorem optIngress_valid (w : World) (ns svc : String) : w.valid (optIngress ns svc) = true := by
  simp [World.valid, optIngress, ourClass]

/-- the batch the watchers model accumulates describes the change of the cluster (hypothesis of the step
theorems), unless an event asked for a full sync -/
theorem watchers_describe (w : World) (ops : List Op) (hwf : w.WF)
    (hfull : (ops.foldl applyOp (w, {})).2.full = false)
    (hdr : w.drain = false) (hdr' : (ops.foldl applyOp (w, {})).1.drain = false) :
    Describes w (ops.foldl applyOp (w, {})).1 (ops.foldl applyOp (w, {})).2 :=
  describes_of_ops ops hwf hfull hdr hdr'

/-! ## non-vacuity and the historical counter-examples (kernel-checked on the model) -/

namespace Witness

def svcApp : Service := ⟨"d/app", [⟨"http", 80, "8080"⟩], []⟩
def svcApi : Service := ⟨"d/api", [⟨"http", 80, "8080"⟩], []⟩
/-- the service after it re-maps port 80 to another target -/
def svcApi2 : Service := ⟨"d/api", [⟨"web", 80, "8081"⟩], []⟩
/-- the owner of `a.local/a` -/
def i1 : Ingress :=
  { ns := "d", name := "i1", created := 1, classAnn := some "haproxy",
    rules := [⟨"a.local", [⟨"/a", "Prefix", "app", "80"⟩]⟩] }
/-- the loser of `a.local/a` (older than `i3`, carries a backend annotation) -/
def i2 : Ingress :=
  { ns := "d", name := "i2", created := 2, classAnn := some "haproxy", ann := [("balance-algorithm", "leastconn")],
    rules := [⟨"a.local", [⟨"/a", "Prefix", "api", "80"⟩]⟩] }
/-- an unrelated ingress sharing the backend of the loser -/
def i3 : Ingress :=
  { ns := "d", name := "i3", created := 3, classAnn := some "haproxy",
    rules := [⟨"b.local", [⟨"/", "Prefix", "api", "80"⟩]⟩] }

def w0 : World := { ings := [i1, i2, i3], svcs := [svcApp, svcApi] }
/-- the owner is deleted -/
def w1 : World := { w0 with ings := [i2, i3] }
def b1 : Batch := { links := [⟨.ing, "d/i1"⟩], del := ["d/i1"] }

/-- what is compared: hosts with paths and traces, backends with traces -/
def obs (st : St) : List Host × List Back := (st.hosts, st.backs)

/-- finding 1 (code before 0a95d71): when the owner goes the loser lands on the SURVIVING backend
`d_api_8080`; the partial result differs from the full one. Replay: corpus of harness/cmd/hv/c01.go. -/
theorem late_ref_rev0 :
    lateBacks 0 w1 b1 (syncFull 0 w0) = ["d_api_8080"] ∧
    (syncPartial 0 w1 b1 (syncFull 0 w0)).bm "d_api_8080" ≠ (syncFull 0 w1).bm "d_api_8080" := by
  decide +kernel

/-- the same step on revision 2: the loser is linked to the backend, everything is re-synced -/
theorem no_late_ref_rev2 :
    noLateRef 2 w1 b1 (syncFull 2 w0) = true ∧
    (syncPartial 2 w1 b1 (syncFull 2 w0)).bm "d_api_8080" = (syncFull 2 w1).bm "d_api_8080" ∧
    (syncPartial 2 w1 b1 (syncFull 2 w0)).hm "a.local" = (syncFull 2 w1).hm "a.local" := by
  decide +kernel

/-- finding 3 (0a95d71 alone): `i1`,`i2` first; the service re-maps the port; `i3` arrives; the owner goes -/
def wa : World := { ings := [i1, i2], svcs := [svcApp, svcApi] }
def wb : World := { ings := [i1, i2], svcs := [svcApp, svcApi2] }
def bb : Batch := { links := [⟨.svc, "d/api"⟩] }
def wc : World := { ings := [i1, i2, i3], svcs := [svcApp, svcApi2] }
def bc : Batch := { links := [⟨.ing, "d/i3"⟩], add := [i3] }
def wd : World := { ings := [i2, i3], svcs := [svcApp, svcApi2] }
def bd : Batch := { links := [⟨.ing, "d/i1"⟩], del := ["d/i1"] }

def stc (rev : Rev) : St := syncPartial rev wc bc (syncPartial rev wb bb (syncFull rev wa))

theorem late_ref_rev1 :
    lateBacks 1 wd bd (stc 1) = ["d_api_8081"] ∧
    (syncPartial 1 wd bd (stc 1)).bm "d_api_8081" ≠ (syncFull 1 wd).bm "d_api_8081" := by
  decide +kernel

theorem no_late_ref_rev2_remap :
    noLateRef 2 wd bd (stc 2) = true ∧
    (syncPartial 2 wd bd (stc 2)).bm "d_api_8081" = (syncFull 2 wd).bm "d_api_8081" := by
  decide +kernel

/-- non-vacuity of the tracker theorems: a seed with an edge is returned with its whole component, a seed
without edges returns nothing, another component is left alone -/
def halfOfNat (t : Tr Nat) : Half Nat := t.flatMap fun e => [(e.1, e.2), (e.2, e.1)]

example :
    queryLinks [((1 : Nat), 2), (2, 3), (7, 8)] [1, 5] true = ([1, 2, 3], [(7, 8)]) ∧
    goQuery (halfOfNat [((1 : Nat), 2), (2, 3), (7, 8)]) [1, 5] true ≠ none := by
  decide +kernel

/-- non-vacuity of `Linked`/`Describes`: the step `w0 → w1` of the witness is described by `b1` -/
example : (⟨.ing, "d/i1"⟩ : Node) ∈ dirty w1 b1 (syncFull 2 w0) ∧
    (⟨.back, "d_api_8080"⟩ : Node) ∈ dirty w1 b1 (syncFull 2 w0) ∧
    (resyncList w1 b1 (dirty w1 b1 (syncFull 2 w0))).map (·.key) = ["d/i2", "d/i3"] := by
  decide +kernel

/-- the side condition `SCdef`: `j1` has a default backend whose service is missing (the default host
has an entry that is not live); `j2`, OLDER, arrives with a working default backend. The default host is not
pre-tracked, `j2` is appended to the entry: same paths as a full sync, another ORDER of the touches.
The real pipelines are equal (corpus replay, both creation orders). -/
def j1 : Ingress := { ns := "d", name := "j1", created := 2, classAnn := some "haproxy", defBackend := some ("gone", "80") }
def j2 : Ingress := { ns := "d", name := "j2", created := 1, classAnn := some "haproxy", defBackend := some ("app", "80") }
def we : World := { ings := [j1], svcs := [svcApp] }
def wf : World := { ings := [j1, j2], svcs := [svcApp] }
def bf : Batch := { links := [⟨.ing, "d/j2"⟩], add := [j2] }

theorem scdef_trace_order :
    (syncFull 2 we).hostLive defaultHost = false ∧ (syncFull 2 we).hm defaultHost ≠ none ∧
    (((syncPartial 2 wf bf (syncFull 2 we)).hm defaultHost).map (·.paths)) =
      (((syncFull 2 wf).hm defaultHost).map (·.paths)) ∧
    (((syncPartial 2 wf bf (syncFull 2 we)).hm defaultHost).map (fun x => x.trace.map (·.what))) =
      some ["def-nobackend", "def:d_app_8080"] ∧
    (((syncFull 2 wf).hm defaultHost).map (fun x => x.trace.map (·.what))) =
      some ["def:d_app_8080", "def-loser"] := by
  decide +kernel

/-- non-vacuity of `partial_eq_full_history_partial`: the witness history as operations (services, the three
ingresses, sync; the owner is deleted, sync) satisfies `HistOK` trivially checked on its two reconciliations:
the first is a full sync, the second a partial one -/
def hops : List (List Op) :=
  [[.svcSet svcApp, .svcSet svcApi, .ingSet i1, .ingSet i2, .ingSet i3], [.ingDel "d/i1"]]

example : (runHistory 2 hops).1.ings.map (·.key) = ["d/i2", "d/i3"] ∧
    needFull (runHistory 2 [hops.head!]).2 ([Op.ingDel "d/i1"].foldl applyOp ((runHistory 2 [hops.head!]).1, {})).2 = false ∧
    (runHistory 2 hops).2.st.bm "d_api_8080" = (syncFull 2 (runHistory 2 hops).1).bm "d_api_8080" := by
  decide +kernel

/-! ### the option --default-backend-service -/

def svcWeb : Service := ⟨"d/web", [⟨"http", 80, "8080"⟩, ⟨"adm", 81, "adm"⟩], []⟩
/-- started with `--default-backend-service=d/web`; the service exists -/
def wo0 : World := { ings := [optIngress "d" "web", i1], svcs := [svcApp, svcWeb] }
/-- the service goes away (service and endpoints events) -/
def wo1 : World := { wo0 with svcs := [svcApp] }
def bo1 : Batch := { links := [⟨.svc, "d/web"⟩, ⟨.ep, "d/web"⟩] }

/-- `syncDefaultBackend` on the model: the pseudo source sorts first, takes the FIRST port of the service, touches
the backend, leaves the default host without a live entry, is tracked with the default host, the service and the
endpoints; when the service goes the tracker returns the pseudo source, it is re-read (`resyncList`) and the partial
sync equals the full one; the links survive the failure (bfa2c57), so the service is followed when it comes back -/
theorem opt_default_backend :
    (wo0.validSorted.map (·.key)) = ["/<default-backend>", "d/i1"] ∧
    (syncFull 2 wo0).hostLive defaultHost = false ∧
    ((syncFull 2 wo0).bm "d_web_8080").map (·.what) = ["default-backend"] ∧
    queryOut (syncFull 2 wo0).tr [⟨.svc, "d/web"⟩] =
      [⟨.back, "d_web_8080"⟩, ⟨.ep, "d/web"⟩, ⟨.svc, "d/web"⟩, ⟨.ing, "/<default-backend>"⟩, ⟨.host, defaultHost⟩] ∧
    (resyncList wo1 bo1 (dirty wo1 bo1 (syncFull 2 wo0))).map (·.key) = ["/<default-backend>"] ∧
    (syncPartial 2 wo1 bo1 (syncFull 2 wo0)).bm "d_web_8080" = [] ∧
    (syncPartial 2 wo1 bo1 (syncFull 2 wo0)).hm defaultHost = (syncFull 2 wo1).hm defaultHost ∧
    (syncPartial 2 wo1 bo1 (syncFull 2 wo0)).hm "a.local" = (syncFull 2 wo1).hm "a.local" ∧
    (resyncList wo0 bo1 (dirty wo0 bo1 (syncPartial 2 wo1 bo1 (syncFull 2 wo0)))).map (·.key) = ["/<default-backend>"] ∧
    (syncPartial 2 wo0 bo1 (syncPartial 2 wo1 bo1 (syncFull 2 wo0))).bm "d_web_8080" = (syncFull 2 wo0).bm "d_web_8080" ∧
    (syncPartial 2 wo0 bo1 (syncPartial 2 wo1 bo1 (syncFull 2 wo0))).hm defaultHost = (syncFull 2 wo0).hm defaultHost := by
  decide +kernel

/-- non-vacuity of `partial_eq_full_history_opt_partial`: the same history as operations -/
def hopsOpt : List (List Op) :=
  [[.svcSet svcApp, .svcSet svcWeb, .ingSet i1], [.svcDel "d/web"], [.svcSet svcWeb]]

example : (runHistoryOpt 2 (some ("d", "web")) hopsOpt).1.ings.map (·.key) = ["/<default-backend>", "d/i1"] ∧
    (runHistoryOpt 2 (some ("d", "web")) (hopsOpt.take 2)).2.st.bm "d_web_8080" = [] ∧
    (runHistoryOpt 2 (some ("d", "web")) hopsOpt).2.st.bm "d_web_8080" =
      (syncFull 2 (runHistoryOpt 2 (some ("d", "web")) hopsOpt).1).bm "d_web_8080" ∧
    ((runHistoryOpt 2 (some ("d", "web")) hopsOpt).2.st.bm "d_web_8080").map (·.what) = ["default-backend"] := by
  decide +kernel

end Witness

/-! ## regenerated facts the model mirrors (go/ast of /repo) -/

theorem facts_c01 :
    Facts.c01TrackSyncPartial = ["QueryLinks(c.changed.Links,true)"] ∧
    Facts.c01TrackAddHost = ["TrackNames(source.Type,source.FullName(),convtypes.ResourceHAHostname,hostname)"] ∧
    Facts.c01TrackAddBackend =
      ["TrackRefName(?,ctx,hostname)",
       "TrackNames(source.Type,source.FullName(),convtypes.ResourceHABackend,backend.ID)"] ∧
    Facts.c01TrackDefaultBackend =
      ["TrackNames(source.Type,source.FullName(),convtypes.ResourceHAHostname,hostname)",
       "TrackNames(source.Type,source.FullName(),convtypes.ResourceService,fullSvcName)"] ∧
    Facts.c01TrackSkipped =
      ["TrackNames(source.Type,source.FullName(),convtypes.ResourceService,fullSvcName)",
       "TrackNames(source.Type,source.FullName(),convtypes.ResourceHABackend,backendID.String())"] ∧
    Facts.c01SkippedCallers =
      ["syncIngressHTTP:c.trackSkippedBackend", "syncIngressHTTP:c.trackSkippedBackend",
       "syncIngressTCP:c.trackSkippedBackend", "addDefaultHostBackend:c.trackSkippedService"] ∧
    Facts.c01TrackClass = ["TrackNames(convtypes.ResourceIngressClass,?,source.Type,source.FullName())"] ∧
    Facts.c01TrackAdded =
      ["TrackNames(convtypes.ResourceIngress,name,convtypes.ResourceHABackend,backend.ID)",
       "TrackNames(convtypes.ResourceIngress,name,ctx,tcpPortTrackingName(port))",
       "TrackNames(convtypes.ResourceIngress,name,ctx,normalizeHostname(\"\",port))",
       -- guarded by Global().StrictHost (second strict-host repair; strict-host is outside the M-Sync fragment:
       -- Props/C01Tie.lean strict_default_dirty / strict_borrower_dirty and the end-to-end family c01strict)
       "TrackNames(convtypes.ResourceIngress,name,ctx,hatypes.DefaultHost)",
       "TrackNames(convtypes.ResourceIngress,name,ctx,hostname)",
       "TrackNames(convtypes.ResourceIngress,name,ctx,normalizeHostname(rule.Host,port))",
       "TrackNames(convtypes.ResourceIngress,name,convtypes.ResourceHABackend,backend.ID)"] ∧
    Facts.c01SyncCalls =
      ["ingressConverter.NeedFullSync", "c.options.Tracker.ClearLinks", "c.haproxy.Clear", "ingressConverter.Sync"] ∧
    Facts.c01RemoveRefCalls = ["t.removeRef"] ∧
    Facts.c01QueryLinksCalls = ["t.removeRef", "sort.Strings"] ∧
    Facts.c01TrackRefsCalls = ["t.track", "t.track"] := by
  decide

end HapVerif.C01
