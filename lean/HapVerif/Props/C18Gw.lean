import HapVerif.Lemmas.C18Gw
import HapVerif.Props.C18
import HapVerif.Drv.C18
import HapVerif.Generated.Facts
/-!
# C18 when the annotation builders of a backend run more than once in one sync (gateway mode)

Model: `runCalls step v w calls` (Model/C18Gw.lean): a sync is a list of `UpdateBackendConfig` /
`UpdateHostConfig` calls, each with the globals in effect and a mapper of its own (`viewOf`: the
paths whose annotations the mapper holds; every other path reads the defaults).  `gwSync` is
`converters.Sync()`: one backend call per visit of the gateway converter (`GwVisit`; zero globals;
the mapper holds the Service annotations for the paths linked by the visit that CREATED the backend
and nothing in a later visit of the same backend), then `fullSyncAnnotations` of the ingress
converter.  The per-path step of `buildBackendAuthExternal` is the parameter `step`: `authStep` is
the code, `authStepScratch` the variant that assigns a scratch value unconditionally (seed C18e).
Spec: `pathOk` (Model/C18.lean), evaluated with the configured globals.
-/
namespace HapVerif.C18

/-! ## the one-batch model is the special case "every call sees every path" -/

theorem run_eq_runCalls (v : Variant) (w : World) (ho bo : List Nat) :
    run v w ho bo = runCalls authStep v w (ingCalls w.globals (List.range w.paths.length) ho bo) := by
  unfold run runCalls ingCalls
  rw [List.foldl_append, List.foldl_map, List.foldl_map]
  simp only [applyCall, viewOf_full, backendPhaseWith_authStep]

/-! ## re-running the builders with a mapper that knows nothing -/

/-- **idempotence under a re-run with an empty mapper**: from EVERY state — in particular every
state a first run with any declared values leads to — any number `k` of further
`UpdateBackendConfig` calls on the backend with an empty mapper (whatever the globals of those
calls) leaves the whole state as it was: AuthBackendName, AlwaysDeny, AuthPath, what
`buildBackendOAuth` wrote (name, AllowedPath, RedirectOnFail) of every path, and the bind list -/
theorem rerun_empty_mapper_keeps_auth (v : Variant) (w : World) (g : Globals) (b k : Nat) (st : St) :
    (List.replicate k (Call.backend g b [])).foldl (applyCall authStep v w) st = st := by
  induction k with
  | zero => rfl
  | succ k ih =>
    rw [List.replicate_succ, List.foldl_cons]
    have : applyCall authStep v w st (Call.backend g b []) = st := backendPhase_empty_mapper v w g st b
    rw [this]
    exact ih

/-- a mapper that holds annotations for SOME paths (a visit that links new paths to an existing
backend): the records of the paths it does not hold are untouched -/
theorem rerun_keeps_unmapped_records (v : Variant) (w : World) (g : Globals) (b : Nat) (m : List Nat)
    (st : St) (i : Nat) (hi : i ∉ m) :
    (applyCall authStep v w st (Call.backend g b m)).brec i = st.brec i :=
  applyCall_keep (c := .backend g b m) hi

/-! ## fail closed over lists of calls -/

theorem wants_congr {w w' : World} (h : (w.isExternal && !w.hasLua) = (w'.isExternal && !w'.hasLua))
    (p : PathIn) : wants w' p = wants w p := by
  have hr : ∀ u, resolveTarget w'.isExternal w'.hasLua u = resolveTarget w.isExternal w.hasLua u := by
    intro u
    unfold resolveTarget
    rw [h]
  unfold wants
  cases p.url with
  | absent => rfl
  | empty => rfl
  | val u => simp only [hr]

theorem pathOk_congr {w w' : World} (binds : List Bind) (p : PathIn) (o : Obs)
    (h : wants w' p = wants w p) : pathOk w' binds p o = pathOk w binds p o := by
  unfold pathOk
  rw [h]

/-- **fail closed, any list of calls** (repaired `buildBackendOAuth`): a path whose annotations
reach the updater in exactly one `UpdateBackendConfig` call — however many other calls run before
and after it, on other backends, on hosts, or on its own backend with mappers that do not hold it —
gets from its backend section `deny`, or the intercept through a port bound to the backend of its
own URL / through its oauth2-proxy backend followed by deny-or-redirect unless successful, judged
with the globals of that call.  Side condition as in `fail_closed_partial` (the
full statement without it fails already for one call: `fail_closed_fails`). -/
theorem calls_fail_closed_partial (v : Variant) (hv : v.oauthOwn = true) (w : World) (pre post : List Call)
    (g : Globals) (m : List Nat) (i : Nat) (p : PathIn) (hp : w.paths[i]? = some p) (him : i ∈ m)
    (hpre : ∀ c ∈ pre, NotMapping i c) (hpost : ∀ c ∈ post, NotMapping i c)
    (hside : ¬ (p.url.nonEmpty = true ∧ ownPlc p ≠ .backend)) :
    pathOk (viewOf w g m) (runCalls authStep v w (pre ++ [.backend g p.backend m] ++ post)).binds p
      (obsOf w (runCalls authStep v w (pre ++ [.backend g p.backend m] ++ post)) i) = true := by
  cases hd : declared p with
  | false => simp [pathOk, hd]
  | true =>
    obtain ⟨r1, hpost', hfin⟩ := runCalls_brec (v := v) (g := g) hp him hpre hpost
    rw [hv] at hfin
    obtain ⟨hs, hrec⟩ := runCalls_inv v w (pre ++ [.backend g p.backend m] ++ post)
    generalize runCalls authStep v w (pre ++ [.backend g p.backend m] ++ post) = st at hfin hs hrec ⊢
    have hrb : (obsOf w st i).rb = rulesOf (oauthRec true (viewOf w g m) p r1) := by
      unfold obsOf
      rw [hp]
      simp only
      rw [backendRules_eq _ _ (mem_backendIdxs.mpr ⟨p, hp, rfl⟩), hfin]
    have hcov := final_rules_covered (w := viewOf w g m) (binds := st.binds) hs hpost'
      (by
        intro P hn
        obtain ⟨p', u, hp', hu, hb⟩ := hrec i P (by rw [hfin]; exact hn)
        rw [hp] at hp'
        injection hp' with hp'
        subst hp'
        exact ⟨u, hu, hb⟩) hd hside
    simp only [pathOk, hrb, hcov, Bool.or_true, Bool.true_or]

/-! ## the gateway flow -/

/-- the property on the model: every path linked by a route, in every sync -/
def GwFailClosed (step : AuthStep) (v : Variant) : Prop :=
  ∀ (w : World) (visits : List GwVisit) (ing ho bo : List Nat) (i : Nat) (p : PathIn),
    w.paths[i]? = some p → (∃ vis ∈ visits, vis.backend = p.backend) →
    pathOk w (gwSync step v w visits ing ho bo).binds p
      (obsOf w (gwSync step v w visits ing ho bo) i) = true

/- Full-strength statement: `theorem fails_closed_gateway : GwFailClosed authStep vBoth` (the
   current code).  It does not hold (`gw_fail_closed_fails` below: the three known findings of the
   gateway flow, witnesses `gateway_later_visit_path_unprotected`,
   `gateway_frontend_placement_ignored`, `gateway_ignores_missing_lua`); what is proved is the
   statement under their three explicit side conditions:
   * `him`/`hpre`/`hpost`: the path is linked by the visit that CREATES its backend (the only visit
     whose mapper holds the Service annotations) — any number of other visits around it;
   * `hside`: no auth-url with a placement other than `backend`;
   * `hlua`: the controller is not "external without Lua", the one global that `setAuthExternal`
     would need parsed before the gateway converter runs. -/

/-- **fail closed for `k` runs as for one**: a path linked by an HTTPRoute whose Service
annotations reach the updater in the visit that creates its backend (`vis0`), with ANY visits
before and after — the same backend reached again any number of times with an empty mapper (a
Gateway with several accepting listeners, several parentRefs), other routes, and the whole ingress
flow afterwards — is denied or intercepted through its own service.  Side conditions: the
controller is not "external without Lua" (the gateway converter runs before the globals are known,
`gateway_ignores_missing_lua`), and the placement side condition of `fail_closed_partial`. -/
theorem fails_closed_gateway_partial (v : Variant) (hv : v.oauthOwn = true) (w : World)
    (pre post : List GwVisit) (m : List Nat) (ing ho bo : List Nat) (i : Nat) (p : PathIn)
    (hp : w.paths[i]? = some p) (him : i ∈ m)
    (hpre : ∀ vis ∈ pre, i ∉ vis.mapped) (hpost : ∀ vis ∈ post, i ∉ vis.mapped) (hing : i ∉ ing)
    (hlua : (w.isExternal && !w.hasLua) = false)
    (hside : ¬ (p.url.nonEmpty = true ∧ ownPlc p ≠ .backend)) :
    pathOk w (gwSync authStep v w (pre ++ [⟨p.backend, m⟩] ++ post) ing ho bo).binds p
      (obsOf w (gwSync authStep v w (pre ++ [⟨p.backend, m⟩] ++ post) ing ho bo) i) = true := by
  have hcalls : gwCalls (pre ++ [⟨p.backend, m⟩] ++ post) ++ ingCalls w.globals ing ho bo =
      gwCalls pre ++ [.backend Globals.zero p.backend m] ++ (gwCalls post ++ ingCalls w.globals ing ho bo) := by
    simp [gwCalls, List.append_assoc]
  have h1 : ∀ c ∈ gwCalls pre, NotMapping i c := by
    intro c hc
    obtain ⟨vis, hvis, rfl⟩ := List.mem_map.mp hc
    exact hpre vis hvis
  have h2 : ∀ c ∈ gwCalls post ++ ingCalls w.globals ing ho bo, NotMapping i c := by
    intro c hc
    rcases List.mem_append.mp hc with hc | hc
    · obtain ⟨vis, hvis, rfl⟩ := List.mem_map.mp hc
      exact hpost vis hvis
    · unfold ingCalls at hc
      rcases List.mem_append.mp hc with hc | hc
      · obtain ⟨h, _, rfl⟩ := List.mem_map.mp hc
        trivial
      · obtain ⟨b, _, rfl⟩ := List.mem_map.mp hc
        exact hing
  have := calls_fail_closed_partial v hv w (gwCalls pre) (gwCalls post ++ ingCalls w.globals ing ho bo)
    Globals.zero m i p hp him h1 h2 hside
  unfold gwSync
  rw [hcalls]
  rw [pathOk_congr _ _ _ (wants_congr (w := w) (w' := viewOf w Globals.zero m) (by rw [hlua]; rfl) p)] at this
  exact this

/-! ### witnesses -/

/-- route r1 rule 0 -/
def bR1 : Nat := 110

/-- one HTTPRoute path `h0.local/a` (Prefix) whose Service declares the annotation `url`
(harness: `gw x0l0r2 aa 0.<url>.-.-.- 0.1.0p~0 -`) -/
def wRoute (url : UrlAnn) (plc : Plc) (oauth : OAuthAnn) : World :=
  mkWorld 14415 14416 [mkPath 0 bR1 "h0.local#/a" "dir" "h0.local#/a/sub" url plc oauth]

/-- a Gateway with two accepting listeners, a route without sectionName: the backend is created
and annotated by the first visit and reached again, with an empty mapper, by the second -/
def twoVisits : List GwVisit := [⟨bR1, [0]⟩, ⟨bR1, []⟩]

/-- the code: the second visit changes nothing — intercept through the bound port, resp. deny,
resp. the oauth2-proxy intercept, exactly as after one visit; the oracle is satisfied -/
theorem two_listeners_keep_auth :
    let w1 := wRoute (.val (uOk 1 "/auth")) .absent .absent
    let w2 := wRoute (.val uMalformed) .absent .absent
    let w3 := wRoute .absent .absent oauthOk
    let s1 := gwSync authStep vBoth w1 twoVisits [] [] []
    let s2 := gwSync authStep vBoth w2 twoVisits [] [] []
    let s3 := gwSync authStep vBoth w3 twoVisits [] [] []
    s1.brec 0 = { name := .proxy 0, authPath := "/auth" } ∧ s1.binds = [⟨0, 1⟩] ∧
    (obsOf w1 s1 0).rb = [.icpt (.proxy 0) "/auth" "", .unless false ""] ∧
    gwOracle w1 s1.binds [.route true] [obsOf w1 s1 0] = none ∧
    (obsOf w2 s2 0).rb = [.deny] ∧ gwOracle w2 s2.binds [.route true] [obsOf w2 s2 0] = none ∧
    (obsOf w3 s3 0).rb = [.icpt (.backend "default_oauth2proxy_8080") "/oauth2/auth" "/oauth2/", .unless true "/oauth2/"] ∧
    gwOracle w3 s3.binds [.route true] [obsOf w3 s3 0] = none := by
  decide +kernel

/-- **seed C18e** (`path.AuthExternal = auth` assigned unconditionally): the second visit wipes
the record — no intercept for a valid auth-url, no `deny` for a malformed one, the oauth2-proxy
fields gone — although one visit alone leaves all three in place; the oracle answers
`declared-path-no-rule` -/
theorem scratch_builder_drops_auth_on_rerun :
    let w1 := wRoute (.val (uOk 1 "/auth")) .absent .absent
    let w2 := wRoute (.val uMalformed) .absent .absent
    let w3 := wRoute .absent .absent oauthOk
    let s1 := gwSync authStepScratch vBoth w1 twoVisits [] [] []
    let s2 := gwSync authStepScratch vBoth w2 twoVisits [] [] []
    let s3 := gwSync authStepScratch vBoth w3 twoVisits [] [] []
    s1.brec 0 = {} ∧ (obsOf w1 s1 0).rb = [] ∧
    gwOracle w1 s1.binds [.route true] [obsOf w1 s1 0] = some "declared-path-no-rule" ∧
    s2.brec 0 = {} ∧ (obsOf w2 s2 0).rb = [] ∧
    gwOracle w2 s2.binds [.route true] [obsOf w2 s2 0] = some "declared-path-no-rule" ∧
    s3.brec 0 = {} ∧ (obsOf w3 s3 0).rb = [] ∧
    gwOracle w3 s3.binds [.route true] [obsOf w3 s3 0] = some "declared-path-no-rule" ∧
    -- one visit: the variant behaves like the code
    (gwSync authStepScratch vBoth w1 [⟨bR1, [0]⟩] [] [] []).brec 0 = { name := .proxy 0, authPath := "/auth" } ∧
    (gwSync authStepScratch vBoth w2 [⟨bR1, [0]⟩] [] [] []).brec 0 = { alwaysDeny := true } := by
  decide +kernel

/-- the variant is not idempotent under a re-run with an empty mapper; the code is
(`rerun_empty_mapper_keeps_auth`) -/
theorem scratch_builder_not_idempotent :
    let w := wRoute (.val uMalformed) .absent .absent
    let st := applyCall authStepScratch vBoth w {} (.backend Globals.zero bR1 [0])
    st.brec 0 = { alwaysDeny := true } ∧
    (applyCall authStepScratch vBoth w st (.backend Globals.zero bR1 [])).brec 0 = {} := by
  decide +kernel

/-- the second listener has a hostname of its own: the second visit links `h1.local/a` to the
backend that exists, `createBackend` hands out no services, the new path gets no annotations
(harness: `gw x0l0r2 a1 0.h1.-.-.- 0.1.0p~0 -`) -/
def wLater : World :=
  mkWorld 14415 14416
    [mkPath 0 bR1 "h0.local#/a" "dir" "h0.local#/a/sub" (.val (uOk 1 "/auth")) .absent .absent,
     mkPath 1 bR1 "h1.local#/a" "dir" "h1.local#/a/sub" (.val (uOk 1 "/auth")) .absent .absent]

theorem gateway_later_visit_path_unprotected :
    let st := gwSync authStep vBoth wLater twoVisits [] [] []
    (obsOf wLater st 0).rb = [.icpt (.proxy 0) "/auth" "", .unless false ""] ∧
    st.brec 1 = {} ∧ (obsOf wLater st 1).rb = [] ∧
    gwOracle wLater st.binds [.route true, .route false] [obsOf wLater st 0, obsOf wLater st 1] =
      some "gateway-path-linked-on-a-later-visit-gets-no-service-annotations" := by
  decide +kernel

/-- a Service annotated with auth-url and placement `frontend`: `buildBackendAuthExternal` skips
it, and no `UpdateHostConfig` runs for a host the gateway converter creates
(harness: `gw x0l0r2 a 0.h1.f.-.- 0.1.0p~0 -`) -/
theorem gateway_frontend_placement_ignored :
    let w := wRoute (.val (uOk 1 "/auth")) .frontend .absent
    let st := gwSync authStep vBoth w [⟨bR1, [0]⟩] [] [] []
    obsOf w st 0 = ⟨[], [], []⟩ ∧
    gwOracle w st.binds [.route true] [obsOf w st 0] =
      some "gateway-service-auth-url-with-frontend-placement-ignored" := by
  decide +kernel

/-- an external HAProxy without the Lua json module: the gateway converter runs before
`UpdateGlobalConfig`, `setAuthExternal` still sees `IsExternal = false` and renders the intercept
where the Ingress flow denies (harness: `gw x1l0r2 a 0.h1.-.-.- 0.1.0p~0 -`) -/
theorem gateway_ignores_missing_lua :
    let w := { wRoute (.val (uOk 1 "/auth")) .absent .absent with isExternal := true }
    let st := gwSync authStep vBoth w [⟨bR1, [0]⟩] [] [] []
    (obsOf w st 0).rb = [.icpt (.proxy 0) "/auth" "", .unless false ""] ∧ wants w (mkPath 0 bR1 "h0.local#/a" "dir" "h0.local#/a/sub" (.val (uOk 1 "/auth")) .absent .absent) = [] ∧
    gwOracle w st.binds [.route true] [obsOf w st 0] =
      some "gateway-auth-built-before-the-globals-ignores-missing-lua" ∧
    -- the same declaration on an Ingress path, same globals: denied
    (obsOf w (gwSync authStep vBoth w [] [0] [0] [bR1]) 0).rb = [.deny] := by
  decide +kernel

/-- the full statement fails for the current code -/
theorem gw_fail_closed_fails : ¬ GwFailClosed authStep vBoth := by
  intro h
  have := h wLater twoVisits [] [] [] 1 _ rfl ⟨⟨bR1, [0]⟩, by decide, rfl⟩
  revert this
  decide +kernel

/-- and for the seeded variant already on a sync in which every path is annotated by the visit
that creates its backend -/
theorem gw_fail_closed_scratch_fails : ¬ GwFailClosed authStepScratch vBoth := by
  intro h
  have := h (wRoute (.val uMalformed) .absent .absent) twoVisits [] [] [] 0 _ rfl ⟨⟨bR1, [0]⟩, by decide, rfl⟩
  revert this
  decide +kernel

/-- non-vacuity of `fails_closed_gateway_partial` / `rerun_empty_mapper_keeps_auth`: a declared path, its
backend reached three times (`k = 2` re-runs), another route's backend in between, an Ingress
afterwards; the path keeps its intercept and the state after the re-runs is the state before -/
example :
    let w := mkWorld 14415 14416
      [mkPath 0 bR1 "h0.local#/a" "dir" "h0.local#/a/sub" (.val (uOk 1 "/auth")) .absent .absent,
       mkPath 1 120 "h1.local#/a" "dir" "h1.local#/a/sub" (.val (uOk 2 "/check")) .absent .absent,
       mkPath 2 1 "h2.local#/b" "str" "h2.local#/b" (.val (uOk 2 "/check")) .backend .absent]
    let visits : List GwVisit := [⟨bR1, [0]⟩, ⟨120, [1]⟩, ⟨bR1, []⟩, ⟨bR1, []⟩]
    let st := gwSync authStep vBoth w visits [2] [2] [1]
    w.paths.all declared = true ∧
    (obsOf w st 0).rb = [.icpt (.proxy 0) "/auth" "", .unless false ""] ∧
    (obsOf w st 1).rb = [.deny] ∧        -- the range 0..0 is exhausted by the first route
    (obsOf w st 2).rb = [.icpt (.proxy 14415) "/check" "", .unless false ""] ∧
    st.binds = [⟨0, 1⟩, ⟨14415, 2⟩] ∧
    gwOracle w st.binds [.route true, .route true, .ingress] [obsOf w st 0, obsOf w st 1, obsOf w st 2] = none := by
  decide +kernel

/-! ## facts regenerated from the Go sources -/

/-- `buildBackendAuthExternal` writes the path record only through `setAuthExternal` called on the
record itself (no unconditional assignment: the driver models `authStep`); `createBackend` answers
a backend that exists without its services; `syncHTTPRouteGateway` passes them on to
`ReadAnnotations`, which registers the Service annotations for the given links in a fresh mapper
and runs `UpdateBackendConfig`; `converters.Sync` clears the configuration, runs the gateway
converter and then the ingress converter, whose `syncFull` is where `UpdateGlobalConfig` runs -/
theorem facts_c18_gw :
    Facts.c18BackendAuthWrites = ["c.setAuthExternal(config, &path.AuthExternal, url)"] ∧
    Facts.c18GwCreateBackendFirst = ["habackend := c.haproxy.Backends().FindBackend(routeSource.namespace, routeSource.name, index)",
      "habackend != nil", "return habackend, nil"] ∧
    Facts.c18GwReadAnnotationsArgs = ["backend, services, pathLinks"] ∧
    Facts.c18ReadAnnotationsCalls = ["c.mapBuilder.NewMapper()", "mapper.AddAnnotations(source, pathLink, ann)",
      "c.updater.UpdateBackendConfig(backend, mapper)"] ∧
    Facts.c18ConvertersSyncOrder = ["c.haproxy.Clear", "gatewayConverter.Sync", "gatewayConverter.Sync",
      "gatewayConverter.Sync", "ingressConverter.Sync"] ∧
    Facts.c18SyncFullOrder = ["c.updater.UpdateGlobalConfig", "c.syncIngress", "c.fullSyncAnnotations"] ∧
    currentAuthStepName = "authStep" := by
  decide +kernel

end HapVerif.C18
